import XalanModel.C10.Conflict
/-!
# C10 — helper lemmas (sortedness of the pattern lists, the two `findTemplate` bodies on a sorted list,
visiting order of the import tree)
-/
namespace XalanModel.C10

/-- `a` does not come after `b` in the order `addToList` maintains: higher priority-or-default first, then higher
position (= later in the stylesheet) first -/
def MPD.ge (a b : MPD) : Prop :=
  a.prioOrDefault > b.prioOrDefault ∨ (a.prioOrDefault = b.prioOrDefault ∧ a.pos ≥ b.pos)

theorem MPD.ge_trans {a b c : MPD} (h1 : a.ge b) (h2 : b.ge c) : a.ge c := by
  unfold MPD.ge at *; omega

abbrev Sorted (l : List MPD) : Prop := l.Pairwise MPD.ge

theorem mem_addToList {l : List MPD} {p x : MPD} : x ∈ addToList l p ↔ x = p ∨ x ∈ l := by
  induction l with
  | nil => simp [addToList]
  | cons c rest ih =>
    simp only [addToList]
    split
    · simp
    · split
      · simp
      · simp only [List.mem_cons, ih]
        constructor
        · rintro (h | h | h)
          · exact Or.inr (Or.inl h)
          · exact Or.inl h
          · exact Or.inr (Or.inr h)
        · rintro (h | h | h)
          · exact Or.inr (Or.inl h)
          · exact Or.inl h
          · exact Or.inr (Or.inr h)

theorem addToList_sorted' {l : List MPD} (p : MPD) (h : Sorted l) : Sorted (addToList l p) := by
  induction l with
  | nil => simp [addToList]
  | cons c rest ih =>
    have hc := List.pairwise_cons.mp h
    simp only [addToList]
    split
    · rename_i hgt
      refine List.pairwise_cons.mpr ⟨?_, h⟩
      intro x hx
      have hpc : p.ge c := Or.inl hgt
      rcases List.mem_cons.mp hx with rfl | hx
      · exact hpc
      · exact MPD.ge_trans hpc (hc.1 x hx)
    · split
      · rename_i hngt heq
        refine List.pairwise_cons.mpr ⟨?_, h⟩
        intro x hx
        have hpc : p.ge c := Or.inr ⟨heq.1, Nat.le_of_lt heq.2⟩
        rcases List.mem_cons.mp hx with rfl | hx
        · exact hpc
        · exact MPD.ge_trans hpc (hc.1 x hx)
      · rename_i hngt hneq
        refine List.pairwise_cons.mpr ⟨?_, ih hc.2⟩
        intro x hx
        rcases mem_addToList.mp hx with rfl | hx
        · unfold MPD.ge; omega
        · exact hc.1 x hx

theorem foldl_addToList_sorted (xs : List MPD) {l : List MPD} (h : Sorted l) : Sorted (xs.foldl addToList l) := by
  induction xs generalizing l with
  | nil => exact h
  | cons x xs ih => exact ih (addToList_sorted' x h)

/-- every list of a name table is sorted -/
def TableSorted (t : NameTable) : Prop := ∀ kl ∈ t, Sorted kl.2

theorem tableAdd_sorted {t : NameTable} (n : String) (p : MPD) (h : TableSorted t) : TableSorted (tableAdd t n p) := by
  induction t with
  | nil =>
    intro kl hkl
    simp only [tableAdd, List.mem_singleton] at hkl
    subst hkl; simp
  | cons hd rest ih =>
    obtain ⟨k, l⟩ := hd
    have hrest : TableSorted rest := fun kl hkl => h kl (List.mem_cons_of_mem _ hkl)
    have hl : Sorted l := h (k, l) (List.mem_cons_self ..)
    intro kl hkl
    simp only [tableAdd] at hkl
    split at hkl
    · rcases List.mem_cons.mp hkl with rfl | hkl
      · exact addToList_sorted' p hl
      · exact hrest kl hkl
    · rcases List.mem_cons.mp hkl with rfl | hkl
      · exact hl
      · exact ih hrest kl hkl

theorem tableFind_mem {t : NameTable} {n : String} {l : List MPD} (h : tableFind t n = some l) : ∃ k, (k, l) ∈ t := by
  induction t with
  | nil => simp [tableFind] at h
  | cons hd rest ih =>
    obtain ⟨k, l'⟩ := hd
    simp only [tableFind] at h
    split at h
    · simp only [Option.some.injEq] at h; subst h; exact ⟨k, List.mem_cons_self ..⟩
    · obtain ⟨k', hk'⟩ := ih h; exact ⟨k', List.mem_cons_of_mem _ hk'⟩

theorem addToTable_sorted {t : NameTable} (l : List MPD) (h : TableSorted t) : TableSorted (addToTable t l) := by
  intro kl hkl
  simp only [addToTable, List.mem_map] at hkl
  obtain ⟨kl0, hmem, rfl⟩ := hkl
  exact foldl_addToList_sorted l (h kl0 hmem)

/-- the invariant of `table_sorted` -/
structure Tables.AllSorted (tb : Tables) : Prop where
  elemTable : TableSorted tb.elemTable
  attrTable : TableSorted tb.attrTable
  elemAny : Sorted tb.elemAny
  attrAny : Sorted tb.attrAny
  text : Sorted tb.text
  comment : Sorted tb.comment
  root : Sorted tb.root
  pi : Sorted tb.pi
  node : Sorted tb.node

theorem empty_allSorted : ({} : Tables).AllSorted := by
  constructor <;> simp [TableSorted]

theorem route_allSorted {tb : Tables} (td : TargetData) (p : MPD) (h : tb.AllSorted) : (route tb td p).AllSorted := by
  obtain ⟨h1, h2, h3, h4, h5, h6, h7, h8, h9⟩ := h
  unfold route
  split
  · exact ⟨h1, h2, h3, h4, addToList_sorted' p h5, h6, h7, h8, h9⟩
  · exact ⟨h1, h2, h3, h4, h5, addToList_sorted' p h6, h7, h8, h9⟩
  · exact ⟨h1, h2, h3, h4, h5, h6, addToList_sorted' p h7, h8, h9⟩
  · exact ⟨h1, h2, h3, h4, h5, h6, h7, addToList_sorted' p h8, h9⟩
  · exact ⟨h1, h2, addToList_sorted' p h3, addToList_sorted' p h4, addToList_sorted' p h5, addToList_sorted' p h6, h7,
      addToList_sorted' p h8, addToList_sorted' p h9⟩
  · split
    · exact ⟨h1, h2, addToList_sorted' p h3, h4, h5, h6, h7, h8, h9⟩
    · exact ⟨h1, h2, h3, addToList_sorted' p h4, h5, h6, h7, h8, h9⟩
    · split
      · exact ⟨h1, h2, addToList_sorted' p h3, addToList_sorted' p h4, addToList_sorted' p h5, addToList_sorted' p h6,
          addToList_sorted' p h7, addToList_sorted' p h8, addToList_sorted' p h9⟩
      · exact ⟨h1, h2, addToList_sorted' p h3, addToList_sorted' p h4, h5, h6, h7, h8, h9⟩
    · exact ⟨h1, h2, h3, h4, h5, h6, h7, h8, h9⟩
  · split
    · exact ⟨tableAdd_sorted _ p h1, h2, h3, h4, h5, h6, h7, h8, h9⟩
    · exact ⟨h1, tableAdd_sorted _ p h2, h3, h4, h5, h6, h7, h8, h9⟩
    · exact ⟨h1, h2, h3, h4, h5, h6, h7, h8, h9⟩

theorem addAlts_allSorted (t : Tmpl) (alts : List AltDesc) (i : Nat) {tb : Tables} (h : tb.AllSorted) :
    (addAlts t alts i tb).AllSorted := by
  induction alts generalizing i tb with
  | nil => exact h
  | cons a rest ih =>
    simp only [addAlts]
    apply ih
    apply route_allSorted
    exact ⟨h.1, h.2, h.3, h.4, h.5, h.6, h.7, h.8, h.9⟩

theorem addTemplate_allSorted (t : Tmpl) {tb : Tables} (h : tb.AllSorted) : (addTemplate tb t).AllSorted :=
  addAlts_allSorted t t.alts 0 h

theorem foldl_addTemplate_allSorted (ts : List Tmpl) {tb : Tables} (h : tb.AllSorted) :
    (ts.foldl addTemplate tb).AllSorted := by
  induction ts generalizing tb with
  | nil => exact h
  | cons t ts ih => exact ih (addTemplate_allSorted t h)

theorem postConstruction_allSorted {tb : Tables} (h : tb.AllSorted) : (postConstruction tb).AllSorted :=
  ⟨addToTable_sorted _ h.1, addToTable_sorted _ h.2, h.3, h.4, h.5, h.6, h.7, h.8, h.9⟩

theorem locate_sorted {tb : Tables} (h : tb.AllSorted) (k : NodeKind) (lname : String) : Sorted (locate tb k lname) := by
  cases k <;> simp only [locate]
  · cases hf : tableFind tb.elemTable lname with
    | none => exact h.elemAny
    | some l => obtain ⟨k', hk'⟩ := tableFind_mem hf; exact h.elemTable _ hk'
  · cases hf : tableFind tb.attrTable lname with
    | none => exact h.attrAny
    | some l => obtain ⟨k', hk'⟩ := tableFind_mem hf; exact h.attrTable _ hk'
  · exact List.Pairwise.nil
  · exact h.text
  · exact h.comment
  · exact h.pi
  · exact h.root
  · exact h.node

/-! ## the quiet body on a list -/

/-- the test both bodies apply to an entry: the mode fits and the whole pattern matches -/
def entryMatches (am : AltMatch) (mode : Nat) (m : MPD) : Bool :=
  modeOk mode m.tmpl.mode && entryHit am m

/-- the whole-pattern version (unchanged code) -/
def entryMatchesW (am : AltMatch) (mode : Nat) (m : MPD) : Bool :=
  modeOk mode m.tmpl.mode && (wholeScore am m.tmpl).isSome

theorem entryMatches_old (h : Generated.C10.perAlternativeMatch = false) (am : AltMatch) (mode : Nat) :
    entryMatches am mode = entryMatchesW am mode := by
  funext m; simp [entryMatches, entryMatchesW, entryHit, h]

theorem entryMatches_alt (h : Generated.C10.perAlternativeMatch = true) (am : AltMatch) (mode : Nat) (m : MPD) :
    entryMatches am mode m = (modeOk mode m.tmpl.mode && am m.tmpl m.alt) := by
  simp [entryMatches, entryHit, h]

theorem reportStep_old (h : Generated.C10.perAlternativeMatch = false) (am : AltMatch) (mode : Nat) :
    reportStep am mode = reportStepOld am mode := by
  funext s m; simp [reportStep, h]

theorem reportStep_alt (h : Generated.C10.perAlternativeMatch = true) (am : AltMatch) (mode : Nat) :
    reportStep am mode = reportStepAlt am mode := by
  funext s m; simp [reportStep, h]

theorem findQuietList_eq_find (am : AltMatch) (mode : Nat) (l : List MPD) :
    findQuietList am mode l = (l.find? (entryMatches am mode)).map (·.tmpl) := by
  induction l with
  | nil => rfl
  | cons m rest ih =>
    simp only [findQuietList, List.find?, entryMatches]
    cases h : (modeOk mode m.tmpl.mode && entryHit am m) <;> simp [ih]

/-! ## the reporting body on a sorted list -/

/-- loop invariant of the reporting body after the prefix `pre`, under the hypotheses of
`find_reporting_eq_quiet_partial` -/
structure RInv (am : AltMatch) (mode : Nat) (pre : List MPD) (s : RState) : Prop where
  prev : ∀ pm, s.prev = some pm → pm ∈ pre ∧ modeOk mode pm.tmpl.mode = true
  none_case : pre.find? (entryMatchesW am mode) = none → s.best = none ∧ s.bestPrio = none ∧ s.conflicts = []
  some_case : ∀ f, pre.find? (entryMatchesW am mode) = some f →
    s.bestPrio = some f.prioOrDefault ∧
      ((s.conflicts = [] ∧ s.best = some f) ∨ (∃ b tl, s.conflicts = f :: tl ∧ s.best = some b))

theorem addIfNotFound_head (f : MPD) (tl : List MPD) (b : MPD) : ∃ tl', addIfNotFound (f :: tl) b = f :: tl' := by
  unfold addIfNotFound
  split
  · exact ⟨tl, rfl⟩
  · exact ⟨tl ++ [b], rfl⟩

theorem find?_append_none {α} {p : α → Bool} {l : List α} {x : α} (h : l.find? p = none) :
    (l ++ [x]).find? p = if p x then some x else none := by
  simp only [List.find?_append, h, List.find?, Option.none_or]
  cases p x <;> rfl

theorem find?_append_some {α} {p : α → Bool} {l : List α} {x f : α} (h : l.find? p = some f) :
    (l ++ [x]).find? p = some f := by
  simp [List.find?_append, h]

/-- effective priority used by the reporting body for an entry whose pattern matches with score `sc` -/
def effPrio (m : MPD) (sc : DefScore) : Int :=
  match m.tmpl.prio with
  | some p => p
  | none => sc.value

theorem reportStep_inv (am : AltMatch) (mode : Nat) (pre : List MPD) (m : MPD) (s : RState)
    (hinv : RInv am mode pre s)
    (hsorted : ∀ a ∈ pre, a.ge m)
    (heff : ∀ sc, wholeScore am m.tmpl = some sc → effPrio m sc = m.prioOrDefault)
    (hpat : ∀ pm ∈ pre, pm.tmpl.pat = m.tmpl.pat → pm.tmpl.prio = m.tmpl.prio →
        wholeScore am pm.tmpl = wholeScore am m.tmpl) :
    RInv am mode (pre ++ [m]) (reportStepOld am mode s m) := by
  unfold reportStepOld
  by_cases hmode : modeOk mode m.tmpl.mode = true
  · simp only [hmode, if_true]
    -- duplicate test
    cases hprev : s.prev with
    | none =>
      simp only [Bool.false_eq_true, if_false]
      exact reportStep_inv_eval am mode pre m s hinv hsorted heff hmode
    | some pm =>
      by_cases hdup : dupTest pm m = true
      · simp only [hdup, if_true]
        obtain ⟨hpm, hpmode⟩ := hinv.prev pm hprev
        have hws : wholeScore am pm.tmpl = wholeScore am m.tmpl := by
          unfold dupTest at hdup
          split at hdup
          · have h2 := (Bool.and_eq_true _ _).mp hdup
            exact hpat pm hpm (eq_of_beq h2.1) (eq_of_beq h2.2)
          · rw [eq_of_beq hdup]
        refine ⟨?_, ?_, ?_⟩
        · intro q hq
          obtain ⟨h1, h2⟩ := hinv.prev q hq
          exact ⟨List.mem_append_left _ h1, h2⟩
        · intro hnone
          have hpre : pre.find? (entryMatchesW am mode) = none := by
            rw [List.find?_append] at hnone
            cases hh : pre.find? (entryMatchesW am mode) with
            | none => rfl
            | some f => simp [hh] at hnone
          exact hinv.none_case hpre
        · intro f hf
          cases hpre : pre.find? (entryMatchesW am mode) with
          | some f' =>
            rw [find?_append_some hpre] at hf
            simp only [Option.some.injEq] at hf; subst hf
            exact hinv.some_case f' hpre
          | none =>
            -- then `pm ∈ pre` does not match, hence `m` does not match either
            rw [find?_append_none hpre] at hf
            have hpmno : entryMatchesW am mode pm = false := by
              have := List.find?_eq_none.mp hpre pm hpm
              simpa using this
            have : entryMatchesW am mode m = false := by
              simp only [entryMatchesW, hpmode, Bool.true_and] at hpmno
              simp only [entryMatchesW, hmode, Bool.true_and, ← hws]
              exact hpmno
            simp [this] at hf
      · have hdup' : dupTest pm m = false := by
          simpa using hdup
        simp only [hdup', Bool.false_eq_true, if_false]
        exact reportStep_inv_eval am mode pre m s hinv hsorted heff hmode
  · have hmode' : modeOk mode m.tmpl.mode = false := by simpa using hmode
    simp only [hmode', Bool.false_eq_true, if_false]
    have hno : entryMatchesW am mode m = false := by simp [entryMatchesW, hmode']
    refine ⟨?_, ?_, ?_⟩
    · intro q hq
      obtain ⟨h1, h2⟩ := hinv.prev q hq
      exact ⟨List.mem_append_left _ h1, h2⟩
    · intro hnone
      have hpre : pre.find? (entryMatchesW am mode) = none := by
        rw [List.find?_append] at hnone
        cases hh : pre.find? (entryMatchesW am mode) with
        | none => rfl
        | some f => simp [hh] at hnone
      exact hinv.none_case hpre
    · intro f hf
      cases hpre : pre.find? (entryMatchesW am mode) with
      | some f' =>
        rw [find?_append_some hpre] at hf
        simp only [Option.some.injEq] at hf; subst hf
        exact hinv.some_case f' hpre
      | none =>
        rw [find?_append_none hpre] at hf
        simp [hno] at hf
where
  /-- the part of the step after the duplicate test: `prev := m`, evaluate, compare -/
  reportStep_inv_eval (am : AltMatch) (mode : Nat) (pre : List MPD) (m : MPD) (s : RState)
      (hinv : RInv am mode pre s)
      (hsorted : ∀ a ∈ pre, a.ge m)
      (heff : ∀ sc, wholeScore am m.tmpl = some sc → effPrio m sc = m.prioOrDefault)
      (hmode : modeOk mode m.tmpl.mode = true) :
      RInv am mode (pre ++ [m])
        (match wholeScore am m.tmpl with
          | none => { s with prev := some m }
          | some sc =>
            let pr : Int := match m.tmpl.prio with
              | some p => p
              | none => sc.value
            match ({ s with prev := some m } : RState).best, ({ s with prev := some m } : RState).bestPrio with
            | some b, some bp =>
              if pr > bp then { s with prev := some m, best := some m, bestPrio := some pr, conflicts := [] }
              else if pr = bp then
                { s with prev := some m, best := some m, bestPrio := some pr,
                         conflicts := addIfNotFound s.conflicts b ++ [m] }
              else { s with prev := some m }
            | _, _ => { s with prev := some m, best := some m, bestPrio := some pr, conflicts := [] }) := by
    have hprevNew : ∀ pm, some m = some pm → pm ∈ pre ++ [m] ∧ modeOk mode pm.tmpl.mode = true := by
      intro pm h; simp only [Option.some.injEq] at h; subst h
      exact ⟨List.mem_append_right _ (List.mem_singleton.mpr rfl), hmode⟩
    cases hws : wholeScore am m.tmpl with
    | none =>
      have hno : entryMatchesW am mode m = false := by simp [entryMatchesW, hws]
      refine ⟨hprevNew, ?_, ?_⟩
      · intro hnone
        have hpre : pre.find? (entryMatchesW am mode) = none := by
          rw [List.find?_append] at hnone
          cases hh : pre.find? (entryMatchesW am mode) with
          | none => rfl
          | some f => simp [hh] at hnone
        exact hinv.none_case hpre
      · intro f hf
        cases hpre : pre.find? (entryMatchesW am mode) with
        | some f' =>
          rw [find?_append_some hpre] at hf
          simp only [Option.some.injEq] at hf; subst hf
          exact hinv.some_case f' hpre
        | none =>
          rw [find?_append_none hpre] at hf
          simp [hno] at hf
    | some sc =>
      have hyes : entryMatchesW am mode m = true := by simp [entryMatchesW, hws, hmode]
      have hpr : (match m.tmpl.prio with | some p => p | none => sc.value) = m.prioOrDefault := heff sc hws
      simp only [hpr]
      cases hpre : pre.find? (entryMatchesW am mode) with
      | none =>
        obtain ⟨hb, hbp, hc⟩ := hinv.none_case hpre
        simp only [hb]
        refine ⟨hprevNew, ?_, ?_⟩
        · intro hnone
          rw [find?_append_none hpre] at hnone
          simp [hyes] at hnone
        · intro f hf
          rw [find?_append_none hpre] at hf
          simp only [hyes, if_true, Option.some.injEq] at hf
          subst hf
          exact ⟨rfl, Or.inl ⟨rfl, rfl⟩⟩
      | some f =>
        obtain ⟨hbp, hcase⟩ := hinv.some_case f hpre
        have hfm : f.ge m := hsorted f (List.mem_of_find?_eq_some hpre)
        have hbest : ∃ b, s.best = some b := by
          rcases hcase with ⟨_, hb⟩ | ⟨b, _, _, hb⟩
          · exact ⟨f, hb⟩
          · exact ⟨b, hb⟩
        obtain ⟨b, hb⟩ := hbest
        simp only [hb, hbp]
        have hle : m.prioOrDefault ≤ f.prioOrDefault := by unfold MPD.ge at hfm; omega
        have hngt : ¬ m.prioOrDefault > f.prioOrDefault := by omega
        simp only [hngt, if_false]
        by_cases heq : m.prioOrDefault = f.prioOrDefault
        · simp only [heq, if_true]
          refine ⟨hprevNew, ?_, ?_⟩
          · intro hnone; rw [find?_append_some hpre] at hnone; simp at hnone
          · intro f' hf'
            rw [find?_append_some hpre] at hf'
            simp only [Option.some.injEq] at hf'; subst hf'
            refine ⟨rfl, Or.inr ?_⟩
            rcases hcase with ⟨hc, hb'⟩ | ⟨b', tl, hc, hb'⟩
            · rw [hb] at hb'; simp only [Option.some.injEq] at hb'; subst hb'
              exact ⟨m, [m], by simp [hc, addIfNotFound], rfl⟩
            · obtain ⟨tl', htl'⟩ := addIfNotFound_head f tl b
              exact ⟨m, tl' ++ [m], by simp [hc, htl'], rfl⟩
        · simp only [heq, if_false]
          refine ⟨hprevNew, ?_, ?_⟩
          · intro hnone; rw [find?_append_some hpre] at hnone; simp at hnone
          · intro f' hf'
            rw [find?_append_some hpre] at hf'
            simp only [Option.some.injEq] at hf'; subst hf'
            refine ⟨rfl, ?_⟩
            rcases hcase with ⟨hc, hb'⟩ | ⟨b', tl, hc, _⟩
            · left; exact ⟨hc, by rw [← hb, hb']⟩
            · right; exact ⟨b, tl, hc, rfl⟩

theorem foldl_reportStep_inv (am : AltMatch) (mode : Nat) (rest pre : List MPD) (s : RState)
    (hinv : RInv am mode pre s)
    (hsorted : Sorted (pre ++ rest))
    (heff : ∀ m ∈ rest, ∀ sc, wholeScore am m.tmpl = some sc → effPrio m sc = m.prioOrDefault)
    (hpat : ∀ a ∈ pre ++ rest, ∀ b ∈ pre ++ rest, a.tmpl.pat = b.tmpl.pat → a.tmpl.prio = b.tmpl.prio →
        wholeScore am a.tmpl = wholeScore am b.tmpl) :
    RInv am mode (pre ++ rest) (rest.foldl (reportStepOld am mode) s) := by
  induction rest generalizing pre s with
  | nil => simpa using hinv
  | cons m rest ih =>
    simp only [List.foldl_cons]
    have hsplit : pre ++ m :: rest = (pre ++ [m]) ++ rest := by simp
    rw [hsplit]
    apply ih
    · apply reportStep_inv am mode pre m s hinv
      · intro a ha
        have := List.pairwise_append.mp hsorted
        exact this.2.2 a ha m (List.mem_cons_self ..)
      · exact heff m (List.mem_cons_self ..)
      · intro pm hpm h1 h2
        exact hpat pm (List.mem_append_left _ hpm) m (List.mem_append_right _ (List.mem_cons_self ..)) h1 h2
    · rw [← hsplit]; exact hsorted
    · intro x hx; exact heff x (List.mem_cons_of_mem _ hx)
    · rw [← hsplit]; exact hpat

end XalanModel.C10

namespace XalanModel.C10

/-! ## visiting order of the import tree -/

def firstSome {α β : Type} (f : α → Option β) : List α → Option β
  | [] => none
  | x :: rest => match f x with
    | some y => some y
    | none => firstSome f rest

theorem firstSome_append {α β : Type} (f : α → Option β) (a b : List α) :
    firstSome f (a ++ b) = (firstSome f a).or (firstSome f b) := by
  induction a with
  | nil => simp [firstSome]
  | cons x rest ih =>
    simp only [List.cons_append, firstSome]
    cases f x <;> simp [ih]

mutual
/-- no module of the tree is a simplified ("wrapperless") stylesheet -/
def Src.noWrapper : Src → Bool
  | .mk w _ imps => !w && importsNoWrapper imps
def importsNoWrapper : List Src → Bool
  | [] => true
  | s :: rest => s.noWrapper && importsNoWrapper rest
end

/-- what one `Stylesheet` object contributes: the selected body run on the list `locateMatchPatternDataList` returns -/
def findInTables (am : AltMatch) (k : NodeKind) (lname : String) (mode : Nat) (quiet : Bool) (ts : List Tmpl) :
    Option Tmpl :=
  let l := locate (buildTables ts) k lname
  if quiet then findQuietList am mode l else findReportList am mode l

mutual
theorem Src.find_eq_firstSome (am : AltMatch) (k : NodeKind) (lname : String) (mode : Nat) (quiet : Bool) :
    (s : Src) → s.noWrapper = true →
      s.build.find am k lname mode quiet false
        = firstSome (findInTables am k lname mode quiet) s.byPrecedence
  | .mk w ts imps, h => by
    simp only [Src.noWrapper, Bool.and_eq_true, Bool.not_eq_true'] at h
    obtain ⟨hw, himps⟩ := h
    subst hw
    have := imports_find_eq_firstSome am k lname mode quiet imps himps []
    simp only [Src.build, Built.find, Src.byPrecedence, firstSome, findInTables, Bool.false_eq_true, if_false] at *
    rw [this]
    simp only [findInImports, Option.or_none]
    cases quiet <;> simp only [Bool.false_eq_true, if_false, if_true] <;> split <;> simp_all
theorem imports_find_eq_firstSome (am : AltMatch) (k : NodeKind) (lname : String) (mode : Nat) (quiet : Bool) :
    (imps : List Src) → importsNoWrapper imps = true → (acc : List Built) →
      findInImports am k lname mode quiet (buildImports imps acc)
        = (firstSome (findInTables am k lname mode quiet) (importsByPrecedence imps)).or
            (findInImports am k lname mode quiet acc)
  | [], _, acc => by simp [buildImports, importsByPrecedence, firstSome]
  | s :: rest, h, acc => by
    simp only [importsNoWrapper, Bool.and_eq_true] at h
    have h1 := Src.find_eq_firstSome am k lname mode quiet s h.1
    have h2 := imports_find_eq_firstSome am k lname mode quiet rest h.2 (s.build :: acc)
    simp only [buildImports, importsByPrecedence]
    rw [h2, firstSome_append]
    simp only [findInImports, h1]
    cases firstSome (findInTables am k lname mode quiet) (importsByPrecedence rest) <;>
      cases firstSome (findInTables am k lname mode quiet) s.byPrecedence <;> simp
end

theorem specWinnerIn_eq_firstSome (am : AltMatch) (mode : Nat) (l : List (List Tmpl)) :
    specWinnerIn am mode l = firstSome (bestInSheet am mode) l := by
  induction l with
  | nil => rfl
  | cons ts rest ih =>
    simp only [specWinnerIn, firstSome]
    cases bestInSheet am mode ts <;> simp [ih]

theorem firstSome_congr {α β : Type} {f g : α → Option β} {l : List α} (h : ∀ x ∈ l, f x = g x) :
    firstSome f l = firstSome g l := by
  induction l with
  | nil => rfl
  | cons x rest ih =>
    simp only [firstSome, h x (List.mem_cons_self ..)]
    rw [ih (fun y hy => h y (List.mem_cons_of_mem _ hy))]

theorem modeOk_iff (mode rm : Nat) : modeOk mode rm = true ↔ rm = mode := by
  unfold modeOk
  by_cases h0 : mode = 0 <;> by_cases h1 : rm = 0 <;> simp [h0, h1] <;> omega

theorem find_quiet_list_spec' (am : AltMatch) (mode : Nat) (l : List MPD) (hs : Sorted l) :
    match findQuietList am mode l with
    | none => ∀ m ∈ l, entryMatches am mode m = false
    | some t => ∃ m ∈ l, m.tmpl = t ∧ entryMatches am mode m = true ∧
        ∀ m' ∈ l, entryMatches am mode m' = true → m.ge m' := by
  rw [findQuietList_eq_find]
  cases h : l.find? (entryMatches am mode) with
  | none =>
    simp only [Option.map_none]
    intro m hm
    have := List.find?_eq_none.mp h m hm
    simpa using this
  | some m =>
    simp only [Option.map_some]
    obtain ⟨hP, as, bs, hl, has⟩ := List.find?_eq_some_iff_append.mp h
    refine ⟨m, List.mem_of_find?_eq_some h, rfl, hP, ?_⟩
    intro m' hm' hP'
    subst hl
    have hpw := List.pairwise_append.mp hs
    rcases List.mem_append.mp hm' with h1 | h1
    · have := has m' h1; simp [hP'] at this
    · rcases List.mem_cons.mp h1 with rfl | h2
      · exact Or.inr ⟨rfl, Nat.le_refl _⟩
      · exact (List.pairwise_cons.mp hpw.2.1).1 m' h2


end XalanModel.C10
