import XalanModel.C10.CountProofs
/-!
# C10 — encodings used by `generated_tables_agree`, and the rules/trees used by the examples and counterexamples of
`Props/C10.lean` (kept out of the property file)
-/
namespace XalanModel.C10

def encPseudo : Pseudo → Nat
  | .text => 0 | .comment => 1 | .root => 2 | .pi => 3 | .node => 4 | .any => 5 | .name _ => 6

def encScore : DefScore → Nat
  | .nodeTest => 1 | .nsWild => 2 | .qname => 3 | .other => 4

def encTType : TType → Nat
  | .attribute => 0 | .element => 1 | .any => 2 | .other => 3

/-- the modelled last-step kinds with the translator's codes -/
def stepCodes : List (Nat × LastStep) :=
  [(0, .function), (1, .fromRoot), (2, .comment), (3, .text), (4, .node), (7, .piAny), (8, .piLit),
   (9, .name false "n"), (10, .name true "n"), (11, .wild false false), (12, .wild true false),
   (13, .wild false true), (14, .wild true true)]

def modelTargetRows : List (Nat × Nat × Nat × Nat) :=
  stepCodes.map fun (c, s) => let t := stepTarget s; (c, encPseudo t.pseudo, encScore t.score, encTType t.ttype)

/-- lists an entry lands in when routed into empty tables (codes of the translator) -/
def routedLists (td : TargetData) : List Nat :=
  let p : MPD := default
  let tb := route {} td p
  (if tb.text.isEmpty then [] else [0]) ++ (if tb.comment.isEmpty then [] else [1]) ++
  (if tb.root.isEmpty then [] else [2]) ++ (if tb.pi.isEmpty then [] else [3]) ++
  (if tb.node.isEmpty then [] else [4]) ++ (if tb.elemAny.isEmpty then [] else [5]) ++
  (if tb.attrAny.isEmpty then [] else [6]) ++ (if tb.elemTable.isEmpty then [] else [7]) ++
  (if tb.attrTable.isEmpty then [] else [8])

def decPseudo : Nat → Pseudo
  | 0 => .text | 1 => .comment | 2 => .root | 3 => .pi | 4 => .node | 5 => .any | _ => .name "n"

def decTTypes : Nat → List TType
  | 0 => [.attribute] | 1 => [.element] | 2 => [.any] | 3 => [.other]
  | _ => [.attribute, .element, .any, .other]

def sameSet (a b : List Nat) : Bool := (List.range 9).all fun c => a.contains c == b.contains c


/-- rule `a | node()` used in examples -/
def tA' : Tmpl := { id := 9, mode := 0, prio := none, pat := 9, alts := [⟨.name false "a", .simple⟩, ⟨.node, .simple⟩] }



/-- rules used by the examples and counterexamples -/
def tUnion : Tmpl :=   -- match="*[1] | *"        (default priorities 0.5 and -0.5)
  { id := 1, mode := 0, prio := none, pat := 1, alts := [⟨.wild false false, .posPred⟩, ⟨.wild false false, .simple⟩] }
def tNsWild : Tmpl :=  -- match="p:*"              (default priority -0.25)
  { id := 2, mode := 0, prio := none, pat := 2, alts := [⟨.wild false true, .simple⟩] }
def tA : Tmpl := { id := 3, mode := 0, prio := none, pat := 3, alts := [⟨.name false "a", .simple⟩] }
def tStar : Tmpl := { id := 4, mode := 0, prio := none, pat := 4, alts := [⟨.wild false false, .simple⟩] }


def exTree : Src := .mk false [tStar, tA] [.mk false [tA, tStar] []]

theorem exTree_rules : ∀ ts ∈ exTree.byPrecedence, ∀ t ∈ ts, t = tStar ∨ t = tA := by
  intro ts hts t ht
  simp only [exTree, Src.byPrecedence, importsByPrecedence, List.nil_append, List.mem_cons, List.not_mem_nil,
    or_false] at hts
  rcases hts with rfl | rfl
  · simpa using ht
  · have : t = tA ∨ t = tStar := by simpa using ht
    exact this.symm


/-- the model's abstraction of DOM node types (`XalanNode::NodeType`): CDATA sections are text, a document fragment is a
root; an attribute that is a namespace declaration is `.nsDecl` -/
def NodeKind.ofDomType : Nat → NodeKind
  | 1 => .element | 2 => .attribute | 3 => .text | 4 => .text | 7 => .pi | 8 => .comment | 9 => .root | 11 => .root
  | _ => .other

def probeMPD (i : Nat) : MPD := { (default : MPD) with pos := i }

/-- tables in which every list holds one entry whose position is the translator's code of the list -/
def probeTables : Tables :=
  { text := [probeMPD 0], comment := [probeMPD 1], root := [probeMPD 2], pi := [probeMPD 3], node := [probeMPD 4],
    elemAny := [probeMPD 5], attrAny := [probeMPD 6], elemTable := [("n", [probeMPD 7])],
    attrTable := [("n", [probeMPD 8])] }

/-- codes of the lists `locate` returns for a name that has a named list and for one that has none -/
def locateCodes (k : NodeKind) : List Nat × List Nat :=
  ((locate probeTables k "n").map (·.pos), (locate probeTables k "zz").map (·.pos))

def expectedLocateCodes (c : Nat) : List Nat × List Nat :=
  if c = 7 then ([7], [5]) else if c = 8 then ([8], [6]) else ([c], [c])

/-- what the model does with a node of kind `k` for which no rule is found: 1 = process the children, 2 = copy the
string value, 0 = nothing -/
def builtinClass (k : NodeKind) : Nat :=
  let doc : Array NodeRec := #[⟨k, "n", [1], "t"⟩, ⟨.text, "", [], "x"⟩]
  let out := processWith doc (fun _ _ => none) (fun _ _ _ => none) (fun _ => none) true true true 3 0 0 none []
  if out = [.text "x"] then 1 else if out = [.text "t"] then 2 else if out = [] then 0 else 9

end XalanModel.C10
