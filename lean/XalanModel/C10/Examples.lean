import XalanModel.C10.CountProofs
/-!
# C10 — encodings used by `generated_tables_agree`, and the rules/trees used by the examples and counterexamples of
`Props/C10.lean` (kept out of the property file)
-/
namespace XalanModel.C10

def encPseudo : Pseudo → Nat
  | .text => 0 | .comment => 1 | .root => 2 | .pi => 3 | .node => 4 | .any => 5 | .name _ => 6

def encScore : DefScore → Nat
  | .nodeTest => 1 | .nsWild => 2 | .qname => 3 | .other => 4

def encTType : TType → Nat
  | .attribute => 0 | .element => 1 | .any => 2 | .other => 3

/-- the modelled last-step kinds with the translator's codes -/
def stepCodes : List (Nat × LastStep) :=
  [(0, .function), (1, .fromRoot), (2, .comment), (3, .text), (4, .node), (7, .piAny), (8, .piLit),
   (9, .name false "n"), (10, .name true "n"), (11, .wild false false), (12, .wild true false),
   (13, .wild false true), (14, .wild true true)]

def modelTargetRows : List (Nat × Nat × Nat × Nat) :=
  stepCodes.map fun (c, s) => let t := stepTarget s; (c, encPseudo t.pseudo, encScore t.score, encTType t.ttype)

/-- lists an entry lands in when routed into empty tables (codes of the translator) -/
def routedLists (td : TargetData) : List Nat :=
  let p : MPD := default
  let tb := route {} td p
  (if tb.text.isEmpty then [] else [0]) ++ (if tb.comment.isEmpty then [] else [1]) ++
  (if tb.root.isEmpty then [] else [2]) ++ (if tb.pi.isEmpty then [] else [3]) ++
  (if tb.node.isEmpty then [] else [4]) ++ (if tb.elemAny.isEmpty then [] else [5]) ++
  (if tb.attrAny.isEmpty then [] else [6]) ++ (if tb.elemTable.isEmpty then [] else [7]) ++
  (if tb.attrTable.isEmpty then [] else [8])

def decPseudo : Nat → Pseudo
  | 0 => .text | 1 => .comment | 2 => .root | 3 => .pi | 4 => .node | 5 => .any | _ => .name "n"

def decTTypes : Nat → List TType
  | 0 => [.attribute] | 1 => [.element] | 2 => [.any] | 3 => [.other]
  | _ => [.attribute, .element, .any, .other]

def sameSet (a b : List Nat) : Bool := (List.range 9).all fun c => a.contains c == b.contains c


/-- rule `a | node()` used in examples -/
def tA' : Tmpl := { id := 9, mode := 0, prio := none, pat := 9, alts := [⟨.name false "a", .simple⟩, ⟨.node, .simple⟩] }



/-- rules used by the examples and counterexamples -/
def tUnion : Tmpl :=   -- match="*[1] | *"        (default priorities 0.5 and -0.5)
  { id := 1, mode := 0, prio := none, pat := 1, alts := [⟨.wild false false, .posPred⟩, ⟨.wild false false, .simple⟩] }
def tNsWild : Tmpl :=  -- match="p:*"              (default priority -0.25)
  { id := 2, mode := 0, prio := none, pat := 2, alts := [⟨.wild false true, .simple⟩] }
def tA : Tmpl := { id := 3, mode := 0, prio := none, pat := 3, alts := [⟨.name false "a", .simple⟩] }
def tStar : Tmpl := { id := 4, mode := 0, prio := none, pat := 4, alts := [⟨.wild false false, .simple⟩] }


def exTree : Src := .mk false [tStar, tA] [.mk false [tA, tStar] []]

theorem exTree_rules : ∀ ts ∈ exTree.byPrecedence, ∀ t ∈ ts, t = tStar ∨ t = tA := by
  intro ts hts t ht
  simp only [exTree, Src.byPrecedence, importsByPrecedence, List.nil_append, List.mem_cons, List.not_mem_nil,
    or_false] at hts
  rcases hts with rfl | rfl
  · simpa using ht
  · have : t = tA ∨ t = tStar := by simpa using ht
    exact this.symm


end XalanModel.C10
