import XalanModel.C10.SheetProofs
import XalanModel.C10.AltProofs
/-!
# C10 — inside one module the quiet body returns the §5.5 winner (`quiet_sheet_spec`)
-/
namespace XalanModel.C10

theorem score_value_eq_spec (a : AltDesc) : (targetData a).score.value = specDefaultPriority a := by
  obtain ⟨last, shape⟩ := a
  cases shape <;> cases last <;>
    simp [targetData, AltDesc.complex, stepTarget, specDefaultPriority, DefScore.value,
      Generated.C10.valNodeTest, Generated.C10.valNSWild, Generated.C10.valQName, Generated.C10.valOther] <;>
    (rename_i a b; cases a <;> cases b <;> rfl)

/-- priority of the rule "alternative `a` of `t`" (§5.5) -/
def prioOf (t : Tmpl) (a : AltDesc) : Int :=
  match t.prio with
  | some p => p
  | none => specDefaultPriority a

/-- number of entries created before rule number `j` -/
def off : List Tmpl → Nat → Nat
  | [], _ => 0
  | _ :: _, 0 => 0
  | t :: rest, j + 1 => t.alts.length + off rest j

theorem mem_altEntries (t : Tmpl) (alts : List AltDesc) (i0 pos0 : Nat) (e : MPD × TargetData) :
    e ∈ altEntries t alts i0 pos0 ↔
      ∃ i a, alts[i]? = some a ∧ e = (⟨t, pos0 + i, i0 + i, (targetData a).score⟩, targetData a) := by
  induction alts generalizing i0 pos0 with
  | nil => simp [altEntries]
  | cons b rest ih =>
    simp only [altEntries, List.mem_cons, ih]
    constructor
    · rintro (h | ⟨i, a, h1, h2⟩)
      · exact ⟨0, b, by simp, by simpa using h⟩
      · refine ⟨i + 1, a, by simpa using h1, ?_⟩
        rw [h2]; simp only [Prod.mk.injEq, MPD.mk.injEq, and_true, true_and]; omega
    · rintro ⟨i, a, h1, h2⟩
      cases i with
      | zero =>
        simp only [List.getElem?_cons_zero, Option.some.injEq] at h1; subst h1
        exact Or.inl (by simpa using h2)
      | succ i =>
        refine Or.inr ⟨i, a, by simpa using h1, ?_⟩
        rw [h2]; simp only [Prod.mk.injEq, MPD.mk.injEq, and_true, true_and]; omega

theorem mem_tmplEntries (ts : List Tmpl) (pos0 : Nat) (e : MPD × TargetData) :
    e ∈ tmplEntries ts pos0 ↔
      ∃ j t i a, ts[j]? = some t ∧ t.alts[i]? = some a ∧
        e = (⟨t, pos0 + off ts j + i, i, (targetData a).score⟩, targetData a) := by
  induction ts generalizing pos0 with
  | nil => simp [tmplEntries]
  | cons t rest ih =>
    simp only [tmplEntries, List.mem_append, mem_altEntries, ih]
    constructor
    · rintro (⟨i, a, h1, h2⟩ | ⟨j, t', i, a, h0, h1, h2⟩)
      · exact ⟨0, t, i, a, by simp, h1, by simpa [off] using h2⟩
      · refine ⟨j + 1, t', i, a, by simpa using h0, h1, ?_⟩
        rw [h2]; simp only [off, Prod.mk.injEq, MPD.mk.injEq, and_true, true_and]; omega
    · rintro ⟨j, t', i, a, h0, h1, h2⟩
      cases j with
      | zero =>
        simp only [List.getElem?_cons_zero, Option.some.injEq] at h0; subst h0
        exact Or.inl ⟨i, a, h1, by simpa [off] using h2⟩
      | succ j =>
        refine Or.inr ⟨j, t', i, a, by simpa using h0, h1, ?_⟩
        rw [h2]; simp only [off, Prod.mk.injEq, MPD.mk.injEq, and_true, true_and]; omega

theorem off_mono (ts : List Tmpl) (j j' : Nat) (t : Tmpl) (h : ts[j]? = some t) (hlt : j < j') :
    off ts j + t.alts.length ≤ off ts j' := by
  induction ts generalizing j j' with
  | nil => simp at h
  | cons u rest ih =>
    cases j' with
    | zero => omega
    | succ j' =>
      cases j with
      | zero =>
        simp only [List.getElem?_cons_zero, Option.some.injEq] at h; subst h
        simp only [off]; omega
      | succ j =>
        simp only [List.getElem?_cons_succ] at h
        have := ih j j' h (by omega)
        simp only [off]; omega

theorem mem_altCands (am : AltMatch) (t : Tmpl) (idx : Nat) (alts : List AltDesc) (i0 : Nat) (c : Cand) :
    c ∈ altCands am t idx alts i0 ↔
      ∃ i a, alts[i]? = some a ∧ am t (i0 + i) = true ∧ c = ⟨t, prioOf t a, idx⟩ := by
  induction alts generalizing i0 with
  | nil => simp [altCands]
  | cons b rest ih =>
    simp only [altCands]
    constructor
    · intro h
      have h' : (am t i0 = true ∧ c = ⟨t, prioOf t b, idx⟩) ∨ c ∈ altCands am t idx rest (i0 + 1) := by
        by_cases hb : am t i0 = true
        · simp only [hb, if_true, List.mem_cons] at h
          rcases h with h | h
          · exact Or.inl ⟨hb, h⟩
          · exact Or.inr h
        · simp only [hb, if_false] at h; exact Or.inr h
      rcases h' with ⟨hb, hc⟩ | h
      · exact ⟨0, b, by simp, by simpa using hb, hc⟩
      · obtain ⟨i, a, h1, h2, h3⟩ := (ih (i0 + 1)).mp h
        exact ⟨i + 1, a, by simpa using h1, by rw [← h2]; congr 1; omega, h3⟩
    · rintro ⟨i, a, h1, h2, h3⟩
      cases i with
      | zero =>
        simp only [List.getElem?_cons_zero, Option.some.injEq] at h1; subst h1
        have hb : am t i0 = true := by simpa using h2
        simp only [hb, if_true, List.mem_cons]; exact Or.inl h3
      | succ i =>
        have : c ∈ altCands am t idx rest (i0 + 1) :=
          (ih (i0 + 1)).mpr ⟨i, a, by simpa using h1, by rw [← h2]; congr 1; omega, h3⟩
        by_cases hb : am t i0 = true
        · simp only [hb, if_true, List.mem_cons]; exact Or.inr this
        · simp only [hb, if_false]; exact this

theorem mem_sheetCands (am : AltMatch) (mode : Nat) (ts : List Tmpl) (idx0 : Nat) (c : Cand) :
    c ∈ sheetCands am mode ts idx0 ↔
      ∃ j t i a, ts[j]? = some t ∧ t.mode = mode ∧ t.alts[i]? = some a ∧ am t i = true ∧
        c = ⟨t, prioOf t a, idx0 + j⟩ := by
  induction ts generalizing idx0 with
  | nil => simp [sheetCands]
  | cons t rest ih =>
    simp only [sheetCands, List.mem_append, ih]
    constructor
    · rintro (h | ⟨j, t', i, a, h0, hm, h1, h2, h3⟩)
      · by_cases hm : t.mode = mode
        · simp only [hm, if_true, mem_altCands] at h
          obtain ⟨i, a, h1, h2, h3⟩ := h
          exact ⟨0, t, i, a, by simp, hm, h1, by simpa using h2, by simpa using h3⟩
        · simp [hm] at h
      · exact ⟨j + 1, t', i, a, by simpa using h0, hm, h1, h2, by rw [h3]; congr 1; omega⟩
    · rintro ⟨j, t', i, a, h0, hm, h1, h2, h3⟩
      cases j with
      | zero =>
        simp only [List.getElem?_cons_zero, Option.some.injEq] at h0; subst h0
        left
        simp only [hm, if_true, mem_altCands]
        exact ⟨i, a, h1, by simpa using h2, by simpa using h3⟩
      | succ j =>
        exact Or.inr ⟨j, t', i, a, by simpa using h0, hm, h1, h2, by rw [h3]; congr 1; omega⟩

theorem Cand.ge_iff (a b : Cand) : a.ge b = true ↔ a.prio > b.prio ∨ (a.prio = b.prio ∧ a.idx ≥ b.idx) := by
  simp [Cand.ge]

theorem pickBest_spec (acc : Option Cand) (C : List Cand) :
    match pickBest acc C with
    | none => acc = none ∧ C = []
    | some c => (acc = some c ∨ c ∈ C) ∧ (∀ b, acc = some b → c.ge b = true) ∧ ∀ c' ∈ C, c.ge c' = true := by
  induction C generalizing acc with
  | nil =>
    cases acc with
    | none => simp [pickBest]
    | some b => simp [pickBest, Cand.ge_iff]
  | cons x rest ih =>
    cases acc with
    | none =>
      simp only [pickBest]
      have := ih (some x)
      cases hp : pickBest (some x) rest with
      | none => rw [hp] at this; simp at this
      | some c =>
        rw [hp] at this
        obtain ⟨h1, h2, h3⟩ := this
        refine ⟨Or.inr ?_, by simp, ?_⟩
        · rcases h1 with h1 | h1
          · simp only [Option.some.injEq] at h1; subst h1; exact List.mem_cons_self ..
          · exact List.mem_cons_of_mem _ h1
        · intro c' hc'
          rcases List.mem_cons.mp hc' with rfl | hc'
          · exact h2 _ rfl
          · exact h3 c' hc'
    | some b =>
      simp only [pickBest]
      have := ih (some (if b.ge x = true then b else x))
      cases hp : pickBest (some (if b.ge x = true then b else x)) rest with
      | none => rw [hp] at this; simp at this
      | some c =>
        rw [hp] at this
        obtain ⟨h1, h2, h3⟩ := this
        have hw := h2 _ rfl
        by_cases hbx : b.ge x = true
        · simp only [hbx, if_true] at h1 hw
          refine ⟨?_, ?_, ?_⟩
          · rcases h1 with h1 | h1
            · exact Or.inl h1
            · exact Or.inr (List.mem_cons_of_mem _ h1)
          · intro b' hb'; simp only [Option.some.injEq] at hb'; subst hb'; exact hw
          · intro c' hc'
            rcases List.mem_cons.mp hc' with rfl | hc'
            · rw [Cand.ge_iff] at hw hbx ⊢; omega
            · exact h3 c' hc'
        · rw [if_neg hbx] at h1 hw
          have hxb : x.ge b = true := by
            rw [Cand.ge_iff] at hbx ⊢; omega
          refine ⟨?_, ?_, ?_⟩
          · rcases h1 with h1 | h1
            · simp only [Option.some.injEq] at h1; subst h1; exact Or.inr (List.mem_cons_self ..)
            · exact Or.inr (List.mem_cons_of_mem _ h1)
          · intro b' hb'; simp only [Option.some.injEq] at hb'; subst hb'
            rw [Cand.ge_iff] at hw hxb ⊢; omega
          · intro c' hc'
            rcases List.mem_cons.mp hc' with rfl | hc'
            · exact hw
            · exact h3 c' hc'

theorem firstScore_isSome (f : Nat → Bool) (alts : List AltDesc) (i0 : Nat) :
    (firstScore f alts i0).isSome = true ↔ ∃ i a, alts[i]? = some a ∧ f (i0 + i) = true := by
  induction alts generalizing i0 with
  | nil => simp [firstScore]
  | cons b rest ih =>
    simp only [firstScore]
    by_cases hb : f i0 = true
    · simp only [hb, if_true, Option.isSome_some, true_iff]
      exact ⟨0, b, by simp, by simpa using hb⟩
    · rw [if_neg hb, ih]
      constructor
      · rintro ⟨i, a, h1, h2⟩
        exact ⟨i + 1, a, by simpa using h1, by rw [← h2]; congr 1; omega⟩
      · rintro ⟨i, a, h1, h2⟩
        cases i with
        | zero => simp at h2; exact absurd h2 hb
        | succ i => exact ⟨i, a, by simpa using h1, by rw [← h2]; congr 1; omega⟩

theorem wholeScore_isSome (am : AltMatch) (t : Tmpl) :
    (wholeScore am t).isSome = true ↔ ∃ i a, t.alts[i]? = some a ∧ am t i = true := by
  unfold wholeScore
  rw [firstScore_isSome]
  simp

/-- the rule has one priority: an explicit one, or all its alternatives have the same default score -/
def Tmpl.uniform (t : Tmpl) : Prop :=
  t.prio = none → ∀ a ∈ t.alts, ∀ b ∈ t.alts, (targetData a).score = (targetData b).score

theorem prioOf_uniform {t : Tmpl} (h : t.uniform) {a b : AltDesc} (ha : a ∈ t.alts) (hb : b ∈ t.alts) :
    prioOf t a = prioOf t b := by
  unfold prioOf
  cases hp : t.prio with
  | some p => rfl
  | none =>
    simp only
    rw [← score_value_eq_spec, ← score_value_eq_spec, h hp a ha b hb]

theorem entry_prio (t : Tmpl) (a : AltDesc) (pos i : Nat) :
    (⟨t, pos, i, (targetData a).score⟩ : MPD).prioOrDefault = prioOf t a := by
  unfold MPD.prioOrDefault prioOf
  cases t.prio with
  | some p => rfl
  | none => simp only; exact score_value_eq_spec a

/-- **Inside one module the quiet body returns the §5.5 winner**, for rule sets in which every rule has one priority
(`Tmpl.uniform`) and every matching alternative is filed in a list the node consults (`compat`). -/
theorem quiet_sheet_spec (am : AltMatch) (k : NodeKind) (lname : String) (mode : Nat) (ts : List Tmpl)
    (huni : Generated.C10.perAlternativeMatch = false → ∀ t ∈ ts, t.uniform)
    (hsound : ∀ t ∈ ts, ∀ i a, t.alts[i]? = some a → am t i = true → compat (targetData a) k lname = true) :
    findInTables am k lname mode true ts = bestInSheet am mode ts := by
  simp only [findInTables, if_true, bestInSheet]
  have hsorted : Sorted (locate (buildTables ts) k lname) :=
    locate_sorted (postConstruction_allSorted (foldl_addTemplate_allSorted ts empty_allSorted)) k lname
  -- every candidate has a matching entry in the list
  have cand_entry : ∀ j t i a, ts[j]? = some t → t.mode = mode → t.alts[i]? = some a → am t i = true →
      ∃ m ∈ locate (buildTables ts) k lname, m = ⟨t, off ts j + i, i, (targetData a).score⟩ ∧
        entryMatches am mode m = true := by
    intro j t i a h0 hm h1 h2
    have ht : t ∈ ts := List.mem_of_getElem? h0
    refine ⟨⟨t, off ts j + i, i, (targetData a).score⟩, ?_, rfl, ?_⟩
    · rw [mem_locate_buildTables]
      refine ⟨(⟨t, off ts j + i, i, (targetData a).score⟩, targetData a), ?_, rfl, hsound t ht i a h1 h2⟩
      rw [mem_tmplEntries]
      exact ⟨j, t, i, a, h0, h1, by simp⟩
    · cases hper : Generated.C10.perAlternativeMatch with
      | false =>
        rw [entryMatches_old hper]
        simp only [entryMatchesW, Bool.and_eq_true]
        exact ⟨(modeOk_iff mode t.mode).mpr hm, (wholeScore_isSome am t).mpr ⟨i, a, h1, h2⟩⟩
      | true =>
        rw [entryMatches_alt hper]
        simp only [Bool.and_eq_true]
        exact ⟨(modeOk_iff mode t.mode).mpr hm, h2⟩
  have hq := find_quiet_list_spec' am mode (locate (buildTables ts) k lname) hsorted
  have hb := pickBest_spec none (sheetCands am mode ts 0)
  cases hfq : findQuietList am mode (locate (buildTables ts) k lname) with
  | none =>
    rw [hfq] at hq
    -- no candidate at all
    cases hpb : pickBest none (sheetCands am mode ts 0) with
    | none => rfl
    | some c =>
      rw [hpb] at hb
      obtain ⟨hc, _, _⟩ := hb
      rcases hc with hc | hc
      · simp at hc
      · obtain ⟨j, t, i, a, h0, hm, h1, h2, _⟩ := (mem_sheetCands am mode ts 0 c).mp hc
        obtain ⟨m, hmL, _, hmm⟩ := cand_entry j t i a h0 hm h1 h2
        have := hq m hmL
        rw [this] at hmm; simp at hmm
  | some tm =>
    rw [hfq] at hq
    obtain ⟨m, hmL, hmt, hmatch, hmax⟩ := hq
    -- the entry comes from rule number jm
    obtain ⟨e, heS, he1, _⟩ := (mem_locate_buildTables ts k lname m).mp hmL
    obtain ⟨jm, t, im, am', h0, h1, he⟩ := (mem_tmplEntries ts 0 e).mp heS
    have hm_eq : m = ⟨t, off ts jm + im, im, (targetData am').score⟩ := by
      rw [← he1, he]; simp
    have htm : t = tm := by rw [← hmt, hm_eq]
    have ht : t ∈ ts := List.mem_of_getElem? h0
    -- it matches, hence it is a candidate
    have hboth : t.mode = mode ∧ ∃ i a, t.alts[i]? = some a ∧ am t i = true ∧ prioOf t am' = prioOf t a := by
      cases hper : Generated.C10.perAlternativeMatch with
      | false =>
        rw [entryMatches_old hper] at hmatch
        simp only [entryMatchesW, Bool.and_eq_true] at hmatch
        refine ⟨?_, ?_⟩
        · have := (modeOk_iff mode m.tmpl.mode).mp hmatch.1
          rw [hm_eq] at this; exact this
        · have := (wholeScore_isSome am m.tmpl).mp hmatch.2
          rw [hm_eq] at this
          obtain ⟨i, a, hia, hami⟩ := this
          exact ⟨i, a, hia, hami,
            prioOf_uniform (huni hper t ht) (List.mem_of_getElem? h1) (List.mem_of_getElem? hia)⟩
      | true =>
        rw [entryMatches_alt hper] at hmatch
        simp only [Bool.and_eq_true] at hmatch
        refine ⟨?_, ?_⟩
        · have := (modeOk_iff mode m.tmpl.mode).mp hmatch.1
          rw [hm_eq] at this; exact this
        · have := hmatch.2
          rw [hm_eq] at this
          exact ⟨im, am', h1, this, rfl⟩
    obtain ⟨hmode, i2, a2, h21, h22, hprio2⟩ := hboth
    have hcm : (⟨t, prioOf t a2, 0 + jm⟩ : Cand) ∈ sheetCands am mode ts 0 :=
      (mem_sheetCands am mode ts 0 _).mpr ⟨jm, t, i2, a2, h0, hmode, h21, h22, rfl⟩
    cases hpb : pickBest none (sheetCands am mode ts 0) with
    | none =>
      rw [hpb] at hb
      rw [hb.2] at hcm; simp at hcm
    | some c =>
      rw [hpb] at hb
      obtain ⟨hc, _, hcmax⟩ := hb
      rcases hc with hc | hc
      · simp at hc
      · obtain ⟨jc, tc, ic, ac, hc0, hcm', hc1, hc2, hceq⟩ := (mem_sheetCands am mode ts 0 c).mp hc
        obtain ⟨mc, hmcL, hmceq, hmcm⟩ := cand_entry jc tc ic ac hc0 hcm' hc1 hc2
        have hge1 := hmax mc hmcL hmcm
        have hge2 := hcmax _ hcm
        -- priorities
        have hp_m : m.prioOrDefault = prioOf t a2 := by
          rw [hm_eq, entry_prio]
          exact hprio2
        have hp_mc : mc.prioOrDefault = prioOf tc ac := by rw [hmceq, entry_prio]
        have hpos_m : m.pos = off ts jm + im := by rw [hm_eq]
        have hpos_mc : mc.pos = off ts jc + ic := by rw [hmceq]
        have him : im < t.alts.length := by
          have := List.getElem?_eq_some_iff.mp h1; exact this.1
        rw [Cand.ge_iff, hceq] at hge2
        simp only at hge2
        unfold MPD.ge at hge1
        rw [hp_m, hp_mc, hpos_m, hpos_mc] at hge1
        have hj : jc = jm := by
          by_cases hlt : jm < jc
          · have := off_mono ts jm jc t h0 hlt
            omega
          · omega
        subst hj
        rw [h0] at hc0
        simp only [Option.some.injEq] at hc0
        simp only [Option.map_some, hceq]
        rw [← hc0, htm]

theorem firstScore_mem (f : Nat → Bool) (alts : List AltDesc) (i0 : Nat) (sc : DefScore)
    (h : firstScore f alts i0 = some sc) : ∃ b ∈ alts, sc = dynScore b := by
  induction alts generalizing i0 with
  | nil => simp [firstScore] at h
  | cons b rest ih =>
    simp only [firstScore] at h
    split at h
    · simp only [Option.some.injEq] at h
      exact ⟨b, List.mem_cons_self .., h.symm⟩
    · obtain ⟨c, hc, hsc⟩ := ih (i0 + 1) h
      exact ⟨c, List.mem_cons_of_mem _ hc, hsc⟩

/-- a rule whose priority at match time cannot differ from the priority it is filed under: it has an explicit
priority, or every alternative's match-time score equals every alternative's default score (one default score, no
single step with a boolean predicate on a node test of another class) -/
def Tmpl.stable (t : Tmpl) : Prop :=
  t.prio = none → ∀ a ∈ t.alts, ∀ b ∈ t.alts, (targetData a).score = dynScore b

/-- syntactic sufficient condition for hypothesis `heff` of `find_reporting_eq_quiet_partial` -/
theorem heff_of_stable (am : AltMatch) (k : NodeKind) (lname : String) (ts : List Tmpl)
    (hst : ∀ t ∈ ts, t.stable) :
    ∀ m ∈ locate (buildTables ts) k lname, ∀ sc, wholeScore am m.tmpl = some sc → effPrio m sc = m.prioOrDefault := by
  intro m hm sc hsc
  obtain ⟨e, heS, he1, _⟩ := (mem_locate_buildTables ts k lname m).mp hm
  obtain ⟨j, t, i, a, h0, h1, he⟩ := (mem_tmplEntries ts 0 e).mp heS
  have hm_eq : m = ⟨t, 0 + off ts j + i, i, (targetData a).score⟩ := by rw [← he1, he]
  subst hm_eq
  unfold effPrio MPD.prioOrDefault
  cases hp : t.prio with
  | some p => rfl
  | none =>
    simp only [hp]
    obtain ⟨b, hb, hscb⟩ := firstScore_mem _ _ _ _ hsc
    have := hst t (List.mem_of_getElem? h0) hp a (List.mem_of_getElem? h1) b hb
    rw [hscb, this]


end XalanModel.C10
