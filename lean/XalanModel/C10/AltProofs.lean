import XalanModel.C10.ConflictProofs
namespace XalanModel.C10

/-- the per-alternative entry test -/
def entryMatchesA (am : AltMatch) (mode : Nat) (m : MPD) : Bool :=
  modeOk mode m.tmpl.mode && am m.tmpl m.alt

structure AInv (am : AltMatch) (mode : Nat) (pre : List MPD) (s : RState) : Prop where
  none_case : pre.find? (entryMatchesA am mode) = none → s.best = none ∧ s.bestPrio = none ∧ s.conflicts = []
  some_case : ∀ f, pre.find? (entryMatchesA am mode) = some f →
    s.bestPrio = some f.prioOrDefault ∧
      ((s.conflicts = [] ∧ s.best = some f) ∨ (∃ b tl, s.conflicts = f :: tl ∧ s.best = some b))

theorem AInv.keep {am : AltMatch} {mode : Nat} {pre : List MPD} {s : RState} {m : MPD}
    (hinv : AInv am mode pre s)
    (h : pre.find? (entryMatchesA am mode) = none → entryMatchesA am mode m = false) :
    AInv am mode (pre ++ [m]) s := by
  refine ⟨?_, ?_⟩
  · intro hnone
    have hpre : pre.find? (entryMatchesA am mode) = none := by
      rw [List.find?_append] at hnone
      cases hh : pre.find? (entryMatchesA am mode) with
      | none => rfl
      | some f => simp [hh] at hnone
    exact hinv.none_case hpre
  · intro f hf
    cases hpre : pre.find? (entryMatchesA am mode) with
    | some f' =>
      rw [find?_append_some hpre] at hf
      simp only [Option.some.injEq] at hf; subst hf
      exact hinv.some_case f' hpre
    | none =>
      rw [find?_append_none hpre] at hf
      simp [h hpre] at hf

theorem reportStepAlt_inv (am : AltMatch) (mode : Nat) (pre : List MPD) (m : MPD) (s : RState)
    (hinv : AInv am mode pre s) (hsorted : ∀ a ∈ pre, a.ge m) :
    AInv am mode (pre ++ [m]) (reportStepAlt am mode s m) := by
  unfold reportStepAlt
  by_cases hmode : modeOk mode m.tmpl.mode = true
  · simp only [hmode, if_true]
    -- skip test
    cases hbest : s.best with
    | none =>
      simp only [Bool.false_eq_true, if_false]
      by_cases ham : am m.tmpl m.alt = true
      · simp only [ham, if_true]
        have hyes : entryMatchesA am mode m = true := by simp [entryMatchesA, hmode, ham]
        cases hpre : pre.find? (entryMatchesA am mode) with
        | some f =>
          have := (hinv.some_case f hpre).2
          rcases this with ⟨_, hb⟩ | ⟨b, _, _, hb⟩ <;> simp [hbest] at hb
        | none =>
          refine ⟨?_, ?_⟩
          · intro hnone; rw [find?_append_none hpre] at hnone; simp [hyes] at hnone
          · intro f hf
            rw [find?_append_none hpre] at hf
            simp only [hyes, if_true, Option.some.injEq] at hf
            subst hf
            exact ⟨rfl, Or.inl ⟨rfl, rfl⟩⟩
      · have ham' : am m.tmpl m.alt = false := by simpa using ham
        simp only [ham', Bool.false_eq_true, if_false]
        have := hinv.keep (m := m) (fun _ => by simp [entryMatchesA, ham'])
        simpa [hbest] using this
    | some b =>
      by_cases hskip : (b.tmpl == m.tmpl) = true
      · simp only [hskip, if_true]
        have : AInv am mode (pre ++ [m]) s := hinv.keep (fun hnone => by
          have := (hinv.none_case hnone).1
          rw [hbest] at this; simp at this)
        exact this
      · have hskip' : (b.tmpl == m.tmpl) = false := by simpa using hskip
        simp only [hskip', Bool.false_eq_true, if_false]
        by_cases ham : am m.tmpl m.alt = true
        · simp only [ham, if_true]
          have hyes : entryMatchesA am mode m = true := by simp [entryMatchesA, hmode, ham]
          cases hpre : pre.find? (entryMatchesA am mode) with
          | none =>
            have := (hinv.none_case hpre).1
            rw [hbest] at this; simp at this
          | some f =>
            obtain ⟨hbp, hcase⟩ := hinv.some_case f hpre
            have hfm : f.ge m := hsorted f (List.mem_of_find?_eq_some hpre)
            simp only [hbp]
            have hle : m.prioOrDefault ≤ f.prioOrDefault := by unfold MPD.ge at hfm; omega
            have hngt : ¬ m.prioOrDefault > f.prioOrDefault := by omega
            simp only [hngt, if_false]
            by_cases heq : m.prioOrDefault = f.prioOrDefault
            · simp only [heq, if_true]
              refine ⟨?_, ?_⟩
              · intro hnone; rw [find?_append_some hpre] at hnone; simp at hnone
              · intro f' hf'
                rw [find?_append_some hpre] at hf'
                simp only [Option.some.injEq] at hf'; subst hf'
                refine ⟨rfl, Or.inr ?_⟩
                rcases hcase with ⟨hc, hb'⟩ | ⟨b', tl, hc, hb'⟩
                · rw [hbest] at hb'; simp only [Option.some.injEq] at hb'; subst hb'
                  exact ⟨m, [m], by simp [hc, addIfNotFound], rfl⟩
                · obtain ⟨tl', htl'⟩ := addIfNotFound_head f tl b
                  exact ⟨m, tl' ++ [m], by simp [hc, htl'], rfl⟩
            · simp only [heq, if_false]
              refine ⟨?_, ?_⟩
              · intro hnone; rw [find?_append_some hpre] at hnone; simp at hnone
              · intro f' hf'
                rw [find?_append_some hpre] at hf'
                simp only [Option.some.injEq] at hf'; subst hf'
                refine ⟨hbp, ?_⟩
                rcases hcase with ⟨hc, hb'⟩ | ⟨b', tl, hc, _⟩
                · left; exact ⟨hc, hb'⟩
                · right; exact ⟨b, tl, hc, hbest⟩
        · have ham' : am m.tmpl m.alt = false := by simpa using ham
          simp only [ham', Bool.false_eq_true, if_false]
          have := hinv.keep (m := m) (fun _ => by simp [entryMatchesA, ham'])
          exact this
  · have hmode' : modeOk mode m.tmpl.mode = false := by simpa using hmode
    simp only [hmode', Bool.false_eq_true, if_false]
    exact hinv.keep (fun _ => by simp [entryMatchesA, hmode'])

theorem foldl_reportStepAlt_inv (am : AltMatch) (mode : Nat) (rest pre : List MPD) (s : RState)
    (hinv : AInv am mode pre s) (hsorted : Sorted (pre ++ rest)) :
    AInv am mode (pre ++ rest) (rest.foldl (reportStepAlt am mode) s) := by
  induction rest generalizing pre s with
  | nil => simpa using hinv
  | cons m rest ih =>
    simp only [List.foldl_cons]
    have hsplit : pre ++ m :: rest = (pre ++ [m]) ++ rest := by simp
    rw [hsplit]
    apply ih
    · apply reportStepAlt_inv am mode pre m s hinv
      intro a ha
      exact (List.pairwise_append.mp hsorted).2.2 a ha m (List.mem_cons_self ..)
    · rw [← hsplit]; exact hsorted

/-- with per-alternative matching the reporting body returns the same rule as the quiet body on every sorted list -/
theorem findReportList_eq_quiet_alt (hper : Generated.C10.perAlternativeMatch = true) (am : AltMatch) (mode : Nat)
    (l : List MPD) (hs : Sorted l) : findReportList am mode l = findQuietList am mode l := by
  have hinv := foldl_reportStepAlt_inv am mode l [] {}
    ⟨by intro _; exact ⟨rfl, rfl, rfl⟩, by intro f h; simp at h⟩ (by simpa using hs)
  simp only [List.nil_append] at hinv
  rw [findQuietList_eq_find]
  have hP : entryMatches am mode = entryMatchesA am mode := by
    funext m; simp [entryMatches, entryMatchesA, entryHit, hper]
  unfold findReportList
  rw [reportStep_alt hper, hP]
  cases hf : l.find? (entryMatchesA am mode) with
  | none =>
    obtain ⟨hb, _, hc⟩ := hinv.none_case hf
    simp [hb, hc]
  | some f =>
    obtain ⟨_, hcase⟩ := hinv.some_case f hf
    rcases hcase with ⟨hc, hb⟩ | ⟨b, tl, hc, _⟩
    · simp [hb, hc]
    · simp [hc]

end XalanModel.C10
