import XalanModel.Generated.C10_Priority
/-!
# C10 — model of Xalan-C's template selection (core Lean only)

Mirrors, as written:
* `XPath::getTargetData` (XPath.cpp:1495) — per union alternative: target string, default score, target type;
* `XPath::getMatchScoreValue` (XPath.hpp:831), `XalanMatchPatternData::getPriorityOrDefault`;
* `addToList`, `addToTable` (Stylesheet.cpp:441/480), `Stylesheet::addTemplate` routing (760-927),
  the two `addToTable` calls of `postConstruction` (621-622), `Stylesheet::addImport` (front insertion);
* `locateMatchPatternDataList` (1065), both bodies of `Stylesheet::findTemplate` (1150-1392),
  `findTemplateInImports` (1116);
* built-in rules and the `apply-imports` root choice of `ElemTemplateElement::findTemplateToTransformChild`.

Pattern matching is abstract: `am t i = true` means "alternative `i` of template `t`'s match pattern matches the
node in hand".  `XPath::getMatchScore` evaluates the *whole* union pattern and returns the score of the first
alternative (textual order) that matches: `wholeScore`.

Priorities are `Int` (the drivers use 1/100 units); the model only compares them, so any order embedding of the
finite doubles of a rule set is faithful.  An explicit priority of -Infinity/NaN is outside the model.
-/
namespace XalanModel.C10

/-- the four real values of `XPath::eMatchScore` (`eMatchScoreNone` is `Option.none` where it can occur) -/
inductive DefScore where
  | nodeTest | nsWild | qname | other
  deriving DecidableEq, Repr, Inhabited

/-- `XPath::getMatchScoreValue`, regenerated from the source -/
def DefScore.value : DefScore → Int
  | .nodeTest => Generated.C10.valNodeTest
  | .nsWild => Generated.C10.valNSWild
  | .qname => Generated.C10.valQName
  | .other => Generated.C10.valOther

/-- target string of a `TargetData` (the PSEUDONAME_* constants, or an ordinary local name) -/
inductive Pseudo where
  | text | comment | root | pi | node | any
  | name (s : String)
  deriving DecidableEq, Repr, Inhabited

inductive TType where
  | attribute | element | any | other
  deriving DecidableEq, Repr, Inhabited

structure TargetData where
  pseudo : Pseudo
  score : DefScore
  ttype : TType
  deriving DecidableEq, Repr, Inhabited

/-- what `getTargetData` looks at in one alternative: the kind of its last step -/
inductive LastStep where
  | function                                  -- id(..) / key(..) as the only step (eOP_FUNCTION)
  | fromRoot                                  -- "/"
  | comment | text | node | piAny | piLit
  | name (attr : Bool) (l : String)           -- QName
  | wild (attr : Bool) (ns : Bool)            -- `*` (ns = false)  /  `p:*` (ns = true)
  deriving DecidableEq, Repr, Inhabited

/-- shape of an alternative: a single step without predicate; more than one step; a single step whose predicates
are all boolean; a single step with a positional / numeric predicate -/
inductive Shape where
  | simple | multi | boolPred | posPred
  deriving DecidableEq, Repr, Inhabited

/-- one alternative of a union pattern, as far as `getTargetData` and the match score are concerned -/
structure AltDesc where
  last : LastStep
  shape : Shape
  deriving DecidableEq, Repr, Inhabited

/-- more than one step, or a predicate on the last step (`stepCount > 1 || opPos + 3 < nextStepPos`) -/
def AltDesc.complex (a : AltDesc) : Bool := a.shape != .simple

/-- the switch of `XPath::getTargetData` -/
def stepTarget : LastStep → TargetData
  | .function => ⟨.any, .other, .any⟩
  | .fromRoot => ⟨.root, .other, .other⟩
  | .comment => ⟨.comment, .nodeTest, .other⟩
  | .text => ⟨.text, .nodeTest, .other⟩
  | .node => ⟨.node, .nodeTest, .other⟩
  | .piAny => ⟨.pi, .nodeTest, .other⟩
  | .piLit => ⟨.pi, .qname, .other⟩
  | .name a l => ⟨.name l, .qname, if a then .attribute else .element⟩
  | .wild a ns => ⟨.any, if ns then .nsWild else .nodeTest, if a then .attribute else .element⟩

/-- `getTargetData` for one alternative (`stepCount > 1 || opPos + 3 < nextStepPos` ⇒ eMatchScoreOther) -/
def targetData (a : AltDesc) : TargetData :=
  let t := stepTarget a.last
  if a.complex then { t with score := .other } else t

/-- an `ElemTemplate` with a match pattern -/
structure Tmpl where
  id : Nat
  /-- 0 = no mode (`XalanQName::isEmpty`) -/
  mode : Nat
  /-- explicit `priority` attribute; `none` = the -infinity sentinel of `ElemTemplate::m_priority` -/
  prio : Option Int
  /-- identity of the pattern *string* (`XPathExpression::getCurrentPattern`): equal strings ⇔ equal keys -/
  pat : Nat
  /-- union alternatives in textual order -/
  alts : List AltDesc
  /-- the body ends with `xsl:apply-imports` (used only by `process`) -/
  applyImports : Bool := false
  /-- after its marker the body calls the named template with this id (`xsl:call-template`; 0 = none) -/
  call : Nat := 0
  /-- then the body does `<xsl:apply-templates select="." mode="wpMode"><xsl:with-param name="p">BODY</xsl:with-param>`
  (0 = none); every rule prints the `p` it receives right after its marker -/
  wpMode : Nat := 0
  /-- BODY of that `xsl:with-param`: `xsl:apply-imports` (0) or `xsl:call-template` of the named template with this id -/
  wpCall : Nat := 0
  /-- the body is *only* `<xsl:call-template name="n‹call›"/>` (no marker, no parameter): the rule then runs the named
  template directly (`eHasDirectTemplate`) -/
  bare : Bool := false
  deriving DecidableEq, Repr, Inhabited

/-- `XalanMatchPatternData`; `alt` is ghost bookkeeping (which alternative produced the entry) -/
structure MPD where
  tmpl : Tmpl
  pos : Nat
  alt : Nat
  defScore : DefScore
  deriving DecidableEq, Repr, Inhabited

/-- `XalanMatchPatternData::getPriorityOrDefault` -/
def MPD.prioOrDefault (m : MPD) : Int :=
  match m.tmpl.prio with
  | some p => p
  | none => m.defScore.value

/-- `addToList` (Stylesheet.cpp:441): insert before the first entry with a lower priority, or the same
priority and a lower position. -/
def addToList : List MPD → MPD → List MPD
  | [], p => [p]
  | c :: rest, p =>
    if p.prioOrDefault > c.prioOrDefault then p :: c :: rest
    else if p.prioOrDefault = c.prioOrDefault ∧ p.pos > c.pos then p :: c :: rest
    else c :: addToList rest p

/-- `XalanMap<XalanDOMString, PatternTableVectorType>` as an association list (iteration order is irrelevant) -/
abbrev NameTable := List (String × List MPD)

/-- `addToList(table[name], p)` — `operator[]` creates the entry when missing -/
def tableAdd : NameTable → String → MPD → NameTable
  | [], n, p => [(n, [p])]
  | (k, l) :: rest, n, p => if k = n then (k, addToList l p) :: rest else (k, l) :: tableAdd rest n p

def tableFind : NameTable → String → Option (List MPD)
  | [], _ => none
  | (k, l) :: rest, n => if k = n then some l else tableFind rest n

/-- `addToTable` (Stylesheet.cpp:480): every wildcard entry is inserted into every named list -/
def addToTable (t : NameTable) (l : List MPD) : NameTable :=
  t.map fun kl => (kl.1, l.foldl addToList kl.2)

structure Tables where
  elemTable : NameTable := []
  attrTable : NameTable := []
  elemAny : List MPD := []
  attrAny : List MPD := []
  text : List MPD := []
  comment : List MPD := []
  root : List MPD := []
  pi : List MPD := []
  node : List MPD := []
  patternCount : Nat := 0
  deriving Repr, Inhabited

/-- the routing chain of `Stylesheet::addTemplate` (873-923) -/
def route (tb : Tables) (td : TargetData) (p : MPD) : Tables :=
  match td.pseudo with
  | .text => { tb with text := addToList tb.text p }
  | .comment => { tb with comment := addToList tb.comment p }
  | .root => { tb with root := addToList tb.root p }
  | .pi => { tb with pi := addToList tb.pi p }
  | .node =>
    { tb with node := addToList tb.node p, elemAny := addToList tb.elemAny p, attrAny := addToList tb.attrAny p,
              comment := addToList tb.comment p, text := addToList tb.text p, pi := addToList tb.pi p }
  | .any =>
    match td.ttype with
    | .element => { tb with elemAny := addToList tb.elemAny p }
    | .attribute => { tb with attrAny := addToList tb.attrAny p }
    | .any =>
      -- unchanged code: element and attribute wildcard lists only; with proposed/C10-key-pattern-nonelement.diff: every list
      if Generated.C10.functionTargetsAllLists then
        { tb with elemAny := addToList tb.elemAny p, attrAny := addToList tb.attrAny p,
                  comment := addToList tb.comment p, text := addToList tb.text p, pi := addToList tb.pi p,
                  root := addToList tb.root p, node := addToList tb.node p }
      else { tb with elemAny := addToList tb.elemAny p, attrAny := addToList tb.attrAny p }
    | .other => tb
  | .name s =>
    match td.ttype with
    | .element => { tb with elemTable := tableAdd tb.elemTable s p }
    | .attribute => { tb with attrTable := tableAdd tb.attrTable s p }
    | _ => tb

/-- the loop over `getTargetData` in `addTemplate`: one entry per alternative, positions from `m_patternCount` -/
def addAlts (t : Tmpl) : List AltDesc → Nat → Tables → Tables
  | [], _, tb => tb
  | a :: rest, i, tb =>
    let td := targetData a
    let p : MPD := { tmpl := t, pos := tb.patternCount, alt := i, defScore := td.score }
    addAlts t rest (i + 1) (route { tb with patternCount := tb.patternCount + 1 } td p)

def addTemplate (tb : Tables) (t : Tmpl) : Tables := addAlts t t.alts 0 tb

/-- the two `addToTable` calls at the end of `Stylesheet::postConstruction` -/
def postConstruction (tb : Tables) : Tables :=
  { tb with elemTable := addToTable tb.elemTable tb.elemAny, attrTable := addToTable tb.attrTable tb.attrAny }

inductive NodeKind where
  | element | attribute | nsDecl | text | comment | pi | root | other
  deriving DecidableEq, Repr, Inhabited

/-- `Stylesheet::locateMatchPatternDataList` (CDATA → text, document fragment → root, namespace declaration
attributes → the empty list, anything else → the `node()` list) -/
def locate (tb : Tables) (k : NodeKind) (lname : String) : List MPD :=
  match k with
  | .element => (tableFind tb.elemTable lname).getD tb.elemAny
  | .pi => tb.pi
  | .attribute => (tableFind tb.attrTable lname).getD tb.attrAny
  | .nsDecl => []
  | .text => tb.text
  | .comment => tb.comment
  | .root => tb.root
  | .other => tb.node

/-- abstract matcher for the node in hand: alternative `i` of `t` matches -/
abbrev AltMatch := Tmpl → Nat → Bool

/-- the score `XPath::stepPattern` / `doStepPredicate` leave in `scoreHolder` when the alternative matches:
eMatchScoreOther after a successful multi-step match or a positional predicate (`handleFoundIndex*`); otherwise
the score of the node test — a boolean predicate that holds leaves the node test's score unchanged -/
def dynScore (a : AltDesc) : DefScore :=
  match a.shape with
  | .multi | .posPred => .other
  | .simple | .boolPred => (stepTarget a.last).score

def firstScore (am : Nat → Bool) : List AltDesc → Nat → Option DefScore
  | [], _ => none
  | a :: rest, i => if am i then some (dynScore a) else firstScore am rest (i + 1)

/-- `XPath::getMatchScore` on the whole pattern: score of the first alternative that matches -/
def wholeScore (am : AltMatch) (t : Tmpl) : Option DefScore := firstScore (am t) t.alts 0

/-- the mode test written twice in `findTemplate` -/
def modeOk (mode ruleMode : Nat) : Bool :=
  (mode == 0 && ruleMode == 0) || (mode != 0 && ruleMode != 0 && ruleMode == mode)

/-- does the entry's pattern test succeed?  Unchanged code: the *whole* union pattern is evaluated for every entry;
with proposed/C10-union-per-alternative.diff (`XalanMatchPatternData::getMatchScore`): only the alternative the entry
stands for.  (Which one is in the source is regenerated by the translator.) -/
def entryHit (am : AltMatch) (m : MPD) : Bool :=
  if Generated.C10.perAlternativeMatch then am m.tmpl m.alt else (wholeScore am m.tmpl).isSome

/-- quiet body (getQuietConflictWarnings() == true): first entry in list order whose mode fits and whose pattern test
succeeds -/
def findQuietList (am : AltMatch) (mode : Nat) : List MPD → Option Tmpl
  | [] => none
  | m :: rest =>
    if modeOk mode m.tmpl.mode && entryHit am m then some m.tmpl
    else findQuietList am mode rest

/-- loop state of the conflict-reporting body -/
structure RState where
  best : Option MPD := none          -- bestMatchedPattern (bestMatchedRule = its template)
  bestPrio : Option Int := none      -- bestMatchPatPriority (none = -infinity)
  conflicts : List MPD := []         -- conflicts[0 .. nConflicts)
  prev : Option MPD := none          -- prevMatchPat (prevPat = its pattern string)
  deriving Repr, Inhabited

/-- `addObjectIfNotFound(thePattern, thePatternArray, thePatternArraySize)` -/
def addIfNotFound (l : List MPD) (p : MPD) : List MPD := if l.contains p then l else l ++ [p]

/-- the "same pattern as the previous entry" test of the reporting body. Unchanged code: equal pattern strings and equal
priority attributes; with proposed/C10-duplicate-pattern-string.diff: the same template. (Which one is in the source is
regenerated by the translator.) -/
def dupTest (pm m : MPD) : Bool :=
  if Generated.C10.dupSkipByPatternString then pm.tmpl.pat == m.tmpl.pat && pm.tmpl.prio == m.tmpl.prio
  else pm.tmpl == m.tmpl

/-- one iteration of the do-while of the reporting body — whole-pattern match, priority from the match score -/
def reportStepOld (am : AltMatch) (mode : Nat) (s : RState) (m : MPD) : RState :=
  if modeOk mode m.tmpl.mode then
    let dup := match s.prev with
      | some pm => dupTest pm m
      | none => false
    if dup then s
    else
      let s := { s with prev := some m }
      match wholeScore am m.tmpl with
      | none => s
      | some sc =>
        let pr : Int := match m.tmpl.prio with
          | some p => p
          | none => sc.value
        match s.best, s.bestPrio with
        | some b, some bp =>
          if pr > bp then { s with best := some m, bestPrio := some pr, conflicts := [] }
          else if pr = bp then
            { s with best := some m, bestPrio := some pr, conflicts := addIfNotFound s.conflicts b ++ [m] }
          else s
        | _, _ => { s with best := some m, bestPrio := some pr, conflicts := [] }
  else s

/-- one iteration of the reporting body with proposed/C10-union-per-alternative.diff: another alternative of the rule that
is the best match so far is skipped; the entry's own alternative is matched; it is ranked by the priority it is filed
under (`getPriorityOrDefault`); the first match is taken whatever its priority -/
def reportStepAlt (am : AltMatch) (mode : Nat) (s : RState) (m : MPD) : RState :=
  if modeOk mode m.tmpl.mode then
    let skip := match s.best with
      | some b => b.tmpl == m.tmpl
      | none => false
    if skip then s
    else if am m.tmpl m.alt then
      let pr : Int := m.prioOrDefault
      match s.best, s.bestPrio with
      | some b, some bp =>
        if pr > bp then { s with best := some m, bestPrio := some pr, conflicts := [] }
        else if pr = bp then
          { s with best := some m, bestPrio := some pr, conflicts := addIfNotFound s.conflicts b ++ [m] }
        else s
      | _, _ => { s with best := some m, bestPrio := some pr, conflicts := [] }
    else s
  else s

def reportStep (am : AltMatch) (mode : Nat) (s : RState) (m : MPD) : RState :=
  if Generated.C10.perAlternativeMatch then reportStepAlt am mode s m else reportStepOld am mode s m

/-- reporting body: the loop, then `if (nConflicts > 0) bestMatchedPattern = conflicts[0]` -/
def findReportList (am : AltMatch) (mode : Nat) (l : List MPD) : Option Tmpl :=
  let s := l.foldl (reportStep am mode) {}
  match s.conflicts with
  | c :: _ => some c.tmpl
  | [] => s.best.map (·.tmpl)

/-- a warning is issued iff `nConflicts > 0` -/
def reportWarns (am : AltMatch) (mode : Nat) (l : List MPD) : Bool :=
  !(l.foldl (reportStep am mode) {}).conflicts.isEmpty

/-- a constructed `Stylesheet` object: wrapperless flag, m_firstTemplate, the pattern tables, m_imports -/
inductive Built where
  | mk (wrapperless : Bool) (first : Option Tmpl) (tables : Tables) (imports : List Built)
  deriving Inhabited

mutual
/-- `Stylesheet::findTemplate` -/
def Built.find (am : AltMatch) (k : NodeKind) (lname : String) (mode : Nat) (quiet : Bool) :
    Built → Bool → Option Tmpl
  | .mk w first tb imps, onlyUseImports =>
    if w then
      -- unchanged code: `return m_firstTemplate` for every node and mode; with
      -- proposed/C10-imported-simplified-stylesheet.diff: only for the root node in the default mode
      (if Generated.C10.wrapperlessAnswersAll then first
       else if k == .root && mode == 0 && !onlyUseImports then first else none)
    else if onlyUseImports then findInImports am k lname mode quiet imps
    else
      let l := locate tb k lname
      match (if quiet then findQuietList am mode l else findReportList am mode l) with
      | some t => some t
      | none => findInImports am k lname mode quiet imps
/-- `Stylesheet::findTemplateInImports` -/
def findInImports (am : AltMatch) (k : NodeKind) (lname : String) (mode : Nat) (quiet : Bool) :
    List Built → Option Tmpl
  | [] => none
  | b :: rest =>
    match b.find am k lname mode quiet false with
    | some t => some t
    | none => findInImports am k lname mode quiet rest
end

mutual
/-- does this `findTemplate` call (reporting body) issue the "conflicts found" warning? Only the module that answers
can warn (`nConflicts > 0` implies a result). -/
def Built.warn (am : AltMatch) (k : NodeKind) (lname : String) (mode : Nat) : Built → Bool → Bool
  | .mk w _ tb imps, onlyUseImports =>
    if w then false
    else if onlyUseImports then importsWarn am k lname mode imps
    else
      let l := locate tb k lname
      match findReportList am mode l with
      | some _ => reportWarns am mode l
      | none => importsWarn am k lname mode imps
def importsWarn (am : AltMatch) (k : NodeKind) (lname : String) (mode : Nat) : List Built → Bool
  | [] => false
  | b :: rest =>
    match b.find am k lname mode false false with
    | some _ => b.warn am k lname mode false
    | none => importsWarn am k lname mode rest
end

/-- source-level description of a stylesheet module after `xsl:include` expansion: its template rules in
document order and its `xsl:import`s in document order -/
inductive Src where
  | mk (wrapperless : Bool) (templates : List Tmpl) (imports : List Src)
  deriving Inhabited

def Src.templates : Src → List Tmpl
  | .mk _ ts _ => ts

def Src.imports : Src → List Src
  | .mk _ _ is => is

def buildTables (ts : List Tmpl) : Tables := postConstruction (ts.foldl addTemplate {})

mutual
/-- what `StylesheetHandler` + `postConstruction` build from a module -/
def Src.build : Src → Built
  | .mk w ts imps => .mk w ts.head? (buildTables ts) (buildImports imps [])
/-- `processImport` → `Stylesheet::addImport`: each new import goes to the *front* of `m_imports` -/
def buildImports : List Src → List Built → List Built
  | [], acc => acc
  | s :: rest, acc => buildImports rest (s.build :: acc)
end

/-! ## Executable specification (XSLT 1.0 §5.5, §5.6, §5.8) -/

/-- §5.5 default priority of one alternative -/
def specDefaultPriority (a : AltDesc) : Int :=
  if a.complex then 50 else
  match a.last with
  | .name _ _ => 0
  | .piLit => 0
  | .wild _ true => -25
  | .wild _ false => -50
  | .comment | .text | .node | .piAny => -50
  | .function | .fromRoot => 50

/-- a candidate of §5.5: a rule (one alternative of a template) that matches -/
structure Cand where
  tmpl : Tmpl
  prio : Int
  idx : Nat      -- position of the template rule in its stylesheet module
  deriving Repr, Inhabited

def altCands (am : AltMatch) (t : Tmpl) (idx : Nat) : List AltDesc → Nat → List Cand
  | [], _ => []
  | a :: rest, i =>
    let tl := altCands am t idx rest (i + 1)
    if am t i then ⟨t, (match t.prio with | some p => p | none => specDefaultPriority a), idx⟩ :: tl else tl

/-- all matching rules of one module in a mode -/
def sheetCands (am : AltMatch) (mode : Nat) : List Tmpl → Nat → List Cand
  | [], _ => []
  | t :: rest, idx =>
    (if t.mode = mode then altCands am t idx t.alts 0 else []) ++ sheetCands am mode rest (idx + 1)

/-- `a` is at least as good as `b`: higher priority, or the same priority and not earlier -/
def Cand.ge (a b : Cand) : Bool := a.prio > b.prio || (a.prio == b.prio && a.idx ≥ b.idx)

def pickBest : Option Cand → List Cand → Option Cand
  | acc, [] => acc
  | none, c :: rest => pickBest (some c) rest
  | some b, c :: rest => pickBest (some (if b.ge c then b else c)) rest

/-- the rule §5.5 selects inside one module: highest priority, then last -/
def bestInSheet (am : AltMatch) (mode : Nat) (ts : List Tmpl) : Option Tmpl :=
  (pickBest none (sheetCands am mode ts 0)).map (·.tmpl)

mutual
/-- modules in *decreasing* import precedence (§2.6.2: a module outranks everything it imports; a later import
outranks an earlier one together with everything that one imports) -/
def Src.byPrecedence : Src → List (List Tmpl)
  | .mk _ ts imps => ts :: importsByPrecedence imps
def importsByPrecedence : List Src → List (List Tmpl)
  | [] => []
  | s :: rest => importsByPrecedence rest ++ s.byPrecedence
end

/-- §5.5: highest import precedence first, then `bestInSheet` -/
def specWinnerIn (am : AltMatch) (mode : Nat) : List (List Tmpl) → Option Tmpl
  | [] => none
  | ts :: rest =>
    match bestInSheet am mode ts with
    | some t => some t
    | none => specWinnerIn am mode rest

def specWinner (am : AltMatch) (mode : Nat) (s : Src) : Option Tmpl := specWinnerIn am mode s.byPrecedence

/-- §5.6: `apply-imports` in a rule of module `s` considers only what `s` imports -/
def specApplyImports (am : AltMatch) (mode : Nat) (s : Src) : Option Tmpl :=
  specWinnerIn am mode (importsByPrecedence s.imports)

/-! ## Processing one node: chosen rule, `apply-imports` chain, built-in rules -/

/-- address of a module in the import tree: indices into the *document-order* import lists -/
abbrev SheetPath := List Nat

def Src.sub : Src → SheetPath → Option Src
  | s, [] => some s
  | .mk _ _ imps, i :: rest => match imps[i]? with
    | some c => c.sub rest
    | none => none

/-- `apply-imports` inside a rule of module `cur`: `getCurrentTemplate()->getStylesheet().findTemplate(…, true)` -/
def implApplyImports (am : AltMatch) (k : NodeKind) (lname : String) (mode : Nat) (quiet : Bool) (cur : Src) :
    Option Tmpl :=
  cur.build.find am k lname mode quiet true

/-- `apply-templates` : `getStylesheetRoot().findTemplate(…, false)` -/
def implFind (am : AltMatch) (k : NodeKind) (lname : String) (mode : Nat) (quiet : Bool) (root : Src) :
    Option Tmpl :=
  root.build.find am k lname mode quiet false

structure NodeRec where
  kind : NodeKind
  lname : String
  kids : List Nat       -- child nodes (no attributes), document order
  text : String         -- string value for text / attribute nodes
  deriving Repr, Inhabited

inductive Tok where
  | rule (id : Nat)
  | text (s : String)
  deriving DecidableEq, Repr

/-- what instantiating the chosen rule for one node produces, rule bodies being reduced to: write my marker; copy the
parameter `p` I was given; optionally `xsl:call-template` a named template (body: marker, optionally
`xsl:apply-imports`); optionally `<xsl:apply-templates select="." mode="…">` with an `xsl:with-param` whose body is
`xsl:apply-imports` or such a call; optionally `xsl:apply-imports`.  No rule ⇒ the built-in rule of the node type
(§5.8; parameters are not passed on), as dispatched in `ElemTemplateElement::findTemplateToTransformChild`.
`via = some t`: we are inside an `apply-imports` whose current template is `t`.
`callKeeps`: `xsl:call-template` leaves the current template rule unchanged (§5.6) — `true` in the specification,
`!Generated.C10.callTemplateChangesCurrentRule` in the implementation model; `directKeeps`: the same for a call that is
the only child of its parent (run as a "direct template", `!Generated.C10.directCallTemplateChangesCurrentRule`).
`wpCaller`: the value of an `xsl:with-param` is computed in the context of the *caller* (§11.6), so an
`xsl:apply-imports` in it sees the caller's current mode (§5.6) — `true` in the specification,
`!Generated.C10.withParamSeesCalleeMode` in the implementation model (`ElemApplyTemplates::startElement` pushed the new
mode before its `xsl:with-param` children were evaluated). -/
def processWith (doc : Array NodeRec) (findTop : Nat → Nat → Option Tmpl)
    (findImp : Tmpl → Nat → Nat → Option Tmpl) (named : Nat → Option Tmpl) (callKeeps directKeeps wpCaller : Bool) :
    Nat → Nat → Nat → Option Tmpl → List Tok → List Tok
  | 0, _, _, _, _ => [.text "FUEL"]
  | f + 1, n, mode, via, param =>
    let found := match via with
      | none => findTop n mode
      | some cur => findImp cur n mode
    match found with
    | some t =>
      if t.bare then
        -- body = a single xsl:call-template: the named template is run directly with the rule as invoker
        match named t.call with
        | some nt =>
          .rule nt.id ::
            (if nt.applyImports then
              processWith doc findTop findImp named callKeeps directKeeps wpCaller f n mode
                (some (if directKeeps then t else nt)) []
             else [])
        | none => []
      else
      let callPart : List Tok := match (if t.call = 0 then none else named t.call) with
        | some nt =>
          .rule nt.id ::
            (if nt.applyImports then
              processWith doc findTop findImp named callKeeps directKeeps wpCaller f n mode (some (if callKeeps then t else nt)) []
             else [])
        | none => []
      let wpPart : List Tok :=
        if t.wpMode = 0 then []
        else
          let bodyMode := if wpCaller then mode else t.wpMode
          let body : List Tok :=
            if t.wpCall = 0 then
              processWith doc findTop findImp named callKeeps directKeeps wpCaller f n bodyMode (some t) []
            else match named t.wpCall with
              | some nt =>
                -- the call is the only child of the xsl:with-param: direct template
                .rule nt.id ::
                  (if nt.applyImports then
                    processWith doc findTop findImp named callKeeps directKeeps wpCaller f n bodyMode
                      (some (if directKeeps then t else nt)) []
                   else [])
              | none => []
          processWith doc findTop findImp named callKeeps directKeeps wpCaller f n t.wpMode none body
      .rule t.id :: param ++ callPart ++ wpPart ++
        (if t.applyImports then processWith doc findTop findImp named callKeeps directKeeps wpCaller f n mode (some t) [] else [])
    | none =>
      let r := doc.getD n default
      match r.kind with
      | .element | .root =>
        r.kids.flatMap fun c => processWith doc findTop findImp named callKeeps directKeeps wpCaller f c mode none []
      | .text | .attribute => [.text r.text]
      | _ => []

/-- number of "conflicts found" warnings issued while processing one node (same traversal as `processWith`) -/
def warnsWith (doc : Array NodeRec) (findTop : Nat → Nat → Option Tmpl) (findImp : Tmpl → Nat → Nat → Option Tmpl)
    (warnTop : Nat → Nat → Bool) (warnImp : Tmpl → Nat → Nat → Bool) (named : Nat → Option Tmpl)
    (callKeeps directKeeps wpCaller : Bool) : Nat → Nat → Nat → Option Tmpl → Nat
  | 0, _, _, _ => 0
  | f + 1, n, mode, via =>
    let found := match via with
      | none => findTop n mode
      | some cur => findImp cur n mode
    let w : Nat := match via with
      | none => if warnTop n mode then 1 else 0
      | some cur => if warnImp cur n mode then 1 else 0
    match found with
    | some t =>
      if t.bare then
        w + (match named t.call with
          | some nt =>
            if nt.applyImports then
              warnsWith doc findTop findImp warnTop warnImp named callKeeps directKeeps wpCaller f n mode
                (some (if directKeeps then t else nt))
            else 0
          | none => 0)
      else
      let callPart : Nat := match (if t.call = 0 then none else named t.call) with
        | some nt =>
          if nt.applyImports then
            warnsWith doc findTop findImp warnTop warnImp named callKeeps directKeeps wpCaller f n mode
              (some (if callKeeps then t else nt))
          else 0
        | none => 0
      let wpPart : Nat :=
        if t.wpMode = 0 then 0
        else
          let bodyMode := if wpCaller then mode else t.wpMode
          let body : Nat :=
            if t.wpCall = 0 then
              warnsWith doc findTop findImp warnTop warnImp named callKeeps directKeeps wpCaller f n bodyMode (some t)
            else match named t.wpCall with
              | some nt =>
                if nt.applyImports then
                  warnsWith doc findTop findImp warnTop warnImp named callKeeps directKeeps wpCaller f n bodyMode
                    (some (if directKeeps then t else nt))
                else 0
              | none => 0
          body + warnsWith doc findTop findImp warnTop warnImp named callKeeps directKeeps wpCaller f n t.wpMode none
      w + callPart + wpPart +
        (if t.applyImports then
          warnsWith doc findTop findImp warnTop warnImp named callKeeps directKeeps wpCaller f n mode (some t) else 0)
    | none =>
      let r := doc.getD n default
      match r.kind with
      | .element | .root =>
        w + (r.kids.map fun c =>
          warnsWith doc findTop findImp warnTop warnImp named callKeeps directKeeps wpCaller f c mode none).sum
      | _ => w

end XalanModel.C10
