import XalanModel.C10.FullProofs
namespace XalanModel.C10

theorem length_addToList (l : List MPD) (p : MPD) : (addToList l p).length = l.length + 1 := by
  induction l with
  | nil => simp [addToList]
  | cons c rest ih =>
    simp only [addToList]
    split
    · simp
    · split
      · simp
      · simp [ih]

theorem length_foldl_addToList (xs l : List MPD) : (xs.foldl addToList l).length = l.length + xs.length := by
  induction xs generalizing l with
  | nil => simp
  | cons x xs ih => simp only [List.foldl_cons, ih, length_addToList, List.length_cons]; omega

def cnt (P : TargetData → Bool) (S : List (MPD × TargetData)) : Nat := (S.filter fun e => P e.2).length

theorem cnt_append_single (P : TargetData → Bool) (S : List (MPD × TargetData)) (e : MPD × TargetData) :
    cnt P (S ++ [e]) = cnt P S + (if P e.2 then 1 else 0) := by
  unfold cnt
  rw [List.filter_append]
  cases h : P e.2 <;> simp [List.filter, h]

theorem cnt_le (P : TargetData → Bool) (S : List (MPD × TargetData)) : cnt P S ≤ S.length := by
  unfold cnt; exact List.length_filter_le _ _

theorem cnt_disjoint (P Q : TargetData → Bool) (S : List (MPD × TargetData))
    (h : ∀ td, ¬ (P td = true ∧ Q td = true)) : cnt P S + cnt Q S ≤ S.length := by
  induction S with
  | nil => simp [cnt]
  | cons e rest ih =>
    unfold cnt at *
    simp only [List.filter_cons, List.length_cons]
    have := h e.2
    cases hp : P e.2 <;> cases hq : Q e.2 <;> simp_all <;> omega

theorem length_tableGet_tableAdd (t : NameTable) (n n' : String) (p : MPD) :
    (tableGet (tableAdd t n p) n').length = (tableGet t n').length + (if n = n' then 1 else 0) := by
  induction t with
  | nil => by_cases h : n = n' <;> simp [tableGet, tableAdd, tableFind, h]
  | cons hd rest ih =>
    obtain ⟨k, l⟩ := hd
    by_cases hk : k = n
    · subst hk
      by_cases h : k = n'
      · subst h; simp [tableGet, tableAdd, tableFind, length_addToList]
      · simp [tableGet, tableAdd, tableFind, h]
    · by_cases h : k = n'
      · subst h
        have : ¬ n = k := fun e => hk e.symm
        simp [tableGet, tableAdd, tableFind, hk, this]
      · simp only [tableGet, tableAdd, hk, if_false, tableFind, h] at ih ⊢
        exact ih

theorem length_route_get (tb : Tables) (td : TargetData) (p : MPD) (lid : ListId) :
    ((route tb td p).get lid).length = (tb.get lid).length + (if routesTo td lid then 1 else 0) := by
  obtain ⟨ps, sc, tt⟩ := td
  cases hfl : Generated.C10.functionTargetsAllLists <;>
    cases lid <;> cases ps <;> cases tt <;> simp [route, Tables.get, routesTo, fnAll, length_addToList, hfl]

theorem length_route_elemTable (tb : Tables) (td : TargetData) (p : MPD) (n : String) :
    (tableGet (route tb td p).elemTable n).length =
      (tableGet tb.elemTable n).length + (if routesToElemName td n then 1 else 0) := by
  obtain ⟨ps, sc, tt⟩ := td
  cases hfl : Generated.C10.functionTargetsAllLists <;>
    cases ps <;> cases tt <;> simp [route, routesToElemName, length_tableGet_tableAdd, hfl]

theorem length_route_attrTable (tb : Tables) (td : TargetData) (p : MPD) (n : String) :
    (tableGet (route tb td p).attrTable n).length =
      (tableGet tb.attrTable n).length + (if routesToAttrName td n then 1 else 0) := by
  obtain ⟨ps, sc, tt⟩ := td
  cases hfl : Generated.C10.functionTargetsAllLists <;>
    cases ps <;> cases tt <;> simp [route, routesToAttrName, length_tableGet_tableAdd, hfl]

/-- every list holds as many entries as the log has entries routed to it (so: each entry at most once per list) -/
structure CInv (tb : Tables) (S : List (MPD × TargetData)) : Prop where
  plain : ∀ lid, (tb.get lid).length = cnt (fun td => routesTo td lid) S
  elem : ∀ n, (tableGet tb.elemTable n).length = cnt (fun td => routesToElemName td n) S
  attr : ∀ n, (tableGet tb.attrTable n).length = cnt (fun td => routesToAttrName td n) S
  count : tb.patternCount = S.length

theorem CInv.empty : CInv {} [] := by
  constructor
  · intro lid; cases lid <;> simp [Tables.get, cnt]
  · intro n; simp [tableGet, tableFind, cnt]
  · intro n; simp [tableGet, tableFind, cnt]
  · rfl

theorem CInv.route {tb : Tables} {S : List (MPD × TargetData)} (h : CInv tb S) (td : TargetData) (p : MPD) :
    CInv (route { tb with patternCount := tb.patternCount + 1 } td p) (S ++ [(p, td)]) := by
  constructor
  · intro lid
    rw [length_route_get, cnt_append_single]
    have : ({ tb with patternCount := tb.patternCount + 1 } : Tables).get lid = tb.get lid := by cases lid <;> rfl
    rw [this, h.plain]
  · intro n
    rw [length_route_elemTable, cnt_append_single]
    show (tableGet tb.elemTable n).length + _ = _
    rw [h.elem]
  · intro n
    rw [length_route_attrTable, cnt_append_single]
    show (tableGet tb.attrTable n).length + _ = _
    rw [h.attr]
  · rw [route_patternCount]; simp [h.count]

theorem CInv.addAlts (t : Tmpl) (alts : List AltDesc) (i : Nat) {tb : Tables} {S : List (MPD × TargetData)}
    (h : CInv tb S) : CInv (addAlts t alts i tb) (S ++ altEntries t alts i tb.patternCount) := by
  induction alts generalizing i tb S with
  | nil => simpa [XalanModel.C10.addAlts, altEntries] using h
  | cons a rest ih =>
    simp only [XalanModel.C10.addAlts, altEntries]
    have h1 := h.route (targetData a) ⟨t, tb.patternCount, i, (targetData a).score⟩
    have h2 := ih (i + 1) h1
    rw [route_patternCount] at h2
    simpa [List.append_assoc] using h2

theorem length_altEntries (t : Tmpl) (alts : List AltDesc) (i pos : Nat) :
    (altEntries t alts i pos).length = alts.length := by
  induction alts generalizing i pos with
  | nil => rfl
  | cons a rest ih => simp [altEntries, ih]

theorem CInv.foldl (ts : List Tmpl) {tb : Tables} {S : List (MPD × TargetData)} (h : CInv tb S) :
    CInv (ts.foldl addTemplate tb) (S ++ tmplEntries ts tb.patternCount) := by
  induction ts generalizing tb S with
  | nil => simpa [tmplEntries] using h
  | cons t rest ih =>
    simp only [List.foldl_cons, tmplEntries]
    have h1 := h.addAlts t t.alts 0
    have hc : (XalanModel.C10.addAlts t t.alts 0 tb).patternCount = tb.patternCount + t.alts.length := by
      rw [h1.count, List.length_append, length_altEntries, h.count]
    have := ih h1
    rw [hc] at this
    simpa [addTemplate, List.append_assoc] using this

/-- **Each located list has at most `m_patternCount` entries** (every entry is in a list at most once; the named list
and the wildcard list merged by `addToTable` are disjoint). -/
theorem length_locate_le (ts : List Tmpl) (k : NodeKind) (lname : String) :
    (locate (buildTables ts) k lname).length ≤ (buildTables ts).patternCount := by
  have hinv : CInv (ts.foldl addTemplate {}) (tmplEntries ts 0) := by
    have := CInv.foldl ts CInv.empty
    simpa using this
  have hpc : (buildTables ts).patternCount = (tmplEntries ts 0).length := by
    simp only [buildTables, postConstruction]; exact hinv.count
  rw [hpc]
  have hp := hinv.plain
  cases k
  · -- element
    simp only [locate, buildTables, postConstruction]
    rw [tableFind_addToTable]
    cases hf : tableFind (List.foldl addTemplate {} ts).elemTable lname with
    | none =>
      simp only [Option.map_none, Option.getD_none]
      have := hp .elemAny; simp only [Tables.get] at this; rw [this]; exact cnt_le _ _
    | some l0 =>
      simp only [Option.map_some, Option.getD_some, length_foldl_addToList]
      have h1 := hinv.elem lname
      simp only [tableGet, hf, Option.getD_some] at h1
      have h2 := hp .elemAny; simp only [Tables.get] at h2
      rw [h1, h2]
      apply cnt_disjoint
      intro td ⟨ha, hb⟩
      obtain ⟨ps, sc, tt⟩ := td
      cases ps <;> simp [routesToElemName, routesTo, fnAll] at ha hb
  · -- attribute
    simp only [locate, buildTables, postConstruction]
    rw [tableFind_addToTable]
    cases hf : tableFind (List.foldl addTemplate {} ts).attrTable lname with
    | none =>
      simp only [Option.map_none, Option.getD_none]
      have := hp .attrAny; simp only [Tables.get] at this; rw [this]; exact cnt_le _ _
    | some l0 =>
      simp only [Option.map_some, Option.getD_some, length_foldl_addToList]
      have h1 := hinv.attr lname
      simp only [tableGet, hf, Option.getD_some] at h1
      have h2 := hp .attrAny; simp only [Tables.get] at h2
      rw [h1, h2]
      apply cnt_disjoint
      intro td ⟨ha, hb⟩
      obtain ⟨ps, sc, tt⟩ := td
      cases ps <;> simp [routesToAttrName, routesTo, fnAll] at ha hb
  · simp [locate]
  · have := hp .text; simp only [Tables.get] at this
    simp only [locate, buildTables, postConstruction]; rw [this]; exact cnt_le _ _
  · have := hp .comment; simp only [Tables.get] at this
    simp only [locate, buildTables, postConstruction]; rw [this]; exact cnt_le _ _
  · have := hp .pi; simp only [Tables.get] at this
    simp only [locate, buildTables, postConstruction]; rw [this]; exact cnt_le _ _
  · have := hp .root; simp only [Tables.get] at this
    simp only [locate, buildTables, postConstruction]; rw [this]; exact cnt_le _ _
  · have := hp .node; simp only [Tables.get] at this
    simp only [locate, buildTables, postConstruction]; rw [this]; exact cnt_le _ _

end XalanModel.C10
