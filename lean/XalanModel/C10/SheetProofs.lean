import XalanModel.C10.ConflictProofs
/-!
# C10 — which entries a node's list holds (`mem_locate_buildTables`)

`tmplEntries ts 0` is the log of `XalanMatchPatternData` objects `addTemplate` creates for the rules `ts` (one per
union alternative, positions 0,1,2,…).  The list `locateMatchPatternDataList` returns for a node holds exactly the
logged entries whose target data is `compat`ible with the node.
-/
namespace XalanModel.C10

inductive ListId where
  | text | comment | root | pi | node | elemAny | attrAny
  deriving DecidableEq, Repr

def Tables.get (tb : Tables) : ListId → List MPD
  | .text => tb.text | .comment => tb.comment | .root => tb.root | .pi => tb.pi | .node => tb.node
  | .elemAny => tb.elemAny | .attrAny => tb.attrAny

/-- the plain lists the routing chain of `addTemplate` adds an entry with this target data to -/
def fnAll (td : TargetData) : Bool :=
  Generated.C10.functionTargetsAllLists && td.pseudo == .any && td.ttype == .any

def routesTo (td : TargetData) : ListId → Bool
  | .text => td.pseudo == .text || td.pseudo == .node || fnAll td
  | .comment => td.pseudo == .comment || td.pseudo == .node || fnAll td
  | .root => td.pseudo == .root || fnAll td
  | .pi => td.pseudo == .pi || td.pseudo == .node || fnAll td
  | .node => td.pseudo == .node || fnAll td
  | .elemAny => td.pseudo == .node || (td.pseudo == .any && (td.ttype == .element || td.ttype == .any))
  | .attrAny => td.pseudo == .node || (td.pseudo == .any && (td.ttype == .attribute || td.ttype == .any))

def routesToElemName (td : TargetData) (n : String) : Bool := td.pseudo == .name n && td.ttype == .element
def routesToAttrName (td : TargetData) (n : String) : Bool := td.pseudo == .name n && td.ttype == .attribute

def tableGet (t : NameTable) (n : String) : List MPD := (tableFind t n).getD []

theorem mem_tableGet_tableAdd (t : NameTable) (n n' : String) (p m : MPD) :
    m ∈ tableGet (tableAdd t n p) n' ↔ (n = n' ∧ m = p) ∨ m ∈ tableGet t n' := by
  induction t with
  | nil =>
    by_cases h : n = n' <;> simp [tableGet, tableAdd, tableFind, h]
  | cons hd rest ih =>
    obtain ⟨k, l⟩ := hd
    by_cases hk : k = n
    · subst hk
      by_cases h : k = n'
      · subst h; simp [tableGet, tableAdd, tableFind, mem_addToList]
      · simp [tableGet, tableAdd, tableFind, h]
    · by_cases h : k = n'
      · subst h
        have : ¬ n = k := fun e => hk e.symm
        simp [tableGet, tableAdd, tableFind, hk, this]
      · simp only [tableGet, tableAdd, hk, if_false, tableFind, h] at ih ⊢
        exact ih

theorem mem_route_get (tb : Tables) (td : TargetData) (p m : MPD) (lid : ListId) :
    m ∈ (route tb td p).get lid ↔ (routesTo td lid = true ∧ m = p) ∨ m ∈ tb.get lid := by
  obtain ⟨ps, sc, tt⟩ := td
  cases hfl : Generated.C10.functionTargetsAllLists <;>
    cases lid <;> cases ps <;> cases tt <;> simp [route, Tables.get, routesTo, fnAll, mem_addToList, hfl]

theorem mem_route_elemTable (tb : Tables) (td : TargetData) (p m : MPD) (n : String) :
    m ∈ tableGet (route tb td p).elemTable n ↔ (routesToElemName td n = true ∧ m = p) ∨ m ∈ tableGet tb.elemTable n := by
  obtain ⟨ps, sc, tt⟩ := td
  cases hfl : Generated.C10.functionTargetsAllLists <;>
    cases ps <;> cases tt <;> simp [route, routesToElemName, mem_tableGet_tableAdd, hfl]

theorem mem_route_attrTable (tb : Tables) (td : TargetData) (p m : MPD) (n : String) :
    m ∈ tableGet (route tb td p).attrTable n ↔ (routesToAttrName td n = true ∧ m = p) ∨ m ∈ tableGet tb.attrTable n := by
  obtain ⟨ps, sc, tt⟩ := td
  cases hfl : Generated.C10.functionTargetsAllLists <;>
    cases ps <;> cases tt <;> simp [route, routesToAttrName, mem_tableGet_tableAdd, hfl]

/-- the log of entries `addAlts` creates -/
def altEntries (t : Tmpl) : List AltDesc → Nat → Nat → List (MPD × TargetData)
  | [], _, _ => []
  | a :: rest, i, pos =>
    (⟨t, pos, i, (targetData a).score⟩, targetData a) :: altEntries t rest (i + 1) (pos + 1)

def tmplEntries : List Tmpl → Nat → List (MPD × TargetData)
  | [], _ => []
  | t :: rest, pos => altEntries t t.alts 0 pos ++ tmplEntries rest (pos + t.alts.length)

/-- the tables hold exactly the logged entries `S`, each in the lists its target data routes to -/
structure TInv (tb : Tables) (S : List (MPD × TargetData)) : Prop where
  plain : ∀ lid m, m ∈ tb.get lid ↔ ∃ e ∈ S, e.1 = m ∧ routesTo e.2 lid = true
  elem : ∀ n m, m ∈ tableGet tb.elemTable n ↔ ∃ e ∈ S, e.1 = m ∧ routesToElemName e.2 n = true
  attr : ∀ n m, m ∈ tableGet tb.attrTable n ↔ ∃ e ∈ S, e.1 = m ∧ routesToAttrName e.2 n = true

theorem TInv.empty : TInv {} [] := by
  constructor
  · intro lid m; cases lid <;> simp [Tables.get]
  · intro n m; simp [tableGet, tableFind]
  · intro n m; simp [tableGet, tableFind]

theorem TInv.route {tb : Tables} {S : List (MPD × TargetData)} (h : TInv tb S) (td : TargetData) (p : MPD) (pc : Nat) :
    TInv (route { tb with patternCount := pc } td p) (S ++ [(p, td)]) := by
  constructor
  · intro lid m
    rw [mem_route_get]
    have : ({ tb with patternCount := pc } : Tables).get lid = tb.get lid := by cases lid <;> rfl
    rw [this, h.plain]
    constructor
    · rintro (⟨h1, rfl⟩ | ⟨e, he, h2, h3⟩)
      · exact ⟨(m, td), by simp, rfl, h1⟩
      · exact ⟨e, List.mem_append_left _ he, h2, h3⟩
    · rintro ⟨e, he, h2, h3⟩
      rcases List.mem_append.mp he with he | he
      · exact Or.inr ⟨e, he, h2, h3⟩
      · simp only [List.mem_singleton] at he; subst he
        exact Or.inl ⟨h3, h2.symm⟩
  · intro n m
    rw [mem_route_elemTable]
    show _ ∨ m ∈ tableGet tb.elemTable n ↔ _
    rw [h.elem]
    constructor
    · rintro (⟨h1, rfl⟩ | ⟨e, he, h2, h3⟩)
      · exact ⟨(m, td), by simp, rfl, h1⟩
      · exact ⟨e, List.mem_append_left _ he, h2, h3⟩
    · rintro ⟨e, he, h2, h3⟩
      rcases List.mem_append.mp he with he | he
      · exact Or.inr ⟨e, he, h2, h3⟩
      · simp only [List.mem_singleton] at he; subst he
        exact Or.inl ⟨h3, h2.symm⟩
  · intro n m
    rw [mem_route_attrTable]
    show _ ∨ m ∈ tableGet tb.attrTable n ↔ _
    rw [h.attr]
    constructor
    · rintro (⟨h1, rfl⟩ | ⟨e, he, h2, h3⟩)
      · exact ⟨(m, td), by simp, rfl, h1⟩
      · exact ⟨e, List.mem_append_left _ he, h2, h3⟩
    · rintro ⟨e, he, h2, h3⟩
      rcases List.mem_append.mp he with he | he
      · exact Or.inr ⟨e, he, h2, h3⟩
      · simp only [List.mem_singleton] at he; subst he
        exact Or.inl ⟨h3, h2.symm⟩

theorem route_patternCount (tb : Tables) (td : TargetData) (p : MPD) : (route tb td p).patternCount = tb.patternCount := by
  obtain ⟨ps, sc, tt⟩ := td
  cases hfl : Generated.C10.functionTargetsAllLists <;> cases ps <;> cases tt <;> simp [route, hfl]

theorem TInv.addAlts (t : Tmpl) (alts : List AltDesc) (i : Nat) {tb : Tables} {S : List (MPD × TargetData)}
    (h : TInv tb S) :
    TInv (addAlts t alts i tb) (S ++ altEntries t alts i tb.patternCount) ∧
      (addAlts t alts i tb).patternCount = tb.patternCount + alts.length := by
  induction alts generalizing i tb S with
  | nil => exact ⟨by simpa [XalanModel.C10.addAlts, altEntries] using h, by simp [XalanModel.C10.addAlts]⟩
  | cons a rest ih =>
    simp only [XalanModel.C10.addAlts, altEntries]
    have h1 := h.route (targetData a) ⟨t, tb.patternCount, i, (targetData a).score⟩ (tb.patternCount + 1)
    obtain ⟨h2, h3⟩ := ih (i + 1) h1
    rw [route_patternCount] at h2 h3
    constructor
    · simpa [List.append_assoc] using h2
    · rw [h3]; simp only [List.length_cons]; omega

theorem TInv.foldl (ts : List Tmpl) {tb : Tables} {S : List (MPD × TargetData)} (h : TInv tb S) :
    TInv (ts.foldl addTemplate tb) (S ++ tmplEntries ts tb.patternCount) := by
  induction ts generalizing tb S with
  | nil => simpa [tmplEntries] using h
  | cons t rest ih =>
    simp only [List.foldl_cons, tmplEntries]
    obtain ⟨h1, h2⟩ := h.addAlts t t.alts 0
    have := ih h1
    rw [h2] at this
    simpa [addTemplate, List.append_assoc] using this

/-- a node of kind `k` and local name `lname` consults a list that holds entries with this target data -/
def compat (td : TargetData) (k : NodeKind) (lname : String) : Bool :=
  match k with
  | .element => routesTo td .elemAny || routesToElemName td lname
  | .attribute => routesTo td .attrAny || routesToAttrName td lname
  | .nsDecl => false
  | .text => routesTo td .text
  | .comment => routesTo td .comment
  | .pi => routesTo td .pi
  | .root => routesTo td .root
  | .other => routesTo td .node

theorem tableFind_addToTable (t : NameTable) (l : List MPD) (n : String) :
    tableFind (addToTable t l) n = (tableFind t n).map fun l0 => l.foldl addToList l0 := by
  induction t with
  | nil => rfl
  | cons hd rest ih =>
    obtain ⟨k, l0⟩ := hd
    simp only [addToTable, List.map_cons, tableFind] at ih ⊢
    split
    · rfl
    · exact ih

theorem mem_foldl_addToList (xs l : List MPD) (x : MPD) : x ∈ xs.foldl addToList l ↔ x ∈ xs ∨ x ∈ l := by
  induction xs generalizing l with
  | nil => simp
  | cons y ys ih =>
    simp only [List.foldl_cons, List.mem_cons]
    rw [ih, mem_addToList]
    constructor
    · rintro (h | h | h)
      · exact Or.inl (Or.inr h)
      · exact Or.inl (Or.inl h)
      · exact Or.inr h
    · rintro ((h | h) | h)
      · exact Or.inr (Or.inl h)
      · exact Or.inl h
      · exact Or.inr (Or.inr h)

theorem mem_merged (t : NameTable) (any : List MPD) (n : String) (m : MPD) :
    m ∈ (tableFind (addToTable t any) n).getD any ↔ m ∈ tableGet t n ∨ m ∈ any := by
  rw [tableFind_addToTable]
  unfold tableGet
  cases tableFind t n with
  | none => simp
  | some l0 =>
    simp only [Option.map_some, Option.getD_some, mem_foldl_addToList]
    exact Or.comm

/-- **Which entries a node sees.** -/
theorem mem_locate_buildTables (ts : List Tmpl) (k : NodeKind) (lname : String) (m : MPD) :
    m ∈ locate (buildTables ts) k lname ↔ ∃ e ∈ tmplEntries ts 0, e.1 = m ∧ compat e.2 k lname = true := by
  have hinv : TInv (ts.foldl addTemplate {}) (tmplEntries ts 0) := by
    have := TInv.foldl ts TInv.empty
    simpa using this
  have hp := hinv.plain
  cases k
  · -- element
    simp only [locate, buildTables, postConstruction, compat, Bool.or_eq_true]
    rw [mem_merged, hinv.elem, show (List.foldl addTemplate {} ts).elemAny = (List.foldl addTemplate {} ts).get .elemAny from rfl, hp]
    constructor
    · rintro (⟨e, he, h1, h2⟩ | ⟨e, he, h1, h2⟩)
      · exact ⟨e, he, h1, Or.inr h2⟩
      · exact ⟨e, he, h1, Or.inl h2⟩
    · rintro ⟨e, he, h1, h2 | h2⟩
      · exact Or.inr ⟨e, he, h1, h2⟩
      · exact Or.inl ⟨e, he, h1, h2⟩
  · -- attribute
    simp only [locate, buildTables, postConstruction, compat, Bool.or_eq_true]
    rw [mem_merged, hinv.attr, show (List.foldl addTemplate {} ts).attrAny = (List.foldl addTemplate {} ts).get .attrAny from rfl, hp]
    constructor
    · rintro (⟨e, he, h1, h2⟩ | ⟨e, he, h1, h2⟩)
      · exact ⟨e, he, h1, Or.inr h2⟩
      · exact ⟨e, he, h1, Or.inl h2⟩
    · rintro ⟨e, he, h1, h2 | h2⟩
      · exact Or.inr ⟨e, he, h1, h2⟩
      · exact Or.inl ⟨e, he, h1, h2⟩
  · simp [locate, compat]
  · simpa [locate, buildTables, postConstruction, compat, Tables.get] using hp .text m
  · simpa [locate, buildTables, postConstruction, compat, Tables.get] using hp .comment m
  · simpa [locate, buildTables, postConstruction, compat, Tables.get] using hp .pi m
  · simpa [locate, buildTables, postConstruction, compat, Tables.get] using hp .root m
  · simpa [locate, buildTables, postConstruction, compat, Tables.get] using hp .node m

end XalanModel.C10
