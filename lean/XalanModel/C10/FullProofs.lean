import XalanModel.C10.SpecProofs
/-!
# C10 — discharging the hypotheses of the full theorems

* `compat_of_admits`: routing is sound for the node test of an alternative's last step (replaces `hsound`);
* `slashRule_find`, `Src.find_eq_firstSome_wf`: a simplified stylesheet is a module with the single rule `match="/"`
  (replaces `hnw`);
* `conflicts_le_length`: bound of the `conflicts` array of the reporting body.
-/
namespace XalanModel.C10


/-- XPath semantics of the last step of an alternative: the kinds (and local name) of node it can select.
`key()`/`id()` select any node but a namespace declaration; `/` the root; the node-type tests their type; `node()` on
the child axis any child node (not attributes, not the root); a name test an element / attribute with that local name;
`*`, `p:*` any element / attribute. -/
def lastStepAdmits (l : LastStep) (k : NodeKind) (lname : String) : Bool :=
  match l with
  | .function => k != .nsDecl
  | .fromRoot => k == .root
  | .comment => k == .comment
  | .text => k == .text
  | .node => k == .element || k == .text || k == .comment || k == .pi || k == .other
  | .piAny => k == .pi
  | .piLit => k == .pi
  | .name attr l => (if attr then k == .attribute else k == .element) && lname == l
  | .wild attr _ => if attr then k == .attribute else k == .element

theorem targetData_pseudo (a : AltDesc) : (targetData a).pseudo = (stepTarget a.last).pseudo := by
  unfold targetData; split <;> rfl

theorem targetData_ttype (a : AltDesc) : (targetData a).ttype = (stepTarget a.last).ttype := by
  unfold targetData; split <;> rfl

/-- **Routing is sound for the node test of the last step**: whatever node the last step of an alternative can select
consults a list the alternative's entry is filed in (`getTargetData` + the routing chain of `addTemplate` +
`addToTable` + `locateMatchPatternDataList`), given that function targets are filed in every list. -/
theorem compat_of_admits (hfn : Generated.C10.functionTargetsAllLists = true) (a : AltDesc) (k : NodeKind)
    (lname : String) (h : lastStepAdmits a.last k lname = true) : compat (targetData a) k lname = true := by
  obtain ⟨last, shape⟩ := a
  cases last <;> cases k <;>
    simp [lastStepAdmits] at h <;>
    simp [compat, routesTo, routesToElemName, routesToAttrName, fnAll, hfn, targetData_pseudo, targetData_ttype,
      stepTarget]
  all_goals (first | (rename_i at' l; cases at' <;> simp_all) | (rename_i at' ns; cases at' <;> simp_all) | skip)



/-- the single rule of a simplified stylesheet (XSLT 1.0 §2.3): match="/", no mode, no priority -/
def Tmpl.isSlashRule (t : Tmpl) : Prop := t.mode = 0 ∧ t.prio = none ∧ t.alts = [⟨.fromRoot, .simple⟩]

theorem slashRule_locate (t : Tmpl) (h : t.isSlashRule) (k : NodeKind) (lname : String) :
    locate (buildTables [t]) k lname = if k = .root then [⟨t, 0, 0, .other⟩] else [] := by
  obtain ⟨_, _, ha⟩ := h
  cases k <;>
    simp [buildTables, addTemplate, ha, addAlts, targetData, AltDesc.complex, stepTarget, route, postConstruction,
      addToTable, locate, tableFind, addToList]

theorem slashRule_find (hper : Generated.C10.perAlternativeMatch = true) (am : AltMatch) (t : Tmpl)
    (h : t.isSlashRule) (k : NodeKind) (lname : String) (mode : Nat) (quiet : Bool) :
    findInTables am k lname mode quiet [t] = if k = .root ∧ mode = 0 ∧ am t 0 = true then some t else none := by
  have hm : t.mode = 0 := h.1
  unfold findInTables
  simp only [slashRule_locate t h]
  by_cases hk : k = .root
  · simp only [hk, if_true, true_and]
    by_cases hmode : mode = 0
    · subst hmode
      cases ham : am t 0 <;> cases quiet <;>
        simp [findQuietList, findReportList, reportStep, reportStepAlt, hper, entryHit, modeOk, hm, ham]
    · cases quiet <;>
        simp [findQuietList, findReportList, reportStep, reportStepAlt, hper, entryHit, modeOk, hm, hmode]
  · cases quiet <;> simp [hk, findQuietList, findReportList]


mutual
/-- well-formed module tree: a simplified stylesheet is a module with exactly one rule, `match="/"`, and no imports
(it has no top-level elements) -/
def Src.wf : Src → Prop
  | .mk w ts imps => (w = true → (∃ t, ts = [t] ∧ t.isSlashRule) ∧ imps = []) ∧ importsWf imps
def importsWf : List Src → Prop
  | [] => True
  | s :: rest => s.wf ∧ importsWf rest
end

mutual
theorem Src.find_eq_firstSome_wf (hper : Generated.C10.perAlternativeMatch = true)
    (hwr : Generated.C10.wrapperlessAnswersAll = false)
    (am : AltMatch) (k : NodeKind) (lname : String) (mode : Nat) (quiet : Bool)
    (hslash : ∀ t : Tmpl, t.isSlashRule → k = .root → am t 0 = true) :
    (s : Src) → s.wf →
      s.build.find am k lname mode quiet false
        = firstSome (findInTables am k lname mode quiet) s.byPrecedence
  | .mk w ts imps, h => by
    simp only [Src.wf] at h
    obtain ⟨hw, himps⟩ := h
    cases w with
    | false =>
      have := imports_find_eq_firstSome_wf hper hwr am k lname mode quiet hslash imps himps []
      simp only [Src.build, Built.find, Src.byPrecedence, firstSome, findInTables, Bool.false_eq_true, if_false] at *
      rw [this]
      simp only [findInImports, Option.or_none]
      cases quiet <;> simp only [Bool.false_eq_true, if_false, if_true] <;> split <;> simp_all
    | true =>
      obtain ⟨⟨t, hts, ht⟩, himp⟩ := hw rfl
      subst hts; subst himp
      simp only [Src.build, Built.find, if_true, hwr, Bool.false_eq_true, if_false, Src.byPrecedence,
        importsByPrecedence, firstSome, slashRule_find hper am t ht, List.head?_cons, Bool.not_false, Bool.and_true]
      by_cases hk : k = .root
      · subst hk
        by_cases hm : mode = 0
        · subst hm; simp [hslash t ht rfl]
        · simp [hm]
      · have : (k == NodeKind.root) = false := by simpa using hk
        simp [hk, this]
theorem imports_find_eq_firstSome_wf (hper : Generated.C10.perAlternativeMatch = true)
    (hwr : Generated.C10.wrapperlessAnswersAll = false)
    (am : AltMatch) (k : NodeKind) (lname : String) (mode : Nat) (quiet : Bool)
    (hslash : ∀ t : Tmpl, t.isSlashRule → k = .root → am t 0 = true) :
    (imps : List Src) → importsWf imps → (acc : List Built) →
      findInImports am k lname mode quiet (buildImports imps acc)
        = (firstSome (findInTables am k lname mode quiet) (importsByPrecedence imps)).or
            (findInImports am k lname mode quiet acc)
  | [], _, acc => by simp [buildImports, importsByPrecedence, firstSome]
  | s :: rest, h, acc => by
    simp only [importsWf] at h
    have h1 := Src.find_eq_firstSome_wf hper hwr am k lname mode quiet hslash s h.1
    have h2 := imports_find_eq_firstSome_wf hper hwr am k lname mode quiet hslash rest h.2 (s.build :: acc)
    simp only [buildImports, importsByPrecedence]
    rw [h2, firstSome_append]
    simp only [findInImports, h1]
    cases firstSome (findInTables am k lname mode quiet) (importsByPrecedence rest) <;>
      cases firstSome (findInTables am k lname mode quiet) s.byPrecedence <;> simp
end



/-- entries the `conflicts` array holds, plus one if the best entry is still to be added by `addObjectIfNotFound` -/
def cbound (s : RState) : Nat :=
  s.conflicts.length + (match s.best with
    | none => 0
    | some b => if s.conflicts.contains b then 0 else 1)

theorem contains_append_self (l : List MPD) (m : MPD) : (l ++ [m]).contains m = true := by
  simp

theorem reportStepAlt_cbound (am : AltMatch) (mode : Nat) (s : RState) (m : MPD) :
    cbound (reportStepAlt am mode s m) ≤ cbound s + 1 := by
  unfold reportStepAlt
  by_cases hmode : modeOk mode m.tmpl.mode = true
  · simp only [hmode, if_true]
    cases hb : s.best with
    | none =>
      simp only [Bool.false_eq_true, if_false]
      by_cases ham : am m.tmpl m.alt = true
      · simp [ham, cbound]
      · simp [ham, cbound, hb]
    | some b =>
      by_cases hskip : (b.tmpl == m.tmpl) = true
      · simp [hskip]
      · simp only [hskip, if_false]
        by_cases ham : am m.tmpl m.alt = true
        · simp only [ham, if_true]
          cases hp : s.bestPrio with
          | none => simp [cbound]
          | some bp =>
            simp only
            by_cases h1 : m.prioOrDefault > bp
            · simp [h1, cbound]
            · simp only [h1, if_false]
              by_cases h2 : m.prioOrDefault = bp
              · simp only [h2, if_true]
                simp only [cbound, hb, contains_append_self, if_true, List.length_append, List.length_singleton,
                  addIfNotFound]
                split <;> simp_all <;> (by_cases hc : b ∈ s.conflicts <;> simp [hc])
              · simp [h2]
        · simp [ham]
  · simp [hmode]

/-- **Bound of the `conflicts` array**: after `n` list entries the reporting body has written at most `n` of them. -/
theorem foldl_reportStepAlt_cbound (am : AltMatch) (mode : Nat) (l : List MPD) (s : RState) :
    cbound (l.foldl (reportStepAlt am mode) s) ≤ cbound s + l.length := by
  induction l generalizing s with
  | nil => simp
  | cons m rest ih =>
    simp only [List.foldl_cons, List.length_cons]
    have := ih (reportStepAlt am mode s m)
    have := reportStepAlt_cbound am mode s m
    omega

theorem conflicts_le_length (am : AltMatch) (mode : Nat) (l : List MPD) :
    (l.foldl (reportStepAlt am mode) {}).conflicts.length ≤ l.length := by
  have := foldl_reportStepAlt_cbound am mode l {}
  simp only [cbound] at this
  simp at this
  omega


/-- what is assumed of the abstract matcher: it respects the node test of the last step of the alternative it accepts,
and `/` accepts the root node -/
structure MatcherRespectsSteps (am : AltMatch) (k : NodeKind) (lname : String) (s : Src) : Prop where
  step : ∀ ts ∈ s.byPrecedence, ∀ t ∈ ts, ∀ i a, t.alts[i]? = some a → am t i = true →
    lastStepAdmits a.last k lname = true
  slash : ∀ t : Tmpl, t.isSlashRule → k = .root → am t 0 = true

end XalanModel.C10
