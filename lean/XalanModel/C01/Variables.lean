/-!
# C01 — `VariablesStack` (src/xalanc/XSLT/VariablesStack.cpp)

One stack of entries (context markers, element-frame markers, variables, inactive and active
parameters) with two indices: `m_currentStackFrameIndex` (where a lookup starts; follows the top
while it equals the size) and `m_globalStackFrameIndex` (`~0u` until set; frozen by
`markGlobalStackFrame`).  Transcribed function by function: `push` (152), `pop` (177),
`pushContextMarker`/`popContextMarker` (107/115), `pushElementFrame`/`popElementFrame` (522/555),
`elementFrameAlreadyPushed` (80), `pushVariable` (261), `pushParams` (233), `findEntry` (438),
`markGlobalStackFrame` (312).  The stack is kept **top first**; C++ index `i` is position
`length - 1 - i`.  Names, values and element identities are numbers (the real class only compares
them).  Core Lean only.
-/
namespace XalanModel.C01

inductive Entry
  | ctxMarker
  | elemFrame (e : Nat)
  | var (n v : Nat)
  | param (n v : Nat)          -- eParam: passed, not yet claimed by an xsl:param
  | activeParam (n v : Nat)    -- eActiveParam
deriving DecidableEq, Repr, Inhabited

def Entry.isVar : Entry → Bool
  | .var _ _ => true
  | _ => false

structure VStack where
  stack : List Entry := []
  cur : Nat := 0
  glob : Nat := 4294967295
  marked : Bool := false
  /-- which `findEntry` the tree has: `true` = a parameter lookup activates the passed entry in place
  (the code before the repair of finding F4), `false` = lookups leave the stack alone and `xsl:param`
  binds the value it found in its own frame.  Selected by the check with a probe on the real class. -/
  activating : Bool := true
deriving DecidableEq, Repr, Inhabited

namespace VStack

def push (s : VStack) (e : Entry) : VStack :=
  let cur' := if s.cur = s.stack.length then s.cur + 1 else s.cur
  { s with stack := e :: s.stack, cur := cur',
           glob := if !s.marked && e.isVar then cur' else s.glob }

def pop (s : VStack) : VStack :=
  { s with stack := s.stack.tail, cur := if s.cur = s.stack.length then s.cur - 1 else s.cur }

def pushContextMarker (s : VStack) : VStack := s.push .ctxMarker

/-- pop entries up to and including the nearest context marker -/
def popContextMarkerAux : Nat → VStack → VStack
  | 0, s => s
  | f+1, s =>
    match s.stack with
    | [] => s
    | e :: _ => if e = .ctxMarker then s.pop else popContextMarkerAux f s.pop

def popContextMarker (s : VStack) : VStack := popContextMarkerAux s.stack.length s

def pushElementFrame (s : VStack) (e : Nat) : VStack := s.push (.elemFrame e)

/-- `for (i = nElems - 1; i > 0; --i)`: pops (via `EnsurePop`) every entry it looks at; stops after an
element-frame marker, throws (after popping it) at a context marker; never touches index 0.
Result: new stack and whether `InvalidStackContextException` was thrown. -/
def popElementFrameAux : Nat → VStack → VStack × Bool
  | 0, s => (s, false)
  | f+1, s =>
    match s.stack with
    | [] => (s, false)
    | [_] => (s, false)
    | e :: _ :: _ =>
      match e with
      | .ctxMarker => (s.pop, true)
      | .elemFrame _ => (s.pop, false)
      | _ => popElementFrameAux f s.pop

def popElementFrame (s : VStack) : VStack × Bool := popElementFrameAux s.stack.length s

/-- scans indices `nElems-1 … 1` (context markers do not stop it) -/
def elementFrameAlreadyPushed (s : VStack) (e : Nat) : Bool :=
  s.stack.dropLast.any fun x => x = .elemFrame e

/-- `pushVariable(name, value, e)`: throws unless `e`'s frame is somewhere on the stack -/
def pushVariable (s : VStack) (n v e : Nat) : VStack × Bool :=
  if s.elementFrameAlreadyPushed e then (s.push (.var n v), false) else (s, true)

def pushParams (s : VStack) (ps : List (Nat × Nat)) : VStack :=
  ps.foldl (fun s p => s.push (.param p.1 p.2)) s

/-- the first loop of `findEntry` on the entries from the start index downwards (index 0 excluded by
the caller): value and the list with the matched inactive parameter activated -/
def findLocal (n : Nat) (isParam : Bool) (act : Bool := true) : List Entry → Option (Nat × List Entry)
  | [] => none
  | .ctxMarker :: _ => none
  | .var m v :: r =>
    if m = n then some (v, .var m v :: r)
    else (findLocal n isParam act r).map fun x => (x.1, .var m v :: x.2)
  | .activeParam m v :: r =>
    if m = n then some (v, .activeParam m v :: r)
    else (findLocal n isParam act r).map fun x => (x.1, .activeParam m v :: x.2)
  | .param m v :: r =>
    if isParam && m = n then some (v, (if act then .activeParam m v else .param m v) :: r)
    else (findLocal n isParam act r).map fun x => (x.1, .param m v :: x.2)
  | .elemFrame e :: r => (findLocal n isParam act r).map fun x => (x.1, .elemFrame e :: x.2)

/-- the second loop (global space): variables only, stops at a context marker -/
def findGlobal (n : Nat) : List Entry → Option Nat
  | [] => none
  | .ctxMarker :: _ => none
  | .var m v :: r => if m = n then some v else findGlobal n r
  | _ :: r => findGlobal n r

/-- `findEntry` + the value fetch of `findXObject`.  `none` in the first component = the C++ would
index outside the stack (start index beyond the size). -/
def findEntry (s : VStack) (n : Nat) (isParam searchGlobal : Bool) : Option (Option Nat × VStack) :=
  let len := s.stack.length
  if s.cur > len then none else
  let above := s.stack.take (len - s.cur)
  let part := (s.stack.drop (len - s.cur)).dropLast
  let bottom := (s.stack.drop (len - s.cur)).drop part.length
  match findLocal n isParam s.activating part with
  | some (v, part') => some (some v, { s with stack := above ++ part' ++ bottom })
  | none =>
    if !isParam && searchGlobal && s.glob > 1 then
      if s.glob > len then none
      else some (findGlobal n ((s.stack.drop (len - s.glob)).dropLast), s)
    else some (none, s)

def getVariable (s : VStack) (n : Nat) : Option (Option Nat × VStack) := s.findEntry n false true
def getParamVariable (s : VStack) (n : Nat) : Option (Option Nat × VStack) := s.findEntry n true false

def markGlobalStackFrame (s : VStack) : VStack :=
  ({ s with glob := s.stack.length, marked := true }).pushContextMarker

def unmarkGlobalStackFrame (s : VStack) : VStack :=
  { s.popContextMarker with glob := 4294967295, marked := false }

def setCurrentStackFrameIndex (s : VStack) (k : Option Nat) : VStack :=
  { s with cur := k.getD s.stack.length }

end VStack

/-! ## The lexical environment the Recommendation defines (XSLT §11.5, §11.6) -/

/-- what the current template instance may see: its own bindings (innermost first); the parameters
passed to it are visible only to the `xsl:param` that claims them; then the global bindings -/
structure LexEnv where
  locals : List (Nat × Nat) := []
  globals : List (Nat × Nat) := []

def LexEnv.lookup (env : LexEnv) (n : Nat) : Option Nat :=
  match env.locals.lookup n with
  | some v => some v
  | none => env.globals.lookup n

/-- what a parameter lookup (`xsl:param`) sees in a frame segment: variables, claimed and passed parameters -/
def frameParamBindings : List Entry → List (Nat × Nat)
  | [] => []
  | .var n v :: r => (n, v) :: frameParamBindings r
  | .activeParam n v :: r => (n, v) :: frameParamBindings r
  | .param n v :: r => (n, v) :: frameParamBindings r
  | _ :: r => frameParamBindings r

/-- bindings a frame segment contributes (variables and *claimed* parameters) -/
def frameBindings : List Entry → List (Nat × Nat)
  | [] => []
  | .var n v :: r => (n, v) :: frameBindings r
  | .activeParam n v :: r => (n, v) :: frameBindings r
  | _ :: r => frameBindings r

def globalBindings : List Entry → List (Nat × Nat)
  | [] => []
  | .var n v :: r => (n, v) :: globalBindings r
  | _ :: r => globalBindings r

def NoMarker (l : List Entry) : Prop := ∀ e ∈ l, e ≠ .ctxMarker

end XalanModel.C01
