import XalanModel.C01.Pending
/-! Helper lemmas for the pending-start-tag theorems of `Props/C01.lean`. -/
namespace XalanModel.C01.Pending
open XalanModel.C01

/-- relation between the engine state and the specification's flag stack: the top flag says
"an element is pending", every flag below is already `false` -/
def Rel (s : PState) (st : List Bool) : Prop :=
  topFlag st = s.pending.isSome ∧ ∀ b ∈ st.tail, b = false

theorem rel_start {s : PState} {st : List Bool} (h : Rel s st) (n : String) :
    Rel ⟨some n, []⟩ (true :: markChild st) := by
  refine ⟨by simp [topFlag], ?_⟩
  intro b hb
  cases st with
  | nil => simp [markChild] at hb
  | cons x xs =>
    simp only [markChild, List.tail_cons, List.mem_cons] at hb
    rcases hb with h' | h'
    · exact h'
    · exact h.2 b (by simpa using h')

theorem rel_child {s : PState} {st : List Bool} (h : Rel s st) : Rel ⟨none, []⟩ (markChild st) := by
  cases st with
  | nil => simp [Rel, markChild, topFlag]
  | cons x xs =>
    refine ⟨by simp [markChild, topFlag], ?_⟩
    intro b hb
    exact h.2 b (by simpa [markChild] using hb)

theorem rel_tail {s : PState} {st : List Bool} (h : Rel s st) : Rel ⟨none, []⟩ st.tail := by
  constructor
  · cases ht : st.tail with
    | nil => simp [topFlag]
    | cons x xs =>
      have : x = false := h.2 x (by simp [ht])
      simp [topFlag, this]
  · intro b hb
    exact h.2 b (List.mem_of_mem_tail hb)

/-- the generalised refinement statement -/
theorem runFrom_eq_placeAttrs (evs : List REv) :
    ∀ (s : PState) (st : List Bool), Clean s → Rel s st → Guarded evs →
      runFrom s evs = flushEv s ++ placeAttrs st evs := by
  induction evs with
  | nil => intro s st _ _ _; simp [runFrom, placeAttrs]
  | cons e es ih =>
    intro s st hc hr hg
    obtain ⟨p, as⟩ := s
    have hclean : Clean (⟨none, []⟩ : PState) := by simp [Clean]
    cases e with
    | start n =>
      have key := ih ⟨some n, []⟩ (true :: markChild st) (by simp [Clean]) (rel_start hr n)
        (by simpa [Guarded] using hg)
      cases p with
      | none =>
        have : as = [] := hc rfl
        subst this
        simp [runFrom, step, flushSt, flushEv, placeAttrs, key]
      | some m => simp [runFrom, step, flushSt, flushEv, placeAttrs, key]
    | attr a v =>
      have hg' : Guarded es := by simpa [Guarded] using hg
      cases p with
      | none =>
        have h0 : topFlag st = false := by simpa using hr.1
        have := ih ⟨none, as⟩ st hc hr hg'
        simp [runFrom, step, placeAttrs, h0, this]
      | some n =>
        have h1 : topFlag st = true := by simpa using hr.1
        have := ih ⟨some n, as ++ [(a, v)]⟩ st (by simp [Clean]) (by simpa [Rel] using hr) hg'
        simp [runFrom, step, placeAttrs, h1, this, flushEv]
    | attrU a v => simp [Guarded] at hg
    | text t =>
      have key := ih ⟨none, []⟩ (markChild st) hclean (rel_child hr) (by simpa [Guarded] using hg)
      cases p with
      | none =>
        have : as = [] := hc rfl
        subst this
        simp [runFrom, step, flushSt, flushEv, placeAttrs, key]
      | some m => simp [runFrom, step, flushSt, flushEv, placeAttrs, key]
    | comment t =>
      have key := ih ⟨none, []⟩ (markChild st) hclean (rel_child hr) (by simpa [Guarded] using hg)
      cases p with
      | none =>
        have : as = [] := hc rfl
        subst this
        simp [runFrom, step, flushSt, flushEv, placeAttrs, key]
      | some m => simp [runFrom, step, flushSt, flushEv, placeAttrs, key]
    | pi t d =>
      have key := ih ⟨none, []⟩ (markChild st) hclean (rel_child hr) (by simpa [Guarded] using hg)
      cases p with
      | none =>
        have : as = [] := hc rfl
        subst this
        simp [runFrom, step, flushSt, flushEv, placeAttrs, key]
      | some m => simp [runFrom, step, flushSt, flushEv, placeAttrs, key]
    | stop n =>
      have key := ih ⟨none, []⟩ st.tail hclean (rel_tail hr) (by simpa [Guarded] using hg)
      cases p with
      | none =>
        have : as = [] := hc rfl
        subst this
        simp [runFrom, step, flushSt, flushEv, placeAttrs, key]
      | some m => simp [runFrom, step, flushSt, flushEv, placeAttrs, key]

theorem dropEmpty_id (evs : List REv) (h : NoEmptyText evs) : dropEmpty evs = evs := by
  induction evs with
  | nil => rfl
  | cons e es ih =>
    cases e <;> simp_all [dropEmpty, NoEmptyText]

/-! ### output shape for *every* call sequence (guarded or not) -/

theorem attrsOk_attrs (l : List (String × String)) (r : List REv) :
    attrsOk true (l.map (fun a => REv.attr a.1 a.2) ++ r) = attrsOk true r := by
  induction l with
  | nil => rfl
  | cons a l ih => simp [attrsOk, ih]

theorem attrsOk_flushEv (s : PState) (b : Bool) (r : List REv) (h : ∀ b', attrsOk b' r = true) :
    attrsOk b (flushEv s ++ r) = true := by
  obtain ⟨p, as⟩ := s
  cases p with
  | none => simp [flushEv, h]
  | some n => simp [flushEv, attrsOk, attrsOk_attrs, h]

theorem attrsOk_runFrom (evs : List REv) : ∀ (s : PState) (b : Bool), attrsOk b (runFrom s evs) = true := by
  induction evs with
  | nil =>
    intro s b
    have := attrsOk_flushEv s b [] (by intro b'; rfl)
    simpa [runFrom] using this
  | cons e es ih =>
    intro s b
    cases e with
    | start n => exact attrsOk_flushEv s b _ (fun b' => ih _ b')
    | attr a v => simpa [runFrom, step] using ih _ b
    | attrU a v => simpa [runFrom, step] using ih _ b
    | text t =>
      have := attrsOk_flushEv s b (.text t :: runFrom (flushSt s) es) (by intro b'; simpa [attrsOk] using ih _ false)
      simpa [runFrom, step] using this
    | comment t =>
      have := attrsOk_flushEv s b (.comment t :: runFrom (flushSt s) es) (by intro b'; simpa [attrsOk] using ih _ false)
      simpa [runFrom, step] using this
    | pi t d =>
      have := attrsOk_flushEv s b (.pi t d :: runFrom (flushSt s) es) (by intro b'; simpa [attrsOk] using ih _ false)
      simpa [runFrom, step] using this
    | stop n =>
      have := attrsOk_flushEv s b (.stop n :: runFrom (flushSt s) es) (by intro b'; simpa [attrsOk] using ih _ false)
      simpa [runFrom, step] using this

/-! ### balance: the delivered stream opens and closes exactly what the calls open and close -/

theorem depthAfter_attrs (k : Nat) (l : List (String × String)) (r : List REv) :
    depthAfter k (l.map (fun a => REv.attr a.1 a.2) ++ r) = depthAfter k r := by
  induction l with
  | nil => rfl
  | cons a l ih => simp [depthAfter, ih]

theorem depthAfter_attrs' (k : Nat) (l : List (String × String)) :
    depthAfter k (l.map (fun a => REv.attr a.1 a.2)) = some k := by
  have := depthAfter_attrs k l []
  simpa [depthAfter] using this

/-- the pending element counts as open -/
def pendDepth (s : PState) : Nat := if s.pending.isSome then 1 else 0

theorem depthAfter_runFrom (evs : List REv) : ∀ (s : PState) (k : Nat),
    depthAfter k (runFrom s evs) = depthAfter (k + pendDepth s) evs := by
  induction evs with
  | nil =>
    intro s k
    obtain ⟨p, as⟩ := s
    cases p <;> simp [runFrom, flushEv, pendDepth, depthAfter, depthAfter_attrs']
  | cons e es ih =>
    intro s k
    obtain ⟨p, as⟩ := s
    cases p with
    | none =>
      cases e with
      | stop n => cases k <;> simp [runFrom, step, flushEv, flushSt, pendDepth, depthAfter, ih]
      | _ => simp [runFrom, step, flushEv, flushSt, pendDepth, depthAfter, ih]
    | some m =>
      cases e <;>
        simp [runFrom, step, flushEv, flushSt, pendDepth, depthAfter, depthAfter_attrs, ih]

end XalanModel.C01.Pending
