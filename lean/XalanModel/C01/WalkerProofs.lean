import XalanModel.C01.Walker
/-! Helper lemmas for `walker_eq_recursion` (Props/C01.lean): the simulation of the recursive traversal by
the iterative loop, by induction on the fuel of the former. -/
namespace XalanModel.C01.Walker

/-! ## simulation -/

theorem iter_add (P : Prog) (m n : Nat) (s : St) : iter P (m + n) s = iter P n (iter P m s) := by
  induction m generalizing s with
  | zero => simp [iter]
  | succ m ih =>
    have : m + 1 + n = (m + n) + 1 := by omega
    rw [this]
    simp [iter, ih]

theorem get_append (n : Node) (p : List Nat) (i : Nat) :
    n.get (p ++ [i]) = (n.get p).bind fun m => m.kids[i]? := by
  induction p generalizing n with
  | nil =>
    simp only [List.nil_append, Node.get]
    cases h : n.kids[i]? with
    | none => simp [h]
    | some c => simp [Node.get, h]
  | cons j p ih =>
    simp only [List.cons_append, Node.get]
    cases n.kids[j]? with
    | none => simp
    | some c => simpa using ih c

theorem lookup_child (P : Prog) (a : Addr) (i : Nat) :
    lookup P (child a i) = (lookup P a).bind fun m => m.kids[i]? := by
  simp only [lookup, child, List.reverse_cons]
  cases P[a.1]? with
  | none => simp
  | some n => simp [get_append]

theorem lookup_child_some {P : Prog} {a : Addr} {n : Node} (h : lookup P a = some n) (i : Nat) :
    (lookup P (child a i)).isSome = decide (i < n.kids.length) := by
  rw [lookup_child, h]
  simp only [Option.bind_some]
  by_cases hi : i < n.kids.length <;> simp [hi]

theorem popIf_pushIf (k : Kind) (a : Addr) (stk : List (Option Addr)) : popIf k (pushIf k a stk) = stk := by
  cases k <;> simp [popIf, pushIf]

theorem getInvoker_child (a : Addr) (i : Nat) (stk : List (Option Addr)) : getInvoker (child a i) stk = some a := by
  simp [getInvoker, child]

theorem nextSibling_child {P : Prog} {a : Addr} {n : Node} (h : lookup P a = some n) (i : Nat) :
    nextSibling P (child a i) = if i + 1 < n.kids.length then some (child a (i + 1)) else none := by
  have hs := lookup_child_some h (i + 1)
  simp only [nextSibling, child]
  by_cases hi : i + 1 < n.kids.length
  · simp only [hi, decide_true, if_true] at hs ⊢
    cases hl : lookup P (a.1, (i + 1) :: a.2) with
    | none => simp [child, hl] at hs
    | some _ => rfl
  · simp only [hi, decide_false, if_false] at hs ⊢
    cases hl : lookup P (a.1, (i + 1) :: a.2) with
    | none => rfl
    | some _ => simp [child, hl] at hs

/-- node-list stack while an element is open (after its `startElement` and all its children) -/
def midIters (n : Node) (its : List Nat) : List Nat :=
  match n.kind with
  | .loop r => if n.kids.isEmpty then its else r :: its
  | .apply ts => ts.length :: its
  | .uses ts => ts.length :: its
  | _ => its

theorem popIters_midIters (n : Node) (its : List Nat) : popIters n (midIters n its) = its := by
  cases h : n.kind with
  | loop r => cases h2 : n.kids.isEmpty <;> simp [popIters, midIters, h, h2]
  | apply ts => simp [popIters, midIters, h]
  | leaf => simp [popIters, midIters, h]
  | block => simp [popIters, midIters, h]
  | call t => simp [popIters, midIters, h]
  | pick i => simp [popIters, midIters, h]
  | uses ts => simp [popIters, midIters, h]

/-- where an element goes when no (further) template / attribute set is to be run -/
def tmplsDone (n : Node) (a : Addr) : Phase :=
  match n.kind with
  | .uses _ => if n.kids.isEmpty then .ending a else .starting (child a 0)
  | _ => .ending a

theorem nextTemplate_end (ts : List Nat) (rest : List Nat) :
    nextTemplate ts (ts.length :: rest) = (none, ts.length :: rest) := by
  simp [nextTemplate]

/-- phase and node-list stack right after the last child of `a` has ended -/
def afterKids (n : Node) (a : Addr) (its : List Nat) : Phase × List Nat :=
  match n.kind with
  | .call t => (.starting (t, []), its)
  | .loop r => ((if (nextNode r its).1 then .starting (child a 0) else .ending a), (nextNode r its).2)
  | .apply ts => ((match (nextTemplate ts (0 :: its)).1 with
                   | some c => .starting c
                   | none => .ending a), (nextTemplate ts (0 :: its)).2)
  | _ => (.ending a, its)

theorem step_starting {P : Prog} {a : Addr} {n : Node} (h : lookup P a = some n)
    (stk : List (Option Addr)) (its : List Nat) (tr : List Ev) :
    step P ⟨.starting a, stk, its, tr⟩ =
      ⟨(match (startNext n a its).1 with | some c => .starting c | none => .ending a),
       pushIf n.kind a stk, (startNext n a its).2, tr ++ [.start a]⟩ := by
  simp only [step, h]
  cases (startNext n a its).1 <;> rfl

theorem step_ending_child {P : Prog} {a : Addr} {n c : Node} {its : List Nat} (h : lookup P a = some n)
    (hk : n.kind ≠ .leaf) (hp : ∀ j, n.kind ≠ .pick j)
    (hu : ∀ ts, n.kind = .uses ts → ∃ rest, its = ts.length :: rest) (i : Nat) (hc : lookup P (child a i) = some c)
    (stk : List (Option Addr)) (tr : List Ev) :
    step P ⟨.ending (child a i), pushIf c.kind (child a i) stk, midIters c its, tr⟩ =
      ⟨(if i + 1 < n.kids.length then .starting (child a (i + 1)) else (afterKids n a its).1), stk,
       (if i + 1 < n.kids.length then its else (afterKids n a its).2), tr ++ [.stop (child a i)]⟩ := by
  have hns := nextSibling_child h i
  simp only [step, hc, popIf_pushIf, popIters_midIters, getInvoker_child, getNextChild, h]
  cases hkind : n.kind with
  | leaf => exact absurd hkind hk
  | block =>
    simp only [hns, afterKids, hkind]
    by_cases hi : i + 1 < n.kids.length <;> simp [hi]
  | call t =>
    have hne : child a i ≠ (t, []) := by simp [child]
    simp only [hne, if_false, hns, afterKids, hkind]
    by_cases hi : i + 1 < n.kids.length <;> simp [hi]
  | loop r =>
    simp only [hns, afterKids, hkind]
    by_cases hi : i + 1 < n.kids.length
    · simp [hi]
    · simp only [hi, if_false]
      cases (nextNode r its).1 <;> simp
  | apply ts =>
    simp only [child] at hns ⊢
    simp only [afterKids, hkind, hns]
    by_cases hi : i + 1 < n.kids.length
    · simp [hi]
    · simp only [hi, if_false]
      cases hnt : (nextTemplate ts (0 :: its)).1 <;> simp [hnt]
  | pick j => exact absurd hkind (hp j)
  | uses ts =>
    obtain ⟨rest, hr⟩ := hu ts hkind
    subst hr
    simp only [child] at hns ⊢
    simp only [nextTemplate_end, afterKids, hkind, hns]
    by_cases hi : i + 1 < n.kids.length <;> simp [hi]

/-- the one child an `xsl:choose` selected ends: the choose ends -/
theorem step_ending_picked {P : Prog} {a : Addr} {n c : Node} {j : Nat} (h : lookup P a = some n)
    (hk : n.kind = .pick j) (i : Nat) (hc : lookup P (child a i) = some c)
    (stk : List (Option Addr)) (its : List Nat) (tr : List Ev) :
    step P ⟨.ending (child a i), pushIf c.kind (child a i) stk, midIters c its, tr⟩ =
      ⟨.ending a, stk, its, tr ++ [.stop (child a i)]⟩ := by
  simp [step, hc, popIf_pushIf, popIters_midIters, getInvoker_child, getNextChild, h, hk]

/-- a template instantiated by `a` (call or apply) ends: for a call the loop returns to the caller -/
theorem step_ending_template_call {P : Prog} {a : Addr} {n nt : Node} {t : Nat} (h : lookup P a = some n)
    (hk : n.kind = .call t) (ht : lookup P (t, []) = some nt)
    (stk : List (Option Addr)) (its : List Nat) (tr : List Ev) :
    step P ⟨.ending (t, []), pushIf nt.kind (t, []) (some a :: stk), midIters nt its, tr⟩ =
      ⟨.ending a, some a :: stk, its, tr ++ [.stop (t, [])]⟩ := by
  simp [step, ht, popIf_pushIf, popIters_midIters, getInvoker, getNextChild, h, hk]

/-- … for an apply-templates the next selected node's template is looked up -/
theorem step_ending_template_apply {P : Prog} {a : Addr} {n nt : Node} {ts : List Nat} {t : Nat}
    (h : lookup P a = some n) (hk : n.kind = .apply ts ∨ n.kind = .uses ts) (ht : lookup P (t, []) = some nt)
    (stk : List (Option Addr)) (its : List Nat) (tr : List Ev) :
    step P ⟨.ending (t, []), pushIf nt.kind (t, []) (some a :: stk), midIters nt its, tr⟩ =
      ⟨(match (nextTemplate ts its).1 with | some c => .starting c | none => tmplsDone n a),
       some a :: stk, (nextTemplate ts its).2, tr ++ [.stop (t, [])]⟩ := by
  rcases hk with hk | hk
  · simp only [step, ht, popIf_pushIf, popIters_midIters, getInvoker, List.headD_cons, getNextChild, h, hk, tmplsDone]
    cases (nextTemplate ts its).1 <;> simp
  · simp only [step, ht, popIf_pushIf, popIters_midIters, getInvoker, List.headD_cons, getNextChild, h, hk, tmplsDone]
    cases (nextTemplate ts its).1 with
    | none => cases hke : n.kids.isEmpty <;> simp [hke]
    | some x => simp

theorem recBody_lookup {P : Prog} {f : Nat} {a : Addr} {tr : List Ev} (h : recBody P f a = some tr) :
    ∃ n, lookup P a = some n := by
  cases f with
  | zero => simp [recBody] at h
  | succ f' =>
    cases hh : lookup P a with
    | none => simp [recBody, hh] at h
    | some n => exact ⟨n, rfl⟩

theorem recKids_done {P : Prog} {f : Nat} {a : Addr} {i m : Nat} {tr : List Ev}
    (h : recKids P f a i m = some tr) (hi : ¬ i < m) : tr = [] := by
  cases f with
  | zero => simp [recKids] at h
  | succ f' => simp [recKids, hi] at h; exact h

theorem isEmpty_of_length {n : Node} (h : n.kids.length = 0) : n.kids.isEmpty = true := by
  simpa [List.isEmpty_iff_length_eq_zero] using h

theorem not_isEmpty_of_length {n : Node} (h : 0 < n.kids.length) : n.kids.isEmpty = false := by
  cases hn : n.kids with
  | nil => simp [hn] at h
  | cons _ _ => rfl

/-- the generalised simulation, by induction on the fuel of the recursive traversal -/
theorem sim (P : Prog) : ∀ (f : Nat),
    -- (A) one element, from its start to just before its end
    (∀ (a : Addr) (n : Node) (stk : List (Option Addr)) (its : List Nat) (pre tr : List Ev),
        lookup P a = some n → recBody P f a = some tr →
        ∃ k, iter P k ⟨.starting a, stk, its, pre⟩ = ⟨.ending a, pushIf n.kind a stk, midIters n its, pre ++ tr⟩) ∧
    -- (B) the children i … of an element
    (∀ (a : Addr) (n : Node) (i : Nat) (stk : List (Option Addr)) (its : List Nat) (pre tr : List Ev),
        lookup P a = some n → n.kind ≠ .leaf → (∀ j, n.kind ≠ .pick j) →
        (∀ ts, n.kind = .uses ts → ∃ rest, its = ts.length :: rest) → i < n.kids.length →
        recKids P f a i n.kids.length = some tr →
        ∃ k, iter P k ⟨.starting (child a i), stk, its, pre⟩ = ⟨(afterKids n a its).1, stk, (afterKids n a its).2, pre ++ tr⟩) ∧
    -- (C) the remaining passes of a for-each, from the point where the next node is asked for
    (∀ (a : Addr) (n : Node) (r c q : Nat) (stk : List (Option Addr)) (rest : List Nat) (pre tr : List Ev),
        lookup P a = some n → n.kind = .loop r → 0 < n.kids.length → c + q = r →
        recIters P f a q n.kids.length = some tr →
        ∃ k, iter P k ⟨(afterKids n a (c :: rest)).1, stk, (afterKids n a (c :: rest)).2, pre⟩ =
              ⟨.ending a, stk, r :: rest, pre ++ tr⟩) ∧
    -- (D) the remaining templates of an apply-templates, from the point where the next template is looked up
    (∀ (a : Addr) (n : Node) (ts : List Nat) (c : Nat) (stk : List (Option Addr)) (rest : List Nat) (pre tr : List Ev),
        lookup P a = some n → (n.kind = .apply ts ∨ n.kind = .uses ts) → c ≤ ts.length →
        recTemplates P f (ts.drop c) = some tr →
        ∃ k, iter P k ⟨(match (nextTemplate ts (c :: rest)).1 with | some x => .starting x | none => tmplsDone n a),
                        some a :: stk, (nextTemplate ts (c :: rest)).2, pre⟩ =
              ⟨tmplsDone n a, some a :: stk, ts.length :: rest, pre ++ tr⟩) := by
  intro f
  induction f with
  | zero =>
    refine ⟨?_, ?_, ?_, ?_⟩
    · intro a n stk its pre tr _ h; simp [recBody] at h
    · intro a n i stk its pre tr _ _ _ _ _ h; simp [recKids] at h
    · intro a n r c q stk rest pre tr _ _ _ _ h; simp [recIters] at h
    · intro a n ts c stk rest pre tr _ _ _ h; simp [recTemplates] at h
  | succ f ih =>
    obtain ⟨ihA, ihB, ihC, ihD⟩ := ih
    refine ⟨?_, ?_, ?_, ?_⟩
    · -- (A)
      intro a n stk its pre tr hl hrec
      simp only [recBody, hl] at hrec
      cases hkind : n.kind with
      | leaf =>
        simp only [hkind, Option.some.injEq] at hrec
        subst hrec
        refine ⟨1, ?_⟩
        simp [iter, step_starting hl, startNext, hkind, pushIf, midIters]
      | block =>
        simp only [hkind, Option.map_eq_some_iff] at hrec
        obtain ⟨ks, hks, rfl⟩ := hrec
        by_cases hempty : n.kids.length = 0
        · have hk0 := isEmpty_of_length hempty
          have : ks = [] := recKids_done hks (by omega)
          subst this
          refine ⟨1, ?_⟩
          simp [iter, step_starting hl, startNext, hkind, hk0, pushIf, midIters]
        · have hpos : 0 < n.kids.length := Nat.pos_of_ne_zero hempty
          have hk0 := not_isEmpty_of_length hpos
          obtain ⟨k, hk⟩ := ihB a n 0 stk its (pre ++ [.start a]) ks hl (by simp [hkind]) (by simp [hkind]) (by simp [hkind]) hpos hks
          refine ⟨1 + k, ?_⟩
          rw [iter_add]
          simp only [iter, step_starting hl, startNext, hkind, hk0, pushIf, Bool.false_eq_true, if_false]
          rw [hk]
          simp [afterKids, hkind, midIters]
      | call t =>
        simp only [hkind] at hrec
        cases hps : recKids P f a 0 n.kids.length with
        | none => simp [hps] at hrec
        | some ps =>
          cases hb : recBody P f (t, []) with
          | none => simp [hps, hb] at hrec
          | some b =>
            simp only [hps, hb, Option.some.injEq] at hrec
            subst hrec
            obtain ⟨nt, hnt⟩ := recBody_lookup hb
            obtain ⟨k2, hk2⟩ := ihA (t, []) nt (some a :: stk) its (pre ++ [.start a] ++ ps) b hnt hb
            have hfin := step_ending_template_call hl hkind hnt stk its (pre ++ [.start a] ++ ps ++ b)
            by_cases hempty : n.kids.length = 0
            · have hk0 := isEmpty_of_length hempty
              have : ps = [] := recKids_done hps (by omega)
              subst this
              refine ⟨1 + (k2 + 1), ?_⟩
              rw [iter_add, iter_add]
              simp only [iter, step_starting hl, startNext, hkind, hk0, if_true, pushIf]
              simp only [List.append_nil] at hk2 hfin
              rw [hk2, hfin]
              simp [midIters, hkind]
            · have hpos : 0 < n.kids.length := Nat.pos_of_ne_zero hempty
              have hk0 := not_isEmpty_of_length hpos
              obtain ⟨k1, hk1⟩ := ihB a n 0 (some a :: stk) its (pre ++ [.start a]) ps hl (by simp [hkind]) (by simp [hkind]) (by simp [hkind]) hpos hps
              refine ⟨1 + (k1 + (k2 + 1)), ?_⟩
              rw [iter_add, iter_add, iter_add]
              simp only [iter, step_starting hl, startNext, hkind, hk0, pushIf, Bool.false_eq_true, if_false]
              rw [hk1]
              simp only [afterKids, hkind]
              rw [hk2, hfin]
              simp [midIters, hkind]
      | loop r =>
        simp only [hkind] at hrec
        by_cases hempty : n.kids.length = 0
        · have hk0 := isEmpty_of_length hempty
          simp only [hempty, if_true, Option.some.injEq] at hrec
          subst hrec
          refine ⟨1, ?_⟩
          simp [iter, step_starting hl, startNext, hkind, hk0, pushIf, midIters]
        · have hpos : 0 < n.kids.length := Nat.pos_of_ne_zero hempty
          have hk0 := not_isEmpty_of_length hpos
          simp only [hempty, if_false, Option.map_eq_some_iff] at hrec
          obtain ⟨ks, hks, rfl⟩ := hrec
          obtain ⟨k, hk⟩ := ihC a n r 0 r stk its (pre ++ [.start a]) ks hl hkind hpos (by omega) hks
          refine ⟨1 + k, ?_⟩
          rw [iter_add]
          simp only [iter, step_starting hl, startNext, hkind, hk0, pushIf, Bool.false_eq_true, if_false]
          simp only [afterKids, hkind] at hk
          have hph : (match (if (nextNode r (0 :: its)).1 = true then some (child a 0) else none) with
                      | some c => Phase.starting c | none => Phase.ending a) =
                     (if (nextNode r (0 :: its)).1 = true then Phase.starting (child a 0) else Phase.ending a) := by
            cases (nextNode r (0 :: its)).1 <;> simp
          rw [hph, hk]
          simp [midIters, hkind, hk0]
      | apply ts =>
        simp only [hkind] at hrec
        cases hps : recKids P f a 0 n.kids.length with
        | none => simp [hps] at hrec
        | some ps =>
          cases hbs : recTemplates P f ts with
          | none => simp [hps, hbs] at hrec
          | some bs =>
            simp only [hps, hbs, Option.some.injEq] at hrec
            subst hrec
            obtain ⟨k2, hk2⟩ := ihD a n ts 0 stk its (pre ++ [.start a] ++ ps) bs hl (Or.inl hkind) (by omega) (by simpa using hbs)
            simp only [tmplsDone, hkind] at hk2
            by_cases hempty : n.kids.length = 0
            · have hk0 := isEmpty_of_length hempty
              have : ps = [] := recKids_done hps (by omega)
              subst this
              refine ⟨1 + k2, ?_⟩
              rw [iter_add]
              simp only [iter, step_starting hl, startNext, hkind, hk0, if_true, pushIf]
              simp only [List.append_nil] at hk2
              rw [hk2]
              simp [midIters, hkind]
            · have hpos : 0 < n.kids.length := Nat.pos_of_ne_zero hempty
              have hk0 := not_isEmpty_of_length hpos
              obtain ⟨k1, hk1⟩ := ihB a n 0 (some a :: stk) its (pre ++ [.start a]) ps hl (by simp [hkind]) (by simp [hkind]) (by simp [hkind]) hpos hps
              refine ⟨1 + (k1 + k2), ?_⟩
              rw [iter_add, iter_add]
              simp only [iter, step_starting hl, startNext, hkind, hk0, pushIf, Bool.false_eq_true, if_false]
              rw [hk1]
              simp only [afterKids, hkind]
              rw [hk2]
              simp [midIters, hkind]
      | pick j =>
        simp only [hkind] at hrec
        by_cases hj : j < n.kids.length
        · simp only [hj, if_true, Option.map_eq_some_iff] at hrec
          obtain ⟨c, hc, rfl⟩ := hrec
          obtain ⟨nc, hnc⟩ := recBody_lookup hc
          obtain ⟨k1, hk1⟩ := ihA (child a j) nc stk its (pre ++ [.start a]) c hnc hc
          have hfin := step_ending_picked hl hkind j hnc stk its (pre ++ [.start a] ++ c)
          refine ⟨1 + (k1 + 1), ?_⟩
          rw [iter_add, iter_add]
          simp only [iter, step_starting hl, startNext, hkind, hj, if_true, pushIf]
          rw [hk1, hfin]
          simp [midIters, hkind]
        · simp only [hj, if_false, Option.some.injEq] at hrec
          subst hrec
          refine ⟨1, ?_⟩
          simp [iter, step_starting hl, startNext, hkind, hj, pushIf, midIters]
      | uses ts =>
        simp only [hkind] at hrec
        cases hbs : recTemplates P f ts with
        | none => simp [hbs] at hrec
        | some bs =>
          cases hks : recKids P f a 0 n.kids.length with
          | none => simp [hbs, hks] at hrec
          | some ks =>
            simp only [hbs, hks, Option.some.injEq] at hrec
            subst hrec
            obtain ⟨k1, hk1⟩ := ihD a n ts 0 stk its (pre ++ [.start a]) bs hl (Or.inr hkind) (by omega) (by simpa using hbs)
            have hstart : iter P 1 ⟨.starting a, stk, its, pre⟩ =
                ⟨(match (nextTemplate ts (0 :: its)).1 with | some x => .starting x | none => tmplsDone n a),
                 some a :: stk, (nextTemplate ts (0 :: its)).2, pre ++ [.start a]⟩ := by
              simp only [iter, step_starting hl, startNext, hkind, pushIf, tmplsDone]
              cases (nextTemplate ts (0 :: its)).1 with
              | none => cases hke : n.kids.isEmpty <;> simp [hke]
              | some x => simp
            by_cases hempty : n.kids.length = 0
            · have hk0 := isEmpty_of_length hempty
              have : ks = [] := recKids_done hks (by omega)
              subst this
              refine ⟨1 + k1, ?_⟩
              rw [iter_add, hstart, hk1]
              simp [tmplsDone, hkind, hk0, midIters, pushIf]
            · have hpos : 0 < n.kids.length := Nat.pos_of_ne_zero hempty
              have hk0 := not_isEmpty_of_length hpos
              obtain ⟨k2, hk2⟩ := ihB a n 0 (some a :: stk) (ts.length :: its) (pre ++ [.start a] ++ bs) ks hl
                (by simp [hkind]) (by simp [hkind]) (by intro ts' h'; rw [hkind] at h'; cases h'; exact ⟨its, rfl⟩) hpos hks
              refine ⟨1 + (k1 + k2), ?_⟩
              rw [iter_add, hstart, iter_add, hk1]
              simp only [tmplsDone, hkind, hk0, Bool.false_eq_true, if_false]
              rw [hk2]
              simp [afterKids, hkind, midIters, pushIf]
    · -- (B)
      intro a n i stk its pre tr hl hk hp hu hi hrec
      simp only [recKids, hi, if_true] at hrec
      cases hc : recBody P f (child a i) with
      | none => simp [hc] at hrec
      | some c =>
        cases hr : recKids P f a (i + 1) n.kids.length with
        | none => simp [hc, hr] at hrec
        | some r =>
          simp only [hc, hr, Option.some.injEq] at hrec
          subst hrec
          obtain ⟨nc, hnc⟩ := recBody_lookup hc
          obtain ⟨k1, hk1⟩ := ihA (child a i) nc stk its pre c hnc hc
          have hstep := step_ending_child hl hk hp hu i hnc stk (pre ++ c)
          by_cases hnext : i + 1 < n.kids.length
          · obtain ⟨k2, hk2⟩ := ihB a n (i + 1) stk its (pre ++ c ++ [.stop (child a i)]) r hl hk hp hu hnext hr
            refine ⟨k1 + (1 + k2), ?_⟩
            rw [iter_add, iter_add, hk1]
            simp only [iter, hstep, hnext, if_true]
            rw [hk2]
            simp
          · have : r = [] := recKids_done hr hnext
            subst this
            refine ⟨k1 + 1, ?_⟩
            rw [iter_add, hk1]
            simp [iter, hstep, hnext]
    · -- (C)
      intro a n r c q stk rest pre tr hl hkind hpos hcq hrec
      cases q with
      | zero =>
        simp only [recIters, Option.some.injEq] at hrec
        subst hrec
        have hc : c = r := by omega
        subst hc
        refine ⟨0, ?_⟩
        simp [iter, afterKids, hkind, nextNode]
      | succ q' =>
        simp only [recIters] at hrec
        cases hks : recKids P f a 0 n.kids.length with
        | none => simp [hks] at hrec
        | some ks =>
          cases hrs : recIters P f a q' n.kids.length with
          | none => simp [hks, hrs] at hrec
          | some rs =>
            simp only [hks, hrs, Option.some.injEq] at hrec
            subst hrec
            have hlt : c < r := by omega
            obtain ⟨k1, hk1⟩ := ihB a n 0 stk ((c + 1) :: rest) pre ks hl (by simp [hkind]) (by simp [hkind]) (by simp [hkind]) hpos hks
            obtain ⟨k2, hk2⟩ := ihC a n r (c + 1) q' stk rest (pre ++ ks) rs hl hkind hpos (by omega) hrs
            refine ⟨k1 + k2, ?_⟩
            rw [iter_add]
            have h0 : afterKids n a (c :: rest) = (.starting (child a 0), (c + 1) :: rest) := by
              simp [afterKids, hkind, nextNode, hlt]
            rw [h0]
            simp only []
            rw [hk1, hk2]
            simp
    · -- (D)
      intro a n ts c stk rest pre tr hl hkind hcle hrec
      cases hdrop : ts.drop c with
      | nil =>
        rw [hdrop] at hrec
        simp only [recTemplates, Option.some.injEq] at hrec
        subst hrec
        have hge : ts.length ≤ c := by simpa [List.drop_eq_nil_iff] using hdrop
        have hc : c = ts.length := by omega
        have hnone : ts[c]? = none := by simp [hge]
        refine ⟨0, ?_⟩
        simp [iter, nextTemplate, hnone, hc]
      | cons t more =>
        rw [hdrop] at hrec
        simp only [recTemplates] at hrec
        cases hb : recBody P f (t, []) with
        | none => simp [hb] at hrec
        | some b =>
          cases hm : recTemplates P f more with
          | none => simp [hb, hm] at hrec
          | some ms =>
            simp only [hb, hm, Option.some.injEq] at hrec
            subst hrec
            have hlt : c < ts.length := by
              have hlen : (ts.drop c).length = ts.length - c := List.length_drop
              rw [hdrop] at hlen
              simp at hlen
              omega
            have hget : ts[c]? = some t := by
              have := List.getElem?_drop (xs := ts) (i := c) (j := 0)
              simp [hdrop] at this
              simpa using this.symm
            have hmore : ts.drop (c + 1) = more := by
              have : ts.drop (c + 1) = (ts.drop c).drop 1 := by simp [List.drop_drop]
              rw [this, hdrop]; rfl
            obtain ⟨nt, hnt⟩ := recBody_lookup hb
            obtain ⟨k1, hk1⟩ := ihA (t, []) nt (some a :: stk) ((c + 1) :: rest) pre b hnt hb
            have hstep := step_ending_template_apply hl hkind hnt stk ((c + 1) :: rest) (pre ++ b)
            obtain ⟨k2, hk2⟩ := ihD a n ts (c + 1) stk rest (pre ++ b ++ [.stop (t, [])]) ms hl hkind (by omega)
              (by rw [hmore]; exact hm)
            refine ⟨k1 + (1 + k2), ?_⟩
            rw [iter_add, iter_add]
            simp only [nextTemplate, hget]
            rw [hk1]
            simp only [iter, hstep]
            rw [hk2]
            simp

end XalanModel.C01.Walker
