import XalanModel.C01.Spec
/-!
# C01 — the pending start tag of `XSLTEngineImpl`

Mirrors `src/xalanc/XSLT/XSLTEngineImpl.cpp`:
`startElement(name)` (1525), `flushPending` (1414), `addResultAttribute` (1246, pending list),
`characters` / `comment` / `processingInstruction` (`doFlushPending` first), `endElement` (1573),
`endDocument` (flushes), and the guard `isElementPending()` that the callers
(`ElemAttribute::startElement` without a namespace attribute, `cloneToResultTree` for attribute nodes)
apply before they add an attribute.

State = pending element name (`""` in C++ ↦ `none`) + pending attribute list.  `AttributeListImpl` is
abstracted to an association list in insertion order (the real `addAttribute` replaces the value of an
existing name in place; the order and the overwritten value are not part of the infoset — the harness
compares attribute *sets*, later value wins).  Namespace declarations are out of scope (C14).

Input alphabet = `REv` read as *engine calls*: `.attr` is a guarded add, `.attrU` an unguarded one
(what `ElemAttribute` does when a `namespace` attribute is present: it never looks at
`isElementPending()`).  Note `startElement(name)` does **not** clear the pending attribute list, and
`flushPending` clears it only when an element was pending — as written.
-/
namespace XalanModel.C01

structure PState where
  pending : Option String := none
  attrs : List (String × String) := []
deriving Repr, DecidableEq, Inhabited

namespace Pending

/-- events `flushPending` delivers to the FormatterListener -/
def flushEv (s : PState) : List REv :=
  match s.pending with
  | some n => .start n :: s.attrs.map fun a => REv.attr a.1 a.2
  | none => []

/-- state after `flushPending` -/
def flushSt (s : PState) : PState :=
  match s.pending with
  | some _ => { pending := none, attrs := [] }
  | none => s

/-- one engine call: new state and the events delivered -/
def step (s : PState) : REv → PState × List REv
  | .start n => ({ pending := some n, attrs := (flushSt s).attrs }, flushEv s)
  | .attr a v => (if s.pending.isSome then { s with attrs := s.attrs ++ [(a, v)] } else s, [])
  | .attrU a v => ({ s with attrs := s.attrs ++ [(a, v)] }, [])
  | .text t => (flushSt s, flushEv s ++ [.text t])
  | .comment t => (flushSt s, flushEv s ++ [.comment t])
  | .pi t d => (flushSt s, flushEv s ++ [.pi t d])
  | .stop n => (flushSt s, flushEv s ++ [.stop n])

/-- all events delivered for a call sequence, including the final flush of `endDocument` -/
def runFrom (s : PState) : List REv → List REv
  | [] => flushEv s
  | e :: es => (step s e).2 ++ runFrom (step s e).1 es

def run (evs : List REv) : List REv := runFrom {} evs

/-- the result tree the engine builds (text events of one node concatenated, as any SAX consumer does) -/
def result (evs : List REv) : List REv := mergeText (run evs)

/-- no attribute is pending unless an element is -/
def Clean (s : PState) : Prop := s.pending = none → s.attrs = []

/-- the call sequence uses only guarded attribute additions -/
def Guarded : List REv → Prop
  | [] => True
  | .attrU _ _ :: _ => False
  | _ :: es => Guarded es

def NoEmptyText : List REv → Prop
  | [] => True
  | .text s :: es => s ≠ "" ∧ NoEmptyText es
  | _ :: es => NoEmptyText es

/-- output shape: an attribute event only directly after a start tag or another attribute -/
def attrsOk : Bool → List REv → Bool
  | _, [] => true
  | allowed, .attr _ _ :: r => allowed && attrsOk true r
  | _, .start _ :: r => attrsOk true r
  | _, .attrU _ _ :: _ => false
  | _, _ :: r => attrsOk false r

/-- depth bookkeeping: `some k` = balanced so far with `k` elements open -/
def depthAfter : Nat → List REv → Option Nat
  | k, [] => some k
  | k, .start _ :: r => depthAfter (k + 1) r
  | k, .stop _ :: r => match k with
    | 0 => none
    | k' + 1 => depthAfter k' r
  | k, _ :: r => depthAfter k r

end Pending
end XalanModel.C01
