/-!
# C01 — executable specification: an XSLT 1.0 core interpreter over a small XPath subset

Written from the Recommendations (XPath 1.0 §2–§4, XSLT 1.0 §5.2–§5.8, §7, §9–§11), *not* from
Xalan's structure: recursive `instantiate`, a lexically scoped environment (association list),
template-rule choice by (priority, document order), match patterns by the §5.2 definition
("some ancestor-or-self context selects the node"), result-tree construction as a flat event
sequence followed by `normalize` (the §7.1.3 rule for attributes, text-node merging).

Everything is a total function with a *depth* fuel (`none` = fuel exhausted or construct outside
the subset).  Numbers are NaN and dyadic rationals (the generator writes `div` only with a power-of-two divisor;
no other source of non-dyadic values), so no floating point is needed.
Core Lean only.
-/
namespace XalanModel.C01

/-! ## Source documents: nodes in document order; attributes directly after their element -/

inductive NKind | root | elem | attr | text | comment | pi
deriving DecidableEq, Repr, Inhabited

structure SNode where
  kind : NKind := .root
  name : String := ""
  value : String := ""
  parent : Nat := 0
  uri : String := ""              -- namespace URI of an element / attribute (its `name` is the QName as written in the source)
deriving Repr, Inhabited

/-- local part / prefix of a QName -/
def localOf (q : String) : String :=
  match q.splitOn ":" with
  | [_, l] => l
  | _ => q

def prefixOf (q : String) : String :=
  match q.splitOn ":" with
  | [p, _] => p
  | _ => ""

/-- the namespace declarations in scope on every stylesheet element of the subset (the generator declares exactly
these on xsl:stylesheet) -/
def stylesheetNs : List (String × String) := [("p", "urn:p")]

/-- an expanded name, written `{uri}local` (just `local` in no namespace) — the form result events carry -/
def expanded (uri loc : String) : String := if uri.isEmpty then loc else "{" ++ uri ++ "}" ++ loc

/-- expanded name of a QName written in the stylesheet (an unprefixed name is in no namespace) -/
def sheetName (q : String) : String :=
  match stylesheetNs.lookup (prefixOf q) with
  | some u => expanded u (localOf q)
  | none => q

/-- expanded name of a literal result element / of one of its attributes: as `sheetName`, with the namespace URI
replaced as `xsl:namespace-alias` says (§7.1.1) -/
def lreName (al : List (String × String)) (q : String) : String :=
  match stylesheetNs.lookup (prefixOf q) with
  | some u => expanded ((al.lookup u).getD u) (localOf q)
  | none => q

theorem lreName_nil (q : String) : lreName [] q = sheetName q := by
  simp only [lreName, sheetName, List.lookup_nil, Option.getD_none]

structure Doc where
  nodes : Array SNode
deriving Inhabited

namespace Doc
def size (d : Doc) : Nat := d.nodes.size
def node (d : Doc) (i : Nat) : SNode := d.nodes.getD i {}
def ids (d : Doc) : List Nat := List.range d.size

def children (d : Doc) (i : Nat) : List Nat :=
  d.ids.filter fun j => j > i ∧ (d.node j).parent = i ∧ (d.node j).kind ≠ .attr
def attrs (d : Doc) (i : Nat) : List Nat :=
  d.ids.filter fun j => j > i ∧ (d.node j).parent = i ∧ (d.node j).kind = .attr

/-- proper ancestors, nearest first -/
def ancestorsAux (d : Doc) : Nat → Nat → List Nat
  | 0, _ => []
  | f+1, i => if i = 0 then [] else (d.node i).parent :: ancestorsAux d f (d.node i).parent
def ancestors (d : Doc) (i : Nat) : List Nat := ancestorsAux d (d.size + 1) i

def descendants (d : Doc) (i : Nat) : List Nat :=
  d.ids.filter fun j => j > i ∧ (d.node j).kind ≠ .attr ∧ (d.ancestors j).contains i

def isAttr (d : Doc) (i : Nat) : Bool := (d.node i).kind = .attr

def followingSiblings (d : Doc) (i : Nat) : List Nat :=
  if d.isAttr i ∨ i = 0 then [] else (d.children (d.node i).parent).filter (· > i)
def precedingSiblings (d : Doc) (i : Nat) : List Nat :=
  if d.isAttr i ∨ i = 0 then [] else (d.children (d.node i).parent).filter (· < i)

def stringValue (d : Doc) (i : Nat) : String :=
  match (d.node i).kind with
  | .root | .elem =>
    String.join (((d.descendants i).filter fun j => (d.node j).kind = .text).map fun j => (d.node j).value)
  | _ => (d.node i).value
end Doc

/-! ## XPath subset -/

inductive Axis
  | child | attribute | descendant | descendantOrSelf | self | parent | ancestor | ancestorOrSelf
  | followingSibling | precedingSibling
deriving DecidableEq, Repr, Inhabited

/-- `piNamed t` = `processing-instruction('t')`, `nsStar p` = the name test `p:*` -/
inductive NodeTest | name (n : String) | star | text | node | comment | pi | piNamed (t : String) | nsStar (pfx : String)
deriving DecidableEq, Repr, Inhabited

inductive Expr
  | lit (s : String)
  | num (n : Nat)
  | var (x : String)
  | fn (f : String) (args : List Expr)
  | bin (op : String) (a b : Expr)
  | neg (a : Expr)
  | root
  | ctx
  | step (base : Expr) (ax : Axis) (t : NodeTest) (preds : List Expr)
  | filt (base : Expr) (pred : Expr)
deriving Inhabited

/-- XPath numbers of the subset: NaN and the dyadic rationals `n / 2^k` (normalised: `k = 0` or `n` odd).  They are
exactly representable doubles as long as `|n| < 2^53`, and closed under `+ - * mod` and `div` by a power of two — the
only divisors the generator writes — so no rounding ever happens and no floating point is needed. -/
inductive Num | nan | dy (n : Int) (k : Nat)
deriving DecidableEq, Repr, Inhabited

/-- normal form -/
def Num.norm : Nat → Int → Nat → Num
  | 0, n, k => .dy n k
  | f+1, n, k => if k = 0 then .dy n 0 else if n % 2 = 0 then Num.norm f (n / 2) (k - 1) else .dy n k

def Num.mk (n : Int) (k : Nat) : Num := Num.norm (k + 1) n k

@[match_pattern] def Num.int (i : Int) : Num := .dy i 0

/-- both numerators over the common denominator `2^(max ka kb)` -/
def Num.align (a : Int) (ka : Nat) (b : Int) (kb : Nat) : Int × Int × Nat :=
  let k := max ka kb
  (a * 2 ^ (k - ka), b * 2 ^ (k - kb), k)

def Num.floor : Num → Num
  | .nan => .nan
  | .dy n k => .dy (n / 2 ^ k) 0          -- Int `/` rounds towards minus infinity for a positive divisor

def Num.ceiling : Num → Num
  | .nan => .nan
  | .dy n k => .dy (-((-n) / 2 ^ k)) 0

/-- XPath §4.4 round: the closest integer, ties towards positive infinity -/
def Num.round : Num → Num
  | .nan => .nan
  | .dy n k => if k = 0 then .dy n 0 else .dy ((2 * n + 2 ^ k) / 2 ^ (k + 1)) 0

/-- result-tree events -/
inductive REv
  | start (n : String) | attr (n v : String) | text (s : String) | comment (s : String)
  | pi (t d : String) | stop (n : String)
  | attrU (n v : String)   -- engine-level only: an attribute added without the "element pending" guard
deriving DecidableEq, Repr, Inhabited

inductive Val
  | ns (l : List Nat) | str (s : String) | num (n : Num) | bool (b : Bool) | rtf (evs : List REv)
deriving Inhabited

/-- `xsl:key` declaration (XSLT §12.2) -/
structure KeyDecl where
  name : String
  pats : List Expr
  use : Expr
deriving Inhabited

/-- the XPath evaluation context (XPath §1 + the XSLT additions an expression can see) -/
structure XCtx where
  keys : List KeyDecl := []         -- the stylesheet's key declarations (static)
  node : Nat := 0
  pos : Nat := 1
  size : Nat := 1
  cur : Nat := 0                    -- the XSLT current node (`current()`), unchanged inside predicates
  vars : List (String × Val) := []
deriving Inhabited

/-- depth fuel every expression / pattern evaluation gets, independent of how deep the instantiation is (so that an
expression has one value, not one per call depth) -/
def evalFuel : Nat := 1000

/-- the instantiation context: the XPath context plus what only instructions see -/
structure Ctx extends XCtx where
  passed : List (String × Val) := []
  mode : Option String := none
  /-- import precedence of the current template rule (§5.6); `none` = no current template rule (inside xsl:for-each) -/
  curPrec : Option (Nat × Nat) := none   -- (precedence, low) of the current template rule
deriving Inhabited

/-! ### conversions (XPath §4.2–4.4) -/

def isWs (c : Char) : Bool := c = ' ' ∨ c = '\t' ∨ c = '\n' ∨ c = '\r'

def trimWs (cs : List Char) : List Char :=
  ((cs.dropWhile isWs).reverse.dropWhile isWs).reverse

def digitsToNat (cs : List Char) : Option Nat :=
  if cs.isEmpty then none else
  cs.foldl (fun acc c => acc.bind fun a =>
    if '0' ≤ c ∧ c ≤ '9' then some (a * 10 + (c.toNat - '0'.toNat)) else none) (some 0)

def pow5 (m : Nat) : Nat := 5 ^ m

/-- `number(string)`: optional whitespace, optional `-`, `Digits ('.' Digits?)? | '.' Digits` (XPath §4.4).  A decimal
that is not a dyadic rational (e.g. "0.1") is outside the subset's number domain and yields NaN here; such strings
only arise by cutting digits out of a printed number, which the generator does not aim at. -/
def strToNum (s : String) : Num :=
  let cs := trimWs s.toList
  let (neg, body) := match cs with
    | '-' :: rest => (true, rest)
    | _ => (false, cs)
  let ip := body.takeWhile (· ≠ '.')
  let rest := body.dropWhile (· ≠ '.')
  let fp := match rest with | _ :: r => r | [] => []
  if ip.isEmpty ∧ fp.isEmpty then .nan else
  if rest.length > 0 ∧ ip.isEmpty ∧ fp.isEmpty then .nan else
  match (if ip.isEmpty then some 0 else digitsToNat ip), (if fp.isEmpty then some 0 else digitsToNat fp) with
  | some i, some f =>
    let m := fp.length
    -- value = (i * 10^m + f) / 10^m = num / (2^m * 5^m)
    let num := i * 10 ^ m + f
    if num % pow5 m = 0 then
      let n : Int := (num / pow5 m : Nat)
      Num.mk (if neg then -n else n) m
    else .nan
  | _, _ => .nan

/-- number → string (XPath §4.2): no exponent, no trailing zeros, "0" for zero, exact digits of `n / 2^k` -/
def numToStr : Num → String
  | .nan => "NaN"
  | .dy n k =>
    if k = 0 then toString n else
    let a := n.natAbs
    let ip := a / 2 ^ k
    let fr := (a % 2 ^ k) * 5 ^ k            -- fraction * 10^k
    let ds := toString fr
    (if n < 0 then "-" else "") ++ toString ip ++ "." ++ String.ofList (List.replicate (k - ds.length) '0') ++ ds

def rtfString (evs : List REv) : String :=
  String.join (evs.map fun e => match e with | .text s => s | _ => "")

def toStr (d : Doc) : Val → String
  | .ns l => match l with | [] => "" | i :: _ => d.stringValue i
  | .str s => s
  | .num n => numToStr n
  | .bool b => if b then "true" else "false"
  | .rtf evs => rtfString evs

def toNum (d : Doc) : Val → Num
  | .num n => n
  | .bool b => .int (if b then 1 else 0)
  | v => strToNum (toStr d v)

def toBool : Val → Bool
  | .ns l => !l.isEmpty
  | .str s => !s.isEmpty
  | .num n => match n with | .nan => false | .dy i _ => i ≠ 0
  | .bool b => b
  | .rtf _ => true

/-! ### comparisons (XPath §3.4) -/

def numCmp (op : String) : Num → Num → Bool
  | .dy a0 ka, .dy b0 kb =>
    let (a, b, _) := Num.align a0 ka b0 kb
    if op = "=" then a = b else if op = "!=" then a ≠ b else if op = "<" then a < b
    else if op = "<=" then a ≤ b else if op = ">" then a > b else if op = ">=" then a ≥ b else false
  | _, _ => op = "!="

def strCmp (op : String) (a b : String) : Bool :=
  if op = "=" then a = b else if op = "!=" then a ≠ b else numCmp op (strToNum a) (strToNum b)

def isEqOp (op : String) : Bool := op = "=" ∨ op = "!="

def flipOp (op : String) : String :=
  if op = "<" then ">" else if op = "<=" then ">=" else if op = ">" then "<" else if op = ">=" then "<=" else op

/-- a result tree fragment compares like a node-set holding one node whose string-value is the
fragment's text (XSLT §11.1) -/
def nodeStrings (d : Doc) : Val → Option (List String)
  | .ns l => some (l.map d.stringValue)
  | .rtf evs => some [rtfString evs]
  | _ => none

def compareVals (d : Doc) (op : String) (a b : Val) : Bool :=
  match nodeStrings d a, nodeStrings d b with
  | some la, some lb => la.any fun x => lb.any fun y => strCmp op x y
  | some la, none =>
    (match b with
     | .bool bb => let ab := toBool a
                   if isEqOp op then (if op = "=" then ab = bb else ab ≠ bb)
                   else numCmp op (toNum d (.bool ab)) (toNum d b)
     | .num n => la.any fun x => numCmp op (strToNum x) n
     | _ => la.any fun x => strCmp op x (toStr d b))
  | none, some lb =>
    (match a with
     | .bool ab => let bb := toBool b
                   if isEqOp op then (if op = "=" then ab = bb else ab ≠ bb)
                   else numCmp op (toNum d a) (toNum d (.bool bb))
     | .num n => lb.any fun y => numCmp op n (strToNum y)
     | _ => lb.any fun y => strCmp op (toStr d a) y)
  | none, none =>
    if isEqOp op then
      match a, b with
      | .bool x, _ => if op = "=" then x = toBool b else x ≠ toBool b
      | _, .bool y => if op = "=" then toBool a = y else toBool a ≠ y
      | .num x, _ => numCmp op x (toNum d b)
      | _, .num y => numCmp op (toNum d a) y
      | _, _ => if op = "=" then toStr d a = toStr d b else toStr d a ≠ toStr d b
    else numCmp op (toNum d a) (toNum d b)

def isPow2 : Nat → Nat → Option Nat
  | 0, _ => none
  | f+1, m => if m = 1 then some 0 else if m % 2 = 0 then (isPow2 f (m / 2)).map (· + 1) else none

def arith (op : String) : Num → Num → Num
  | .dy a0 ka, .dy b0 kb =>
    let (a, b, k) := Num.align a0 ka b0 kb
    if op = "+" then Num.mk (a + b) k else if op = "-" then Num.mk (a - b) k
    else if op = "*" then Num.mk (a0 * b0) (ka + kb)
    else if op = "mod" then (if b = 0 then .nan else Num.mk (a.tmod b) k)
    else if op = "div" then
      -- only division by ± a power of two stays in the domain (the only kind the generator writes)
      (match isPow2 (b0.natAbs + 1) b0.natAbs with
       | some j => Num.mk (if b0 < 0 then -(a0 * 2 ^ kb) else a0 * 2 ^ kb) (ka + j)
       | none => .nan)
    else .nan
  | _, _ => .nan

/-! ### axes and node tests (XPath §2.2, §2.3) -/

def Axis.isReverse : Axis → Bool
  | .ancestor | .ancestorOrSelf | .precedingSibling | .parent => true
  | _ => false

/-- nodes on the axis in document order -/
def axisNodes (d : Doc) (ax : Axis) (i : Nat) : List Nat :=
  match ax with
  | .child => d.children i
  | .attribute => d.attrs i
  | .descendant => d.descendants i
  | .descendantOrSelf => i :: d.descendants i
  | .self => [i]
  | .parent => if i = 0 then [] else [(d.node i).parent]
  | .ancestor => (d.ancestors i).reverse
  | .ancestorOrSelf => (d.ancestors i).reverse ++ [i]
  | .followingSibling => d.followingSiblings i
  | .precedingSibling => d.precedingSiblings i

/-- principal node type: attribute for the attribute axis, element otherwise -/
def testNode (d : Doc) (ax : Axis) (t : NodeTest) (i : Nat) : Bool :=
  let n := d.node i
  let principal : NKind := if ax = .attribute then .attr else .elem
  match t with
  | .name nm =>
    -- §2.3: the QName is expanded with the stylesheet's declarations; no default namespace for unprefixed names
    n.kind = principal ∧ localOf n.name = localOf nm ∧ n.uri = (stylesheetNs.lookup (prefixOf nm)).getD ""
  | .star => n.kind = principal
  | .text => n.kind = .text
  | .node => true
  | .comment => n.kind = .comment
  | .pi => n.kind = .pi
  | .piNamed t => n.kind = .pi ∧ n.name = t
  -- `p:*`: any node of the principal type in the namespace the stylesheet binds `p` to
  | .nsStar p => decide (n.kind = principal) && (match stylesheetNs.lookup p with | some u => n.uri == u | none => false)

def insertSorted (x : Nat) : List Nat → List Nat
  | [] => [x]
  | y :: ys => if x < y then x :: y :: ys else if x = y then y :: ys else y :: insertSorted x ys

/-- union in document order without duplicates -/
def docOrderUnion (a b : List Nat) : List Nat := b.foldl (fun acc x => insertSorted x acc) a

def normalizeSpace (s : String) : String :=
  let rec go : List Char → Bool → List Char → List Char
    | [], _, acc => acc.reverse
    | c :: cs, pendingSp, acc =>
      if isWs c then go cs true acc
      else if pendingSp ∧ !acc.isEmpty then go cs false (c :: ' ' :: acc)
      else go cs false (c :: acc)
  String.ofList (go s.toList false [])

def listContains (hay needle : List Char) : Bool :=
  match hay with
  | [] => needle.isEmpty
  | _ :: t => needle.isPrefixOf hay || listContains t needle

/-- index of the first occurrence of `needle` in `hay` -/
def findSub (hay needle : List Char) : Option Nat :=
  let rec go : List Char → Nat → Option Nat
    | [], k => if needle.isEmpty then some k else none
    | c :: t, k => if needle.isPrefixOf (c :: t) then some k else go t (k + 1)
  go hay 0

def substringBefore (a b : String) : String :=
  match findSub a.toList b.toList with
  | some k => String.ofList (a.toList.take k)
  | none => ""

def substringAfter (a b : String) : String :=
  match findSub a.toList b.toList with
  | some k => String.ofList (a.toList.drop (k + b.length))
  | none => ""

/-- `translate` (XPath §4.2): characters of `from` are replaced by the character at the same position
of `to`, or removed when there is none; the first occurrence in `from` counts -/
def translateStr (s from_ to : String) : String :=
  let f := from_.toList
  let t := to.toList
  String.ofList (s.toList.filterMap fun c =>
    match f.findIdx? (· = c) with
    | none => some c
    | some i => t[i]?)

/-- `substring(s, start[, len])` for integer / NaN arguments: the characters at positions `p` with
`start ≤ p` and `p < start + len` (every comparison with NaN is false) -/
def substringNum (s : String) (start : Num) (len : Option Num) : String :=
  match start with
  | .nan => ""
  | .dy st0 k0 =>
    let st := match Num.round (.dy st0 k0) with | .dy i _ => i | .nan => 0
    let cs := s.toList.zipIdx 1
    match len with
    | none => String.ofList ((cs.filter fun p => st ≤ (p.2 : Int)).map (·.1))
    | some .nan => ""
    | some (.dy l0 kl) =>
      let l := match Num.round (.dy l0 kl) with | .dy i _ => i | .nan => 0
      String.ofList ((cs.filter fun p => st ≤ (p.2 : Int) ∧ (p.2 : Int) < st + l).map (·.1))

/-! ### evaluation (depth fuel) -/

mutual
def eval (d : Doc) : Nat → Expr → XCtx → Option Val
  | 0, _, _ => none
  | f+1, e, c =>
    match e with
    | .lit s => some (.str s)
    | .num n => some (.num (.int n))
    | .var x => c.vars.lookup x
    | .root => some (.ns [0])
    | .ctx => some (.ns [c.node])
    | .neg a => do
      let v ← eval d f a c
      some (.num (arith "-" (.int 0) (toNum d v)))
    | .bin op a b =>
      if op = "or" then do
        let x ← eval d f a c
        if toBool x then some (.bool true) else do
          let y ← eval d f b c
          some (.bool (toBool y))
      else if op = "and" then do
        let x ← eval d f a c
        if !toBool x then some (.bool false) else do
          let y ← eval d f b c
          some (.bool (toBool y))
      else do
        let x ← eval d f a c
        let y ← eval d f b c
        if op = "|" then
          match x, y with
          | .ns l1, .ns l2 => some (.ns (docOrderUnion l1 l2))
          | _, _ => none
        else if op = "+" ∨ op = "-" ∨ op = "*" ∨ op = "mod" ∨ op = "div" then
          some (.num (arith op (toNum d x) (toNum d y)))
        else some (.bool (compareVals d op x y))
    | .fn name args => do
      let vs ← evalArgs d f args c
      if name = "key" then evalKey d f vs c else evalFn d name vs c
    | .step base ax t preds => do
      let b ← eval d f base c
      match b with
      | .ns l =>
        let res ← l.foldlM (fun (acc : List Nat) i => do
            let cand := (axisNodes d ax i).filter (testNode d ax t)
            let kept ← applyPreds d f preds ax.isReverse cand c
            pure (docOrderUnion acc kept)) []
        some (.ns res)
      | _ => none
    | .filt base p => do
      let b ← eval d f base c
      match b with
      | .ns l => do
        let kept ← applyPreds d f [p] false l c
        some (.ns kept)
      | _ => none

/-- `key(name, value)` (§12.2): the nodes of the document that match the key's pattern and for which the
`use` expression, evaluated at the node, yields (a node with) one of the requested string values -/
def evalKey (d : Doc) : Nat → List Val → XCtx → Option Val
  | 0, _, _ => none
  | f+1, vs, c =>
    match vs with
    | [nameV, valV] =>
      -- all declarations of the name contribute (§12.2: a key may have several xsl:key elements, in any module)
      match c.keys.filter (·.name = toStr d nameV) with
      | [] => none
      | decls =>
        let wanted : List String := match valV with
          | .ns l => l.map d.stringValue
          | v => [toStr d v]
        do
        let hits ← d.ids.filterM fun n => do
          decls.anyM fun decl => do
            let isMatch := decl.pats.any fun p => (n :: d.ancestors n).any fun a =>
              match eval d f p { keys := c.keys, node := a, cur := a } with
              | some (.ns l) => l.contains n
              | _ => false
            if !isMatch then pure false else do
              let u ← eval d f decl.use { keys := c.keys, node := n, cur := n }
              let have_ : List String := match u with
                | .ns l => l.map d.stringValue
                | v => [toStr d v]
              pure (have_.any fun x => wanted.contains x)
        some (.ns hits)
    | _ => none

def evalArgs (d : Doc) : Nat → List Expr → XCtx → Option (List Val)
  | 0, _, _ => none
  | _+1, [], _ => some []
  | f+1, a :: as, c => do
    let v ← eval d f a c
    let vs ← evalArgs d f as c
    some (v :: vs)

/-- filter `cand` (document order) by each predicate in turn; proximity position counts along the
axis direction -/
def applyPreds (d : Doc) : Nat → List Expr → Bool → List Nat → XCtx → Option (List Nat)
  | 0, _, _, _, _ => none
  | _+1, [], _, cand, _ => some cand
  | f+1, p :: ps, rev, cand, c => do
    let ordered := if rev then cand.reverse else cand
    let n := ordered.length
    let kept ← filterPos d f p ordered 1 n c
    let kept' := if rev then kept.reverse else kept
    applyPreds d f ps rev kept' c

def filterPos (d : Doc) : Nat → Expr → List Nat → Nat → Nat → XCtx → Option (List Nat)
  | 0, _, _, _, _, _ => none
  | _+1, _, [], _, _, _ => some []
  | f+1, p, i :: rest, k, n, c => do
    let v ← eval d f p { c with node := i, pos := k, size := n }
    let keep : Bool := match v with
      | .num x => decide (x = .int k)
      | _ => toBool v
    let tl ← filterPos d f p rest (k + 1) n c
    some (if keep then i :: tl else tl)

def evalFn (d : Doc) (name : String) (vs : List Val) (c : XCtx) : Option Val :=
  match name, vs with
  | "position", [] => some (.num (.int c.pos))
  | "last", [] => some (.num (.int c.size))
  | "count", [.ns l] => some (.num (.int l.length))
  | "true", [] => some (.bool true)
  | "false", [] => some (.bool false)
  | "not", [v] => some (.bool (!toBool v))
  | "boolean", [v] => some (.bool (toBool v))
  | "string", [] => some (.str (d.stringValue c.node))
  | "string", [v] => some (.str (toStr d v))
  | "number", [] => some (.num (strToNum (d.stringValue c.node)))
  | "number", [v] => some (.num (toNum d v))
  | "concat", _ => if vs.length < 2 then none else some (.str (String.join (vs.map (toStr d))))
  | "string-length", [] => some (.num (.int (d.stringValue c.node).length))
  | "string-length", [v] => some (.num (.int (toStr d v).length))
  | "normalize-space", [] => some (.str (normalizeSpace (d.stringValue c.node)))
  | "normalize-space", [v] => some (.str (normalizeSpace (toStr d v)))
  | "starts-with", [a, b] => some (.bool ((toStr d b).toList.isPrefixOf (toStr d a).toList))
  | "contains", [a, b] => some (.bool (listContains (toStr d a).toList (toStr d b).toList))
  | "sum", [.ns l] => some (.num (l.foldl (fun acc i => arith "+" acc (strToNum (d.stringValue i))) (.int 0)))
  | "substring-before", [a, b] => some (.str (substringBefore (toStr d a) (toStr d b)))
  | "substring-after", [a, b] => some (.str (substringAfter (toStr d a) (toStr d b)))
  | "translate", [a, b, e] => some (.str (translateStr (toStr d a) (toStr d b) (toStr d e)))
  | "substring", [a, b] => some (.str (substringNum (toStr d a) (toNum d b) none))
  | "substring", [a, b, e] => some (.str (substringNum (toStr d a) (toNum d b) (some (toNum d e))))
  | "floor", [v] => some (.num (toNum d v).floor)
  | "ceiling", [v] => some (.num (toNum d v).ceiling)
  | "round", [v] => some (.num (toNum d v).round)
  | "current", [] => some (.ns [c.cur])
  | "name", [] => some (.str (nodeName d c.node))
  | "name", [.ns l] => some (.str (match l with | [] => "" | i :: _ => nodeName d i))
  | "local-name", [] => some (.str (localOf (nodeName d c.node)))
  | "local-name", [.ns l] => some (.str (match l with | [] => "" | i :: _ => localOf (nodeName d i)))
  | _, _ => none

def nodeName (d : Doc) (i : Nat) : String :=
  match (d.node i).kind with
  | .elem | .attr | .pi => (d.node i).name
  | _ => ""
end

/-! ## Stylesheets -/

inductive AvtPart | lit (s : String) | expr (e : Expr)
deriving Inhabited

structure SortKey where
  select : Expr
  numeric : Bool
  desc : Bool
deriving Inhabited

inductive Instr
  | text (s : String)
  | valueOf (e : Expr)
  | lre (name : String) (attrs : List (String × List AvtPart)) (body : List Instr)
  | element (name : List AvtPart) (body : List Instr)
  | attribute (name : List AvtPart) (nsEmpty : Bool) (body : List Instr)
  /-- `xsl:element` / `xsl:attribute` with a `namespace` attribute value template (§7.1.2, §7.1.3): the expanded name
  has the local part of `name` and the namespace the template evaluates to (none for the empty string) -/
  | elementNs (name ns : List AvtPart) (body : List Instr)
  | attributeNs (name ns : List AvtPart) (body : List Instr)
  | comment (body : List Instr)
  | pi (name : List AvtPart) (body : List Instr)
  | copy (body : List Instr)
  | copyOf (e : Expr)
  | applyTemplates (select : Option Expr) (mode : Option String) (sorts : List SortKey) (params : List Instr)
  | callTemplate (name : String) (params : List Instr)
  | forEach (select : Expr) (sorts : List SortKey) (body : List Instr)
  | if_ (test : Expr) (body : List Instr)
  | choose (whens : List Instr) (otherwise : List Instr)
  | when (test : Expr) (body : List Instr)
  | variable (name : String) (select : Option Expr) (body : List Instr)
  | param (name : String) (select : Option Expr) (body : List Instr)
  | withParam (name : String) (select : Option Expr) (body : List Instr)
  /-- `xsl:use-attribute-sets` / `use-attribute-sets` of the enclosing element-creating instruction
  (kept as the first item of its body) -/
  | useSets (names : List String)
  /-- `xsl:number` (§7.7): `value="…"`, or `level` = single | multiple | any with an optional `count` pattern (no
`from`); one format token with optional punctuation around it -/
  | number (value : Option Expr) (level : String) (count : List Expr) (format : String) (from_ : List Expr := [])
  | applyImports
deriving Inhabited

structure Template where
  pats : List Expr := []          -- alternatives of the match pattern
  name : Option String := none
  mode : Option String := none
  prio : Option Int := none       -- explicit priority, in halves
  body : List Instr := []
  prec : Nat := 0                 -- import precedence of the stylesheet module the rule is in (§2.6.2)
  /-- lowest import precedence in the import subtree of that module (post-order numbering makes the modules a
  module imports, directly or indirectly, the contiguous range `low … prec-1`): what xsl:apply-imports may use -/
  low : Nat := 0
deriving Inhabited

structure AttrSet where
  name : String
  uses : List String := []
  body : List Instr := []         -- xsl:attribute instructions
  prec : Nat := 0                 -- import precedence of the defining module
deriving Inhabited

structure Stylesheet where
  templates : List Template := []
  globals : List Instr := []      -- top-level xsl:variable / xsl:param, in document order
  attrSets : List AttrSet := []
  keys : List KeyDecl := []
  /-- `xsl:strip-space elements="…"` name tests ("*" or element names); no xsl:preserve-space in the subset -/
  stripSpace : List String := []
  /-- `xsl:namespace-alias` (§7.1.1): stylesheet namespace URI ↦ result namespace URI -/
  nsAlias : List (String × String) := []
deriving Inhabited

/-! ### result-tree construction (XSLT §7.1.3, §7.2): flat events, then `normalize` -/

/-- empty strings create no text node (§7.2) -/
def dropEmpty : List REv → List REv
  | [] => []
  | .text s :: rest => if s.isEmpty then dropEmpty rest else .text s :: dropEmpty rest
  | e :: rest => e :: dropEmpty rest

/-- adjacent text nodes are one node (and empty ones none) -/
def mergeText : List REv → List REv
  | [] => []
  | .text s :: rest =>
    if s.isEmpty then mergeText rest else
    match mergeText rest with
    | .text t :: rest' => .text (s ++ t) :: rest'
    | r => .text s :: r
  | e :: rest => e :: mergeText rest

def markChild : List Bool → List Bool
  | [] => []
  | _ :: t => false :: t

def topFlag : List Bool → Bool
  | [] => false
  | b :: _ => b

/-- §7.1.3: an attribute is added to the containing element only before any child of it has been
added; otherwise (and at the top level) the recovery is to ignore it.  The stack holds one
"may still take attributes" flag per open element. -/
def placeAttrs : List Bool → List REv → List REv
  | _, [] => []
  | st, .start n :: rest => .start n :: placeAttrs (true :: markChild st) rest
  | st, .attr n v :: rest =>
    if topFlag st then .attr n v :: placeAttrs st rest else placeAttrs st rest
  | st, .attrU n v :: rest =>
    if topFlag st then .attr n v :: placeAttrs st rest else placeAttrs st rest
  | st, .stop n :: rest => .stop n :: placeAttrs st.tail rest
  | st, .text s :: rest => .text s :: placeAttrs (markChild st) rest
  | st, .comment s :: rest => .comment s :: placeAttrs (markChild st) rest
  | st, .pi t d :: rest => .pi t d :: placeAttrs (markChild st) rest

def normalize (evs : List REv) : List REv := mergeText (placeAttrs [] (dropEmpty evs))

/-! ### patterns and rule choice (XSLT §5.2, §5.5) -/

/-- §5.5 default priority, in **quarters**: `child::` / `attribute::` with a QName or `processing-instruction(Literal)` 0;
`NCName:*` −0.25; any other single node test −0.5; every other pattern 0.5 -/
def defaultPrio : Expr → Int
  | .step .ctx ax t [] =>
    if ax = .child ∨ ax = .attribute then
      match t with
      | .name _ => 0
      | .piNamed _ => 0
      | .nsStar _ => -1
      | _ => -2
    else 2
  | _ => 2

/-- the table of §5.5, in quarters: `processing-instruction('t')` 0, `a` 0, `p:*` −0.25, `processing-instruction()` −0.5,
`*[1]` 0.5, `a/b` 0.5 -/
example : [defaultPrio (.step .ctx .child (.piNamed "t") []), defaultPrio (.step .ctx .child (.name "a") []),
    defaultPrio (.step .ctx .attribute (.nsStar "p") []), defaultPrio (.step .ctx .child .pi []),
    defaultPrio (.step .ctx .child .star [.num 1]), defaultPrio (.step (.step .ctx .child (.name "a") []) .child (.name "b") [])]
    = [0, 0, -1, -2, 2, 2] := by decide

/-- priority of a rule for one alternative of its pattern, in quarters (an explicit `priority` attribute is kept in halves) -/
def rulePrio (t : Option Int) (p : Expr) : Int :=
  match t with
  | some h => 2 * h
  | none => defaultPrio p

/-- §5.2: a node matches a pattern iff some ancestor-or-self, taken as context, selects it -/
def matchesPat (d : Doc) (fuel : Nat) (p : Expr) (n : Nat) (keys : List KeyDecl := []) : Bool :=
  (n :: d.ancestors n).any fun a =>
    match eval d fuel p { keys := keys, node := a, cur := a } with
    | some (.ns l) => l.contains n
    | _ => false

/-- §5.5: highest priority wins; among equals the last in the stylesheet (the permitted recovery) -/
def chooseTemplateIdx (ss : Stylesheet) (d : Doc) (fuel : Nat) (n : Nat) (mode : Option String)
    (below : Option (Nat × Nat) := none) : Option (Nat × Template) :=
  -- `below = some (p, low)`: only rules imported into the current rule's module, i.e. of import precedence
  -- `low ≤ · < p` (xsl:apply-imports, §5.6)
  let cands : List (Nat × Int × Nat × Template) :=
    (ss.templates.zipIdx).flatMap fun (t, idx) =>
      if t.mode ≠ mode ∨ (match below with | some p => decide (t.prec ≥ p.1 ∨ t.prec < p.2) | none => false) = true then [] else
      (t.pats.filter fun p => matchesPat d fuel p n ss.keys).map fun p => (t.prec, rulePrio t.prio p, idx, t)
  -- highest import precedence, then highest priority, then last in the stylesheet
  let best := cands.foldl (fun (acc : Option (Nat × Int × Nat × Template)) x =>
    match acc with
    | none => some x
    | some b =>
      if x.1 > b.1 ∨ (x.1 = b.1 ∧ (x.2.1 > b.2.1 ∨ (x.2.1 = b.2.1 ∧ x.2.2.1 ≥ b.2.2.1))) then some x else some b) none
  best.map (·.2.2)

/-- the rule chosen for a node (see `chooseTemplateIdx`, which also gives its position in the stylesheet) -/
def chooseTemplate (ss : Stylesheet) (d : Doc) (fuel : Nat) (n : Nat) (mode : Option String)
    (below : Option (Nat × Nat) := none) : Option Template :=
  (chooseTemplateIdx ss d fuel n mode below).map (·.2)

/-- §7.7: does node `n` count for an `xsl:number` instantiated at node `cur`?  (default: same node type and,
where the type has names, same name) -/
def countsFor (d : Doc) (fuel : Nat) (count : List Expr) (cur n : Nat) : Bool :=
  if count.isEmpty then
    decide ((d.node n).kind = (d.node cur).kind) &&
      (match (d.node cur).kind with
       | .elem | .attr | .pi => decide (localOf (d.node n).name = localOf (d.node cur).name ∧ (d.node n).uri = (d.node cur).uri)
       | _ => true)
  else count.any fun p => matchesPat d fuel p n

/-- the list of numbers `xsl:number` produces without `value` (§7.7; reading of `from` as in C17/Spec.lean: for
single/multiple the ancestors searched stop below the nearest proper ancestor matching `from`; for any only nodes
after the last `from` match strictly before the current node count) -/
def numberList (d : Doc) (fuel : Nat) (level : String) (count from_ : List Expr) (cur : Nat) : List Nat :=
  let ok := countsFor d fuel count cur
  let isFrom (n : Nat) : Bool := from_.any fun p => matchesPat d fuel p n
  let sibNo (n : Nat) : Nat := 1 + ((d.precedingSiblings n).filter ok).length
  let searched := cur :: (d.ancestors cur).takeWhile fun a => !isFrom a
  if level = "any" then
    let anchor := if d.isAttr cur then (d.node cur).parent else cur
    let before := d.ids.filter fun n => n ≤ anchor ∧ !d.isAttr n
    let cand := if d.isAttr cur then before ++ [cur] else before
    let strictlyBefore := cand.filter (· ≠ cur)
    let lo := match (strictlyBefore.reverse.find? isFrom) with
      | some m => (cand.dropWhile (· ≠ m)).drop 1
      | none => cand
    let cnt := (lo.filter ok).length
    -- §7.7: "a list of length one containing the number of nodes that match" — also when that number is 0
    [cnt]
  else if level = "multiple" then
    ((searched.filter ok).reverse).map sibNo
  else
    match searched.find? ok with
    | some n => [sibNo n]
    | none => []

def findNamed (ss : Stylesheet) (name : String) : Option Template :=
  (ss.templates.filter fun t => t.name = some name).foldl (fun (acc : Option Template) t =>
    match acc with
    | none => some t
    | some b => if t.prec ≥ b.prec then some t else some b) none

/-! ### sorting (XSLT §10) -/

inductive KeyVal | s (x : String) | n (x : Num)
deriving Inhabited

/-- NaN sorts before every number (what the processor does; the Recommendation leaves it open) -/
def cmpKeyAsc : KeyVal → KeyVal → Ordering
  | .s a, .s b => if a < b then .lt else if a = b then .eq else .gt
  | .n .nan, .n .nan => .eq
  | .n .nan, .n _ => .lt
  | .n _, .n .nan => .gt
  | .n (.dy a0 ka), .n (.dy b0 kb) =>
    let (a, b, _) := Num.align a0 ka b0 kb
    if a < b then .lt else if a = b then .eq else .gt
  | _, _ => .eq

def lexLe : List SortKey → List KeyVal → List KeyVal → Bool
  | k :: ks, a :: as, b :: bs =>
    match (if k.desc then cmpKeyAsc b a else cmpKeyAsc a b) with
    | .lt => true
    | .gt => false
    | .eq => lexLe ks as bs
  | _, _, _ => true

def keyOf (d : Doc) (fuel : Nat) (k : SortKey) (c : XCtx) : Option KeyVal := do
  let v ← eval d fuel k.select c
  if k.numeric then some (.n (toNum d v)) else some (.s (toStr d v))

def sortNodes (d : Doc) (fuel : Nat) (keys : List SortKey) (nodes : List Nat) (c : XCtx) :
    Option (List Nat) :=
  if keys.isEmpty then some nodes else do
    let n := nodes.length
    let keyed ← (nodes.zipIdx 1).mapM fun (i, k) => do
      let ks ← keys.mapM fun key => keyOf d fuel key { c with node := i, cur := i, pos := k, size := n }
      pure (i, ks)
    some ((keyed.mergeSort fun a b => lexLe keys a.2 b.2).map (·.1))

def evalAvt (d : Doc) (fuel : Nat) (parts : List AvtPart) (c : XCtx) : Option String :=
  parts.foldlM (fun acc p => match p with
    | .lit s => some (acc ++ s)
    | .expr e => (eval d fuel e c).map fun v => acc ++ toStr d v) ""

/-- §7.4: "--" or a trailing "-" in a comment is an error; the recovery is to insert a space -/
def fixComment (s : String) : String :=
  let rec go : List Char → List Char
    | '-' :: '-' :: r => '-' :: ' ' :: go ('-' :: r)
    | ['-'] => ['-', ' ']
    | c :: r => c :: go r
    | [] => []
  String.ofList (go s.toList)

/-- deep copy of a source node (xsl:copy-of, §11.3) -/
def deepCopy (d : Doc) : Nat → Nat → List REv
  | 0, _ => []
  | f+1, i =>
    let n := d.node i
    match n.kind with
    | .root => (d.children i).flatMap (deepCopy d f)
    | .elem =>
      [.start (expanded n.uri (localOf n.name))]
        ++ (d.attrs i).map (fun a => .attr (expanded (d.node a).uri (localOf (d.node a).name)) (d.node a).value)
        ++ (d.children i).flatMap (deepCopy d f) ++ [.stop (expanded n.uri (localOf n.name))]
    | .attr => [.attr (expanded n.uri (localOf n.name)) n.value]
    | .text => [.text n.value]
    | .comment => [.comment n.value]
    | .pi => [.pi n.name n.value]

/-! ### number formatting (XSLT §7.7.1) for one format token -/

def alphaDigits (upper : Bool) : Nat → Nat → List Char
  | 0, _ => []
  | _+1, 0 => []
  | f+1, n + 1 => alphaDigits upper f (n / 26) ++ [Char.ofNat ((if upper then 65 else 97) + n % 26)]

def romanTable : List (Nat × String) :=
  [(1000, "m"), (900, "cm"), (500, "d"), (400, "cd"), (100, "c"), (90, "xc"), (50, "l"), (40, "xl"),
   (10, "x"), (9, "ix"), (5, "v"), (4, "iv"), (1, "i")]

def romanAux : Nat → Nat → List (Nat × String) → String
  | 0, _, _ => ""
  | _, _, [] => ""
  | f+1, n, (v, s) :: rest => if n ≥ v then s ++ romanAux f (n - v) ((v, s) :: rest) else romanAux f n rest

/-- `token` = the alphanumeric format token: "1", "01", "001", "a", "A", "i", "I" -/
def formatToken (token : String) (n : Nat) : String :=
  -- 0 (a count of level="any") is outside the alphabetic / roman sequences, which start at 1; the Recommendation does
  -- not say what it becomes.  As the processor: roman 0 is written "0", alphabetic 0 is the empty string.
  if n = 0 ∧ (token = "i" ∨ token = "I") then "0"
  else if token = "a" then String.ofList (alphaDigits false (n + 1) n)
  else if token = "A" then String.ofList (alphaDigits true (n + 1) n)
  else if token = "i" then romanAux (n + 20) n romanTable
  else if token = "I" then (romanAux (n + 20) n romanTable).toUpper
  else
    let ds := toString n
    String.ofList (List.replicate (token.length - ds.length) '0') ++ ds

def isAlnum (c : Char) : Bool := c.isAlphanum

/-- split a format string into maximal alphanumeric / non-alphanumeric runs (§7.7.1) -/
def formatRuns : Nat → List Char → List (Bool × String)
  | 0, _ => []
  | _, [] => []
  | f+1, c :: cs =>
    let a := isAlnum c
    let run := (c :: cs).takeWhile fun x => isAlnum x == a
    (a, String.ofList run) :: formatRuns f ((c :: cs).dropWhile fun x => isAlnum x == a)

/-- §7.7.1: the n-th number uses the n-th format token (the last one when there are fewer tokens, "1" when there
is none); a leading / trailing punctuation run is output as prefix / suffix (a format that is a single punctuation run is
both); the separator runs between tokens join
the numbers (the last separator, or "." when there is none, is reused); an empty list gives the empty string -/
def formatNumbers (format : String) (ns : List Nat) : String :=
  if ns.isEmpty then "" else
  let runs := formatRuns (format.length + 1) format.toList
  let pre := match runs with | (false, p) :: _ => p | _ => ""
  let body := match runs with | (false, _) :: r => r | r => r
  -- "if the first token is a non-alphanumeric token the string starts with it; if the last token is a non-alphanumeric
  -- token the string ends with it": a format that is one punctuation token is both
  let suf := match body.getLast? with
    | some (false, p) => p
    | none => (match runs with | [(false, p)] => p | _ => "")
    | _ => ""
  let body' := match body.getLast? with | some (false, _) => body.dropLast | _ => body
  let toks := (body'.filter (·.1)).map (·.2)
  let seps := (body'.filter (fun x => !x.1)).map (·.2)
  let tokAt (i : Nat) : String := (toks[i]?).getD (toks.getLast?.getD "1")
  let sepAt (i : Nat) : String := (seps[i]?).getD (seps.getLast?.getD ".")
  let parts := (ns.zipIdx).map fun p => (if p.2 = 0 then "" else sepAt (p.2 - 1)) ++ formatToken (tokAt p.2) p.1
  pre ++ String.join parts ++ suf

def formatNumber (format : String) (n : Nat) : String := formatNumbers format [n]

/-! ### instantiation (XSLT §5, §7, §9, §11)

The interpreter takes a `Quirks` record.  `Quirks.spec` (everything off, `finish := normalize`) *is the
specification*.  The `paramLeak` switch reproduces the one behaviour of the real engine found to deviate from the
Recommendation that is not yet repaired in /repo (design/C01.md, finding F4); the check uses it only to
*classify* a disagreement (a mismatch the switch explains exactly is that finding, anything else is a new
violation).  The switches for the repaired findings (root position, namespace-attribute leak, copy-of of an
empty string, AVT literal) were removed once /repo had the fixes: such a deviation is now a plain violation. -/

structure Quirks where
  /-- a with-param activated by one template stays visible (as a variable) to later templates of the same
  apply-templates (`VariablesStack::findEntry` activates the passed entry in place) -/
  paramLeak : Bool := false
  /-- how an event sequence becomes a result tree -/
  finish : List REv → List REv := normalize

def Quirks.spec : Quirks := {}

/-- the attribute sets named by a leading `useSets` item of a body, and the body without that item -/
def leadingSets : List Instr → List String
  | .useSets ns :: _ => ns
  | _ => []

def dropSets : List Instr → List Instr
  | .useSets _ :: rest => rest
  | body => body

def declaredParams : List Instr → List String
  | .param x _ _ :: rest => x :: declaredParams rest
  | _ => []


mutual
def execSeq (q : Quirks) (ss : Stylesheet) (d : Doc) (genv : List (String × Val)) :
    Nat → List Instr → Ctx → Option (List REv)
  | 0, _, _ => none
  | _+1, [], _ => some []
  | f+1, i :: rest, c =>
    match i with
    | .variable x sel body => do
      let v ← varValue q ss d genv f sel body c
      execSeq q ss d genv f rest { c with vars := (x, v) :: c.vars }
    | .param x sel body => do
      let v ← match c.passed.lookup x with
        | some v => some v
        | none => varValue q ss d genv f sel body c
      execSeq q ss d genv f rest { c with vars := (x, v) :: c.vars }
    | _ => do
      let a ← execOne q ss d genv f i c
      let b ← execSeq q ss d genv f rest c
      some (a ++ b)

def varValue (q : Quirks) (ss : Stylesheet) (d : Doc) (genv : List (String × Val)) :
    Nat → Option Expr → List Instr → Ctx → Option Val
  | 0, _, _, _ => none
  | f+1, sel, body, c =>
    match sel with
    | some e => eval d evalFuel e c.toXCtx
    | none =>
      if body.isEmpty then some (.str "") else do
        let evs ← execSeq q ss d genv f body { c with passed := [] }
        some (.rtf (q.finish evs))

def evalParams (q : Quirks) (ss : Stylesheet) (d : Doc) (genv : List (String × Val)) :
    Nat → List Instr → Ctx → Option (List (String × Val))
  | 0, _, _ => none
  | _+1, [], _ => some []
  | f+1, p :: ps, c =>
    match p with
    | .withParam x sel body => do
      let v ← varValue q ss d genv f sel body c
      let rest ← evalParams q ss d genv f ps c
      some ((x, v) :: rest)
    | _ => none

def execOne (q : Quirks) (ss : Stylesheet) (d : Doc) (genv : List (String × Val)) :
    Nat → Instr → Ctx → Option (List REv)
  | 0, _, _ => none
  | f+1, i, c =>
    let c0 := { c with passed := [] }
    match i with
    | .text s => some (if s.isEmpty then [] else [.text s])
    | .valueOf e => do
      let v ← eval d evalFuel e c.toXCtx
      let s := toStr d v
      some (if s.isEmpty then [] else [.text s])
    | .lre name attrs body => do
      -- §7.1.4: attributes of the used sets first, then the element's own, then xsl:attribute children
      let fromSets ← useAttrSets q ss d genv f (leadingSets body) c
      let as ← attrs.mapM fun (an, parts) => (evalAvt d evalFuel parts c.toXCtx).map fun v => REv.attr (lreName ss.nsAlias an) v
      let b ← execSeq q ss d genv f (dropSets body) c0
      some ([.start (lreName ss.nsAlias name)] ++ fromSets ++ as ++ b ++ [.stop (lreName ss.nsAlias name)])
    | .number value level count format from_ =>
      match value with
      | some e => do
        let v ← eval d evalFuel e c.toXCtx
        match (toNum d v).round with
        | .dy i _ => if i ≥ 1 then some [.text (formatNumber format i.toNat)] else none
        | .nan => none
      | none =>
        let s := formatNumbers format (numberList d evalFuel level count from_ c.node)
        some (if s.isEmpty then [] else [.text s])
    | .applyImports =>
      match c.curPrec with
      | none => none
      | some p =>
        match chooseTemplate ss d evalFuel c.node c.mode (some p) with
        | some t => execSeq q ss d genv f t.body { c with vars := genv, passed := [], curPrec := some (t.prec, t.low) }
        | none =>
          match (d.node c.node).kind with
          | .root | .elem => applyNodes q ss d genv f (d.children c.node) 1 (d.children c.node).length c.mode [] []
          | .text | .attr => some [.text (d.node c.node).value]
          | _ => some []
    | .useSets names =>
      -- on xsl:element / xsl:copy; on xsl:copy only when the current node is an element
      useAttrSets q ss d genv f names c
    | .element nameAvt body => do
      let name ← evalAvt d evalFuel nameAvt c.toXCtx
      let b ← execSeq q ss d genv f body c0
      some ([.start (sheetName name)] ++ b ++ [.stop (sheetName name)])
    | .elementNs nameAvt nsAvt body => do
      let name ← evalAvt d evalFuel nameAvt c.toXCtx
      let ns ← evalAvt d evalFuel nsAvt c.toXCtx
      let b ← execSeq q ss d genv f body c0
      some ([.start (expanded ns (localOf name))] ++ b ++ [.stop (expanded ns (localOf name))])
    | .attributeNs nameAvt nsAvt body => do
      let name ← evalAvt d evalFuel nameAvt c.toXCtx
      let ns ← evalAvt d evalFuel nsAvt c.toXCtx
      let b ← execSeq q ss d genv f body c0
      some [.attr (expanded ns (localOf name)) (rtfString b)]
    | .attribute nameAvt nsEmpty body => do
      let name ← evalAvt d evalFuel nameAvt c.toXCtx
      let b ← execSeq q ss d genv f body c0
      -- §7.1.3: an explicit namespace attribute decides the namespace (namespace="" = none), else the prefix does
      some [.attr (if nsEmpty then localOf name else sheetName name) (rtfString b)]
    | .comment body => do
      let b ← execSeq q ss d genv f body c0
      some [.comment (fixComment (rtfString b))]
    | .pi nameAvt body => do
      let name ← evalAvt d evalFuel nameAvt c.toXCtx
      let b ← execSeq q ss d genv f body c0
      some [.pi name (rtfString b)]
    | .copy body =>
      let n := d.node c.node
      match n.kind with
      | .root =>
        -- use-attribute-sets of xsl:copy is used only when an element is copied (§7.5)
        execSeq q ss d genv f (match body with | .useSets _ :: rest => rest | _ => body) c0
      | .elem => do
        let b ← execSeq q ss d genv f body c0
        some ([.start (expanded n.uri (localOf n.name))] ++ b ++ [.stop (expanded n.uri (localOf n.name))])
      | .attr => some [.attr (expanded n.uri (localOf n.name)) n.value]
      | .text => some [.text n.value]
      | .comment => some [.comment n.value]
      | .pi => some [.pi n.name n.value]
    | .copyOf e => do
      let v ← eval d evalFuel e c.toXCtx
      match v with
      | .ns l => some (l.flatMap (deepCopy d (d.size + 1)))
      | .rtf evs => some evs
      | _ =>
        let s := toStr d v
        some (if s.isEmpty then [] else [.text s])
    | .applyTemplates sel mode sorts params => do
      let nodes ← match sel with
        | none => some (d.children c.node)
        | some e => match eval d evalFuel e c.toXCtx with
          | some (.ns l) => some l
          | _ => none
      let sorted ← sortNodes d evalFuel sorts nodes c.toXCtx
      let passed ← evalParams q ss d genv f params c
      applyNodes q ss d genv f sorted 1 sorted.length mode passed []
    | .callTemplate name params => do
      let t ← findNamed ss name
      let passed ← evalParams q ss d genv f params c
      execSeq q ss d genv f t.body { c with vars := genv, passed := passed }
    | .forEach sel sorts body => do
      let nodes ← match eval d evalFuel sel c.toXCtx with
        | some (.ns l) => some l
        | _ => none
      let sorted ← sortNodes d evalFuel sorts nodes c.toXCtx
      forNodes q ss d genv f sorted 1 sorted.length body c0
    | .if_ test body => do
      let v ← eval d evalFuel test c.toXCtx
      if toBool v then execSeq q ss d genv f body c0 else some []
    | .choose whens otherwise => execChoose q ss d genv f whens otherwise c0
    | _ => none

/-- §7.1.4: instantiate the named attribute sets (used sets first); only top-level variables are visible -/
def useAttrSets (q : Quirks) (ss : Stylesheet) (d : Doc) (genv : List (String × Val)) :
    Nat → List String → Ctx → Option (List REv)
  | 0, _, _ => none
  | _+1, [], _ => some []
  | f+1, n :: ns, c => do
    -- all definitions of the name are merged: lowest import precedence first, so that an attribute of a
    -- definition with higher precedence (or later in the stylesheet) replaces the same attribute of a lower one
    let defs := (ss.attrSets.filter (·.name = n)).mergeSort fun x y => x.prec ≤ y.prec
    if defs.isEmpty then none else do
    let a ← useAttrDefs q ss d genv f defs c
    let b ← useAttrSets q ss d genv f ns c
    some (a ++ b)

def useAttrDefs (q : Quirks) (ss : Stylesheet) (d : Doc) (genv : List (String × Val)) :
    Nat → List AttrSet → Ctx → Option (List REv)
  | 0, _, _ => none
  | _+1, [], _ => some []
  | f+1, s :: rest, c => do
    let inherited ← useAttrSets q ss d genv f s.uses c
    let own ← execSeq q ss d genv f s.body { c with vars := genv, passed := [] }
    let more ← useAttrDefs q ss d genv f rest c
    some (inherited ++ own ++ more)

def execChoose (q : Quirks) (ss : Stylesheet) (d : Doc) (genv : List (String × Val)) :
    Nat → List Instr → List Instr → Ctx → Option (List REv)
  | 0, _, _, _ => none
  | f+1, [], otherwise, c => execSeq q ss d genv f otherwise c
  | f+1, w :: ws, otherwise, c =>
    match w with
    | .when test body => do
      let v ← eval d evalFuel test c.toXCtx
      if toBool v then execSeq q ss d genv f body c else execChoose q ss d genv f ws otherwise c
    | _ => none

def forNodes (q : Quirks) (ss : Stylesheet) (d : Doc) (genv : List (String × Val)) :
    Nat → List Nat → Nat → Nat → List Instr → Ctx → Option (List REv)
  | 0, _, _, _, _, _ => none
  | _+1, [], _, _, _, _ => some []
  | f+1, i :: rest, k, n, body, c => do
    let a ← execSeq q ss d genv f body { c with node := i, cur := i, pos := k, size := n, curPrec := none }
    let b ← forNodes q ss d genv f rest (k + 1) n body c
    some (a ++ b)

/-- §5.4 with the built-in rules of §5.8 when no rule matches.  `act` (only used by the `paramLeak`
switch) is the list of passed parameters already activated by an earlier template of this call. -/
def applyNodes (q : Quirks) (ss : Stylesheet) (d : Doc) (genv : List (String × Val)) :
    Nat → List Nat → Nat → Nat → Option String → List (String × Val) → List String → Option (List REv)
  | 0, _, _, _, _, _, _ => none
  | _+1, [], _, _, _, _, _ => some []
  | f+1, i :: rest, k, n, mode, passed, act =>
    match chooseTemplate ss d evalFuel i mode with
    | some t => do
      let leaked := if q.paramLeak then passed.filter (fun p => act.contains p.1) else []
      let a ← execSeq q ss d genv f t.body
          { keys := ss.keys, node := i, cur := i, pos := k, size := n, vars := leaked ++ genv, passed := passed, mode := mode,
            curPrec := some (t.prec, t.low) }
      let act' := act ++ (declaredParams t.body).filter (fun x => (passed.lookup x).isSome)
      let b ← applyNodes q ss d genv f rest (k + 1) n mode passed act'
      some (a ++ b)
    | none => do
      let a ← (match (d.node i).kind with
        | .root | .elem =>
          applyNodes q ss d genv f (d.children i) 1 (d.children i).length mode [] []
        | .text | .attr => some (if (d.node i).value.isEmpty then [] else [.text (d.node i).value])
        | _ => some [])
      let b ← applyNodes q ss d genv f rest (k + 1) n mode passed act
      some (a ++ b)
end

/-- global variables, evaluated in document order with the root as context (§11.4) -/
def globalsEnv (q : Quirks) (ss : Stylesheet) (d : Doc) : Nat → List Instr → List (String × Val) → Option (List (String × Val))
  | 0, _, _ => none
  | _+1, [], env => some env
  | f+1, g :: gs, env =>
    match g with
    | .variable x sel body | .param x sel body => do
      let v ← varValue q ss d env f sel body { keys := ss.keys, node := 0, vars := env }
      globalsEnv q ss d f gs ((x, v) :: env)
    | _ => none

/-! ### whitespace stripping (XSLT §3.4) -/

def isWsOnly (s : String) : Bool := !s.isEmpty && s.toList.all isWs

/-- §3.4, third bullet: the value of the nearest `xml:space` attribute on an ancestor element (`none` = no ancestor has one) -/
def xmlSpaceOf (d : Doc) (i : Nat) : Option String :=
  ((d.ancestors i).findSome? fun a =>
    ((d.attrs a).find? fun x => (d.node x).name = "xml:space").map fun x => (d.node x).value)

/-- is node `i` a whitespace-only text node whose parent element is named by the strip list? -/
def stripped (names : List String) (d : Doc) (i : Nat) : Bool :=
  let n := d.node i
  let p := d.node n.parent
  decide (n.kind = .text) && isWsOnly n.value && decide (p.kind = .elem) &&
    (names.contains "*" || names.any fun nm =>
        -- a NameTest: expanded with the stylesheet's declarations, no default namespace for an unprefixed name (§3.4, XPath §2.3)
        localOf nm == localOf p.name && (stylesheetNs.lookup (prefixOf nm)).getD "" == p.uri) &&
      (xmlSpaceOf d i != some "preserve")

/-- the source tree after stripping: the listed nodes are removed, the others keep their order -/
def stripDoc (names : List String) (d : Doc) : Doc :=
  if names.isEmpty then d else
  let keep := d.ids.filter fun i => !stripped names d i
  let newId (i : Nat) : Nat := (keep.filter (· < i)).length
  { nodes := (keep.map fun i => { d.node i with parent := newId (d.node i).parent }).toArray }

/-- §5.1: process a list containing just the root node, with the empty mode -/
def transformWith (q : Quirks) (ss : Stylesheet) (d0 : Doc) (fuel : Nat) : Option (List REv) := do
  let d := stripDoc ss.stripSpace d0
  let genv ← globalsEnv q ss d fuel ss.globals []
  let evs ← applyNodes q ss d genv fuel [0] 1 1 none [] []
  some (q.finish evs)

/-- **the specification** -/
def transform (ss : Stylesheet) (d : Doc) (fuel : Nat) : Option (List REv) :=
  transformWith Quirks.spec ss d fuel

end XalanModel.C01
