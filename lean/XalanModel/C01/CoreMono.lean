import XalanModel.C01.CoreProofs
namespace XalanModel.C01.Core

/-- more fuel never changes a defined result of the specification -/
theorem inst_mono_succ (P : Prog) (O : Oracle) : ∀ (f : Nat),
    (∀ a n tr, inst P O f a n = some tr → inst P O (f + 1) a n = some tr) ∧
    (∀ a i m n tr, instKids P O f a i m n = some tr → instKids P O (f + 1) a i m n = some tr) ∧
    (∀ a m ns tr, instNodes P O f a m ns = some tr → instNodes P O (f + 1) a m ns = some tr) ∧
    (∀ a ns tr, instTmpls P O f a ns = some tr → instTmpls P O (f + 1) a ns = some tr) := by
  intro f
  induction f with
  | zero =>
    refine ⟨?_, ?_, ?_, ?_⟩
    · intro a n tr h; simp [inst] at h
    · intro a i m n tr h; simp [instKids] at h
    · intro a m ns tr h; simp [instNodes] at h
    · intro a ns tr h; simp [instTmpls] at h
  | succ f ih =>
    obtain ⟨ihA, ihB, ihC, ihD⟩ := ih
    refine ⟨?_, ?_, ?_, ?_⟩
    · intro a n tr h
      rw [inst] at h ⊢
      cases hl : lookup P a with
      | none => simp [hl] at h
      | some nd =>
        simp only [hl] at h ⊢
        cases hk : nd.kind with
        | text => simpa [hk] using h
        | attr nm => simpa [hk] using h
        | emit => simpa [hk] using h
        | lre name =>
          simp only [hk, Option.map_eq_some_iff] at h ⊢
          obtain ⟨ks, hks, rfl⟩ := h
          exact ⟨ks, ihB _ _ _ _ _ hks, rfl⟩
        | block => simp only [hk] at h ⊢; exact ihB _ _ _ _ _ h
        | call t =>
          simp only [hk] at h ⊢
          cases htl : lookup P (t, []) with
          | none => simp [htl] at h
          | some tn =>
            simp only [htl, Option.map_eq_some_iff] at h ⊢
            obtain ⟨b, hb, rfl⟩ := h
            exact ⟨b, ihA _ _ _ hb, rfl⟩
        | choose =>
          simp only [hk] at h ⊢
          split at h
          · rename_i hlt
            simp only [hlt, if_true]
            cases hcl : lookup P (child a (O.branch a n)) with
            | none => simp [hcl] at h
            | some cn =>
              simp only [hcl, Option.map_eq_some_iff] at h ⊢
              obtain ⟨b, hb, rfl⟩ := h
              exact ⟨b, ihA _ _ _ hb, rfl⟩
          · rename_i hlt
            simpa [hlt] using h
        | forEach =>
          simp only [hk] at h ⊢
          split at h
          · rename_i he; simpa [he] using h
          · rename_i he; simp only [he, if_false]; exact ihC _ _ _ _ h
        | apply => simp only [hk] at h ⊢; exact ihD _ _ _ h
    · intro a i m n tr h
      rw [instKids] at h ⊢
      split at h
      · rename_i hi
        simp only [hi, if_true]
        cases hcl : lookup P (child a i) with
        | none => simp [hcl] at h
        | some cn =>
          cases hc : inst P O f (child a i) n with
          | none => simp [hcl, hc] at h
          | some c =>
            cases hr : instKids P O f a (i + 1) m n with
            | none => simp [hcl, hc, hr] at h
            | some r =>
              simp only [hcl, hc, hr] at h
              simp [ihA _ _ _ hc, ihB _ _ _ _ _ hr, h]
      · rename_i hi; simpa [hi] using h
    · intro a m ns tr h
      cases ns with
      | nil => simpa [instNodes] using h
      | cons n ns' =>
        rw [instNodes] at h ⊢
        cases hks : instKids P O f a 0 m n with
        | none => simp [hks] at h
        | some ks =>
          cases hrs : instNodes P O f a m ns' with
          | none => simp [hks, hrs] at h
          | some rs =>
            simp only [hks, hrs] at h
            simp [ihB _ _ _ _ _ hks, ihC _ _ _ _ hrs, h]
    · intro a ns tr h
      cases ns with
      | nil => simpa [instTmpls] using h
      | cons n ns' =>
        rw [instTmpls] at h ⊢
        cases htl : lookup P (O.tmpl a n, []) with
        | none => simp [htl] at h
        | some tn =>
          cases hb : inst P O f (O.tmpl a n, []) n with
          | none => simp [htl, hb] at h
          | some b =>
            cases hm : instTmpls P O f a ns' with
            | none => simp [htl, hb, hm] at h
            | some ms =>
              simp only [htl, hb, hm] at h
              simp [ihA _ _ _ hb, ihD _ _ _ hm, h]

end XalanModel.C01.Core

namespace XalanModel.C01.Core
theorem inst_mono (P : Prog) (O : Oracle) {f f' : Nat} (h : f ≤ f') :
    (∀ a n tr, inst P O f a n = some tr → inst P O f' a n = some tr) ∧
    (∀ a i m n tr, instKids P O f a i m n = some tr → instKids P O f' a i m n = some tr) ∧
    (∀ a m ns tr, instNodes P O f a m ns = some tr → instNodes P O f' a m ns = some tr) ∧
    (∀ a ns tr, instTmpls P O f a ns = some tr → instTmpls P O f' a ns = some tr) := by
  induction h with
  | refl => exact ⟨fun _ _ _ h => h, fun _ _ _ _ _ h => h, fun _ _ _ _ h => h, fun _ _ _ h => h⟩
  | step _ ih =>
    obtain ⟨a1, a2, a3, a4⟩ := ih
    obtain ⟨s1, s2, s3, s4⟩ := inst_mono_succ P O _
    exact ⟨fun a n tr h => s1 a n tr (a1 a n tr h), fun a i m n tr h => s2 a i m n tr (a2 a i m n tr h),
           fun a m ns tr h => s3 a m ns tr (a3 a m ns tr h), fun a ns tr h => s4 a ns tr (a4 a ns tr h)⟩
end XalanModel.C01.Core
