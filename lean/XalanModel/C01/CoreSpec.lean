import XalanModel.C01.Spec
import XalanModel.C01.CoreMono
/-!
# C01 — the Core oracle instantiated with the specification's XPath evaluator

`Core.lean` proves the engine model correct against a recursive specification for an *arbitrary* oracle.  Here the
oracle is built from `Spec.eval` / `chooseTemplateIdx` for a stylesheet of the fragment, and the recursive
specification `Core.inst` is related to the real specification `Spec.transform`: see `CoreSpecProofs.lean` and
`core_refines_spec` in `Props/C01.lean`.

A Core program `P` *represents* a stylesheet `ss` when every instruction of `ss` sits at an address of `P` with the
right kind and the right annotation `I a : Option Info` (what the oracle has to evaluate there) — the relations
`RepI` / `RepL` / `RepW`; the built-in rules are extra templates.  The driver builds `P` and `I` from the parsed
stylesheet (`Driver/C01_Core.lean`).
-/
namespace XalanModel.C01.CoreSpec
open XalanModel.C01 XalanModel.C01.Core

/-- what the oracle evaluates at an address -/
inductive Info
  | lit (s : String)                                -- literal text: the string itself
  | valueOf (e : Expr)                              -- xsl:value-of
  | tests (ts : List Expr)                          -- xsl:choose / xsl:if: the tests of the branches, in order
  | forEach (sel : Expr)
  | apply (sel : Option Expr) (mode : Option String)   -- xsl:apply-templates, and the one inside a built-in element rule
  | nodeValue                                       -- the value-of "." of the built-in text / attribute rule
  | avt (parts : List AvtPart)                      -- attribute value template of a literal result element's attribute
  | none_
deriving Inhabited

def xOf (n : SrcNode) : XCtx := { node := n.1, cur := n.1, pos := n.2.1, size := n.2.2 }

/-- a node list as the contexts its members are processed in -/
def numberFrom (l : List Nat) (k size : Nat) : List SrcNode :=
  match l with
  | [] => []
  | i :: rest => (i, k, size) :: numberFrom rest (k + 1) size

def isTrue (d : Doc) (t : Expr) (n : SrcNode) : Bool :=
  match eval d evalFuel t (xOf n) with
  | some v => toBool v
  | none => false

/-- index of the first test that holds (`ts.length` when none does) -/
def firstTrue (d : Doc) (n : SrcNode) : List Expr → Nat
  | [] => 0
  | t :: ts => if isTrue d t n then 0 else firstTrue d n ts + 1

structure Layout where
  nT : Nat                              -- number of stylesheet templates; built-in rules follow
  modes : List (Option String)          -- one built-in element rule per mode
  namedIdx : String → Nat               -- the template a call-template of that name enters

def Layout.builtinElem (L : Layout) (m : Option String) : Nat := L.nT + ((L.modes.findIdx? (· = m)).getD 0)
def Layout.builtinText (L : Layout) : Nat := L.nT + L.modes.length
def Layout.builtinNone (L : Layout) : Nat := L.nT + L.modes.length + 1

/-- the template rule for node `i` in mode `m` (§5.5, §5.8) as an index into the program -/
def tmplFor (ss : Stylesheet) (d : Doc) (L : Layout) (m : Option String) (i : Nat) : Nat :=
  match chooseTemplateIdx ss d evalFuel i m with
  | some (idx, _) => idx
  | none =>
    match (d.node i).kind with
    | .root | .elem => L.builtinElem m
    | .text | .attr => L.builtinText
    | _ => L.builtinNone

/-- **the oracle**: every answer is the specification's own evaluation -/
def oracleOf (ss : Stylesheet) (d : Doc) (L : Layout) (I : Addr → Info) : Oracle :=
  { sel := fun a n =>
      match I a with
      | .forEach e => (match eval d evalFuel e (xOf n) with | some (.ns l) => numberFrom l 1 l.length | _ => [])
      | .apply (some e) _ => (match eval d evalFuel e (xOf n) with | some (.ns l) => numberFrom l 1 l.length | _ => [])
      | .apply none _ => numberFrom (d.children n.1) 1 (d.children n.1).length
      | _ => []
    tmpl := fun a n =>
      match I a with
      | .apply _ m => tmplFor ss d L m n.1
      | _ => 0
    branch := fun a n =>
      match I a with
      | .tests ts => firstTrue d n ts
      | _ => 0
    str := fun a n =>
      match I a with
      | .lit s => s
      | .valueOf e => (match eval d evalFuel e (xOf n) with | some v => toStr d v | none => "")
      | .nodeValue => (d.node n.1).value
      | .avt parts => (evalAvt d evalFuel parts (xOf n)).getD ""
      | _ => "" }

/-! ## representation of a stylesheet of the fragment by a Core program -/

/-- the tests of the `xsl:when` children, in order -/
def whenTests : List Instr → List Expr
  | [] => []
  | .when t _ :: ws => t :: whenTests ws
  | _ :: ws => whenTests ws

/-- the attributes of a literal result element are the children `k, k+1, …` of `a` (kind `attr`, value = the AVT) -/
inductive RepA (P : Prog) (I : Addr → Info) : Addr → Nat → List (String × List AvtPart) → Prop
  | nil (a k) : RepA P I a k []
  | cons (a k an parts rest) : lookup P (child a k) = some (.mk (.attr (sheetName an)) []) → I (child a k) = .avt parts →
      RepA P I a (k + 1) rest → RepA P I a k ((an, parts) :: rest)

mutual
/-- instruction `i` sits at address `a` -/
inductive RepI (P : Prog) (I : Addr → Info) (L : Layout) : Addr → Instr → Prop
  | text (a s) : lookup P a = some (.mk .text []) → I a = .lit s → RepI P I L a (.text s)
  | valueOf (a e) : lookup P a = some (.mk .text []) → I a = .valueOf e → RepI P I L a (.valueOf e)
  | lre (a name attrs body ks) : lookup P a = some (.mk (.lre (sheetName name)) ks) → ks.length = attrs.length + body.length →
      RepA P I a 0 attrs → RepL P I L a attrs.length body → (∀ ns rest, body ≠ .useSets ns :: rest) →
      RepI P I L a (.lre name attrs body)
  | if_ (a test body ks) : lookup P a = some (.mk .choose [.mk .block ks]) → I a = .tests [test] →
      ks.length = body.length → RepL P I L (child a 0) 0 body → RepI P I L a (.if_ test body)
  | choose (a whens other ks) : lookup P a = some (.mk .choose ks) → ks.length = whens.length + 1 →
      RepW P I L a 0 whens other → I a = .tests (whenTests whens) → RepI P I L a (.choose whens other)
  | forEach (a sel body ks) : lookup P a = some (.mk .forEach ks) → ks.length = body.length → I a = .forEach sel →
      RepL P I L a 0 body → RepI P I L a (.forEach sel [] body)
  | apply (a sel mode) : lookup P a = some (.mk .apply []) → I a = .apply sel mode → mode ∈ L.modes →
      RepI P I L a (.applyTemplates sel mode [] [])
  | call (a name) : lookup P a = some (.mk (.call (L.namedIdx name)) []) → RepI P I L a (.callTemplate name [])
/-- the instructions `body` are the children `k, k+1, …` of `a` -/
inductive RepL (P : Prog) (I : Addr → Info) (L : Layout) : Addr → Nat → List Instr → Prop
  | nil (a k) : RepL P I L a k []
  | cons (a k i rest) : RepI P I L (child a k) i → RepL P I L a (k + 1) rest → RepL P I L a k (i :: rest)
/-- the branches of an xsl:choose: child `j` is a block holding the body of the j-th `xsl:when`; the child after the
last when is a block holding the `xsl:otherwise` (possibly empty) -/
inductive RepW (P : Prog) (I : Addr → Info) (L : Layout) : Addr → Nat → List Instr → List Instr → Prop
  | nil (a j other ks) : lookup P (child a j) = some (.mk .block ks) → ks.length = other.length →
      RepL P I L (child a j) 0 other → RepW P I L a j [] other
  | cons (a j test body ws other ks) : lookup P (child a j) = some (.mk .block ks) → ks.length = body.length →
      RepL P I L (child a j) 0 body → RepW P I L a (j + 1) ws other → RepW P I L a j (.when test body :: ws) other
end

end XalanModel.C01.CoreSpec
