import XalanModel.C01.Spec
/-!
# C01 — attribute value templates, from the raw attribute text (XSLT §7.6.2)

`avtLex` splits the attribute value into fixed parts and expression texts: outside an expression `{{` / `}}` stand for one
brace, a single `{` opens an expression, a single `}` is an error; inside an expression a `}` closes it, a `{` is an
error — **except inside a string literal** (either quote style), where every character up to the matching quote,
braces and the other quote included, is part of the literal (§7.6.2: "a right curly brace inside a Literal in an
expression is not recognized as terminating the expression").  `avtParse` parses the expression texts with `parseExpr`,
a recursive-descent parser for the expression forms the generator writes into raw templates (literals in both quote
styles, numbers, function calls, `.`, `@name`, `name`).
-/
namespace XalanModel.C01.Avt
open XalanModel.C01

/-- lexer state: in a fixed part; after a `{` / a `}` of a fixed part; in an expression; in a string literal (with its
quote) of an expression -/
inductive St | lit | lb | rb | expr | str (q : Char)

abbrev Part := Sum (List Char) (List Char)   -- fixed text | expression text

def isQuote (c : Char) : Bool := c == '\'' || c == '"'

/-- a finished fixed part is recorded only when not empty -/
def pushLit (cur : List Char) (out : List Part) : List Part := if cur.isEmpty then out else out ++ [.inl cur]

/-- one pass over the characters; `cur` = the part being collected, `out` = the finished parts -/
def lex : St → List Char → List Char → List Part → Option (List Part)
  | .lit, [], cur, out => some (pushLit cur out)
  | .lit, c :: r, cur, out =>
    if c = '{' then lex .lb r cur out
    else if c = '}' then lex .rb r cur out
    else lex .lit r (cur ++ [c]) out
  -- after `{`: a second `{` is the escape, anything else starts an expression
  | .lb, [], _, _ => none
  | .lb, c :: r, cur, out =>
    if c = '{' then lex .lit r (cur ++ ['{']) out
    else if c = '}' then lex .lit r [] (pushLit cur out ++ [.inr []])
    else if isQuote c then lex (.str c) r [c] (pushLit cur out)
    else lex .expr r [c] (pushLit cur out)
  -- after `}`: only the escape `}}` is allowed
  | .rb, [], _, _ => none
  | .rb, c :: r, cur, out => if c = '}' then lex .lit r (cur ++ ['}']) out else none
  | .expr, [], _, _ => none
  | .expr, c :: r, cur, out =>
    if c = '}' then lex .lit r [] (out ++ [.inr cur])
    else if c = '{' then none
    else if isQuote c then lex (.str c) r (cur ++ [c]) out
    else lex .expr r (cur ++ [c]) out
  | .str _, [], _, _ => none
  | .str q, c :: r, cur, out =>
    if c = q then lex .expr r (cur ++ [c]) out else lex (.str q) r (cur ++ [c]) out

def avtLex (s : List Char) : Option (List Part) := lex .lit s [] []

/-- **inside a string literal nothing is template syntax**: from the literal's opening quote on, the characters `s`
(anything but the quote itself: braces, doubled braces, the other quote) and the closing quote are appended to the
expression text verbatim, and lexing goes on in the expression -/
theorem lex_str_skip (q : Char) (s rest cur : List Char) (out : List Part) (hs : q ∉ s) :
    lex (.str q) (s ++ q :: rest) cur out = lex .expr rest (cur ++ s ++ [q]) out := by
  induction s generalizing cur with
  | nil => simp [lex]
  | cons c s ih =>
    have hc : c ≠ q := fun h => hs (by simp [h])
    have hs' : q ∉ s := fun h => hs (List.mem_cons_of_mem _ h)
    simp only [List.cons_append, lex, hc, if_false]
    rw [ih _ hs']
    simp

theorem lex_literal_in_expr (q : Char) (hq : isQuote q = true) (s rest cur : List Char) (out : List Part) (hs : q ∉ s) :
    lex .expr (q :: s ++ q :: rest) cur out = lex .expr rest (cur ++ q :: s ++ [q]) out := by
  have h1 : q ≠ '}' := by intro h; subst h; simp [isQuote] at hq
  have h2 : q ≠ '{' := by intro h; subst h; simp [isQuote] at hq
  simp only [List.cons_append, lex, h1, h2, if_false, hq, if_true]
  rw [lex_str_skip q s rest _ out hs]
  simp

/-- a whole template `{"…"}` / `{'…'}`: one expression part, the literal with its quotes, whatever braces it contains -/
theorem avtLex_literal (q : Char) (hq : isQuote q = true) (s : List Char) (hs : q ∉ s) :
    avtLex ('{' :: q :: s ++ [q, '}']) = some [.inr (q :: s ++ [q])] := by
  have h1 : q ≠ '}' := by intro h; subst h; simp [isQuote] at hq
  have h2 : q ≠ '{' := by intro h; subst h; simp [isQuote] at hq
  have h3 : s ++ [q, '}'] = s ++ q :: ['}'] := rfl
  simp only [avtLex, List.cons_append, lex, if_true, h1, h2, if_false, hq, pushLit, List.isEmpty_nil]
  rw [h3, lex_str_skip q s ['}'] _ _ hs]
  simp [lex, pushLit]

example : avtLex ['a', '{', '{', 'b', '}', '}', '{', 'f', '(', '"', '{', 'x', '}', '}', '\'', '"', ',', '\'', '{', '{', '"', '\'', ')', '}', '-', '{', '.', '}'] =
    some [.inl ['a', '{', 'b', '}'], .inr ['f', '(', '"', '{', 'x', '}', '}', '\'', '"', ',', '\'', '{', '{', '"', '\'', ')'], .inl ['-'], .inr ['.']] := by
  decide

/-! ## the expressions of raw templates -/

def isNameChar (c : Char) : Bool := c.isAlphanum || c == '-' || c == '_' || c == ':'

def skipWs : List Char → List Char
  | c :: r => if c = ' ' then skipWs r else c :: r
  | [] => []

def takeStr (q : Char) : List Char → Option (List Char × List Char)
  | [] => none
  | c :: r => if c = q then some ([], r) else (takeStr q r).map fun x => (c :: x.1, x.2)

mutual
/-- Literal | Number | name '(' args ')' | '.' | '@' name | name -/
def parseE : Nat → List Char → Option (Expr × List Char)
  | 0, _ => none
  | f+1, s =>
    match skipWs s with
    | [] => none
    | c :: r =>
      if isQuote c then (takeStr c r).map fun x => (Expr.lit (String.ofList x.1), x.2)
      else if c.isDigit then
        let ds := (c :: r).takeWhile Char.isDigit
        some (Expr.num (String.ofList ds).toNat!, (c :: r).dropWhile Char.isDigit)
      else if c = '.' then some (Expr.ctx, r)
      else if c = '@' then
        let nm := r.takeWhile isNameChar
        if nm.isEmpty then none else some (Expr.step .ctx .attribute (.name (String.ofList nm)) [], r.dropWhile isNameChar)
      else if isNameChar c then
        let nm := (c :: r).takeWhile isNameChar
        match skipWs ((c :: r).dropWhile isNameChar) with
        | '(' :: r2 =>
          (match skipWs r2 with
           | ')' :: r3 => some (Expr.fn (String.ofList nm) [], r3)
           | _ => (parseArgs f r2).map fun x => (Expr.fn (String.ofList nm) x.1, x.2))
        | rest => some (Expr.step .ctx .child (.name (String.ofList nm)) [], rest)
      else none
/-- Expr (',' Expr)* ')' -/
def parseArgs : Nat → List Char → Option (List Expr × List Char)
  | 0, _ => none
  | f+1, s =>
    match parseE f s with
    | none => none
    | some (e, r) =>
      match skipWs r with
      | ',' :: r2 => (parseArgs f r2).map fun x => (e :: x.1, x.2)
      | ')' :: r2 => some ([e], r2)
      | _ => none
end

def parseExpr (s : List Char) : Option Expr :=
  match parseE (s.length + 1) s with
  | some (e, r) => if (skipWs r).isEmpty then some e else none
  | none => none

/-- **§7.6.2**: the parts of an attribute value template, from the attribute's text -/
def avtParse (s : String) : Option (List (Sum String Expr)) :=
  (avtLex s.toList).bind fun ps => ps.mapM fun p =>
    match p with
    | .inl t => some (.inl (String.ofList t))
    | .inr e => (parseExpr e).map .inr

def toParts (ps : List (Sum String Expr)) : List AvtPart :=
  ps.map fun p => match p with | .inl t => .lit t | .inr e => .expr e

/-- `avtParse`: a template that is one string literal in either quote style is that literal, braces and all -/
theorem avtParse_literal (q : Char) (hq : isQuote q = true) (s : List Char) (hs : q ∉ s) :
    avtParse (String.ofList ('{' :: q :: s ++ [q, '}'])) = some [.inr (.lit (String.ofList s))] := by
  have h1 : takeStr q (s ++ [q]) = some (s, []) := by
    induction s with
    | nil => simp [takeStr]
    | cons c s ih =>
      have hc : c ≠ q := fun h => hs (by simp [h])
      have hs' : q ∉ s := fun h => hs (List.mem_cons_of_mem _ h)
      simp [takeStr, hc, ih hs']
  have hsp : q ≠ ' ' := by intro h; subst h; simp [isQuote] at hq
  have h2 : parseExpr (q :: s ++ [q]) = some (.lit (String.ofList s)) := by
    simp [parseExpr, parseE, skipWs, hsp, hq, h1]
  have hl := avtLex_literal q hq s hs
  simp only [List.cons_append] at hl h2
  simp [avtParse, hl, h2]

end XalanModel.C01.Avt
