/-!
# C01 — the iterative instruction walker

`ElemTemplateElement::execute` (src/xalanc/XSLT/ElemTemplateElement.cpp:240-285) runs a whole template
body without C++ recursion: `startElement` returns the first child to run (or 0), `endElement` closes an
element, `getInvoker` says who invoked it (its parent — or, for an `xsl:template`, the top of the
*invoker stack*, because a template is entered from `xsl:call-template` / `xsl:apply-templates` /
a direct template and has no parent pointer to return to), `getNextChildElemToExecute` asks the invoker
for the next element.

Model: a program is a list of templates; an instruction is
* `leaf` — `startElement` returns 0 (value-of, text, copy-of, with-param/variable with select, …);
* `block` — children run once, in order (xsl:template, literal result elements, xsl:element, xsl:if
  taken, with-param/variable with content, …; ElemTemplateElement.cpp:1596-1640);
* `call t` — ElemCallTemplate.cpp:122-190: pushes itself on the invoker stack, runs its `xsl:with-param`
  children, then the template `t`; `getNextChildElemToExecute` returns 0 when the element that just ended
  *is* the template; `endElement` pops the invoker.  An element with a *direct template*
  (`hasDirectTemplate()`, ElemTemplateElement.cpp:1621-1632: pushInvoker(this), return m_directTemplate;
  getNextChild = 0; endExecuteChildren pops) follows the same protocol as a `call` without children;
* `loop r` — ElemForEach.cpp:190-262 over a node list of `r` nodes: the children run once per node;
  `getNextChildElemToExecute` returns the next sibling, or asks `getNextNodeToTransform` and restarts with
  the first child; nothing runs when the list is empty or there are no children;
* `pick i` — ElemChoose.cpp:95-158: `startElement` evaluates the tests and returns the one `xsl:when` /
  `xsl:otherwise` child to run (child `i`, or none when `i` is out of range); `getNextChildElemToExecute`
  returns 0;
* `uses ts` — ElemUse.cpp:95-200 (literal result elements, xsl:element, xsl:copy and xsl:attribute-set with
  `use-attribute-sets`): pushes itself on the invoker stack, runs the named attribute sets `ts` (top-level
  elements whose `getInvoker` is the stack top, like templates), then its own children;
  `getNextChildElemToExecute` first asks for the next attribute set, and when the element that just ended *is* an
  attribute set and there is none left, starts the first child; `endElement` pops the invoker;
* `apply ts` — ElemApplyTemplates.cpp:133-260: pushes itself on the invoker stack, runs its with-param
  children, then for each selected node the template found for it (`ts`, one template index per node);
  when a *template* ends it looks up the next one (`findNextTemplateToExecute`).
The per-node-list cursor of the real engine (`m_nodesToTransformStack`) is the `iters` stack.  Which
template a node selects, how many nodes a select yields and whether an xsl:if is taken are data; they
are parameters of the tree here (`ts`, `r`, block-or-leaf), so the theorem quantifies over all of them.
Elements are addressed by template index and child path (innermost index first), which plays the role of
the `ElemTemplateElement*` with its parent / sibling pointers.  Core Lean only.
-/
namespace XalanModel.C01.Walker

inductive Kind | leaf | block | call (target : Nat) | loop (n : Nat) | apply (targets : List Nat) | pick (i : Nat)
  | uses (sets : List Nat)
deriving DecidableEq, Repr, Inhabited

inductive Node | mk (kind : Kind) (kids : List Node)
deriving Inhabited

def Node.kind : Node → Kind | .mk k _ => k
def Node.kids : Node → List Node | .mk _ ks => ks

abbrev Prog := List Node
abbrev Addr := Nat × List Nat

def Node.get : Node → List Nat → Option Node
  | n, [] => some n
  | n, i :: p => match n.kids[i]? with
    | some c => c.get p
    | none => none

def lookup (P : Prog) (a : Addr) : Option Node := (P[a.1]?).bind fun n => n.get a.2.reverse

def child (a : Addr) (i : Nat) : Addr := (a.1, i :: a.2)

inductive Ev | start (a : Addr) | stop (a : Addr)
deriving DecidableEq, Repr

mutual
def recBody (P : Prog) : Nat → Addr → Option (List Ev)
  | 0, _ => none
  | f+1, a =>
    match lookup P a with
    | none => none
    | some n =>
      match n.kind with
      | .leaf => some [.start a]
      | .block => (recKids P f a 0 n.kids.length).map fun ks => Ev.start a :: ks
      | .call t =>
        match recKids P f a 0 n.kids.length, recBody P f (t, []) with
        | some ps, some b => some (Ev.start a :: (ps ++ (b ++ [Ev.stop (t, [])])))
        | _, _ => none
      | .loop r =>
        if n.kids.length = 0 then some [.start a]
        else (recIters P f a r n.kids.length).map fun ks => Ev.start a :: ks
      | .apply ts =>
        match recKids P f a 0 n.kids.length, recTemplates P f ts with
        | some ps, some bs => some (Ev.start a :: (ps ++ bs))
        | _, _ => none
      | .pick i =>
        if i < n.kids.length then
          (recBody P f (child a i)).map fun c => Ev.start a :: (c ++ [Ev.stop (child a i)])
        else some [.start a]
      | .uses ts =>
        match recTemplates P f ts, recKids P f a 0 n.kids.length with
        | some bs, some ks => some (Ev.start a :: (bs ++ ks))
        | _, _ => none
def recKids (P : Prog) : Nat → Addr → Nat → Nat → Option (List Ev)
  | 0, _, _, _ => none
  | f+1, a, i, m =>
    if i < m then
      match recBody P f (child a i), recKids P f a (i + 1) m with
      | some c, some r => some (c ++ (Ev.stop (child a i) :: r))
      | _, _ => none
    else some []
/-- `r` more passes over the `m` children of the for-each `a` -/
def recIters (P : Prog) : Nat → Addr → Nat → Nat → Option (List Ev)
  | 0, _, _, _ => none
  | f+1, a, r, m =>
    match r with
    | 0 => some []
    | r'+1 =>
      match recKids P f a 0 m, recIters P f a r' m with
      | some ks, some rest => some (ks ++ rest)
      | _, _ => none
/-- the templates instantiated by an apply-templates, one per selected node -/
def recTemplates (P : Prog) : Nat → List Nat → Option (List Ev)
  | 0, _ => none
  | _+1, [] => some []
  | f+1, t :: ts =>
    match recBody P f (t, []), recTemplates P f ts with
    | some b, some rest => some (b ++ (Ev.stop (t, []) :: rest))
    | _, _ => none
end

def recRun (P : Prog) (fuel : Nat) (t0 : Nat) : Option (List Ev) :=
  (recBody P fuel (t0, [])).map fun b => b ++ [Ev.stop (t0, [])]

inductive Phase | starting (a : Addr) | ending (a : Addr) | done
deriving DecidableEq, Repr

structure St where
  phase : Phase
  stack : List (Option Addr)      -- m_elementInvokerStack, top first
  iters : List Nat                -- m_nodesToTransformStack: nodes consumed so far, per open node list
  trace : List Ev
deriving DecidableEq, Repr

def pushIf (k : Kind) (a : Addr) (stk : List (Option Addr)) : List (Option Addr) :=
  match k with
  | .call _ => some a :: stk
  | .apply _ => some a :: stk
  | .uses _ => some a :: stk
  | _ => stk

def popIf (k : Kind) (stk : List (Option Addr)) : List (Option Addr) :=
  match k with
  | .call _ => stk.tail
  | .apply _ => stk.tail
  | .uses _ => stk.tail
  | _ => stk

/-- `getNextNodeToTransform` on the innermost node list of size `n` -/
def nextNode (n : Nat) (its : List Nat) : Bool × List Nat :=
  match its with
  | c :: r => if c < n then (true, (c + 1) :: r) else (false, c :: r)
  | [] => (false, [])

/-- `findNextTemplateToExecute`: the template for the next selected node, if any -/
def nextTemplate (ts : List Nat) (its : List Nat) : Option Addr × List Nat :=
  match its with
  | c :: r => match ts[c]? with
    | some t => (some (t, []), (c + 1) :: r)
    | none => (none, c :: r)
  | [] => (none, [])

/-- what `startElement` returns, and the node-list stack after it -/
def startNext (n : Node) (a : Addr) (its : List Nat) : Option Addr × List Nat :=
  match n.kind with
  | .leaf => (none, its)
  | .block => (if n.kids.isEmpty then none else some (child a 0), its)
  | .call t => (if n.kids.isEmpty then some (t, []) else some (child a 0), its)
  | .loop r =>
    if n.kids.isEmpty then (none, its)
    else
      let (more, its') := nextNode r (0 :: its)
      (if more then some (child a 0) else none, its')
  | .apply ts =>
    if n.kids.isEmpty then nextTemplate ts (0 :: its)
    else (some (child a 0), its)
  | .pick i => (if i < n.kids.length then some (child a i) else none, its)
  | .uses ts =>
    ((match (nextTemplate ts (0 :: its)).1 with
      | some t => some t
      | none => if n.kids.isEmpty then none else some (child a 0)), (nextTemplate ts (0 :: its)).2)

/-- node-list stack effect of `endElement` -/
def popIters (n : Node) (its : List Nat) : List Nat :=
  match n.kind with
  | .loop _ => if n.kids.isEmpty then its else its.tail
  | .apply _ => its.tail
  | .uses _ => its.tail
  | _ => its

def getInvoker (a : Addr) (stk : List (Option Addr)) : Option Addr :=
  match a.2 with
  | [] => stk.headD none
  | _ :: p => some (a.1, p)

def nextSibling (P : Prog) (c : Addr) : Option Addr :=
  match c.2 with
  | [] => none
  | i :: p => match lookup P (c.1, (i + 1) :: p) with
    | some _ => some (c.1, (i + 1) :: p)
    | none => none

def getNextChild (P : Prog) (inv cur : Addr) (its : List Nat) : Option Addr × List Nat :=
  match lookup P inv with
  | none => (none, its)
  | some n =>
    match n.kind with
    | .leaf => (none, its)
    | .block => (nextSibling P cur, its)
    | .call t =>
      if cur = (t, []) then (none, its)
      else match nextSibling P cur with
        | some s => (some s, its)
        | none => (some (t, []), its)
    | .loop r =>
      match nextSibling P cur with
      | some s => (some s, its)
      | none =>
        let (more, its') := nextNode r its
        (if more then some (child inv 0) else none, its')
    | .pick _ => (none, its)
    | .uses ts =>
      ((match (nextTemplate ts its).1 with
        | some t => some t
        | none =>
          match cur.2 with
          | [] => if n.kids.isEmpty then none else some (child inv 0)
          | _ :: _ => nextSibling P cur), (nextTemplate ts its).2)
    | .apply ts =>
      match cur.2 with
      | [] => nextTemplate ts its
      | _ :: _ =>
        match nextSibling P cur with
        | some s => (some s, its)
        | none => nextTemplate ts (0 :: its)

def step (P : Prog) (s : St) : St :=
  match s.phase with
  | .done => s
  | .starting a =>
    match lookup P a with
    | none => { s with phase := .done }
    | some n =>
      { phase := (match (startNext n a s.iters).1 with
                  | some c => .starting c
                  | none => .ending a),
        stack := pushIf n.kind a s.stack, iters := (startNext n a s.iters).2, trace := s.trace ++ [.start a] }
  | .ending a =>
    match lookup P a with
    | none => { s with phase := .done }
    | some n =>
      let stk := popIf n.kind s.stack
      let its := popIters n s.iters
      let tr := s.trace ++ [.stop a]
      match getInvoker a stk with
      | none => { phase := .done, stack := stk, iters := its, trace := tr }
      | some l =>
        match (getNextChild P l a its).1 with
        | some c => { phase := .starting c, stack := stk, iters := (getNextChild P l a its).2, trace := tr }
        | none => { phase := .ending l, stack := stk, iters := (getNextChild P l a its).2, trace := tr }

def iter (P : Prog) : Nat → St → St
  | 0, s => s
  | n+1, s => iter P n (step P s)

def execute (P : Prog) (n : Nat) (t0 : Nat) (stk : List (Option Addr)) (its : List Nat) :
    Option (List Ev × List (Option Addr) × List Nat) :=
  let s := iter P n ⟨.starting (t0, []), none :: stk, its, []⟩
  if s.phase = .done then some (s.trace, s.stack.tail, s.iters) else none









end XalanModel.C01.Walker
