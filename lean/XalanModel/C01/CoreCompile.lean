import XalanModel.C01.CoreSpecProofs
/-!
# C01 — a total compiler from the specification's stylesheets to Core programs, proved to establish `Represents`

`compile ss` is the Core program of a stylesheet (one `block` per template, then one built-in element rule per mode, the
built-in text rule, the empty built-in rule); `infoOf ss` is the annotation (what the oracle evaluates at each address),
read off an annotated copy of the same tree (`ANode`), `layoutOf ss` says where the built-in rules and the named
templates are.  `inFragment ss` is the decidable fragment test.  `represents_compile`: for every stylesheet with
`inFragment ss = true` and every document, `Represents (compile ss) (infoOf ss) (layoutOf ss) ss d` — by mutual structural
recursion over instructions / instruction lists / `xsl:when` lists (`repI_comp`, `repL_comp`, `repW_comp`).
With `core_refines_spec` this gives `core_refines_spec_total` (Props): no hypothesis about a program is left.
-/
namespace XalanModel.C01.CoreSpec
open XalanModel.C01 XalanModel.C01.Core

/-- a Core node together with what the oracle evaluates there -/
inductive ANode | mk (kind : Kind) (info : Info) (kids : List ANode)
deriving Inhabited

def ANode.kind : ANode → Kind | .mk k _ _ => k
def ANode.info : ANode → Info | .mk _ i _ => i
def ANode.kids : ANode → List ANode | .mk _ _ ks => ks

mutual
def ANode.erase : ANode → Node
  | .mk k _ ks => .mk k (eraseL ks)
def eraseL : List ANode → List Node
  | [] => []
  | n :: r => n.erase :: eraseL r
end

def ANode.get : ANode → List Nat → Option ANode
  | n, [] => some n
  | n, i :: p => match n.kids[i]? with
    | some c => c.get p
    | none => none

/-- the `attr` children of a literal result element -/
def compAttrs (attrs : List (String × List AvtPart)) : List ANode :=
  attrs.map fun x => .mk (.attr (sheetName x.1)) (.avt x.2) []

mutual
/-- the Core instruction for an instruction of the fragment -/
def compI (L : Layout) : Instr → ANode
  | .text s => .mk .text (.lit s) []
  | .valueOf e => .mk .text (.valueOf e) []
  | .lre name attrs body => .mk (.lre (sheetName name)) .none_ (compAttrs attrs ++ compL L body)
  | .if_ t body => .mk .choose (.tests [t]) [.mk .block .none_ (compL L body)]
  | .choose ws o => .mk .choose (.tests (whenTests ws)) (compW L ws ++ [.mk .block .none_ (compL L o)])
  | .forEach sel _ body => .mk .forEach (.forEach sel) (compL L body)
  | .applyTemplates sel m _ _ => .mk .apply (.apply sel m) []
  | .callTemplate name _ => .mk (.call (L.namedIdx name)) .none_ []
  | _ => .mk .block .none_ []
def compL (L : Layout) : List Instr → List ANode
  | [] => []
  | i :: r => compI L i :: compL L r
def compW (L : Layout) : List Instr → List ANode
  | [] => []
  | .when _ b :: ws => .mk .block .none_ (compL L b) :: compW L ws
  | _ :: ws => compW L ws
end

mutual
/-- is the instruction inside the fragment (`modes` = the modes that have a built-in element rule)? -/
def fragI (modes : List (Option String)) : Instr → Bool
  | .text _ => true
  | .valueOf _ => true
  | .lre _ _ body => (match body with | .useSets _ :: _ => false | _ => true) && fragL modes body
  | .if_ _ body => fragL modes body
  | .choose ws o => fragW modes ws && fragL modes o
  | .forEach _ sorts body => sorts.isEmpty && fragL modes body
  | .applyTemplates _ m sorts params => sorts.isEmpty && params.isEmpty && modes.contains m
  | .callTemplate _ params => params.isEmpty
  | _ => false
def fragL (modes : List (Option String)) : List Instr → Bool
  | [] => true
  | i :: r => fragI modes i && fragL modes r
def fragW (modes : List (Option String)) : List Instr → Bool
  | [] => true
  | .when _ b :: ws => fragL modes b && fragW modes ws
  | _ :: _ => false
end

def lookupA (AP : List ANode) (a : Addr) : Option ANode := (AP[a.1]?).bind fun n => n.get a.2.reverse

/-- the annotation read off the annotated program -/
def infoAt (AP : List ANode) (a : Addr) : Info :=
  match lookupA AP a with
  | some n => n.info
  | none => .none_

theorem ANode.get_append (n : ANode) (p : List Nat) (i : Nat) :
    n.get (p ++ [i]) = (n.get p).bind fun m => m.kids[i]? := by
  induction p generalizing n with
  | nil =>
    simp only [List.nil_append, ANode.get]
    cases h : n.kids[i]? with
    | none => simp [h]
    | some c => simp [ANode.get, h]
  | cons j p ih =>
    simp only [List.cons_append, ANode.get]
    cases n.kids[j]? with
    | none => simp
    | some c => simpa using ih c

theorem lookupA_child (AP : List ANode) (a : Addr) (i : Nat) :
    lookupA AP (child a i) = (lookupA AP a).bind fun m => m.kids[i]? := by
  simp only [lookupA, child, List.reverse_cons]
  cases AP[a.1]? with
  | none => simp
  | some n => simp [ANode.get_append]

theorem eraseL_getElem? (ks : List ANode) (i : Nat) : (eraseL ks)[i]? = (ks[i]?).map ANode.erase := by
  induction ks generalizing i with
  | nil => simp [eraseL]
  | cons k ks ih => cases i with
    | zero => simp [eraseL]
    | succ i => simp [eraseL, ih]

theorem eraseL_length (ks : List ANode) : (eraseL ks).length = ks.length := by
  induction ks with
  | nil => simp [eraseL]
  | cons k ks ih => simp [eraseL, ih]

theorem erase_kids (n : ANode) : n.erase.kids = eraseL n.kids := by
  cases n; simp [ANode.erase, Node.kids, ANode.kids]

theorem erase_get (n : ANode) (p : List Nat) : n.erase.get p = (n.get p).map ANode.erase := by
  induction p generalizing n with
  | nil => simp [Node.get, ANode.get]
  | cons i p ih =>
    simp only [Node.get, ANode.get, erase_kids, eraseL_getElem?]
    cases n.kids[i]? with
    | none => simp
    | some c => simpa using ih c

theorem lookup_erase (AP : List ANode) (a : Addr) : lookup (eraseL AP) a = (lookupA AP a).map ANode.erase := by
  simp only [lookup, lookupA, eraseL_getElem?]
  cases AP[a.1]? with
  | none => simp
  | some n => simp [erase_get]

theorem compL_length (L : Layout) (body : List Instr) : (compL L body).length = body.length := by
  induction body with
  | nil => simp [compL]
  | cons i r ih => simp [compL, ih]

theorem compW_length (L : Layout) (modes : List (Option String)) (ws : List Instr) (h : fragW modes ws = true) :
    (compW L ws).length = ws.length := by
  induction ws with
  | nil => simp [compW]
  | cons w ws ih =>
    cases w <;> simp [fragW] at h
    simp [compW, ih h.2]

theorem drop_cons_inv {α : Type} {l : List α} {k : Nat} {x : α} {r : List α} (h : l.drop k = x :: r) :
    l[k]? = some x ∧ l.drop (k + 1) = r := by
  induction l generalizing k with
  | nil => simp at h
  | cons y ys ih =>
    cases k with
    | zero => simp at h; simp [h]
    | succ k => simp at h; simpa using ih h

section
variable (L : Layout) (AP : List ANode)

theorem lookup_of_lookupA {a : Addr} {n : ANode} (h : lookupA AP a = some n) :
    lookup (eraseL AP) a = some (.mk n.kind (eraseL n.kids)) := by
  rw [lookup_erase, h]; cases n; simp [ANode.erase, ANode.kind, ANode.kids]

theorem info_of_lookupA {a : Addr} {n : ANode} (h : lookupA AP a = some n) : infoAt AP a = n.info := by
  simp [infoAt, h]

theorem lookupA_kid {a : Addr} {n c : ANode} {k : Nat} (h : lookupA AP a = some n) (hc : n.kids[k]? = some c) :
    lookupA AP (child a k) = some c := by
  rw [lookupA_child, h]; simpa using hc

theorem repA_comp : ∀ (attrs : List (String × List AvtPart)) (a : Addr) (k : Nat) (nd : ANode) (rest : List ANode),
    lookupA AP a = some nd → nd.kids.drop k = compAttrs attrs ++ rest → RepA (eraseL AP) (infoAt AP) a k attrs
  | [], a, k, _, _, _, _ => .nil a k
  | (an, parts) :: more, a, k, nd, rest, hl, hd => by
    simp only [compAttrs, List.map_cons, List.cons_append] at hd
    obtain ⟨hk, hr⟩ := drop_cons_inv hd
    have hc := lookupA_kid AP hl hk
    exact .cons a k an parts more (by simpa [ANode.kind, ANode.kids, eraseL] using lookup_of_lookupA AP hc)
      (by simpa [ANode.info] using info_of_lookupA AP hc) (repA_comp more a (k + 1) nd rest hl hr)

mutual
theorem repI_comp : ∀ (i : Instr) (a : Addr), fragI L.modes i = true → lookupA AP a = some (compI L i) →
    RepI (eraseL AP) (infoAt AP) L a i
  | .text s, a, _, hl => by
    simp only [compI] at hl
    exact .text a s (by simpa [ANode.kind, ANode.kids, eraseL] using lookup_of_lookupA AP hl) (by simpa [ANode.info] using info_of_lookupA AP hl)
  | .valueOf e, a, _, hl => by
    simp only [compI] at hl
    exact .valueOf a e (by simpa [ANode.kind, ANode.kids, eraseL] using lookup_of_lookupA AP hl) (by simpa [ANode.info] using info_of_lookupA AP hl)
  | .lre name attrs body, a, hf, hl => by
    simp only [fragI, Bool.and_eq_true] at hf
    obtain ⟨hns, hfb⟩ := hf
    simp only [compI] at hl
    refine .lre a name attrs body (eraseL (compAttrs attrs ++ compL L body))
      (by simpa [ANode.kind, ANode.kids] using lookup_of_lookupA AP hl)
      (by simp [eraseL_length, compL_length, compAttrs])
      (repA_comp AP attrs a 0 _ (compL L body) hl (by simp [ANode.kids]))
      (repL_comp body a attrs.length _ hfb hl (by simp [ANode.kids, compAttrs])) ?_
    intro ns rest hb
    subst hb
    simp at hns
  | .if_ t body, a, hf, hl => by
    simp only [fragI] at hf
    simp only [compI] at hl
    have hc : lookupA AP (child a 0) = some (.mk .block .none_ (compL L body)) := lookupA_kid AP hl (by simp [ANode.kids])
    exact .if_ a t body (eraseL (compL L body))
      (by simpa [ANode.kind, ANode.kids, eraseL, ANode.erase] using lookup_of_lookupA AP hl)
      (by simpa [ANode.info] using info_of_lookupA AP hl) (by simp [eraseL_length, compL_length])
      (repL_comp body (child a 0) 0 _ hf hc (by simp [ANode.kids]))
  | .choose ws o, a, hf, hl => by
    simp only [fragI, Bool.and_eq_true] at hf
    simp only [compI] at hl
    exact .choose a ws o (eraseL (compW L ws ++ [.mk .block .none_ (compL L o)]))
      (by simpa [ANode.kind, ANode.kids] using lookup_of_lookupA AP hl)
      (by simp [eraseL_length, compW_length L L.modes ws hf.1])
      (repW_comp ws o a 0 _ hf.1 (fun a' hc => repL_comp o a' 0 _ hf.2 hc (by simp [ANode.kids])) hl (by simp [ANode.kids]))
      (by simpa [ANode.info] using info_of_lookupA AP hl)
  | .forEach sel sorts body, a, hf, hl => by
    simp only [fragI, Bool.and_eq_true, List.isEmpty_iff] at hf
    obtain ⟨hs, hfb⟩ := hf
    subst hs
    simp only [compI] at hl
    exact .forEach a sel body (eraseL (compL L body)) (by simpa [ANode.kind, ANode.kids] using lookup_of_lookupA AP hl)
      (by simp [eraseL_length, compL_length]) (by simpa [ANode.info] using info_of_lookupA AP hl)
      (repL_comp body a 0 _ hfb hl (by simp [ANode.kids]))
  | .applyTemplates sel m sorts params, a, hf, hl => by
    simp only [fragI, Bool.and_eq_true, List.isEmpty_iff] at hf
    obtain ⟨⟨hs, hp⟩, hm⟩ := hf
    subst hs; subst hp
    simp only [compI] at hl
    exact .apply a sel m (by simpa [ANode.kind, ANode.kids, eraseL] using lookup_of_lookupA AP hl)
      (by simpa [ANode.info] using info_of_lookupA AP hl) (by simpa using hm)
  | .callTemplate name params, a, hf, hl => by
    simp only [fragI, List.isEmpty_iff] at hf
    subst hf
    simp only [compI] at hl
    exact .call a name (by simpa [ANode.kind, ANode.kids, eraseL] using lookup_of_lookupA AP hl)
  | .element .., _, hf, _ | .attribute .., _, hf, _ | .elementNs .., _, hf, _ | .attributeNs .., _, hf, _
  | .comment .., _, hf, _ | .pi .., _, hf, _ | .copy .., _, hf, _ | .copyOf .., _, hf, _ | .when .., _, hf, _
  | .variable .., _, hf, _ | .param .., _, hf, _ | .withParam .., _, hf, _ | .useSets .., _, hf, _
  | .number .., _, hf, _ | .applyImports, _, hf, _ => by simp [fragI] at hf
theorem repL_comp : ∀ (body : List Instr) (a : Addr) (k : Nat) (nd : ANode), fragL L.modes body = true →
    lookupA AP a = some nd → nd.kids.drop k = compL L body → RepL (eraseL AP) (infoAt AP) L a k body
  | [], a, k, _, _, _, _ => .nil a k
  | i :: rest, a, k, nd, hf, hl, hd => by
    simp only [fragL, Bool.and_eq_true] at hf
    simp only [compL] at hd
    obtain ⟨hk, hr⟩ := drop_cons_inv hd
    exact .cons a k i rest (repI_comp i (child a k) hf.1 (lookupA_kid AP hl hk)) (repL_comp rest a (k + 1) nd hf.2 hl hr)
theorem repW_comp : ∀ (ws other : List Instr) (a : Addr) (j : Nat) (nd : ANode), fragW L.modes ws = true →
    (∀ a', lookupA AP a' = some (.mk .block .none_ (compL L other)) → RepL (eraseL AP) (infoAt AP) L a' 0 other) →
    lookupA AP a = some nd →
    nd.kids.drop j = compW L ws ++ [.mk .block .none_ (compL L other)] → RepW (eraseL AP) (infoAt AP) L a j ws other
  | [], other, a, j, nd, _, hfo, hl, hd => by
    simp only [compW, List.nil_append] at hd
    obtain ⟨hk, _⟩ := drop_cons_inv hd
    have hc := lookupA_kid AP hl hk
    exact .nil a j other (eraseL (compL L other)) (by simpa [ANode.kind, ANode.kids] using lookup_of_lookupA AP hc)
      (by simp [eraseL_length, compL_length]) (hfo (child a j) hc)
  | .when t b :: ws, other, a, j, nd, hf, hfo, hl, hd => by
    simp only [fragW, Bool.and_eq_true] at hf
    simp only [compW, List.cons_append] at hd
    obtain ⟨hk, hr⟩ := drop_cons_inv hd
    have hc := lookupA_kid AP hl hk
    exact .cons a j t b ws other (eraseL (compL L b)) (by simpa [ANode.kind, ANode.kids] using lookup_of_lookupA AP hc)
      (by simp [eraseL_length, compL_length]) (repL_comp b (child a j) 0 _ hf.1 hc (by simp [ANode.kids]))
      (repW_comp ws other a (j + 1) nd hf.2 hfo hl hr)
  | .text _ :: _, _, _, _, _, hf, _, _, _ => by simp [fragW] at hf
end
end

/-! ## the compiler and its correctness: `Represents` holds for every stylesheet of the fragment -/

mutual
def modesI : Instr → List (Option String)
  | .lre _ _ body => modesL body
  | .if_ _ body => modesL body
  | .choose ws o => modesL ws ++ modesL o
  | .when _ body => modesL body
  | .forEach _ _ body => modesL body
  | .applyTemplates _ m _ _ => [m]
  | _ => []
def modesL : List Instr → List (Option String)
  | [] => []
  | i :: r => modesI i ++ modesL r
end

def namedStep (acc : Option (Template × Nat)) (p : Template × Nat) : Option (Template × Nat) :=
  match acc with
  | none => some p
  | some b => if p.1.prec ≥ b.1.prec then some p else some b

/-- position of the template `findNamed` returns -/
def namedIdxOf (ss : Stylesheet) (name : String) : Nat :=
  (((ss.templates.zipIdx.filter fun p => p.1.name = some name).foldl namedStep none).map (·.2)).getD 0

def layoutOf (ss : Stylesheet) : Layout :=
  { nT := ss.templates.length
    modes := none :: ss.templates.flatMap fun t => modesL t.body
    namedIdx := namedIdxOf ss }

def compT (L : Layout) (t : Template) : ANode := .mk .block .none_ (compL L t.body)

def builtinA (L : Layout) : List ANode :=
  L.modes.map (fun m => ANode.mk .block .none_ [.mk .apply (.apply none m) []]) ++
    [.mk .block .none_ [.mk .text .nodeValue []], .mk .block .none_ []]

def compileA (ss : Stylesheet) : List ANode := ss.templates.map (compT (layoutOf ss)) ++ builtinA (layoutOf ss)

/-- **the compiler**: the Core program of a stylesheet (templates, then one built-in element rule per mode, the
built-in text rule, the empty built-in rule) -/
def compile (ss : Stylesheet) : Prog := eraseL (compileA ss)

/-- what the oracle evaluates at each address of `compile ss` -/
def infoOf (ss : Stylesheet) : Addr → Info := infoAt (compileA ss)

/-- the fragment `core_refines_spec` is proved for -/
def inFragment (ss : Stylesheet) : Bool :=
  ss.keys.isEmpty && ss.nsAlias.isEmpty && ss.stripSpace.isEmpty && ss.globals.isEmpty &&
    ss.templates.all fun t => fragL (layoutOf ss).modes t.body

theorem findIdx_mem {l : List (Option String)} {m : Option String} (h : m ∈ l) :
    ∃ j, l.findIdx? (· = m) = some j ∧ l[j]? = some m := by
  induction l with
  | nil => cases h
  | cons x xs ih =>
    by_cases hx : x = m
    · exact ⟨0, by simp [List.findIdx?_cons, hx], by simp [hx]⟩
    · have hm : m ∈ xs := by
        rcases List.mem_cons.mp h with h | h
        · exact absurd h.symm hx
        · exact h
      obtain ⟨j, hj, hg⟩ := ih hm
      exact ⟨j + 1, by simp [List.findIdx?_cons, hx, hj], by simpa using hg⟩

theorem namedStep_fst (l : List (Template × Nat)) (acc : Option (Template × Nat)) :
    (l.foldl namedStep acc).map (·.1) =
      (l.map (·.1)).foldl (fun (acc : Option Template) t =>
        match acc with
        | none => some t
        | some b => if t.prec ≥ b.prec then some t else some b) (acc.map (·.1)) := by
  induction l generalizing acc with
  | nil => simp
  | cons p l ih =>
    simp only [List.foldl_cons, List.map_cons]
    rw [ih]
    congr 1
    cases acc with
    | none => simp [namedStep]
    | some b => simp only [namedStep, Option.map_some]; split <;> simp

theorem zipIdx_filter_fst (q : Template → Bool) (l : List Template) (k : Nat) :
    ((l.zipIdx k).filter fun p => q p.1).map (·.1) = l.filter q := by
  induction l generalizing k with
  | nil => simp
  | cons t l ih =>
    simp only [List.zipIdx_cons, List.filter_cons]
    split <;> simp [ih]

theorem findNamed_get (ss : Stylesheet) (name : String) (tm : Template) (h : findNamed ss name = some tm) :
    ss.templates[namedIdxOf ss name]? = some tm := by
  have h1 := namedStep_fst (ss.templates.zipIdx.filter fun p => p.1.name = some name) none
  rw [zipIdx_filter_fst (fun t => t.name = some name) ss.templates 0] at h1
  simp only [Option.map_none] at h1
  simp only [findNamed] at h
  replace h1 := h1.trans h
  cases hr : (ss.templates.zipIdx.filter fun p => p.1.name = some name).foldl namedStep none with
  | none => simp [hr] at h1
  | some r =>
    simp [hr] at h1
    have hq := foldl_pick (fun (x : Template × Nat) => ss.templates[x.2]? = some x.1) namedStep ?_ _ none r ?_ (by simp) hr
    · simp only [namedIdxOf, hr, Option.map_some, Option.getD_some]
      rw [hq, h1]
    · intro acc x r h
      cases acc with
      | none => simp [namedStep] at h; exact Or.inl h.symm
      | some b =>
        simp only [namedStep] at h
        split at h
        · exact Or.inl (Option.some.inj h).symm
        · exact Or.inr h
    · intro x hx
      have := (List.mem_filter.mp hx).1
      exact List.mem_zipIdx_iff_getElem?.mp this

theorem lookupA_top (AP : List ANode) (t : Nat) (n : ANode) (h : AP[t]? = some n) : lookupA AP (t, []) = some n := by
  simp [lookupA, h, ANode.get]

theorem compileA_template (ss : Stylesheet) (idx : Nat) (tm : Template) (h : ss.templates[idx]? = some tm) :
    (compileA ss)[idx]? = some (compT (layoutOf ss) tm) := by
  obtain ⟨hlt, heq⟩ := List.getElem?_eq_some_iff.mp h
  simp [compileA, List.getElem?_append, hlt, heq]

theorem compileA_builtin (ss : Stylesheet) (j : Nat) :
    (compileA ss)[ss.templates.length + j]? = (builtinA (layoutOf ss))[j]? := by
  simp only [compileA]
  rw [List.getElem?_append_right (by simp)]
  simp

theorem repT_compile (ss : Stylesheet) (idx : Nat) (tm : Template) (hf : inFragment ss = true)
    (h : ss.templates[idx]? = some tm) : RepT (compile ss) (infoOf ss) (layoutOf ss) idx tm := by
  have hl := lookupA_top _ _ _ (compileA_template ss idx tm h)
  have hfb : fragL (layoutOf ss).modes tm.body = true := by
    simp only [inFragment, Bool.and_eq_true, List.all_eq_true] at hf
    exact hf.2 tm (List.mem_of_getElem? h)
  refine ⟨eraseL (compL (layoutOf ss) tm.body), ?_, by simp [eraseL_length, compL_length], ?_⟩
  · simpa [compile, compT, ANode.kind, ANode.kids] using lookup_of_lookupA (compileA ss) hl
  · exact repL_comp (layoutOf ss) (compileA ss) tm.body (idx, []) 0 _ hfb hl (by simp [compT, ANode.kids])

/-- **the compiler is correct**: for every stylesheet of the fragment, `compile ss` with the annotation `infoOf ss`
represents `ss` -/
theorem represents_compile (ss : Stylesheet) (d : Doc) (hf : inFragment ss = true) :
    Represents (compile ss) (infoOf ss) (layoutOf ss) ss d := by
  have hf' := hf
  simp only [inFragment, Bool.and_eq_true, List.isEmpty_iff] at hf'
  obtain ⟨⟨⟨⟨hk, ha⟩, _⟩, _⟩, _⟩ := hf'
  refine ⟨hk, ha, ?_, ?_, ?_, ?_, ?_⟩
  · intro i m idx tm h
    exact repT_compile ss idx tm hf (chooseTemplateIdx_get _ _ _ _ _ _ _ h)
  · intro name tm h
    exact repT_compile ss _ tm hf (findNamed_get ss name tm h)
  · intro m hm
    obtain ⟨j, hj, hg⟩ := findIdx_mem hm
    obtain ⟨hlt, heq⟩ := List.getElem?_eq_some_iff.mp hg
    have hb : (compileA ss)[(layoutOf ss).builtinElem m]? = some (.mk .block .none_ [.mk .apply (.apply none m) []]) := by
      have : (layoutOf ss).builtinElem m = ss.templates.length + j := by
        show (layoutOf ss).nT + (((layoutOf ss).modes.findIdx? (· = m)).getD 0) = _
        rw [hj]; rfl
      rw [this, compileA_builtin]
      simp [builtinA, List.getElem?_append, hlt, heq]
    have hl := lookupA_top _ _ _ hb
    have hc : lookupA (compileA ss) (child ((layoutOf ss).builtinElem m, []) 0) = some (.mk .apply (.apply none m) []) :=
      lookupA_kid _ hl (by simp [ANode.kids])
    refine ⟨?_, ?_⟩
    · simpa [compile, ANode.kind, ANode.kids, eraseL, ANode.erase] using lookup_of_lookupA (compileA ss) hl
    · simpa [infoOf, ANode.info, child] using info_of_lookupA (compileA ss) hc
  · have hb : (compileA ss)[(layoutOf ss).builtinText]? = some (.mk .block .none_ [.mk .text .nodeValue []]) := by
      have : (layoutOf ss).builtinText = ss.templates.length + (layoutOf ss).modes.length := by simp [Layout.builtinText, layoutOf]
      rw [this, compileA_builtin]
      simp [builtinA, List.getElem?_append]
    have hl := lookupA_top _ _ _ hb
    have hc : lookupA (compileA ss) (child ((layoutOf ss).builtinText, []) 0) = some (.mk .text .nodeValue []) :=
      lookupA_kid _ hl (by simp [ANode.kids])
    refine ⟨?_, ?_⟩
    · simpa [compile, ANode.kind, ANode.kids, eraseL, ANode.erase] using lookup_of_lookupA (compileA ss) hl
    · simpa [infoOf, ANode.info, child] using info_of_lookupA (compileA ss) hc
  · have hb : (compileA ss)[(layoutOf ss).builtinNone]? = some (.mk .block .none_ []) := by
      have : (layoutOf ss).builtinNone = ss.templates.length + ((layoutOf ss).modes.length + 1) := by
        simp [Layout.builtinNone, layoutOf]; omega
      rw [this, compileA_builtin]
      simp [builtinA, List.getElem?_append]
    have hl := lookupA_top _ _ _ hb
    simpa [compile, ANode.kind, ANode.kids, eraseL] using lookup_of_lookupA (compileA ss) hl

end XalanModel.C01.CoreSpec
