import XalanModel.C01.Variables
/-! Helper lemmas for the VariablesStack theorems of `Props/C01.lean`. -/
namespace XalanModel.C01
open VStack

theorem findLocal_frame (n : Nat) (frame rest : List Entry) (hf : NoMarker frame) :
    ∀ act, (findLocal n false act (frame ++ .ctxMarker :: rest)).map (·.1) = (frameBindings frame).lookup n := by
  intro act
  induction frame with
  | nil => simp [findLocal, frameBindings]
  | cons e es ih =>
    have hes : NoMarker es := fun x hx => hf x (List.mem_cons_of_mem _ hx)
    have ih' := ih hes
    cases e with
    | ctxMarker => exact absurd rfl (hf .ctxMarker (by simp))
    | elemFrame k =>
      simp only [List.cons_append, findLocal, frameBindings, Option.map_map]
      simpa [Function.comp_def] using ih'
    | var m v =>
      simp only [List.cons_append, findLocal, frameBindings, List.lookup_cons]
      by_cases h : m = n
      · subst h; simp
      · have h' : (n == m) = false := by simpa using fun hh => h hh.symm
        simp only [h, if_false, h', Option.map_map]
        simpa [Function.comp_def] using ih'
    | activeParam m v =>
      simp only [List.cons_append, findLocal, frameBindings, List.lookup_cons]
      by_cases h : m = n
      · subst h; simp
      · have h' : (n == m) = false := by simpa using fun hh => h hh.symm
        simp only [h, if_false, h', Option.map_map]
        simpa [Function.comp_def] using ih'
    | param m v =>
      simp only [List.cons_append, findLocal, frameBindings, Bool.false_and, Option.map_map]
      simpa [Function.comp_def] using ih'

theorem findGlobal_globals (n : Nat) (globals tail : List Entry) (hg : NoMarker globals)
    (ht : findGlobal n tail = none) :
    findGlobal n (globals ++ tail) = (globalBindings globals).lookup n := by
  induction globals with
  | nil => simp [globalBindings, ht]
  | cons e es ih =>
    have hes : NoMarker es := fun x hx => hg x (List.mem_cons_of_mem _ hx)
    have ih' := ih hes
    cases e with
    | ctxMarker => exact absurd rfl (hg .ctxMarker (by simp))
    | var m v =>
      simp only [List.cons_append, findGlobal, globalBindings, List.lookup_cons]
      by_cases h : m = n
      · subst h; simp
      · have h' : (n == m) = false := by simpa using fun hh => h hh.symm
        simp [h, h', ih']
    | elemFrame k => simpa [findGlobal, globalBindings] using ih'
    | param m v => simpa [findGlobal, globalBindings] using ih'
    | activeParam m v => simpa [findGlobal, globalBindings] using ih'

/-- pushing entries on a stack whose start index follows the top, with the global index frozen -/
theorem pushes_shape (es : List Entry) : ∀ (s : VStack), s.cur = s.stack.length → s.marked = true →
    es.foldl push s = { s with stack := es.reverse ++ s.stack, cur := es.length + s.stack.length } := by
  induction es with
  | nil => intro s hc _; cases s; simp_all
  | cons e es ih =>
    intro s hc hm
    have h1 : (s.push e).cur = (s.push e).stack.length := by simp [push, hc]
    have h2 : (s.push e).marked = true := by simp [push, hm]
    rw [List.foldl_cons, ih _ h1 h2]
    simp [push, hc, hm]
    omega

theorem popContextMarkerAux_frame (l : List Entry) (hl : NoMarker l) :
    ∀ (fuel : Nat) (rest : List Entry) (g : Nat) (m a : Bool), l.length < fuel →
      popContextMarkerAux fuel ⟨l ++ .ctxMarker :: rest, (l ++ .ctxMarker :: rest).length, g, m, a⟩
        = ⟨rest, rest.length, g, m, a⟩ := by
  induction l with
  | nil =>
    intro fuel rest g m a hf
    cases fuel with
    | zero => omega
    | succ f => simp [popContextMarkerAux, pop]
  | cons e es ih =>
    intro fuel rest g m a hf
    have hes : NoMarker es := fun x hx => hl x (List.mem_cons_of_mem _ hx)
    have hne : e ≠ .ctxMarker := hl e (by simp)
    cases fuel with
    | zero => simp at hf
    | succ f =>
      have := ih hes f rest g m a (by simp at hf; omega)
      simp only [List.cons_append, popContextMarkerAux, hne, if_false]
      simpa [pop] using this

/-- without activation a lookup hands back the list it was given -/
theorem findLocal_pure (n : Nat) (p : Bool) (l : List Entry) :
    ∀ r, findLocal n p false l = some r → r.2 = l := by
  induction l with
  | nil => intro r h; simp [findLocal] at h
  | cons e es ih =>
    intro r h
    cases e with
    | ctxMarker => simp [findLocal] at h
    | elemFrame k =>
      simp only [findLocal, Option.map_eq_some_iff] at h
      obtain ⟨x, hx, rfl⟩ := h
      simp [ih x hx]
    | var m v =>
      simp only [findLocal] at h
      split at h
      · cases h; rfl
      · simp only [Option.map_eq_some_iff] at h
        obtain ⟨x, hx, rfl⟩ := h
        simp [ih x hx]
    | activeParam m v =>
      simp only [findLocal] at h
      split at h
      · cases h; rfl
      · simp only [Option.map_eq_some_iff] at h
        obtain ⟨x, hx, rfl⟩ := h
        simp [ih x hx]
    | param m v =>
      simp only [findLocal] at h
      split at h
      · cases h; rfl
      · simp only [Option.map_eq_some_iff] at h
        obtain ⟨x, hx, rfl⟩ := h
        simp [ih x hx]

theorem split_recombine (l : List Entry) (k : Nat) :
    l.take k ++ (l.drop k).dropLast ++ (l.drop k).drop (l.drop k).dropLast.length = l := by
  have h1 : (l.drop k).dropLast ++ (l.drop k).drop (l.drop k).dropLast.length = l.drop k := by
    rw [List.dropLast_eq_take, List.length_take]
    have : min ((l.drop k).length - 1) (l.drop k).length = (l.drop k).length - 1 := by omega
    rw [this, List.take_append_drop]
  rw [List.append_assoc, h1, List.take_append_drop]

/-- what a parameter lookup finds in a marker-free frame segment -/
theorem findLocal_param_frame (n : Nat) (frame rest : List Entry) (hf : NoMarker frame) :
    ∀ act, (findLocal n true act (frame ++ .ctxMarker :: rest)).map (·.1) = (frameParamBindings frame).lookup n := by
  intro act
  induction frame with
  | nil => simp [findLocal, frameParamBindings]
  | cons e es ih =>
    have hes : NoMarker es := fun x hx => hf x (List.mem_cons_of_mem _ hx)
    have ih' := ih hes
    cases e with
    | ctxMarker => exact absurd rfl (hf .ctxMarker (by simp))
    | elemFrame k =>
      simp only [List.cons_append, findLocal, frameParamBindings, Option.map_map]
      simpa [Function.comp_def] using ih'
    | var m v =>
      simp only [List.cons_append, findLocal, frameParamBindings, List.lookup_cons]
      by_cases h : m = n
      · subst h; simp
      · have h' : (n == m) = false := by simpa using fun hh => h hh.symm
        simp only [h, if_false, h', Option.map_map]
        simpa [Function.comp_def] using ih'
    | activeParam m v =>
      simp only [List.cons_append, findLocal, frameParamBindings, List.lookup_cons]
      by_cases h : m = n
      · subst h; simp
      · have h' : (n == m) = false := by simpa using fun hh => h hh.symm
        simp only [h, if_false, h', Option.map_map]
        simpa [Function.comp_def] using ih'
    | param m v =>
      simp only [List.cons_append, findLocal, frameParamBindings, List.lookup_cons, Bool.true_and]
      by_cases h : m = n
      · subst h; simp
      · have h' : (n == m) = false := by simpa using fun hh => h hh.symm
        simp only [h, decide_false, Bool.false_eq_true, if_false, h', Option.map_map]
        simpa [Function.comp_def] using ih'

/-- the first loop of `findEntry` started at the global frame index: the global space holds variables only, the loop
returns the innermost of them -/
theorem findLocal_globals (n : Nat) (act : Bool) (globals : List Entry)
    (hg : ∀ e ∈ globals, ∃ m v, e = Entry.var m v) :
    (findLocal n false act (globals ++ [.elemFrame 0])).map (·.1) = (globalBindings globals).lookup n := by
  induction globals with
  | nil => simp [findLocal, globalBindings]
  | cons e es ih =>
    have ih' := ih (fun x hx => hg x (List.mem_cons_of_mem _ hx))
    obtain ⟨m, v, he⟩ := hg e (by simp)
    subst he
    simp only [List.cons_append, findLocal, globalBindings, List.lookup_cons]
    by_cases h : m = n
    · subst h; simp
    · have h' : (n == m) = false := by simpa using fun hh => h hh.symm
      simp only [h, if_false, h', Option.map_map]
      simpa [Function.comp_def] using ih'
end XalanModel.C01
