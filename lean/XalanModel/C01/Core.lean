import XalanModel.C01.Pending
/-!
# C01 — Core: the `Elem*` execution protocol *with data*, refined to a recursive specification

`Walker.lean` shows that the iterative loop visits the instructions in the recursive order when node counts,
selected templates and branches are fixed parameters of the tree.  Here they are **computed from the current
source node** by an oracle (the XPath / pattern-matching layer: C02, C09, C10), the engine keeps the real
`m_currentNodeStack` and `m_nodesToTransformStack` (lists of remaining nodes), and the instructions produce
result events through the engine's output calls.  Fragment: `xsl:value-of` (`text`), `xsl:attribute` and literal attributes (`attr`, a guarded add), `xsl:copy-of` / comment /
processing-instruction (`emit`: whatever guarded calls the oracle lists), literal result elements
(`lre`), silent blocks (`xsl:when`, `xsl:otherwise`, `xsl:template`, `xsl:if` taken), `xsl:call-template`
(without parameters), `xsl:choose`, `xsl:for-each`, `xsl:apply-templates` (without parameters / sort keys: their
effect is inside the oracle's `sel`).  Not in the fragment: variables and parameters (`Variables.lean`),
attributes (`Pending.lean` covers their placement), copy, sort as a mechanism.

* `run` — transcription of `ElemTemplateElement::execute` with the per-class `startElement` / `endElement` /
  `getInvoker` / `getNextChildElemToExecute` (ElemValueOf, ElemLiteralResult, ElemCallTemplate, ElemChoose,
  ElemForEach, ElemApplyTemplates, ElemTemplate), emitting the engine calls `startElement(name)`, `characters`,
  `endElement(name)`;
* `inst` — the specification: XSLT §5.4/§8/§9.2/§7.1.1/§7.6.1 as a recursive function of (instruction, current node).
Core Lean only.
-/
namespace XalanModel.C01.Core

/-- the XPath context an instruction is instantiated in: (current node, its position, size of the current node list) -/
abbrev SrcNode := Nat × Nat × Nat

inductive Kind
  | text                      -- xsl:value-of
  | attr (name : String)      -- xsl:attribute / an attribute of a literal result element (guarded add, value from the oracle)
  | emit                      -- xsl:copy-of, xsl:comment, xsl:processing-instruction: engine calls given by the oracle
  | lre (name : String)       -- literal result element
  | block                     -- xsl:template, xsl:when, xsl:otherwise, xsl:if (taken)
  | call (target : Nat)
  | choose
  | forEach
  | apply
deriving DecidableEq, Repr, Inhabited

inductive Node | mk (kind : Kind) (kids : List Node)
deriving Inhabited

def Node.kind : Node → Kind | .mk k _ => k
def Node.kids : Node → List Node | .mk _ ks => ks

abbrev Prog := List Node
abbrev Addr := Nat × List Nat

def Node.get : Node → List Nat → Option Node
  | n, [] => some n
  | n, i :: p => match n.kids[i]? with
    | some c => c.get p
    | none => none

def lookup (P : Prog) (a : Addr) : Option Node := (P[a.1]?).bind fun n => n.get a.2.reverse

def child (a : Addr) (i : Nat) : Addr := (a.1, i :: a.2)

/-- the XPath / pattern layer, as far as this fragment needs it -/
structure Oracle where
  sel : Addr → SrcNode → List SrcNode     -- select of the for-each / apply-templates at `a`, current node given
  tmpl : Addr → SrcNode → Nat             -- template rule chosen for a node selected by the apply-templates at `a`
  branch : Addr → SrcNode → Nat           -- index of the branch an xsl:choose takes (out of range = none)
  str : Addr → SrcNode → String           -- string value of the value-of / attribute at `a`
  evs : Addr → SrcNode → List REv := fun _ _ => []   -- the calls an `emit` instruction makes (copy of nodes, comment, PI)

/-- engine calls made when an element starts / ends -/
def startOut (O : Oracle) (k : Kind) (a : Addr) (n : SrcNode) : List REv :=
  match k with
  | .text => if (O.str a n).isEmpty then [] else [.text (O.str a n)]
  | .attr name => [.attr name (O.str a n)]
  | .emit => O.evs a n
  | .lre name => [.start name]
  | _ => []

def endOut (k : Kind) : List REv :=
  match k with
  | .lre name => [.stop name]
  | _ => []

/-! ## specification: recursive instantiation -/

mutual
/-- result events of instruction `a` at current node `n`, without its own closing call -/
def inst (P : Prog) (O : Oracle) : Nat → Addr → SrcNode → Option (List REv)
  | 0, _, _ => none
  | f+1, a, n =>
    match lookup P a with
    | none => none
    | some nd =>
      match nd.kind with
      | .text => some (startOut O .text a n)
      | .attr name => some (startOut O (.attr name) a n)
      | .emit => some (startOut O .emit a n)
      | .lre name => (instKids P O f a 0 nd.kids.length n).map fun ks => REv.start name :: ks
      | .block => instKids P O f a 0 nd.kids.length n
      | .call t =>
        match lookup P (t, []) with
        | none => none
        | some tn => (inst P O f (t, []) n).map fun b => b ++ endOut tn.kind
      | .choose =>
        if O.branch a n < nd.kids.length then
          match lookup P (child a (O.branch a n)) with
          | none => none
          | some cn => (inst P O f (child a (O.branch a n)) n).map fun b => b ++ endOut cn.kind
        else some []
      | .forEach =>
        if nd.kids.length = 0 then some []
        else instNodes P O f a nd.kids.length (O.sel a n)
      | .apply => instTmpls P O f a (O.sel a n)
/-- children `i … m-1` of `a`, each with its closing call -/
def instKids (P : Prog) (O : Oracle) : Nat → Addr → Nat → Nat → SrcNode → Option (List REv)
  | 0, _, _, _, _ => none
  | f+1, a, i, m, n =>
    if i < m then
      match lookup P (child a i), inst P O f (child a i) n, instKids P O f a (i + 1) m n with
      | some cn, some c, some r => some (c ++ (endOut cn.kind ++ r))
      | _, _, _ => none
    else some []
/-- the body of the for-each `a`, once per node -/
def instNodes (P : Prog) (O : Oracle) : Nat → Addr → Nat → List SrcNode → Option (List REv)
  | 0, _, _, _ => none
  | _+1, _, _, [] => some []
  | f+1, a, m, n :: ns =>
    match instKids P O f a 0 m n, instNodes P O f a m ns with
    | some ks, some rest => some (ks ++ rest)
    | _, _ => none
/-- the template rule of each node selected by the apply-templates `a` -/
def instTmpls (P : Prog) (O : Oracle) : Nat → Addr → List SrcNode → Option (List REv)
  | 0, _, _ => none
  | _+1, _, [] => some []
  | f+1, a, n :: ns =>
    match lookup P (O.tmpl a n, []), inst P O f (O.tmpl a n, []) n, instTmpls P O f a ns with
    | some tn, some b, some rest => some (b ++ (endOut tn.kind ++ rest))
    | _, _, _ => none
end

/-- the transformation: the template chosen for the root node, at the root node -/
def instRun (P : Prog) (O : Oracle) (fuel : Nat) (t0 : Nat) (root : SrcNode) : Option (List REv) :=
  match lookup P (t0, []) with
  | none => none
  | some tn => (inst P O fuel (t0, []) root).map fun b => b ++ endOut tn.kind

/-! ## the engine -/

inductive Phase | starting (a : Addr) | ending (a : Addr) | done
deriving DecidableEq, Repr

structure St where
  phase : Phase
  stack : List (Option Addr)          -- m_elementInvokerStack
  iters : List (List SrcNode)         -- m_nodesToTransformStack: the nodes not yet handed out, per open list
  nodes : List SrcNode                -- m_currentNodeStack, top first
  calls : List REv                    -- engine output calls made so far
deriving Repr

def cur (nodes : List SrcNode) : SrcNode := nodes.headD (0, 1, 1)

def pushIf (k : Kind) (a : Addr) (stk : List (Option Addr)) : List (Option Addr) :=
  match k with
  | .call _ => some a :: stk
  | .apply => some a :: stk
  | _ => stk

def popIf (k : Kind) (stk : List (Option Addr)) : List (Option Addr) :=
  match k with
  | .call _ => stk.tail
  | .apply => stk.tail
  | _ => stk

/-- `popCurrentNode(); getNextNodeToTransform(); pushCurrentNode(next)` -/
def advance (its : List (List SrcNode)) (nodes : List SrcNode) : Option SrcNode × List (List SrcNode) × List SrcNode :=
  match its with
  | (n :: rem) :: r => (some n, rem :: r, n :: nodes.tail)
  | [] :: r => (none, [] :: r, nodes.tail)
  | [] => (none, [], nodes.tail)

/-- where an element continues after `advance`: the for-each restarts its body, the apply-templates enters the
template found for the node -/
def afterAdvance (O : Oracle) (k : Kind) (a : Addr) (x : Option SrcNode) : Phase :=
  match x with
  | none => .ending a
  | some n =>
    match k with
    | .apply => .starting (O.tmpl a n, [])
    | _ => .starting (child a 0)

/-- `startElement`: next phase, node-list stack, current-node stack -/
def startNext (O : Oracle) (nd : Node) (a : Addr) (its : List (List SrcNode)) (nodes : List SrcNode) :
    Phase × List (List SrcNode) × List SrcNode :=
  match nd.kind with
  | .text => (.ending a, its, nodes)
  | .attr _ => (.ending a, its, nodes)
  | .emit => (.ending a, its, nodes)
  | .lre _ => (if nd.kids.isEmpty then .ending a else .starting (child a 0), its, nodes)
  | .block => (if nd.kids.isEmpty then .ending a else .starting (child a 0), its, nodes)
  | .call t => (.starting (t, []), its, nodes)
  | .choose =>
    (if O.branch a (cur nodes) < nd.kids.length then .starting (child a (O.branch a (cur nodes))) else .ending a, its, nodes)
  | .forEach =>
    if nd.kids.isEmpty then (.ending a, its, nodes)
    else
      let r := advance (O.sel a (cur nodes) :: its) (cur nodes :: nodes)
      (afterAdvance O .forEach a r.1, r.2.1, r.2.2)
  | .apply =>
    let r := advance (O.sel a (cur nodes) :: its) (cur nodes :: nodes)
    (afterAdvance O .apply a r.1, r.2.1, r.2.2)

def popIters (nd : Node) (its : List (List SrcNode)) : List (List SrcNode) :=
  match nd.kind with
  | .forEach => if nd.kids.isEmpty then its else its.tail
  | .apply => its.tail
  | _ => its

def getInvoker (a : Addr) (stk : List (Option Addr)) : Option Addr :=
  match a.2 with
  | [] => stk.headD none
  | _ :: p => some (a.1, p)

def nextSibling (P : Prog) (c : Addr) : Option Addr :=
  match c.2 with
  | [] => none
  | i :: p => match lookup P (c.1, (i + 1) :: p) with
    | some _ => some (c.1, (i + 1) :: p)
    | none => none

/-- `invoker->getNextChildElemToExecute(ctx, cur)` -/
def getNextChild (P : Prog) (O : Oracle) (inv c : Addr) (its : List (List SrcNode)) (nodes : List SrcNode) :
    Phase × List (List SrcNode) × List SrcNode :=
  match lookup P inv with
  | none => (.ending inv, its, nodes)
  | some nd =>
    match nd.kind with
    | .text => (.ending inv, its, nodes)
    | .attr _ => (.ending inv, its, nodes)
    | .emit => (.ending inv, its, nodes)
    | .lre _ => ((match nextSibling P c with | some s => .starting s | none => .ending inv), its, nodes)
    | .block => ((match nextSibling P c with | some s => .starting s | none => .ending inv), its, nodes)
    | .call _ => (.ending inv, its, nodes)
    | .choose => (.ending inv, its, nodes)
    | .forEach =>
      match nextSibling P c with
      | some s => (.starting s, its, nodes)
      | none =>
        let r := advance its nodes
        (afterAdvance O .forEach inv r.1, r.2.1, r.2.2)
    | .apply =>
      let r := advance its nodes
      (afterAdvance O .apply inv r.1, r.2.1, r.2.2)

def step (P : Prog) (O : Oracle) (s : St) : St :=
  match s.phase with
  | .done => s
  | .starting a =>
    match lookup P a with
    | none => { s with phase := .done }
    | some nd =>
      let r := startNext O nd a s.iters s.nodes
      { phase := r.1, stack := pushIf nd.kind a s.stack, iters := r.2.1, nodes := r.2.2,
        calls := s.calls ++ startOut O nd.kind a (cur s.nodes) }
  | .ending a =>
    match lookup P a with
    | none => { s with phase := .done }
    | some nd =>
      let stk := popIf nd.kind s.stack
      let its := popIters nd s.iters
      let out := s.calls ++ endOut nd.kind
      match getInvoker a stk with
      | none => { phase := .done, stack := stk, iters := its, nodes := s.nodes, calls := out }
      | some l =>
        let r := getNextChild P O l a its s.nodes
        { phase := r.1, stack := stk, iters := r.2.1, nodes := r.2.2, calls := out }

def iter (P : Prog) (O : Oracle) : Nat → St → St
  | 0, s => s
  | n+1, s => iter P O n (step P O s)

/-- `StylesheetRoot::process`: current node := root, `rootRule->execute()`; the result tree is what the
pending-start-tag engine builds from the calls -/
def run (P : Prog) (O : Oracle) (n : Nat) (t0 : Nat) (root : SrcNode) : Option (List REv) :=
  let s := iter P O n ⟨.starting (t0, []), [none], [], [root], []⟩
  if s.phase = .done then some (Pending.result s.calls) else none


end XalanModel.C01.Core
