import XalanModel.C01.Spec
/-!
# C01 — the variable scope of attribute sets in the specification (XSLT §7.1.4)

"The only variable bindings visible within an xsl:attribute-set are those of top-level xsl:variable and xsl:param
elements."  `Spec.useAttrDefs` instantiates the body of a set with `vars := genv, passed := []`; `useAttr_scope` states
what that means for the instruction that uses the sets: its own local bindings (variables, claimed parameters, passed
parameters) have no influence on what the sets produce.
-/
namespace XalanModel.C01

theorem useAttr_scope (q : Quirks) (ss : Stylesheet) (d : Doc) (genv : List (String × Val)) : ∀ (f : Nat),
    (∀ (names : List String) (c : Ctx) (v p : List (String × Val)),
      useAttrSets q ss d genv f names { c with vars := v, passed := p } = useAttrSets q ss d genv f names c) ∧
    (∀ (defs : List AttrSet) (c : Ctx) (v p : List (String × Val)),
      useAttrDefs q ss d genv f defs { c with vars := v, passed := p } = useAttrDefs q ss d genv f defs c) := by
  intro f
  induction f with
  | zero => exact ⟨fun _ _ _ _ => by simp [useAttrSets], fun _ _ _ _ => by simp [useAttrDefs]⟩
  | succ f ih =>
    refine ⟨?_, ?_⟩
    · intro names c v p
      cases names with
      | nil => simp [useAttrSets]
      | cons n ns => simp only [useAttrSets, ih.1, ih.2]
    · intro defs c v p
      cases defs with
      | nil => simp [useAttrDefs]
      | cons s rest => simp only [useAttrDefs, ih.1, ih.2]

end XalanModel.C01
