import XalanModel.C01.Core
/-! Helper lemmas for `core_refines_spec_partial` (Props/C01.lean). -/
namespace XalanModel.C01.Core

/-! ## refinement: the engine makes exactly the calls the specification lists -/

theorem iter_add (P : Prog) (O : Oracle) (m n : Nat) (s : St) : iter P O (m + n) s = iter P O n (iter P O m s) := by
  induction m generalizing s with
  | zero => simp [iter]
  | succ m ih =>
    have : m + 1 + n = (m + n) + 1 := by omega
    rw [this]
    simp [iter, ih]

theorem get_append (n : Node) (p : List Nat) (i : Nat) :
    n.get (p ++ [i]) = (n.get p).bind fun m => m.kids[i]? := by
  induction p generalizing n with
  | nil =>
    simp only [List.nil_append, Node.get]
    cases h : n.kids[i]? with
    | none => simp [h]
    | some c => simp [Node.get, h]
  | cons j p ih =>
    simp only [List.cons_append, Node.get]
    cases n.kids[j]? with
    | none => simp
    | some c => simpa using ih c

theorem lookup_child (P : Prog) (a : Addr) (i : Nat) :
    lookup P (child a i) = (lookup P a).bind fun m => m.kids[i]? := by
  simp only [lookup, child, List.reverse_cons]
  cases P[a.1]? with
  | none => simp
  | some n => simp [get_append]

theorem lookup_child_some {P : Prog} {a : Addr} {n : Node} (h : lookup P a = some n) (i : Nat) :
    (lookup P (child a i)).isSome = decide (i < n.kids.length) := by
  rw [lookup_child, h]
  simp only [Option.bind_some]
  by_cases hi : i < n.kids.length <;> simp [hi]

theorem popIf_pushIf (k : Kind) (a : Addr) (stk : List (Option Addr)) : popIf k (pushIf k a stk) = stk := by
  cases k <;> simp [popIf, pushIf]

theorem getInvoker_child (a : Addr) (i : Nat) (stk : List (Option Addr)) : getInvoker (child a i) stk = some a := by
  simp [getInvoker, child]

theorem nextSibling_child {P : Prog} {a : Addr} {n : Node} (h : lookup P a = some n) (i : Nat) :
    nextSibling P (child a i) = if i + 1 < n.kids.length then some (child a (i + 1)) else none := by
  have hs := lookup_child_some h (i + 1)
  simp only [nextSibling, child]
  by_cases hi : i + 1 < n.kids.length
  · simp only [hi, decide_true, if_true] at hs ⊢
    cases hl : lookup P (a.1, (i + 1) :: a.2) with
    | none => simp [child, hl] at hs
    | some _ => rfl
  · simp only [hi, decide_false, if_false] at hs ⊢
    cases hl : lookup P (a.1, (i + 1) :: a.2) with
    | none => rfl
    | some _ => simp [child, hl] at hs

/-- node-list stack while an element is open, after everything inside it has run -/
def midIters (nd : Node) (its : List (List SrcNode)) : List (List SrcNode) :=
  match nd.kind with
  | .forEach => if nd.kids.isEmpty then its else [] :: its
  | .apply => [] :: its
  | _ => its

theorem popIters_midIters (nd : Node) (its : List (List SrcNode)) : popIters nd (midIters nd its) = its := by
  cases h : nd.kind with
  | forEach => cases h2 : nd.kids.isEmpty <;> simp [popIters, midIters, h, h2]
  | apply => simp [popIters, midIters, h]
  | text => simp [popIters, midIters, h]
  | attr nm => simp [popIters, midIters, h]
  | emit => simp [popIters, midIters, h]
  | lre nm => simp [popIters, midIters, h]
  | block => simp [popIters, midIters, h]
  | call t => simp [popIters, midIters, h]
  | choose => simp [popIters, midIters, h]

/-- kinds whose children run once each, in order -/
def SeqKind (k : Kind) : Prop := k = .block ∨ (∃ nm, k = .lre nm) ∨ k = .forEach

/-- phase / node-list stack / current-node stack right after the last child of `a` has ended -/
def afterKids (O : Oracle) (nd : Node) (a : Addr) (its : List (List SrcNode)) (nodes : List SrcNode) :
    Phase × List (List SrcNode) × List SrcNode :=
  match nd.kind with
  | .forEach => (afterAdvance O .forEach a (advance its nodes).1, (advance its nodes).2.1, (advance its nodes).2.2)
  | _ => (.ending a, its, nodes)

theorem step_starting {P : Prog} {O : Oracle} {a : Addr} {nd : Node} (h : lookup P a = some nd)
    (stk : List (Option Addr)) (its : List (List SrcNode)) (nodes : List SrcNode) (tr : List REv) :
    step P O ⟨.starting a, stk, its, nodes, tr⟩ =
      ⟨(startNext O nd a its nodes).1, pushIf nd.kind a stk, (startNext O nd a its nodes).2.1,
       (startNext O nd a its nodes).2.2, tr ++ startOut O nd.kind a (cur nodes)⟩ := by
  simp only [step, h]

theorem step_ending_child {P : Prog} {O : Oracle} {a : Addr} {nd c : Node} (h : lookup P a = some nd)
    (hk : SeqKind nd.kind) (i : Nat) (hc : lookup P (child a i) = some c)
    (stk : List (Option Addr)) (its : List (List SrcNode)) (nodes : List SrcNode) (tr : List REv) :
    step P O ⟨.ending (child a i), pushIf c.kind (child a i) stk, midIters c its, nodes, tr⟩ =
      ⟨(if i + 1 < nd.kids.length then .starting (child a (i + 1)) else (afterKids O nd a its nodes).1), stk,
       (if i + 1 < nd.kids.length then its else (afterKids O nd a its nodes).2.1),
       (if i + 1 < nd.kids.length then nodes else (afterKids O nd a its nodes).2.2), tr ++ endOut c.kind⟩ := by
  have hns := nextSibling_child h i
  simp only [step, hc, popIf_pushIf, popIters_midIters, getInvoker_child, getNextChild, h]
  rcases hk with hk | ⟨nm, hk⟩ | hk
  · simp only [hk, hns, afterKids]
    by_cases hi : i + 1 < nd.kids.length <;> simp [hi]
  · simp only [hk, hns, afterKids]
    by_cases hi : i + 1 < nd.kids.length <;> simp [hi]
  · simp only [hk, hns, afterKids]
    by_cases hi : i + 1 < nd.kids.length <;> simp [hi]

/-- the branch an xsl:choose took ends: the choose ends -/
theorem step_ending_branch {P : Prog} {O : Oracle} {a : Addr} {nd c : Node} (h : lookup P a = some nd)
    (hk : nd.kind = .choose) (i : Nat) (hc : lookup P (child a i) = some c)
    (stk : List (Option Addr)) (its : List (List SrcNode)) (nodes : List SrcNode) (tr : List REv) :
    step P O ⟨.ending (child a i), pushIf c.kind (child a i) stk, midIters c its, nodes, tr⟩ =
      ⟨.ending a, stk, its, nodes, tr ++ endOut c.kind⟩ := by
  simp [step, hc, popIf_pushIf, popIters_midIters, getInvoker_child, getNextChild, h, hk]

/-- the template entered from a call-template ends: back to the caller -/
theorem step_ending_template_call {P : Prog} {O : Oracle} {a : Addr} {nd tn : Node} {t : Nat} (h : lookup P a = some nd)
    (hk : nd.kind = .call t) (ht : lookup P (t, []) = some tn)
    (stk : List (Option Addr)) (its : List (List SrcNode)) (nodes : List SrcNode) (tr : List REv) :
    step P O ⟨.ending (t, []), pushIf tn.kind (t, []) (some a :: stk), midIters tn its, nodes, tr⟩ =
      ⟨.ending a, some a :: stk, its, nodes, tr ++ endOut tn.kind⟩ := by
  simp [step, ht, popIf_pushIf, popIters_midIters, getInvoker, getNextChild, h, hk]

/-- the template entered from an apply-templates ends: the next selected node is fetched -/
theorem step_ending_template_apply {P : Prog} {O : Oracle} {a : Addr} {nd tn : Node} {t : Nat}
    (h : lookup P a = some nd) (hk : nd.kind = .apply) (ht : lookup P (t, []) = some tn)
    (stk : List (Option Addr)) (its : List (List SrcNode)) (nodes : List SrcNode) (tr : List REv) :
    step P O ⟨.ending (t, []), pushIf tn.kind (t, []) (some a :: stk), midIters tn its, nodes, tr⟩ =
      ⟨afterAdvance O .apply a (advance its nodes).1, some a :: stk, (advance its nodes).2.1, (advance its nodes).2.2,
       tr ++ endOut tn.kind⟩ := by
  simp [step, ht, popIf_pushIf, popIters_midIters, getInvoker, getNextChild, h, hk]

theorem inst_lookup {P : Prog} {O : Oracle} {f : Nat} {a : Addr} {n : SrcNode} {tr : List REv}
    (h : inst P O f a n = some tr) : ∃ nd, lookup P a = some nd := by
  cases f with
  | zero => simp [inst] at h
  | succ f' =>
    cases hh : lookup P a with
    | none => simp [inst, hh] at h
    | some nd => exact ⟨nd, rfl⟩

theorem instKids_done {P : Prog} {O : Oracle} {f : Nat} {a : Addr} {i m : Nat} {n : SrcNode} {tr : List REv}
    (h : instKids P O f a i m n = some tr) (hi : ¬ i < m) : tr = [] := by
  cases f with
  | zero => simp [instKids] at h
  | succ f' => simp [instKids, hi] at h; exact h

theorem isEmpty_of_length {n : Node} (h : n.kids.length = 0) : n.kids.isEmpty = true := by
  simpa [List.isEmpty_iff_length_eq_zero] using h

theorem not_isEmpty_of_length {n : Node} (h : 0 < n.kids.length) : n.kids.isEmpty = false := by
  cases hn : n.kids with
  | nil => simp [hn] at h
  | cons _ _ => rfl


/-- the generalised simulation, by induction on the fuel of the specification -/
theorem sim (P : Prog) (O : Oracle) : ∀ (f : Nat),
    -- (A) one instruction, from its start to just before its end
    (∀ (a : Addr) (nd : Node) (stk : List (Option Addr)) (its : List (List SrcNode)) (nodes : List SrcNode)
        (pre tr : List REv),
        lookup P a = some nd → inst P O f a (cur nodes) = some tr →
        ∃ k, iter P O k ⟨.starting a, stk, its, nodes, pre⟩ =
              ⟨.ending a, pushIf nd.kind a stk, midIters nd its, nodes, pre ++ tr⟩) ∧
    -- (B) the children i … of an instruction whose children run in sequence
    (∀ (a : Addr) (nd : Node) (i : Nat) (stk : List (Option Addr)) (its : List (List SrcNode)) (nodes : List SrcNode)
        (pre tr : List REv),
        lookup P a = some nd → SeqKind nd.kind → i < nd.kids.length →
        instKids P O f a i nd.kids.length (cur nodes) = some tr →
        ∃ k, iter P O k ⟨.starting (child a i), stk, its, nodes, pre⟩ =
              ⟨(afterKids O nd a its nodes).1, stk, (afterKids O nd a its nodes).2.1, (afterKids O nd a its nodes).2.2,
               pre ++ tr⟩) ∧
    -- (C) the remaining nodes of a for-each, from the point where the next node is fetched
    (∀ (a : Addr) (nd : Node) (ns : List SrcNode) (x : SrcNode) (stk : List (Option Addr)) (rest : List (List SrcNode))
        (nodes0 : List SrcNode) (pre tr : List REv),
        lookup P a = some nd → nd.kind = .forEach → 0 < nd.kids.length →
        instNodes P O f a nd.kids.length ns = some tr →
        ∃ k, iter P O k ⟨afterAdvance O .forEach a (advance (ns :: rest) (x :: nodes0)).1, stk,
                          (advance (ns :: rest) (x :: nodes0)).2.1, (advance (ns :: rest) (x :: nodes0)).2.2, pre⟩ =
              ⟨.ending a, stk, [] :: rest, nodes0, pre ++ tr⟩) ∧
    -- (D) the remaining nodes of an apply-templates
    (∀ (a : Addr) (nd : Node) (ns : List SrcNode) (x : SrcNode) (stk : List (Option Addr)) (rest : List (List SrcNode))
        (nodes0 : List SrcNode) (pre tr : List REv),
        lookup P a = some nd → nd.kind = .apply →
        instTmpls P O f a ns = some tr →
        ∃ k, iter P O k ⟨afterAdvance O .apply a (advance (ns :: rest) (x :: nodes0)).1, some a :: stk,
                          (advance (ns :: rest) (x :: nodes0)).2.1, (advance (ns :: rest) (x :: nodes0)).2.2, pre⟩ =
              ⟨.ending a, some a :: stk, [] :: rest, nodes0, pre ++ tr⟩) := by
  intro f
  induction f with
  | zero =>
    refine ⟨?_, ?_, ?_, ?_⟩
    · intro a nd stk its nodes pre tr _ h; simp [inst] at h
    · intro a nd i stk its nodes pre tr _ _ _ h; simp [instKids] at h
    · intro a nd ns x stk rest nodes0 pre tr _ _ _ h; simp [instNodes] at h
    · intro a nd ns x stk rest nodes0 pre tr _ _ h; simp [instTmpls] at h
  | succ f ih =>
    obtain ⟨ihA, ihB, ihC, ihD⟩ := ih
    refine ⟨?_, ?_, ?_, ?_⟩
    · -- (A)
      intro a nd stk its nodes pre tr hl hrec
      simp only [inst, hl] at hrec
      cases hkind : nd.kind with
      | text =>
        simp only [hkind, Option.some.injEq] at hrec
        subst hrec
        refine ⟨1, ?_⟩
        simp [iter, step_starting hl, startNext, hkind, pushIf, midIters]
      | attr nm =>
        simp only [hkind, Option.some.injEq] at hrec
        subst hrec
        refine ⟨1, ?_⟩
        simp [iter, step_starting hl, startNext, hkind, pushIf, midIters]
      | emit =>
        simp only [hkind, Option.some.injEq] at hrec
        subst hrec
        refine ⟨1, ?_⟩
        simp [iter, step_starting hl, startNext, hkind, pushIf, midIters]
      | lre name =>
        simp only [hkind, Option.map_eq_some_iff] at hrec
        obtain ⟨ks, hks, rfl⟩ := hrec
        by_cases hempty : nd.kids.length = 0
        · have hk0 := isEmpty_of_length hempty
          have : ks = [] := instKids_done hks (by omega)
          subst this
          refine ⟨1, ?_⟩
          simp [iter, step_starting hl, startNext, hkind, hk0, pushIf, midIters, startOut]
        · have hpos : 0 < nd.kids.length := Nat.pos_of_ne_zero hempty
          have hk0 := not_isEmpty_of_length hpos
          obtain ⟨k, hk⟩ := ihB a nd 0 stk its nodes (pre ++ [.start name]) ks hl (Or.inr (Or.inl ⟨name, hkind⟩)) hpos hks
          refine ⟨1 + k, ?_⟩
          rw [iter_add]
          simp only [iter, step_starting hl, startNext, hkind, hk0, pushIf, startOut, Bool.false_eq_true, if_false]
          rw [hk]
          simp [afterKids, hkind, midIters]
      | block =>
        simp only [hkind] at hrec
        by_cases hempty : nd.kids.length = 0
        · have hk0 := isEmpty_of_length hempty
          have : tr = [] := instKids_done hrec (by omega)
          subst this
          refine ⟨1, ?_⟩
          simp [iter, step_starting hl, startNext, hkind, hk0, pushIf, midIters, startOut]
        · have hpos : 0 < nd.kids.length := Nat.pos_of_ne_zero hempty
          have hk0 := not_isEmpty_of_length hpos
          obtain ⟨k, hk⟩ := ihB a nd 0 stk its nodes pre tr hl (Or.inl hkind) hpos hrec
          refine ⟨1 + k, ?_⟩
          rw [iter_add]
          simp only [iter, step_starting hl, startNext, hkind, hk0, pushIf, startOut, Bool.false_eq_true, if_false,
            List.append_nil]
          rw [hk]
          simp [afterKids, hkind, midIters]
      | call t =>
        simp only [hkind] at hrec
        cases htl : lookup P (t, []) with
        | none => simp [htl] at hrec
        | some tn =>
          simp only [htl, Option.map_eq_some_iff] at hrec
          obtain ⟨b, hb, rfl⟩ := hrec
          obtain ⟨k2, hk2⟩ := ihA (t, []) tn (some a :: stk) its nodes pre b htl hb
          have hfin := step_ending_template_call hl hkind htl stk its nodes (pre ++ b) (O := O)
          refine ⟨1 + (k2 + 1), ?_⟩
          rw [iter_add, iter_add]
          simp only [iter, step_starting hl, startNext, hkind, pushIf, startOut, List.append_nil]
          rw [hk2, hfin]
          simp [midIters, hkind]
      | choose =>
        simp only [hkind] at hrec
        by_cases hj : O.branch a (cur nodes) < nd.kids.length
        · simp only [hj, if_true] at hrec
          cases hcl : lookup P (child a (O.branch a (cur nodes))) with
          | none => simp [hcl] at hrec
          | some cn =>
            simp only [hcl, Option.map_eq_some_iff] at hrec
            obtain ⟨b, hb, rfl⟩ := hrec
            obtain ⟨k1, hk1⟩ := ihA (child a (O.branch a (cur nodes))) cn stk its nodes pre b hcl hb
            have hfin := step_ending_branch hl hkind (O.branch a (cur nodes)) hcl stk its nodes (pre ++ b) (O := O)
            refine ⟨1 + (k1 + 1), ?_⟩
            rw [iter_add, iter_add]
            simp only [iter, step_starting hl, startNext, hkind, hj, if_true, pushIf, startOut, List.append_nil]
            rw [hk1, hfin]
            simp [midIters, hkind]
        · simp only [hj, if_false, Option.some.injEq] at hrec
          subst hrec
          refine ⟨1, ?_⟩
          simp [iter, step_starting hl, startNext, hkind, hj, pushIf, midIters, startOut]
      | forEach =>
        simp only [hkind] at hrec
        by_cases hempty : nd.kids.length = 0
        · have hk0 := isEmpty_of_length hempty
          simp only [hempty, if_true, Option.some.injEq] at hrec
          subst hrec
          refine ⟨1, ?_⟩
          simp [iter, step_starting hl, startNext, hkind, hk0, pushIf, midIters, startOut]
        · have hpos : 0 < nd.kids.length := Nat.pos_of_ne_zero hempty
          have hk0 := not_isEmpty_of_length hpos
          simp only [hempty, if_false] at hrec
          obtain ⟨k, hk⟩ := ihC a nd (O.sel a (cur nodes)) (cur nodes) stk its nodes pre tr hl hkind hpos hrec
          refine ⟨1 + k, ?_⟩
          rw [iter_add]
          simp only [iter, step_starting hl, startNext, hkind, hk0, pushIf, startOut, Bool.false_eq_true, if_false,
            List.append_nil]
          rw [hk]
          simp [midIters, hkind, hk0]
      | apply =>
        simp only [hkind] at hrec
        obtain ⟨k, hk⟩ := ihD a nd (O.sel a (cur nodes)) (cur nodes) stk its nodes pre tr hl hkind hrec
        refine ⟨1 + k, ?_⟩
        rw [iter_add]
        simp only [iter, step_starting hl, startNext, hkind, pushIf, startOut, List.append_nil]
        rw [hk]
        simp [midIters, hkind]
    · -- (B)
      intro a nd i stk its nodes pre tr hl hk hi hrec
      simp only [instKids, hi, if_true] at hrec
      cases hcl : lookup P (child a i) with
      | none => simp [hcl] at hrec
      | some cn =>
        cases hc : inst P O f (child a i) (cur nodes) with
        | none => simp [hcl, hc] at hrec
        | some c =>
          cases hr : instKids P O f a (i + 1) nd.kids.length (cur nodes) with
          | none => simp [hcl, hc, hr] at hrec
          | some r =>
            simp only [hcl, hc, hr, Option.some.injEq] at hrec
            subst hrec
            obtain ⟨k1, hk1⟩ := ihA (child a i) cn stk its nodes pre c hcl hc
            have hstep := step_ending_child hl hk i hcl stk its nodes (pre ++ c) (O := O)
            by_cases hnext : i + 1 < nd.kids.length
            · obtain ⟨k2, hk2⟩ := ihB a nd (i + 1) stk its nodes (pre ++ c ++ endOut cn.kind) r hl hk hnext hr
              refine ⟨k1 + (1 + k2), ?_⟩
              rw [iter_add, iter_add, hk1]
              simp only [iter, hstep, hnext, if_true]
              rw [hk2]
              simp
            · have : r = [] := instKids_done hr hnext
              subst this
              refine ⟨k1 + 1, ?_⟩
              rw [iter_add, hk1]
              simp [iter, hstep, hnext]
    · -- (C)
      intro a nd ns x stk rest nodes0 pre tr hl hkind hpos hrec
      cases ns with
      | nil =>
        simp only [instNodes, Option.some.injEq] at hrec
        subst hrec
        refine ⟨0, ?_⟩
        simp [iter, advance, afterAdvance]
      | cons n ns' =>
        simp only [instNodes] at hrec
        cases hks : instKids P O f a 0 nd.kids.length n with
        | none => simp [hks] at hrec
        | some ks =>
          cases hrs : instNodes P O f a nd.kids.length ns' with
          | none => simp [hks, hrs] at hrec
          | some rs =>
            simp only [hks, hrs, Option.some.injEq] at hrec
            subst hrec
            obtain ⟨k1, hk1⟩ := ihB a nd 0 stk (ns' :: rest) (n :: nodes0) pre ks hl (Or.inr (Or.inr hkind)) hpos
              (by simpa [cur] using hks)
            obtain ⟨k2, hk2⟩ := ihC a nd ns' n stk rest nodes0 (pre ++ ks) rs hl hkind hpos hrs
            refine ⟨k1 + k2, ?_⟩
            rw [iter_add]
            simp only [advance, afterAdvance, List.tail_cons]
            rw [hk1]
            simp only [afterKids, hkind]
            rw [hk2]
            simp
    · -- (D)
      intro a nd ns x stk rest nodes0 pre tr hl hkind hrec
      cases ns with
      | nil =>
        simp only [instTmpls, Option.some.injEq] at hrec
        subst hrec
        refine ⟨0, ?_⟩
        simp [iter, advance, afterAdvance]
      | cons n ns' =>
        simp only [instTmpls] at hrec
        cases htl : lookup P (O.tmpl a n, []) with
        | none => simp [htl] at hrec
        | some tn =>
          cases hb : inst P O f (O.tmpl a n, []) n with
          | none => simp [htl, hb] at hrec
          | some b =>
            cases hm : instTmpls P O f a ns' with
            | none => simp [htl, hb, hm] at hrec
            | some ms =>
              simp only [htl, hb, hm, Option.some.injEq] at hrec
              subst hrec
              obtain ⟨k1, hk1⟩ := ihA (O.tmpl a n, []) tn (some a :: stk) (ns' :: rest) (n :: nodes0) pre b htl
                (by simpa [cur] using hb)
              have hstep := step_ending_template_apply hl hkind htl stk (ns' :: rest) (n :: nodes0) (pre ++ b) (O := O)
              obtain ⟨k2, hk2⟩ := ihD a nd ns' n stk rest nodes0 (pre ++ b ++ endOut tn.kind) ms hl hkind hm
              refine ⟨k1 + (1 + k2), ?_⟩
              rw [iter_add, iter_add]
              simp only [advance, afterAdvance, List.tail_cons]
              rw [hk1]
              simp only [iter, hstep]
              rw [hk2]
              simp


/-! ## the calls of the fragment are start tags, end tags and non-empty text -/

def PlainEv : REv → Prop
  | .attrU _ _ => False
  | .text s => s ≠ ""
  | _ => True

def Plain (l : List REv) : Prop := ∀ e ∈ l, PlainEv e

theorem plain_nil : Plain [] := by intro e h; cases h

theorem plain_append {a b : List REv} (ha : Plain a) (hb : Plain b) : Plain (a ++ b) := by
  intro e h
  rcases List.mem_append.mp h with h | h
  · exact ha e h
  · exact hb e h

theorem plain_cons {e : REv} {l : List REv} (he : PlainEv e) (hl : Plain l) : Plain (e :: l) := by
  intro x h
  rcases List.mem_cons.mp h with h | h
  · subst h; exact he
  · exact hl x h

theorem plain_startOut (O : Oracle) (hO : ∀ a n, Plain (O.evs a n)) (k : Kind) (a : Addr) (n : SrcNode) :
    Plain (startOut O k a n) := by
  cases k with
  | text =>
    simp only [startOut]
    split
    · exact plain_nil
    · rename_i h
      exact plain_cons (by simpa [PlainEv, String.isEmpty_iff] using h) plain_nil
  | attr nm => exact plain_cons (by simp [PlainEv]) plain_nil
  | emit => exact hO a n
  | lre nm => exact plain_cons (by simp [PlainEv]) plain_nil
  | block => exact plain_nil
  | call t => exact plain_nil
  | choose => exact plain_nil
  | forEach => exact plain_nil
  | apply => exact plain_nil

theorem plain_endOut (k : Kind) : Plain (endOut k) := by
  cases k <;> simp only [endOut] <;> try exact plain_nil
  exact plain_cons (by simp [PlainEv]) plain_nil

theorem plain_guarded : ∀ (l : List REv), Plain l → Pending.Guarded l ∧ Pending.NoEmptyText l := by
  intro l
  induction l with
  | nil => intro _; simp [Pending.Guarded, Pending.NoEmptyText]
  | cons e es ih =>
    intro h
    have he : PlainEv e := h e (by simp)
    have hes := ih (fun x hx => h x (List.mem_cons_of_mem _ hx))
    cases e <;> simp_all [PlainEv, Pending.Guarded, Pending.NoEmptyText]

theorem plain_inst (P : Prog) (O : Oracle) (hO : ∀ a n, Plain (O.evs a n)) : ∀ (f : Nat),
    (∀ a n tr, inst P O f a n = some tr → Plain tr) ∧
    (∀ a i m n tr, instKids P O f a i m n = some tr → Plain tr) ∧
    (∀ a m ns tr, instNodes P O f a m ns = some tr → Plain tr) ∧
    (∀ a ns tr, instTmpls P O f a ns = some tr → Plain tr) := by
  intro f
  induction f with
  | zero =>
    refine ⟨?_, ?_, ?_, ?_⟩
    · intro a n tr h; simp [inst] at h
    · intro a i m n tr h; simp [instKids] at h
    · intro a m ns tr h; simp [instNodes] at h
    · intro a ns tr h; simp [instTmpls] at h
  | succ f ih =>
    obtain ⟨ihA, ihB, ihC, ihD⟩ := ih
    refine ⟨?_, ?_, ?_, ?_⟩
    · intro a n tr h
      simp only [inst] at h
      cases hl : lookup P a with
      | none => simp [hl] at h
      | some nd =>
        simp only [hl] at h
        cases hk : nd.kind with
        | text => simp only [hk, Option.some.injEq] at h; subst h; exact plain_startOut O hO .text a n
        | attr nm => simp only [hk, Option.some.injEq] at h; subst h; exact plain_startOut O hO (.attr nm) a n
        | emit => simp only [hk, Option.some.injEq] at h; subst h; exact plain_startOut O hO .emit a n
        | lre name =>
          simp only [hk, Option.map_eq_some_iff] at h
          obtain ⟨ks, hks, rfl⟩ := h
          exact plain_cons (by simp [PlainEv]) (ihB _ _ _ _ _ hks)
        | block => simp only [hk] at h; exact ihB _ _ _ _ _ h
        | call t =>
          simp only [hk] at h
          cases htl : lookup P (t, []) with
          | none => simp [htl] at h
          | some tn =>
            simp only [htl, Option.map_eq_some_iff] at h
            obtain ⟨b, hb, rfl⟩ := h
            exact plain_append (ihA _ _ _ hb) (plain_endOut _)
        | choose =>
          simp only [hk] at h
          split at h
          · cases hcl : lookup P (child a (O.branch a n)) with
            | none => simp [hcl] at h
            | some cn =>
              simp only [hcl, Option.map_eq_some_iff] at h
              obtain ⟨b, hb, rfl⟩ := h
              exact plain_append (ihA _ _ _ hb) (plain_endOut _)
          · simp only [Option.some.injEq] at h; subst h; exact plain_nil
        | forEach =>
          simp only [hk] at h
          split at h
          · simp only [Option.some.injEq] at h; subst h; exact plain_nil
          · exact ihC _ _ _ _ h
        | apply => simp only [hk] at h; exact ihD _ _ _ h
    · intro a i m n tr h
      simp only [instKids] at h
      split at h
      · cases hcl : lookup P (child a i) with
        | none => simp [hcl] at h
        | some cn =>
          cases hc : inst P O f (child a i) n with
          | none => simp [hcl, hc] at h
          | some c =>
            cases hr : instKids P O f a (i + 1) m n with
            | none => simp [hcl, hc, hr] at h
            | some r =>
              simp only [hcl, hc, hr, Option.some.injEq] at h
              subst h
              exact plain_append (ihA _ _ _ hc) (plain_append (plain_endOut _) (ihB _ _ _ _ _ hr))
      · simp only [Option.some.injEq] at h; subst h; exact plain_nil
    · intro a m ns tr h
      cases ns with
      | nil => simp only [instNodes, Option.some.injEq] at h; subst h; exact plain_nil
      | cons n ns' =>
        simp only [instNodes] at h
        cases hks : instKids P O f a 0 m n with
        | none => simp [hks] at h
        | some ks =>
          cases hrs : instNodes P O f a m ns' with
          | none => simp [hks, hrs] at h
          | some rs =>
            simp only [hks, hrs, Option.some.injEq] at h
            subst h
            exact plain_append (ihB _ _ _ _ _ hks) (ihC _ _ _ _ hrs)
    · intro a ns tr h
      cases ns with
      | nil => simp only [instTmpls, Option.some.injEq] at h; subst h; exact plain_nil
      | cons n ns' =>
        simp only [instTmpls] at h
        cases htl : lookup P (O.tmpl a n, []) with
        | none => simp [htl] at h
        | some tn =>
          cases hb : inst P O f (O.tmpl a n, []) n with
          | none => simp [htl, hb] at h
          | some b =>
            cases hm : instTmpls P O f a ns' with
            | none => simp [htl, hb, hm] at h
            | some ms =>
              simp only [htl, hb, hm, Option.some.injEq] at h
              subst h
              exact plain_append (ihA _ _ _ hb) (plain_append (plain_endOut _) (ihD _ _ _ hm))

/-- the engine's calls for a whole transformation are exactly the specification's event list -/
theorem run_calls (P : Prog) (O : Oracle) (fuel t0 : Nat) (root : SrcNode) (tr : List REv)
    (h : instRun P O fuel t0 root = some tr) :
    ∃ n, iter P O n ⟨.starting (t0, []), [none], [], [root], []⟩ = ⟨.done, [none], [], [root], tr⟩ := by
  simp only [instRun] at h
  cases htl : lookup P (t0, []) with
  | none => simp [htl] at h
  | some tn =>
    simp only [htl, Option.map_eq_some_iff] at h
    obtain ⟨b, hb, rfl⟩ := h
    obtain ⟨k, hk⟩ := (sim P O fuel).1 (t0, []) tn [none] [] [root] [] b htl (by simpa [cur] using hb)
    refine ⟨k + 1, ?_⟩
    rw [iter_add, hk]
    simp [iter, step, htl, popIf_pushIf, popIters_midIters, getInvoker]

theorem plain_instRun (P : Prog) (O : Oracle) (hO : ∀ a n, Plain (O.evs a n)) (fuel t0 : Nat) (root : SrcNode)
    (tr : List REv) (h : instRun P O fuel t0 root = some tr) : Plain tr := by
  simp only [instRun] at h
  cases htl : lookup P (t0, []) with
  | none => simp [htl] at h
  | some tn =>
    simp only [htl, Option.map_eq_some_iff] at h
    obtain ⟨b, hb, rfl⟩ := h
    exact plain_append ((plain_inst P O hO fuel).1 _ _ _ hb) (plain_endOut _)

end XalanModel.C01.Core
