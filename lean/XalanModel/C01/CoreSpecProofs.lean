import XalanModel.C01.CoreSpec
/-!
# C01 — `Spec.transform` is `Core.instRun` with the instantiated oracle (proofs)

`simS` relates, by induction on the specification's fuel, the five mutually recursive functions of the specification
(`execOne`, `execSeq`, `execChoose`, `forNodes`, `applyNodes`) to the four of the Core recursive specification
(`inst`, `instKids`, `instNodes`, `instTmpls`) run with `oracleOf` — every oracle answer is `Spec.eval` /
`chooseTemplateIdx` itself.  The Core fuel is existential (`inst_mono` joins the fuels of sub-derivations).
`transform_eq_instRun` is the top level.  Fragment: literal text, value-of, literal result elements with attribute value templates (no `xsl:attribute`, no `use-attribute-sets`), if, choose, for-each (no sort), apply-templates (no sort / params), call-template (no params), and the
built-in rules; no variables, keys, strip-space or global variables.
-/
namespace XalanModel.C01.CoreSpec
open XalanModel.C01 XalanModel.C01.Core

/-- template `tm` of the stylesheet is template `t` of the program -/
def RepT (P : Prog) (I : Addr → Info) (L : Layout) (t : Nat) (tm : Template) : Prop :=
  ∃ ks, lookup P (t, []) = some (.mk .block ks) ∧ ks.length = tm.body.length ∧ RepL P I L (t, []) 0 tm.body

/-- the program `P` with annotation `I` represents the stylesheet `ss` (for the document `d`, on which rule choice depends) -/
structure Represents (P : Prog) (I : Addr → Info) (L : Layout) (ss : Stylesheet) (d : Doc) : Prop where
  noKeys : ss.keys = []
  noAlias : ss.nsAlias = []
  chosen : ∀ i m idx tm, chooseTemplateIdx ss d evalFuel i m = some (idx, tm) → RepT P I L idx tm
  named : ∀ name tm, findNamed ss name = some tm → RepT P I L (L.namedIdx name) tm
  bElem : ∀ m, m ∈ L.modes → lookup P (L.builtinElem m, []) = some (.mk .block [.mk .apply []]) ∧
            I (L.builtinElem m, [0]) = .apply none m
  bText : lookup P (L.builtinText, []) = some (.mk .block [.mk .text []]) ∧ I (L.builtinText, [0]) = .nodeValue
  bNone : lookup P (L.builtinNone, []) = some (.mk .block [])

/-- the instantiation context of the specification agrees with the Core context `n` -/
def Inv (c : Ctx) (n : SrcNode) : Prop :=
  c.keys = [] ∧ c.vars = [] ∧ c.node = n.1 ∧ c.cur = n.1 ∧ c.pos = n.2.1 ∧ c.size = n.2.2

theorem toX_of_inv {c : Ctx} {n : SrcNode} (h : Inv c n) : c.toXCtx = xOf n := by
  obtain ⟨h1, h2, h3, h4, h5, h6⟩ := h
  cases c with
  | mk x passed mode curPrec =>
    cases x
    simp_all [xOf]

theorem inv_xOf (n : SrcNode) (p : List (String × Val)) (m : Option String) (cp : Option (Nat × Nat)) :
    Inv { toXCtx := xOf n, passed := p, mode := m, curPrec := cp } n := ⟨rfl, rfl, rfl, rfl, rfl, rfl⟩

theorem inv_passed {c : Ctx} {n : SrcNode} (h : Inv c n) : Inv { c with passed := [] } n := h


theorem leadingSets_nil {body : List Instr} (h : ∀ ns rest, body ≠ .useSets ns :: rest) : leadingSets body = [] := by
  cases body with
  | nil => rfl
  | cons x xs => cases x <;> first | rfl | exact absurd rfl (h _ _)

theorem dropSets_id {body : List Instr} (h : ∀ ns rest, body ≠ .useSets ns :: rest) : dropSets body = body := by
  cases body with
  | nil => rfl
  | cons x xs => cases x <;> first | rfl | exact absurd rfl (h _ _)

theorem firstTrue_le (d : Doc) (n : SrcNode) (ts : List Expr) : firstTrue d n ts ≤ ts.length := by
  induction ts with
  | nil => simp [firstTrue]
  | cons t ts ih => simp only [firstTrue, List.length_cons]; split <;> omega

theorem whenTests_length_le (ws : List Instr) : (whenTests ws).length ≤ ws.length := by
  induction ws with
  | nil => simp [whenTests]
  | cons w ws ih => cases w <;> simp [whenTests] <;> omega

theorem lookup_child0 {P : Prog} {a : Addr} {k : Kind} {c : Node} {cs : List Node}
    (h : lookup P a = some (.mk k (c :: cs))) : lookup P (child a 0) = some c := by
  rw [lookup_child, h]; simp [Node.kids]

section
variable (P : Prog) (I : Addr → Info) (L : Layout) (ss : Stylesheet) (d : Doc)

local notation "O" => oracleOf ss d L I
local notation "q" => Quirks.spec

/-- an instruction of the fragment is not a variable binding: `execSeq` runs it with `execOne` -/
theorem execSeq_cons_of_rep {a : Addr} {i : Instr} (h : RepI P I L a i) (f : Nat) (rest : List Instr) (c : Ctx)
    (g : List (String × Val)) :
    execSeq q ss d g (f + 1) (i :: rest) c =
      (match execOne q ss d g f i c, execSeq q ss d g f rest c with
       | some x, some y => some (x ++ y)
       | _, _ => none) := by
  cases h <;> (simp only [execSeq]; cases execOne q ss d g f _ c <;> cases execSeq q ss d g f rest c <;> rfl)

theorem forNodes_nil_body (g : List (String × Val)) : ∀ (f : Nat) (l : List Nat) (k N : Nat) (c : Ctx) (evs : List REv),
    forNodes q ss d g f l k N [] c = some evs → evs = [] := by
  intro f
  induction f with
  | zero => intro l k N c evs h; simp [forNodes] at h
  | succ f ih =>
    intro l k N c evs h
    cases l with
    | nil => simp [forNodes] at h; exact h
    | cons i rest =>
      simp only [forNodes] at h
      cases f with
      | zero => simp [execSeq] at h
      | succ f' =>
        cases hr : forNodes q ss d g (f' + 1) rest (k + 1) N [] c with
        | none => simp [execSeq, hr] at h
        | some y =>
          have := ih rest (k + 1) N c y hr
          subst this
          simp [execSeq, hr] at h
          exact h

theorem applyNodes_some_inv (hk : ss.keys = []) {f i rest k n mode act t evs}
    (h : chooseTemplate ss d evalFuel i mode = some t)
    (hh : applyNodes q ss d [] (f + 1) (i :: rest) k n mode [] act = some evs) :
    ∃ c x y act', Inv c (i, k, n) ∧ execSeq q ss d [] f t.body c = some x ∧
      applyNodes q ss d [] f rest (k + 1) n mode [] act' = some y ∧ evs = x ++ y := by
  simp only [applyNodes, h, Option.bind_eq_bind, Option.bind_eq_some_iff] at hh
  obtain ⟨x, hx, y, hy, he⟩ := hh
  refine ⟨_, x, y, _, ?_, hx, hy, ?_⟩
  · exact ⟨hk, by simp [Quirks.spec], rfl, rfl, rfl, rfl⟩
  · simpa using he.symm

theorem applyNodes_none_inv {f i rest k n mode act evs}
    (h : chooseTemplate ss d evalFuel i mode = none)
    (hh : applyNodes q ss d [] (f + 1) (i :: rest) k n mode [] act = some evs) :
    ∃ x y, (match (d.node i).kind with
        | .root | .elem => applyNodes q ss d [] f (d.children i) 1 (d.children i).length mode [] []
        | .text | .attr => some (if (d.node i).value.isEmpty then [] else [.text (d.node i).value])
        | _ => some []) = some x ∧
      applyNodes q ss d [] f rest (k + 1) n mode [] act = some y ∧ evs = x ++ y := by
  simp only [applyNodes, h, Option.bind_eq_bind, Option.bind_eq_some_iff] at hh
  obtain ⟨x, hx, y, hy, he⟩ := hh
  exact ⟨x, y, hx, hy, by simpa using he.symm⟩

/-- the attributes of a literal result element: the AVTs evaluated by the specification are what the `attr` children
instantiate to (each an `attr` call with the oracle's string) -/
theorem attrs_inst {a : Addr} {n : SrcNode} (hal : ss.nsAlias = []) :
    ∀ (attrs : List (String × List AvtPart)) (k m : Nat) (as r : List REv) (g : Nat),
      RepA P I a k attrs →
      attrs.mapM (fun (x : String × List AvtPart) =>
        (evalAvt d evalFuel x.2 (xOf n)).map fun v => REv.attr (lreName ss.nsAlias x.1) v) = some as →
      instKids P O g a (k + attrs.length) m n = some r → k + attrs.length ≤ m →
      ∃ g', instKids P O g' a k m n = some (as ++ r) := by
  intro attrs
  induction attrs with
  | nil =>
    intro k m as r g _ hm hg _
    simp at hm
    subst hm
    exact ⟨g, by simpa using hg⟩
  | cons x rest ih =>
    intro k m as r g hA hm hg hle
    obtain ⟨an, parts⟩ := x
    cases hA
    rename_i hl hi hA'
    simp only [List.mapM_cons, Option.bind_eq_bind, Option.bind_eq_some_iff, Option.map_eq_some_iff] at hm
    obtain ⟨e, ⟨v, hv, he⟩, as', has', hcons⟩ := hm
    simp at hcons
    subst hcons; subst he
    have hg' : instKids P O g a (k + 1 + rest.length) m n = some r := by
      simpa [Nat.add_assoc, Nat.add_comm 1] using hg
    obtain ⟨g1, hg1⟩ := ih (k + 1) m as' r g hA' has' hg' (by simp at hle; omega)
    cases g1 with
    | zero => simp [instKids] at hg1
    | succ g1' =>
      refine ⟨g1' + 2, ?_⟩
      have hlt : k < m := by simp at hle; omega
      have hinst : inst P O (g1' + 1) (child a k) n = some [REv.attr (sheetName an) v] := by
        simp [inst, hl, Node.kind, startOut, oracleOf, hi, hv]
      rw [instKids]
      simp only [hlt, if_true, hl, hinst, hg1]
      simp [Node.kind, endOut, hal, lreName_nil]

/-- the five-part simulation of the specification's instantiation by `Core.inst` with the oracle `oracleOf` -/
theorem simS (hR : Represents P I L ss d) : ∀ (f : Nat),
    -- (E1) one instruction
    (∀ (a : Addr) (i : Instr) (c : Ctx) (n : SrcNode) (evs : List REv),
        RepI P I L a i → Inv c n → execOne q ss d [] f i c = some evs →
        ∃ g nd b, lookup P a = some nd ∧ inst P O g a n = some b ∧ evs = b ++ endOut nd.kind) ∧
    -- (ES) a sequence of instructions = the children k … of an address
    (∀ (a : Addr) (k : Nat) (body : List Instr) (c : Ctx) (n : SrcNode) (evs : List REv),
        RepL P I L a k body → Inv c n → execSeq q ss d [] f body c = some evs →
        ∃ g, instKids P O g a k (k + body.length) n = some evs) ∧
    -- (EC) the branches j … of an xsl:choose
    (∀ (a : Addr) (j : Nat) (ws other : List Instr) (c : Ctx) (n : SrcNode) (evs : List REv),
        RepW P I L a j ws other → Inv c n → execChoose q ss d [] f ws other c = some evs →
        ∃ g ks, lookup P (child a (j + firstTrue d n (whenTests ws))) = some (.mk .block ks) ∧
          inst P O g (child a (j + firstTrue d n (whenTests ws))) n = some evs) ∧
    -- (EN) the body of an xsl:for-each over the remaining nodes
    (∀ (a : Addr) (body : List Instr) (l : List Nat) (k N : Nat) (c : Ctx) (evs : List REv),
        RepL P I L a 0 body → c.keys = [] → c.vars = [] → forNodes q ss d [] f l k N body c = some evs →
        ∃ g, instNodes P O g a body.length (numberFrom l k N) = some evs) ∧
    -- (EA) the rules for the remaining nodes of an xsl:apply-templates
    (∀ (a : Addr) (sel : Option Expr) (mode : Option String) (l : List Nat) (k N : Nat) (act : List String) (evs : List REv),
        I a = .apply sel mode → mode ∈ L.modes → applyNodes q ss d [] f l k N mode [] act = some evs →
        ∃ g, instTmpls P O g a (numberFrom l k N) = some evs) := by
  intro f
  induction f with
  | zero =>
    refine ⟨?_, ?_, ?_, ?_, ?_⟩
    · intro a i c n evs _ _ h; simp [execOne] at h
    · intro a k body c n evs _ _ h; simp [execSeq] at h
    · intro a j ws other c n evs _ _ h; simp [execChoose] at h
    · intro a body l k N c evs _ _ _ h; simp [forNodes] at h
    · intro a sel mode l k N act evs _ _ h; simp [applyNodes] at h
  | succ f ih =>
    obtain ⟨ih1, ihS, ihC, ihN, ihA⟩ := ih
    refine ⟨?_, ?_, ?_, ?_, ?_⟩
    · -- (E1)
      intro a i c n evs hrep hinv h
      have hx := toX_of_inv hinv
      cases hrep with
      | text a s hl hi =>
        simp [execOne] at h
        refine ⟨1, _, evs, hl, ?_, ?_⟩
        · simp [inst, hl, Node.kind, startOut, oracleOf, hi, ← h]
        · simp [Node.kind, endOut]
      | valueOf a e hl hi =>
        simp only [execOne, hx] at h
        cases he : eval d evalFuel e (xOf n) with
        | none => simp [he] at h
        | some v =>
          simp [he] at h
          refine ⟨1, _, evs, hl, ?_, ?_⟩
          · simp [inst, hl, Node.kind, startOut, oracleOf, hi, he, ← h]
          · simp [Node.kind, endOut]
      | lre a name attrs body ks hl hlen hA hL hno =>
        simp only [execOne, leadingSets_nil hno, dropSets_id hno, hx] at h
        cases f with
        | zero => simp [useAttrSets] at h
        | succ f' =>
          simp only [useAttrSets, Option.bind_eq_bind, Option.bind_some, Option.bind_eq_some_iff] at h
          obtain ⟨as, has, b, hb, h⟩ := h
          obtain ⟨g, hg⟩ := ihS a attrs.length body _ n b hL (inv_xOf n _ _ _) hb
          obtain ⟨g', hg'⟩ := attrs_inst P I L ss d hR.noAlias attrs 0 (attrs.length + body.length) as b g hA has
            (by simpa using hg) (by omega)
          refine ⟨g' + 1, _, REv.start (sheetName name) :: (as ++ b), hl, ?_, ?_⟩
          · simp only [inst, hl, Node.kind, Node.kids, hlen, hg']
            rfl
          · simp [Node.kind, endOut, hR.noAlias, lreName_nil] at h ⊢
            exact h.symm
      | if_ a test body ks hl hi hlen hL =>
        simp only [execOne, hx] at h
        cases he : eval d evalFuel test (xOf n) with
        | none => simp [he] at h
        | some v =>
          simp only [he, Option.bind_eq_bind, Option.bind_some] at h
          have hbr : (oracleOf ss d L I).branch a n = if toBool v then 0 else 1 := by
            simp [oracleOf, hi, firstTrue, isTrue, he]
          have hc0 : lookup P (child a 0) = some (.mk .block ks) := lookup_child0 hl
          by_cases hv : toBool v = true
          · simp only [hv, if_true] at h hbr
            obtain ⟨g, hg⟩ := ihS (child a 0) 0 body _ n evs hL (inv_xOf n _ _ _) h
            refine ⟨g + 2, _, evs, hl, ?_, ?_⟩
            · simp only [inst, hl, Node.kind, Node.kids, hbr, List.length_cons, List.length_nil, Nat.zero_add,
                Nat.lt_add_one, if_true, hc0, hlen]
              simp only [Nat.zero_add] at hg
              rw [hg]; simp [endOut]
            · simp [Node.kind, endOut]
          · have hv' : toBool v = false := by simpa using hv
            simp only [hv', Bool.false_eq_true, if_false] at h hbr
            have h0 : evs = [] := by simpa using h.symm
            subst h0
            refine ⟨1, _, [], hl, ?_, ?_⟩
            · simp [inst, hl, Node.kind, Node.kids, hbr]
            · simp [Node.kind, endOut]
      | choose a whens other ks hl hlen hW hi =>
        simp only [execOne] at h
        obtain ⟨g, ks', hlc, hg⟩ := ihC a 0 whens other _ n evs hW (inv_passed hinv) h
        simp only [Nat.zero_add] at hlc hg
        have hbr : (oracleOf ss d L I).branch a n = firstTrue d n (whenTests whens) := by simp [oracleOf, hi]
        have hlt : firstTrue d n (whenTests whens) < ks.length := by
          have h1 := firstTrue_le d n (whenTests whens)
          have h2 := whenTests_length_le whens
          omega
        refine ⟨g + 1, _, evs, hl, ?_, ?_⟩
        · simp only [inst, hl, Node.kind, Node.kids, hbr, hlt, if_true, hlc, hg]
          simp [endOut]
        · simp [Node.kind, endOut]
      | forEach a sel body ks hl hlen hi hL =>
        simp only [execOne, hx] at h
        cases he : eval d evalFuel sel (xOf n) with
        | none => simp [he] at h
        | some v =>
          cases v with
          | ns l =>
            simp only [he, sortNodes, List.isEmpty_nil, if_true] at h
            simp at h
            have hsel : (oracleOf ss d L I).sel a n = numberFrom l 1 l.length := by simp [oracleOf, hi, he]
            by_cases hbl : body.length = 0
            · have hbn : body = [] := List.eq_nil_of_length_eq_zero hbl
              subst hbn
              have := forNodes_nil_body ss d [] _ _ _ _ _ _ h
              subst this
              refine ⟨1, _, [], hl, ?_, ?_⟩
              · simp [inst, hl, Node.kind, Node.kids, hlen]
              · simp [Node.kind, endOut]
            · obtain ⟨g, hg⟩ := ihN a body l 1 l.length _ evs hL rfl rfl h
              refine ⟨g + 1, _, evs, hl, ?_, ?_⟩
              · simp only [inst, hl, Node.kind, Node.kids, hlen, hbl, if_false, hsel, hg]
              · simp [Node.kind, endOut]
          | str _ => simp [he] at h
          | num _ => simp [he] at h
          | bool _ => simp [he] at h
          | rtf _ => simp [he] at h
      | apply a sel mode hl hi hm =>
        simp only [execOne, hx] at h
        cases f with
        | zero => simp [evalParams] at h; cases sel <;> simp at h <;> (try (split at h <;> simp at h))
        | succ f' =>
          have hgen : ∀ l, applyNodes q ss d [] (f' + 1) l 1 l.length mode [] [] = some evs →
              (oracleOf ss d L I).sel a n = numberFrom l 1 l.length →
              ∃ g nd b, lookup P a = some nd ∧ inst P O g a n = some b ∧ evs = b ++ endOut nd.kind := by
            intro l hap hsel
            obtain ⟨g, hg⟩ := ihA a sel mode l 1 l.length [] evs hi hm hap
            refine ⟨g + 1, _, evs, hl, ?_, ?_⟩
            · simp only [inst, hl, Node.kind, hsel, hg]
            · simp [Node.kind, endOut]
          cases sel with
          | none =>
            simp only [sortNodes, List.isEmpty_nil, if_true, evalParams] at h
            simp at h
            exact hgen _ h (by simp [oracleOf, hi, xOf])
          | some e =>
            cases he : eval d evalFuel e (xOf n) with
            | none => simp [he] at h
            | some v =>
              cases v with
              | ns l =>
                simp only [he, sortNodes, List.isEmpty_nil, if_true, evalParams] at h
                simp at h
                exact hgen _ h (by simp [oracleOf, hi, he])
              | str _ => simp [he] at h
              | num _ => simp [he] at h
              | bool _ => simp [he] at h
              | rtf _ => simp [he] at h
      | call a name hl =>
        simp only [execOne] at h
        cases hfn : findNamed ss name with
        | none => simp [hfn] at h
        | some tm =>
          cases f with
          | zero => simp [hfn, evalParams] at h
          | succ f' =>
            simp only [hfn, evalParams] at h
            simp at h
            obtain ⟨ks, hlt, hlen, hL⟩ := hR.named name tm hfn
            have hinv' : Inv { c with vars := ([] : List (String × Val)), passed := [] } n := by
              obtain ⟨h1, h2, h3, h4, h5, h6⟩ := hinv
              exact ⟨h1, rfl, h3, h4, h5, h6⟩
            obtain ⟨g, hg⟩ := ihS (L.namedIdx name, []) 0 tm.body _ n evs hL hinv' h
            refine ⟨g + 2, _, evs, hl, ?_, ?_⟩
            · simp only [inst, hl, Node.kind, hlt, Node.kids, hlen]
              simp only [Nat.zero_add] at hg
              rw [hg]; simp [endOut]
            · simp [Node.kind, endOut]
    · -- (ES)
      intro a k body c n evs hL hinv h
      cases hL with
      | nil a k =>
        simp [execSeq] at h
        subst h
        exact ⟨1, by simp [instKids]⟩
      | cons a k i rest hI hL' =>
        rw [execSeq_cons_of_rep P I L ss d hI] at h
        cases hx : execOne q ss d [] f i c with
        | none => simp [hx] at h
        | some x =>
          cases hy : execSeq q ss d [] f rest c with
          | none => simp [hx, hy] at h
          | some y =>
            simp only [hx, hy, Option.some.injEq] at h
            subst h
            obtain ⟨g1, nd, b, hl, hb, hxe⟩ := ih1 (child a k) i c n x hI hinv hx
            obtain ⟨g2, hg2⟩ := ihS a (k + 1) rest c n y hL' hinv hy
            refine ⟨max g1 g2 + 1, ?_⟩
            have hb' := (inst_mono P O (Nat.le_max_left g1 g2)).1 _ _ _ hb
            have hg2' := (inst_mono P O (Nat.le_max_right g1 g2)).2.1 _ _ _ _ _ hg2
            have hm : k + 1 + rest.length = k + (rest.length + 1) := by omega
            rw [hm] at hg2'
            simp only [instKids, List.length_cons, show k < k + (rest.length + 1) by omega, if_true, hl, hb', hg2']
            simp [hxe]
    · -- (EC)
      intro a j ws other c n evs hW hinv h
      have hx := toX_of_inv hinv
      cases hW with
      | nil a j other ks hl hlen hL =>
        simp only [execChoose] at h
        obtain ⟨g, hg⟩ := ihS (child a j) 0 other c n evs hL hinv h
        refine ⟨g + 1, ks, by simpa [whenTests, firstTrue] using hl, ?_⟩
        simp only [whenTests, firstTrue, Nat.add_zero, inst, hl, Node.kind, Node.kids, hlen]
        simp only [Nat.zero_add] at hg
        exact hg
      | cons a j test body ws other ks hl hlen hL hW' =>
        simp only [execChoose, hx] at h
        cases he : eval d evalFuel test (xOf n) with
        | none => simp [he] at h
        | some v =>
          simp only [he, Option.bind_eq_bind, Option.bind_some] at h
          by_cases hv : toBool v = true
          · simp only [hv, if_true] at h
            have hft : firstTrue d n (whenTests (Instr.when test body :: ws)) = 0 := by
              simp [whenTests, firstTrue, isTrue, he, hv]
            obtain ⟨g, hg⟩ := ihS (child a j) 0 body c n evs hL hinv h
            refine ⟨g + 1, ks, by simpa [hft] using hl, ?_⟩
            simp only [hft, Nat.add_zero, inst, hl, Node.kind, Node.kids, hlen]
            simp only [Nat.zero_add] at hg
            exact hg
          · have hv' : toBool v = false := by simpa using hv
            simp only [hv', Bool.false_eq_true, if_false] at h
            have hft : firstTrue d n (whenTests (Instr.when test body :: ws)) = firstTrue d n (whenTests ws) + 1 := by
              simp [whenTests, firstTrue, isTrue, he, hv']
            obtain ⟨g, ks', hlc, hg⟩ := ihC a (j + 1) ws other c n evs hW' hinv h
            have hj : j + (firstTrue d n (whenTests ws) + 1) = j + 1 + firstTrue d n (whenTests ws) := by omega
            refine ⟨g, ks', by rw [hft, hj]; exact hlc, by rw [hft, hj]; exact hg⟩
    · -- (EN)
      intro a body l k N c evs hL hk hv h
      cases l with
      | nil =>
        simp [forNodes] at h
        subst h
        exact ⟨1, by simp [numberFrom, instNodes]⟩
      | cons i rest =>
        simp only [forNodes] at h
        cases hx : execSeq q ss d [] f body { c with node := i, cur := i, pos := k, size := N, curPrec := none } with
        | none => simp [hx] at h
        | some x =>
          cases hy : forNodes q ss d [] f rest (k + 1) N body c with
          | none => simp [hx, hy] at h
          | some y =>
            simp [hx, hy] at h
            subst h
            have hinv' : Inv { c with node := i, cur := i, pos := k, size := N, curPrec := none } (i, k, N) :=
              ⟨hk, hv, rfl, rfl, rfl, rfl⟩
            obtain ⟨g1, hg1⟩ := ihS a 0 body _ (i, k, N) x hL hinv' hx
            obtain ⟨g2, hg2⟩ := ihN a body rest (k + 1) N c y hL hk hv hy
            refine ⟨max g1 g2 + 1, ?_⟩
            have hg1' := (inst_mono P O (Nat.le_max_left g1 g2)).2.1 _ _ _ _ _ hg1
            have hg2' := (inst_mono P O (Nat.le_max_right g1 g2)).2.2.1 _ _ _ _ hg2
            simp only [Nat.zero_add] at hg1'
            simp only [numberFrom, instNodes, hg1', hg2']
    · -- (EA)
      intro a sel mode l k N act evs hi hm h
      cases l with
      | nil =>
        simp [applyNodes] at h
        subst h
        exact ⟨1, by simp [numberFrom, instTmpls]⟩
      | cons i rest =>
        have htm : (oracleOf ss d L I).tmpl a (i, k, N) = tmplFor ss d L mode i := by simp [oracleOf, hi]
        cases hci : chooseTemplateIdx ss d evalFuel i mode with
        | some it =>
          obtain ⟨idx, tm⟩ := it
          have hct : chooseTemplate ss d evalFuel i mode = some tm := by simp [chooseTemplate, hci]
          obtain ⟨cx, x, y, act', hinv', hx, hy, he⟩ := applyNodes_some_inv ss d hR.noKeys hct h
          subst he
          obtain ⟨ks, hlt, hlen, hL⟩ := hR.chosen i mode idx tm hci
          obtain ⟨g1, hg1⟩ := ihS (idx, []) 0 tm.body cx (i, k, N) x hL hinv' hx
          obtain ⟨g2, hg2⟩ := ihA a sel mode rest (k + 1) N act' y hi hm hy
          refine ⟨max (g1 + 1) g2 + 1, ?_⟩
          have hb : inst P O (g1 + 1) (idx, []) (i, k, N) = some x := by
            simp only [inst, hlt, Node.kind, Node.kids, hlen]
            simp only [Nat.zero_add] at hg1
            exact hg1
          have hb' := (inst_mono P O (Nat.le_max_left (g1 + 1) g2)).1 _ _ _ hb
          have hg2' := (inst_mono P O (Nat.le_max_right (g1 + 1) g2)).2.2.2 _ _ _ hg2
          have htm' : tmplFor ss d L mode i = idx := by simp [tmplFor, hci]
          simp [numberFrom, instTmpls, htm, htm', hlt, hb', hg2', Node.kind, endOut]
        | none =>
          have hct : chooseTemplate ss d evalFuel i mode = none := by simp [chooseTemplate, hci]
          obtain ⟨x, y, hx, hy, he⟩ := applyNodes_none_inv ss d hct h
          subst he
          obtain ⟨g2, hg2⟩ := ihA a sel mode rest (k + 1) N act y hi hm hy
          obtain ⟨hbE, hbEi⟩ := hR.bElem mode hm
          obtain ⟨hbT, hbTi⟩ := hR.bText
          have hbN := hR.bNone
          -- the built-in rule, by node kind
          have key : ∀ (t : Nat) (gx : Nat), tmplFor ss d L mode i = t →
              (∃ tn, lookup P (t, []) = some tn ∧ endOut tn.kind = [] ∧ inst P O gx (t, []) (i, k, N) = some x) →
              ∃ g, instTmpls P O g a (numberFrom (i :: rest) k N) = some (x ++ y) := by
            intro t gx ht ⟨tn, hlt, hend, hb⟩
            refine ⟨max gx g2 + 1, ?_⟩
            have hb' := (inst_mono P O (Nat.le_max_left gx g2)).1 _ _ _ hb
            have hg2' := (inst_mono P O (Nat.le_max_right gx g2)).2.2.2 _ _ _ hg2
            simp [numberFrom, instTmpls, htm, ht, hlt, hb', hg2', hend]
          have elemCase : (d.node i).kind = .root ∨ (d.node i).kind = .elem →
              applyNodes q ss d [] f (d.children i) 1 (d.children i).length mode [] [] = some x →
              ∃ g, instTmpls P O g a (numberFrom (i :: rest) k N) = some (x ++ y) := by
            intro hk hx
            obtain ⟨g1, hg1⟩ := ihA (L.builtinElem mode, [0]) none mode (d.children i) 1 (d.children i).length [] x hbEi hm hx
            refine key (L.builtinElem mode) (g1 + 3) (by rcases hk with hk | hk <;> simp [tmplFor, hci, hk]) ⟨_, hbE, by simp [Node.kind, endOut], ?_⟩
            have hc0 : lookup P (child (L.builtinElem mode, []) 0) = some (.mk .apply []) := lookup_child0 hbE
            have hsel : (oracleOf ss d L I).sel (L.builtinElem mode, [0]) (i, k, N) = numberFrom (d.children i) 1 (d.children i).length := by
              simp [oracleOf, hbEi]
            simp only [child] at hc0
            simp [inst, hbE, Node.kind, Node.kids, instKids, child, hc0, hsel, hg1, endOut]
          cases hk : (d.node i).kind with
          | root => simp only [hk] at hx; exact elemCase (Or.inl hk) hx
          | elem => simp only [hk] at hx; exact elemCase (Or.inr hk) hx
          | text =>
            simp [hk] at hx
            refine key L.builtinText 3 (by simp [tmplFor, hci, hk]) ⟨_, hbT, by simp [Node.kind, endOut], ?_⟩
            have hc0 : lookup P (child (L.builtinText, []) 0) = some (.mk .text []) := lookup_child0 hbT
            simp only [child] at hc0
            simp [inst, hbT, Node.kind, Node.kids, instKids, child, hc0, startOut, oracleOf, hbTi, endOut, ← hx]
          | attr =>
            simp [hk] at hx
            refine key L.builtinText 3 (by simp [tmplFor, hci, hk]) ⟨_, hbT, by simp [Node.kind, endOut], ?_⟩
            have hc0 : lookup P (child (L.builtinText, []) 0) = some (.mk .text []) := lookup_child0 hbT
            simp only [child] at hc0
            simp [inst, hbT, Node.kind, Node.kids, instKids, child, hc0, startOut, oracleOf, hbTi, endOut, ← hx]
          | comment =>
            simp [hk] at hx
            subst hx
            refine key L.builtinNone 2 (by simp [tmplFor, hci, hk]) ⟨_, hbN, by simp [Node.kind, endOut], ?_⟩
            simp [inst, hbN, Node.kind, Node.kids, instKids]
          | pi =>
            simp [hk] at hx
            subst hx
            refine key L.builtinNone 2 (by simp [tmplFor, hci, hk]) ⟨_, hbN, by simp [Node.kind, endOut], ?_⟩
            simp [inst, hbN, Node.kind, Node.kids, instKids]

/-- **the specification is the recursive instantiation with the instantiated oracle**: for a stylesheet of the
fragment (represented by `P`, `I`, `L`; no strip-space, no global variables, no keys), whatever `Spec.transform`
yields is the normal form of what `Core.instRun` yields from the rule chosen for the root, with every oracle answer
computed by `Spec.eval` / `chooseTemplateIdx`. -/
theorem transform_eq_instRun (hR : Represents P I L ss d) (hstrip : ss.stripSpace = []) (hglob : ss.globals = [])
    (hm : none ∈ L.modes) (fuel : Nat) (tr : List REv) (h : transform ss d fuel = some tr) :
    ∃ g tr0, instRun P O g (tmplFor ss d L none 0) (0, 1, 1) = some tr0 ∧ tr = normalize tr0 := by
  cases fuel with
  | zero => simp [transform, transformWith, globalsEnv] at h
  | succ f =>
    simp only [transform, transformWith, hstrip, hglob, stripDoc, List.isEmpty_nil, if_true, globalsEnv,
      Option.bind_eq_bind, Option.bind_some, Option.bind_eq_some_iff] at h
    obtain ⟨evs, hev, hfin⟩ := h
    obtain ⟨hbE, hbEi⟩ := hR.bElem none hm
    obtain ⟨g, hg⟩ := (simS P I L ss d hR (f + 1)).2.2.2.2 (L.builtinElem none, [0]) none none [0] 1 1 [] evs hbEi hm hev
    have htm : (oracleOf ss d L I).tmpl (L.builtinElem none, [0]) (0, 1, 1) = tmplFor ss d L none 0 := by
      simp [oracleOf, hbEi]
    cases g with
    | zero => simp [instTmpls] at hg
    | succ g =>
      simp only [numberFrom, instTmpls, htm] at hg
      cases hl : lookup P (tmplFor ss d L none 0, []) with
      | none => simp [hl] at hg
      | some tn =>
        cases hb : inst P O g (tmplFor ss d L none 0, []) (0, 1, 1) with
        | none => simp [hl, hb] at hg
        | some b =>
          cases hr : instTmpls P O g (L.builtinElem none, [0]) [] with
          | none => simp [hl, hb, hr] at hg
          | some r =>
            cases g with
            | zero => simp [inst] at hb
            | succ g' =>
              simp [hl, hb, instTmpls] at hg
              refine ⟨g' + 1, b ++ endOut tn.kind, ?_, ?_⟩
              · simp [instRun, hl, hb]
              · simp [Quirks.spec] at hfin
                rw [← hfin, ← hg]
end

theorem foldl_pick {α : Type} (Q : α → Prop) (f : Option α → α → Option α)
    (hf : ∀ acc x r, f acc x = some r → r = x ∨ acc = some r) :
    ∀ (l : List α) (init : Option α) (r : α), (∀ x ∈ l, Q x) → (∀ y, init = some y → Q y) →
      l.foldl f init = some r → Q r := by
  intro l
  induction l with
  | nil => intro init r _ hi h; exact hi r h
  | cons x xs ih =>
    intro init r hl hi h
    simp only [List.foldl_cons] at h
    refine ih (f init x) r (fun y hy => hl y (List.mem_cons_of_mem _ hy)) ?_ h
    intro y hy
    rcases hf init x y hy with h1 | h1
    · subst h1; exact hl _ List.mem_cons_self
    · exact hi y h1

/-- the rule `chooseTemplateIdx` returns is the template at the returned position of the stylesheet -/
theorem chooseTemplateIdx_get (ss : Stylesheet) (d : Doc) (fuel n : Nat) (mode : Option String) (idx : Nat) (tm : Template)
    (h : chooseTemplateIdx ss d fuel n mode = some (idx, tm)) : ss.templates[idx]? = some tm := by
  simp only [chooseTemplateIdx, Option.map_eq_some_iff] at h
  obtain ⟨r, hr, he⟩ := h
  have := foldl_pick (fun (x : Nat × Int × Nat × Template) => ss.templates[x.2.2.1]? = some x.2.2.2) _ ?_ _ none r ?_ (by simp) hr
  · rw [he] at this; exact this
  · intro acc x r h
    cases acc with
    | none => simp at h; exact Or.inl h.symm
    | some b =>
      simp only at h
      split at h
      · exact Or.inl (Option.some.inj h).symm
      · exact Or.inr h
  · intro x hx
    simp only [List.mem_flatMap] at hx
    obtain ⟨⟨t, i⟩, hti, hx⟩ := hx
    have hg : ss.templates[i]? = some t := List.mem_zipIdx_iff_getElem?.mp hti
    split at hx
    · simp at hx
    · simp only [List.mem_map] at hx
      obtain ⟨p, _, hp⟩ := hx
      subst hp
      exact hg

/-! ## the hypotheses are satisfiable: a concrete stylesheet of the fragment, for every document -/

def exSheet : Stylesheet :=
  { templates := [
      { pats := [.root], body := [.lre "out" [("id", [.lit "v", .expr .ctx])] [.applyTemplates none none [] []]] },
      { pats := [.ctx], body := [.text "x", .valueOf .ctx, .if_ (.lit "y") [.text "z"], .forEach .ctx [] [.text "w"]] } ] }

def exProg : Prog :=
  [ .mk .block [.mk (.lre (sheetName "out")) [.mk (.attr (sheetName "id")) [], .mk .apply []]],
    .mk .block [.mk .text [], .mk .text [], .mk .choose [.mk .block [.mk .text []]], .mk .forEach [.mk .text []]],
    .mk .block [.mk .apply []], .mk .block [.mk .text []], .mk .block [] ]

def exLayout : Layout := { nT := 2, modes := [none], namedIdx := fun _ => 0 }

def exInfo : Addr → Info
  | (0, [0, 0]) => .avt [.lit "v", .expr .ctx]
  | (0, [1, 0]) => .apply none none
  | (1, [0]) => .lit "x"
  | (1, [1]) => .valueOf .ctx
  | (1, [2]) => .tests [.lit "y"]
  | (1, [0, 0, 2]) => .lit "z"
  | (1, [3]) => .forEach .ctx
  | (1, [0, 3]) => .lit "w"
  | (2, [0]) => .apply none none
  | (3, [0]) => .nodeValue
  | _ => .none_

theorem exRepresents (d : Doc) : Represents exProg exInfo exLayout exSheet d := by
  have ht : ∀ idx tm, exSheet.templates[idx]? = some tm → RepT exProg exInfo exLayout idx tm := by
    intro idx tm h
    match idx with
    | 0 =>
      simp [exSheet] at h; subst h
      refine ⟨_, rfl, rfl, ?_⟩
      refine .cons _ _ _ _ (.lre _ _ _ _ _ rfl rfl (.cons _ _ _ _ _ rfl rfl (.nil _ _))
        (.cons _ _ _ _ (.apply _ _ _ rfl rfl (by simp [exLayout])) (.nil _ _)) (by simp)) (.nil _ _)
    | 1 =>
      simp [exSheet] at h; subst h
      refine ⟨_, rfl, rfl, ?_⟩
      refine .cons _ _ _ _ (.text _ _ rfl rfl) (.cons _ _ _ _ (.valueOf _ _ rfl rfl) (.cons _ _ _ _ ?_ (.cons _ _ _ _ ?_ (.nil _ _))))
      · exact .if_ _ _ _ _ rfl rfl rfl (.cons _ _ _ _ (.text _ _ rfl rfl) (.nil _ _))
      · exact .forEach _ _ _ _ rfl rfl rfl (.cons _ _ _ _ (.text _ _ rfl rfl) (.nil _ _))
    | n + 2 => simp [exSheet] at h
  refine ⟨rfl, rfl, ?_, ?_, ?_, ⟨rfl, rfl⟩, rfl⟩
  · intro i m idx tm h; exact ht idx tm (chooseTemplateIdx_get _ _ _ _ _ _ _ h)
  · intro name tm h; simp [findNamed, exSheet] at h
  · intro m hm
    simp [exLayout] at hm; subst hm
    exact ⟨rfl, rfl⟩

end XalanModel.C01.CoreSpec
