import XalanModel.Generated.C02_OpCodes
import XalanModel.Generated.C02_Flags
/-!
# C02 layer 1 — the op map and the recursive-descent compiler (operator layers)

Mirror of `XPathExpression.cpp` (`appendOpCode`, `insertOpCode`, `updateOpCodeLength`,
`updateShiftedOpCodeLength`, `pushArgumentOnOpCodeMap`) on `List Int`, and of
`XPathProcessorImpl.cpp` `Expr … PrimaryExpr` (lines 934–1533) plus the part of `LocationPath` /
`Step` / `Basis` / `NodeTest` that an operand-position token of the fragment can reach.

Tokens: the token *queue* of the C++ (strings, positions) is abstracted: a token carries its kind
and the op-map payload the C++ would push for it (queue positions / number-literal index), which
the driver's annotator computes (`Driver/C02.lean`).  The literal / number / `$QName` branches of
`PrimaryExpr` are *opaque atoms*: they append `[op, len, payload…]`.

Every op-code number and length comes from `Generated.C02` (regenerated from the source).
Core Lean only.
-/
namespace XalanModel.C02
open XalanModel.Generated.C02

abbrev OpMap := List Int

/-- what `tokenIs(s_divString)` … can distinguish about an NCName token -/
inductive NameKind | div | mod | and | or | other
deriving Repr, DecidableEq, BEq

inductive Tok
  | num (i j : Int)              -- number literal: index in m_numberLiteralValues, queue position
  | lit (j : Int)                -- quoted literal: queue position
  | var (i j : Int)              -- `$` QName (fused): queue positions of namespace and local name
  | name (k : NameKind) (j : Int)  -- NCName, with the queue position `pushCurrentTokenOnOpCodeMap` pushes
  | star | lpar | rpar | minus | plus | eq | bang | lt | gt | bar
  | neq | leq | geq              -- `!=` `<=` `>=` as single tokens (only when `compoundOperatorTokens`)
deriving Repr, DecidableEq, BEq

/-! ## XPathExpression primitives -/

/-- `opCodeMapLength()`: reads the length cell of the first op code once it exists -/
def mapLength (m : OpMap) : Int :=
  if 1 < m.length then m.getD 1 0 else m.length

/-- `m_opMap[s_opCodeMapLengthIndex] += n` -/
def bumpTotal (m : OpMap) (n : Int) : OpMap := m.modify 1 (· + n)

/-- `appendOpCode(theOpCode)` -/
def appendOpCode (m : OpMap) (c : Int) : Option OpMap :=
  let n := getOpCodeLength c
  if n = 0 then none
  else
    let m1 := if n > 1 then m ++ (c :: n :: List.replicate (n.toNat - 2) eENDOP) else m ++ [c]
    some (if m.length ≠ 0 then bumpTotal m1 n else m1)

/-- `insertOpCode(theOpCode, theIndex)`; returns the new map and the number of cells inserted -/
def insertOpCode (m : OpMap) (c : Int) (idx : Nat) : Option (OpMap × Int) :=
  let n := getOpCodeLength c
  if n = 0 then none
  else
    let m1 := m.take idx ++ (c :: List.replicate (n.toNat - 1) (-1)) ++ m.drop idx
    some (bumpTotal m1 n, n)

/-- `updateOpCodeLength(theOpCode, theIndex)` -/
def updateOpCodeLength (m : OpMap) (c : Int) (idx : Nat) : Option OpMap :=
  if getOpCodeLength c = 0 ∨ m[idx]? ≠ some c then none
  else some (m.set (idx + 1) (mapLength m - idx))

/-- `updateOpCodeLength(theIndex)` -/
def updateOpCodeLengthAt (m : OpMap) (idx : Nat) : Option OpMap :=
  match m[idx]? with
  | some c => updateOpCodeLength m c idx
  | none => none

/-- `getOpCodeLengthFromOpMap(theIndex)` -/
def getOpCodeLengthFromOpMap (m : OpMap) (idx : Nat) : Option Int :=
  match m[idx]? with
  | none => none
  | some c =>
    let l := getOpCodeLength c
    if l = 0 then none
    else if l > 1 then m[idx + 1]? else some 0

/-- `updateShiftedOpCodeLength(theOpCode, theOriginalIndex, theNewIndex)` -/
def updateShiftedOpCodeLength (m : OpMap) (c : Int) (newIdx : Nat) : Option OpMap :=
  if getOpCodeLength c = 0 ∨ m[newIdx]? ≠ some c then none
  else if newIdx + 1 ≥ m.length then none
  else
    let next := (newIdx : Int) + m.getD (newIdx + 1) 0       -- getNextOpCodePosition
    if next < 0 then none
    else if next.toNat < m.length then
      match getOpCodeLengthFromOpMap m next.toNat with
      | some l => some (m.modify (newIdx + 1) (· + l))
      | none => none
    else some m

/-- `pushArgumentOnOpCodeMap` / `pushCurrentTokenOnOpCodeMap` / `pushNumberLiteralOnOpCodeMap` -/
def pushArg (m : OpMap) (v : Int) : OpMap := bumpTotal (m ++ [v]) 1

/-- `updateOpCodeLengthAfterNodeTest(theIndex)` -/
def updateOpCodeLengthAfterNodeTest (m : OpMap) (idx : Nat) : Option OpMap :=
  match m[idx]? with
  | none => none
  | some c =>
    if getOpCodeLength c = 0 then none
    else some (m.set (idx + 2) (mapLength m - idx))

/-! ## parser state -/

structure St where
  ops : OpMap
  toks : List Tok       -- head = m_token; [] = the empty token
deriving Repr, DecidableEq

namespace St
/-- `nextToken()`: the new state and the value it returns -/
def next (s : St) : St × Bool :=
  let t := s.toks.tail
  ({ s with toks := t }, !t.isEmpty)
def adv (s : St) : St := s.next.1
def cur (s : St) : Option Tok := s.toks.head?
/-- `lookahead(c, 1)` -/
def look1 (s : St) : Option Tok := s.toks.tail.head?
def pos (s : St) : Nat := (mapLength s.ops).toNat
end St

def isName (k : NameKind) : Option Tok → Bool
  | some (.name k' _) => k == k'
  | _ => false

/-! ## operand position: `PrimaryExpr` and what it reaches -/

/-- `Step()` for the tokens of the fragment (no `.`/`..`/`@`/axis/`/`), then `NodeTest()` via `Basis()`. -/
def step (s : St) : Option St :=
  let opPos := s.pos
  match s.cur with
  | none => none                                   -- error(ExpectedNodeTest)
  | some .star =>
    -- Basis: eFROM_CHILDREN; NodeTest: lookahead('(',1)? no for `*` unless followed by '('
    if s.look1 == some .lpar then none             -- getNodeTypeToken("*") = eENDOP -> error
    else do
      let m ← appendOpCode s.ops eFROM_CHILDREN
      let m ← appendOpCode m eNODENAME
      let m ← appendOpCode m eEMPTY
      let m ← appendOpCode m eELEMWILDCARD
      let m ← updateOpCodeLengthAfterNodeTest m opPos
      let m ← updateOpCodeLengthAt m opPos
      some { ops := m, toks := s.toks.tail }
  | some (.name _ j) =>
    if s.look1 == some .lpar then none             -- unknown node type -> error
    else do
      let m ← appendOpCode s.ops eFROM_CHILDREN
      let m ← appendOpCode m eNODENAME
      let m ← appendOpCode m eEMPTY
      let m := pushArg m j
      let m ← updateOpCodeLengthAfterNodeTest m opPos
      let m ← updateOpCodeLengthAt m opPos
      some { ops := m, toks := s.toks.tail }
  | some .rpar => some s                           -- `else if (tokenIs(')') == false) error`: nothing for ')'
  | some _ => none                                 -- error(UnexpectedTokenFound)

/-- `LocationPath()` (no leading `/` in the fragment; `RelativeLocationPath` = one `Step`, no `/` follows) -/
def locationPath (s : St) : Option St := do
  let opPos := s.pos
  let m ← appendOpCode s.ops eOP_LOCATIONPATH
  let s1 : St := { s with ops := m }
  let s2 ← if locationPathRequiresStep && (s1.toks.isEmpty || s1.cur == some .rpar) then none   -- error(ExpectedNodeTest / UnexpectedTokenFound)
           else if s1.toks.isEmpty then some s1 else step s1
  let m ← appendOpCode s2.ops eENDOP
  let m ← updateOpCodeLength m eOP_LOCATIONPATH opPos
  some { s2 with ops := m }

/-- `PrimaryExpr()`; `expr` is the recursive `Expr()` for a parenthesised group -/
def primaryExpr (expr : St → Option St) (s : St) : Option St :=
  let opPos := s.pos
  match s.cur with
  | some (.lit j) => do
    let m ← appendOpCode s.ops eOP_LITERAL
    let m := pushArg m j
    let m ← updateOpCodeLength m eOP_LITERAL opPos
    some { ops := m, toks := s.toks.tail }
  | some (.var i j) => do
    let m ← appendOpCode s.ops eOP_VARIABLE
    let m := pushArg (pushArg m i) j
    let m ← updateOpCodeLength m eOP_VARIABLE opPos
    some { ops := m, toks := s.toks.tail }
  | some .lpar => do
    let m ← appendOpCode s.ops eOP_GROUP
    let s1 ← expr { ops := m, toks := s.toks.tail }
    match s1.cur with                                -- consumeExpected(')')
    | some .rpar =>
      let m ← updateOpCodeLength s1.ops eOP_GROUP opPos
      some { ops := m, toks := s1.toks.tail }
    | _ => none
  | some (.num i j) => do
    let m ← appendOpCode s.ops eOP_NUMBERLIT
    let m := pushArg (pushArg m i) j
    let m ← updateOpCodeLength m eOP_NUMBERLIT opPos
    some { ops := m, toks := s.toks.tail }
  | _ =>
    -- `lookahead('(', 1)` -> FunctionCall(): no function names in the fragment -> error
    if s.look1 == some .lpar ∧ s.cur.isSome then none
    else locationPath s

/-- `FilterExpr()` and `PathExpr()`: `[` and `/` are outside the fragment, so both reduce to `PrimaryExpr()` -/
def pathExpr (expr : St → Option St) (s : St) : Option St := primaryExpr expr s

/-- `UnionExpr()`: the do/while loop over `|` -/
def unionLoop (expr : St → Option St) (opPos : Nat) : Nat → Bool → St → Option St
  | 0, _, _ => none
  | f+1, foundUnion, s => do
    let s1 ← pathExpr expr s
    if s1.cur == some .bar then
      let m ← if foundUnion then some s1.ops else (insertOpCode s1.ops eOP_UNION opPos).map (·.1)
      unionLoop expr opPos f true { ops := m, toks := s1.toks.tail }
    else
      let m ← if foundUnion then appendOpCode s1.ops eENDOP else some s1.ops
      some { s1 with ops := m }

def unionExpr (expr : St → Option St) (s : St) : Option St := do
  let opPos := s.pos
  let s1 ← unionLoop expr opPos (s.toks.length + 1) false s
  let m ← updateOpCodeLengthAt s1.ops opPos
  some { s1 with ops := m }

/-- `UnaryExpr()`.  As found, the operand of `-` is compiled with `UnionExpr()`, not `UnaryExpr()`;
which of the two the current source does is read from the source by `translate/c02_flags.py`
(`unaryRecursesIntoUnary`), so the model follows the tree when the proposed fix is applied. -/
def unaryF (expr : St → Option St) : Nat → St → Option St
  | 0, _ => none
  | f+1, s =>
    let opPos := s.pos
    if s.cur == some .minus then do
      let s1 := s.adv
      let (m, _) ← insertOpCode s1.ops eOP_NEG opPos
      let s2 ← if unaryRecursesIntoUnary then unaryF expr f { s1 with ops := m }
               else unionExpr expr { s1 with ops := m }
      let m ← updateOpCodeLength s2.ops eOP_NEG opPos
      some { s2 with ops := m }
    else unionExpr expr s

def unaryExpr (expr : St → Option St) (s : St) : Option St := unaryF expr (s.toks.length + 1) s

/-! ## the four left-associative layers -/

/-- an operator recognised at the current token: its op code, the state after the `nextToken()`
calls, and the value of the last `nextToken()` (`foundToken`) -/
structure OpHit where
  code : Int
  st : St
  found : Bool

/-- `MultiplicativeExpr`: `*`, `div`, `mod` -/
def recogMul (s : St) : Option OpHit :=
  match s.cur with
  | some .star => some ⟨eOP_MULT, s.adv, s.next.2⟩
  | some (.name .div _) => some ⟨eOP_DIV, s.adv, s.next.2⟩
  | some (.name .mod _) => some ⟨eOP_MOD, s.adv, s.next.2⟩
  | _ => none

/-- `AdditiveExpr`: `+`, `-` -/
def recogAdd (s : St) : Option OpHit :=
  match s.cur with
  | some .plus => some ⟨eOP_PLUS, s.adv, s.next.2⟩
  | some .minus => some ⟨eOP_MINUS, s.adv, s.next.2⟩
  | _ => none

/-- `RelationalExpr`.  As found: `<` then an optional `=` token (so `< =` with white space is accepted); with
`compoundOperatorTokens` (read from the source): `<` / `<=` / `>` / `>=` are single tokens. -/
def recogRel (s : St) : Option OpHit :=
  if compoundOperatorTokens then
    match s.cur with
    | some .lt => some ⟨eOP_LT, s.adv, s.next.2⟩
    | some .leq => some ⟨eOP_LTE, s.adv, s.next.2⟩
    | some .gt => some ⟨eOP_GT, s.adv, s.next.2⟩
    | some .geq => some ⟨eOP_GTE, s.adv, s.next.2⟩
    | _ => none
  else
  match s.cur with
  | some .lt =>
    let s1 := s.adv
    if s1.cur == some .eq then some ⟨eOP_LTE, s1.adv, s1.next.2⟩ else some ⟨eOP_LT, s1, s.next.2⟩
  | some .gt =>
    let s1 := s.adv
    if s1.cur == some .eq then some ⟨eOP_GTE, s1.adv, s1.next.2⟩ else some ⟨eOP_GT, s1, s.next.2⟩
  | _ => none

/-- `EqualityExpr`: as found `!` `=` (with lookahead), `=`; with `compoundOperatorTokens`: the token `!=`, `=` -/
def recogEq (s : St) : Option OpHit :=
  if compoundOperatorTokens then
    match s.cur with
    | some .neq => some ⟨eOP_NOTEQUALS, s.adv, s.next.2⟩
    | some .eq => some ⟨eOP_EQUALS, s.adv, s.next.2⟩
    | _ => none
  else
  match s.cur with
  | some .bang =>
    if s.look1 == some .eq then some ⟨eOP_NOTEQUALS, s.adv.adv, s.adv.next.2⟩ else none
  | some .eq => some ⟨eOP_EQUALS, s.adv, s.next.2⟩
  | _ => none

/-- The common body of `EqualityExpr(int)`, `RelationalExpr(int)`, `AdditiveExpr(int)`,
`MultiplicativeExpr(int)`: the operator is inserted at the *saved* position `opPos`, the right
term is compiled by the recursive call with that same position, and the displacement returned by
the recursion says where this call's own op code has moved to. -/
def binLevel (recog : St → Option OpHit) (lower : St → Option St) :
    Nat → Option Nat → St → Option (St × Int)
  | 0, _, _ => none
  | f+1, opCodePos, s => do
    let opPos := opCodePos.getD s.pos
    let s1 ← lower s
    match recog s1 with
    | none => some (s1, 0)
    | some h =>
      if !h.found then none                       -- error(ExpectedToken)
      else
        let (m, ld) ← insertOpCode h.st.ops h.code opPos
        let m ← updateOpCodeLength m h.code opPos
        let (s2, d) ← binLevel recog lower f (some opPos) { h.st with ops := m }
        let m ← if d > 0 then updateShiftedOpCodeLength s2.ops h.code (opPos + d.toNat)
                 else updateOpCodeLength s2.ops h.code opPos
        some ({ s2 with ops := m }, d + ld)

def runLevel (recog : St → Option OpHit) (lower : St → Option St) (s : St) : Option St :=
  (binLevel recog lower (s.toks.length + 1) none s).map (·.1)

/-- `AndExpr()` / `OrExpr()`: right-recursive, no displacement bookkeeping -/
def boolLevel (k : NameKind) (code : Int) (lower : St → Option St) : Nat → St → Option St
  | 0, _ => none
  | f+1, s => do
    let opPos := s.pos
    let s1 ← lower s
    if isName k s1.cur then
      let (s2, found) := s1.next
      if !found then none
      else
        let (m, _) ← insertOpCode s2.ops code opPos
        let s3 ← boolLevel k code lower f { s2 with ops := m }
        let m ← updateOpCodeLength s3.ops code opPos
        some { s3 with ops := m }
    else some s1

def mulExpr (expr : St → Option St) : St → Option St := runLevel recogMul (unaryExpr expr)
def addExpr (expr : St → Option St) : St → Option St := runLevel recogAdd (mulExpr expr)
def relExpr (expr : St → Option St) : St → Option St := runLevel recogRel (addExpr expr)
def eqExpr (expr : St → Option St) : St → Option St := runLevel recogEq (relExpr expr)
def andExpr (expr : St → Option St) (s : St) : Option St :=
  boolLevel .and eOP_AND (eqExpr expr) (s.toks.length + 1) s
def orExpr (expr : St → Option St) (s : St) : Option St :=
  boolLevel .or eOP_OR (andExpr expr) (s.toks.length + 1) s

/-- `Expr()`, with fuel for the nesting of parenthesised groups -/
def exprF : Nat → St → Option St
  | 0, _ => none
  | f+1, s => orExpr (exprF f) s

/-- `initXPath`: `appendOpCode(eOP_XPATH); nextToken(); Expr(); if (!m_token.empty()) error(...)`.
(An empty token queue is rejected by `tokenize` before that.) -/
def compile (ts : List Tok) : Option OpMap :=
  if ts.isEmpty then none
  else do
    let m ← appendOpCode [] eOP_XPATH
    let s ← exprF (ts.length + 1) { ops := m, toks := ts }
    if s.toks.isEmpty then some s.ops else none

end XalanModel.C02
