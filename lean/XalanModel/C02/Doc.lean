/-!
# C02 layer 3 — documents, axes (specification) and the `find*` walks (model)

A document is the table of its nodes in document order (node id = index; node 0 is the root;
an element is followed by its attributes, then by its children, recursively), each with the id of
its parent.  This is the XPath 1.0 data model (§5) without namespace nodes.

* `Doc.axis` — the thirteen axes of §2.2 as *sets given by a membership test over the table*, listed in
  proximity order (document order for forward axes, reverse document order for reverse axes).
* `Doc.find*` — the walks of `XPath.cpp` (`findChildren` 3814, `findDescendants` 3864, `findFollowing`
  3937, `findFollowingSiblings` 4031, `findPreceeding` 4127, `findPreceedingSiblings` 4248,
  `findAncestors` 3660, `findAncestorsOrSelf` 3710, `findAttributes` 3755, `findParent`, `findSelf`) over
  the DOM navigation primitives `getFirstChild / getNextSibling / getPreviousSibling /
  getParentOfNode / getAttributes`, loops turned into fuel recursion, collecting nodes in the order the
  C++ adds them (reverse axes in reverse document order).
Core Lean only.
-/
namespace XalanModel.C02

inductive Kind | root | elem | attr | text | comment | pi
deriving Repr, DecidableEq, BEq

structure NodeRec where
  kind : Kind
  name : String
  value : String
  parent : Option Nat
deriving Repr

abbrev Doc := List NodeRec

inductive Axis
  | ancestor | ancestorOrSelf | attribute | child | descendant | descendantOrSelf | following
  | followingSibling | namespace | parent | preceding | precedingSibling | self
deriving Repr, DecidableEq

namespace Doc

def kindOf (d : Doc) (i : Nat) : Kind := (d[i]?.map (·.kind)).getD .root
def isAttr (d : Doc) (i : Nat) : Bool := d.kindOf i == .attr
def parentOf (d : Doc) (i : Nat) : Option Nat := d[i]?.bind (·.parent)

/-! ## specification: §2.2 -/

/-- the chain parent, grandparent, … (nearest first) -/
def ancestorsF (d : Doc) : Nat → Nat → List Nat
  | 0, _ => []
  | f+1, i => match d.parentOf i with
    | none => []
    | some p => p :: ancestorsF d f p

def ancestors (d : Doc) (i : Nat) : List Nat := ancestorsF d d.length i

def ids (d : Doc) : List Nat := List.range d.length

/-- membership test of each axis: is `m` on the axis of context node `n`? -/
def onAxis (d : Doc) (a : Axis) (n m : Nat) : Bool :=
  match a with
  | .child => d.parentOf m == some n && !d.isAttr m
  | .attribute => d.parentOf m == some n && d.isAttr m
  | .parent => d.parentOf n == some m
  | .self => m == n
  | .ancestor => (d.ancestors n).contains m
  | .ancestorOrSelf => m == n || (d.ancestors n).contains m
  | .descendant => (d.ancestors m).contains n && !d.isAttr m
  | .descendantOrSelf => m == n || ((d.ancestors m).contains n && !d.isAttr m)
  | .following => n < m && !d.isAttr m && !(d.ancestors m).contains n
  | .preceding => m < n && !d.isAttr m && !(d.ancestors n).contains m
  | .followingSibling => n < m && !d.isAttr n && !d.isAttr m && d.parentOf m == d.parentOf n && (d.parentOf n).isSome
  | .precedingSibling => m < n && !d.isAttr n && !d.isAttr m && d.parentOf m == d.parentOf n && (d.parentOf n).isSome
  | .namespace => false        -- no namespace nodes in the modelled documents

def Axis.isReverse : Axis → Bool
  | .ancestor | .ancestorOrSelf | .preceding | .precedingSibling => true
  | _ => false

/-- the nodes of the axis in proximity order -/
def axis (d : Doc) (a : Axis) (n : Nat) : List Nat :=
  let l := d.ids.filter (d.onAxis a n)
  if Axis.isReverse a then l.reverse else l

/-! ## model: DOM navigation and the walks of XPath.cpp -/

/-- first index in `[k, hi)` satisfying `p` -/
def nextFrom (p : Nat → Bool) (hi : Nat) : Nat → Nat → Option Nat
  | 0, _ => none
  | f+1, k => if k ≥ hi then none else if p k then some k else nextFrom p hi f (k + 1)

def firstFrom (d : Doc) (p : Nat → Bool) (k : Nat) : Option Nat := nextFrom p d.length (d.length + 1 - k) k

/-- last index in `[0, k)` satisfying `p` -/
def prevBelow (p : Nat → Bool) : Nat → Option Nat
  | 0 => none
  | k+1 => if p k then some k else prevBelow p k

/-- `getFirstChild()` (attributes are not children) -/
def firstChild (d : Doc) (n : Nat) : Option Nat :=
  d.firstFrom (fun m => d.parentOf m == some n && !d.isAttr m) (n + 1)

/-- `getNextSibling()` (0 for an attribute) -/
def nextSibling (d : Doc) (m : Nat) : Option Nat :=
  if d.isAttr m then none else
  match d.parentOf m with
  | none => none
  | some p => d.firstFrom (fun k => d.parentOf k == some p && !d.isAttr k) (m + 1)

/-- `getPreviousSibling()` -/
def prevSibling (d : Doc) (m : Nat) : Option Nat :=
  if d.isAttr m then none else
  match d.parentOf m with
  | none => none
  | some p => prevBelow (fun k => d.parentOf k == some p && !d.isAttr k) m

/-- follow `next` from `start`, collecting (do … while loops of findChildren / siblings / ancestors) -/
def chain (next : Nat → Option Nat) : Nat → Option Nat → List Nat
  | 0, _ => []
  | _, none => []
  | f+1, some k => k :: chain next f (next k)

def findChildren (d : Doc) (n : Nat) : List Nat := chain d.nextSibling d.length (d.firstChild n)
def findFollowingSiblings (d : Doc) (n : Nat) : List Nat := chain d.nextSibling d.length (d.nextSibling n)
def findPreceedingSiblings (d : Doc) (n : Nat) : List Nat := chain d.prevSibling d.length (d.prevSibling n)
def findAncestors (d : Doc) (n : Nat) : List Nat := chain d.parentOf d.length (d.parentOf n)
def findAncestorsOrSelf (d : Doc) (n : Nat) : List Nat := chain d.parentOf (d.length + 1) (some n)
def findParent (d : Doc) (n : Nat) : List Nat := (d.parentOf n).toList
def findSelf (_ : Doc) (n : Nat) : List Nat := [n]

/-- `getAttributes()->item(j)`, j = 0 … -/
def findAttributes (d : Doc) (n : Nat) : List Nat :=
  if d.kindOf n == .elem then
    chain (fun k => d.firstFrom (fun m => d.parentOf m == some n && d.isAttr m) (k + 1)) d.length
      (d.firstFrom (fun m => d.parentOf m == some n && d.isAttr m) (n + 1))
  else []

/-- the inner `while(0 == nextNode)` climb of `findDescendants`: next sibling, else up (stop at `stop`) -/
def climb (d : Doc) (stop : Option Nat) : Nat → Nat → Option Nat
  | 0, _ => none
  | f+1, pos =>
    match d.nextSibling pos with
    | some k => some k
    | none =>
      match d.parentOf pos with
      | none => none
      | some p => if some p == stop then none else climb d stop f p

/-- `findDescendants` (pre-order traversal below `context`; `orSelf` = eFROM_DESCENDANTS_OR_SELF) -/
def descWalk (d : Doc) (context : Nat) : Nat → Nat → List Nat
  | 0, _ => []
  | f+1, pos =>
    let next := match d.firstChild pos with
      | some k => some k
      | none => if pos == context then none else climb d (some context) d.length pos
    match next with
    | none => [pos]
    | some k => pos :: descWalk d context f k

def findDescendants (d : Doc) (orSelf : Bool) (n : Nat) : List Nat :=
  let l := descWalk d n (d.length + 1) n
  if orSelf then l else l.tail

/-- `findFollowing`: from the context, never into its subtree; an attribute context continues with the
first child of its owner element -/
def followWalk (d : Doc) (context : Nat) : Nat → Nat → List Nat
  | 0, _ => []
  | f+1, pos =>
    let down := if pos == context then none else d.firstChild pos
    let next := match down with
      | some k => some k
      | none =>
        let viaAttr := if d.isAttr pos then (d.parentOf pos).bind d.firstChild else none
        match viaAttr with
        | some k => some k
        | none =>
          if d.isAttr pos then
            -- the attribute's owner has no children: continue climbing from the owner
            (d.parentOf pos).bind fun p => climb d (some 0) d.length p
          else climb d (some 0) d.length pos
    let here := if pos == context then [] else [pos]
    match next with
    | none => here
    | some k => here ++ followWalk d context f k

def findFollowing (d : Doc) (n : Nat) : List Nat := followWalk d n (d.length + 1) n

/-- `findPreceeding`: pre-order walk from the top node to the context, skipping ancestors, then `reverse()` -/
def precWalk (d : Doc) (context : Nat) : Nat → Nat → List Nat
  | 0, _ => []
  | f+1, pos =>
    if pos == context then [] else
    let here := if (d.ancestors context).contains pos then [] else [pos]
    let down := if d.isAttr context && some pos == d.parentOf context then some context else d.firstChild pos
    let next := match down with
      | some k => some k
      | none => climb d (some 0) d.length pos
    match next with
    | none => here
    | some k => here ++ precWalk d context f k

def findPreceeding (d : Doc) (n : Nat) : List Nat := (precWalk d n (d.length + 1) 0).reverse

/-- what `step` gets from the `find*` function of the axis, before the node test -/
def find (d : Doc) (a : Axis) (n : Nat) : List Nat :=
  match a with
  | .child => d.findChildren n
  | .attribute => d.findAttributes n
  | .parent => d.findParent n
  | .self => d.findSelf n
  | .ancestor => d.findAncestors n
  | .ancestorOrSelf => d.findAncestorsOrSelf n
  | .descendant => d.findDescendants false n
  | .descendantOrSelf => d.findDescendants true n
  | .following => d.findFollowing n
  | .preceding => d.findPreceeding n
  | .followingSibling => d.findFollowingSiblings n
  | .precedingSibling => d.findPreceedingSiblings n
  | .namespace => []

/-- string-value (§5): concatenation of the descendant text nodes for root/element, the value otherwise -/
def stringValue (d : Doc) (n : Nat) : String :=
  match d.kindOf n with
  | .root | .elem =>
    String.join ((d.ids.filter fun m => d.kindOf m == .text && (d.ancestors m).contains n).map fun m => (d[m]?.map (·.value)).getD "")
  | _ => (d[n]?.map (·.value)).getD ""

end Doc
end XalanModel.C02

/-! ## well-formed pre-order tables

`WF d` is a *decidable* conjunction of properties of the table itself (not of the walks): subtree
intervals `[i, endOf i)` are nested, attributes directly follow their element, the DOM navigation
functions point where the intervals say, and the ancestor chain of a node is given by interval
containment.  Every document handed to the evaluator by the correspondence run is checked against it
(`xm_c02` answers `doc` with the verdict); the axis theorems of `AxesProofs.lean` hold for every `d`
with `WF d`. -/
namespace XalanModel.C02
namespace Doc

/-- end (exclusive) of the subtree interval of `i`: the first later index that does not have `i` among its ancestors -/
def endOf (d : Doc) (i : Nat) : Nat :=
  (d.firstFrom (fun j => !(d.ancestors j).contains i) (i + 1)).getD d.length

def onOpt {α : Type} (o : Option α) (s : α → Prop) (n : Prop) : Prop :=
  match o with
  | some a => s a
  | none => n

instance {α : Type} (o : Option α) (s : α → Prop) (n : Prop) [∀ a, Decidable (s a)] [Decidable n] : Decidable (onOpt o s n) := by
  cases o <;> simp only [onOpt] <;> infer_instance

structure WF (d : Doc) : Prop where
  w1 : ∀ i, i < d.length → i < d.endOf i ∧ d.endOf i ≤ d.length
  w4 : ∀ a, a < d.length → ∀ b, b < d.length → a < b → b < d.endOf a → d.endOf b ≤ d.endOf a
  w2 : ∀ p, p < d.length → onOpt (d.firstChild p)
        (fun c => p < c ∧ c < d.endOf p ∧ d.isAttr c = false ∧ ∀ j, j < d.length → p < j → j < c → d.isAttr j = true)
        (∀ j, j < d.length → p < j → j < d.endOf p → d.isAttr j = true)
  w3 : ∀ i, i < d.length → d.isAttr i = false → onOpt (d.nextSibling i)
        (fun k => k = d.endOf i ∧ onOpt (d.parentOf i) (fun p => k < d.endOf p) False)
        (onOpt (d.parentOf i) (fun p => d.endOf p = d.endOf i) True)
  w5 : ∀ i, i < d.length → onOpt (d.parentOf i)
        (fun p => p < i ∧ i < d.endOf p ∧ d.isAttr p = false ∧ ∀ x, x < d.length → p < x → x < i → d.endOf x ≤ i) True
  w8 : ∀ i, i < d.length → d.isAttr i = false → d.endOf i < d.length → d.isAttr (d.endOf i) = false
  wA : ∀ n, n < d.length → ∀ m, m < d.length → (d.ancestors m).contains n = (decide (n < m) && decide (m < d.endOf n))
  /-- node 0 is the root: no parent, not an attribute, its subtree is the whole table -/
  w0 : d.parentOf 0 = none ∧ d.isAttr 0 = false ∧ d.endOf 0 = d.length
  /-- an attribute has no subtree, its owner is not the root node, and only attributes lie between the owner and it -/
  w9 : ∀ i, i < d.length → d.isAttr i = true → d.endOf i = i + 1 ∧
        onOpt (d.parentOf i) (fun p => 0 < p ∧ ∀ j, j < d.length → p < j → j < i → d.isAttr j = true) False
  /-- attributes belong to elements -/
  w10 : ∀ i, i < d.length → d.isAttr i = true → onOpt (d.parentOf i) (fun p => d.kindOf p = .elem) True

def wfB (d : Doc) : Bool :=
  decide (∀ i, i < d.length → i < d.endOf i ∧ d.endOf i ≤ d.length) &&
  decide (∀ a, a < d.length → ∀ b, b < d.length → a < b → b < d.endOf a → d.endOf b ≤ d.endOf a) &&
  decide (∀ p, p < d.length → onOpt (d.firstChild p)
        (fun c => p < c ∧ c < d.endOf p ∧ d.isAttr c = false ∧ ∀ j, j < d.length → p < j → j < c → d.isAttr j = true)
        (∀ j, j < d.length → p < j → j < d.endOf p → d.isAttr j = true)) &&
  decide (∀ i, i < d.length → d.isAttr i = false → onOpt (d.nextSibling i)
        (fun k => k = d.endOf i ∧ onOpt (d.parentOf i) (fun p => k < d.endOf p) False)
        (onOpt (d.parentOf i) (fun p => d.endOf p = d.endOf i) True)) &&
  decide (∀ i, i < d.length → onOpt (d.parentOf i)
        (fun p => p < i ∧ i < d.endOf p ∧ d.isAttr p = false ∧ ∀ x, x < d.length → p < x → x < i → d.endOf x ≤ i) True) &&
  decide (∀ i, i < d.length → d.isAttr i = false → d.endOf i < d.length → d.isAttr (d.endOf i) = false) &&
  decide (∀ n, n < d.length → ∀ m, m < d.length → (d.ancestors m).contains n = (decide (n < m) && decide (m < d.endOf n))) &&
  decide (d.parentOf 0 = none ∧ d.isAttr 0 = false ∧ d.endOf 0 = d.length) &&
  decide (∀ i, i < d.length → d.isAttr i = true → d.endOf i = i + 1 ∧
        onOpt (d.parentOf i) (fun p => 0 < p ∧ ∀ j, j < d.length → p < j → j < i → d.isAttr j = true) False) &&
  decide (∀ i, i < d.length → d.isAttr i = true → onOpt (d.parentOf i) (fun p => d.kindOf p = .elem) True)

theorem wf_of_wfB (d : Doc) (h : d.wfB = true) : WF d := by
  simp only [wfB, Bool.and_eq_true, decide_eq_true_eq] at h
  obtain ⟨⟨⟨⟨⟨⟨⟨⟨⟨h1, h4⟩, h2⟩, h3⟩, h5⟩, h8⟩, hA⟩, h0⟩, h9⟩, h10⟩ := h
  exact ⟨h1, h4, h2, h3, h5, h8, hA, h0, h9, h10⟩

end Doc
end XalanModel.C02
