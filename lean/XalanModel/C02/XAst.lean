import XalanModel.C02.Doc
import XalanModel.C02.Encode
/-!
# C02 layer 3 — abstract syntax of the evaluated fragment and its reference parser

Written from the grammar of XPath 1.0 §2–3 (productions [1]–[39]), independent of Xalan's tokenizer and
op map: location paths over all axes (abbreviations `.`, `..`, `@`, `//`), node tests, predicates,
filter expressions, unions, the operator layers (binary operators left-associative), function calls.
No QNames with prefixes.  Core Lean only.
-/
namespace XalanModel.C02

inductive NodeTest
  | name (s : String) | any | node | text | comment | pi (target : Option String)
deriving Repr, DecidableEq

inductive X
  | num (v : Float) (literal : Bool)       -- `literal`: written as a Number token (the predicate shortcut looks at this)
  | lit (s : String)
  | var (n : String)
  | neg (e : X)
  | bin (op : BinOp) (l r : X)
  | and (l r : X)
  | or (l r : X)
  | union (l r : X)
  | step (a : Axis) (t : NodeTest) (preds : List X)
  | path (abs : Bool) (steps : List X)
  | filter (prim : X) (preds : List X) (steps : List X)
  | call (f : String) (args : List X)

inductive LT
  | num (s : String) | lit (s : String) | name (s : String) | sym (s : String)
deriving Repr, DecidableEq

def isNameStart (c : Char) : Bool := c.isAlpha || c == '_'
def isNameChar (c : Char) : Bool := c.isAlphanum || c == '_' || c == '-' || c == '.'

def lexGo : Nat → List Char → List LT → Option (List LT)
  | 0, _, _ => none
  | _, [], acc => some acc.reverse
  | f+1, c :: cs, acc =>
    if c == ' ' || c == '\t' || c == '\n' || c == '\r' then lexGo f cs acc
    else if c == '"' || c == '\'' then
      match cs.dropWhile (· != c) with
      | [] => none
      | _ :: rest => lexGo f rest (.lit (String.ofList (cs.takeWhile (· != c))) :: acc)
    else if c.isDigit || (c == '.' && (cs.head?.map Char.isDigit).getD false) then
      let d1 := (c :: cs).takeWhile Char.isDigit
      let r1 := (c :: cs).dropWhile Char.isDigit
      match r1 with
      | '.' :: r2 => lexGo f (r2.dropWhile Char.isDigit) (.num (String.ofList (d1 ++ '.' :: r2.takeWhile Char.isDigit)) :: acc)
      | _ => lexGo f r1 (.num (String.ofList d1) :: acc)
    else if isNameStart c then
      let n1 := cs.takeWhile isNameChar
      let r1 := cs.dropWhile isNameChar
      -- a prefixed (extension) function name `prefix:local`: one colon followed by a name start character
      match r1 with
      | ':' :: c2 :: r2 =>
        if isNameStart c2 then
          lexGo f (r2.dropWhile isNameChar) (.name (String.ofList (c :: n1 ++ ':' :: c2 :: r2.takeWhile isNameChar)) :: acc)
        else lexGo f r1 (.name (String.ofList (c :: n1)) :: acc)
      | _ => lexGo f r1 (.name (String.ofList (c :: n1)) :: acc)
    else
      let two (s : String) (rest : List Char) := lexGo f rest (.sym s :: acc)
      match c, cs with
      | '/', '/' :: r => two "//" r
      | '.', '.' :: r => two ".." r
      | ':', ':' :: r => two "::" r
      | '!', '=' :: r => two "!=" r
      | '<', '=' :: r => two "<=" r
      | '>', '=' :: r => two ">=" r
      | _, _ =>
        if "()[],|/.@*+-=<>$".toList.contains c then lexGo f cs (.sym (String.singleton c) :: acc) else none

def lex (s : List Char) : Option (List LT) := lexGo (s.length + 1) s []

def axisOfName (s : String) : Option Axis :=
  match s with
  | "ancestor" => some .ancestor | "ancestor-or-self" => some .ancestorOrSelf | "attribute" => some .attribute
  | "child" => some .child | "descendant" => some .descendant | "descendant-or-self" => some .descendantOrSelf
  | "following" => some .following | "following-sibling" => some .followingSibling | "namespace" => some .namespace
  | "parent" => some .parent | "preceding" => some .preceding | "preceding-sibling" => some .precedingSibling
  | "self" => some .self | _ => none

def isNodeType (s : String) : Bool := s == "node" || s == "text" || s == "comment" || s == "processing-instruction"

/-- `m / 10^k` rounded to the nearest double, ties to even (what a correctly rounded `strtod` returns): exact integer
arithmetic, result assembled from sign/exponent/fraction bits -/
def decToDouble (m k : Nat) : Float :=
  if m == 0 then 0.0 else
  let den := 10 ^ k
  -- e with 2^e ≤ m/den < 2^(e+1)
  let e0 : Int := (m.log2 : Int) - (den.log2 : Int)
  let ge (e : Int) : Bool := if e ≥ 0 then m ≥ den * 2 ^ e.toNat else m * 2 ^ (-e).toNat ≥ den      -- m/den ≥ 2^e
  let e : Int := if ge (e0 + 1) then e0 + 1 else if ge e0 then e0 else e0 - 1
  let round (sh : Int) : Nat :=                                 -- round(m/den · 2^sh), half to even
    let n := if sh ≥ 0 then m * 2 ^ sh.toNat else m
    let dd := if sh ≥ 0 then den else den * 2 ^ (-sh).toNat
    let q := n / dd
    let r := n % dd
    if 2 * r > dd || (2 * r == dd && q % 2 == 1) then q + 1 else q
  let biased : Int := e + 1023
  if biased ≤ 0 then
    Float.ofBits (round 1074).toUInt64                            -- subnormal (or rounds up to the least normal)
  else
    let mant := round (52 - e)
    let (mant, biased) := if mant == 2 ^ 53 then (2 ^ 52, biased + 1) else (mant, biased)
    if biased ≥ 2047 then 1.0 / 0.0
    else Float.ofBits ((biased.toNat * 2 ^ 52 + (mant - 2 ^ 52)).toUInt64)

/-- decimal numeral (digits, optional fraction) -> the nearest double -/
def numeralValue (s : String) : Float :=
  let cs := s.toList
  let ip := cs.takeWhile Char.isDigit
  let fp := (cs.dropWhile Char.isDigit).drop 1
  let m := (ip ++ fp).foldl (fun a c => a * 10 + (c.toNat - 48)) 0
  decToDouble m fp.length

abbrev PR := Option (X × List LT)

def binOpAt (k : Nat) (ts : List LT) : Option ((X → X → X) × List LT) :=
  match k, ts with
  | 0, .name "or" :: r => some (X.or, r)
  | 1, .name "and" :: r => some (X.and, r)
  | 2, .sym "=" :: r => some (X.bin .eq, r)
  | 2, .sym "!=" :: r => some (X.bin .ne, r)
  | 3, .sym "<" :: r => some (X.bin .lt, r)
  | 3, .sym "<=" :: r => some (X.bin .le, r)
  | 3, .sym ">" :: r => some (X.bin .gt, r)
  | 3, .sym ">=" :: r => some (X.bin .ge, r)
  | 4, .sym "+" :: r => some (X.bin .plus, r)
  | 4, .sym "-" :: r => some (X.bin .minus, r)
  | 5, .sym "*" :: r => some (X.bin .mult, r)
  | 5, .name "div" :: r => some (X.bin .div, r)
  | 5, .name "mod" :: r => some (X.bin .mod, r)
  | 7, .sym "|" :: r => some (X.union, r)
  | _, _ => none

/-- `lhs (op operand)*`, left-associative -/
def binLoop (operand : List LT → PR) (k : Nat) : Nat → X → List LT → PR
  | 0, _, _ => none
  | f+1, lhs, ts =>
    match binOpAt k ts with
    | none => some (lhs, ts)
    | some (mkNode, r) =>
      match operand r with
      | none => none
      | some (rhs, r') => binLoop operand k f (mkNode lhs rhs) r'

def predLoop (expr : List LT → PR) : Nat → List X → List LT → Option (List X × List LT)
  | 0, _, _ => none
  | f+1, acc, ts =>
    match ts with
    | .sym "[" :: r =>
      match expr r with
      | some (p, .sym "]" :: r') => predLoop expr f (acc ++ [p]) r'
      | _ => none
    | _ => some (acc, ts)

def parseStep (expr : List LT → PR) (ts : List LT) : PR :=
  let preds (a : Axis) (t : NodeTest) (r : List LT) : PR :=
    (predLoop expr (r.length + 1) [] r).map fun (ps, r') => (X.step a t ps, r')
  let test (a : Axis) (r : List LT) : PR :=
    match r with
    | .sym "*" :: r' => preds a .any r'
    | .name n :: .sym "(" :: .sym ")" :: r' =>
      if n == "node" then preds a .node r' else if n == "text" then preds a .text r'
      else if n == "comment" then preds a .comment r' else if n == "processing-instruction" then preds a (.pi none) r'
      else none
    | .name "processing-instruction" :: .sym "(" :: .lit s :: .sym ")" :: r' => preds a (.pi (some s)) r'
    | .name n :: r' => match r' with
      | .sym "(" :: _ => none
      | _ => preds a (.name n) r'
    | _ => none
  match ts with
  | .sym "." :: r => some (X.step .self .node [], r)
  | .sym ".." :: r => some (X.step .parent .node [], r)
  | .sym "@" :: r => test .attribute r
  | .name n :: .sym "::" :: r => match axisOfName n with
    | some a => test a r
    | none => none
  | _ => test .child ts

/-- `Step (('/' | '//') Step)*` -/
def relPath (expr : List LT → PR) : Nat → List X → List LT → Option (List X × List LT)
  | 0, _, _ => none
  | f+1, acc, ts =>
    match parseStep expr ts with
    | none => none
    | some (s, r) =>
      match r with
      | .sym "/" :: r' => relPath expr f (acc ++ [s]) r'
      | .sym "//" :: r' => relPath expr f (acc ++ [s, X.step .descendantOrSelf .node []]) r'
      | _ => some (acc ++ [s], r)

def startsStep (ts : List LT) : Bool :=
  match ts with
  | .sym "." :: _ | .sym ".." :: _ | .sym "@" :: _ | .sym "*" :: _ | .name _ :: _ => true
  | _ => false

def argLoop (expr : List LT → PR) : Nat → List X → List LT → Option (List X × List LT)
  | 0, _, _ => none
  | f+1, acc, ts =>
    match expr ts with
    | none => none
    | some (a, .sym "," :: r) => argLoop expr f (acc ++ [a]) r
    | some (a, .sym ")" :: r) => some (acc ++ [a], r)
    | _ => none

/-- PathExpr [19]: LocationPath | FilterExpr (('/' | '//') RelativeLocationPath)? -/
def parsePath (expr : List LT → PR) (ts : List LT) : PR :=
  let fuel := ts.length + 1
  let filterTail (prim : X) (r : List LT) : PR :=
    match predLoop expr fuel [] r with
    | none => none
    | some (ps, r1) =>
      match r1 with
      | .sym "/" :: r2 => (relPath expr fuel [] r2).map fun (ss, r3) => (X.filter prim ps ss, r3)
      | .sym "//" :: r2 => (relPath expr fuel [X.step .descendantOrSelf .node []] r2).map fun (ss, r3) => (X.filter prim ps ss, r3)
      | _ => if ps.isEmpty then some (prim, r1) else some (X.filter prim ps [], r1)
  match ts with
  | .num s :: r => filterTail (X.num (numeralValue s) true) r
  | .lit s :: r => filterTail (X.lit s) r
  | .sym "$" :: .name n :: r => filterTail (X.var n) r
  | .sym "(" :: r =>
    match expr r with
    | some (e, .sym ")" :: r') => filterTail e r'
    | _ => none
  | .sym "/" :: r =>
    if startsStep r then (relPath expr fuel [] r).map fun (ss, r') => (X.path true ss, r')
    else some (X.path true [], r)
  | .sym "//" :: r => (relPath expr fuel [X.step .descendantOrSelf .node []] r).map fun (ss, r') => (X.path true ss, r')
  | .name n :: .sym "(" :: r =>
    if isNodeType n then (relPath expr fuel [] ts).map fun (ss, r') => (X.path false ss, r')
    else match r with
      | .sym ")" :: r' => filterTail (X.call n []) r'
      | _ => match argLoop expr fuel [] r with
        | some (as, r') => filterTail (X.call n as) r'
        | none => none
  | _ => (relPath expr fuel [] ts).map fun (ss, r') => (X.path false ss, r')

def parseUnary (expr : List LT → PR) : Nat → List LT → PR
  | 0, _ => none
  | f+1, ts =>
    match ts with
    | .sym "-" :: r => (parseUnary expr f r).map fun (e, r') => (X.neg e, r')
    | _ =>
      match parsePath expr ts with
      | none => none
      | some (p, r) => binLoop (parsePath expr) 7 (r.length + 1) p r

def parseLevel (expr : List LT → PR) : Nat → Nat → List LT → PR
  | 0, _, _ => none
  | f+1, k, ts =>
    if k ≥ 6 then parseUnary expr (ts.length + 1) ts
    else
      match parseLevel expr f (k + 1) ts with
      | none => none
      | some (l, r) => binLoop (parseLevel expr f (k + 1)) k (r.length + 1) l r

def parseExprF : Nat → List LT → PR
  | 0, _ => none
  | f+1, ts => parseLevel (parseExprF f) 8 0 ts

def parseX (s : List Char) : Option X :=
  match lex s with
  | none => none
  | some ts =>
    match parseExprF (ts.length + 2) ts with
    | some (e, []) => some e
    | _ => none

end XalanModel.C02
