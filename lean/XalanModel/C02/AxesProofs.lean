import XalanModel.C02.Doc
/-!
# C02 layer 3 — the descendant walk of `findDescendants` equals the descendant axis, for every well-formed document

`climb_spec` (the inner `while(0 == nextNode)` loop lands on the end of the current subtree), `descNext_spec` (the next
node visited is the least later non-attribute index inside the context's subtree), `descWalk_spec` (the walk lists
exactly those indices), `findDescendants_spec`.
-/
set_option linter.unusedSimpArgs false
namespace XalanModel.C02
namespace Doc


/-! list lemmas about filtering an interval of indices -/

theorem filter_range'_none (p : Nat → Bool) (a len : Nat) (h : ∀ j, a ≤ j → j < a + len → p j = false) :
    (List.range' a len).filter p = [] := by
  apply List.filter_eq_nil_iff.mpr
  intro j hj
  have := List.mem_range'_1.mp hj
  simp [h j this.1 this.2]

theorem filter_range'_first (p : Nat → Bool) : ∀ (g a len k : Nat), k - a = g → a ≤ k → k < a + len →
    (∀ j, a ≤ j → j < k → p j = false) → p k = true →
    (List.range' a len).filter p = k :: (List.range' (k + 1) (a + len - (k + 1))).filter p := by
  intro g
  induction g with
  | zero =>
    intro a len k hg hak hk hbefore hpk
    have e : a = k := by omega
    subst e
    obtain ⟨l', hl'⟩ : ∃ l', len = l' + 1 := ⟨len - 1, by omega⟩
    subst hl'
    rw [List.range'_succ, List.filter_cons]
    simp only [hpk, if_true]
    have e : a + (l' + 1) - (a + 1) = l' := by omega
    rw [e]
  | succ g ih =>
    intro a len k hg hak hk hbefore hpk
    obtain ⟨l', hl'⟩ : ∃ l', len = l' + 1 := ⟨len - 1, by omega⟩
    subst hl'
    rw [List.range'_succ, List.filter_cons]
    have : p a = false := hbefore a (Nat.le_refl _) (by omega)
    simp only [this, Bool.false_eq_true, if_false]
    rw [ih (a + 1) l' k (by omega) (by omega) (by omega) (fun j h1 h2 => hbefore j (by omega) h2) hpk]
    have e : a + 1 + l' - (k + 1) = a + (l' + 1) - (k + 1) := by omega
    rw [e]

theorem filter_range'_window (q : Nat → Bool) (s len a b : Nat) (h1 : s ≤ a) (h2 : a ≤ b) (h3 : b ≤ s + len) :
    (List.range' s len).filter (fun m => decide (a ≤ m) && decide (m < b) && q m) = (List.range' a (b - a)).filter q := by
  have e1 : List.range' s len = List.range' s (a - s) ++ (List.range' a (b - a) ++ List.range' b (s + len - b)) := by
    have := @List.range'_append a (b - a) (s + len - b) 1
    have e : a + 1 * (b - a) = b := by omega
    rw [e] at this
    rw [this]
    have := @List.range'_append s (a - s) (b - a + (s + len - b)) 1
    have e : s + 1 * (a - s) = a := by omega
    rw [e] at this
    rw [this]
    congr 1
    omega
  rw [e1, List.filter_append, List.filter_append]
  have z1 : (List.range' s (a - s)).filter (fun m => decide (a ≤ m) && decide (m < b) && q m) = [] := by
    apply filter_range'_none
    intro j h4 h5
    have : ¬ (a ≤ j) := by omega
    simp [this]
  have z3 : (List.range' b (s + len - b)).filter (fun m => decide (a ≤ m) && decide (m < b) && q m) = [] := by
    apply filter_range'_none
    intro j h4 h5
    have : ¬ (j < b) := by omega
    simp [this]
  rw [z1, z3]
  simp only [List.nil_append, List.append_nil]
  apply List.filter_congr
  intro x hx
  have := List.mem_range'_1.mp hx
  have h4 : a ≤ x := this.1
  have h5 : x < b := by omega
  simp [h4, h5]

theorem parent_ne_none_of_anc (d : Doc) (n pos : Nat) (hpos : pos < d.length)
    (h : (d.ancestors pos).contains n = true) : d.parentOf pos ≠ none := by
  intro hp
  obtain ⟨N', hN'⟩ : ∃ N', d.length = N' + 1 := ⟨d.length - 1, by omega⟩
  simp [ancestors, hN', ancestorsF, hp] at h

/-- inside the subtree of `n`, the parent of a node is `n` or again inside the subtree -/
theorem parent_in (d : Doc) (hw : WF d) (n pos p : Nat) (hn : n < d.length) (h1 : n < pos) (h2 : pos < d.endOf n)
    (hpos : pos < d.length) (hp : d.parentOf pos = some p) :
    (p = n ∨ (n < p ∧ p < d.endOf n)) ∧ p < pos ∧ d.isAttr p = false ∧ d.endOf p ≤ d.endOf n ∧ pos < d.endOf p := by
  have h5 := hw.w5 pos hpos
  rw [hp] at h5
  simp only [onOpt] at h5
  obtain ⟨hlt, hin, hna, hx⟩ := h5
  have hge : n ≤ p := by
    by_cases hc : n ≤ p
    · exact hc
    · have := hx n hn (by omega) h1
      omega
  have hple : p < d.length := by omega
  refine ⟨?_, hlt, hna, ?_, hin⟩
  · by_cases e : p = n
    · exact Or.inl e
    · exact Or.inr ⟨by omega, by omega⟩
  · by_cases e : p = n
    · subst e; exact Nat.le_refl _
    · exact hw.w4 n hn p hple (by omega) (by omega)

theorem climb_spec (d : Doc) (hw : WF d) (n : Nat) (hn : n < d.length) :
    ∀ (fuel pos : Nat), n < pos → pos < d.endOf n → d.isAttr pos = false → pos - n ≤ fuel →
      d.climb (some n) fuel pos = if d.endOf pos < d.endOf n then some (d.endOf pos) else none := by
  intro fuel
  induction fuel with
  | zero => intro pos h1 _ _ h4; omega
  | succ f ih =>
    intro pos h1 h2 hattr hf
    have hEn := hw.w1 n hn
    have hpos : pos < d.length := by omega
    have hanc : (d.ancestors pos).contains n = true := by
      rw [hw.wA n hn pos hpos]; simp [h1, h2]
    have hpne := parent_ne_none_of_anc d n pos hpos hanc
    obtain ⟨p, hp⟩ := Option.ne_none_iff_exists'.mp hpne
    obtain ⟨hpn, hplt, hpna, hEp, hposEp⟩ := parent_in d hw n pos p hn h1 h2 hpos hp
    have h3 := hw.w3 pos hpos hattr
    unfold climb
    cases hns : d.nextSibling pos with
    | some k =>
      rw [hns] at h3
      simp only [onOpt, hp] at h3
      obtain ⟨hk, hkp⟩ := h3
      have : d.endOf pos < d.endOf n := by omega
      simp [this, hk]
    | none =>
      rw [hns] at h3
      simp only [onOpt, hp] at h3
      simp only [hp]
      by_cases e : p = n
      · subst e
        simp [h3]
      · have hne : (some p == some n) = false := by simp [e]
        simp only [hne]
        rcases hpn with hpn | ⟨hp1, hp2⟩
        · exact absurd hpn e
        · rw [ih p hp1 hp2 hpna (by omega), h3]
          simp

/-- the node visited after `pos` by `findDescendants`, as the loop computes it -/
def descNext (d : Doc) (n pos : Nat) : Option Nat :=
  match d.firstChild pos with
  | some k => some k
  | none => if pos == n then none else climb d (some n) d.length pos

theorem descNext_spec (d : Doc) (hw : WF d) (n : Nat) (hn : n < d.length) (pos : Nat)
    (h1 : n ≤ pos) (h2 : pos < d.endOf n) (h3 : pos = n ∨ d.isAttr pos = false) :
    (∃ k, d.descNext n pos = some k ∧ pos < k ∧ k < d.endOf n ∧ d.isAttr k = false ∧
        ∀ j, pos < j → j < k → d.isAttr j = true) ∨
    (d.descNext n pos = none ∧ ∀ j, pos < j → j < d.endOf n → d.isAttr j = true) := by
  have hEn := hw.w1 n hn
  have hpos : pos < d.length := by omega
  have hEpos := hw.w1 pos hpos
  have hEle : d.endOf pos ≤ d.endOf n := by
    rcases Nat.eq_or_lt_of_le h1 with e | e
    · subst e; exact Nat.le_refl _
    · exact hw.w4 n hn pos hpos e h2
  have h2w := hw.w2 pos hpos
  unfold descNext
  cases hfc : d.firstChild pos with
  | some c =>
    rw [hfc] at h2w
    simp only [onOpt] at h2w
    obtain ⟨a1, a2, a3, a4⟩ := h2w
    exact Or.inl ⟨c, rfl, a1, by omega, a3, fun j hj1 hj2 => a4 j (by omega) hj1 hj2⟩
  | none =>
    rw [hfc] at h2w
    simp only [onOpt] at h2w
    by_cases e : pos = n
    · subst e
      simp only [BEq.rfl, if_true]
      exact Or.inr ⟨by simp, fun j hj1 hj2 => h2w j (by omega) hj1 hj2⟩
    · have hne : (pos == n) = false := by simp [e]
      simp only [hne, Bool.false_eq_true, if_false]
      have hlt : n < pos := by omega
      have hna : d.isAttr pos = false := by
        rcases h3 with h3 | h3
        · exact absurd h3 e
        · exact h3
      rw [climb_spec d hw n hn d.length pos hlt h2 hna (by omega)]
      by_cases hE : d.endOf pos < d.endOf n
      · simp only [hE, if_true]
        refine Or.inl ⟨d.endOf pos, by simp, hEpos.1, hE, hw.w8 pos hpos hna (by omega), ?_⟩
        intro j hj1 hj2
        exact h2w j (by omega) hj1 hj2
      · simp only [hE, if_false]
        refine Or.inr ⟨by simp, ?_⟩
        intro j hj1 hj2
        exact h2w j (by omega) hj1 (by omega)

/-- the non-attribute indices strictly between `pos` and the end of `n`'s subtree -/
def restNA (d : Doc) (n pos : Nat) : List Nat :=
  (List.range' (pos + 1) (d.endOf n - (pos + 1))).filter (fun j => !d.isAttr j)

theorem descWalk_spec (d : Doc) (hw : WF d) (n : Nat) (hn : n < d.length) :
    ∀ (fuel pos : Nat), n ≤ pos → pos < d.endOf n → (pos = n ∨ d.isAttr pos = false) → d.endOf n - pos ≤ fuel →
      d.descWalk n fuel pos = pos :: d.restNA n pos := by
  intro fuel
  induction fuel with
  | zero => intro pos _ h2 _ h4; omega
  | succ f ih =>
    intro pos h1 h2 h3 h4
    have hstep : d.descWalk n (f + 1) pos =
        match d.descNext n pos with
        | none => [pos]
        | some k => pos :: d.descWalk n f k := by
      simp only [descWalk, descNext]
      rfl
    rw [hstep]
    rcases descNext_spec d hw n hn pos h1 h2 h3 with ⟨k, hk, k1, k2, k3, k4⟩ | ⟨hk, hall⟩
    · rw [hk]
      simp only
      rw [ih k (by omega) k2 (Or.inr k3) (by omega)]
      congr 1
      unfold restNA
      rw [filter_range'_first (fun j => !d.isAttr j) (k - (pos + 1)) (pos + 1) (d.endOf n - (pos + 1)) k rfl (by omega) (by omega)
        (fun j hj1 hj2 => by simp [k4 j (by omega) hj2]) (by simp [k3])]
      have e : pos + 1 + (d.endOf n - (pos + 1)) - (k + 1) = d.endOf n - (k + 1) := by omega
      rw [e]
    · rw [hk]
      simp only
      congr 1
      unfold restNA
      rw [filter_range'_none]
      intro j hj1 hj2
      simp [hall j (by omega) (by omega)]

theorem filter_desc_window (d : Doc) (hw : WF d) (n : Nat) (hn : n < d.length) (s len : Nat)
    (hs : s ≤ n + 1) (hl : s + len = d.length) (extra : Nat → Bool) (hex : ∀ x, n + 1 ≤ x → extra x = false) :
    (List.range' s len).filter (fun m => extra m || ((d.ancestors m).contains n && !d.isAttr m))
      = (List.range' s (n + 1 - s)).filter extra ++ d.restNA n n := by
  have hEn := hw.w1 n hn
  have e1 : List.range' s len = List.range' s (n + 1 - s) ++ List.range' (n + 1) (d.length - (n + 1)) := by
    have := @List.range'_append s (n + 1 - s) (d.length - (n + 1)) 1
    have e : s + 1 * (n + 1 - s) = n + 1 := by omega
    rw [e] at this
    rw [this]; congr 1; omega
  rw [e1, List.filter_append]
  congr 1
  · apply List.filter_congr
    intro x hx
    have hx' := List.mem_range'_1.mp hx
    have hxl : x < d.length := by omega
    rw [hw.wA n hn x hxl]
    have : ¬ (n < x) := by omega
    simp [this]
  · unfold restNA
    rw [← filter_range'_window (fun j => !d.isAttr j) (n + 1) (d.length - (n + 1)) (n + 1) (d.endOf n) (Nat.le_refl _) (by omega) (by omega)]
    apply List.filter_congr
    intro x hx
    have hx' := List.mem_range'_1.mp hx
    have hxl : x < d.length := by omega
    rw [hw.wA n hn x hxl, hex x hx'.1]
    have h1 : n < x := by omega
    have h2 : n + 1 ≤ x := by omega
    simp [h1, h2]

/-- **`findDescendants` = the descendant / descendant-or-self axis**, for every well-formed document and
every context node (attribute contexts included), in document order. -/
theorem findDescendants_spec (d : Doc) (hw : WF d) (n : Nat) (hn : n < d.length) (orSelf : Bool) :
    d.findDescendants orSelf n = d.axis (if orSelf then .descendantOrSelf else .descendant) n := by
  have hEn := hw.w1 n hn
  have hwalk := descWalk_spec d hw n hn (d.length + 1) n (Nat.le_refl _) hEn.1 (Or.inl rfl) (by omega)
  unfold findDescendants
  simp only [hwalk]
  cases orSelf with
  | false =>
    simp only [Bool.false_eq_true, if_false, List.tail_cons, axis, Axis.isReverse, ids, List.range_eq_range']
    have := filter_desc_window d hw n hn 0 d.length (by omega) (by omega) (fun _ => false) (fun _ _ => rfl)
    simp only [Bool.false_or] at this
    have e : (List.range' 0 (n + 1 - 0)).filter (fun _ => false) = [] := by
      apply filter_range'_none; intros; rfl
    rw [e, List.nil_append] at this
    rw [← this]
    apply List.filter_congr
    intro x _
    simp [onAxis]
  | true =>
    simp only [if_true, axis, Axis.isReverse, ids, List.range_eq_range']
    have := filter_desc_window d hw n hn 0 d.length (by omega) (by omega) (fun m => m == n)
      (fun x hx => by simp; omega)
    have e : (List.range' 0 (n + 1 - 0)).filter (fun m => m == n) = [n] := by
      have h := filter_range'_first (fun m => m == n) (n - 0) 0 (n + 1) n rfl (by omega) (by omega)
        (fun j _ hj => by simp; omega) (by simp)
      rw [Nat.sub_zero, h]
      have e2 : 0 + (n + 1) - (n + 1) = 0 := by omega
      rw [e2]; rfl
    simp only [Nat.sub_zero] at e this
    rw [e] at this
    simp only [List.cons_append, List.nil_append] at this
    rw [← this]
    apply List.filter_congr
    intro x _
    simp [onAxis]

end Doc
end XalanModel.C02
