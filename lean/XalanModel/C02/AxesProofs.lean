import XalanModel.C02.Doc
/-!
# C02 layer 3 — the descendant walk of `findDescendants` equals the descendant axis, for every well-formed document

`climb_spec` (the inner `while(0 == nextNode)` loop lands on the end of the current subtree), `descNext_spec` (the next
node visited is the least later non-attribute index inside the context's subtree), `descWalk_spec` (the walk lists
exactly those indices), `findDescendants_spec`.
-/
set_option linter.unusedSimpArgs false
namespace XalanModel.C02
namespace Doc


/-! list lemmas about filtering an interval of indices -/

theorem filter_range'_none (p : Nat → Bool) (a len : Nat) (h : ∀ j, a ≤ j → j < a + len → p j = false) :
    (List.range' a len).filter p = [] := by
  apply List.filter_eq_nil_iff.mpr
  intro j hj
  have := List.mem_range'_1.mp hj
  simp [h j this.1 this.2]

theorem filter_range'_first (p : Nat → Bool) : ∀ (g a len k : Nat), k - a = g → a ≤ k → k < a + len →
    (∀ j, a ≤ j → j < k → p j = false) → p k = true →
    (List.range' a len).filter p = k :: (List.range' (k + 1) (a + len - (k + 1))).filter p := by
  intro g
  induction g with
  | zero =>
    intro a len k hg hak hk hbefore hpk
    have e : a = k := by omega
    subst e
    obtain ⟨l', hl'⟩ : ∃ l', len = l' + 1 := ⟨len - 1, by omega⟩
    subst hl'
    rw [List.range'_succ, List.filter_cons]
    simp only [hpk, if_true]
    have e : a + (l' + 1) - (a + 1) = l' := by omega
    rw [e]
  | succ g ih =>
    intro a len k hg hak hk hbefore hpk
    obtain ⟨l', hl'⟩ : ∃ l', len = l' + 1 := ⟨len - 1, by omega⟩
    subst hl'
    rw [List.range'_succ, List.filter_cons]
    have : p a = false := hbefore a (Nat.le_refl _) (by omega)
    simp only [this, Bool.false_eq_true, if_false]
    rw [ih (a + 1) l' k (by omega) (by omega) (by omega) (fun j h1 h2 => hbefore j (by omega) h2) hpk]
    have e : a + 1 + l' - (k + 1) = a + (l' + 1) - (k + 1) := by omega
    rw [e]

theorem filter_range'_window (q : Nat → Bool) (s len a b : Nat) (h1 : s ≤ a) (h2 : a ≤ b) (h3 : b ≤ s + len) :
    (List.range' s len).filter (fun m => decide (a ≤ m) && decide (m < b) && q m) = (List.range' a (b - a)).filter q := by
  have e1 : List.range' s len = List.range' s (a - s) ++ (List.range' a (b - a) ++ List.range' b (s + len - b)) := by
    have := @List.range'_append a (b - a) (s + len - b) 1
    have e : a + 1 * (b - a) = b := by omega
    rw [e] at this
    rw [this]
    have := @List.range'_append s (a - s) (b - a + (s + len - b)) 1
    have e : s + 1 * (a - s) = a := by omega
    rw [e] at this
    rw [this]
    congr 1
    omega
  rw [e1, List.filter_append, List.filter_append]
  have z1 : (List.range' s (a - s)).filter (fun m => decide (a ≤ m) && decide (m < b) && q m) = [] := by
    apply filter_range'_none
    intro j h4 h5
    have : ¬ (a ≤ j) := by omega
    simp [this]
  have z3 : (List.range' b (s + len - b)).filter (fun m => decide (a ≤ m) && decide (m < b) && q m) = [] := by
    apply filter_range'_none
    intro j h4 h5
    have : ¬ (j < b) := by omega
    simp [this]
  rw [z1, z3]
  simp only [List.nil_append, List.append_nil]
  apply List.filter_congr
  intro x hx
  have := List.mem_range'_1.mp hx
  have h4 : a ≤ x := this.1
  have h5 : x < b := by omega
  simp [h4, h5]

theorem parent_ne_none_of_anc (d : Doc) (n pos : Nat) (hpos : pos < d.length)
    (h : (d.ancestors pos).contains n = true) : d.parentOf pos ≠ none := by
  intro hp
  obtain ⟨N', hN'⟩ : ∃ N', d.length = N' + 1 := ⟨d.length - 1, by omega⟩
  simp [ancestors, hN', ancestorsF, hp] at h

/-- inside the subtree of `n`, the parent of a node is `n` or again inside the subtree -/
theorem parent_in (d : Doc) (hw : WF d) (n pos p : Nat) (hn : n < d.length) (h1 : n < pos) (h2 : pos < d.endOf n)
    (hpos : pos < d.length) (hp : d.parentOf pos = some p) :
    (p = n ∨ (n < p ∧ p < d.endOf n)) ∧ p < pos ∧ d.isAttr p = false ∧ d.endOf p ≤ d.endOf n ∧ pos < d.endOf p := by
  have h5 := hw.w5 pos hpos
  rw [hp] at h5
  simp only [onOpt] at h5
  obtain ⟨hlt, hin, hna, hx⟩ := h5
  have hge : n ≤ p := by
    by_cases hc : n ≤ p
    · exact hc
    · have := hx n hn (by omega) h1
      omega
  have hple : p < d.length := by omega
  refine ⟨?_, hlt, hna, ?_, hin⟩
  · by_cases e : p = n
    · exact Or.inl e
    · exact Or.inr ⟨by omega, by omega⟩
  · by_cases e : p = n
    · subst e; exact Nat.le_refl _
    · exact hw.w4 n hn p hple (by omega) (by omega)

theorem climb_spec (d : Doc) (hw : WF d) (n : Nat) (hn : n < d.length) :
    ∀ (fuel pos : Nat), n < pos → pos < d.endOf n → d.isAttr pos = false → pos - n ≤ fuel →
      d.climb (some n) fuel pos = if d.endOf pos < d.endOf n then some (d.endOf pos) else none := by
  intro fuel
  induction fuel with
  | zero => intro pos h1 _ _ h4; omega
  | succ f ih =>
    intro pos h1 h2 hattr hf
    have hEn := hw.w1 n hn
    have hpos : pos < d.length := by omega
    have hanc : (d.ancestors pos).contains n = true := by
      rw [hw.wA n hn pos hpos]; simp [h1, h2]
    have hpne := parent_ne_none_of_anc d n pos hpos hanc
    obtain ⟨p, hp⟩ := Option.ne_none_iff_exists'.mp hpne
    obtain ⟨hpn, hplt, hpna, hEp, hposEp⟩ := parent_in d hw n pos p hn h1 h2 hpos hp
    have h3 := hw.w3 pos hpos hattr
    unfold climb
    cases hns : d.nextSibling pos with
    | some k =>
      rw [hns] at h3
      simp only [onOpt, hp] at h3
      obtain ⟨hk, hkp⟩ := h3
      have : d.endOf pos < d.endOf n := by omega
      simp [this, hk]
    | none =>
      rw [hns] at h3
      simp only [onOpt, hp] at h3
      simp only [hp]
      by_cases e : p = n
      · subst e
        simp [h3]
      · have hne : (some p == some n) = false := by simp [e]
        simp only [hne]
        rcases hpn with hpn | ⟨hp1, hp2⟩
        · exact absurd hpn e
        · rw [ih p hp1 hp2 hpna (by omega), h3]
          simp

/-- the node visited after `pos` by `findDescendants`, as the loop computes it -/
def descNext (d : Doc) (n pos : Nat) : Option Nat :=
  match d.firstChild pos with
  | some k => some k
  | none => if pos == n then none else climb d (some n) d.length pos

theorem descNext_spec (d : Doc) (hw : WF d) (n : Nat) (hn : n < d.length) (pos : Nat)
    (h1 : n ≤ pos) (h2 : pos < d.endOf n) (h3 : pos = n ∨ d.isAttr pos = false) :
    (∃ k, d.descNext n pos = some k ∧ pos < k ∧ k < d.endOf n ∧ d.isAttr k = false ∧
        ∀ j, pos < j → j < k → d.isAttr j = true) ∨
    (d.descNext n pos = none ∧ ∀ j, pos < j → j < d.endOf n → d.isAttr j = true) := by
  have hEn := hw.w1 n hn
  have hpos : pos < d.length := by omega
  have hEpos := hw.w1 pos hpos
  have hEle : d.endOf pos ≤ d.endOf n := by
    rcases Nat.eq_or_lt_of_le h1 with e | e
    · subst e; exact Nat.le_refl _
    · exact hw.w4 n hn pos hpos e h2
  have h2w := hw.w2 pos hpos
  unfold descNext
  cases hfc : d.firstChild pos with
  | some c =>
    rw [hfc] at h2w
    simp only [onOpt] at h2w
    obtain ⟨a1, a2, a3, a4⟩ := h2w
    exact Or.inl ⟨c, rfl, a1, by omega, a3, fun j hj1 hj2 => a4 j (by omega) hj1 hj2⟩
  | none =>
    rw [hfc] at h2w
    simp only [onOpt] at h2w
    by_cases e : pos = n
    · subst e
      simp only [BEq.rfl, if_true]
      exact Or.inr ⟨by simp, fun j hj1 hj2 => h2w j (by omega) hj1 hj2⟩
    · have hne : (pos == n) = false := by simp [e]
      simp only [hne, Bool.false_eq_true, if_false]
      have hlt : n < pos := by omega
      have hna : d.isAttr pos = false := by
        rcases h3 with h3 | h3
        · exact absurd h3 e
        · exact h3
      rw [climb_spec d hw n hn d.length pos hlt h2 hna (by omega)]
      by_cases hE : d.endOf pos < d.endOf n
      · simp only [hE, if_true]
        refine Or.inl ⟨d.endOf pos, by simp, hEpos.1, hE, hw.w8 pos hpos hna (by omega), ?_⟩
        intro j hj1 hj2
        exact h2w j (by omega) hj1 hj2
      · simp only [hE, if_false]
        refine Or.inr ⟨by simp, ?_⟩
        intro j hj1 hj2
        exact h2w j (by omega) hj1 (by omega)

/-- the non-attribute indices strictly between `pos` and the end of `n`'s subtree -/
def restNA (d : Doc) (n pos : Nat) : List Nat :=
  (List.range' (pos + 1) (d.endOf n - (pos + 1))).filter (fun j => !d.isAttr j)

theorem descWalk_spec (d : Doc) (hw : WF d) (n : Nat) (hn : n < d.length) :
    ∀ (fuel pos : Nat), n ≤ pos → pos < d.endOf n → (pos = n ∨ d.isAttr pos = false) → d.endOf n - pos ≤ fuel →
      d.descWalk n fuel pos = pos :: d.restNA n pos := by
  intro fuel
  induction fuel with
  | zero => intro pos _ h2 _ h4; omega
  | succ f ih =>
    intro pos h1 h2 h3 h4
    have hstep : d.descWalk n (f + 1) pos =
        match d.descNext n pos with
        | none => [pos]
        | some k => pos :: d.descWalk n f k := by
      simp only [descWalk, descNext]
      rfl
    rw [hstep]
    rcases descNext_spec d hw n hn pos h1 h2 h3 with ⟨k, hk, k1, k2, k3, k4⟩ | ⟨hk, hall⟩
    · rw [hk]
      simp only
      rw [ih k (by omega) k2 (Or.inr k3) (by omega)]
      congr 1
      unfold restNA
      rw [filter_range'_first (fun j => !d.isAttr j) (k - (pos + 1)) (pos + 1) (d.endOf n - (pos + 1)) k rfl (by omega) (by omega)
        (fun j hj1 hj2 => by simp [k4 j (by omega) hj2]) (by simp [k3])]
      have e : pos + 1 + (d.endOf n - (pos + 1)) - (k + 1) = d.endOf n - (k + 1) := by omega
      rw [e]
    · rw [hk]
      simp only
      congr 1
      unfold restNA
      rw [filter_range'_none]
      intro j hj1 hj2
      simp [hall j (by omega) (by omega)]

theorem filter_desc_window (d : Doc) (hw : WF d) (n : Nat) (hn : n < d.length) (s len : Nat)
    (hs : s ≤ n + 1) (hl : s + len = d.length) (extra : Nat → Bool) (hex : ∀ x, n + 1 ≤ x → extra x = false) :
    (List.range' s len).filter (fun m => extra m || ((d.ancestors m).contains n && !d.isAttr m))
      = (List.range' s (n + 1 - s)).filter extra ++ d.restNA n n := by
  have hEn := hw.w1 n hn
  have e1 : List.range' s len = List.range' s (n + 1 - s) ++ List.range' (n + 1) (d.length - (n + 1)) := by
    have := @List.range'_append s (n + 1 - s) (d.length - (n + 1)) 1
    have e : s + 1 * (n + 1 - s) = n + 1 := by omega
    rw [e] at this
    rw [this]; congr 1; omega
  rw [e1, List.filter_append]
  congr 1
  · apply List.filter_congr
    intro x hx
    have hx' := List.mem_range'_1.mp hx
    have hxl : x < d.length := by omega
    rw [hw.wA n hn x hxl]
    have : ¬ (n < x) := by omega
    simp [this]
  · unfold restNA
    rw [← filter_range'_window (fun j => !d.isAttr j) (n + 1) (d.length - (n + 1)) (n + 1) (d.endOf n) (Nat.le_refl _) (by omega) (by omega)]
    apply List.filter_congr
    intro x hx
    have hx' := List.mem_range'_1.mp hx
    have hxl : x < d.length := by omega
    rw [hw.wA n hn x hxl, hex x hx'.1]
    have h1 : n < x := by omega
    have h2 : n + 1 ≤ x := by omega
    simp [h1, h2]

/-- **`findDescendants` = the descendant / descendant-or-self axis**, for every well-formed document and
every context node (attribute contexts included), in document order. -/
theorem findDescendants_spec (d : Doc) (hw : WF d) (n : Nat) (hn : n < d.length) (orSelf : Bool) :
    d.findDescendants orSelf n = d.axis (if orSelf then .descendantOrSelf else .descendant) n := by
  have hEn := hw.w1 n hn
  have hwalk := descWalk_spec d hw n hn (d.length + 1) n (Nat.le_refl _) hEn.1 (Or.inl rfl) (by omega)
  unfold findDescendants
  simp only [hwalk]
  cases orSelf with
  | false =>
    simp only [Bool.false_eq_true, if_false, List.tail_cons, axis, Axis.isReverse, ids, List.range_eq_range']
    have := filter_desc_window d hw n hn 0 d.length (by omega) (by omega) (fun _ => false) (fun _ _ => rfl)
    simp only [Bool.false_or] at this
    have e : (List.range' 0 (n + 1 - 0)).filter (fun _ => false) = [] := by
      apply filter_range'_none; intros; rfl
    rw [e, List.nil_append] at this
    rw [← this]
    apply List.filter_congr
    intro x _
    simp [onAxis]
  | true =>
    simp only [if_true, axis, Axis.isReverse, ids, List.range_eq_range']
    have := filter_desc_window d hw n hn 0 d.length (by omega) (by omega) (fun m => m == n)
      (fun x hx => by simp; omega)
    have e : (List.range' 0 (n + 1 - 0)).filter (fun m => m == n) = [n] := by
      have h := filter_range'_first (fun m => m == n) (n - 0) 0 (n + 1) n rfl (by omega) (by omega)
        (fun j _ hj => by simp; omega) (by simp)
      rw [Nat.sub_zero, h]
      have e2 : 0 + (n + 1) - (n + 1) = 0 := by omega
      rw [e2]; rfl
    simp only [Nat.sub_zero] at e this
    rw [e] at this
    simp only [List.cons_append, List.nil_append] at this
    rw [← this]
    apply List.filter_congr
    intro x _
    simp [onAxis]

/-! ## following -/

/-- the non-attribute indices from `a` to the end of the table -/
def tailNA (d : Doc) (a : Nat) : List Nat :=
  (List.range' a (d.length - a)).filter (fun j => !d.isAttr j)

theorem tailNA_cons (d : Doc) (hw : WF d) (pos : Nat) (hpos : pos < d.length) (hna : d.isAttr pos = false) :
    pos :: d.restNA 0 pos = d.tailNA pos := by
  unfold tailNA restNA
  obtain ⟨l, hl⟩ : ∃ l, d.length - pos = l + 1 := ⟨d.length - pos - 1, by omega⟩
  rw [hl, List.range'_succ, List.filter_cons]
  simp only [hna, Bool.not_false, if_true]
  rw [hw.w0.2.2]
  have e : d.length - (pos + 1) = l := by omega
  rw [e]

theorem tailNA_skip (d : Doc) (a b : Nat) (hab : a ≤ b) (hb : b ≤ d.length)
    (h : ∀ j, a ≤ j → j < b → d.isAttr j = true) : d.tailNA a = d.tailNA b := by
  unfold tailNA
  have := @List.range'_append a (b - a) (d.length - b) 1
  have e : a + 1 * (b - a) = b := by omega
  rw [e] at this
  have e2 : b - a + (d.length - b) = d.length - a := by omega
  rw [e2] at this
  rw [← this, List.filter_append, filter_range'_none, List.nil_append]
  intro j h1 h2
  simp [h j h1 (by omega)]

theorem tailNA_end (d : Doc) : d.tailNA d.length = [] := by
  simp [tailNA]

/-- one iteration of `findFollowing` away from the context node = one iteration of the pre-order walk below the root -/
theorem followWalk_step (d : Doc) (ctx f pos : Nat) (h1 : pos ≠ ctx) (h2 : pos ≠ 0) (h3 : d.isAttr pos = false) :
    d.followWalk ctx (f + 1) pos =
      match d.descNext 0 pos with
      | none => [pos]
      | some k => pos :: d.followWalk ctx f k := by
  have e1 : (pos == ctx) = false := by simp [h1]
  have e2 : (pos == 0) = false := by simp [h2]
  simp only [followWalk, descNext, e1, e2, h3, Bool.false_eq_true, if_false]
  cases d.firstChild pos <;> simp
  cases d.climb (some 0) d.length pos <;> simp

theorem followWalk_eq (d : Doc) (hw : WF d) (ctx : Nat) (h0 : 0 < d.length) :
    ∀ (f pos : Nat), ctx < pos → pos < d.length → d.isAttr pos = false →
      d.followWalk ctx f pos = d.descWalk 0 f pos := by
  intro f
  induction f with
  | zero => intro pos _ _ _; rfl
  | succ f ih =>
    intro pos h1 h2 h3
    rw [followWalk_step d ctx f pos (by omega) (by omega) h3]
    have hstep : d.descWalk 0 (f + 1) pos =
        match d.descNext 0 pos with
        | none => [pos]
        | some k => pos :: d.descWalk 0 f k := by
      simp only [descWalk, descNext]
      rfl
    rw [hstep]
    have hE0 := hw.w0.2.2
    rcases descNext_spec d hw 0 h0 pos (by omega) (by omega) (Or.inr h3) with ⟨k, hk, k1, k2, k3, _⟩ | ⟨hk, _⟩
    · rw [hk]
      simp only
      rw [ih k (by omega) (by omega) k3]
    · rw [hk]

theorem followWalk_tail (d : Doc) (hw : WF d) (ctx pos : Nat) (h1 : ctx < pos) (h2 : pos < d.length)
    (h3 : d.isAttr pos = false) (f : Nat) (hf : d.length - pos ≤ f) :
    d.followWalk ctx f pos = d.tailNA pos := by
  have h0 : 0 < d.length := by omega
  rw [followWalk_eq d hw ctx h0 f pos h1 h2 h3,
    descWalk_spec d hw 0 h0 f pos (by omega) (by rw [hw.w0.2.2]; exact h2) (Or.inr h3) (by rw [hw.w0.2.2]; exact hf)]
  exact tailNA_cons d hw pos h2 h3

theorem following_axis_eq (d : Doc) (hw : WF d) (n : Nat) (hn : n < d.length) :
    d.axis .following n = d.tailNA (d.endOf n) := by
  have hEn := hw.w1 n hn
  simp only [axis, Axis.isReverse, ids, List.range_eq_range', Bool.false_eq_true, if_false]
  unfold tailNA
  rw [← filter_range'_window (fun j => !d.isAttr j) 0 d.length (d.endOf n) d.length (by omega) hEn.2 (by omega)]
  apply List.filter_congr
  intro m hm
  have hm' := List.mem_range'_1.mp hm
  have hml : m < d.length := by omega
  simp only [onAxis, hw.wA n hn m hml]
  by_cases c1 : n < m <;> by_cases c2 : m < d.endOf n <;> simp [c1, c2, hml] <;> omega

/-- **`findFollowing` = the following axis**, for every well-formed document and every context node. -/
theorem findFollowing_spec (d : Doc) (hw : WF d) (n : Nat) (hn : n < d.length) :
    d.findFollowing n = d.axis .following n := by
  rw [following_axis_eq d hw n hn]
  have hEn := hw.w1 n hn
  have hE0 := hw.w0.2.2
  unfold findFollowing
  by_cases hattr : d.isAttr n = true
  · -- attribute context: continue with the owner's first child, else climb from the owner
    obtain ⟨hEa, h9⟩ := hw.w9 n hn hattr
    cases hp : d.parentOf n with
    | none => rw [hp] at h9; simp [onOpt] at h9
    | some p =>
      rw [hp] at h9
      simp only [onOpt] at h9
      obtain ⟨hp0, hbetween⟩ := h9
      have h5 := hw.w5 n hn
      rw [hp] at h5
      simp only [onOpt] at h5
      obtain ⟨hpn, hnEp, hpna, _⟩ := h5
      have hpl : p < d.length := by omega
      have hEp := hw.w1 p hpl
      have h2w := hw.w2 p hpl
      cases hfc : d.firstChild p with
      | some c =>
        rw [hfc] at h2w
        simp only [onOpt] at h2w
        obtain ⟨a1, a2, a3, a4⟩ := h2w
        have hnc : n < c := by
          by_cases e : n < c
          · exact e
          · have : c ≠ n := by intro e2; rw [e2] at a3; rw [a3] at hattr; cases hattr
            have := hbetween c (by omega) a1 (by omega)
            rw [a3] at this; cases this
        simp only [followWalk, BEq.rfl, if_true, hattr, hp, Option.bind_some, hfc, List.nil_append]
        rw [followWalk_tail d hw n c hnc (by omega) a3 d.length (by omega), hEa]
        exact (tailNA_skip d (n + 1) c (by omega) (by omega) (fun j h1 h2 => a4 j (by omega) (by omega) h2)).symm
      | none =>
        rw [hfc] at h2w
        simp only [onOpt] at h2w
        simp only [followWalk, BEq.rfl, if_true, hattr, hp, Option.bind_some, hfc]
        rw [climb_spec d hw 0 (by omega) d.length p hp0 (by omega) hpna (by omega), hE0, hEa]
        by_cases hE : d.endOf p < d.length
        · simp only [hE, if_true, List.nil_append]
          rw [followWalk_tail d hw n (d.endOf p) (by omega) hE (hw.w8 p hpl hpna hE) d.length (by omega)]
          exact (tailNA_skip d (n + 1) (d.endOf p) (by omega) (by omega) (fun j h1 h2 => h2w j (by omega) (by omega) h2)).symm
        · simp only [hE, if_false]
          have e : d.endOf p = d.length := by omega
          rw [tailNA_skip d (n + 1) d.length (by omega) (Nat.le_refl _) (fun j h1 h2 => h2w j h2 (by omega) (by omega)), tailNA_end]
  · have hna : d.isAttr n = false := by simpa using hattr
    by_cases hz : n = 0
    · subst hz
      have hns : d.nextSibling 0 = none := by simp [nextSibling, hna, hw.w0.1]
      simp only [followWalk, BEq.rfl, if_true, hna, Bool.false_eq_true, if_false]
      obtain ⟨N', hN'⟩ : ∃ N', d.length = N' + 1 := ⟨d.length - 1, by omega⟩
      rw [hN']
      simp only [climb, hns, hw.w0.1]
      rw [hE0, tailNA_end]
    · simp only [followWalk, BEq.rfl, if_true, hna, Bool.false_eq_true, if_false]
      rw [climb_spec d hw 0 (by omega) d.length n (by omega) (by omega) hna (by omega), hE0]
      by_cases hE : d.endOf n < d.length
      · simp only [hE, if_true, List.nil_append]
        exact followWalk_tail d hw n (d.endOf n) hEn.1 hE (hw.w8 n hn hna hE) d.length (by omega)
      · simp only [hE, if_false]
        have e : d.endOf n = d.length := by omega
        rw [e, tailNA_end]


/-! ## preceding -/

theorem filter_range'_skip (q : Nat → Bool) (pos k n : Nat) (h1 : pos < k) (h2 : k ≤ n)
    (h : ∀ j, pos < j → j < k → q j = false) :
    (List.range' pos (n - pos)).filter q = (if q pos then [pos] else []) ++ (List.range' k (n - k)).filter q := by
  have e1 : List.range' pos (n - pos) = List.range' pos (k - pos) ++ List.range' k (n - k) := by
    have := @List.range'_append pos (k - pos) (n - k) 1
    have e : pos + 1 * (k - pos) = k := by omega
    rw [e] at this
    rw [this]; congr 1; omega
  rw [e1, List.filter_append]
  congr 1
  obtain ⟨l, hl⟩ : ∃ l, k - pos = l + 1 := ⟨k - pos - 1, by omega⟩
  rw [hl, List.range'_succ, List.filter_cons]
  have : (List.range' (pos + 1) l).filter q = [] := by
    apply filter_range'_none
    intro j h3 h4
    exact h j (by omega) (by omega)
  rw [this]

theorem climb_root (d : Doc) (hw : WF d) (f : Nat) : d.climb (some 0) f 0 = none := by
  cases f with
  | zero => rfl
  | succ f =>
    have hns : d.nextSibling 0 = none := by simp [nextSibling, hw.w0.2.1, hw.w0.1]
    simp [climb, hns, hw.w0.1]

/-- the next node of the pre-order walk from the root, as `findPreceeding` computes it away from the special cases -/
theorem precNext_eq (d : Doc) (hw : WF d) (pos : Nat) :
    (match d.firstChild pos with
      | some k => some k
      | none => d.climb (some 0) d.length pos) = d.descNext 0 pos := by
  unfold descNext
  cases d.firstChild pos with
  | some k => rfl
  | none =>
    by_cases e : pos = 0
    · subst e; simp [climb_root d hw]
    · have : (pos == 0) = false := by simp [e]
      simp [this]

theorem precWalk_spec (d : Doc) (hw : WF d) (n : Nat) (hn : n < d.length) :
    ∀ (f pos : Nat), pos ≤ n → (pos = n ∨ d.isAttr pos = false) → n - pos < f →
      d.precWalk n f pos =
        (List.range' pos (n - pos)).filter (fun j => !d.isAttr j && !(d.ancestors n).contains j) := by
  intro f
  induction f with
  | zero => intro pos _ _ h; omega
  | succ f ih =>
    intro pos h1 h2 h3
    have h0 : 0 < d.length := by omega
    have hE0 := hw.w0.2.2
    by_cases e : pos = n
    · subst e
      simp [precWalk]
    · have hne : (pos == n) = false := by simp [e]
      have hlt : pos < n := by omega
      have hpa : d.isAttr pos = false := by
        rcases h2 with h2 | h2
        · exact absurd h2 e
        · exact h2
      have hposl : pos < d.length := by omega
      -- is this the special case "context is an attribute and pos is its owner"?
      by_cases hsp : d.isAttr n = true ∧ some pos = d.parentOf n
      · obtain ⟨hattr, hpp⟩ := hsp
        obtain ⟨_, h9⟩ := hw.w9 n hn hattr
        rw [← hpp] at h9
        simp only [onOpt] at h9
        have hanc : (d.ancestors n).contains pos = true := by
          rw [hw.wA pos hposl n hn]
          have h5 := hw.w5 n hn
          rw [← hpp] at h5
          simp only [onOpt] at h5
          simp [h5.1, h5.2.1]
        have hbeq : (some pos == d.parentOf n) = true := by rw [← hpp]; simp
        simp only [precWalk, hne, Bool.false_eq_true, if_false, hanc, if_true, hattr, hbeq, Bool.and_self, List.nil_append]
        have : d.precWalk n f n = [] := by
          cases f with
          | zero => rfl
          | succ f => simp [precWalk]
        rw [this]
        symm
        apply filter_range'_none
        intro j hj1 hj2
        by_cases ej : j = pos
        · subst ej; simp only [hanc]; simp
        · simp [h9.2 j (by omega) (by omega) (by omega)]
      · have hdown : (if d.isAttr n && (some pos == d.parentOf n) then some n else d.firstChild pos) = d.firstChild pos := by
          by_cases c1 : d.isAttr n = true
          · have : ¬ (some pos = d.parentOf n) := fun h => hsp ⟨c1, h⟩
            have : (some pos == d.parentOf n) = false := by
              cases hpn : d.parentOf n with
              | none => simp
              | some q => rw [hpn] at this; simp at this ⊢; exact this
            simp [this]
          · have : d.isAttr n = false := by simpa using c1
            simp [this]
        have hstep : d.precWalk n (f + 1) pos =
            (if (d.ancestors n).contains pos then [] else [pos]) ++
              (match d.descNext 0 pos with
               | none => []
               | some k => d.precWalk n f k) := by
          rw [← precNext_eq d hw pos]
          simp only [precWalk, hne, Bool.false_eq_true, if_false, hdown]
          cases d.firstChild pos with
          | some k => simp
          | none => cases d.climb (some 0) d.length pos <;> simp
        rw [hstep]
        -- a non-attribute index greater than pos and at most n exists: n itself, or the owner of the attribute n
        have hbound : ∃ b, pos < b ∧ b ≤ n ∧ d.isAttr b = false ∧ ∀ j, b < j → j < n → d.isAttr j = true := by
          by_cases c1 : d.isAttr n = true
          · obtain ⟨_, h9⟩ := hw.w9 n hn c1
            cases hpn : d.parentOf n with
            | none => rw [hpn] at h9; simp [onOpt] at h9
            | some q =>
              rw [hpn] at h9
              simp only [onOpt] at h9
              have h5 := hw.w5 n hn
              rw [hpn] at h5
              simp only [onOpt] at h5
              have hq : pos ≠ q := fun h => hsp ⟨c1, by rw [hpn, h]⟩
              have : pos < q := by
                by_cases c : pos < q
                · exact c
                · have := h9.2 pos hposl (by omega) hlt
                  rw [hpa] at this; cases this
              exact ⟨q, this, by omega, h5.2.2.1, fun j a b => h9.2 j (by omega) a b⟩
          · exact ⟨n, hlt, Nat.le_refl _, by simpa using c1, fun j a b => by omega⟩
        obtain ⟨b, hb1, hb2, hb3, hb4⟩ := hbound
        rcases descNext_spec d hw 0 h0 pos (by omega) (by omega) (Or.inr hpa) with ⟨k, hk, k1, k2, k3, k4⟩ | ⟨hk, hall⟩
        · have hkb : k ≤ b := by
            by_cases c : k ≤ b
            · exact c
            · have := k4 b hb1 (by omega)
              rw [hb3] at this; cases this
          rw [hk]
          simp only
          rw [ih k (by omega) (Or.inr k3) (by omega)]
          rw [filter_range'_skip (fun j => !d.isAttr j && !(d.ancestors n).contains j) pos k n k1 (by omega)
            (fun j a c => by simp [k4 j a c])]
          simp [hpa]
        · have := hall b hb1 (by omega)
          rw [hb3] at this; cases this

/-- **`findPreceeding` = the preceding axis** (reverse document order), for every well-formed document and every
context node (attribute contexts included). -/
theorem findPreceeding_spec (d : Doc) (hw : WF d) (n : Nat) (hn : n < d.length) :
    d.findPreceeding n = d.axis .preceding n := by
  have hroot : (0 = n ∨ d.isAttr 0 = false) := Or.inr hw.w0.2.1
  have hwalk := precWalk_spec d hw n hn (d.length + 1) 0 (by omega) hroot (by omega)
  unfold findPreceeding
  rw [hwalk]
  simp only [axis, Axis.isReverse, ids, List.range_eq_range', if_true, Nat.sub_zero]
  congr 1
  have hwin := filter_range'_window (fun j => !d.isAttr j && !(d.ancestors n).contains j) 0 d.length 0 n (by omega) (by omega) (by omega)
  simp only [Nat.sub_zero] at hwin
  rw [← hwin]
  apply List.filter_congr
  intro m hm
  have hm' := List.mem_range'_1.mp hm
  by_cases c : m < n <;> simp [onAxis, c]


/-! ## chains: child, attribute, siblings, parent, self, ancestors; the combined statement -/

/-- `nextFrom` finds the least index in `[k, hi)` satisfying `p` -/
theorem nextFrom_spec (p : Nat → Bool) (hi : Nat) : ∀ (f k : Nat), hi - k < f →
    (∃ j, nextFrom p hi f k = some j ∧ k ≤ j ∧ j < hi ∧ p j = true ∧ ∀ i, k ≤ i → i < j → p i = false) ∨
    (nextFrom p hi f k = none ∧ ∀ i, k ≤ i → i < hi → p i = false) := by
  intro f
  induction f with
  | zero => intro k h; omega
  | succ f ih =>
    intro k h
    unfold nextFrom
    by_cases c1 : k ≥ hi
    · simp only [c1, if_true]
      exact Or.inr ⟨by simp, fun i a b => by omega⟩
    · simp only [c1, if_false]
      by_cases c2 : p k = true
      · simp only [c2, if_true]
        exact Or.inl ⟨k, by simp, Nat.le_refl _, by omega, c2, fun i a b => by omega⟩
      · have c2' : p k = false := by simpa using c2
        simp only [c2', Bool.false_eq_true, if_false]
        rcases ih (k + 1) (by omega) with ⟨j, h1, h2, h3, h4, h5⟩ | ⟨h1, h2⟩
        · refine Or.inl ⟨j, h1, by omega, h3, h4, ?_⟩
          intro i a b
          by_cases e : i = k
          · subst e; exact c2'
          · exact h5 i (by omega) b
        · refine Or.inr ⟨h1, ?_⟩
          intro i a b
          by_cases e : i = k
          · subst e; exact c2'
          · exact h2 i (by omega) b

theorem firstFrom_spec (d : Doc) (p : Nat → Bool) (k : Nat) :
    (∃ j, d.firstFrom p k = some j ∧ k ≤ j ∧ j < d.length ∧ p j = true ∧ ∀ i, k ≤ i → i < j → p i = false) ∨
    (d.firstFrom p k = none ∧ ∀ i, k ≤ i → i < d.length → p i = false) := by
  by_cases c : k ≤ d.length
  · exact nextFrom_spec p d.length (d.length + 1 - k) k (by omega)
  · refine Or.inr ⟨?_, fun i a b => by omega⟩
    have e : d.length + 1 - k = 0 := by omega
    simp [firstFrom, e, nextFrom]

/-- following `next` = "least later index satisfying `p`" from the least index ≥ `a` enumerates the filter -/
theorem chain_filter (d : Doc) (p : Nat → Bool) (next : Nat → Option Nat)
    (hnext : ∀ m, m < d.length → p m = true → next m = d.firstFrom p (m + 1)) :
    ∀ (f a : Nat), d.length - a < f →
      chain next f (d.firstFrom p a) = (List.range' a (d.length - a)).filter p := by
  intro f
  induction f with
  | zero => intro a h; omega
  | succ f ih =>
    intro a h
    rcases firstFrom_spec d p a with ⟨j, h1, h2, h3, h4, h5⟩ | ⟨h1, h2⟩
    · rw [h1]
      simp only [chain]
      rw [hnext j h3 h4, ih (j + 1) (by omega)]
      rw [filter_range'_first p (j - a) a (d.length - a) j rfl h2 (by omega) h5 h4]
      have e : a + (d.length - a) - (j + 1) = d.length - (j + 1) := by omega
      rw [e]
    · rw [h1]
      simp only [chain]
      rw [filter_range'_none]
      intro i a1 a2
      exact h2 i a1 (by omega)

/-- dropping the part of the table where the predicate cannot hold -/
theorem filter_from (d : Doc) (q : Nat → Bool) (a : Nat) (ha : a ≤ d.length) (h : ∀ m, m < d.length → q m = true → a ≤ m) :
    (List.range' 0 d.length).filter q = (List.range' a (d.length - a)).filter q := by
  rw [← filter_range'_window q 0 d.length a d.length (by omega) ha (by omega)]
  apply List.filter_congr
  intro m hm
  have hm' := List.mem_range'_1.mp hm
  have hml : m < d.length := by omega
  cases hq : q m with
  | false => simp
  | true => simp [h m hml hq, hml]

theorem parent_lt (d : Doc) (hw : WF d) (m p : Nat) (hm : m < d.length) (hp : d.parentOf m = some p) : p < m := by
  have h5 := hw.w5 m hm
  rw [hp] at h5
  exact h5.1

theorem findChildren_spec (d : Doc) (hw : WF d) (n : Nat) (hn : n < d.length) :
    d.findChildren n = d.axis .child n := by
  unfold findChildren firstChild
  rw [chain_filter d (fun m => d.parentOf m == some n && !d.isAttr m) d.nextSibling ?_ d.length (n + 1) (by omega)]
  · simp only [axis, Axis.isReverse, ids, List.range_eq_range', Bool.false_eq_true, if_false]
    have : d.onAxis .child n = (fun m => d.parentOf m == some n && !d.isAttr m) := by funext m; rfl
    rw [this]
    exact (filter_from d _ (n + 1) (by omega) (fun m hm hq => by
      simp only [Bool.and_eq_true, beq_iff_eq] at hq
      have := parent_lt d hw m n hm hq.1
      omega)).symm
  · intro m hm hq
    simp only [Bool.and_eq_true, beq_iff_eq, Bool.not_eq_true'] at hq
    simp [nextSibling, hq.1, hq.2]

theorem findAttributes_spec (d : Doc) (hw : WF d) (n : Nat) (hn : n < d.length) :
    d.findAttributes n = d.axis .attribute n := by
  simp only [axis, Axis.isReverse, ids, List.range_eq_range', Bool.false_eq_true, if_false]
  have hax : d.onAxis .attribute n = (fun m => d.parentOf m == some n && d.isAttr m) := by funext m; rfl
  rw [hax]
  unfold findAttributes
  by_cases hk : d.kindOf n = .elem
  · simp only [hk, BEq.rfl, if_true]
    rw [chain_filter d (fun m => d.parentOf m == some n && d.isAttr m) _ (fun m _ _ => rfl) d.length (n + 1) (by omega)]
    exact (filter_from d _ (n + 1) (by omega) (fun m hm hq => by
      simp only [Bool.and_eq_true, beq_iff_eq] at hq
      have := parent_lt d hw m n hm hq.1
      omega)).symm
  · have : (d.kindOf n == Kind.elem) = false := by
      cases hkk : d.kindOf n <;> first | rfl | (exact absurd hkk hk)
    simp only [this, Bool.false_eq_true, if_false]
    symm
    apply List.filter_eq_nil_iff.mpr
    intro m hm hq
    have hm' := List.mem_range'_1.mp hm
    simp only [Bool.and_eq_true, beq_iff_eq] at hq
    have := hw.w10 m (by omega) hq.2
    rw [hq.1] at this
    exact hk this

theorem findFollowingSiblings_spec (d : Doc) (hw : WF d) (n : Nat) (hn : n < d.length) :
    d.findFollowingSiblings n = d.axis .followingSibling n := by
  simp only [axis, Axis.isReverse, ids, List.range_eq_range', Bool.false_eq_true, if_false]
  unfold findFollowingSiblings
  by_cases hattr : d.isAttr n = true
  · have : d.nextSibling n = none := by simp [nextSibling, hattr]
    rw [this]
    have : chain d.nextSibling d.length none = [] := by cases d.length <;> rfl
    rw [this]
    symm
    apply List.filter_eq_nil_iff.mpr
    intro m _
    simp [onAxis, hattr]
  · have hna : d.isAttr n = false := by simpa using hattr
    cases hp : d.parentOf n with
    | none =>
      have : d.nextSibling n = none := by simp [nextSibling, hna, hp]
      rw [this]
      have : chain d.nextSibling d.length none = [] := by cases d.length <;> rfl
      rw [this]
      symm
      apply List.filter_eq_nil_iff.mpr
      intro m _
      simp [onAxis, hp]
    | some p =>
      have hns : d.nextSibling n = d.firstFrom (fun k => d.parentOf k == some p && !d.isAttr k) (n + 1) := by
        simp [nextSibling, hna, hp]
      rw [hns, chain_filter d (fun k => d.parentOf k == some p && !d.isAttr k) d.nextSibling ?_ d.length (n + 1) (by omega)]
      · rw [← filter_range'_window _ 0 d.length (n + 1) d.length (by omega) (by omega) (by omega)]
        apply List.filter_congr
        intro m hm
        have hm' := List.mem_range'_1.mp hm
        have hml : m < d.length := by omega
        simp only [onAxis, hna, hp]
        by_cases c : n < m
        · have c' : n + 1 ≤ m := c
          simp [c, c', hml, Bool.and_comm]
        · have c' : ¬ (n + 1 ≤ m) := by omega
          simp [c, c']
      · intro m hm hq
        simp only [Bool.and_eq_true, beq_iff_eq, Bool.not_eq_true'] at hq
        simp [nextSibling, hq.1, hq.2]

/-- `prevBelow` walks down from `a`: following it enumerates the filter over `[0, a)` backwards -/
theorem chain_prev (p : Nat → Bool) (next : Nat → Option Nat) (hnext : ∀ m, p m = true → next m = prevBelow p m) :
    ∀ (a f : Nat), a < f → chain next f (prevBelow p a) = ((List.range' 0 a).filter p).reverse := by
  intro a
  induction a with
  | zero => intro f h; cases f <;> rfl
  | succ a ih =>
    intro f h
    rw [List.range'_concat, List.filter_append, List.reverse_append]
    simp only [Nat.zero_add, Nat.one_mul]
    by_cases c : p a = true
    · obtain ⟨f', hf'⟩ : ∃ f', f = f' + 1 := ⟨f - 1, by omega⟩
      subst hf'
      simp only [prevBelow, c, if_true, chain, List.filter_cons, List.filter_nil, List.reverse_cons, List.reverse_nil,
        List.nil_append, List.singleton_append]
      rw [hnext a c, ih f' (by omega)]
    · have c' : p a = false := by simpa using c
      simp only [prevBelow, c', Bool.false_eq_true, if_false, List.filter_cons, List.filter_nil, List.reverse_nil, List.nil_append]
      exact ih f (by omega)

theorem findPreceedingSiblings_spec (d : Doc) (hw : WF d) (n : Nat) (hn : n < d.length) :
    d.findPreceedingSiblings n = d.axis .precedingSibling n := by
  simp only [axis, Axis.isReverse, ids, List.range_eq_range', if_true]
  unfold findPreceedingSiblings
  by_cases hattr : d.isAttr n = true
  · have : d.prevSibling n = none := by simp [prevSibling, hattr]
    rw [this]
    have : chain d.prevSibling d.length none = [] := by cases d.length <;> rfl
    rw [this]
    symm
    rw [List.reverse_eq_nil_iff]
    apply List.filter_eq_nil_iff.mpr
    intro m _
    simp [onAxis, hattr]
  · have hna : d.isAttr n = false := by simpa using hattr
    cases hp : d.parentOf n with
    | none =>
      have : d.prevSibling n = none := by simp [prevSibling, hna, hp]
      rw [this]
      have : chain d.prevSibling d.length none = [] := by cases d.length <;> rfl
      rw [this]
      symm
      rw [List.reverse_eq_nil_iff]
      apply List.filter_eq_nil_iff.mpr
      intro m _
      simp [onAxis, hp]
    | some p =>
      have hps : d.prevSibling n = prevBelow (fun k => d.parentOf k == some p && !d.isAttr k) n := by
        simp [prevSibling, hna, hp]
      rw [hps, chain_prev (fun k => d.parentOf k == some p && !d.isAttr k) d.prevSibling ?_ n d.length hn]
      · congr 1
        have hwin := filter_range'_window (fun k => d.parentOf k == some p && !d.isAttr k) 0 d.length 0 n (by omega) (by omega) (by omega)
        simp only [Nat.sub_zero] at hwin
        rw [← hwin]
        apply List.filter_congr
        intro m hm
        simp only [onAxis, hna, hp]
        by_cases c : m < n <;> simp [c, Bool.and_comm]
      · intro m hq
        simp only [Bool.and_eq_true, beq_iff_eq, Bool.not_eq_true'] at hq
        simp [prevSibling, hq.1, hq.2]

theorem filter_single (N p : Nat) (hp : p < N) : (List.range' 0 N).filter (fun m => m == p) = [p] := by
  have h := filter_range'_first (fun m => m == p) (p - 0) 0 N p rfl (by omega) (by omega)
    (fun j _ hj => by simp; omega) (by simp)
  rw [h]
  congr 1
  apply filter_range'_none
  intro j h1 h2
  simp; omega

theorem findSelf_spec (d : Doc) (n : Nat) (hn : n < d.length) : d.findSelf n = d.axis .self n := by
  simp only [axis, Axis.isReverse, ids, List.range_eq_range', Bool.false_eq_true, if_false, findSelf]
  have : d.onAxis .self n = (fun m => m == n) := by funext m; rfl
  rw [this, filter_single d.length n hn]

theorem findParent_spec (d : Doc) (hw : WF d) (n : Nat) (hn : n < d.length) : d.findParent n = d.axis .parent n := by
  simp only [axis, Axis.isReverse, ids, List.range_eq_range', Bool.false_eq_true, if_false, findParent]
  cases hp : d.parentOf n with
  | none =>
    symm
    apply List.filter_eq_nil_iff.mpr
    intro m _
    simp [onAxis, hp]
  | some p =>
    have hlt := parent_lt d hw n p hn hp
    have : d.onAxis .parent n = (fun m => m == p) := by
      funext m
      simp only [onAxis, hp]
      show (some p == some m) = (m == p)
      by_cases c : m = p
      · subst c; simp
      · have c2 : ¬ p = m := fun h => c h.symm
        have e1 : (p == m) = false := by simp [c2]
        have e2 : (m == p) = false := by simp [c]
        simp [e1, e2]
    rw [this, filter_single d.length p (by omega)]
    rfl

theorem findNamespace_spec (d : Doc) (n : Nat) : d.find .namespace n = d.axis .namespace n := by
  simp only [find, axis, Axis.isReverse, Bool.false_eq_true, if_false]
  symm
  apply List.filter_eq_nil_iff.mpr
  intro m _
  simp [onAxis]

theorem chain_parent (d : Doc) : ∀ (f i : Nat), chain d.parentOf f (d.parentOf i) = d.ancestorsF f i := by
  intro f
  induction f with
  | zero => intro i; cases d.parentOf i <;> rfl
  | succ f ih =>
    intro i
    cases hp : d.parentOf i with
    | none => simp [chain, ancestorsF, hp]
    | some p => simp [chain, ancestorsF, hp, ih p]

theorem ancestorsF_sorted (d : Doc) (hw : WF d) : ∀ (f i : Nat), i < d.length →
    (d.ancestorsF f i).Pairwise (fun a b => b < a) ∧ ∀ x ∈ d.ancestorsF f i, x < i := by
  intro f
  induction f with
  | zero => intro i _; simp [ancestorsF]
  | succ f ih =>
    intro i hi
    cases hp : d.parentOf i with
    | none => simp [ancestorsF, hp]
    | some p =>
      have hlt := parent_lt d hw i p hi hp
      obtain ⟨h1, h2⟩ := ih p (by omega)
      simp only [ancestorsF, hp, List.pairwise_cons, List.mem_cons]
      refine ⟨⟨fun x hx => h2 x hx, h1⟩, ?_⟩
      intro x hx
      rcases hx with hx | hx
      · omega
      · have := h2 x hx; omega

/-- a strictly decreasing list of indices is what filtering the table by membership and reversing gives back -/
theorem reverse_filter_contains : ∀ (l : List Nat) (N : Nat), l.Pairwise (fun a b => b < a) → (∀ x ∈ l, x < N) →
    ((List.range' 0 N).filter (fun m => l.contains m)).reverse = l := by
  intro l
  induction l with
  | nil =>
    intro N _ _
    have : (List.range' 0 N).filter (fun m => ([] : List Nat).contains m) = [] := by
      apply List.filter_eq_nil_iff.mpr; intro m _; simp
    rw [this]; rfl
  | cons a t ih =>
    intro N hp hb
    have haN : a < N := hb a (List.mem_cons_self ..)
    obtain ⟨hta, htp⟩ := List.pairwise_cons.mp hp
    have e1 : List.range' 0 N = List.range' 0 a ++ (a :: List.range' (a + 1) (N - (a + 1))) := by
      have := @List.range'_append 0 a (N - a) 1
      simp only [Nat.zero_add, Nat.one_mul] at this
      have e : a + (N - a) = N := by omega
      rw [e] at this
      rw [← this]
      congr 1
      obtain ⟨l', hl'⟩ : ∃ l', N - a = l' + 1 := ⟨N - a - 1, by omega⟩
      rw [hl', List.range'_succ]
      congr 2
      omega
    rw [e1, List.filter_append, List.filter_cons]
    have ha : (a :: t).contains a = true := by simp
    simp only [ha, if_true]
    have hlast : (List.range' (a + 1) (N - (a + 1))).filter (fun m => (a :: t).contains m) = [] := by
      apply filter_range'_none
      intro j h1 h2
      have : j ≠ a := by omega
      have hnt : j ∉ t := fun hj => by have := hta j hj; omega
      simp [this, hnt]
    rw [hlast, List.reverse_append]
    have hfirst : (List.range' 0 a).filter (fun m => (a :: t).contains m) = (List.range' 0 a).filter (fun m => t.contains m) := by
      apply List.filter_congr
      intro m hm
      have := List.mem_range'_1.mp hm
      have : m ≠ a := by omega
      simp [this]
    rw [hfirst, ih a htp (fun x hx => hta x hx)]
    rfl

theorem findAncestors_spec (d : Doc) (hw : WF d) (n : Nat) (hn : n < d.length) :
    d.findAncestors n = d.axis .ancestor n := by
  simp only [axis, Axis.isReverse, ids, List.range_eq_range', if_true]
  unfold findAncestors
  rw [chain_parent]
  have hs := ancestorsF_sorted d hw d.length n hn
  have : d.onAxis .ancestor n = (fun m => (d.ancestors n).contains m) := by funext m; rfl
  rw [this, reverse_filter_contains (d.ancestors n) d.length hs.1 (fun x hx => by have := hs.2 x hx; omega)]
  rfl

theorem findAncestorsOrSelf_spec (d : Doc) (hw : WF d) (n : Nat) (hn : n < d.length) :
    d.findAncestorsOrSelf n = d.axis .ancestorOrSelf n := by
  simp only [axis, Axis.isReverse, ids, List.range_eq_range', if_true]
  unfold findAncestorsOrSelf
  simp only [chain]
  rw [chain_parent]
  have hs := ancestorsF_sorted d hw d.length n hn
  have : d.onAxis .ancestorOrSelf n = (fun m => (n :: d.ancestors n).contains m) := by
    funext m
    simp only [onAxis, List.contains_cons]
  rw [this, reverse_filter_contains (n :: d.ancestors n) d.length
    (List.pairwise_cons.mpr ⟨fun x hx => hs.2 x hx, hs.1⟩)
    (fun x hx => by
      rcases List.mem_cons.mp hx with h | h
      · omega
      · have := hs.2 x h; omega)]
  rfl

/-- **`axes_spec`**: every `find*` walk of `XPath.cpp` returns exactly the nodes of its axis, in proximity order, for every
well-formed document and every context node. -/
theorem find_spec (d : Doc) (hw : WF d) (a : Axis) (n : Nat) (hn : n < d.length) : d.find a n = d.axis a n := by
  cases a
  · exact findAncestors_spec d hw n hn
  · exact findAncestorsOrSelf_spec d hw n hn
  · exact findAttributes_spec d hw n hn
  · exact findChildren_spec d hw n hn
  · exact findDescendants_spec d hw n hn false
  · exact findDescendants_spec d hw n hn true
  · exact findFollowing_spec d hw n hn
  · exact findFollowingSiblings_spec d hw n hn
  · exact findNamespace_spec d n
  · exact findParent_spec d hw n hn
  · exact findPreceeding_spec d hw n hn
  · exact findPreceedingSiblings_spec d hw n hn
  · exact findSelf_spec d n hn


end Doc
end XalanModel.C02
