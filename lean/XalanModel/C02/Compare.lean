import XalanModel.Generated.C02_Flags
/-!
# C02 layer 2 — XObject comparison (`XObject.cpp` 685–1296) against XPath 1.0 §3.4

*Model*: `XObject::equals / notEquals / lessThan / lessThanOrEquals / greaterThan /
greaterThanOrEquals` as written: the `this == &theRHS` shortcut first (object identity is part of
the model: an object is an address plus a value; a variable reference yields the *same* object),
then the dispatch on the two types with `compareNodeSets` (`doCompareNodeSets`, `doCompareString`,
`doCompareNumber`, boolean branch) and the node-set-on-the-right calls with the *mirrored*
operator.

*Specification*: `specCompare`, written from the text of §3.4.

`DoubleSupport` and the string→number conversion are an abstract parameter (`NumOps`); the laws the
refinement needs (`Lawful`) are exactly: `>`/`>=` are the mirror images of `<`/`<=`, `=`/`!=` are
symmetric, and comparing the images of two booleans compares the booleans.  Core Lean only.
-/
namespace XalanModel.C02

inductive CmpOp | eq | ne | lt | le | gt | ge
deriving Repr, DecidableEq

/-- what the comparison code uses of `DoubleSupport` / `DOMStringToDouble` / `XObject::number(bool)` -/
structure NumOps (S N : Type) where
  eq : N → N → Bool
  ne : N → N → Bool
  lt : N → N → Bool
  le : N → N → Bool
  gt : N → N → Bool
  ge : N → N → Bool
  ofBool : Bool → N
  ofStr : S → N
  toBool : N → Bool        -- `XObject::boolean(double)`
  toStr : N → S            -- `NumberToDOMString`
  empty : S                -- the empty string
  strTrue : S              -- "true"
  strFalse : S             -- "false"

structure Lawful {S N : Type} (o : NumOps S N) : Prop where
  eq_comm : ∀ a b, o.eq a b = o.eq b a
  ne_comm : ∀ a b, o.ne a b = o.ne b a
  gt_lt : ∀ a b, o.gt a b = o.lt b a
  ge_le : ∀ a b, o.ge a b = o.le b a
  eq_bool : ∀ a b, o.eq (o.ofBool a) (o.ofBool b) = (a == b)
  ne_bool : ∀ a b, o.ne (o.ofBool a) (o.ofBool b) = (a != b)

/-- XPath values that can reach a comparison outside XSLT (no result tree fragments).  A node-set is
the list of the string-values of its nodes, in the order of the list. -/
inductive Val (S N : Type)
  | bool (b : Bool)
  | num (n : N)
  | str (s : S)
  | nodes (l : List S)
deriving Repr

/-- an XObject: its address and its value -/
structure Obj (S N : Type) where
  addr : Nat
  val : Val S N

variable {S N : Type} [DecidableEq S]

/-- `XObject::boolean()` -/
def Val.toBool (o : NumOps S N) : Val S N → Bool
  | .bool b => b
  | .num n => o.toBool n
  | .str s => s != o.empty
  | .nodes l => !l.isEmpty

/-- `XObject::num()` (a node-set converts through the string-value of its first node) -/
def Val.toNum (o : NumOps S N) : Val S N → N
  | .bool b => o.ofBool b
  | .num n => n
  | .str s => o.ofStr s
  | .nodes l => o.ofStr (l.headD o.empty)

/-- `XObject::str()` -/
def Val.toStr (o : NumOps S N) : Val S N → S
  | .bool b => if b then o.strTrue else o.strFalse
  | .num n => o.toStr n
  | .str s => s
  | .nodes l => l.headD o.empty

def cmpNum (o : NumOps S N) : CmpOp → N → N → Bool
  | .eq => o.eq | .ne => o.ne | .lt => o.lt | .le => o.le | .gt => o.gt | .ge => o.ge

/-- the `…DOMString` functors on two strings: (in)equality of the strings for `=`/`!=`, numeric otherwise -/
def cmpStr (o : NumOps S N) (op : CmpOp) (x y : S) : Bool :=
  match op with
  | .eq => x == y
  | .ne => x != y
  | op => cmpNum o op (o.ofStr x) (o.ofStr y)

/-- the `(XalanDOMString, XObject)` overload of the functors, used by `doCompareString` -/
def cmpStrObj (o : NumOps S N) (op : CmpOp) (x : S) (r : Val S N) : Bool :=
  match op with
  | .eq => x == r.toStr o
  | .ne => x != r.toStr o
  | op => cmpNum o op (o.ofStr x) (r.toNum o)

/-- `compareNodeSets(theLHS, theRHS, theRHSType, stringCompare, numberCompare)`; `A` = the LHS node-set -/
def compareNodeSets (o : NumOps S N) (op : CmpOp) (A : List S) (r : Val S N) : Bool :=
  match r with
  | .nodes B => A.any fun x => B.any fun y => cmpStr o op x y                 -- doCompareNodeSets
  | .bool _ => cmpNum o op (o.ofBool (!A.isEmpty)) (r.toNum o)
  | .num n => A.any fun x => cmpNum o op (o.ofStr x) n                        -- doCompareNumber
  | .str _ => A.any fun x => cmpStrObj o op x r                              -- doCompareString

def CmpOp.mirror : CmpOp → CmpOp
  | .eq => .eq | .ne => .ne | .lt => .gt | .le => .ge | .gt => .lt | .ge => .le

/-- the value of the `this == &theRHS` shortcut in each of the six methods -/
def identityShortcut : CmpOp → Bool
  | .eq => true
  | _ => false

/-- the six methods, as written -/
def xobjCompare (o : NumOps S N) (op : CmpOp) (l r : Obj S N) : Bool :=
  if XalanModel.Generated.C02.identityShortcuts ∧ l.addr = r.addr then identityShortcut op
  else
    match l.val with
    | .nodes A => compareNodeSets o op A r.val
    | lv =>
      match r.val with
      | .nodes B => compareNodeSets o op.mirror B lv
      | rv =>
        match op with
        | .eq =>
          if lv matches .bool _ || rv matches .bool _ then lv.toBool o == rv.toBool o
          else if lv matches .num _ || rv matches .num _ then o.eq (lv.toNum o) (rv.toNum o)
          else lv.toStr o == rv.toStr o
        | .ne =>
          if lv matches .bool _ || rv matches .bool _ then lv.toBool o != rv.toBool o
          else if lv matches .num _ || rv matches .num _ then o.ne (lv.toNum o) (rv.toNum o)
          else lv.toStr o != rv.toStr o
        | op => cmpNum o op (lv.toNum o) (rv.toNum o)

/-! ## XPath 1.0 §3.4 -/

def cmpBoolean (o : NumOps S N) (op : CmpOp) (x y : Bool) : Bool :=
  match op with
  | .eq => x == y
  | .ne => x != y
  | op => cmpNum o op (o.ofBool x) (o.ofBool y)

def specCompare (o : NumOps S N) (op : CmpOp) (a b : Val S N) : Bool :=
  match a, b with
  -- both node-sets: some pair of nodes whose string-values compare true
  | .nodes A, .nodes B => A.any fun x => B.any fun y => cmpStr o op x y
  -- node-set and number: some node whose string-value converted to a number compares true
  | .nodes A, .num n => A.any fun x => cmpNum o op (o.ofStr x) n
  | .num n, .nodes B => B.any fun y => cmpNum o op n (o.ofStr y)
  -- node-set and string: some node whose string-value compares true with the string
  | .nodes A, .str s => A.any fun x => cmpStr o op x s
  | .str s, .nodes B => B.any fun y => cmpStr o op s y
  -- node-set and boolean: the node-set is converted with boolean()
  | .nodes A, .bool b => cmpBoolean o op (!A.isEmpty) b
  | .bool b, .nodes B => cmpBoolean o op b (!B.isEmpty)
  -- neither is a node-set
  | a, b =>
    match op with
    | .eq =>
      if a matches .bool _ || b matches .bool _ then a.toBool o == b.toBool o
      else if a matches .num _ || b matches .num _ then o.eq (a.toNum o) (b.toNum o)
      else a.toStr o == b.toStr o
    | .ne =>
      if a matches .bool _ || b matches .bool _ then a.toBool o != b.toBool o
      else if a matches .num _ || b matches .num _ then o.ne (a.toNum o) (b.toNum o)
      else a.toStr o != b.toStr o
    | op => cmpNum o op (a.toNum o) (b.toNum o)

/-! ## a small concrete `NumOps` for the kernel-checked counterexamples -/

/-- integers plus NaN with IEEE-style comparisons -/
inductive D | nan | val (z : Int)
deriving Repr, DecidableEq

/-- toy strings: `some z` is the decimal numeral of `z`, `none` any non-numeric text -/
abbrev DS := Option Int

def D.ops : NumOps DS D where
  eq a b := match a, b with | .val x, .val y => x == y | _, _ => false
  ne a b := match a, b with | .val x, .val y => x != y | _, _ => true
  lt a b := match a, b with | .val x, .val y => x < y | _, _ => false
  le a b := match a, b with | .val x, .val y => x ≤ y | _, _ => false
  gt a b := match a, b with | .val x, .val y => x > y | _, _ => false
  ge a b := match a, b with | .val x, .val y => x ≥ y | _, _ => false
  ofBool b := .val (if b then 1 else 0)
  ofStr s := match s with | some z => .val z | none => .nan
  toBool a := match a with | .val z => z != 0 | .nan => false
  toStr a := match a with | .val z => some z | .nan => none
  empty := none
  strTrue := none
  strFalse := none

end XalanModel.C02
