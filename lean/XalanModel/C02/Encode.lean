import XalanModel.C02.Compile
/-!
# C02 layer 1 — the specification side of the compiler theorem

`E` is the abstract syntax of the operator fragment, `enc` the prefix encoding the op map is
documented to hold (`XPathExpression.hpp`: `[op] [length] {operand} {operand}`), `toks` prints a
tree as tokens *without* adding parentheses, and `WF` says when that printing denotes the tree
itself under XPath 1.0 §3 (binary operators left-associative, precedence or < and < equality <
relational < additive < multiplicative < unary; `and`/`or` are compiled right-nested by
`AndExpr`/`OrExpr`, which is the same function by associativity — `Spec.lean`).
-/
namespace XalanModel.C02
open XalanModel.Generated.C02

inductive BinOp | ne | eq | le | lt | ge | gt | plus | minus | mult | div | mod
deriving Repr, DecidableEq

def BinOp.code : BinOp → Int
  | .ne => eOP_NOTEQUALS | .eq => eOP_EQUALS | .le => eOP_LTE | .lt => eOP_LT | .ge => eOP_GTE | .gt => eOP_GT
  | .plus => eOP_PLUS | .minus => eOP_MINUS | .mult => eOP_MULT | .div => eOP_DIV | .mod => eOP_MOD

/-- precedence level: 2 equality, 3 relational, 4 additive, 5 multiplicative -/
def BinOp.lvl : BinOp → Nat
  | .ne | .eq => 2
  | .le | .lt | .ge | .gt => 3
  | .plus | .minus => 4
  | .mult | .div | .mod => 5

/-- the tokens of the operator (`j` = queue position of an operator *name*, irrelevant to the op map) -/
def BinOp.toks (j : Int) : BinOp → List Tok
  | .ne => if compoundOperatorTokens then [.neq] else [.bang, .eq]
  | .eq => [.eq]
  | .le => if compoundOperatorTokens then [.leq] else [.lt, .eq]
  | .lt => [.lt]
  | .ge => if compoundOperatorTokens then [.geq] else [.gt, .eq]
  | .gt => [.gt]
  | .plus => [.plus] | .minus => [.minus] | .mult => [.star] | .div => [.name .div j] | .mod => [.name .mod j]

inductive E
  | num (i j : Int)
  | lit (j : Int)
  | var (i j : Int)
  | nameStep (k : NameKind) (j : Int)      -- `name` = child::name, one-step relative location path
  | anyStep                                -- `*`
  | group (e : E)
  | neg (e : E)
  | bin (op : BinOp) (j : Int) (l r : E)
  | and (j : Int) (l r : E)
  | or (j : Int) (l r : E)
deriving Repr, DecidableEq

namespace E

def enc : E → List Int
  | num i j => [eOP_NUMBERLIT, 4, i, j]
  | lit j => [eOP_LITERAL, 3, j]
  | var i j => [eOP_VARIABLE, 4, i, j]
  | nameStep _ j => [eOP_LOCATIONPATH, 9, eFROM_CHILDREN, 6, 6, eNODENAME, eEMPTY, j, eENDOP]
  | anyStep => [eOP_LOCATIONPATH, 9, eFROM_CHILDREN, 6, 6, eNODENAME, eEMPTY, eELEMWILDCARD, eENDOP]
  | group e => eOP_GROUP :: ((enc e).length + 2 : Int) :: enc e
  | neg e => eOP_NEG :: ((enc e).length + 2 : Int) :: enc e
  | bin op _ l r => op.code :: ((enc l).length + (enc r).length + 2 : Int) :: (enc l ++ enc r)
  | and _ l r => eOP_AND :: ((enc l).length + (enc r).length + 2 : Int) :: (enc l ++ enc r)
  | or _ l r => eOP_OR :: ((enc l).length + (enc r).length + 2 : Int) :: (enc l ++ enc r)

def toks : E → List Tok
  | num i j => [.num i j]
  | lit j => [.lit j]
  | var i j => [.var i j]
  | nameStep k j => [.name k j]
  | anyStep => [.star]
  | group e => .lpar :: (toks e ++ [.rpar])
  | neg e => .minus :: toks e
  | bin op j l r => toks l ++ op.toks j ++ toks r
  | and j l r => toks l ++ [.name .and j] ++ toks r
  | or j l r => toks l ++ [.name .or j] ++ toks r

/-- 0 or, 1 and, 2 equality, 3 relational, 4 additive, 5 multiplicative, 6 unary, 7 union/path/primary -/
def prec : E → Nat
  | or .. => 0
  | and .. => 1
  | bin op .. => op.lvl
  | neg _ => 6
  | _ => 7

/-- printing without parentheses denotes the tree itself -/
def WF : E → Prop
  | group e => WF e
  | neg e => WF e ∧ 7 ≤ prec e                       -- as compiled: the operand of `-` is a UnionExpr
  | bin op _ l r => WF l ∧ WF r ∧ op.lvl ≤ prec l ∧ op.lvl < prec r     -- left-associative
  | and _ l r => WF l ∧ WF r ∧ 1 < prec l ∧ 1 ≤ prec r                  -- right-nested (AndExpr)
  | or _ l r => WF l ∧ WF r ∧ 0 < prec l                                -- right-nested (OrExpr)
  | _ => True

def size : E → Nat
  | group e => size e + 1
  | neg e => size e + 1
  | bin _ _ l r => size l + size r + 1
  | and _ l r => size l + size r + 1
  | or _ l r => size l + size r + 1
  | _ => 1

end E

/-- the whole op map: `[OP_XPATH, total length]` followed by the body -/
def mk (b : List Int) : OpMap := eOP_XPATH :: ((b.length : Int) + 2) :: b

end XalanModel.C02
