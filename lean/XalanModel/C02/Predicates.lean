/-!
# C02 layer 3 — predicate filtering: the loop of `XPath::predicates` (4484–4594) against §2.4

Pure list-level statement, independent of how a predicate is evaluated: `ev m pos size` is the value
of the predicate expression for context node `m` at proximity position `pos` in a list of `size`
nodes (the list is in proximity order: `step` hands reverse axes over in reverse document order).

* model, general branch: for item `i` the node is *removed* iff
  `(type == number && i + 1 != num) || boolean() == false`; entries are nulled in place, then `clearNulls()`;
* model, numeric-literal shortcut: index out of range / not an integer ⇒ clear; more than one node ⇒ keep
  `item(index - 1)` only; exactly one node ⇒ untouched;
* specification (§2.4): a number is true iff it equals the context position, anything else is converted
  with `boolean()`; the node is kept iff the predicate is true.
Core Lean only.
-/
namespace XalanModel.C02

/-- what the loop uses of a predicate value -/
structure PredSem (V : Type) where
  isNum : V → Bool
  numEqPos : V → Nat → Bool        -- the value is a number equal to this position
  toBool : V → Bool
  /-- a number equal to a position ≥ 1 is neither zero nor NaN -/
  pos_true : ∀ v p, isNum v = true → numEqPos v p = true → 1 ≤ p → toBool v = true

variable {V : Type}

/-- the `for` loop: null the entries to remove (index `i` = position − 1) -/
def nullLoop (sem : PredSem V) (ev : Nat → Nat → Nat → V) (size : Nat) : Nat → List Nat → List (Option Nat)
  | _, [] => []
  | i, m :: t =>
    let v := ev m (i + 1) size
    (if (sem.isNum v && !sem.numEqPos v (i + 1)) || !sem.toBool v then none else some m) :: nullLoop sem ev size (i + 1) t

/-- general branch of `predicates()`: loop, then `clearNulls()` -/
def predicateModel (sem : PredSem V) (ev : Nat → Nat → Nat → V) (l : List Nat) : List Nat :=
  (nullLoop sem ev l.length 0 l).filterMap id

/-- §2.4 -/
def predTrue (sem : PredSem V) (v : V) (pos : Nat) : Bool :=
  if sem.isNum v then sem.numEqPos v pos else sem.toBool v

def specLoop (sem : PredSem V) (ev : Nat → Nat → Nat → V) (size : Nat) : Nat → List Nat → List Nat
  | _, [] => []
  | i, m :: t =>
    if predTrue sem (ev m (i + 1) size) (i + 1) then m :: specLoop sem ev size (i + 1) t
    else specLoop sem ev size (i + 1) t

def predicateSpec (sem : PredSem V) (ev : Nat → Nat → Nat → V) (l : List Nat) : List Nat :=
  specLoop sem ev l.length 0 l

theorem nullLoop_spec (sem : PredSem V) (ev : Nat → Nat → Nat → V) (size : Nat) :
    ∀ (l : List Nat) (i : Nat), (nullLoop sem ev size i l).filterMap id = specLoop sem ev size i l := by
  intro l
  induction l with
  | nil => intro i; rfl
  | cons m t ih =>
    intro i
    have key : ∀ v : V, ((sem.isNum v && !sem.numEqPos v (i + 1)) || !sem.toBool v)
        = !(if sem.isNum v then sem.numEqPos v (i + 1) else sem.toBool v) := by
      intro v
      have hpt := sem.pos_true v (i + 1)
      cases h1 : sem.isNum v <;> cases h2 : sem.toBool v <;> cases h3 : sem.numEqPos v (i + 1) <;> simp
      rw [h1, h2, h3] at hpt
      exact absurd (hpt rfl rfl (by omega)) (by simp)
    simp only [nullLoop, specLoop, predTrue, key]
    by_cases h : (if sem.isNum (ev m (i + 1) size) then sem.numEqPos (ev m (i + 1) size) (i + 1)
        else sem.toBool (ev m (i + 1) size)) = true
    · simp [h, ih]
    · simp [h, ih]

/-- the numeric-literal shortcut; the literal is given as: is it a positive integer, and which (`k`) -/
def shortcutModel (isPosInt : Bool) (k : Nat) (l : List Nat) : List Nat :=
  if !isPosInt || k > l.length then []
  else if l.length > 1 then (l[k - 1]?).toList
  else l

/-- §2.4 for a constant number: keep the node whose position equals it -/
def shortcutSpecLoop (isPosInt : Bool) (k : Nat) : Nat → List Nat → List Nat
  | _, [] => []
  | i, m :: t => if isPosInt && i + 1 == k then m :: shortcutSpecLoop isPosInt k (i + 1) t else shortcutSpecLoop isPosInt k (i + 1) t

theorem shortcutSpecLoop_none (k : Nat) : ∀ (l : List Nat) (i : Nat), k ≤ i → shortcutSpecLoop true k i l = [] := by
  intro l; induction l with
  | nil => intro i _; rfl
  | cons m t ih =>
    intro i h
    have : (i + 1 == k) = false := by simp; omega
    simp [shortcutSpecLoop, this, ih (i + 1) (by omega)]

theorem shortcutSpecLoop_pick (k : Nat) : ∀ (l : List Nat) (i : Nat), i < k → k ≤ i + l.length →
    shortcutSpecLoop true k i l = (l[k - 1 - i]?).toList := by
  intro l; induction l with
  | nil => intro i h1 h2; simp at h2; omega
  | cons m t ih =>
    intro i h1 h2
    by_cases hk : i + 1 = k
    · subst hk
      simp [shortcutSpecLoop, shortcutSpecLoop_none]
    · have : (i + 1 == k) = false := by simp; omega
      have e : k - 1 - i = (k - 1 - (i + 1)) + 1 := by omega
      simp only [shortcutSpecLoop, Bool.true_and, this]
      rw [ih (i + 1) (by omega) (by simp at h2; omega), e]
      simp

end XalanModel.C02

namespace XalanModel.C02

theorem shortcutSpecLoop_false (k : Nat) : ∀ (l : List Nat) (i : Nat), shortcutSpecLoop false k i l = [] := by
  intro l; induction l with
  | nil => intro i; rfl
  | cons m t ih => intro i; simp [shortcutSpecLoop, ih]

theorem shortcutSpecLoop_beyond (k : Nat) : ∀ (l : List Nat) (i : Nat), i + l.length < k → shortcutSpecLoop true k i l = [] := by
  intro l; induction l with
  | nil => intro i _; rfl
  | cons m t ih =>
    intro i h
    have : (i + 1 == k) = false := by simp at h ⊢; omega
    simp only [shortcutSpecLoop, Bool.true_and, this]
    exact ih (i + 1) (by simp at h; omega)

theorem shortcut_spec (isPosInt : Bool) (k : Nat) (hk : isPosInt = true → 1 ≤ k) (l : List Nat) :
    shortcutModel isPosInt k l = shortcutSpecLoop isPosInt k 0 l := by
  cases isPosInt with
  | false => simp [shortcutModel, shortcutSpecLoop_false]
  | true =>
    have hk := hk rfl
    unfold shortcutModel
    by_cases h : k > l.length
    · simp [h, shortcutSpecLoop_beyond k l 0 (by omega)]
    · have hp := shortcutSpecLoop_pick k l 0 (by omega) (by omega)
      simp only [Bool.not_true, Bool.false_or, decide_eq_true_eq, h, if_false]
      rw [hp]
      by_cases h1 : l.length > 1
      · simp [h1]
      · simp only [h1, if_false]
        match l, h, h1 with
        | [], h, _ => simp at h; omega
        | [x], h, _ =>
          have : k = 1 := by simp at h; omega
          subst this; simp
        | _ :: _ :: _, _, h1 => simp at h1

end XalanModel.C02
