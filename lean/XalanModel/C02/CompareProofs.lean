import XalanModel.C02.Compare
/-! helper lemmas for the comparison refinement (C02 layer 2) -/
namespace XalanModel.C02

theorem any_congr' {α} (l : List α) (f g : α → Bool) (h : ∀ x, f x = g x) : l.any f = l.any g := by
  have : f = g := funext h
  rw [this]

/-- the toy number structure used for the counterexamples satisfies the laws assumed of `DoubleSupport` -/
theorem D.lawful : Lawful D.ops where
  eq_comm a b := by cases a <;> cases b <;> simp [D.ops] <;> exact BEq.comm
  ne_comm a b := by cases a <;> cases b <;> simp [D.ops] <;> (simp only [bne]; rw [BEq.comm])
  gt_lt a b := by cases a <;> cases b <;> simp [D.ops]
  ge_le a b := by cases a <;> cases b <;> simp [D.ops]
  eq_bool a b := by cases a <;> cases b <;> simp [D.ops]
  ne_bool a b := by cases a <;> cases b <;> simp [D.ops]

end XalanModel.C02
