import XalanModel.C02.XAst
import XalanModel.C02.Tokenize
import XalanModel.C02.Compare
import XalanModel.Generated.C02_Flags
/-!
# C02 layer 3 — two evaluators over the same syntax tree

* `evalS` — the denotational specification, from the text of XPath 1.0 §2 (location steps: axis ▸ node
  test ▸ predicates with proximity positions, §2.4), §3 (operators, §3.4 via `specCompare`), §4 (functions).
* `evalM` — the model of `XPath.cpp`: `step` (2863) with the `find*` walks of `Doc.lean`, `predicates`
  (4484) with in-place nulling, the numeric-literal shortcut and the position cache of
  `XPathExecutionContextDefault::getContextNodeListPosition` (which is only cleared when a context node
  list is pushed or popped), reverse axes collected in reverse order and `reverse()`d at the end, results
  of sub-steps merged in document order, comparisons through `xobjCompare`.
  The function library is shared by both (specified by §4; tied to the code by correspondence only).

Numbers are IEEE doubles (`Float`); executable; core Lean only.
-/
namespace XalanModel.C02

/-- XPath `number(string)`: ws* '-'? (digits ('.' digits*)? | '.' digits+) ws*, else NaN -/
def xpathNumber (s : String) : Float :=
  let nan : Float := 0.0 / 0.0
  let cs := (s.toList.dropWhile isSpaceC).reverse.dropWhile isSpaceC |>.reverse
  let (neg, cs) := match cs with | '-' :: r => (true, r) | r => (false, r)
  let ip := cs.takeWhile isDigitC
  let rest := cs.dropWhile isDigitC
  let (fp, rest, dot) := match rest with
    | '.' :: r => (r.takeWhile isDigitC, r.dropWhile isDigitC, true)
    | r => ([], r, false)
  if !rest.isEmpty ∨ (ip.isEmpty ∧ fp.isEmpty) ∨ (ip.isEmpty ∧ !dot) then nan
  else
    let m := (ip ++ fp).foldl (fun a c => a * 10 + (c.toNat - 48)) 0
    let v := decToDouble m fp.length
    if neg then -v else v

/-- `string(number)` for the values the generator lets reach a string conversion: NaN, ±Infinity, integers,
short dyadic fractions -/
def numToStr (x : Float) : String :=
  if x.isNaN then "NaN"
  else if x.isInf then (if x > 0 then "Infinity" else "-Infinity")
  else if x == 0 then "0"
  else
    let neg := x < 0
    let a := x.abs
    let ip := a.floor
    let ipS := toString ip.toUInt64.toNat
    let frac := a - ip
    let rec digits : Nat → Float → List Char
      | 0, _ => []
      | f+1, r => if r == 0 then [] else
        let r10 := r * 10
        let dgt := r10.floor
        Char.ofNat (48 + dgt.toUInt64.toNat) :: digits f (r10 - dgt)
    let fs := digits 20 frac
    (if neg then "-" else "") ++ ipS ++ (if fs.isEmpty then "" else "." ++ String.ofList fs)

def floatOps : NumOps String Float where
  eq a b := a == b
  ne a b := !(a == b)
  lt a b := a < b
  le a b := a ≤ b
  gt a b := a > b
  ge a b := a ≥ b
  ofBool b := if b then 1.0 else 0.0
  ofStr := xpathNumber
  toBool n := !(n == 0.0) && !n.isNaN
  toStr := numToStr
  empty := ""
  strTrue := "true"
  strFalse := "false"

inductive XV
  | bool (b : Bool) | num (x : Float) | str (s : String) | nodes (l : List Nat)

abbrev Vars := List (String × Nat × XV)     -- name ↦ (address, value)

def XV.toVal (d : Doc) : XV → Val String Float
  | .bool b => .bool b | .num x => .num x | .str s => .str s
  | .nodes l => .nodes (l.map d.stringValue)

def XV.toBool (d : Doc) (v : XV) : Bool := (v.toVal d).toBool floatOps
def XV.toNum (d : Doc) (v : XV) : Float := (v.toVal d).toNum floatOps
def XV.toStr (d : Doc) (v : XV) : String := (v.toVal d).toStr floatOps

def cmpOfBin : BinOp → Option CmpOp
  | .eq => some .eq | .ne => some .ne | .lt => some .lt | .le => some .le | .gt => some .gt | .ge => some .ge
  | _ => none

/-- XPath `mod`: remainder of the truncating division, sign of the dividend (§3.5) -/
def fmod (a b : Float) : Float :=
  if a.isNaN || b.isNaN || a.isInf || b == 0 then 0.0 / 0.0
  else if b.isInf then a
  else
    let m := b.abs
    /- exact remainder by shift-and-subtract: `t = m·2^k ≤ r < 2t`, so `r - t` is exact -/
    let rec scale : Nat → Float → Float → Float
      | 0, t, _ => t
      | f+1, t, r => if t * 2 ≤ r then scale f (t * 2) r else t
    let rec go : Nat → Float → Float
      | 0, r => r
      | f+1, r => if r < m then r else go f (r - scale 1100 m r)
    let r := go 2200 a.abs
    let neg := a < 0 || (a == 0 && 1.0 / a < 0)
    if neg then -r else r

def arith (op : BinOp) (a b : Float) : Float :=
  match op with
  | .plus => a + b | .minus => a - b | .mult => a * b | .div => a / b | .mod => fmod a b
  | _ => 0.0 / 0.0

/-- `DoubleSupport::divide` (NaN first; a zero divisor handled by hand: anything that is not
"positive dividend and +0" gives −Infinity) -/
def modelDiv (a b : Float) : Float :=
  if a.isNaN then a else if b.isNaN then b
  else if b != 0.0 then a / b
  else if a == 0.0 then 0.0 / 0.0
  else if XalanModel.Generated.C02.divideSignAware then (if (a > 0.0) == !(1.0 / b < 0.0) then 1.0 / 0.0 else -1.0 / 0.0)
  else if a > 0.0 && !(1.0 / b < 0.0) then 1.0 / 0.0
  else -1.0 / 0.0

/-- `DoubleSupport::modulus`: integral operands through `long % long` (the sign of a zero result is lost),
everything else as `modf(lhs / rhs) * rhs` -/
def modelMod (a b : Float) : Float :=
  let isLong (x : Float) : Bool := !x.isInf && x.abs < 9223372036854775808.0 && x.floor == x
  if a.isNaN then a else if b.isNaN then b
  else if b == 0.0 then 0.0 / 0.0
  else if XalanModel.Generated.C02.modulusIsFmod then fmod a b
  else if isLong a && isLong b then
    let ia : Int := if a < 0 then -((-a).toUInt64.toNat : Int) else (a.toUInt64.toNat : Int)
    let ib : Int := if b < 0 then -((-b).toUInt64.toNat : Int) else (b.toUInt64.toNat : Int)
    let r := Int.tmod ia ib
    if r < 0 then -(Float.ofNat r.natAbs) else Float.ofNat r.natAbs
  else
    let q := modelDiv a b
    let t := if q < 0 then q.ceil else q.floor
    let fr := if q.isInf || q - t == 0.0 then (if q < 0 || (q == 0 && 1.0 / q < 0) then -0.0 else 0.0) else q - t
    fr * b

def arithM (op : BinOp) (a b : Float) : Float :=
  let nanFirst (f : Float → Float → Float) : Float := if a.isNaN then a else if b.isNaN then b else f a b
  match op with
  | .plus => nanFirst (· + ·) | .minus => nanFirst (· - ·) | .mult => nanFirst (· * ·)
  | .div => modelDiv a b | .mod => modelMod a b
  | _ => 0.0 / 0.0

def testNode (d : Doc) (a : Axis) (t : NodeTest) (m : Nat) : Bool :=
  let principal : Kind := if a == .attribute then .attr else .elem
  match t with
  | .node => true
  | .text => d.kindOf m == .text
  | .comment => d.kindOf m == .comment
  | .pi none => d.kindOf m == .pi
  | .pi (some s) => d.kindOf m == .pi && (d[m]?.map (·.name)) == some s
  | .any => d.kindOf m == principal
  | .name s => d.kindOf m == principal && (d[m]?.map (·.name)) == some s

/-- sorted, duplicate-free union (document order) -/
def unionIds (d : Doc) (a b : List Nat) : List Nat := d.ids.filter fun i => a.contains i || b.contains i

def nameOf (d : Doc) (m : Nat) : String :=
  match d.kindOf m with
  | .elem | .attr | .pi => (d[m]?.map (·.name)).getD ""
  | _ => ""

def localNameOf (d : Doc) (m : Nat) : String :=
  let n := nameOf d m
  match n.splitOn ":" with
  | [_, l] => l
  | _ => n

/-- `lang(s)` (§4.3): the nearest `xml:lang` on the ancestor-or-self chain equals `s` or starts with `s-`, ignoring case -/
def langOf (d : Doc) (n : Nat) : Option String :=
  ((n :: d.ancestors n).filterMap fun e =>
    ((d.ids.filter fun a => d.parentOf a == some e && d.isAttr a && nameOf d a == "xml:lang").head?).map fun a =>
      (d[a]?.map (·.value)).getD "").head?

def langMatches (v s : String) : Bool :=
  let v := v.toLower
  let s := s.toLower
  v == s || v.startsWith (s ++ "-")

def normalizeSpace (s : String) : String :=
  let ws := (s.toList.map fun c => if isSpaceC c then ' ' else c)
  let words := (String.ofList ws).splitOn " " |>.filter (· ≠ "")
  " ".intercalate words

def translateStr (s frm to : String) : String :=
  let f := frm.toList
  let t := to.toList
  String.ofList (s.toList.filterMap fun c =>
    match f.idxOf? c with
    | none => some c
    | some i => t[i]?)

/-- XPath `round` (§4.4): the closest integer, ties towards +infinity; NaN, ±Infinity and ±0 are returned unchanged and a
value in [-0.5, 0) gives negative zero.  Computed without `x + 0.5` (which rounds): `x - floor x` is exact. -/
def xround (x : Float) : Float :=
  if x.isNaN || x.isInf || x == 0 then x
  else
    let t := x.floor
    let r := if x - t ≥ 0.5 then t + 1 else t
    if r == 0 && x < 0 then -0.0 else r

/-- `substring(s, a, b?)` (§4.2): characters at positions p with round(a) ≤ p < round(a) + round(b) -/
def substringX (s : String) (a : Float) (b : Option Float) : String :=
  let cs := s.toList
  let ra := xround a
  let keep (p : Nat) : Bool :=
    let pf := Float.ofNat p
    match b with
    | none => pf ≥ ra
    | some b => pf ≥ ra && pf < ra + xround b
  String.ofList ((cs.zipIdx.filter fun (_, i) => keep (i + 1)).map (·.1))

/-- the attribute the generated DTDs declare as of type ID (`<!ATTLIST e k ID #IMPLIED>` for every element name) -/
def idAttrName : String := "k"

/-- the element with the unique ID `tok` (§5.2.1), if any: the ID map of the document -/
def elementById (d : Doc) (tok : String) : Option Nat :=
  (d.ids.filter fun e => d.kindOf e == .elem &&
    (d.ids.any fun a => d.parentOf a == some e && d.isAttr a && nameOf d a == idAttrName && (d[a]?.map (·.value)) == some tok)).head?

/-- white-space separated tokens -/
def idTokens (s : String) : List String :=
  ((String.ofList (s.toList.map fun c => if isSpaceC c then ' ' else c)).splitOn " ").filter (· ≠ "")

/-- `id(object)` (§4.1): for a node-set the union of `id(string-value)` over its nodes, otherwise `string(object)` split into
tokens; the elements with those IDs, in document order, without duplicates -/
def idFn (d : Doc) (v : XV) : List Nat :=
  let toks : List String := match v with
    | .nodes l => l.flatMap fun m => idTokens (d.stringValue m)
    | v => idTokens (v.toStr d)
  let hits := toks.filterMap (elementById d)
  d.ids.filter fun e => hits.contains e

/-- the nodes whose string-value has not occurred earlier in the (document-ordered) list -/
def distinctBy (d : Doc) (l : List Nat) : List Nat :=
  (l.foldl (fun (acc : List Nat × List String) m =>
    let sv := d.stringValue m
    if acc.2.contains sv then acc else (acc.1 ++ [m], sv :: acc.2)) ([], [])).1

/-- `math:highest` / `math:lowest` (EXSLT): the nodes with the extreme number value, in document order; no node if the set is
empty or some node's value is NaN -/
def extremeNodes (d : Doc) (l : List Nat) (highest : Bool) : List Nat :=
  let vals := l.map fun m => xpathNumber (d.stringValue m)
  if l.isEmpty || vals.any Float.isNaN then []
  else
    let best := vals.foldl (fun acc v => if highest then (if v > acc then v else acc) else (if v < acc then v else acc)) (vals.headD 0.0)
    l.filter fun m => xpathNumber (d.stringValue m) == best

structure Ctx where
  node : Nat
  pos : Nat
  size : Nat
  list : List (Option Nat) := []       -- model only: the current context node list (with nulled entries)

/-- the core function library (§4); `ev` evaluates an argument in the current context; `position`/`last`
are supplied by the caller -/
def callFn (d : Doc) (c : Ctx) (position last : Float) (f : String) (args : List XV) : Except String XV :=
  let firstNode (v : XV) : Except String (Option Nat) :=
    match v with | .nodes l => .ok l.head? | _ => .error "type"
  match f, args with
  | "position", [] => .ok (.num position)
  | "last", [] => .ok (.num last)
  | "count", [.nodes l] => .ok (.num (Float.ofNat l.length))
  | "not", [v] => .ok (.bool (!v.toBool d))
  | "true", [] => .ok (.bool true)
  | "false", [] => .ok (.bool false)
  | "boolean", [v] => .ok (.bool (v.toBool d))
  | "number", [v] => .ok (.num (v.toNum d))
  | "number", [] => .ok (.num (xpathNumber (d.stringValue c.node)))
  | "string", [v] => .ok (.str (v.toStr d))
  | "string", [] => .ok (.str (d.stringValue c.node))
  | "concat", a :: b :: rest => .ok (.str (String.join ((a :: b :: rest).map (·.toStr d))))
  | "string-length", [v] => .ok (.num (Float.ofNat (v.toStr d).length))
  | "string-length", [] => .ok (.num (Float.ofNat (d.stringValue c.node).length))
  | "sum", [.nodes l] => .ok (.num (l.foldl (fun acc m => acc + xpathNumber (d.stringValue m)) 0.0))
  | "name", [] => .ok (.str (nameOf d c.node))
  | "local-name", [] => .ok (.str (localNameOf d c.node))
  | "lang", [v] => .ok (.bool (match langOf d c.node with | some l => langMatches l (v.toStr d) | none => false))
  | "name", [v] => (firstNode v).map fun o => .str ((o.map (nameOf d)).getD "")
  | "local-name", [v] => (firstNode v).map fun o => .str ((o.map (localNameOf d)).getD "")
  | "contains", [a, b] => .ok (.bool (((a.toStr d).splitOn (b.toStr d)).length > 1 || (b.toStr d) == ""))
  | "starts-with", [a, b] => .ok (.bool ((a.toStr d).startsWith (b.toStr d)))
  | "substring-before", [a, b] =>
    let x := a.toStr d; let y := b.toStr d
    if y == "" then .ok (.str "") else
    let parts := x.splitOn y
    .ok (.str (if parts.length > 1 then parts.headD "" else ""))
  | "substring-after", [a, b] =>
    let x := a.toStr d; let y := b.toStr d
    if y == "" then .ok (.str x) else
    let parts := x.splitOn y
    .ok (.str (if parts.length > 1 then y.intercalate parts.tail else ""))
  | "substring", [s, a] => .ok (.str (substringX (s.toStr d) (a.toNum d) none))
  | "substring", [s, a, b] => .ok (.str (substringX (s.toStr d) (a.toNum d) (some (b.toNum d))))
  | "normalize-space", [v] => .ok (.str (normalizeSpace (v.toStr d)))
  | "normalize-space", [] => .ok (.str (normalizeSpace (d.stringValue c.node)))
  | "translate", [s, a, b] => .ok (.str (translateStr (s.toStr d) (a.toStr d) (b.toStr d)))
  -- EXSLT sets (http://exslt.org/sets) and xalan:distinct / xalan:nodeset, by their published definitions
  | "set:difference", [.nodes a, .nodes b] => .ok (.nodes (a.filter fun m => !b.contains m))
  | "set:intersection", [.nodes a, .nodes b] => .ok (.nodes (a.filter fun m => b.contains m))
  | "set:has-same-node", [.nodes a, .nodes b] => .ok (.bool (a.any fun m => b.contains m))
  | "set:distinct", [.nodes a] => .ok (.nodes (distinctBy d a))
  | "x:distinct", [.nodes a] => .ok (.nodes (distinctBy d a))
  | "x:nodeset", [.nodes a] => .ok (.nodes a)
  | "x:difference", [.nodes a, .nodes b] => .ok (.nodes (a.filter fun m => !b.contains m))
  | "x:intersection", [.nodes a, .nodes b] => .ok (.nodes (a.filter fun m => b.contains m))
  -- EXSLT math: the nodes whose number value is the maximum / minimum; empty when the set is empty or any value is NaN
  | "math:highest", [.nodes a] => .ok (.nodes (extremeNodes d a true))
  | "math:lowest", [.nodes a] => .ok (.nodes (extremeNodes d a false))
  | "set:leading", [.nodes a, .nodes b] =>
    match b.head? with
    | none => .ok (.nodes a)
    | some f => .ok (.nodes (if a.contains f then a.filter (· < f) else []))
  | "set:trailing", [.nodes a, .nodes b] =>
    match b.head? with
    | none => .ok (.nodes a)
    | some f => .ok (.nodes (if a.contains f then a.filter (· > f) else []))
  | "id", [v] => .ok (.nodes (idFn d v))
  | "floor", [v] => .ok (.num (v.toNum d).floor)
  | "ceiling", [v] => .ok (.num (v.toNum d).ceil)
  | "round", [v] => .ok (.num (xround (v.toNum d)))
  | _, _ => .error "function"

/-! ## §2.4 predicates: the specification -/

/-- truth of a predicate value at proximity position `pos`: a number is compared with the position,
anything else is converted with `boolean()` -/
def predTruth (d : Doc) (v : XV) (pos : Nat) : Bool :=
  match v with
  | .num x => x == Float.ofNat pos
  | v => v.toBool d

/-- filter a node list given in proximity order: node `i` (0-based) has position `i+1`, size = length -/
def filterPred (l : List Nat) (p : Nat → Nat → Nat → Except String Bool) : Except String (List Nat) :=
  (l.zipIdx.filterMapM fun (m, i) => do
    let keep ← p m (i + 1) l.length
    pure (if keep then some m else none))

/-! ## the specification evaluator -/

def mapArgs {ε α β} (f : α → Except ε β) : List α → Except ε (List β)
  | [] => .ok []
  | a :: as => do let b ← f a; let bs ← mapArgs f as; pure (b :: bs)

def evalS (d : Doc) (vars : Vars) : Nat → X → Ctx → Except String XV
  | 0, _, _ => .error "fuel"
  | f+1, e, c =>
    let ev := evalS d vars f
    /- apply the predicates in turn to a list in proximity order -/
    let applyPreds (l : List Nat) (ps : List X) : Except String (List Nat) :=
      ps.foldlM (fun l p => filterPred l fun m pos size => do
        let v ← ev p { node := m, pos := pos, size := size }
        pure (predTruth d v pos)) l
    /- one location step from one node: the set it selects -/
    let stepFrom (s : X) (n : Nat) : Except String (List Nat) :=
      match s with
      | .step a t ps => applyPreds ((d.axis a n).filter (testNode d a t)) ps
      | _ => .error "step"
    /- a sequence of steps from a set of nodes; result in document order -/
    let rec steps (fuel : Nat) (cur : List Nat) (ss : List X) : Except String (List Nat) :=
      match fuel, ss with
      | _, [] => .ok cur
      | 0, _ => .error "fuel"
      | fuel+1, s :: rest => do
        let sels ← mapArgs (stepFrom s) cur
        steps fuel (d.ids.filter fun m => sels.any (·.contains m)) rest
    match e with
    | .num v _ => .ok (.num v)
    | .lit s => .ok (.str s)
    | .var n => match vars.lookup n with
      | some (_, v) => .ok v
      | none => .error "variable"
    | .neg a => do let v ← ev a c; pure (.num (-(v.toNum d)))
    | .bin op l r => do
      let a ← ev l c
      let b ← ev r c
      match cmpOfBin op with
      | some o => pure (.bool (specCompare floatOps o (a.toVal d) (b.toVal d)))
      | none => pure (.num (arith op (a.toNum d) (b.toNum d)))
    | .and l r => do
      let a ← ev l c
      if a.toBool d then do let b ← ev r c; pure (.bool (b.toBool d)) else pure (.bool false)
    | .or l r => do
      let a ← ev l c
      if a.toBool d then pure (.bool true) else do let b ← ev r c; pure (.bool (b.toBool d))
    | .union l r => do
      let a ← ev l c
      let b ← ev r c
      match a, b with
      | .nodes x, .nodes y => pure (.nodes (unionIds d x y))
      | _, _ => .error "type"
    | .step .. => do let l ← steps 1 [c.node] [e]; pure (.nodes l)
    | .path abs ss => do
      let l ← steps (ss.length + 1) [if abs then 0 else c.node] ss
      pure (.nodes l)
    | .filter prim ps ss => do
      let v ← ev prim c
      match v with
      | .nodes l =>
        let l0 := unionIds d l []
        let l1 ← applyPreds l0 ps          -- a filter expression's predicates use document order (§3.3)
        let l2 ← steps (ss.length + 1) l1 ss
        pure (.nodes l2)
      | _ => .error "type"
    | .call fn args => do
      let vs ← mapArgs (fun a => ev a c) args
      callFn d c (Float.ofNat c.pos) (Float.ofNat c.size) fn vs

/-! ## the model of XPath.cpp -/

/-- `m_cachedPosition`: (node, 1-based index) of the last `position()` lookup -/
abbrev Cache := Option (Nat × Nat)
abbrev M := StateT Cache (Except String)

def mapArgsM {α β} (f : α → M β) : List α → M (List β)
  | [] => pure []
  | a :: as => do let b ← f a; let bs ← mapArgsM f as; pure (b :: bs)

/-- `getContextNodeListPosition` -/
def positionM (c : Ctx) : M Nat := do
  match (← get) with
  | some (n, i) => if n == c.node then return i else pure ()
  | none => pure ()
  let idx := match c.list.idxOf? (some c.node) with
    | some i => i + 1
    | none => 0
  set (some (c.node, idx) : Cache)
  return idx

/-- the numeric-literal shortcut of `XPath::predicates` -/
def literalShortcut (l : List Nat) (idx : Float) : List Nat :=
  let k := idx.toUInt64.toNat          -- `size_type(theIndex)`
  if idx ≤ 0.0 || k > l.length || Float.ofNat k != idx then []
  else if l.length > 1 then (l[k - 1]?).toList
  else l

def evalM (d : Doc) (vars : Vars) : Nat → X → Ctx → M XV
  | 0, _, _ => throw "fuel"
  | f+1, e, c =>
    let ev := evalM d vars f
    /- the general predicate loop: evaluate for item i with the list as context node list, null the
       entries that fail, then clearNulls() -/
    let rec predLoop (fuel : Nat) (p : X) (i : Nat) (lst : List (Option Nat)) : M (List (Option Nat)) :=
      match fuel with
      | 0 => pure lst
      | fuel+1 =>
        if i ≥ lst.length then pure lst else
        match lst[i]? with
        | some (some m) => do
          let v ← ev p { node := m, pos := i + 1, size := lst.length, list := lst }
          let remove := (match v with | .num x => Float.ofNat (i + 1) != x | _ => false) || !(v.toBool d)
          predLoop fuel p (i + 1) (if remove then lst.set i none else lst)
        | _ => predLoop fuel p (i + 1) lst
    /- `predicates()` -/
    let rec predicates (l : List Nat) (ps : List X) : M (List Nat) :=
      match ps with
      | [] => pure l
      | p :: rest => do
        let l' ← if l.isEmpty then pure l else
          match p with
          | .num idx true => pure (literalShortcut l idx)
          | _ => do
            let lst ← predLoop (l.length + 1) p 0 (l.map some)
            pure (lst.filterMap id)
        if XalanModel.Generated.C02.predicatesResetPositionCache then set (none : Cache)
        predicates l' rest
    /- `step()` from one context node, `sub` = what the find* function / findNodeSet delivered -/
    let rec stepGo (fuel : Nat) (sub0 : List Nat) (rev : Bool) (ps : List X) (rest : List X) : M (List Nat) :=
      match fuel with
      | 0 => throw "fuel"
      | fuel+1 => do
        set (none : Cache)                                   -- ContextNodeListPushAndPop: push
        let sub ← predicates sub0 ps
        let out ← match rest with
          | [] => pure (if rev then sub.reverse else sub)
          | (.step a t ps') :: rest' =>
            sub.foldlM (fun acc n => do
              let mnl ← stepGo fuel ((d.find a n).filter (testNode d a t)) (Doc.Axis.isReverse a) ps' rest'
              pure (if mnl.isEmpty then acc else if acc.isEmpty then mnl else unionIds d acc mnl)) []
          | _ => throw "step"
        set (none : Cache)                                   -- pop
        pure out
    let locationPath (start : Nat) (ss : List X) : M (List Nat) :=
      match ss with
      | [] => pure [start]
      | (.step a t ps) :: rest =>
        stepGo (ss.length + 1) ((d.find a start).filter (testNode d a t)) (Doc.Axis.isReverse a) ps rest
      | _ => throw "step"
    match e with
    | .num v _ => pure (.num v)
    | .lit s => pure (.str s)
    | .var n => match vars.lookup n with
      | some (_, v) => pure v
      | none => throw "variable"
    | .neg a => do let v ← ev a c; pure (.num (-(v.toNum d)))
    | .bin op l r => do
      let a ← ev l c
      let b ← ev r c
      match cmpOfBin op with
      | some o =>
        let addr (x : X) (dflt : Nat) : Nat := match x with
          | .var n => ((vars.lookup n).map (·.1)).getD dflt
          | _ => dflt
        pure (.bool (xobjCompare floatOps o ⟨addr l 1, a.toVal d⟩ ⟨addr r 2, b.toVal d⟩))
      | none => pure (.num (arithM op (a.toNum d) (b.toNum d)))
    | .and l r => do
      let a ← ev l c
      if a.toBool d then do let b ← ev r c; pure (.bool (b.toBool d)) else pure (.bool false)
    | .or l r => do
      let a ← ev l c
      if a.toBool d then pure (.bool true) else do let b ← ev r c; pure (.bool (b.toBool d))
    | .union l r => do
      let a ← ev l c
      let b ← ev r c
      match a, b with
      | .nodes x, .nodes y => pure (.nodes (unionIds d x y))
      | _, _ => throw "type"
    | .step .. => do let l ← locationPath c.node [e]; pure (.nodes l)
    | .path abs ss => do
      let l ← locationPath (if abs then 0 else c.node) ss
      pure (.nodes l)
    | .filter prim ps ss => do
      let v ← ev prim c
      match v with
      | .nodes l => do
        -- findNodeSet: addNodesInDocOrder, then the same step() machinery
        let r ← stepGo (ss.length + 2) (unionIds d l []) false ps ss
        pure (.nodes r)
      | _ => throw "type"
    | .call fn args => do
      let vs ← mapArgsM (fun a => ev a c) args
      let pos ← if fn == "position" then positionM c else pure 0
      match callFn d c (Float.ofNat pos) (Float.ofNat c.list.length) fn vs with
      | .ok v => pure v
      | .error e => throw e

end XalanModel.C02
