import XalanModel.C02.CompileProofs
/-!
# C02 layer 1 — the compiler theorem for whole expression trees

`compile_encodes_all`: for every well-formed tree of the operator fragment (`E.WF`): `compile e.toks = some (mk e.enc)`.
Structure: `primary_*` (atoms, name tests, groups), `unionExpr_of_primary`, `unaryExpr_neg`, the recognisers on well-formed
input (`recog*_op`, `recog*_none`), `levelSpec_of` (the `LevelSpec` of every binary layer from the correctness of the layer
below), `spine` (left-spine decomposition), `passStep`/`passDown` (a lower layer passes a higher-level operand through),
`bool_node`/`bool_pass` (`AndExpr`/`OrExpr`), `compile_all` (induction on the size of the tree; the fuel of `exprF` bounds the
nesting of groups).  All statements hold for either value of the source-derived flags.
-/
set_option linter.unusedSimpArgs false
namespace XalanModel.C02
open XalanModel.Generated.C02

/-- precedence level at which a token acts as (the start of) a binary operator; `(` after an operand would start a
function call; everything else (`)`, end) may follow an operand at any level -/
def tokLevel : Tok → Option Nat
  | .name .or _ => some 0
  | .name .and _ => some 1
  | .eq | .bang | .neq => some 2
  | .lt | .gt | .leq | .geq => some 3
  | .plus | .minus => some 4
  | .star | .name .div _ | .name .mod _ => some 5
  | .bar => some 7
  | .lpar => some 8
  | _ => none

/-- the continuation `ts` does not start with an operator of level ≥ `p` -/
def Follow (p : Nat) (ts : List Tok) : Prop := ∀ t, ts.head? = some t → ∀ l, tokLevel t = some l → l < p

theorem follow_mono {p q : Nat} (h : p ≤ q) {ts : List Tok} (hf : Follow p ts) : Follow q ts :=
  fun t ht l hl => Nat.lt_of_lt_of_le (hf t ht l hl) h

theorem updateAfterNodeTest_mk (pre Y : List Int) (c v w : Int) (h : getOpCodeLength c ≠ 0) :
    updateOpCodeLengthAfterNodeTest (mk (pre ++ c :: v :: w :: Y)) (pre.length + 2)
      = some (mk (pre ++ c :: v :: ((Y.length : Int) + 3) :: Y)) := by
  have e : (mk (pre ++ c :: v :: w :: Y))[pre.length + 2]? = some c := by
    have := getElem?_mk_pre pre (c :: v :: w :: Y) 0
    simpa using this
  simp only [updateOpCodeLengthAfterNodeTest, e, h, if_false]
  simp [mk, mapLength, List.set_append]
  omega

theorem tok_beq_lpar (t : Tok) (h : t ≠ Tok.lpar) : (t == Tok.lpar) = false := by
  cases t <;> first | rfl | (exact absurd rfl h)

theorem tok_beq_rpar (t : Tok) (h : t ≠ Tok.rpar) : (t == Tok.rpar) = false := by
  cases t <;> first | rfl | (exact absurd rfl h)

theorem follow_not_lpar {p : Nat} (hp : p ≤ 8) {ts : List Tok} (hf : Follow p ts) : ts.head? ≠ some Tok.lpar := by
  intro h
  have := hf _ h 8 rfl
  omega

theorem follow_not_bar {p : Nat} (hp : p ≤ 7) {ts : List Tok} (hf : Follow p ts) : ts.head? ≠ some Tok.bar := by
  intro h
  have := hf _ h 7 rfl
  omega

/-- `PrimaryExpr` on a name test / `*`: `LocationPath → Step → Basis → NodeTest` -/
theorem primary_step (expr : St → Option St) (t : Tok) (payload : Int)
    (ht : (∃ k j, t = .name k j ∧ payload = j) ∨ (t = .star ∧ payload = eELEMWILDCARD))
    (b : List Int) (ts : List Tok) (hts : ts.head? ≠ some .lpar) :
    primaryExpr expr ⟨mk b, t :: ts⟩ =
      some ⟨mk (b ++ [eOP_LOCATIONPATH, 9, eFROM_CHILDREN, 6, 6, eNODENAME, eEMPTY, payload, eENDOP]), ts⟩ := by
  have hl1 : ((St.mk (mk b) (t :: ts)).look1 == some Tok.lpar) = false := by
    simp only [St.look1, List.tail_cons]
    exact opt_beq_some _ _ tok_beq_lpar hts
  have hl2 : ∀ m, ((St.mk m (t :: ts)).look1 == some Tok.lpar) = false := by
    intro m
    simp only [St.look1, List.tail_cons]
    exact opt_beq_some _ _ tok_beq_lpar hts
  have hA := appendOpCode_mk2 b eOP_LOCATIONPATH (by decide)
  have hB := appendOpCode_mk3 (b ++ [eOP_LOCATIONPATH, 2]) eFROM_CHILDREN (by decide)
  have hC := appendOpCode_mk1 (b ++ [eOP_LOCATIONPATH, 2] ++ [eFROM_CHILDREN, 3, eENDOP]) eNODENAME (by decide)
  have hD := appendOpCode_mk1 (b ++ [eOP_LOCATIONPATH, 2] ++ [eFROM_CHILDREN, 3, eENDOP] ++ [eNODENAME]) eEMPTY (by decide)
  rcases ht with ⟨k, j, rfl, rfl⟩ | ⟨rfl, rfl⟩
  · have hU := updateAfterNodeTest_mk (b ++ [eOP_LOCATIONPATH, 2]) [eNODENAME, eEMPTY, payload] eFROM_CHILDREN 3 eENDOP (by decide)
    have hV := updateOpCodeLengthAt_mk (b ++ [eOP_LOCATIONPATH, 2]) [6, eNODENAME, eEMPTY, payload] eFROM_CHILDREN 3 (by decide)
    have hE := appendOpCode_mk1 (b ++ [eOP_LOCATIONPATH, 2] ++ [eFROM_CHILDREN, 6, 6, eNODENAME, eEMPTY, payload]) eENDOP (by decide)
    have hW := updateOpCodeLength_mk b [eFROM_CHILDREN, 6, 6, eNODENAME, eEMPTY, payload, eENDOP] eOP_LOCATIONPATH 2 (by decide)
    simp only [List.append_assoc, List.cons_append, List.nil_append, List.length_append, List.length_cons, List.length_nil] at *
    simp only [primaryExpr, St.cur, List.head?_cons, hl1, Bool.false_eq_true, false_and, if_false, locationPath, pos_mk, hA,
      Option.bind_eq_bind, Option.bind_some, List.isEmpty_cons, Bool.false_or, step, hl2, hB, hC, hD, pushArg_mk,
      List.append_assoc, List.cons_append, List.nil_append, List.length_append, List.length_cons, List.length_nil]
    have c1 : ((3 : Nat) : Int) + 3 = 6 := by decide
    have c2 : ((4 : Nat) : Int) + 2 = 6 := by decide
    have c3 : ((7 : Nat) : Int) + 2 = 9 := by decide
    simp only [Nat.reduceAdd, c1, c2, c3] at hU hV hW ⊢
    have hrp : (some (Tok.name k payload) == some Tok.rpar) = false := rfl
    simp only [hrp, Bool.and_false, Bool.false_eq_true, if_false, hU, Option.bind_some, hV, List.tail_cons, hE, hW]
  · have hU := updateAfterNodeTest_mk (b ++ [eOP_LOCATIONPATH, 2]) [eNODENAME, eEMPTY, eELEMWILDCARD] eFROM_CHILDREN 3 eENDOP (by decide)
    have hV := updateOpCodeLengthAt_mk (b ++ [eOP_LOCATIONPATH, 2]) [6, eNODENAME, eEMPTY, eELEMWILDCARD] eFROM_CHILDREN 3 (by decide)
    have hE := appendOpCode_mk1 (b ++ [eOP_LOCATIONPATH, 2] ++ [eFROM_CHILDREN, 6, 6, eNODENAME, eEMPTY, eELEMWILDCARD]) eENDOP (by decide)
    have hW := updateOpCodeLength_mk b [eFROM_CHILDREN, 6, 6, eNODENAME, eEMPTY, eELEMWILDCARD, eENDOP] eOP_LOCATIONPATH 2 (by decide)
    have hD2 := appendOpCode_mk1 (b ++ [eOP_LOCATIONPATH, 2] ++ [eFROM_CHILDREN, 3, eENDOP] ++ [eNODENAME] ++ [eEMPTY]) eELEMWILDCARD (by decide)
    simp only [List.append_assoc, List.cons_append, List.nil_append, List.length_append, List.length_cons, List.length_nil] at *
    have c1 : ((3 : Nat) : Int) + 3 = 6 := by decide
    have c2 : ((4 : Nat) : Int) + 2 = 6 := by decide
    have c3 : ((7 : Nat) : Int) + 2 = 9 := by decide
    simp only [Nat.reduceAdd, c1, c2, c3] at hU hV hW ⊢
    have hrp : (some Tok.star == some Tok.rpar) = false := rfl
    simp only [primaryExpr, St.cur, List.head?_cons, hl1, Bool.false_eq_true, false_and, if_false, locationPath, pos_mk, hA,
      Option.bind_eq_bind, Option.bind_some, List.isEmpty_cons, Bool.false_or, step, hl2, hB, hC, hD, hD2,
      List.append_assoc, List.cons_append, List.nil_append, List.length_append, List.length_cons, List.length_nil,
      hrp, Bool.and_false, hU, hV, List.tail_cons, hE, hW]

theorem enc_hdr_all (e : E) : ∃ c Z, e.enc = c :: (e.enc.length : Int) :: Z ∧ getOpCodeLength c > 1 := by
  cases e with
  | num i j => exact ⟨eOP_NUMBERLIT, _, rfl, by decide⟩
  | lit j => exact ⟨eOP_LITERAL, _, rfl, by decide⟩
  | var i j => exact ⟨eOP_VARIABLE, _, rfl, by decide⟩
  | nameStep k j => exact ⟨eOP_LOCATIONPATH, _, rfl, by decide⟩
  | anyStep => exact ⟨eOP_LOCATIONPATH, _, rfl, by decide⟩
  | group e => exact ⟨eOP_GROUP, e.enc, by simp [E.enc]; omega, by decide⟩
  | neg e => exact ⟨eOP_NEG, e.enc, by simp [E.enc]; omega, by decide⟩
  | bin op j l r => exact ⟨op.code, l.enc ++ r.enc, by simp [E.enc]; omega, by cases op <;> decide⟩
  | and j l r => exact ⟨eOP_AND, l.enc ++ r.enc, by simp [E.enc]; omega, by decide⟩
  | or j l r => exact ⟨eOP_OR, l.enc ++ r.enc, by simp [E.enc]; omega, by decide⟩

/-- the first token of an operand -/
def OperandHead : Tok → Prop
  | .num .. | .lit .. | .var .. | .name .. | .star | .lpar | .minus => True
  | _ => False

theorem toks_head (e : E) : ∃ t rest, e.toks = t :: rest ∧ OperandHead t ∧ (7 ≤ e.prec → t ≠ Tok.minus) := by
  induction e with
  | num i j => exact ⟨_, _, rfl, trivial, fun _ => by simp⟩
  | lit j => exact ⟨_, _, rfl, trivial, fun _ => by simp⟩
  | var i j => exact ⟨_, _, rfl, trivial, fun _ => by simp⟩
  | nameStep k j => exact ⟨_, _, rfl, trivial, fun _ => by simp⟩
  | anyStep => exact ⟨_, _, rfl, trivial, fun _ => by simp⟩
  | group e _ => exact ⟨_, _, rfl, trivial, fun _ => by simp⟩
  | neg e _ => exact ⟨_, _, rfl, trivial, fun h => by simp [E.prec] at h⟩
  | bin op j l r ihl _ =>
    obtain ⟨t, rest, h1, h2, _⟩ := ihl
    refine ⟨t, rest ++ (op.toks j ++ r.toks), by simp [E.toks, h1], h2, fun h => ?_⟩
    simp only [E.prec] at h
    cases op <;> simp [BinOp.lvl] at h
  | and j l r ihl _ =>
    obtain ⟨t, rest, h1, h2, _⟩ := ihl
    exact ⟨t, rest ++ ([.name .and j] ++ r.toks), by simp [E.toks, h1], h2, fun h => by simp [E.prec] at h⟩
  | or j l r ihl _ =>
    obtain ⟨t, rest, h1, h2, _⟩ := ihl
    exact ⟨t, rest ++ ([.name .or j] ++ r.toks), by simp [E.toks, h1], h2, fun h => by simp [E.prec] at h⟩

theorem unionExpr_of_primary (expr : St → Option St) (e : E) (b : List Int) (ts : List Tok)
    (hprim : primaryExpr expr ⟨mk b, e.toks ++ ts⟩ = some ⟨mk (b ++ e.enc), ts⟩) (hts : ts.head? ≠ some .bar) :
    unionExpr expr ⟨mk b, e.toks ++ ts⟩ = some ⟨mk (b ++ e.enc), ts⟩ := by
  obtain ⟨c, Z, hA, hc⟩ := enc_hdr_all e
  have hcur : ((St.mk (mk (b ++ e.enc)) ts).cur == some Tok.bar) = false :=
    opt_beq_some _ _ tok_beq_bar hts
  simp only [unionExpr, pos_mk]
  have hloop : unionLoop expr (b.length + 2) ((e.toks ++ ts).length + 1) false ⟨mk b, e.toks ++ ts⟩
      = some ⟨mk (b ++ e.enc), ts⟩ := by
    simp only [unionLoop, pathExpr, hprim, Option.bind_eq_bind, Option.bind_some, hcur, Bool.false_eq_true, if_false]
  rw [hloop]
  simp only [Option.bind_eq_bind, Option.bind_some]
  have : mk (b ++ e.enc) = mk (b ++ c :: (e.enc.length : Int) :: Z) := by rw [← hA]
  rw [this, updateOpCodeLengthAt_mk b Z c _ (by omega)]
  have e' : ((Z.length : Int) + 2) = (e.enc.length : Int) := by
    have := congrArg List.length hA
    simp at this
    omega
  rw [e', ← hA]
  rfl

theorem unaryF_nonminus (expr : St → Option St) (f : Nat) (m : OpMap) (t : Tok) (rest : List Tok) (ht : t ≠ Tok.minus) :
    unaryF expr (f + 1) ⟨m, t :: rest⟩ = unionExpr expr ⟨m, t :: rest⟩ := by
  have hcur : ((St.mk m (t :: rest)).cur == some Tok.minus) = false := by
    simp only [St.cur, List.head?_cons]
    exact opt_beq_some _ _ tok_beq_minus (by simp [ht])
  simp only [unaryF, hcur, Bool.false_eq_true, if_false]

/-- `UnaryExpr` on `- e` where `e` is a union-level operand -/
theorem unaryExpr_neg (expr : St → Option St) (e : E) (he : 7 ≤ e.prec) (b : List Int) (ts : List Tok)
    (hU : ∀ b', unionExpr expr ⟨mk b', e.toks ++ ts⟩ = some ⟨mk (b' ++ e.enc), ts⟩) :
    unaryExpr expr ⟨mk b, (E.neg e).toks ++ ts⟩ = some ⟨mk (b ++ (E.neg e).enc), ts⟩ := by
  obtain ⟨t, rest, ht, _, hm⟩ := toks_head e
  have hins := insertOpCode_mk b [] eOP_NEG (by decide)
  have hupd := updateOpCodeLength_mk b e.enc eOP_NEG (-1) (by decide)
  have hinner : unionExpr expr ⟨mk (b ++ [eOP_NEG, -1]), e.toks ++ ts⟩ = some ⟨mk (b ++ [eOP_NEG, -1] ++ e.enc), ts⟩ := hU _
  simp only [List.append_nil, List.append_assoc, List.cons_append, List.nil_append] at hins hinner
  have hcur : ((St.mk (mk b) (Tok.minus :: (e.toks ++ ts))).cur == some Tok.minus) = true := rfl
  simp only [unaryExpr, E.toks, List.cons_append, List.length_cons, unaryF, hcur, if_true, pos_mk, St.adv, St.next,
    List.tail_cons, hins, Option.bind_eq_bind, Option.bind_some]
  have hcur2 : ((St.mk (mk (b ++ [eOP_NEG, -1])) (e.toks ++ ts)).cur == some Tok.minus) = false := by
    rw [ht]
    simp only [List.cons_append, St.cur, List.head?_cons]
    exact opt_beq_some _ _ tok_beq_minus (by simp [hm he])
  simp only [hcur2, Bool.false_eq_true, if_false, hinner, ite_self, Option.bind_some, hupd]
  simp [E.enc]

theorem primary_group (expr : St → Option St) (e : E) (b : List Int) (ts : List Tok)
    (hE : ∀ b', expr ⟨mk b', e.toks ++ Tok.rpar :: ts⟩ = some ⟨mk (b' ++ e.enc), Tok.rpar :: ts⟩) :
    primaryExpr expr ⟨mk b, (E.group e).toks ++ ts⟩ = some ⟨mk (b ++ (E.group e).enc), ts⟩ := by
  have hA := appendOpCode_mk2 b eOP_GROUP (by decide)
  have hin := hE (b ++ [eOP_GROUP, 2])
  have hupd := updateOpCodeLength_mk b e.enc eOP_GROUP 2 (by decide)
  simp only [List.append_assoc, List.cons_append, List.nil_append] at hin
  simp only [E.toks, List.cons_append, List.append_assoc, List.nil_append, primaryExpr, St.cur, List.head?_cons, pos_mk, hA,
    Option.bind_eq_bind, Option.bind_some, List.tail_cons, hin, hupd]
  simp [E.enc]

/-! ### the operator recognisers on well-formed input -/

def IsLvl (p : Nat) (op : BinOp) : Prop := op.lvl = p

theorem recogMul_op' (op : BinOp) (j : Int) (m : OpMap) (t : Tok) (rest : List Tok) (hop : op.lvl = 5) :
    recogMul ⟨m, op.toks j ++ (t :: rest)⟩ = some ⟨op.code, ⟨m, t :: rest⟩, true⟩ := by
  cases op <;> simp [BinOp.lvl] at hop <;>
    simp [recogMul, BinOp.toks, BinOp.code, St.cur, St.adv, St.next]

theorem recogAdd_op (op : BinOp) (j : Int) (m : OpMap) (t : Tok) (rest : List Tok) (hop : op.lvl = 4) :
    recogAdd ⟨m, op.toks j ++ (t :: rest)⟩ = some ⟨op.code, ⟨m, t :: rest⟩, true⟩ := by
  cases op <;> simp [BinOp.lvl] at hop <;>
    simp [recogAdd, BinOp.toks, BinOp.code, St.cur, St.adv, St.next]

theorem tok_beq_eq (t : Tok) (h : t ≠ Tok.eq) : (t == Tok.eq) = false := by
  cases t <;> first | rfl | (exact absurd rfl h)

theorem operandHead_ne_eq (t : Tok) (h : OperandHead t) : t ≠ Tok.eq := by
  intro e; subst e; exact h

theorem recogRel_op (op : BinOp) (j : Int) (m : OpMap) (t : Tok) (rest : List Tok) (hop : op.lvl = 3) (ht : OperandHead t) :
    recogRel ⟨m, op.toks j ++ (t :: rest)⟩ = some ⟨op.code, ⟨m, t :: rest⟩, true⟩ := by
  have hne : (some t == some Tok.eq) = false := tok_beq_eq t (operandHead_ne_eq t ht)
  by_cases hf : compoundOperatorTokens = true
  · cases op <;> simp [BinOp.lvl] at hop <;>
      simp [recogRel, hf, BinOp.toks, BinOp.code, St.cur, St.adv, St.next]
  · have hf' : compoundOperatorTokens = false := by simpa using hf
    cases op <;> simp [BinOp.lvl] at hop <;>
      simp [recogRel, hf', BinOp.toks, BinOp.code, St.cur, St.adv, St.next, hne] <;> rfl

theorem recogEq_op (op : BinOp) (j : Int) (m : OpMap) (t : Tok) (rest : List Tok) (hop : op.lvl = 2) :
    recogEq ⟨m, op.toks j ++ (t :: rest)⟩ = some ⟨op.code, ⟨m, t :: rest⟩, true⟩ := by
  by_cases hf : compoundOperatorTokens = true
  · cases op <;> simp [BinOp.lvl] at hop <;>
      simp [recogEq, hf, BinOp.toks, BinOp.code, St.cur, St.adv, St.next]
  · have hf' : compoundOperatorTokens = false := by simpa using hf
    cases op <;> simp [BinOp.lvl] at hop <;>
      simp [recogEq, hf', BinOp.toks, BinOp.code, St.cur, St.adv, St.next, St.look1] <;> rfl

theorem recogMul_none (m : OpMap) (ts : List Tok) (h : Follow 5 ts) : recogMul ⟨m, ts⟩ = none := by
  cases ts with
  | nil => rfl
  | cons t rest =>
    have h' := h t rfl
    cases t with
    | name k j => cases k <;> first | rfl | (exact absurd (h' _ rfl) (by omega))
    | _ => first | rfl | (exact absurd (h' _ rfl) (by omega))

theorem recogAdd_none (m : OpMap) (ts : List Tok) (h : Follow 4 ts) : recogAdd ⟨m, ts⟩ = none := by
  cases ts with
  | nil => rfl
  | cons t rest =>
    have h' := h t rfl
    cases t <;> first | rfl | (exact absurd (h' _ rfl) (by omega))

theorem recogRel_none (m : OpMap) (ts : List Tok) (h : Follow 3 ts) : recogRel ⟨m, ts⟩ = none := by
  cases ts with
  | nil => unfold recogRel; split <;> rfl
  | cons t rest =>
    have h' := h t rfl
    cases t <;> first | (exact absurd (h' _ rfl) (by omega)) | (unfold recogRel; split <;> rfl)

theorem recogEq_none (m : OpMap) (ts : List Tok) (h : Follow 2 ts) : recogEq ⟨m, ts⟩ = none := by
  cases ts with
  | nil => unfold recogEq; split <;> rfl
  | cons t rest =>
    have h' := h t rfl
    cases t <;> first | (exact absurd (h' _ rfl) (by omega)) | (unfold recogEq; split <;> rfl)

theorem chain_len_le (r : Chain) : r.length ≤ (chainToks r).length := by
  induction r with
  | nil => simp [chainToks]
  | cons x r ih =>
    obtain ⟨op, j, y⟩ := x
    have : 1 ≤ (op.toks j).length := by
      cases op <;> simp only [BinOp.toks] <;> first | simp | (split <;> simp)
    simp only [chainToks, List.length_cons, List.length_append]
    omega

theorem runLevel_chain {recog lower Opnd IsOp FollowT FollowL}
    (hs : LevelSpec recog lower Opnd IsOp FollowT FollowL)
    (rest : Chain) (hall : ∀ x ∈ rest, IsOp x.1 ∧ Opnd x.2.2) (a : E) (ha : Opnd a)
    (b : List Int) (ts : List Tok) (hts : FollowT ts) :
    runLevel recog lower ⟨mk b, a.toks ++ (chainToks rest ++ ts)⟩ = some ⟨mk (b ++ (foldChain a rest).enc), ts⟩ := by
  have hlen : rest.length < (a.toks ++ (chainToks rest ++ ts)).length + 1 := by
    have := chain_len_le rest
    simp only [List.length_append]
    omega
  have := binLevel_top hs rest hall a ha _ hlen b ts hts
  simp only [runLevel]
  rw [this]
  rfl

theorem toks_foldChain (a : E) (rest : Chain) : (foldChain a rest).toks = a.toks ++ chainToks rest := by
  induction rest generalizing a with
  | nil => simp [foldChain, chainToks]
  | cons x rest ih =>
    obtain ⟨op, j, y⟩ := x
    have := ih (E.bin op j a y)
    simp only [foldChain, List.foldl_cons] at this ⊢
    rw [this]
    simp [E.toks, chainToks]

theorem size_foldChain_ge (a : E) (rest : Chain) : a.size ≤ (foldChain a rest).size ∧ ∀ x ∈ rest, x.2.2.size < (foldChain a rest).size := by
  induction rest generalizing a with
  | nil => simp [foldChain]
  | cons x rest ih =>
    obtain ⟨op, j, y⟩ := x
    have := ih (E.bin op j a y)
    simp only [foldChain, List.foldl_cons] at this ⊢
    refine ⟨by have := this.1; simp [E.size] at this; omega, ?_⟩
    intro z hz
    rcases List.mem_cons.mp hz with h | h
    · subst h; have := this.1; simp [E.size] at this ⊢; omega
    · exact this.2 z h

/-- left-spine decomposition of a well-formed tree at its own binary level -/
theorem spine (p : Nat) : ∀ (e : E), e.WF → e.prec = p → 2 ≤ p → p ≤ 5 →
    ∃ a rest, e = foldChain a rest ∧ rest ≠ [] ∧ a.WF ∧ p < a.prec ∧
      ∀ x ∈ rest, x.1.lvl = p ∧ x.2.2.WF ∧ p < x.2.2.prec := by
  intro e
  induction e with
  | bin op j l r ihl _ =>
    intro hw hp h2 h5
    simp only [E.WF] at hw
    simp only [E.prec] at hp
    obtain ⟨wl, wr, h3, h4⟩ := hw
    by_cases hl : l.prec = p
    · obtain ⟨a, rest, e1, _, wa, pa, hall⟩ := ihl wl hl h2 h5
      refine ⟨a, rest ++ [(op, j, r)], ?_, by simp, wa, pa, ?_⟩
      · rw [e1]; simp [foldChain, List.foldl_append]
      · intro x hx
        rcases List.mem_append.mp hx with h | h
        · exact hall x h
        · simp only [List.mem_singleton] at h; subst h; exact ⟨hp, wr, by show p < r.prec; omega⟩
    · refine ⟨l, [(op, j, r)], by simp [foldChain], by simp, wl, by omega, ?_⟩
      intro x hx
      simp only [List.mem_singleton] at hx; subst hx; exact ⟨hp, wr, by show p < r.prec; omega⟩
  | num i j => intro _ hp _ h5; simp [E.prec] at hp; omega
  | lit j => intro _ hp _ h5; simp [E.prec] at hp; omega
  | var i j => intro _ hp _ h5; simp [E.prec] at hp; omega
  | nameStep k j => intro _ hp _ h5; simp [E.prec] at hp; omega
  | anyStep => intro _ hp _ h5; simp [E.prec] at hp; omega
  | group e _ => intro _ hp _ h5; simp [E.prec] at hp; omega
  | neg e _ => intro _ hp _ h5; simp [E.prec] at hp; omega
  | and j l r _ _ => intro _ hp h2 _; simp [E.prec] at hp; omega
  | or j l r _ _ => intro _ hp h2 _; simp [E.prec] at hp; omega

def recogOf : Nat → St → Option OpHit
  | 2 => recogEq
  | 3 => recogRel
  | 4 => recogAdd
  | _ => recogMul

/-- the function of `XPathProcessorImpl` that compiles an expression of level ≥ `p` -/
def lev (expr : St → Option St) : Nat → St → Option St
  | 0 => orExpr expr
  | 1 => andExpr expr
  | 2 => eqExpr expr
  | 3 => relExpr expr
  | 4 => addExpr expr
  | 5 => mulExpr expr
  | 6 => unaryExpr expr
  | _ => unionExpr expr

theorem lev_eq (expr : St → Option St) (p : Nat) (h2 : 2 ≤ p) (h5 : p ≤ 5) :
    lev expr p = runLevel (recogOf p) (lev expr (p + 1)) := by
  have : p = 2 ∨ p = 3 ∨ p = 4 ∨ p = 5 := by omega
  rcases this with h | h | h | h <;> subst h <;> rfl

theorem op_head_level (op : BinOp) (j : Int) : ∃ t r, op.toks j = t :: r ∧ tokLevel t = some op.lvl := by
  cases op <;> simp only [BinOp.toks, BinOp.lvl] <;>
    first
      | exact ⟨_, _, rfl, rfl⟩
      | (split <;> exact ⟨_, _, rfl, rfl⟩)

theorem follow_op (p : Nat) (op : BinOp) (j : Int) (hop : op.lvl = p) (rest : List Tok) : Follow (p + 1) (op.toks j ++ rest) := by
  obtain ⟨t, r, h1, h2⟩ := op_head_level op j
  intro t' ht' l hl
  rw [h1] at ht'
  simp only [List.cons_append, List.head?_cons, Option.some.injEq] at ht'
  subst ht'
  rw [h2] at hl
  simp only [Option.some.injEq] at hl
  omega

theorem recogOf_op (p : Nat) (h2 : 2 ≤ p) (h5 : p ≤ 5) (op : BinOp) (j : Int) (m : OpMap) (t : Tok) (rest : List Tok)
    (hop : op.lvl = p) (ht : OperandHead t) :
    recogOf p ⟨m, op.toks j ++ (t :: rest)⟩ = some ⟨op.code, ⟨m, t :: rest⟩, true⟩ := by
  have : p = 2 ∨ p = 3 ∨ p = 4 ∨ p = 5 := by omega
  rcases this with h | h | h | h <;> subst h
  · exact recogEq_op op j m t rest hop
  · exact recogRel_op op j m t rest hop ht
  · exact recogAdd_op op j m t rest hop
  · exact recogMul_op' op j m t rest hop

theorem recogOf_none (p : Nat) (h2 : 2 ≤ p) (h5 : p ≤ 5) (m : OpMap) (ts : List Tok) (h : Follow p ts) :
    recogOf p ⟨m, ts⟩ = none := by
  have : p = 2 ∨ p = 3 ∨ p = 4 ∨ p = 5 := by omega
  rcases this with h' | h' | h' | h' <;> subst h'
  · exact recogEq_none m ts h
  · exact recogRel_none m ts h
  · exact recogAdd_none m ts h
  · exact recogMul_none m ts h

/-- the `LevelSpec` of binary layer `p`, given that the next layer down compiles the operands in `Opnd` -/
theorem levelSpec_of (expr : St → Option St) (p : Nat) (h2 : 2 ≤ p) (h5 : p ≤ 5) (Opnd : E → Prop)
    (hlow : ∀ a, Opnd a → ∀ b ts, Follow (p + 1) ts → lev expr (p + 1) ⟨mk b, a.toks ++ ts⟩ = some ⟨mk (b ++ a.enc), ts⟩) :
    LevelSpec (recogOf p) (lev expr (p + 1)) Opnd (fun op => op.lvl = p) (Follow p) (Follow (p + 1)) where
  lower_ok a ha b ts hts := hlow a ha b ts hts
  recog_op op j a m ts hop _ := by
    obtain ⟨t, rest, ht, hh, _⟩ := toks_head a
    rw [ht, List.cons_append]
    exact recogOf_op p h2 h5 op j m t _ hop hh
  recog_no m ts h := recogOf_none p h2 h5 m ts h
  code_len op _ := by cases op <;> decide
  enc_hdr a _ := enc_hdr_all a
  followL_T ts h := follow_mono (Nat.le_succ p) h
  followL_op op j a ts hop _ := follow_op p op j hop _

/-- layer `p` compiles `e` (followed by anything that does not continue an expression of level `p`) to its encoding -/
def Stmt (expr : St → Option St) (e : E) (p : Nat) : Prop :=
  ∀ b ts, Follow p ts → lev expr p ⟨mk b, e.toks ++ ts⟩ = some ⟨mk (b ++ e.enc), ts⟩

theorem prec_le_7 (e : E) : e.prec ≤ 7 := by
  cases e <;> simp [E.prec]
  rename_i op _ _ _; cases op <;> simp [BinOp.lvl]

/-- a layer below the level of `e` passes `e` through unchanged -/
theorem passStep (expr : St → Option St) (e : E) (p : Nat) (h2 : 2 ≤ p) (hp : p < e.prec) (hnext : Stmt expr e (p + 1)) :
    Stmt expr e p := by
  intro b ts hts
  have h7 := prec_le_7 e
  by_cases h5 : p ≤ 5
  · have hs := levelSpec_of expr p h2 h5 (fun a => a = e) (fun a ha b ts hf => by subst ha; exact hnext b ts hf)
    have := runLevel_chain hs [] (by simp) e rfl b ts hts
    simp only [chainToks, List.nil_append, foldChain, List.foldl_nil] at this
    rw [lev_eq expr p h2 h5]
    exact this
  · have hp6 : p = 6 := by omega
    subst hp6
    obtain ⟨t, rest, ht, _, hm⟩ := toks_head e
    show unaryExpr expr ⟨mk b, e.toks ++ ts⟩ = _
    simp only [unaryExpr]
    rw [ht, List.cons_append, unaryF_nonminus expr _ _ t _ (hm (by omega)), ← List.cons_append, ← ht]
    exact hnext b ts (follow_mono (by omega) hts)

theorem passDown (expr : St → Option St) (e : E) (q : Nat) (hq : q ≤ e.prec) (hdirect : Stmt expr e q) :
    ∀ d p, p + d = q → 2 ≤ p → Stmt expr e p := by
  intro d
  induction d with
  | zero => intro p hp _; have : p = q := by omega
            subst this; exact hdirect
  | succ d ih =>
    intro p hp h2
    exact passStep expr e p h2 (by omega) (ih (p + 1) (by omega) (by omega))

def BoolStmt (k : NameKind) (code : Int) (lower : St → Option St) (e : E) (p : Nat) : Prop :=
  ∀ fl, e.toks.length < fl → ∀ b ts, Follow p ts →
    boolLevel k code lower fl ⟨mk b, e.toks ++ ts⟩ = some ⟨mk (b ++ e.enc), ts⟩

theorem nk_beq_refl (k : NameKind) : (k == k) = true := by cases k <;> rfl

theorem isName_none (k : NameKind) (p : Nat) (hk : ∀ j, tokLevel (.name k j) = some p) (ts : List Tok) (h : Follow p ts) :
    isName k ts.head? = false := by
  cases ts with
  | nil => rfl
  | cons t rest =>
    cases t with
    | name k' j =>
      by_cases e : k' = k
      · subst e
        have := h _ rfl p (hk j)
        omega
      · simp only [List.head?_cons, isName]
        cases k <;> cases k' <;> first | rfl | (exact absurd rfl e)
    | _ => rfl

theorem toks_length_pos (e : E) : 0 < e.toks.length := by
  obtain ⟨t, rest, ht, _, _⟩ := toks_head e
  rw [ht]; simp

/-- pass-through of `AndExpr` / `OrExpr` for an operand of a higher level -/
theorem bool_pass (k : NameKind) (code : Int) (lower : St → Option St) (e : E) (p : Nat)
    (hk : ∀ j, tokLevel (.name k j) = some p)
    (hlow : ∀ b ts, Follow (p + 1) ts → lower ⟨mk b, e.toks ++ ts⟩ = some ⟨mk (b ++ e.enc), ts⟩) :
    BoolStmt k code lower e p := by
  intro fl hfl b ts hts
  obtain ⟨f, rfl⟩ : ∃ f, fl = f + 1 := ⟨fl - 1, by omega⟩
  have hl := hlow b ts (follow_mono (Nat.le_succ p) hts)
  have hn : isName k (St.mk (mk (b ++ e.enc)) ts).cur = false := isName_none k p hk ts hts
  simp only [boolLevel, hl, Option.bind_eq_bind, Option.bind_some, hn, Bool.false_eq_true, if_false]

/-- `l and r` / `l or r`: the operator is inserted at the saved position, the right operand compiled by the recursive call -/
theorem bool_node (k : NameKind) (code : Int) (hcode : getOpCodeLength code = 2) (lower : St → Option St) (l r : E) (j : Int)
    (p : Nat) (hk : tokLevel (.name k j) = some p)
    (hlow : ∀ b ts, Follow (p + 1) ts → lower ⟨mk b, l.toks ++ ts⟩ = some ⟨mk (b ++ l.enc), ts⟩)
    (hr : BoolStmt k code lower r p) (fl : Nat) (hfl : (l.toks ++ [Tok.name k j] ++ r.toks).length < fl)
    (b : List Int) (ts : List Tok) (hts : Follow p ts) :
    boolLevel k code lower fl ⟨mk b, (l.toks ++ [Tok.name k j] ++ r.toks) ++ ts⟩
      = some ⟨mk (b ++ code :: ((l.enc.length : Int) + (r.enc.length : Int) + 2) :: (l.enc ++ r.enc)), ts⟩ := by
  obtain ⟨f, rfl⟩ : ∃ f, fl = f + 1 := ⟨fl - 1, by omega⟩
  have hfol : Follow (p + 1) (Tok.name k j :: (r.toks ++ ts)) := by
    intro t ht lv hl
    simp only [List.head?_cons, Option.some.injEq] at ht
    subst ht
    rw [hk] at hl
    simp only [Option.some.injEq] at hl
    omega
  have hl := hlow b (Tok.name k j :: (r.toks ++ ts)) hfol
  have hn : isName k (St.mk (mk (b ++ l.enc)) (Tok.name k j :: (r.toks ++ ts))).cur = true := by
    simp only [St.cur, List.head?_cons, isName]
    exact nk_beq_refl k
  have hne : ((r.toks ++ ts).isEmpty) = false := by
    have := toks_length_pos r
    cases h : r.toks with
    | nil => rw [h] at this; simp at this
    | cons t rest => rfl
  have hins := insertOpCode_mk b l.enc code hcode
  have hrec := hr f (by simp only [List.length_append, List.length_cons, List.length_nil] at hfl; omega)
    (b ++ code :: (-1) :: l.enc) ts hts
  have hupd := updateOpCodeLength_mk b (l.enc ++ r.enc) code (-1) (by omega)
  simp only [List.append_assoc, List.cons_append, List.nil_append] at hl hrec hupd ⊢
  simp only [boolLevel, hl, Option.bind_eq_bind, Option.bind_some, hn, if_true, St.next, List.tail_cons, hne, Bool.not_false,
    Bool.not_true, Bool.false_eq_true, if_false, pos_mk, hins, hrec, hupd]
  have e : ((l.enc ++ r.enc).length : Int) + 2 = (l.enc.length : Int) + (r.enc.length : Int) + 2 := by simp
  rw [e]

theorem size_pos (e : E) : 0 < e.size := by cases e <;> simp [E.size]

theorem size_lt_foldChain (a : E) (rest : Chain) (h : rest ≠ []) : a.size < (foldChain a rest).size := by
  cases rest with
  | nil => exact absurd rfl h
  | cons x r =>
    obtain ⟨op, j, y⟩ := x
    have := (size_foldChain_ge (E.bin op j a y) r).1
    simp only [foldChain, List.foldl_cons] at this ⊢
    simp only [E.size] at this
    omega

theorem lvl_range (op : BinOp) : 2 ≤ op.lvl ∧ op.lvl ≤ 5 := by cases op <;> simp [BinOp.lvl]

def AllStmt (f : Nat) (e : E) : Prop :=
  (∀ p, 2 ≤ p → p ≤ e.prec → Stmt (exprF f) e p) ∧
  (1 ≤ e.prec → BoolStmt .and eOP_AND (eqExpr (exprF f)) e 1) ∧
  BoolStmt .or eOP_OR (andExpr (exprF f)) e 0

theorem andExpr_of_bool (expr : St → Option St) (e : E) (h : BoolStmt .and eOP_AND (eqExpr expr) e 1) :
    ∀ b ts, Follow 1 ts → andExpr expr ⟨mk b, e.toks ++ ts⟩ = some ⟨mk (b ++ e.enc), ts⟩ := by
  intro b ts hts
  exact h _ (by simp only [List.length_append]; omega) b ts hts

/-- from the layers 2…prec e to `AndExpr` and `OrExpr` (pass-through) -/
theorem assemble (f : Nat) (e : E) (h2 : 2 ≤ e.prec) (hA : ∀ p, 2 ≤ p → p ≤ e.prec → Stmt (exprF f) e p) : AllStmt f e := by
  have hB : BoolStmt .and eOP_AND (eqExpr (exprF f)) e 1 :=
    bool_pass .and eOP_AND (eqExpr (exprF f)) e 1 (fun _ => rfl) (fun b ts hts => hA 2 (Nat.le_refl _) h2 b ts hts)
  refine ⟨hA, fun _ => hB, ?_⟩
  exact bool_pass .or eOP_OR (andExpr (exprF f)) e 0 (fun _ => rfl) (andExpr_of_bool (exprF f) e hB)

theorem direct_to_all (f : Nat) (e : E) (h2 : 2 ≤ e.prec) (hd : Stmt (exprF f) e e.prec) : AllStmt f e :=
  assemble f e h2 (fun p hp2 hpe => passDown (exprF f) e e.prec (Nat.le_refl _) hd (e.prec - p) p (by omega) hp2)

theorem follow_rpar (p : Nat) (ts : List Tok) : Follow p (Tok.rpar :: ts) := by
  intro t ht l hl
  simp only [List.head?_cons, Option.some.injEq] at ht
  subst ht
  simp [tokLevel] at hl

theorem compile_all : ∀ (n : Nat) (e : E), e.size ≤ n → e.WF → ∀ f, e.size ≤ f → AllStmt f e := by
  intro n
  induction n with
  | zero => intro e h; have := size_pos e; omega
  | succ n ih =>
    intro e hsz hw f hf
    cases e with
    | num i j =>
      refine direct_to_all f _ (by simp [E.prec]) ?_
      intro b ts hts
      exact unionExpr_of_primary _ (E.num i j) b ts (primary_atom _ (E.num i j) trivial b ts) (follow_not_bar (p := 7) (by omega) hts)
    | lit j =>
      refine direct_to_all f _ (by simp [E.prec]) ?_
      intro b ts hts
      exact unionExpr_of_primary _ (E.lit j) b ts (primary_atom _ (E.lit j) trivial b ts) (follow_not_bar (p := 7) (by omega) hts)
    | var i j =>
      refine direct_to_all f _ (by simp [E.prec]) ?_
      intro b ts hts
      exact unionExpr_of_primary _ (E.var i j) b ts (primary_atom _ (E.var i j) trivial b ts) (follow_not_bar (p := 7) (by omega) hts)
    | nameStep k j =>
      refine direct_to_all f _ (by simp [E.prec]) ?_
      intro b ts hts
      have hts7 : Follow 7 ts := hts
      exact unionExpr_of_primary _ (E.nameStep k j) b ts
        (primary_step _ (.name k j) j (Or.inl ⟨k, j, rfl, rfl⟩) b ts (follow_not_lpar (by omega) hts7))
        (follow_not_bar (by omega) hts7)
    | anyStep =>
      refine direct_to_all f _ (by simp [E.prec]) ?_
      intro b ts hts
      have hts7 : Follow 7 ts := hts
      exact unionExpr_of_primary _ E.anyStep b ts
        (primary_step _ .star eELEMWILDCARD (Or.inr ⟨rfl, rfl⟩) b ts (follow_not_lpar (by omega) hts7))
        (follow_not_bar (by omega) hts7)
    | group e' =>
      refine direct_to_all f _ (by simp [E.prec]) ?_
      intro b ts hts
      have hts7 : Follow 7 ts := hts
      simp only [E.size] at hsz hf
      obtain ⟨f', rfl⟩ : ∃ f', f = f' + 1 := ⟨f - 1, by omega⟩
      have hin := (ih e' (by omega) hw f' (by omega)).2.2
      refine unionExpr_of_primary _ (E.group e') b ts ?_ (follow_not_bar (by omega) hts7)
      apply primary_group
      intro b'
      show orExpr (exprF f') _ = _
      exact hin _ (by simp only [List.length_append]; omega) b' _ (follow_rpar 0 ts)
    | neg e' =>
      simp only [E.WF] at hw
      simp only [E.size] at hsz hf
      refine direct_to_all f _ (by simp [E.prec]) ?_
      intro b ts hts
      have hts6 : Follow 6 ts := hts
      have hA := (ih e' (by omega) hw.1 f (by omega)).1 7 (by omega) hw.2
      exact unaryExpr_neg _ e' hw.2 b ts (fun b' => hA b' ts (follow_mono (by omega) hts6))
    | bin op j l r =>
      obtain ⟨l2, l5⟩ := lvl_range op
      refine direct_to_all f _ (by simp only [E.prec]; exact l2) ?_
      intro b ts hts
      obtain ⟨a, rest, he, hne, wa, pa, hall⟩ := spine op.lvl (E.bin op j l r) hw rfl l2 l5
      have hts' : Follow op.lvl ts := hts
      have hsa := size_lt_foldChain a rest hne
      have hsr := (size_foldChain_ge a rest).2
      rw [← he] at hsa hsr
      have hs := levelSpec_of (exprF f) op.lvl l2 l5
        (fun x => x.WF ∧ op.lvl < x.prec ∧ x.size < (E.bin op j l r).size)
        (fun x hx b ts hf' => (ih x (by omega) hx.1 f (by omega)).1 (op.lvl + 1) (by omega) hx.2.1 b ts hf')
      have := runLevel_chain hs rest (fun x hx => ⟨(hall x hx).1, (hall x hx).2.1, (hall x hx).2.2, hsr x hx⟩) a
        ⟨wa, pa, hsa⟩ b ts hts'
      show lev (exprF f) op.lvl _ = _
      rw [lev_eq _ _ l2 l5, he, toks_foldChain, List.append_assoc]
      exact this
    | and j l r =>
      simp only [E.WF] at hw
      simp only [E.size] at hsz hf
      obtain ⟨wl, wr, pl, pr⟩ := hw
      have hl := (ih l (by omega) wl f (by omega)).1 2 (Nat.le_refl _) (by omega)
      have hr := (ih r (by omega) wr f (by omega)).2.1 pr
      have hB : BoolStmt .and eOP_AND (eqExpr (exprF f)) (E.and j l r) 1 := by
        intro fl hfl b ts hts
        exact bool_node .and eOP_AND (by decide) (eqExpr (exprF f)) l r j 1 rfl hl hr fl hfl b ts hts
      refine ⟨fun p h2 hp => by simp [E.prec] at hp; omega, fun _ => hB, ?_⟩
      exact bool_pass .or eOP_OR (andExpr (exprF f)) _ 0 (fun _ => rfl) (andExpr_of_bool (exprF f) _ hB)
    | or j l r =>
      simp only [E.WF] at hw
      simp only [E.size] at hsz hf
      obtain ⟨wl, wr, pl⟩ := hw
      have hlB := (ih l (by omega) wl f (by omega)).2.1 (by omega)
      have hr := (ih r (by omega) wr f (by omega)).2.2
      refine ⟨fun p h2 hp => by simp [E.prec] at hp; omega, fun h => by simp [E.prec] at h, ?_⟩
      intro fl hfl b ts hts
      exact bool_node .or eOP_OR (by decide) (andExpr (exprF f)) l r j 0 rfl (andExpr_of_bool (exprF f) l hlB) hr fl hfl b ts hts

theorem size_le_toks (e : E) : e.size ≤ e.toks.length := by
  induction e with
  | num i j => simp [E.size, E.toks]
  | lit j => simp [E.size, E.toks]
  | var i j => simp [E.size, E.toks]
  | nameStep k j => simp [E.size, E.toks]
  | anyStep => simp [E.size, E.toks]
  | group e ih => simp [E.size, E.toks]; omega
  | neg e ih => simp [E.size, E.toks]; omega
  | bin op j l r ihl ihr =>
    have : 1 ≤ (op.toks j).length := by
      cases op <;> simp only [BinOp.toks] <;> first | simp | (split <;> simp)
    simp only [E.size, E.toks, List.length_append]; omega
  | and j l r ihl ihr => simp only [E.size, E.toks, List.length_append, List.length_cons, List.length_nil]; omega
  | or j l r ihl ihr => simp only [E.size, E.toks, List.length_append, List.length_cons, List.length_nil]; omega

/-- **The compiler theorem, whole trees.** -/
theorem compile_encodes_all (e : E) (hw : e.WF) : compile e.toks = some (mk e.enc) := by
  have hpos := toks_length_pos e
  have hne : e.toks.isEmpty = false := by
    cases h : e.toks with
    | nil => rw [h] at hpos; simp at hpos
    | cons t r => rfl
  have hall := compile_all e.size e (Nat.le_refl _) hw e.toks.length (size_le_toks e)
  have hC := hall.2.2 (e.toks.length + 1) (by omega) [] [] (by intro t ht; simp at ht)
  have hx : appendOpCode [] eOP_XPATH = some (mk []) := by decide
  simp only [List.append_nil, List.nil_append] at hC
  simp only [compile, hne, Bool.false_eq_true, if_false, hx, Option.bind_eq_bind, Option.bind_some, exprF, orExpr, hC,
    List.isEmpty_nil, if_true]

end XalanModel.C02
