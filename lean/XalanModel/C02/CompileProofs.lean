import XalanModel.C02.Encode
/-!
# C02 layer 1 — helper lemmas for the compiler theorem

1. the `XPathExpression` primitives on a map of the form `mk body` (the invariant
   `m_opMap[1] = m_opMap.size()` the C++ asserts) expressed on the body;
2. `binLevel_chain`: the insert-at-saved-position recursion of `EqualityExpr(int)` … produces the
   headers of the left-nested chain, outermost first, in front of the operands in source order;
3. assembly by induction on the size of the tree.
-/
set_option linter.unusedSimpArgs false
namespace XalanModel.C02
open XalanModel.Generated.C02

theorem mk_length (b : List Int) : (mk b).length = b.length + 2 := by simp [mk]

theorem mapLength_mk (b : List Int) : mapLength (mk b) = (b.length : Int) + 2 := by
  simp [mapLength, mk]

theorem pos_mk (b : List Int) (ts : List Tok) : (St.mk (mk b) ts).pos = b.length + 2 := by
  simp only [St.pos, mapLength_mk] <;> omega

theorem bumpTotal_mk (b : List Int) (x n : Int) :
    bumpTotal (eOP_XPATH :: x :: b) n = eOP_XPATH :: (x + n) :: b := by
  simp [bumpTotal, List.modify]

/-- append of an op code whose table length is 2 -/
theorem appendOpCode_mk2 (b : List Int) (c : Int) (h : getOpCodeLength c = 2) :
    appendOpCode (mk b) c = some (mk (b ++ [c, 2])) := by
  simp [appendOpCode, h, mk, bumpTotal, List.modify] <;> omega

theorem appendOpCode_mk3 (b : List Int) (c : Int) (h : getOpCodeLength c = 3) :
    appendOpCode (mk b) c = some (mk (b ++ [c, 3, eENDOP])) := by
  simp [appendOpCode, h, mk, bumpTotal, List.modify, List.replicate] <;> omega

theorem appendOpCode_mk1 (b : List Int) (c : Int) (h : getOpCodeLength c = 1) :
    appendOpCode (mk b) c = some (mk (b ++ [c])) := by
  simp [appendOpCode, h, mk, bumpTotal, List.modify] <;> omega

theorem pushArg_mk (b : List Int) (v : Int) : pushArg (mk b) v = mk (b ++ [v]) := by
  simp [pushArg, mk, bumpTotal, List.modify] <;> omega

/-- insert of a 2-cell op code at body offset `|pre|`, then `updateOpCodeLength` there -/
theorem insert_update_mk (pre X : List Int) (c : Int) (h : getOpCodeLength c = 2) :
    (insertOpCode (mk (pre ++ X)) c (pre.length + 2)).bind (fun r => updateOpCodeLength r.1 c (pre.length + 2))
      = some (mk (pre ++ c :: ((X.length : Int) + 2) :: X)) := by
  have h0 : getOpCodeLength c ≠ 0 := by omega
  simp only [insertOpCode, h, mk]
  simp [List.take_append, List.drop_append, bumpTotal, List.modify, updateOpCodeLength, h0, mapLength,
    List.replicate, List.getElem?_append_right, List.set_append] <;> omega

theorem insertOpCode_mk (pre X : List Int) (c : Int) (h : getOpCodeLength c = 2) :
    insertOpCode (mk (pre ++ X)) c (pre.length + 2) = some (mk (pre ++ c :: (-1) :: X), 2) := by
  simp only [insertOpCode, h, mk]
  simp [List.take_append, List.drop_append, bumpTotal, List.modify, List.replicate] <;> omega

/-- `updateOpCodeLength` on the op code at body offset `|pre|` -/
theorem updateOpCodeLength_mk (pre Y : List Int) (c v : Int) (h : getOpCodeLength c ≠ 0) :
    updateOpCodeLength (mk (pre ++ c :: v :: Y)) c (pre.length + 2) = some (mk (pre ++ c :: ((Y.length : Int) + 2) :: Y)) := by
  simp [updateOpCodeLength, h, mk, mapLength, List.getElem?_append_right, List.set_append] <;> omega

theorem updateOpCodeLengthAt_mk (pre Y : List Int) (c v : Int) (h : getOpCodeLength c ≠ 0) :
    updateOpCodeLengthAt (mk (pre ++ c :: v :: Y)) (pre.length + 2) = some (mk (pre ++ c :: ((Y.length : Int) + 2) :: Y)) := by
  have : (mk (pre ++ c :: v :: Y))[pre.length + 2]? = some c := by
    simp [mk, List.getElem?_append_right]
  simp only [updateOpCodeLengthAt, this]
  exact updateOpCodeLength_mk pre Y c v h

theorem modify_append_len {α} (pre R : List α) (k : Nat) (f : α → α) :
    (pre ++ R).modify (pre.length + k) f = pre ++ R.modify k f := by
  induction pre with
  | nil => simp
  | cons a t ih =>
    have : (a :: t).length + k = (t.length + k) + 1 := by simp; omega
    rw [this]; simp [List.modify_succ_cons, ih]

theorem getElem?_mk_pre (pre R : List Int) (k : Nat) :
    (mk (pre ++ R))[pre.length + 2 + k]? = R[k]? := by
  simp only [mk]
  have : pre.length + 2 + k = (pre.length + k) + 1 + 1 := by omega
  rw [this, List.getElem?_cons_succ, List.getElem?_cons_succ, List.getElem?_append_right (by omega)]
  congr 1; omega

theorem updateShifted_mk (pre Y Z : List Int) (c v c2 l2 : Int) (h : getOpCodeLength c ≠ 0)
    (h2 : getOpCodeLength c2 > 1) (hv : v = (Y.length : Int) + 2) :
    updateShiftedOpCodeLength (mk (pre ++ c :: v :: (Y ++ c2 :: l2 :: Z))) c (pre.length + 2)
      = some (mk (pre ++ c :: (v + l2) :: (Y ++ c2 :: l2 :: Z))) := by
  have e0 : (mk (pre ++ c :: v :: (Y ++ c2 :: l2 :: Z)))[pre.length + 2]? = some c := by
    have := getElem?_mk_pre pre (c :: v :: (Y ++ c2 :: l2 :: Z)) 0
    simpa using this
  have e1 : (mk (pre ++ c :: v :: (Y ++ c2 :: l2 :: Z)))[pre.length + 2 + 1]? = some v := by
    have := getElem?_mk_pre pre (c :: v :: (Y ++ c2 :: l2 :: Z)) 1
    simpa using this
  have e2 : (mk (pre ++ c :: v :: (Y ++ c2 :: l2 :: Z)))[pre.length + 2 + (Y.length + 2)]? = some c2 := by
    have := getElem?_mk_pre pre (c :: v :: (Y ++ c2 :: l2 :: Z)) (Y.length + 2)
    simpa [List.getElem?_append_right] using this
  have e3 : (mk (pre ++ c :: v :: (Y ++ c2 :: l2 :: Z)))[pre.length + 2 + (Y.length + 2) + 1]? = some l2 := by
    have := getElem?_mk_pre pre (c :: v :: (Y ++ c2 :: l2 :: Z)) (Y.length + 3)
    have e : pre.length + 2 + (Y.length + 2) + 1 = pre.length + 2 + (Y.length + 3) := by omega
    rw [e, this]
    simp [List.getElem?_append_right]
  have hl : (mk (pre ++ c :: v :: (Y ++ c2 :: l2 :: Z))).length = pre.length + Y.length + Z.length + 6 := by
    simp [mk]; omega
  have hnext : ((pre.length + 2 : Nat) : Int) + v = ((pre.length + 2 + (Y.length + 2) : Nat) : Int) := by
    subst hv; omega
  unfold updateShiftedOpCodeLength
  have hgd : (mk (pre ++ c :: v :: (Y ++ c2 :: l2 :: Z))).getD (pre.length + 2 + 1) 0 = v := by
    simp [List.getD_eq_getElem?_getD, e1]
  simp only [h, e0, hgd, hnext, false_or, not_true_eq_false, if_false, ne_eq]
  have hlt : ¬ (pre.length + 2 + 1 ≥ (mk (pre ++ c :: v :: (Y ++ c2 :: l2 :: Z))).length) := by rw [hl]; omega
  simp only [hlt, if_false, Int.toNat_natCast]
  have hneg : ¬ (((pre.length + 2 + (Y.length + 2) : Nat) : Int) < 0) := by omega
  have hlt2 : pre.length + 2 + (Y.length + 2) < (mk (pre ++ c :: v :: (Y ++ c2 :: l2 :: Z))).length := by rw [hl]; omega
  have h20 : getOpCodeLength c2 ≠ 0 := by omega
  simp only [hneg, hlt2, if_false, if_true, getOpCodeLengthFromOpMap, e2, e3, h20, h2]
  simp only [mk, List.modify_succ_cons]
  rw [modify_append_len]
  simp [List.modify]

abbrev Chain := List (BinOp × Int × E)

def hdrsOf (S : Int) : Chain → List Int
  | [] => []
  | (op, _, a) :: rest => hdrsOf (S + 2 + (a.enc.length : Int)) rest ++ [op.code, S + 2 + (a.enc.length : Int)]

def encs : Chain → List Int
  | [] => []
  | (_, _, a) :: rest => a.enc ++ encs rest

def chainToks : Chain → List Tok
  | [] => []
  | (op, j, a) :: rest => op.toks j ++ (a.toks ++ chainToks rest)

theorem hdrsOf_length (S : Int) (rest : Chain) : (hdrsOf S rest).length = 2 * rest.length := by
  induction rest generalizing S with
  | nil => rfl
  | cons x rest ih => obtain ⟨op, j, a⟩ := x; simp [hdrsOf, ih]; omega


theorem fix_step (pre hdrs Y A R Z : List Int) (code v c2 : Int) (d : Int)
    (hd : d = (hdrs.length : Int)) (hv : v = (Y.length : Int) + 2)
    (hA : A = c2 :: (A.length : Int) :: Z) (hc2 : getOpCodeLength c2 > 1) (hc : getOpCodeLength code ≠ 0)
    (hR : hdrs = [] → R = []) :
    (if d > 0 then updateShiftedOpCodeLength (mk (pre ++ (hdrs ++ code :: v :: (Y ++ (A ++ R))))) code (pre.length + 2 + d.toNat)
     else updateOpCodeLength (mk (pre ++ (hdrs ++ code :: v :: (Y ++ (A ++ R))))) code (pre.length + 2))
      = some (mk (pre ++ (hdrs ++ code :: (v + (A.length : Int)) :: (Y ++ (A ++ R))))) := by
  by_cases hpos : d > 0
  · simp only [hpos, if_true]
    have e : pre.length + 2 + d.toNat = (pre ++ hdrs).length + 2 := by simp; omega
    rw [e]
    have := updateShifted_mk (pre ++ hdrs) Y (Z ++ R) code v c2 (A.length : Int) hc hc2 hv
    have eA : A ++ R = c2 :: (A.length : Int) :: (Z ++ R) := by
      conv => lhs; rw [hA]
      simp
    rw [eA]
    simpa [List.append_assoc] using this
  · simp only [hpos, if_false]
    have h0 : hdrs = [] := by
      have : hdrs.length = 0 := by omega
      exact List.eq_nil_of_length_eq_zero this
    have hR' := hR h0
    subst h0; subst hR'
    have := updateOpCodeLength_mk pre (Y ++ (A ++ [])) code v hc
    simp only [List.nil_append] at *
    rw [this]
    congr 3
    simp; omega

structure LevelSpec (recog : St → Option OpHit) (lower : St → Option St) (Opnd : E → Prop)
    (IsOp : BinOp → Prop) (FollowT FollowL : List Tok → Prop) : Prop where
  lower_ok : ∀ a, Opnd a → ∀ b ts, FollowL ts → lower ⟨mk b, a.toks ++ ts⟩ = some ⟨mk (b ++ a.enc), ts⟩
  recog_op : ∀ op j a m ts, IsOp op → Opnd a →
    recog ⟨m, op.toks j ++ (a.toks ++ ts)⟩ = some ⟨op.code, ⟨m, a.toks ++ ts⟩, true⟩
  recog_no : ∀ m ts, FollowT ts → recog ⟨m, ts⟩ = none
  code_len : ∀ op, IsOp op → getOpCodeLength op.code = 2
  enc_hdr : ∀ a, Opnd a → ∃ c Z, a.enc = c :: (a.enc.length : Int) :: Z ∧ getOpCodeLength c > 1
  followL_T : ∀ ts, FollowT ts → FollowL ts
  followL_op : ∀ op j a ts, IsOp op → Opnd a → FollowL (op.toks j ++ (a.toks ++ ts))

theorem binLevel_chain {recog lower Opnd IsOp FollowT FollowL}
    (hs : LevelSpec recog lower Opnd IsOp FollowT FollowL) :
    ∀ (rest : Chain), (∀ x ∈ rest, IsOp x.1 ∧ Opnd x.2.2) →
    ∀ (a : E), Opnd a → ∀ (fuel : Nat), rest.length < fuel →
    ∀ (pre W : List Int) (c x : Int) (ts : List Tok), x = (W.length : Int) + 2 → getOpCodeLength c ≠ 0 → FollowT ts →
      binLevel recog lower fuel (some (pre.length + 2)) ⟨mk (pre ++ c :: x :: W), a.toks ++ (chainToks rest ++ ts)⟩
        = some (⟨mk (pre ++ hdrsOf (x + (a.enc.length : Int)) rest ++ c :: x :: (W ++ a.enc ++ encs rest)), ts⟩,
                (2 * rest.length : Int)) := by
  intro rest
  induction rest with
  | nil =>
    intro _ a ha fuel hf pre W c x ts hx hc hts
    obtain ⟨f, rfl⟩ : ∃ f, fuel = f + 1 := ⟨fuel - 1, by omega⟩
    have hl := hs.lower_ok a ha (pre ++ c :: x :: W) ts (hs.followL_T ts hts)
    simp only [chainToks, List.nil_append] at *
    simp only [binLevel, Option.getD_some, hl, Option.bind_eq_bind, Option.bind_some, hs.recog_no _ _ hts]
    simp [hdrsOf, encs]
  | cons y rest ih =>
    intro hall a ha fuel hf pre W c x ts hx hc hts
    obtain ⟨op, j, a'⟩ := y
    obtain ⟨f, rfl⟩ : ∃ f, fuel = f + 1 := ⟨fuel - 1, by omega⟩
    have hop : IsOp op := (hall _ (List.mem_cons_self ..)).1
    have ha' : Opnd a' := (hall _ (List.mem_cons_self ..)).2
    have hrest : ∀ x ∈ rest, IsOp x.1 ∧ Opnd x.2.2 := fun x hx => hall x (List.mem_cons_of_mem _ hx)
    have hl := hs.lower_ok a ha (pre ++ c :: x :: W) (op.toks j ++ (a'.toks ++ (chainToks rest ++ ts)))
      (hs.followL_op op j a' _ hop ha')
    have hr := hs.recog_op op j a' (mk (pre ++ c :: x :: W ++ a.enc)) (chainToks rest ++ ts) hop ha'
    have hcl := hs.code_len op hop
    have hcl0 : getOpCodeLength op.code ≠ 0 := by omega
    have hins := insertOpCode_mk pre (c :: x :: W ++ a.enc) op.code hcl
    have hupd := updateOpCodeLength_mk pre (c :: x :: W ++ a.enc) op.code (-1) hcl0
    have hrec := ih hrest a' ha' f (by simp at hf; omega) pre (c :: x :: (W ++ a.enc)) op.code
      (((c :: x :: W ++ a.enc).length : Int) + 2) ts (by simp) hcl0 hts
    simp only [chainToks, List.append_assoc] at *
    simp only [binLevel, Option.getD_some, hl, Option.bind_eq_bind, Option.bind_some, hr]
    simp only [Bool.not_true, Bool.false_eq_true, if_false]
    simp only [List.cons_append, List.append_assoc] at hins hupd hrec ⊢
    simp only [hins, Option.bind_some, hupd, hrec]
    obtain ⟨c2, Z, hA, hc2⟩ := hs.enc_hdr a' ha'
    have hfix := fix_step pre (hdrsOf (((c :: x :: (W ++ a.enc)).length : Int) + 2 + (a'.enc.length : Int)) rest)
      (c :: x :: (W ++ a.enc)) a'.enc (encs rest) Z op.code (((c :: x :: (W ++ a.enc)).length : Int) + 2) c2
      (2 * (rest.length : Int)) (by rw [hdrsOf_length]; omega) rfl hA hc2 hcl0
      (by intro h; have h1 := congrArg List.length h; rw [hdrsOf_length] at h1
          have h2 : rest = [] := List.eq_nil_of_length_eq_zero (by simp at h1; omega)
          subst h2; rfl)
    simp only [List.cons_append, List.append_assoc] at hfix
    have hite : ∀ {α β} (p : Prop) [Decidable p] (A B : Option α) (g : α → Option β),
        (if p then A.bind g else B.bind g) = (if p then A else B).bind g := by
      intro α β p _ A B g; split <;> rfl
    rw [hite, hfix]
    simp only [Option.bind_some, hdrsOf, encs, List.length_cons, List.append_assoc, List.cons_append, List.nil_append]
    subst hx
    have e1 : (((W ++ a.enc).length + 1 + 1 : Nat) : Int) + 2 + (a'.enc.length : Int)
        = (W.length : Int) + 2 + (a.enc.length : Int) + 2 + (a'.enc.length : Int) := by
      simp; omega
    have e2 : (2 * (rest.length : Int) + 2) = 2 * ((rest.length + 1 : Nat) : Int) := by omega
    rw [e1, e2]

/-- the left-nested tree `(((a op1 a1) op2 a2) …)` -/
def foldChain (a : E) (rest : Chain) : E := rest.foldl (fun t x => E.bin x.1 x.2.1 t x.2.2) a

theorem enc_foldChain (rest : Chain) : ∀ (a : E),
    (foldChain a rest).enc = hdrsOf (a.enc.length : Int) rest ++ a.enc ++ encs rest := by
  induction rest with
  | nil => intro a; simp [foldChain, hdrsOf, encs]
  | cons y rest ih =>
    intro a
    obtain ⟨op, j, x⟩ := y
    have := ih (E.bin op j a x)
    simp only [foldChain, List.foldl_cons] at this ⊢
    rw [this]
    simp only [E.enc, hdrsOf, encs, List.length_cons, List.length_append, List.append_assoc, List.cons_append,
      List.nil_append]
    have e : (((a.enc.length + x.enc.length + 1 + 1 : Nat)) : Int) = (a.enc.length : Int) + 2 + (x.enc.length : Int) := by omega
    have e' : (a.enc.length : Int) + (x.enc.length : Int) + 2 = (a.enc.length : Int) + 2 + (x.enc.length : Int) := by omega
    rw [e, e']

theorem binLevel_top {recog lower Opnd IsOp FollowT FollowL}
    (hs : LevelSpec recog lower Opnd IsOp FollowT FollowL)
    (rest : Chain) (hall : ∀ x ∈ rest, IsOp x.1 ∧ Opnd x.2.2) (a : E) (ha : Opnd a) (fuel : Nat)
    (hf : rest.length < fuel) (b : List Int) (ts : List Tok) (hts : FollowT ts) :
    binLevel recog lower fuel none ⟨mk b, a.toks ++ (chainToks rest ++ ts)⟩
      = some (⟨mk (b ++ (foldChain a rest).enc), ts⟩, (2 * rest.length : Int)) := by
  obtain ⟨f, rfl⟩ : ∃ f, fuel = f + 1 := ⟨fuel - 1, by omega⟩
  cases rest with
  | nil =>
    have hl := hs.lower_ok a ha b ts (hs.followL_T ts hts)
    simp only [chainToks, List.nil_append] at *
    simp only [binLevel, Option.getD_none, hl, Option.bind_eq_bind, Option.bind_some, hs.recog_no _ _ hts]
    simp [foldChain]
  | cons y rest =>
    obtain ⟨op, j, a'⟩ := y
    have hop : IsOp op := (hall _ (List.mem_cons_self ..)).1
    have ha' : Opnd a' := (hall _ (List.mem_cons_self ..)).2
    have hrest : ∀ x ∈ rest, IsOp x.1 ∧ Opnd x.2.2 := fun x hx => hall x (List.mem_cons_of_mem _ hx)
    have hl := hs.lower_ok a ha b (op.toks j ++ (a'.toks ++ (chainToks rest ++ ts))) (hs.followL_op op j a' _ hop ha')
    have hr := hs.recog_op op j a' (mk (b ++ a.enc)) (chainToks rest ++ ts) hop ha'
    have hcl := hs.code_len op hop
    have hcl0 : getOpCodeLength op.code ≠ 0 := by omega
    have hins := insertOpCode_mk b a.enc op.code hcl
    have hupd := updateOpCodeLength_mk b a.enc op.code (-1) hcl0
    have hrec := binLevel_chain hs rest hrest a' ha' f (by simp at hf; omega) b a.enc op.code
      ((a.enc.length : Int) + 2) ts rfl hcl0 hts
    obtain ⟨c2, Z, hA, hc2⟩ := hs.enc_hdr a' ha'
    have hfix := fix_step b (hdrsOf ((a.enc.length : Int) + 2 + (a'.enc.length : Int)) rest)
      a.enc a'.enc (encs rest) Z op.code ((a.enc.length : Int) + 2) c2
      (2 * (rest.length : Int)) (by rw [hdrsOf_length]; omega) rfl hA hc2 hcl0
      (by intro h; have h1 := congrArg List.length h; rw [hdrsOf_length] at h1
          have h2 : rest = [] := List.eq_nil_of_length_eq_zero (by simp at h1; omega)
          subst h2; rfl)
    have hpos : (St.mk (mk b) (a.toks ++ (op.toks j ++ (a'.toks ++ (chainToks rest ++ ts))))).pos = b.length + 2 := pos_mk _ _
    simp only [chainToks, List.append_assoc] at *
    simp only [binLevel, Option.getD_none, hpos, hl, Option.bind_eq_bind, Option.bind_some, hr]
    simp only [Bool.not_true, Bool.false_eq_true, if_false]
    simp only [hins, Option.bind_some, hupd, hrec]
    have hite : ∀ {α β} (p : Prop) [Decidable p] (A B : Option α) (g : α → Option β),
        (if p then A.bind g else B.bind g) = (if p then A else B).bind g := by
      intro α β p _ A B g; split <;> rfl
    rw [hite, hfix]
    have hE := enc_foldChain ((op, j, a') :: rest) a
    simp only [hdrsOf, encs, List.append_assoc, List.cons_append, List.nil_append] at hE
    rw [hE]
    simp only [Option.bind_some, List.length_cons]
    have e2 : (2 * (rest.length : Int) + 2) = 2 * ((rest.length + 1 : Nat) : Int) := by omega
    rw [e2]


/-! ## a concrete layer: `MultiplicativeExpr` over atoms -/

/-- the opaque atoms of `PrimaryExpr`: number literal, string literal, variable reference -/
def IsAtom : E → Prop
  | .num .. => True
  | .lit .. => True
  | .var .. => True
  | _ => False

def IsMulOp : BinOp → Prop
  | .mult => True | .div => True | .mod => True | _ => False

/-- what may follow an operand of the multiplicative layer when the chain ends -/
def FollowMul (ts : List Tok) : Prop :=
  ts.head? ≠ some .star ∧ ts.head? ≠ some .bar ∧ ∀ j, ts.head? ≠ some (.name .div j) ∧ ts.head? ≠ some (.name .mod j)

def NotBar (ts : List Tok) : Prop := ts.head? ≠ some .bar

theorem primary_atom (expr : St → Option St) (a : E) (ha : IsAtom a) (b : List Int) (ts : List Tok) :
    primaryExpr expr ⟨mk b, a.toks ++ ts⟩ = some ⟨mk (b ++ a.enc), ts⟩ := by
  cases a <;> simp only [IsAtom] at ha
  · -- num
    simp only [E.toks, List.cons_append, List.nil_append, primaryExpr, St.cur, List.head?_cons, pos_mk]
    rw [appendOpCode_mk2 b eOP_NUMBERLIT (by decide)]
    simp only [Option.bind_eq_bind, Option.bind_some, pushArg_mk, List.append_assoc, List.cons_append, List.nil_append]
    rw [updateOpCodeLength_mk b _ eOP_NUMBERLIT 2 (by decide)]
    simp [E.enc]
  · -- lit
    simp only [E.toks, List.cons_append, List.nil_append, primaryExpr, St.cur, List.head?_cons, pos_mk]
    rw [appendOpCode_mk2 b eOP_LITERAL (by decide)]
    simp only [Option.bind_eq_bind, Option.bind_some, pushArg_mk, List.append_assoc, List.cons_append, List.nil_append]
    rw [updateOpCodeLength_mk b _ eOP_LITERAL 2 (by decide)]
    simp [E.enc]
  · -- var
    simp only [E.toks, List.cons_append, List.nil_append, primaryExpr, St.cur, List.head?_cons, pos_mk]
    rw [appendOpCode_mk2 b eOP_VARIABLE (by decide)]
    simp only [Option.bind_eq_bind, Option.bind_some, pushArg_mk, List.append_assoc, List.cons_append, List.nil_append]
    rw [updateOpCodeLength_mk b _ eOP_VARIABLE 2 (by decide)]
    simp [E.enc]

theorem tok_beq_minus (t : Tok) (h : t ≠ Tok.minus) : (t == Tok.minus) = false := by
  cases t <;> first | rfl | (exact absurd rfl h)

theorem tok_beq_bar (t : Tok) (h : t ≠ Tok.bar) : (t == Tok.bar) = false := by
  cases t <;> first | rfl | (exact absurd rfl h)

theorem opt_beq_some (o : Option Tok) (k : Tok) (hk : ∀ t, t ≠ k → (t == k) = false) (h : o ≠ some k) : (o == some k) = false := by
  cases o with
  | none => rfl
  | some t =>
    have : t ≠ k := fun e => h (by rw [e])
    show (t == k) = false
    exact hk t this

theorem atom_enc_hdr (a : E) (ha : IsAtom a) :
    ∃ c Z, a.enc = c :: (a.enc.length : Int) :: Z ∧ getOpCodeLength c > 1 := by
  cases a <;> simp only [IsAtom] at ha
  · exact ⟨eOP_NUMBERLIT, _, rfl, by decide⟩
  · exact ⟨eOP_LITERAL, _, rfl, by decide⟩
  · exact ⟨eOP_VARIABLE, _, rfl, by decide⟩

theorem atom_toks_head (a : E) (ha : IsAtom a) : ∃ t rest, a.toks = t :: rest ∧ t ≠ Tok.minus ∧ t ≠ Tok.bar := by
  cases a <;> simp only [IsAtom] at ha
  · exact ⟨_, _, rfl, by simp, by simp⟩
  · exact ⟨_, _, rfl, by simp, by simp⟩
  · exact ⟨_, _, rfl, by simp, by simp⟩

theorem unionExpr_atom (expr : St → Option St) (a : E) (ha : IsAtom a) (b : List Int) (ts : List Tok) (hts : NotBar ts) :
    unionExpr expr ⟨mk b, a.toks ++ ts⟩ = some ⟨mk (b ++ a.enc), ts⟩ := by
  obtain ⟨c, Z, hA, hc⟩ := atom_enc_hdr a ha
  have hcur : ((St.mk (mk (b ++ a.enc)) ts).cur == some Tok.bar) = false :=
    opt_beq_some _ _ tok_beq_bar hts
  simp only [unionExpr, pos_mk]
  have hloop : unionLoop expr (b.length + 2) ((a.toks ++ ts).length + 1) false ⟨mk b, a.toks ++ ts⟩
      = some ⟨mk (b ++ a.enc), ts⟩ := by
    simp only [unionLoop, pathExpr, primary_atom expr a ha b ts, Option.bind_eq_bind, Option.bind_some, hcur,
      Bool.false_eq_true, if_false]
  rw [hloop]
  simp only [Option.bind_eq_bind, Option.bind_some]
  have : mk (b ++ a.enc) = mk (b ++ c :: (a.enc.length : Int) :: Z) := by rw [← hA]
  rw [this, updateOpCodeLengthAt_mk b Z c _ (by omega)]
  have e : ((Z.length : Int) + 2) = (a.enc.length : Int) := by
    have := congrArg List.length hA
    simp at this
    omega
  rw [e, ← hA]
  rfl

theorem unaryExpr_atom (expr : St → Option St) (a : E) (ha : IsAtom a) (b : List Int) (ts : List Tok) (hts : NotBar ts) :
    unaryExpr expr ⟨mk b, a.toks ++ ts⟩ = some ⟨mk (b ++ a.enc), ts⟩ := by
  obtain ⟨t, rest, ht, hm, _⟩ := atom_toks_head a ha
  have hcur : ((St.mk (mk b) (a.toks ++ ts)).cur == some Tok.minus) = false := by
    simp only [St.cur, ht, List.cons_append, List.head?_cons]
    exact opt_beq_some _ _ tok_beq_minus (by simp [hm])
  simp only [unaryExpr, unaryF, hcur, Bool.false_eq_true, if_false]
  exact unionExpr_atom expr a ha b ts hts

theorem atom_toks_ne_nil (a : E) (ha : IsAtom a) : a.toks ≠ [] := by
  obtain ⟨t, rest, ht, _, _⟩ := atom_toks_head a ha
  rw [ht]; simp

theorem recogMul_op (op : BinOp) (j : Int) (a : E) (m : OpMap) (ts : List Tok) (hop : IsMulOp op) (ha : IsAtom a) :
    recogMul ⟨m, op.toks j ++ (a.toks ++ ts)⟩ = some ⟨op.code, ⟨m, a.toks ++ ts⟩, true⟩ := by
  obtain ⟨t, rest, ht, _, _⟩ := atom_toks_head a ha
  cases op <;> simp only [IsMulOp] at hop <;>
    simp [recogMul, BinOp.toks, BinOp.code, St.cur, St.adv, St.next, ht]

theorem recogMul_no (m : OpMap) (ts : List Tok) (h : FollowMul ts) : recogMul ⟨m, ts⟩ = none := by
  obtain ⟨h1, _, h3⟩ := h
  cases ts with
  | nil => rfl
  | cons t rest =>
    cases t with
    | star => exact absurd rfl h1
    | name k j =>
      cases k with
      | div => exact absurd rfl (h3 j).1
      | mod => exact absurd rfl (h3 j).2
      | and => rfl
      | or => rfl
      | other => rfl
    | _ => rfl

theorem mulLevelSpec (expr : St → Option St) :
    LevelSpec recogMul (unaryExpr expr) IsAtom IsMulOp FollowMul NotBar where
  lower_ok a ha b ts hts := unaryExpr_atom expr a ha b ts hts
  recog_op op j a m ts hop ha := recogMul_op op j a m ts hop ha
  recog_no m ts h := recogMul_no m ts h
  code_len op hop := by cases op <;> simp only [IsMulOp] at hop <;> decide
  enc_hdr a ha := atom_enc_hdr a ha
  followL_T ts h := h.2.1
  followL_op op j a ts hop _ := by
    cases op <;> simp only [IsMulOp] at hop <;> simp [NotBar, BinOp.toks]

/-- **`MultiplicativeExpr` over atoms, complete**: for atoms `a, a₁ … aₙ` (number / string literals, variable references)
and operators `*`, `div`, `mod`, any `n`, the real model function `mulExpr` appends exactly the encoding of the
left-nested tree `((a op₁ a₁) op₂ a₂) …` and consumes exactly the chain. -/
theorem mulExpr_atoms (expr : St → Option St) (a : E) (ha : IsAtom a) (rest : Chain)
    (hall : ∀ x ∈ rest, IsMulOp x.1 ∧ IsAtom x.2.2) (b : List Int) (ts : List Tok) (hts : FollowMul ts) :
    mulExpr expr ⟨mk b, a.toks ++ (chainToks rest ++ ts)⟩ = some ⟨mk (b ++ (foldChain a rest).enc), ts⟩ := by
  have hlen : rest.length < (a.toks ++ (chainToks rest ++ ts)).length + 1 := by
    have : ∀ (r : Chain), r.length ≤ (chainToks r).length := by
      intro r
      induction r with
      | nil => simp [chainToks]
      | cons x r ih =>
        obtain ⟨op, j, y⟩ := x
        have : 1 ≤ (op.toks j).length := by
          cases op <;> simp only [BinOp.toks] <;> first | simp | (split <;> simp)
        simp only [chainToks, List.length_cons, List.length_append]
        omega
    have := this rest
    simp only [List.length_append]
    omega
  have := binLevel_top (mulLevelSpec expr) rest hall a ha _ hlen b ts hts
  simp only [mulExpr, runLevel]
  rw [this]
  rfl


end XalanModel.C02
