import XalanModel.C02.Compile
/-!
# C02 — tokenizer (mirror of `XPathProcessorImpl::tokenize`, lines 208–472) for the ASCII fragment
without `:` (no QName mapping), and the *annotator* that turns the raw token strings into the
`Tok`s of `Compile.lean`, computing the payload the C++ pushes for each token (token-queue
positions, shifted by the empty tokens `QName()` inserts for `$name`; running number-literal index).
Executable only (validated by the correspondence run); core Lean.
-/
namespace XalanModel.C02

def isDigitC (c : Char) : Bool := '0' ≤ c ∧ c ≤ '9'
def isLetterC (c : Char) : Bool := ('a' ≤ c ∧ c ≤ 'z') ∨ ('A' ≤ c ∧ c ≤ 'Z')
def isSpaceC (c : Char) : Bool := c = ' ' ∨ c = '\n' ∨ c = '\r' ∨ c = '\t'
def isSymbolC (c : Char) : Bool :=
  c = '@' ∨ c = '(' ∨ c = '[' ∨ c = ')' ∨ c = ']' ∨ c = '|' ∨ c = '/' ∨ c = '*' ∨ c = '+' ∨ c = '=' ∨
  c = ',' ∨ c = '\\' ∨ c = '^' ∨ c = '!' ∨ c = '$' ∨ c = '<' ∨ c = '>'

inductive TokErr | unterminated | empty | unsupported
deriving Repr, DecidableEq

/-- `cur` = the pending substring (reversed), `none` = `startSubstring == npos`. -/
def tokenizeGo : Nat → List Char → Option (List Char) → List String → Except TokErr (List String)
  | 0, _, _, _ => .error .unsupported
  | _, [], cur, acc =>
    let acc := match cur with | some w => String.ofList w.reverse :: acc | none => acc
    if acc.isEmpty then .error .empty else .ok acc.reverse
  | f+1, c :: cs, cur, acc =>
    let flush (acc : List String) : List String :=
      match cur with | some w => String.ofList w.reverse :: acc | none => acc
    if c = '"' ∨ c = '\'' then
      let acc := flush acc
      let body := cs.takeWhile (· ≠ c)
      let rest := cs.dropWhile (· ≠ c)
      match rest with
      | [] => .error .unterminated
      | _ :: rest' => tokenizeGo f rest' none (String.ofList (c :: body ++ [c]) :: acc)
    else if isSpaceC c then tokenizeGo f cs none (flush acc)
    else if c = '-' ∧ cur.isSome then tokenizeGo f cs (cur.map (c :: ·)) acc
    else if XalanModel.Generated.C02.compoundOperatorTokens ∧ (c = '!' ∨ c = '<' ∨ c = '>') ∧ cs.head? = some '=' then
      tokenizeGo f cs.tail none (String.ofList [c, '='] :: flush acc)
    else if c = '-' ∨ isSymbolC c then tokenizeGo f cs none (String.singleton c :: flush acc)
    else if c = ':' then .error .unsupported
    else
      match cur with
      | some w => tokenizeGo f cs (some (c :: w)) acc
      | none =>
        if isDigitC c then
          -- digits with at most one full stop
          let d1 := cs.takeWhile isDigitC
          let r1 := cs.dropWhile isDigitC
          match r1 with
          | '.' :: r2 =>
            let d2 := r2.takeWhile isDigitC
            tokenizeGo f (r2.dropWhile isDigitC) none (String.ofList (c :: d1 ++ '.' :: d2) :: acc)
          | _ => tokenizeGo f r1 none (String.ofList (c :: d1) :: acc)
        else tokenizeGo f cs (some [c]) acc

def tokenize (s : List Char) : Except TokErr (List String) :=
  tokenizeGo (s.length + 1) s none []

def nameKind (s : String) : NameKind :=
  if s = "div" then .div else if s = "mod" then .mod else if s = "and" then .and
  else if s = "or" then .or else .other

/-- raw token strings -> `Tok`s with payloads.  `idx` = queue index of the head token (already shifted),
`nnum` = number literals so far. -/
def annotate : List String → Nat → Nat → Option (List Tok)
  | [], _, _ => some []
  | t :: ts, idx, nnum =>
    match t.toList with
    | [] => none
    | c :: cs =>
      if c = '"' ∨ c = '\'' then (annotate ts (idx + 1) nnum).map (Tok.lit idx :: ·)
      else if isDigitC c ∨ (c = '.' ∧ (cs.head?.map isDigitC).getD false) then
        (annotate ts (idx + 1) (nnum + 1)).map (Tok.num nnum idx :: ·)
      else if c = '$' then
        match ts with
        | n :: ts' =>
          if (n.toList.head?.map fun d => isLetterC d || d == '_').getD false then
            -- '$' at idx, inserted "" at idx+1, the name at idx+2
            (annotate ts' (idx + 3) nnum).map (Tok.var (idx + 1) (idx + 2) :: ·)
          else none
        | [] => none
      else if isLetterC c ∨ c = '_' then (annotate ts (idx + 1) nnum).map (Tok.name (nameKind t) idx :: ·)
      else
        let sym : Option Tok :=
          if t = "*" then some .star else if t = "(" then some .lpar else if t = ")" then some .rpar
          else if t = "-" then some .minus else if t = "+" then some .plus else if t = "=" then some .eq
          else if t = "!" then some .bang else if t = "<" then some .lt else if t = ">" then some .gt
          else if t = "|" then some .bar else if t = "!=" then some .neq else if t = "<=" then some .leq
          else if t = ">=" then some .geq else none
        match sym with
        | some k => (annotate ts (idx + 1) nnum).map (k :: ·)
        | none => none

end XalanModel.C02
