/-!
# C06 — abstract state of the long-lived objects behind one `XalanTransformer`, and the little
statement language in which `translate/c06_reset.py` re-emits `reset()` & co. on every run.

Every data member of `XalanTransformer`, `StylesheetExecutionContextDefault` (with its nested
`XPathExecutionContextDefault` and `VariablesStack`) and of the per-call `XSLTEngineImpl` is one
*member id* (`Nat`, index into `Generated.C06.memberNames`).  Its abstract value is a `Val`:
a pointer (0 = null, 1 = "some object"), a flag, a number, or a sequence (contents of a
vector / map / arena / cache; only its emptiness/sentinels matter).

The statements are exactly the forms that occur in the bodies read by the translator:

* `m_x.clear()`, `m_x.reset()`, `m_x = literal`            → `set v`
* `m_x.push_back(sentinel)`                                → `push x`
* `m_objStack.reset()` of `XalanObjectStackCache` *as written* (no-op) → `keep`
* `while (m_stack.empty() == false) pop();` of `VariablesStack::reset`, where `pop()` decrements
  `m_currentStackFrameIndex` when it equals the size                     → `popLoop idx`
* `if (m_p != 0) { … }`                                    → `guard := some p` on each inner statement

Core Lean only (the driver links this file).
-/
namespace XalanModel.C06

inductive Val where
  | ptr (n : Nat)
  | flag (b : Bool)
  | num (i : Int)
  | seq (l : List Nat)
deriving DecidableEq, Repr, Inhabited

inductive Kind where
  | ref | ptr | flag | num | seq | obj | objstack
deriving DecidableEq, Repr

inductive Role where
  | transient | perCall | sticky | config | cache | perCallObject | const | guarded | unclassified
deriving DecidableEq, Repr

inductive Act where
  | set (v : Val)
  | push (x : Nat)
  | keep
  | popLoop (idx : Nat)
deriving DecidableEq, Repr

structure Stmt where
  guard : Option Nat
  target : Nat
  act : Act
deriving DecidableEq, Repr

abbrev State := Nat → Val

def upd (s : State) (m : Nat) (v : Val) : State := fun k => if k = m then v else s k

def Val.items : Val → List Nat
  | .seq l => l
  | _ => []

def Val.int : Val → Int
  | .num i => i
  | _ => 0

/-- `VariablesStack::pop()` run from a stack of `n` entries down to empty:
`if (m_currentStackFrameIndex == m_stack.size()) --m_currentStackFrameIndex; m_stack.pop_back();` -/
def popIdx : Nat → Int → Int
  | 0, i => i
  | n + 1, i => popIdx n (if i = ((n + 1 : Nat) : Int) then i - 1 else i)

def applyAct (s : State) (t : Nat) : Act → State
  | .set v => upd s t v
  | .push x => upd s t (.seq ((s t).items ++ [x]))
  | .keep => s
  | .popLoop idx => upd (upd s idx (.num (popIdx (s t).items.length (s idx).int))) t (.seq [])

/-- one statement, as written: the guard is a null test on a pointer member -/
def execSpec (s : State) (st : Stmt) : State :=
  match st.guard with
  | none => applyAct s st.target st.act
  | some p => if s p = .ptr 0 then s else applyAct s st.target st.act

/-- members a statement can write -/
def touchedBy (st : Stmt) : List Nat :=
  match st.act with
  | .keep => []
  | .popLoop idx => [st.target, idx]
  | _ => [st.target]

/-- `execSpec`, evaluated lazily per member: a member the statement cannot write is read from the old state
without looking at the guard (same function -- `exec_eq_execSpec` -- but the compiled driver then needs time
linear, not exponential, in the number of guarded statements) -/
def exec (s : State) (st : Stmt) : State := fun k =>
  if (touchedBy st).contains k then execSpec s st k else s k

def run (stmts : List Stmt) (s : State) : State := stmts.foldl exec s

/-! ## A sound static analysis: which members have a value that does not depend on the start state -/

/-- known facts `member ↦ value` -/
abbrev AEnv := List (Nat × Val)

def lk (m : Nat) : AEnv → Option Val
  | [] => none
  | (k, v) :: r => if k = m then some v else lk m r

def forget (m : Nat) : AEnv → AEnv
  | [] => []
  | (k, v) :: r => if k = m then forget m r else (k, v) :: forget m r

def know (m : Nat) (v : Val) (e : AEnv) : AEnv := (m, v) :: forget m e

def aAct (e : AEnv) (t : Nat) : Act → AEnv
  | .set v => know t v e
  | .push x =>
    match lk t e with
    | some v => know t (.seq (v.items ++ [x])) e
    | none => forget t e
  | .keep => e
  | .popLoop idx =>
    match lk t e, lk idx e with
    | some v, some w => know t (.seq []) (know idx (.num (popIdx v.items.length w.int)) e)
    | _, _ => know t (.seq []) (forget idx e)

/-- the statement may or may not have run -/
def aHavoc (e : AEnv) (t : Nat) : Act → AEnv
  | .keep => e
  | .popLoop idx => forget t (forget idx e)
  | _ => forget t e

def aExec (e : AEnv) (st : Stmt) : AEnv :=
  match st.guard with
  | none => aAct e st.target st.act
  | some p =>
    match lk p e with
    | some v => if v = .ptr 0 then e else aAct e st.target st.act
    | none => aHavoc e st.target st.act

def aRun (stmts : List Stmt) (e : AEnv) : AEnv := stmts.foldl aExec e

/-- members a statement list can write -/
def touched (stmts : List Stmt) : List Nat := stmts.flatMap touchedBy

/-- state from a table of values (member id = position); out of range: null pointer -/
def ofList (l : List Val) : State := fun k => l.getD k (.ptr 0)

/-- all entries of a table as known facts -/
def envOfList (l : List Val) : AEnv := (List.range l.length).map fun k => (k, l.getD k (.ptr 0))

/-- ids of the members having one of the given roles -/
def idsWith (roles : List Role) (p : Role → Bool) : List Nat :=
  (List.range roles.length).filter fun k => p (roles.getD k .unclassified)

end XalanModel.C06
