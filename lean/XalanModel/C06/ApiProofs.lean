import XalanModel.C06.Api
import XalanModel.C06.StmtProofs
/-!
Helper lemmas for C06 at the level of the generated tables and of the API state machine.
The only facts taken from `Generated.C06_Reset` are closed, decidable checks over the *complete*
statement / member tables (`by decide`), lifted to all states by the soundness lemmas of
`StmtProofs`.
-/
namespace XalanModel.C06
open XalanModel.Generated.C06

def freshState : State := ofList freshVals

/-- the first statement of `~EnsureReset` is the pop loop of `VariablesStack::reset` -/
def popStmt : Stmt := ⟨none, vsStack, .popLoop vsIndex⟩

/-- what is known after the pop loop ran from a state satisfying `MidOk` -/
def afterPop : AEnv := [(vsStack, .seq []), (vsIndex, .num 0)]

/-- closed check 1: shape of the generated list -/
def headIsPop : Bool := ensureReset.head? == some popStmt

/-- closed check 2: after `~EnsureReset` every transient member is determined and equals its freshly
constructed value -/
def transientDetermined : Bool :=
  transientIds.all fun m => lk m (aRun ensureReset.tail afterPop) == some (freshVals.getD m (.ptr 0))

/-- closed check 3: after `~EnsureReset` followed by the next call's set-up, every member the interpreter
starts from is determined and equals what set-up yields on a freshly constructed transformer -/
def startDetermined : Bool :=
  startIds.all fun m =>
    (lk m (aRun (ensureReset.tail ++ setup) afterPop)).isSome &&
    lk m (aRun (ensureReset.tail ++ setup) afterPop) == lk m (aRun setup (envOfList freshVals))

/-- closed check 4: nothing in set-up or reset writes a sticky / configuration / constant member -/
def keptUntouched : Bool :=
  keptIds.all fun m => !(touched (setup ++ ensureReset)).contains m

theorem run_append (a b : List Stmt) (s : State) : run (a ++ b) s = run b (run a s) := by
  simp [run, List.foldl_append]

theorem agree_afterPop (s : State) (h : MidOk s) : Agree afterPop (exec s popStmt) := by
  intro m v hm
  simp only [afterPop, lk] at hm
  by_cases h1 : vsStack = m
  · simp only [h1, if_true] at hm
    cases hm
    subst h1
    simp [exec_eq_execSpec, execSpec, popStmt, applyAct, upd]
  · simp only [h1, if_false] at hm
    by_cases h2 : vsIndex = m
    · simp only [h2, if_true] at hm
      cases hm
      have hne : ¬ vsIndex = vsStack := fun x => h1 (x ▸ h2)
      subst h2
      have := popIdx_le (s vsStack).items.length (s vsIndex).int h.1 h.2
      simp [exec_eq_execSpec, execSpec, popStmt, applyAct, upd, hne, this]
    · simp [h2] at hm

theorem ensureReset_split (hh : headIsPop = true) : ensureReset = popStmt :: ensureReset.tail := by
  unfold headIsPop at hh
  cases h : ensureReset with
  | nil => rw [h] at hh; simp at hh
  | cons a r =>
    rw [h] at hh
    simp only [List.head?_cons, beq_iff_eq, Option.some.injEq] at hh
    simp [hh]

theorem run_ensureReset (hh : headIsPop = true) (s : State) :
    run ensureReset s = run ensureReset.tail (exec s popStmt) := by
  conv => lhs; rw [ensureReset_split hh]
  simp [run]

/-- lifting closed check 2 -/
theorem reset_restores_of_checks (hh : headIsPop = true) (hd : transientDetermined = true)
    (s : State) (hs : MidOk s) (m : Nat) (hm : m ∈ transientIds) :
    run ensureReset s m = freshState m := by
  rw [run_ensureReset hh]
  have := List.all_eq_true.mp hd m hm
  simp only [beq_iff_eq] at this
  exact determined ensureReset.tail afterPop _ (agree_afterPop s hs) m _ this

/-- lifting closed check 3 -/
theorem start_of_checks (hh : headIsPop = true) (hd : startDetermined = true)
    (s : State) (hs : MidOk s) (m : Nat) (hm : m ∈ startIds) :
    run setup (run ensureReset s) m = run setup freshState m := by
  rw [run_ensureReset hh, ← run_append]
  have := List.all_eq_true.mp hd m hm
  simp only [Bool.and_eq_true, beq_iff_eq] at this
  obtain ⟨h1, h2⟩ := this
  cases hv : lk m (aRun (ensureReset.tail ++ setup) afterPop) with
  | none => rw [hv] at h1; simp at h1
  | some v =>
    rw [determined _ afterPop _ (agree_afterPop s hs) m v hv]
    rw [hv] at h2
    exact (determined setup (envOfList freshVals) freshState (agree_envOfList freshVals) m v h2.symm).symm

/-- lifting closed check 4 -/
theorem kept_of_checks (hk : keptUntouched = true) (s : State) (m : Nat) (hm : m ∈ keptIds) :
    run (setup ++ ensureReset) s m = s m := by
  have := List.all_eq_true.mp hk m hm
  simp only [Bool.not_eq_true', List.contains_eq_mem, decide_eq_false_iff_not] at this
  exact run_frame _ s m this

/-! ### API level -/

/-- the member state is what a fresh transformer would start a transformation from -/
def Clean (mem : State) : Prop := view (run setup mem) = view (run setup freshState)

theorem clean_fresh : Clean freshState := rfl

theorem view_congr (f g : State) (h : ∀ m ∈ startIds, f m = g m) : view f = view g :=
  List.map_congr_left h

theorem midOk_havoc (hv : (volatileIds.contains vsIndex && volatileIds.contains vsStack) = true)
    (cur mid : State) (h : MidOk mid) : MidOk (havoc cur mid) := by
  simp only [Bool.and_eq_true] at hv
  unfold MidOk havoc
  simp only [hv.1, hv.2, if_true]
  exact h

theorem clean_afterTransform (hh : headIsPop = true) (hd : startDetermined = true)
    (hv : (volatileIds.contains vsIndex && volatileIds.contains vsStack) = true)
    (t : Tx) (mid : State) (hm : MidOk mid) : Clean (afterTransform t mid).mem := by
  unfold Clean afterTransform
  apply view_congr
  intro m hmem
  exact start_of_checks hh hd _ (midOk_havoc hv _ _ hm) m hmem

/-- relation between the reused transformer and the specification state -/
structure Sim (t : Tx) (s : Spec) : Prop where
  clean : Clean t.mem
  params : t.params = s.params
  funcs : t.funcs = s.funcs
  gfuncs : t.gfuncs = s.gfuncs
  config : t.config = s.config
  sheets : t.sheets = s.sheets
  sources : t.sources = s.sources

theorem observe_sim {t : Tx} {s : Spec} (h : Sim t s) (a b : Option String) :
    observe t a b = observe s.fresh a b := by
  unfold observe
  have hc : view (run setup t.mem) = view (run setup s.fresh.mem) := h.clean
  simp only [hc, h.params, h.funcs, h.gfuncs, h.config, Spec.fresh]

theorem step_sim (hh : headIsPop = true) (hd : startDetermined = true)
    (hv : (volatileIds.contains vsIndex && volatileIds.contains vsStack) = true)
    {t : Tx} {s : Spec} (h : Sim t s) (op : Op) (hop : op.MidOk) :
    Sim (step t op).1 (s.step op).1 ∧ (step t op).2 = (s.step op).2 := by
  obtain ⟨hc, hp, hf, hg, hcf, hs, hso⟩ := h
  have hsim : Sim t s := ⟨hc, hp, hf, hg, hcf, hs, hso⟩
  cases op with
  | compile slot sheet ok =>
    cases ok <;> simp [step, Spec.step, Spec.fresh, Tx.init, hs] <;> exact ⟨hc, hp, hf, hg, hcf, by simp [hs], hso⟩
  | parse slot src ok =>
    cases ok <;> simp [step, Spec.step, Spec.fresh, Tx.init, hso] <;> exact ⟨hc, hp, hf, hg, hcf, hs, by simp [hso]⟩
  | setParamExpr k e =>
    simp only [step, Spec.step, Spec.fresh, and_true]
    exact ⟨hc, by simp [hp], hf, hg, hcf, hs, hso⟩
  | setParamNum k v =>
    simp only [step, Spec.step, Spec.fresh, and_true]
    exact ⟨hc, by simp [hp], hf, hg, hcf, hs, hso⟩
  | clearParams =>
    simp only [step, Spec.step, Spec.fresh, and_true]
    exact ⟨hc, rfl, hf, hg, hcf, hs, hso⟩
  | install f i =>
    simp only [step, Spec.step, Spec.fresh, and_true]
    exact ⟨hc, hp, by simp [hf], hg, hcf, hs, hso⟩
  | uninstall f =>
    simp only [step, Spec.step, Spec.fresh, and_true]
    exact ⟨hc, hp, by simp [hf], hg, hcf, hs, hso⟩
  | ginstall f i =>
    simp only [step, Spec.step, Spec.fresh, and_true]
    exact ⟨hc, hp, hf, by simp [hg], hcf, hs, hso⟩
  | guninstall f =>
    simp only [step, Spec.step, Spec.fresh, and_true]
    exact ⟨hc, hp, hf, by simp [hg], hcf, hs, hso⟩
  | config n v =>
    simp only [step, Spec.step, Spec.fresh, and_true]
    exact ⟨hc, hp, hf, hg, by simp [hcf], hs, hso⟩
  | destroySheet slot =>
    simp only [step, Spec.step, Spec.fresh, hs]
    cases s.sheets.lookup slot with
    | none => exact ⟨⟨hc, hp, hf, hg, hcf, hs, hso⟩, rfl⟩
    | some x => exact ⟨⟨hc, hp, hf, hg, hcf, by simp [hs], hso⟩, rfl⟩
  | destroySource slot =>
    simp only [step, Spec.step, Spec.fresh, hso]
    cases s.sources.lookup slot with
    | none => exact ⟨⟨hc, hp, hf, hg, hcf, hs, hso⟩, rfl⟩
    | some x => exact ⟨⟨hc, hp, hf, hg, hcf, hs, by simp [hso]⟩, rfl⟩
  | transform sheet src mid =>
    simp only [step, Spec.step, hs, hso]
    cases s.sheets.lookup sheet with
    | none => exact ⟨hsim, rfl⟩
    | some sh =>
      cases s.sources.lookup src with
      | none => exact ⟨hsim, rfl⟩
      | some so =>
        refine ⟨⟨clean_afterTransform hh hd hv t mid hop, hp, hf, hg, hcf, hs, hso⟩, ?_⟩
        simp only [observe_sim hsim]
  | transformSrc sheet src mid =>
    simp only [step, Spec.step]
    refine ⟨⟨clean_afterTransform hh hd hv t mid hop, hp, hf, hg, hcf, hs, hso⟩, ?_⟩
    simp only [observe_sim hsim]

theorem runOps_sim (hh : headIsPop = true) (hd : startDetermined = true)
    (hv : (volatileIds.contains vsIndex && volatileIds.contains vsStack) = true)
    (ops : List Op) {t : Tx} {s : Spec} (h : Sim t s) (hops : ∀ op ∈ ops, op.MidOk) :
    Sim (runOps t ops).1 (s.runOps ops).1 ∧ (runOps t ops).2 = (s.runOps ops).2 := by
  induction ops generalizing t s with
  | nil => exact ⟨h, rfl⟩
  | cons op ops ih =>
    have h1 := step_sim hh hd hv h op (hops op (List.mem_cons_self))
    have h2 := ih h1.1 (fun o ho => hops o (List.mem_cons_of_mem _ ho))
    simp only [runOps, Spec.runOps]
    exact ⟨h2.1, by rw [h1.2, h2.2]⟩

theorem sim_init : Sim Tx.init Spec.init := ⟨clean_fresh, rfl, rfl, rfl, rfl, rfl, rfl⟩

/-! ### members restored by scope guards -/

/-- closed check 5: no statement of set-up / reset writes a guarded member, and the interpreter model (`havoc`)
does not treat it as volatile -/
def guardedUntouched : Bool :=
  guardedIds.all fun m =>
    !(touched setup).contains m && !(touched ensureReset).contains m && !volatileIds.contains m

theorem afterTransform_guarded (hk : guardedUntouched = true) (t : Tx) (mid : State) (m : Nat) (hm : m ∈ guardedIds) :
    (afterTransform t mid).mem m = t.mem m := by
  have := List.all_eq_true.mp hk m hm
  simp only [Bool.and_eq_true, Bool.not_eq_true', List.contains_eq_mem, decide_eq_false_iff_not] at this
  obtain ⟨⟨h1, h2⟩, h3⟩ := this
  unfold afterTransform
  simp only
  rw [run_frame ensureReset _ m h2]
  have hv : volatileIds.contains m = false := by simpa using h3
  simp only [havoc, hv]
  exact run_frame setup _ m h1

theorem step_guarded (hk : guardedUntouched = true) (t : Tx) (op : Op) (m : Nat) (hm : m ∈ guardedIds) :
    (step t op).1.mem m = t.mem m := by
  cases op with
  | compile slot sheet ok => cases ok <;> rfl
  | parse slot src ok => cases ok <;> rfl
  | destroySheet slot => simp only [step]; cases t.sheets.lookup slot <;> rfl
  | destroySource slot => simp only [step]; cases t.sources.lookup slot <;> rfl
  | transform a b mid =>
    simp only [step]
    cases t.sheets.lookup a with
    | none => rfl
    | some _ =>
      cases t.sources.lookup b with
      | none => rfl
      | some _ => exact afterTransform_guarded hk t mid m hm
  | transformSrc a b mid => exact afterTransform_guarded hk t mid m hm
  | _ => rfl

theorem runOps_guarded (hk : guardedUntouched = true) (ops : List Op) (t : Tx) (m : Nat) (hm : m ∈ guardedIds) :
    (runOps t ops).1.mem m = t.mem m := by
  induction ops generalizing t with
  | nil => rfl
  | cons op ops ih =>
    simp only [runOps]
    rw [ih (step t op).1]
    exact step_guarded hk t op m hm

/-! ### parameters -/

theorem putA_lookup_same {β : Type} (ps : List (String × β)) (k : String) (h : β) : (putA ps k h).lookup k = some h := by
  induction ps with
  | nil => simp [putA, List.lookup]
  | cons p r ih =>
    obtain ⟨k', h'⟩ := p
    by_cases hk : k' = k
    · simp [putA, hk, List.lookup]
    · have : (k == k') = false := by simp; exact fun x => hk x.symm
      simp [putA, hk, List.lookup, this, ih]

theorem putA_lookup_other {β : Type} (ps : List (String × β)) (k j : String) (h : β) (hj : j ≠ k) :
    (putA ps k h).lookup j = ps.lookup j := by
  induction ps with
  | nil =>
    have : (j == k) = false := by simp [hj]
    simp [putA, List.lookup, this]
  | cons p r ih =>
    obtain ⟨k', h'⟩ := p
    by_cases hk : k' = k
    · subst hk
      have : (j == k') = false := by simp [hj]
      simp [putA, List.lookup, this]
    · by_cases hjk : j = k'
      · subst hjk; simp [putA, hk, List.lookup]
      · have : (j == k') = false := by simp [hjk]
        simp [putA, hk, List.lookup, this, ih]

theorem put_lookup_same (ps : ParamMap) (k : String) (h : Holder) : (ps.put k h).lookup k = some h :=
  putA_lookup_same ps k h

theorem put_lookup_other (ps : ParamMap) (k j : String) (h : Holder) (hj : j ≠ k) :
    (ps.put k h).lookup j = ps.lookup j := putA_lookup_other ps k j h hj

theorem removeA_lookup {β : Type} (l : List (String × β)) (k j : String) :
    (removeA l k).lookup j = if j = k then none else l.lookup j := by
  induction l with
  | nil => simp [removeA, List.lookup]
  | cons p r ih =>
    obtain ⟨a, b⟩ := p
    simp only [removeA] at ih
    by_cases hak : a = k
    · subst hak
      by_cases hj : j = a
      · subst hj; simp [removeA, List.lookup, ih]
      · have h1 : (j == a) = false := by simp [hj]
        simp [removeA, List.lookup, h1, ih, hj]
    · by_cases hj : j = a
      · subst hj
        have : ¬ j = k := hak
        simp [removeA, List.lookup, hak, this]
      · have h1 : (j == a) = false := by simp [hj]
        simp [removeA, List.lookup, hak, h1, ih]

/-- one configuration operation acts on the lookup of every key as `lastWrite` says -/
theorem applyC_lookup (m : List (String × String)) (op : COp) (k : String) :
    (applyC m op).lookup k = lastWrite k (m.lookup k) op := by
  cases op with
  | set k' v =>
    by_cases h : k' = k
    · subst h; simp [applyC, lastWrite, putA_lookup_same]
    · have : k ≠ k' := fun x => h x.symm
      simp [applyC, lastWrite, h, putA_lookup_other _ _ _ _ this]
  | remove k' =>
    by_cases h : k' = k
    · subst h; simp [applyC, lastWrite, removeA_lookup]
    · have : ¬ k = k' := fun x => h x.symm
      simp [applyC, lastWrite, h, removeA_lookup, this]

theorem foldl_applyC_lookup (ops : List COp) (m : List (String × String)) (k : String) :
    (ops.foldl applyC m).lookup k = ops.foldl (lastWrite k) (m.lookup k) := by
  induction ops generalizing m with
  | nil => rfl
  | cons op r ih =>
    simp only [List.foldl_cons]
    rw [ih, applyC_lookup]

theorem effectiveAll_put (ps : ParamMap) (k : String) (h : Holder) :
    effectiveAll (ps.put k h) = putA (effectiveAll ps) k h.effective := by
  induction ps with
  | nil => rfl
  | cons p r ih =>
    obtain ⟨k', h'⟩ := p
    by_cases hk : k' = k
    · simp [ParamMap.put, putA, effectiveAll, hk]
    · simp only [ParamMap.put, effectiveAll] at ih
      simp [ParamMap.put, putA, effectiveAll, hk, ih]

/-- a parameter operation whose expression is not the empty string (the empty expression means "use the
object" to doTransform, XalanTransformer.cpp:1352) -/
def POp.NonEmpty : POp → Prop
  | .expr _ e => e.length > 0
  | _ => True

theorem applyP_spec (ps : ParamMap) (op : POp) (h : op.NonEmpty) :
    effectiveAll (applyP true ps op) = specP (effectiveAll ps) op := by
  cases op with
  | expr k e =>
    have he : e.length > 0 := h
    simp [applyP, specP, setExpr, effectiveAll_put, Holder.effective, he]
  | num k v => simp [applyP, specP, setObj, effectiveAll_put, Holder.effective]
  | clear => rfl

theorem foldl_applyP_spec (ops : List POp) (ps : ParamMap) (h : ∀ op ∈ ops, op.NonEmpty) :
    effectiveAll (ops.foldl (applyP true) ps) = ops.foldl specP (effectiveAll ps) := by
  induction ops generalizing ps with
  | nil => rfl
  | cons op r ih =>
    simp only [List.foldl_cons]
    rw [ih _ (fun o ho => h o (List.mem_cons_of_mem _ ho)), applyP_spec ps op (h op List.mem_cons_self)]

end XalanModel.C06
