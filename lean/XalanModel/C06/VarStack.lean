/-!
# C06 — `VariablesStack`: the two members `reset()` does not assign directly

`m_stack` (only its size matters here) and `m_currentStackFrameIndex`, with the operations that
write them (VariablesStack.cpp:152-186, VariablesStack.hpp:260-271):

* `push(entry)` : `if (idx == size) ++idx;  m_stack.push_back(entry);`
* `pop()`       : `if (idx == size) --idx;  m_stack.pop_back();`
* `setCurrentStackFrameIndex(k)` : `idx = (k == ~0u) ? size : k`
* `reset()`     : `while (!m_stack.empty()) pop();`  (then clears the other containers)

The index is a frame *inside* the stack: every caller passes either `~0u` or a value it obtained from
`getCurrentStackFrameIndex()` / `getGlobalStackFrameIndex()` while the stack was at least as high
(`StylesheetExecutionContextDefault::push/popCurrentStackFrameIndex`, ElemAttributeSet.cpp:129-141).
That call discipline (`k ≤ size`) is the hypothesis of `Ops.inv`; it is modelled, not verified.
Core Lean only.
-/
namespace XalanModel.C06

structure VarStack where
  size : Nat
  idx : Nat
deriving DecidableEq, Repr

inductive VOp where
  | push
  | pop
  | setIdx (k : Option Nat)     -- `none` = `~0u`
deriving DecidableEq, Repr

def VarStack.step (v : VarStack) : VOp → VarStack
  | .push => { size := v.size + 1, idx := if v.idx = v.size then v.idx + 1 else v.idx }
  | .pop => { size := v.size - 1, idx := if v.idx = v.size then v.idx - 1 else v.idx }
  | .setIdx none => { v with idx := v.size }
  | .setIdx (some k) => { v with idx := k }

/-- `while (m_stack.empty() == false) pop();` -/
def VarStack.popAll : Nat → VarStack → VarStack
  | 0, v => v
  | n + 1, v => VarStack.popAll n (v.step .pop)

def VarStack.reset (v : VarStack) : VarStack := VarStack.popAll v.size v

def VarStack.Inv (v : VarStack) : Prop := v.idx ≤ v.size

/-- an operation respecting the call discipline in state `v` -/
def VOp.Ok (v : VarStack) : VOp → Prop
  | .push => True
  | .pop => 0 < v.size
  | .setIdx none => True
  | .setIdx (some k) => k ≤ v.size

def VOp.ok (v : VarStack) : VOp → Bool
  | .push => true
  | .pop => 0 < v.size
  | .setIdx none => true
  | .setIdx (some k) => k ≤ v.size

/-- run a sequence of operations; `none` as soon as one breaks the call discipline -/
def VarStack.runOps : VarStack → List VOp → Option VarStack
  | v, [] => some v
  | v, op :: ops => if op.ok v then VarStack.runOps (v.step op) ops else none

/-! ## The interpreter's use of the stack: properly nested blocks

Every `ElemTemplateElement::startElement` that pushes has its `endElement` that pops (the iterative walker
calls them in pairs; C01's walker model), so one transformation is a *block program*:

* `var`            — a variable / param entry is pushed (`pushVariable`, `pushParams`); it stays until the
                     enclosing frame is popped;
* `frame body`     — `pushContextMarker` / `pushElementFrame`, the body, then `popContextMarker` /
                     `popElementFrame`, which pop down to and including the marker;
* `withIdx k body` — `pushCurrentStackFrameIndex(k)`, the body, `popCurrentStackFrameIndex()` restoring the
                     saved index (StylesheetExecutionContextDefault.cpp:912-932; `k` is `~0u`, the global frame
                     index or an index read earlier, all ≤ the current size — `Block.WF`).

An exception may leave the block program at any point: the abort states are the states after every *prefix*
of `Block.ops`. -/
inductive Block where
  | skip
  | seq (a b : Block)
  | var
  | frame (body : Block)
  | withIdx (k : Option Nat) (body : Block)
deriving Repr

def VarStack.steps (v : VarStack) (ops : List VOp) : VarStack := ops.foldl VarStack.step v

/-- the operation sequence a block performs from state `v`, and the state it ends in -/
def Block.ops : Block → VarStack → List VOp × VarStack
  | .skip, v => ([], v)
  | .seq a b, v =>
    let ra := a.ops v
    let rb := b.ops ra.2
    (ra.1 ++ rb.1, rb.2)
  | .var, v => ([.push], v.step .push)
  | .frame body, v =>
    let rb := body.ops (v.step .push)
    let pops := List.replicate (rb.2.size - v.size) VOp.pop
    (.push :: (rb.1 ++ pops), rb.2.steps pops)
  | .withIdx k body, v =>
    let rb := body.ops (v.step (.setIdx k))
    (.setIdx k :: (rb.1 ++ [.setIdx (some v.idx)]), rb.2.step (.setIdx (some v.idx)))

/-- explicit indices handed to `pushCurrentStackFrameIndex` lie within the stack -/
def Block.WF : Block → VarStack → Prop
  | .skip, _ => True
  | .var, _ => True
  | .seq a b, v => a.WF v ∧ b.WF (a.ops v).2
  | .frame body, v => body.WF (v.step .push)
  | .withIdx k body, v => (match k with | none => True | some j => j ≤ v.size) ∧ body.WF (v.step (.setIdx k))

/-- **Interface with C01** (design/C01.md §3, `XalanModel.Props.C01.walker_eq_recursion` and `variables_balanced`).
C01 proves for its walker model that the iterative `ElemTemplateElement::execute` loop produces exactly the trace of the
recursive traversal and leaves the invoker / node-list stacks as they were — *every `startElement` has its
`endElement`, properly nested* — and that whatever a template instance pushes after its context marker is given back by
`popContextMarker`.  C06 takes that statement as a hypothesis in this form: the variables-stack operations of one
transformation are `Block.ops` of a block program `block`, and the explicit indices it passes to
`pushCurrentStackFrameIndex` lie within the stack (`wf`).  Nothing else about the interpreter is assumed by
`interpreter_abort_states_midok`. -/
structure WalkerPairing where
  block : Block
  wf : block.WF ⟨0, 0⟩

end XalanModel.C06
