/-!
# C06 — `VariablesStack`: the two members `reset()` does not assign directly

`m_stack` (only its size matters here) and `m_currentStackFrameIndex`, with the operations that
write them (VariablesStack.cpp:152-186, VariablesStack.hpp:260-271):

* `push(entry)` : `if (idx == size) ++idx;  m_stack.push_back(entry);`
* `pop()`       : `if (idx == size) --idx;  m_stack.pop_back();`
* `setCurrentStackFrameIndex(k)` : `idx = (k == ~0u) ? size : k`
* `reset()`     : `while (!m_stack.empty()) pop();`  (then clears the other containers)

The index is a frame *inside* the stack: every caller passes either `~0u` or a value it obtained from
`getCurrentStackFrameIndex()` / `getGlobalStackFrameIndex()` while the stack was at least as high
(`StylesheetExecutionContextDefault::push/popCurrentStackFrameIndex`, ElemAttributeSet.cpp:129-141).
That call discipline (`k ≤ size`) is the hypothesis of `Ops.inv`; it is modelled, not verified.
Core Lean only.
-/
namespace XalanModel.C06

structure VarStack where
  size : Nat
  idx : Nat
deriving DecidableEq, Repr

inductive VOp where
  | push
  | pop
  | setIdx (k : Option Nat)     -- `none` = `~0u`
deriving DecidableEq, Repr

def VarStack.step (v : VarStack) : VOp → VarStack
  | .push => { size := v.size + 1, idx := if v.idx = v.size then v.idx + 1 else v.idx }
  | .pop => { size := v.size - 1, idx := if v.idx = v.size then v.idx - 1 else v.idx }
  | .setIdx none => { v with idx := v.size }
  | .setIdx (some k) => { v with idx := k }

/-- `while (m_stack.empty() == false) pop();` -/
def VarStack.popAll : Nat → VarStack → VarStack
  | 0, v => v
  | n + 1, v => VarStack.popAll n (v.step .pop)

def VarStack.reset (v : VarStack) : VarStack := VarStack.popAll v.size v

def VarStack.Inv (v : VarStack) : Prop := v.idx ≤ v.size

/-- an operation respecting the call discipline in state `v` -/
def VOp.Ok (v : VarStack) : VOp → Prop
  | .push => True
  | .pop => 0 < v.size
  | .setIdx none => True
  | .setIdx (some k) => k ≤ v.size

def VOp.ok (v : VarStack) : VOp → Bool
  | .push => true
  | .pop => 0 < v.size
  | .setIdx none => true
  | .setIdx (some k) => k ≤ v.size

/-- run a sequence of operations; `none` as soon as one breaks the call discipline -/
def VarStack.runOps : VarStack → List VOp → Option VarStack
  | v, [] => some v
  | v, op :: ops => if op.ok v then VarStack.runOps (v.step op) ops else none

end XalanModel.C06
