import XalanModel.C06.Stmt
/-!
# C06 — members restored by C++ scope guards (`CollectionClearGuard`), not by `reset()`

A tiny language of interpreter code acting on such members, with exceptions:

* `mutate m v` — the code writes member `m`;
* `throw`      — an exception leaves the enclosing code;
* `seq a b`    — `a; b` (`b` is skipped when `a` throws);
* `scope gs body` — a block that holds a `CollectionClearGuard` on each member in `gs`: the guards' destructors
  run on *both* exits and clear those members, then the outcome of the body propagates.

`Prog.Guarded m p` = every mutation of `m` in `p` lies inside a scope that guards `m` — what
`translate/c06_reset.py` checks at each site it finds (`Generated.C06.guardSites`).
Core Lean only.
-/
namespace XalanModel.C06

inductive Prog where
  | mutate (m : Nat) (v : Val)
  | throw
  | seq (a b : Prog)
  | scope (guards : List Nat) (body : Prog)

inductive Outcome where
  | normal
  | thrown
deriving DecidableEq, Repr

def clearAll (gs : List Nat) (s : State) : State := gs.foldl (fun st g => upd st g (.seq [])) s

def Prog.exec : Prog → State → State × Outcome
  | .mutate m v, s => (upd s m v, .normal)
  | .throw, s => (s, .thrown)
  | .seq a b, s =>
    match a.exec s with
    | (s', .normal) => b.exec s'
    | r => r
  | .scope gs body, s =>
    let r := body.exec s
    (clearAll gs r.1, r.2)

def Prog.Guarded (m : Nat) : Prog → Bool
  | .mutate k _ => k != m
  | .throw => true
  | .seq a b => a.Guarded m && b.Guarded m
  | .scope gs body => gs.contains m || body.Guarded m

theorem clearAll_mem (gs : List Nat) (s : State) (m : Nat) (h : m ∈ gs) : clearAll gs s m = .seq [] := by
  induction gs generalizing s with
  | nil => cases h
  | cons g r ih =>
    simp only [clearAll, List.foldl_cons]
    by_cases hm : m ∈ r
    · exact ih _ hm
    · have hg : m = g := by
        cases h with
        | head => rfl
        | tail _ h' => exact absurd h' hm
      subst hg
      -- later clears do not touch m
      have frame : ∀ (l : List Nat) (st : State), m ∉ l → clearAll l st m = st m := by
        intro l
        induction l with
        | nil => intro st _; rfl
        | cons x xs ihx =>
          intro st hx
          simp only [clearAll, List.foldl_cons]
          have h1 : m ∉ xs := fun c => hx (List.mem_cons_of_mem _ c)
          have h2 : m ≠ x := fun c => hx (c ▸ List.mem_cons_self)
          have := ihx (upd st x (.seq [])) h1
          simp only [clearAll] at this
          rw [this]; simp [upd, h2]
      have := frame r (upd s m (.seq [])) hm
      simp only [clearAll] at this
      rw [this]; simp [upd]

theorem clearAll_keeps_empty (gs : List Nat) (s : State) (m : Nat) (h : s m = .seq []) : clearAll gs s m = .seq [] := by
  induction gs generalizing s with
  | nil => exact h
  | cons g r ih =>
    simp only [clearAll, List.foldl_cons]
    apply ih
    by_cases hg : m = g
    · simp [upd, hg]
    · simp [upd, hg, h]

/-- **A member all of whose mutations are scope-guarded is empty again after the code ran — whether it
completed or an exception left it at any point.** -/
theorem Prog.guarded_restores (p : Prog) (m : Nat) (hg : p.Guarded m = true) (s : State) (hs : s m = .seq []) :
    (p.exec s).1 m = .seq [] := by
  induction p generalizing s with
  | mutate k v =>
    simp only [Prog.Guarded, bne_iff_ne, ne_eq] at hg
    have : m ≠ k := fun c => hg c.symm
    simp [Prog.exec, upd, this, hs]
  | throw => exact hs
  | seq a b iha ihb =>
    simp only [Prog.Guarded, Bool.and_eq_true] at hg
    simp only [Prog.exec]
    have ha := iha hg.1 s hs
    cases hr : a.exec s with
    | mk s' o =>
      rw [hr] at ha
      cases o with
      | normal => exact ihb hg.2 s' ha
      | thrown => exact ha
  | scope gs body ih =>
    simp only [Prog.Guarded, Bool.or_eq_true, List.contains_eq_mem, decide_eq_true_eq] at hg
    simp only [Prog.exec]
    cases hg with
    | inl hmem => exact clearAll_mem gs _ m hmem
    | inr hb => exact clearAll_keeps_empty gs _ m (ih hb s hs)

/-- **Hypothesis object for guarded members.**  What `translate/c06_reset.py` establishes syntactically for member `m`
(`Generated.C06.guardSites`: at every site that can mutate `m` a `CollectionClearGuard` on `m` is declared in the same
block before the first mutation, and `m` is reachable only through the enumerated accessors) is, in this model: the
interpreter's code acting on `m` is *some* program `prog` all of whose mutations of `m` are scope-guarded.  The
correspondence C++ block ↔ `Prog.scope` is the translator's; it is not proved. -/
structure GuardedCode (m : Nat) where
  prog : Prog
  guarded : prog.Guarded m = true

/-! ## The scratch QName (`XalanQNameByValue::resolvePrefix`, prefixed branch, XalanQNameByValue.cpp:403-452)

`if (theNamespace != 0) m_namespace = *theNamespace; [else m_namespace.clear();]  if (m_namespace.empty()) throw …;`
on an instance that still holds the previous lookup.  `clears` = is the bracketed `else` present (read from the code by the
translator: `Generated.C06.scratchQNameClearsOnUndeclared`). -/
structure ScratchQName where
  ns : List Nat
  localPart : List Nat
deriving DecidableEq, Repr

inductive Resolved where
  | ok (q : ScratchQName)
  | prefixNotDeclared
deriving DecidableEq, Repr

def resolvePrefixed (clears : Bool) (prev : ScratchQName) (lookup : Option (List Nat)) (lp : List Nat) : Resolved :=
  let ns := match lookup with
    | some u => u
    | none => if clears then [] else prev.ns
  if ns = [] then .prefixNotDeclared else .ok ⟨ns, lp⟩

end XalanModel.C06
