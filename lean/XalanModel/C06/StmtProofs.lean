import XalanModel.C06.Stmt
/-!
Helper lemmas for C06: soundness of the static analysis `aRun` w.r.t. `run`, frame lemma for
untouched members, closed form of the `VariablesStack::pop` loop.
-/
namespace XalanModel.C06

theorem upd_same (s : State) (m : Nat) (v : Val) : upd s m v m = v := by simp [upd]

theorem upd_other (s : State) (m k : Nat) (v : Val) (h : k ≠ m) : upd s m v k = s k := by simp [upd, h]

/-- facts in `e` hold in `s` -/
def Agree (e : AEnv) (s : State) : Prop := ∀ m v, lk m e = some v → s m = v

theorem lk_forget_same (m : Nat) (e : AEnv) : lk m (forget m e) = none := by
  induction e with
  | nil => rfl
  | cons p r ih =>
    obtain ⟨k, v⟩ := p
    by_cases h : k = m
    · simp [forget, h, ih]
    · simp [forget, h, lk, ih]

theorem lk_forget_other (m k : Nat) (e : AEnv) (h : k ≠ m) : lk k (forget m e) = lk k e := by
  induction e with
  | nil => rfl
  | cons p r ih =>
    obtain ⟨j, v⟩ := p
    by_cases hj : j = m
    · subst hj
      have : ¬ j = k := fun x => h x.symm
      simp [forget, lk, this, ih]
    · by_cases hk : j = k
      · subst hk; simp [forget, hj, lk]
      · simp [forget, hj, lk, hk, ih]

theorem lk_know_same (m : Nat) (v : Val) (e : AEnv) : lk m (know m v e) = some v := by simp [know, lk]

theorem lk_know_other (m k : Nat) (v : Val) (e : AEnv) (h : k ≠ m) : lk k (know m v e) = lk k e := by
  have : ¬ m = k := fun x => h x.symm
  simp [know, lk, this, lk_forget_other m k e h]

theorem agree_forget {e : AEnv} {s : State} (m : Nat) (v : Val) (h : Agree e s) :
    Agree (forget m e) (upd s m v) := by
  intro k w hk
  by_cases hkm : k = m
  · subst hkm; rw [lk_forget_same] at hk; cases hk
  · rw [lk_forget_other m k e hkm] at hk
    rw [upd_other s m k v hkm]; exact h k w hk

theorem agree_forget_keep {e : AEnv} {s : State} (m : Nat) (h : Agree e s) : Agree (forget m e) s := by
  intro k w hk
  by_cases hkm : k = m
  · subst hkm; rw [lk_forget_same] at hk; cases hk
  · rw [lk_forget_other m k e hkm] at hk; exact h k w hk

theorem agree_know {e : AEnv} {s : State} (m : Nat) (v : Val) (h : Agree e s) :
    Agree (know m v e) (upd s m v) := by
  intro k w hk
  by_cases hkm : k = m
  · subst hkm; rw [lk_know_same] at hk; cases hk; exact upd_same s k v
  · rw [lk_know_other m k v e hkm] at hk
    rw [upd_other s m k v hkm]; exact h k w hk

theorem aAct_sound {e : AEnv} {s : State} (t : Nat) (a : Act) (h : Agree e s) :
    Agree (aAct e t a) (applyAct s t a) := by
  cases a with
  | set v => exact agree_know t v h
  | push x =>
    simp only [aAct, applyAct]
    cases hl : lk t e with
    | none => exact agree_forget t _ h
    | some v =>
      have : s t = v := h t v hl
      rw [this]; exact agree_know t _ h
  | keep => exact h
  | popLoop idx =>
    simp only [aAct, applyAct]
    cases hl : lk t e with
    | none =>
      exact agree_know t _ (agree_forget idx _ h)
    | some v =>
      cases hi : lk idx e with
      | none => exact agree_know t _ (agree_forget idx _ h)
      | some w =>
        have h1 : s t = v := h t v hl
        have h2 : s idx = w := h idx w hi
        rw [h1, h2]
        exact agree_know t _ (agree_know idx _ h)

theorem aHavoc_sound_run {e : AEnv} {s : State} (t : Nat) (a : Act) (h : Agree e s) :
    Agree (aHavoc e t a) (applyAct s t a) := by
  cases a with
  | set v => exact agree_forget t v h
  | push x => exact agree_forget t _ h
  | keep => exact h
  | popLoop idx => exact agree_forget t _ (agree_forget idx _ h)

theorem aHavoc_sound_skip {e : AEnv} {s : State} (t : Nat) (a : Act) (h : Agree e s) :
    Agree (aHavoc e t a) s := by
  cases a with
  | set v => exact agree_forget_keep t h
  | push x => exact agree_forget_keep t h
  | keep => exact h
  | popLoop idx => exact agree_forget_keep t (agree_forget_keep idx h)

theorem applyAct_frame (s : State) (t : Nat) (a : Act) (m : Nat)
    (h : m ∉ touchedBy ⟨g, t, a⟩) : applyAct s t a m = s m := by
  cases a with
  | set v => simp [touchedBy] at h; exact upd_other s t m v h
  | push x => simp [touchedBy] at h; exact upd_other s t m _ h
  | keep => rfl
  | popLoop idx =>
    simp [touchedBy] at h
    simp only [applyAct]
    rw [upd_other _ t m _ h.1, upd_other _ idx m _ h.2]

theorem exec_eq_execSpec (s : State) (st : Stmt) : exec s st = execSpec s st := by
  funext k
  simp only [exec]
  split
  · rfl
  · rename_i h
    have hk : k ∉ touchedBy st := by simpa using h
    obtain ⟨g, t, a⟩ := st
    cases g with
    | none => exact (applyAct_frame (g := none) s t a k hk).symm
    | some p =>
      simp only [execSpec]
      split
      · rfl
      · exact (applyAct_frame (g := some p) s t a k hk).symm

theorem aExec_sound {e : AEnv} {s : State} (st : Stmt) (h : Agree e s) :
    Agree (aExec e st) (exec s st) := by
  rw [exec_eq_execSpec]
  obtain ⟨g, t, a⟩ := st
  cases g with
  | none => simp only [aExec, execSpec]; exact aAct_sound t a h
  | some p =>
    simp only [aExec, execSpec]
    cases hp : lk p e with
    | none =>
      simp only
      by_cases hg : s p = Val.ptr 0
      · rw [if_pos hg]; exact aHavoc_sound_skip t a h
      · rw [if_neg hg]; exact aHavoc_sound_run t a h
    | some v =>
      have : s p = v := h p v hp
      simp only [this]
      by_cases hg : v = Val.ptr 0
      · rw [if_pos hg, if_pos hg]; exact h
      · rw [if_neg hg, if_neg hg]; exact aAct_sound t a h

theorem aRun_sound (stmts : List Stmt) {e : AEnv} {s : State} (h : Agree e s) :
    Agree (aRun stmts e) (run stmts s) := by
  induction stmts generalizing e s with
  | nil => exact h
  | cons st r ih =>
    simp only [aRun, run, List.foldl_cons]
    exact ih (aExec_sound st h)

/-- a determined member has its determined value whatever the start state was -/
theorem determined (stmts : List Stmt) (e : AEnv) (s : State) (h : Agree e s) (m : Nat) (v : Val)
    (hv : lk m (aRun stmts e) = some v) : run stmts s m = v :=
  aRun_sound stmts h m v hv

theorem agree_nil (s : State) : Agree [] s := by intro m v h; cases h

/-- a member the analysis determines *from nothing* has the same value after the statements whatever the state before
them was: the statements erase its history (used for the re-initialisers of pooled objects) -/
theorem history_erased (stmts : List Stmt) (m : Nat) (h : (lk m (aRun stmts [])).isSome = true) (s1 s2 : State) :
    run stmts s1 m = run stmts s2 m := by
  cases hv : lk m (aRun stmts []) with
  | none => rw [hv] at h; cases h
  | some v =>
    rw [determined stmts [] s1 (agree_nil s1) m v hv, determined stmts [] s2 (agree_nil s2) m v hv]

/-! ### frame: members no statement targets keep their value -/

theorem exec_frame (s : State) (st : Stmt) (m : Nat) (h : m ∉ touchedBy st) : exec s st m = s m := by
  simp only [exec]
  have : (touchedBy st).contains m = false := by simpa using h
  rw [this]; rfl

theorem run_frame (stmts : List Stmt) (s : State) (m : Nat) (h : m ∉ touched stmts) :
    run stmts s m = s m := by
  induction stmts generalizing s with
  | nil => rfl
  | cons st r ih =>
    simp only [touched, List.flatMap_cons, List.mem_append, not_or] at h
    simp only [run, List.foldl_cons]
    have := ih (exec s st) h.2
    simp only [run] at this
    rw [this]; exact exec_frame s st m h.1

/-! ### the pop loop -/

theorem popIdx_zero (n : Nat) : popIdx n 0 = 0 := by
  induction n with
  | zero => rfl
  | succ n ih =>
    simp only [popIdx]
    have : ¬ (0 : Int) = ((n + 1 : Nat) : Int) := by omega
    rw [if_neg this]; exact ih

/-- the index returns to 0 when it was within the stack -/
theorem popIdx_le (n : Nat) (i : Int) (h0 : 0 ≤ i) (h : i ≤ (n : Int)) : popIdx n i = 0 := by
  induction n generalizing i with
  | zero =>
    simp only [popIdx]; omega
  | succ n ih =>
    simp only [popIdx]
    by_cases hi : i = ((n + 1 : Nat) : Int)
    · rw [if_pos hi]; apply ih <;> omega
    · rw [if_neg hi]; apply ih <;> omega

/-- … and stays where it was when it pointed past the top -/
theorem popIdx_gt (n : Nat) (i : Int) (h : (n : Int) < i) : popIdx n i = i := by
  induction n generalizing i with
  | zero => rfl
  | succ n ih =>
    simp only [popIdx]
    have : ¬ i = ((n + 1 : Nat) : Int) := by omega
    rw [if_neg this]; apply ih; omega

/-! ### tables -/

theorem lk_map_range (l : List Val) (n : Nat) (k : Nat) (v : Val)
    (h : lk k ((List.range n).map fun j => (j, l.getD j (.ptr 0))) = some v) : l.getD k (.ptr 0) = v := by
  induction n with
  | zero => simp [lk] at h
  | succ n ih =>
    rw [List.range_succ, List.map_append] at h
    -- lookup in an append: first hit wins
    have key : ∀ (a b : AEnv), lk k (a ++ b) = (lk k a).orElse (fun _ => lk k b) := by
      intro a b
      induction a with
      | nil => simp [lk]
      | cons p r ihr =>
        obtain ⟨j, w⟩ := p
        by_cases hj : j = k
        · simp [lk, hj]
        · simp [lk, hj, ihr]
    rw [key] at h
    cases h1 : lk k ((List.range n).map fun j => (j, l.getD j (.ptr 0))) with
    | some w => rw [h1] at h; simp at h; subst h; exact ih h1
    | none =>
      rw [h1] at h
      simp [lk] at h
      obtain ⟨hk, hv⟩ := h
      subst hk; exact hv

theorem agree_envOfList (l : List Val) : Agree (envOfList l) (ofList l) := by
  intro k v h
  exact lk_map_range l l.length k v h

end XalanModel.C06
