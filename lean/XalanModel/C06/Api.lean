import XalanModel.C06.Stmt
import XalanModel.Generated.C06_Reset
/-!
# C06 — the API state machine of one `XalanTransformer`

`Tx` = the abstract member state (`mem`, over the generated member table) + the concrete contents of
the sticky containers the property talks about (`m_params`, `m_functions`, `m_compiledStylesheets`,
`m_parsedSources`).  `step` mirrors `XalanTransformer.cpp`:

* `setStylesheetParam(k, expression)`  : `m_params[k].m_expression = expression`   (861-866)
* `setStylesheetParam(k, XObjectPtr)`  : `m_params[k].m_value = object`            (868-874; the double /
  node-set overloads create the object in `m_topXObjectFactory` first)
* `clearStylesheetParams()`            : `m_params.clear()`                        (hpp 610-614)
* `doTransform`                        : set-up (`Generated.setup`), hand `m_params` to the processor —
  expression if `theExpression.length() > 0`, else the object (1343-1360) —, run the transformation
  (arbitrary effect `mid` on every non-sticky member: it may stop anywhere), then `~EnsureReset`
  (`Generated.ensureReset`) on every exit path.
* `destroyStylesheet` / `destroyParsedSource`: `find` in the vector, `-1` if absent (700-729, 827-858).

Core Lean only (linked into the driver).
-/
namespace XalanModel.C06
open XalanModel.Generated.C06

/-- `XalanParamHolder`: both representations are kept side by side -/
structure Holder where
  expr : String := ""
  obj : Option String := none
deriving DecidableEq, Repr

/-- what the stylesheet gets to see for one parameter -/
inductive PVal where
  | expr (e : String)
  | obj (o : String)
  | null
deriving DecidableEq, Repr

/-- doTransform: `if (theExpression.length() > 0) setStylesheetParam(name, expression) else …(name, object)` -/
def Holder.effective (h : Holder) : PVal :=
  if h.expr.length > 0 then .expr h.expr
  else match h.obj with
    | some o => .obj o
    | none => .null

abbrev ParamMap := List (String × Holder)

def ParamMap.find (ps : ParamMap) (k : String) : Holder :=
  match ps.lookup k with
  | some h => h
  | none => {}

/-- `m[k] = v` on an association list (insert or overwrite; one entry per key) -/
def putA {β : Type} : List (String × β) → String → β → List (String × β)
  | [], k, h => [(k, h)]
  | (k', h') :: r, k, h => if k' = k then (k, h) :: r else (k', h') :: putA r k h

/-- removal of a key from an association list -/
def removeA {β : Type} (l : List (String × β)) (k : String) : List (String × β) := l.filter fun p => p.1 != k

/-! ### Configuration as a map: the reference semantics of every per-transformer setting

Every per-transformer configuration operation (install/uninstall a function under a QName, locally or process-wide;
set an option; add/remove a listener) is `set key value` or `remove key` on a map; the *net configuration* a fresh
transformer must be given is, per key, the value of the last `set` not followed by a `remove`. -/
inductive COp where
  | set (k v : String)
  | remove (k : String)
deriving DecidableEq, Repr

def applyC (m : List (String × String)) : COp → List (String × String)
  | .set k v => putA m k v
  | .remove k => removeA m k

/-- what the history says about key `k`, scanning the operations in order -/
def lastWrite (k : String) (acc : Option String) : COp → Option String
  | .set k' v => if k' = k then some v else acc
  | .remove k' => if k' = k then none else acc

def ParamMap.put (ps : ParamMap) (k : String) (h : Holder) : ParamMap := putA ps k h

/-- `clearsOther` = does the code drop the other representation (false on the tree as found) -/
def setExpr (clearsOther : Bool) (ps : ParamMap) (k e : String) : ParamMap :=
  let h := ps.find k
  ps.put k (if clearsOther then { expr := e, obj := none } else { h with expr := e })

def setObj (clearsOther : Bool) (ps : ParamMap) (k o : String) : ParamMap :=
  let h := ps.find k
  ps.put k (if clearsOther then { expr := "", obj := some o } else { h with obj := some o })

/-- the three parameter operations, and their *specification*: the stylesheet sees, for each key, the value
of the last `setStylesheetParam` call since the last `clearStylesheetParams` -/
inductive POp where
  | expr (k e : String)
  | num (k v : String)
  | clear
deriving DecidableEq, Repr

def applyP (clearsOther : Bool) (ps : ParamMap) : POp → ParamMap
  | .expr k e => setExpr clearsOther ps k e
  | .num k v => setObj clearsOther ps k v
  | .clear => []

abbrev SpecParams := List (String × PVal)

def specP (sp : SpecParams) : POp → SpecParams
  | .expr k e => putA sp k (.expr e)
  | .num k v => putA sp k (.obj v)
  | .clear => []

def effectiveAll (ps : ParamMap) : SpecParams := ps.map fun (k, h) => (k, h.effective)

inductive Op where
  | compile (slot : Nat) (sheet : String) (ok : Bool)
  | parse (slot : Nat) (src : String) (ok : Bool)
  | setParamExpr (k e : String)
  | setParamNum (k v : String)
  | clearParams
  /-- `installExternalFunction(ns, name, implementation)`: `impl` names the implementation (a later install under the
  same name replaces the earlier one) -/
  | install (f impl : String)
  | uninstall (f : String)
  /-- process-wide `XalanTransformer::installExternalFunctionGlobal` / `uninstall…Global` (static) -/
  | ginstall (f impl : String)
  | guninstall (f : String)
  /-- a configuration option with a public setter (setIndent, setOutputEncoding, setEscapeURLs, setOmitMETATag,
  setProblemListener, add/removeTraceListener): sticky by contract -/
  | config (name value : String)
  | destroySheet (slot : Nat)
  | destroySource (slot : Nat)
  /-- transform with a compiled stylesheet and a parsed source; `mid` = the member state at the moment the
  interpreter returned or threw (anything at all on the non-sticky members) -/
  | transform (sheet src : Nat) (mid : State)
  /-- transform from stylesheet / source text (compiled and parsed for this call only) -/
  | transformSrc (sheet src : String) (mid : State)

structure Tx where
  mem : State
  params : ParamMap
  funcs : List (String × String)
  /-- process-wide function table (not owned by the transformer: a new transformer sees it too) -/
  gfuncs : List (String × String)
  config : List (String × String)
  sheets : List (Nat × String)
  sources : List (Nat × String)

def Tx.init : Tx := ⟨ofList freshVals, [], [], [], [], [], []⟩

/-- roles a running transformation may write -/
def Role.volatile : Role → Bool
  | .transient | .perCall | .cache | .perCallObject => true
  | _ => false

def volatileIds : List Nat := idsWith roles Role.volatile
def transientIds : List Nat := idsWith roles (· == .transient)
/-- what the interpreter starts from: restored by reset, or overwritten by the set-up -/
def startIds : List Nat := idsWith roles fun r => r == .transient || r == .perCall
def keptIds : List Nat := idsWith roles fun r => r == .sticky || r == .config || r == .const
/-- members restored by scope guards in the interpreter (`Generated.guardSites`): the interpreter leaves them as it
found them on every exit (`Prog.guarded_restores`), so they are not volatile -/
def guardedIds : List Nat := idsWith roles (· == .guarded)
def objStackIds : List Nat := (List.range kinds.length).filter fun k => kinds.getD k .ref == .objstack

/-- the transformation ran (to completion or to an exception): every volatile member now has whatever
value `mid` says; sticky / configuration members are not written by the interpreter -/
def havoc (cur mid : State) : State := fun k => if volatileIds.contains k then mid k else cur k

structure Obs where
  /-- values of the members the interpreter starts from, after doTransform's set-up, in `startIds` order -/
  pre : List Val
  params : List (String × PVal)
  funcs : List (String × String)
  gfuncs : List (String × String)
  config : List (String × String)
  sheet : Option String
  source : Option String
deriving DecidableEq, Repr

inductive Reply where
  | ok
  | rc (n : Int)
  | obs (o : Obs)
deriving DecidableEq, Repr

def view (s : State) : List Val := startIds.map s

def observe (t : Tx) (sheet source : Option String) : Obs :=
  { pre := view (run setup t.mem)
    params := effectiveAll t.params
    funcs := t.funcs
    gfuncs := t.gfuncs
    config := t.config
    sheet := sheet
    source := source }

def afterTransform (t : Tx) (mid : State) : Tx :=
  { t with mem := run ensureReset (havoc (run setup t.mem) mid) }

def eraseSlot (l : List (Nat × String)) (slot : Nat) : List (Nat × String) := l.filter fun p => p.1 != slot

def step (t : Tx) : Op → Tx × Reply
  | .compile slot sheet ok =>
    if ok then ({ t with sheets := (slot, sheet) :: eraseSlot t.sheets slot }, .rc 0) else (t, .rc (-1))
  | .parse slot src ok =>
    if ok then ({ t with sources := (slot, src) :: eraseSlot t.sources slot }, .rc 0) else (t, .rc (-2))
  | .setParamExpr k e => ({ t with params := setExpr paramSetClearsOther t.params k e }, .ok)
  | .setParamNum k v => ({ t with params := setObj paramSetClearsOther t.params k v }, .ok)
  | .clearParams => ({ t with params := [] }, .ok)
  | .install f i => ({ t with funcs := putA t.funcs f i }, .ok)
  | .uninstall f => ({ t with funcs := removeA t.funcs f }, .ok)
  | .ginstall f i => ({ t with gfuncs := putA t.gfuncs f i }, .ok)
  | .guninstall f => ({ t with gfuncs := removeA t.gfuncs f }, .ok)
  | .config n v => ({ t with config := putA t.config n v }, .ok)
  | .destroySheet slot =>
    match t.sheets.lookup slot with
    | some _ => ({ t with sheets := eraseSlot t.sheets slot }, .rc 0)
    | none => (t, .rc (-1))
  | .destroySource slot =>
    match t.sources.lookup slot with
    | some _ => ({ t with sources := eraseSlot t.sources slot }, .rc 0)
    | none => (t, .rc (-1))
  | .transform sheet src mid =>
    match t.sheets.lookup sheet, t.sources.lookup src with
    | some sh, some so => (afterTransform t mid, .obs (observe t (some sh) (some so)))
    | _, _ => (t, .rc (-100))    -- dangling handle: undefined behaviour in C++, never issued by the generator
  | .transformSrc sheet src mid => (afterTransform t mid, .obs (observe t (some sheet) (some src)))

def runOps : Tx → List Op → Tx × List Reply
  | t, [] => (t, [])
  | t, op :: ops =>
    let (t', r) := step t op
    let (t'', rs) := runOps t' ops
    (t'', r :: rs)

/-! ## The specification: a transformer that is thrown away after every call

`Spec` carries only what the documentation says is kept (`params`, `funcs`, owned handles); a
transformation is answered from a *freshly constructed* member state. -/

structure Spec where
  params : ParamMap
  funcs : List (String × String)
  gfuncs : List (String × String)
  config : List (String × String)
  sheets : List (Nat × String)
  sources : List (Nat × String)

def Spec.init : Spec := ⟨[], [], [], [], [], []⟩

def Spec.fresh (s : Spec) : Tx := { Tx.init with params := s.params, funcs := s.funcs, gfuncs := s.gfuncs, config := s.config, sheets := s.sheets, sources := s.sources }

def Spec.step (s : Spec) : Op → Spec × Reply
  | .transform sheet src _ =>
    match s.sheets.lookup sheet, s.sources.lookup src with
    | some sh, some so => (s, .obs (observe s.fresh (some sh) (some so)))
    | _, _ => (s, .rc (-100))
  | .transformSrc sheet src _ => (s, .obs (observe s.fresh (some sheet) (some src)))
  | op =>
    let (t, r) := XalanModel.C06.step s.fresh op
    (⟨t.params, t.funcs, t.gfuncs, t.config, t.sheets, t.sources⟩, r)

def Spec.runOps : Spec → List Op → Spec × List Reply
  | s, [] => (s, [])
  | s, op :: ops =>
    let (s', r) := Spec.step s op
    let (s'', rs) := Spec.runOps s' ops
    (s'', r :: rs)

/-- the `VariablesStack` invariant every reachable interpreter state satisfies:
`0 ≤ m_currentStackFrameIndex ≤ m_stack.size()` -/
def MidOk (mid : State) : Prop :=
  0 ≤ (mid vsIndex).int ∧ (mid vsIndex).int ≤ ((mid vsStack).items.length : Int)

instance (mid : State) : Decidable (MidOk mid) := by unfold MidOk; infer_instance

def Op.MidOk : Op → Prop
  | .transform _ _ mid => C06.MidOk mid
  | .transformSrc _ _ mid => C06.MidOk mid
  | _ => True

end XalanModel.C06
