import XalanModel.C06.VarStack
import XalanModel.C06.Stmt
namespace XalanModel.C06

theorem VarStack.step_inv (v : VarStack) (op : VOp) (h : v.Inv) (hop : op.Ok v) : (v.step op).Inv := by
  unfold VarStack.Inv at *
  cases op with
  | push => simp only [VarStack.step]; split <;> omega
  | pop =>
    have hp : 0 < v.size := hop
    simp only [VarStack.step]; split <;> omega
  | setIdx k =>
    cases k with
    | none => simp [VarStack.step]
    | some k => exact hop

theorem VarStack.popAll_size (n : Nat) (v : VarStack) (h : v.size = n) : (VarStack.popAll n v).size = 0 := by
  induction n generalizing v with
  | zero => simpa [VarStack.popAll] using h
  | succ n ih =>
    simp only [VarStack.popAll]
    apply ih
    simp [VarStack.step, h]

theorem VarStack.popAll_idx (n : Nat) (v : VarStack) (h : v.size = n) (hi : v.Inv) :
    (VarStack.popAll n v).idx = 0 := by
  induction n generalizing v with
  | zero =>
    unfold VarStack.Inv at hi
    simp only [VarStack.popAll]; omega
  | succ n ih =>
    simp only [VarStack.popAll]
    apply ih
    · simp [VarStack.step, h]
    · unfold VarStack.Inv at *
      simp only [VarStack.step]
      split <;> omega

/-- the loop of the hand model is the `popIdx` of the statement language (used by `Act.popLoop`) -/
theorem VarStack.popAll_eq_popIdx (n : Nat) (v : VarStack) (h : v.size = n) (hi : v.Inv) :
    ((VarStack.popAll n v).idx : Int) = popIdx n (v.idx : Int) := by
  induction n generalizing v with
  | zero => simp [VarStack.popAll, popIdx]
  | succ n ih =>
    unfold VarStack.Inv at hi
    simp only [VarStack.popAll, popIdx]
    have hs : (v.step .pop).size = n := by simp [VarStack.step, h]
    have hi' : (v.step .pop).Inv := by
      unfold VarStack.Inv; simp only [VarStack.step]; split <;> omega
    rw [ih _ hs hi']
    congr 1
    simp only [VarStack.step]
    by_cases hc : v.idx = v.size
    · have : (v.idx : Int) = ((n + 1 : Nat) : Int) := by omega
      rw [if_pos hc, if_pos this]; omega
    · have : ¬ (v.idx : Int) = ((n + 1 : Nat) : Int) := by omega
      rw [if_neg hc, if_neg this]

theorem VOp.ok_iff (v : VarStack) (op : VOp) : op.ok v = true ↔ op.Ok v := by
  cases op with
  | push => simp [VOp.ok, VOp.Ok]
  | pop => simp [VOp.ok, VOp.Ok]
  | setIdx k => cases k <;> simp [VOp.ok, VOp.Ok]

theorem VarStack.runOps_inv (ops : List VOp) (v w : VarStack) (h : v.Inv) (hr : v.runOps ops = some w) : w.Inv := by
  induction ops generalizing v with
  | nil => simp [VarStack.runOps] at hr; subst hr; exact h
  | cons op ops ih =>
    simp only [VarStack.runOps] at hr
    split at hr
    · rename_i hok
      exact ih _ (VarStack.step_inv v op h ((VOp.ok_iff v op).mp hok)) hr
    · cases hr

theorem VarStack.runOps_append (a b : List VOp) (v : VarStack) :
    v.runOps (a ++ b) = (v.runOps a).bind (fun w => w.runOps b) := by
  induction a generalizing v with
  | nil => rfl
  | cons op a ih =>
    simp only [List.cons_append, VarStack.runOps]
    split
    · exact ih _
    · rfl

/-- a run that succeeds also succeeds on every prefix -/
theorem VarStack.runOps_prefix (a b : List VOp) (v w : VarStack) (h : v.runOps (a ++ b) = some w) :
    ∃ u, v.runOps a = some u := by
  rw [VarStack.runOps_append] at h
  cases hu : v.runOps a with
  | none => rw [hu] at h; cases h
  | some u => exact ⟨u, rfl⟩

theorem VarStack.pops_ok (n : Nat) (v : VarStack) (hn : n ≤ v.size) (hi : v.Inv) :
    v.runOps (List.replicate n VOp.pop) = some (v.steps (List.replicate n VOp.pop)) ∧
    (v.steps (List.replicate n VOp.pop)).size = v.size - n ∧ (v.steps (List.replicate n VOp.pop)).Inv := by
  induction n generalizing v with
  | zero => exact ⟨rfl, rfl, hi⟩
  | succ n ih =>
    have hpos : 0 < v.size := by omega
    have hok : VOp.ok v .pop = true := by simp [VOp.ok, hpos]
    have hinv : (v.step .pop).Inv := VarStack.step_inv v .pop hi hpos
    have hsz : (v.step .pop).size = v.size - 1 := by simp [VarStack.step]
    have := ih (v.step .pop) (by omega) hinv
    simp only [List.replicate_succ, VarStack.runOps, hok, if_true, VarStack.steps, List.foldl_cons]
    refine ⟨this.1, ?_, this.2.2⟩
    have h2 := this.2.1
    simp only [VarStack.steps] at h2
    omega

/-- **A whole block runs within the call discipline**, ends in a state satisfying the invariant, never
shrinks the stack below where it started, and restores the index it found. -/
theorem Block.ops_ok (b : Block) (v : VarStack) (hi : v.Inv) (hw : b.WF v) :
    v.runOps (b.ops v).1 = some (b.ops v).2 ∧ (b.ops v).2.Inv ∧ v.size ≤ (b.ops v).2.size := by
  induction b generalizing v with
  | skip => exact ⟨rfl, hi, Nat.le_refl _⟩
  | var =>
    refine ⟨?_, VarStack.step_inv v .push hi trivial, ?_⟩
    · simp [Block.ops, VarStack.runOps, VOp.ok]
    · simp [Block.ops, VarStack.step]
  | seq a b iha ihb =>
    obtain ⟨ha1, ha2, ha3⟩ := iha v hi hw.1
    obtain ⟨hb1, hb2, hb3⟩ := ihb (a.ops v).2 ha2 hw.2
    refine ⟨?_, hb2, Nat.le_trans ha3 hb3⟩
    simp only [Block.ops]
    rw [VarStack.runOps_append, ha1]
    exact hb1
  | frame body ih =>
    have hi1 : (v.step .push).Inv := VarStack.step_inv v .push hi trivial
    obtain ⟨h1, h2, h3⟩ := ih (v.step .push) hi1 hw
    have hsz : (v.step .push).size = v.size + 1 := by simp [VarStack.step]
    have hp := VarStack.pops_ok ((body.ops (v.step .push)).2.size - v.size) (body.ops (v.step .push)).2 (by omega) h2
    refine ⟨?_, hp.2.2, ?_⟩
    · simp only [Block.ops, VarStack.runOps, VOp.ok, if_true]
      rw [VarStack.runOps_append, h1]
      exact hp.1
    · simp only [Block.ops]
      rw [hp.2.1]; omega
  | withIdx k body ih =>
    have hok : VOp.ok v (.setIdx k) = true := by
      cases k with
      | none => rfl
      | some j => simpa [VOp.ok] using hw.1
    have hi1 : (v.step (.setIdx k)).Inv := VarStack.step_inv v _ hi ((VOp.ok_iff v _).mp hok)
    obtain ⟨h1, h2, h3⟩ := ih (v.step (.setIdx k)) hi1 hw.2
    have hsz : (v.step (.setIdx k)).size = v.size := by cases k <;> simp [VarStack.step]
    have hle : v.idx ≤ (body.ops (v.step (.setIdx k))).2.size := by
      unfold VarStack.Inv at hi; omega
    have hok2 : VOp.ok (body.ops (v.step (.setIdx k))).2 (.setIdx (some v.idx)) = true := by simpa [VOp.ok] using hle
    refine ⟨?_, ?_, ?_⟩
    · simp only [Block.ops, VarStack.runOps, hok, if_true]
      rw [VarStack.runOps_append, h1]
      simp [VarStack.runOps, hok2]
    · exact VarStack.step_inv _ _ h2 ((VOp.ok_iff _ _).mp hok2)
    · have e : ((body.ops (v.step (.setIdx k))).2.step (.setIdx (some v.idx))).size =
          (body.ops (v.step (.setIdx k))).2.size := rfl
      simp only [Block.ops]; rw [e]; omega

/-- **Abort anywhere.** Wherever an exception leaves a well-nested transformation — after any prefix of its
stack operations — the `VariablesStack` satisfies the invariant `MidOk` asks for. -/
theorem Block.abort_anywhere (b : Block) (pre post : List VOp) (h : (b.ops ⟨0, 0⟩).1 = pre ++ post)
    (hw : b.WF ⟨0, 0⟩) : ∃ w, VarStack.runOps ⟨0, 0⟩ pre = some w ∧ w.Inv := by
  have hrun := (Block.ops_ok b ⟨0, 0⟩ (Nat.le_refl 0) hw).1
  rw [h] at hrun
  obtain ⟨u, hu⟩ := VarStack.runOps_prefix pre post _ _ hrun
  exact ⟨u, hu, VarStack.runOps_inv pre ⟨0, 0⟩ u (Nat.le_refl 0) hu⟩

end XalanModel.C06
