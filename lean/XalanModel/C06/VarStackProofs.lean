import XalanModel.C06.VarStack
import XalanModel.C06.Stmt
namespace XalanModel.C06

theorem VarStack.step_inv (v : VarStack) (op : VOp) (h : v.Inv) (hop : op.Ok v) : (v.step op).Inv := by
  unfold VarStack.Inv at *
  cases op with
  | push => simp only [VarStack.step]; split <;> omega
  | pop =>
    have hp : 0 < v.size := hop
    simp only [VarStack.step]; split <;> omega
  | setIdx k =>
    cases k with
    | none => simp [VarStack.step]
    | some k => exact hop

theorem VarStack.popAll_size (n : Nat) (v : VarStack) (h : v.size = n) : (VarStack.popAll n v).size = 0 := by
  induction n generalizing v with
  | zero => simpa [VarStack.popAll] using h
  | succ n ih =>
    simp only [VarStack.popAll]
    apply ih
    simp [VarStack.step, h]

theorem VarStack.popAll_idx (n : Nat) (v : VarStack) (h : v.size = n) (hi : v.Inv) :
    (VarStack.popAll n v).idx = 0 := by
  induction n generalizing v with
  | zero =>
    unfold VarStack.Inv at hi
    simp only [VarStack.popAll]; omega
  | succ n ih =>
    simp only [VarStack.popAll]
    apply ih
    · simp [VarStack.step, h]
    · unfold VarStack.Inv at *
      simp only [VarStack.step]
      split <;> omega

/-- the loop of the hand model is the `popIdx` of the statement language (used by `Act.popLoop`) -/
theorem VarStack.popAll_eq_popIdx (n : Nat) (v : VarStack) (h : v.size = n) (hi : v.Inv) :
    ((VarStack.popAll n v).idx : Int) = popIdx n (v.idx : Int) := by
  induction n generalizing v with
  | zero => simp [VarStack.popAll, popIdx]
  | succ n ih =>
    unfold VarStack.Inv at hi
    simp only [VarStack.popAll, popIdx]
    have hs : (v.step .pop).size = n := by simp [VarStack.step, h]
    have hi' : (v.step .pop).Inv := by
      unfold VarStack.Inv; simp only [VarStack.step]; split <;> omega
    rw [ih _ hs hi']
    congr 1
    simp only [VarStack.step]
    by_cases hc : v.idx = v.size
    · have : (v.idx : Int) = ((n + 1 : Nat) : Int) := by omega
      rw [if_pos hc, if_pos this]; omega
    · have : ¬ (v.idx : Int) = ((n + 1 : Nat) : Int) := by omega
      rw [if_neg hc, if_neg this]

theorem VOp.ok_iff (v : VarStack) (op : VOp) : op.ok v = true ↔ op.Ok v := by
  cases op with
  | push => simp [VOp.ok, VOp.Ok]
  | pop => simp [VOp.ok, VOp.Ok]
  | setIdx k => cases k <;> simp [VOp.ok, VOp.Ok]

theorem VarStack.runOps_inv (ops : List VOp) (v w : VarStack) (h : v.Inv) (hr : v.runOps ops = some w) : w.Inv := by
  induction ops generalizing v with
  | nil => simp [VarStack.runOps] at hr; subst hr; exact h
  | cons op ops ih =>
    simp only [VarStack.runOps] at hr
    split at hr
    · rename_i hok
      exact ih _ (VarStack.step_inv v op h ((VOp.ok_iff v op).mp hok)) hr
    · cases hr

end XalanModel.C06
