import XalanModel.C12.TreeProofs
/-
The structural comparison of `DOMServices::isNodeAfter` for nodes with different parents:
parent counting, chain equalisation, the walk to the common parent.
-/
namespace XalanModel.C12

theorem countUp_eq : ∀ (fuel : Nat) (r : Path), r.length < fuel → countUp fuel (some r) = r.length + 1
  | 0, _, h => by omega
  | fuel + 1, r, h => by
    unfold countUp
    cases r with
    | nil => simp [parentOf]; cases fuel <;> rfl
    | cons x r' =>
      have hp : parentOf (x :: r') = some (x :: r').dropLast := rfl
      rw [hp, countUp_eq fuel _ (by simp at h ⊢; omega)]
      simp; omega

theorem climb_eq : ∀ (k : Nat) (x : Path), climb k x = x.take (x.length - k)
  | 0, x => by simp [climb]
  | k + 1, x => by
    unfold climb
    rw [climb_eq k x.dropLast, List.dropLast_eq_take, List.take_take, List.length_take]
    congr 1
    omega

theorem sub_prefix : ∀ (x y : Path) (t : Tree) (r : Tree), t.sub (x ++ y) = some r → ∃ r', t.sub x = some r'
  | [], _, t, _, _ => ⟨t, by cases t; rfl⟩
  | Step.attr k :: x', y, .node na ks, r, h => by
    cases x' with
    | nil =>
      cases y with
      | nil => exact ⟨r, by simpa using h⟩
      | cons z y' => simp [Tree.sub] at h
    | cons z x'' => simp [Tree.sub] at h
  | Step.child j :: x', y, .node na ks, r, h => by
    simp only [List.cons_append, Tree.sub] at h ⊢
    cases hj : ks[j]? with
    | none => simp [hj] at h
    | some c =>
      simp only [hj] at h ⊢
      exact sub_prefix x' y c r h

/-- `isNodeAfterSibling` on two distinct valid children/attributes of `c` is the specification order -/
theorem sibling_core (t : Tree) (c : Path) (a b : Step) (hab : a ≠ b) (ra rb : Tree)
    (hra : t.sub (c ++ [a]) = some ra) (hrb : t.sub (c ++ [b]) = some rb) :
    isNodeAfterSibling t c (c ++ [a]) (c ++ [b]) = stepLt b a := by
  unfold isNodeAfterSibling
  rw [lastIsAttr_snoc, lastIsAttr_snoc, lastPos_snoc, lastPos_snoc]
  cases a with
  | attr i =>
    cases b with
    | attr j =>
      obtain ⟨pt, hpt, hi⟩ := sub_snoc_attr c t i ra hra
      obtain ⟨pt', hpt', hj⟩ := sub_snoc_attr c t j rb hrb
      rw [hpt] at hpt'; injection hpt' with e; subst e
      have hne : i ≠ j := fun e => hab (by rw [e])
      simp only [Bool.not_true, Bool.and_false, Bool.false_eq_true, if_false, hpt, if_true]
      rw [scan_range i j pt.nattrs hne hi hj]
      simp [stepLt]
    | child j => simp [stepLt]
  | child i =>
    cases b with
    | attr j => simp [stepLt]
    | child j =>
      obtain ⟨pt, hpt, hi⟩ := sub_snoc_child c t i ra hra
      obtain ⟨pt', hpt', hj⟩ := sub_snoc_child c t j rb hrb
      rw [hpt] at hpt'; injection hpt' with e; subst e
      have hne : i ≠ j := fun e => hab (by rw [e])
      simp only [Bool.not_false, Bool.and_true, Bool.false_eq_true, if_false, Bool.and_false, hpt]
      rw [scan_range i j pt.kids.length hne hi hj]
      simp [stepLt]

theorem exists_diverge : ∀ (s1 s2 : Path), s1.length = s2.length → s1 ≠ s2 →
    ∃ c a b r1 r2, a ≠ b ∧ s1 = c ++ a :: r1 ∧ s2 = c ++ b :: r2 ∧ r1.length = r2.length
  | [], [], _, h => absurd rfl h
  | [], _ :: _, h, _ => by simp at h
  | _ :: _, [], h, _ => by simp at h
  | x :: s1, y :: s2, hl, hne => by
    by_cases hxy : x = y
    · subst hxy
      obtain ⟨c, a, b, r1, r2, hab, e1, e2, hr⟩ :=
        exists_diverge s1 s2 (by simpa using hl) (fun e => hne (by rw [e]))
      exact ⟨x :: c, a, b, r1, r2, hab, by rw [e1]; rfl, by rw [e2]; rfl, hr⟩
    · exact ⟨[], x, y, s1, s2, hxy, rfl, rfl, by simpa using hl⟩

theorem parentOf_ne_nil {p : Path} (h : p ≠ []) : parentOf p = some p.dropLast := by
  cases p with
  | nil => exact absurd rfl h
  | cons _ _ => rfl

/-- the walk up from two equal-length chains that part at `c` ends in the sibling comparison below `c` -/
theorem commonLoop_diverge (t : Tree) (fx : Bool) (n1 n2 : Nat) (c : Path) (a b : Step) (hab : a ≠ b) :
    ∀ (n : Nat) (r1 r2 : Path) (fuel : Nat) (prev1 prev2 : Option Path),
      r1.length = n → r2.length = n → n + 2 ≤ fuel →
      commonLoop t fx n1 n2 fuel (some (c ++ a :: r1)) (some (c ++ b :: r2)) prev1 prev2 =
        isNodeAfterSibling t c (c ++ [a]) (c ++ [b])
  | 0, r1, r2, fuel, prev1, prev2, h1, h2, hf => by
    have e1 : r1 = [] := List.length_eq_zero_iff.mp h1
    have e2 : r2 = [] := List.length_eq_zero_iff.mp h2
    subst e1; subst e2
    obtain ⟨f', rfl⟩ : ∃ f', fuel = f' + 2 := ⟨fuel - 2, by omega⟩
    have hne : ¬ (some (c ++ [a]) = some (c ++ [b])) := by
      intro e; injection e with e; exact hab (by simpa using e)
    unfold commonLoop
    simp only [hne, if_false, Option.bind_some, parentOf_snoc]
    unfold commonLoop
    simp
  | n + 1, r1, r2, fuel, prev1, prev2, h1, h2, hf => by
    rcases List.eq_nil_or_concat r1 with e | ⟨r1', x, e⟩
    · subst e; simp at h1
    rcases List.eq_nil_or_concat r2 with e | ⟨r2', y, e⟩
    · subst e; simp at h2
    subst e; subst e
    simp only [List.concat_eq_append, List.length_append, List.length_singleton] at h1 h2
    obtain ⟨f', rfl⟩ : ∃ f', fuel = f' + 1 := ⟨fuel - 1, by omega⟩
    have hne : ¬ (some (c ++ a :: (r1' ++ [x])) = some (c ++ b :: (r2' ++ [y]))) := by
      intro e; injection e with e
      have := List.append_cancel_left e
      injection this with e' _
      exact hab e'
    have hp1 : parentOf (c ++ a :: (r1' ++ [x])) = some (c ++ a :: r1') := by
      have : c ++ a :: (r1' ++ [x]) = (c ++ a :: r1') ++ [x] := by simp
      rw [this, parentOf_snoc]
    have hp2 : parentOf (c ++ b :: (r2' ++ [y])) = some (c ++ b :: r2') := by
      have : c ++ b :: (r2' ++ [y]) = (c ++ b :: r2') ++ [y] := by simp
      rw [this, parentOf_snoc]
    unfold commonLoop
    simp only [List.concat_eq_append, hne, if_false, Option.bind_some, hp1, hp2]
    exact commonLoop_diverge t fx n1 n2 c a b hab n r1' r2' f' _ _ (by omega) (by omega) (by omega)

theorem DocBefore_diverge (c : Path) (a b : Step) (P Q : Path) (hab : a ≠ b) :
    DocBefore (c ++ b :: Q) (c ++ a :: P) = stepLt b a := by
  rw [DocBefore_append]
  have : ¬ b = a := fun e => hab e.symm
  simp [DocBefore, this]

/-- **different parents or not: the structural comparison is the specification order** — for the repaired
edge always; for the edge as written whenever neither node is an ancestor of the other -/
theorem structural_general (t : Tree) (fx : Bool) (p q : Path) (hp : p ∈ t.paths) (hq : q ∈ t.paths)
    (hp0 : p ≠ []) (hq0 : q ≠ []) (hpq : p ≠ q)
    (hfx : fx = true ∨ (¬ p <+: q ∧ ¬ q <+: p)) :
    isNodeAfterStructural t fx p q = DocBefore q p := by
  obtain ⟨rp, hrp⟩ := paths_sub p t hp
  obtain ⟨rq, hrq⟩ := paths_sub q t hq
  by_cases hpar : p.dropLast = q.dropLast
  · -- same parent
    have ep : p = p.dropLast ++ [p.getLast hp0] := (List.dropLast_concat_getLast hp0).symm
    have eq : q = p.dropLast ++ [q.getLast hq0] := by rw [hpar]; exact (List.dropLast_concat_getLast hq0).symm
    have hab : p.getLast hp0 ≠ q.getLast hq0 := by
      intro e; apply hpq; rw [ep, eq, e]
    rw [ep] at hp; rw [eq] at hq
    have := structural_siblings t fx p.dropLast _ _ hab hp hq
    rw [← ep, ← eq] at this
    exact this
  · unfold isNodeAfterStructural
    have hpp : parentOf p = some p.dropLast := parentOf_ne_nil hp0
    have hqp : parentOf q = some q.dropLast := parentOf_ne_nil hq0
    have hne : ¬ (parentOf p = parentOf q) := by rw [hpp, hqp]; intro e; injection e with e; exact hpar e
    simp only [hne, if_false]
    rw [hpp, hqp]
    have hlp : 0 < p.length := List.length_pos_iff.mpr hp0
    have hlq : 0 < q.length := List.length_pos_iff.mpr hq0
    rw [countUp_eq _ _ (by simp; omega), countUp_eq _ _ (by simp; omega)]
    simp only [List.length_dropLast]
    -- the equalised starting points
    let m := min p.length q.length
    have hs1 : (if 2 + (p.length - 1 + 1) > 2 + (q.length - 1 + 1) then
        climb (2 + (p.length - 1 + 1) - (2 + (q.length - 1 + 1))) p else p) = p.take m := by
      split
      · rw [climb_eq]; congr 1; omega
      · rw [List.take_of_length_le (by omega)]
    have hs2 : (if 2 + (p.length - 1 + 1) < 2 + (q.length - 1 + 1) then
        climb (2 + (q.length - 1 + 1) - (2 + (p.length - 1 + 1))) q else q) = q.take m := by
      split
      · rw [climb_eq]; congr 1; omega
      · rw [List.take_of_length_le (by omega)]
    rw [hs1, hs2]
    have hpm : p = p.take m ++ p.drop m := (List.take_append_drop m p).symm
    have hqm : q = q.take m ++ q.drop m := (List.take_append_drop m q).symm
    have hl1 : (p.take m).length = m := by rw [List.length_take]; omega
    have hl2 : (q.take m).length = m := by rw [List.length_take]; omega
    by_cases heq : p.take m = q.take m
    · -- one is a prefix (ancestor) of the other
      obtain ⟨f', hf'⟩ : ∃ f', p.length + q.length + 2 = f' + 1 := ⟨p.length + q.length + 1, by omega⟩
      rw [hf']
      unfold commonLoop
      simp only [heq, if_true]
      by_cases hlen : p.length ≤ q.length
      · -- p is a proper prefix of q
        have hmp : m = p.length := by omega
        have hpe : p.take m = p := by rw [hmp]; exact List.take_length
        have hpre : p <+: q := ⟨q.drop m, by rw [← hpe, heq]; exact (List.take_append_drop m q)⟩
        have hfx' : fx = true := by
          rcases hfx with h | h
          · exact h
          · exact absurd hpre h.1
        have hd : q.drop m ≠ [] := by
          intro e; apply hpq; rw [hqm, e, List.append_nil, ← heq, hpe]
        have : DocBefore q p = false := by
          rw [hqm, ← heq, hpe]
          have : DocBefore (p ++ q.drop m) (p ++ []) = DocBefore (q.drop m) [] := DocBefore_append p _ _
          rw [List.append_nil] at this
          rw [this]
          cases hdd : q.drop m with
          | nil => exact absurd hdd hd
          | cons _ _ => rfl
        rw [this, hfx']
        simp; omega
      · have hmq : m = q.length := by omega
        have hqe : q.take m = q := by rw [hmq]; exact List.take_length
        have hpre : q <+: p := ⟨p.drop m, by rw [← hqe, ← heq]; exact (List.take_append_drop m p)⟩
        have hfx' : fx = true := by
          rcases hfx with h | h
          · exact h
          · exact absurd hpre h.2
        have hd : p.drop m ≠ [] := by
          intro e; apply hpq; rw [hpm, e, List.append_nil, heq, hqe]
        have : DocBefore q p = true := by
          rw [hpm, heq, hqe]
          have : DocBefore (q ++ []) (q ++ p.drop m) = DocBefore [] (p.drop m) := DocBefore_append q _ _
          rw [List.append_nil] at this
          rw [this]
          cases hdd : p.drop m with
          | nil => exact absurd hdd hd
          | cons _ _ => rfl
        rw [this, hfx']
        simp; omega
    · obtain ⟨c, a, b, r1, r2, hab, e1, e2, hr⟩ := exists_diverge _ _ (by rw [hl1, hl2]) heq
      rw [e1, e2]
      have hrl : r1.length + 2 ≤ p.length + q.length + 2 := by
        have : (c ++ a :: r1).length = m := by rw [← e1]; exact hl1
        simp at this; omega
      rw [commonLoop_diverge t fx _ _ c a b hab r1.length r1 r2 _ none none rfl hr.symm hrl]
      have hp' : p = (c ++ [a]) ++ (r1 ++ p.drop m) := by
        have : c ++ [a] ++ (r1 ++ p.drop m) = (c ++ a :: r1) ++ p.drop m := by simp
        rw [this, ← e1]; exact hpm
      have hq' : q = (c ++ [b]) ++ (r2 ++ q.drop m) := by
        have : c ++ [b] ++ (r2 ++ q.drop m) = (c ++ b :: r2) ++ q.drop m := by simp
        rw [this, ← e2]; exact hqm
      obtain ⟨ra, hra⟩ := sub_prefix (c ++ [a]) _ t rp (by rw [← hp']; exact hrp)
      obtain ⟨rb, hrb⟩ := sub_prefix (c ++ [b]) _ t rq (by rw [← hq']; exact hrq)
      rw [sibling_core t c a b hab ra rb hra hrb]
      have hp'' : p = c ++ a :: (r1 ++ p.drop m) := by simpa using hp'
      have hq'' : q = c ++ b :: (r2 ++ q.drop m) := by simpa using hq'
      generalize r1 ++ p.drop m = P at hp''
      generalize r2 ++ q.drop m = Q at hq''
      rw [hp'', hq'', DocBefore_diverge c a b _ _ hab]

end XalanModel.C12

namespace XalanModel.C12

theorem scan_same (k : Nat) : ∀ l : List Nat, scanSiblings k k l false false = false ∧ scanSiblings k k l true false = false
  | [] => ⟨rfl, rfl⟩
  | i :: rest => by
    have ih := scan_same k rest
    unfold scanSiblings
    by_cases h : k = i
    · simp [h]; subst h; exact ih.2
    · simp [h]; exact ih

/-- comparing a node with itself: not after (both scanning loops find `child1` first and never `child2`) -/
theorem structural_siblings_self (t : Tree) (s : Path) (hs : s ≠ []) (fx : Bool := true) :
    isNodeAfterStructural t fx s s = false := by
  unfold isNodeAfterStructural
  simp only [if_true]
  rw [parentOf_ne_nil hs]
  simp only
  unfold isNodeAfterSibling
  cases h : lastIsAttr s <;> simp <;> split <;> simp [(scan_same _ _).1]

end XalanModel.C12
