import XalanModel.C12.Tree
/-
C12 — the pointer walks of XPath.cpp behind the descendant, descendant-or-self, following, preceding and
namespace axes, transcribed loop by loop over the `Tree`/`Path` pointer model:

  `getFirstChild()`  = `firstChild`,  `getNextSibling()` = `nextSibling`,
  `DOMServices::getParentOfNode()` = `parentOf`,  pointer equality = path equality, null = `none`.

Every C++ loop becomes a function with a `fuel` argument (the proofs in `WalksProofs.lean` show that the fuel
handed in by `find…` is never exhausted).  The `NodeTester` (node test + predicates) is left out: it only drops
nodes from the list (see `StepSpec.sel`).  Core Lean only (linked into `xm_c12`).
-/
namespace XalanModel.C12

/-- `pos->getFirstChild()` (an attribute and a leaf have none) -/
def firstChild (t : Tree) (p : Path) : Option Path :=
  match t.sub p with
  | some pt => if 0 < pt.kids.length then some (p ++ [Step.child 0]) else none
  | none => none

/-- `pos->getNextSibling()` (null for the document node and for an attribute) -/
def nextSibling (t : Tree) (p : Path) : Option Path :=
  if p = [] ∨ lastIsAttr p = true then none
  else
    match t.sub p.dropLast with
    | some pt =>
      if lastPos p + 1 < pt.kids.length then some (p.dropLast ++ [Step.child (lastPos p + 1)]) else none
    | none => none

/-! ### `XPath::findDescendants` (XPath.cpp:3966-4034), also serving descendant-or-self -/

/-- the inner `while (0 == nextNode)`: `if (context == pos) break; nextNode = pos->getNextSibling();
if (0 == nextNode) { pos = getParentOfNode(*pos); if (context == pos || pos == 0) { nextNode = 0; break; } }` -/
def descClimb (t : Tree) (ctx : Path) : Nat → Path → Option Path
  | 0, _ => none
  | fuel + 1, pos =>
    if ctx = pos then none
    else
      match nextSibling t pos with
      | some n => some n
      | none =>
        match parentOf pos with
        | none => none
        | some q => if ctx = q then none else descClimb t ctx fuel q

/-- `XalanNode* nextNode = pos->getFirstChild(); while (0 == nextNode) { … }`: the node `pos` moves to -/
def descNext (t : Tree) (ctx : Path) (pos : Path) : Option Path :=
  match firstChild t pos with
  | some n => some n
  | none => descClimb t ctx (pos.length + 1) pos

/-- the `do { … } while (0 != pos)` -/
def descWalk (t : Tree) (ctx : Path) (orSelf : Bool) : Nat → Path → List Path
  | 0, _ => []
  | fuel + 1, pos =>
    (if orSelf || (ctx != pos) then [pos] else []) ++
      match descNext t ctx pos with
      | some n => descWalk t ctx orSelf fuel n
      | none => []

/-- fuel: the number of nodes of the context node's subtree bounds the iterations of the `do … while` -/
def findDescendantsWalk (t : Tree) (ctx : Path) (orSelf : Bool) : List Path :=
  match t.sub ctx with
  | some pt => descWalk t ctx orSelf (pt.paths.length + 1) ctx
  | none => []

/-! ### `XPath::findFollowing` (XPath.cpp:4039-4128) -/

/-- the inner `while (0 == nextNode)`: for an attribute `nextNode = parent->getFirstChild()`, otherwise
`getNextSibling()`; `if (0 == nextNode) { pos = parent; if (doc == pos || 0 == pos) break; }` (`doc` is the
document node `[]`) -/
def follClimb (t : Tree) : Nat → Path → Option Path
  | 0, _ => none
  | fuel + 1, pos =>
    match (if lastIsAttr pos = true then (parentOf pos).bind (firstChild t) else nextSibling t pos) with
    | some n => some n
    | none =>
      match parentOf pos with
      | none => none
      | some q => if q = [] then none else follClimb t fuel q

/-- the outer `while (0 != pos)`; nodes are added with `addNodeInDocOrder`, which appends here because the nodes
arrive in increasing document order (`walk_following_eq_def`, `addNodeInDocOrder_sortedSet`) -/
def follNext (t : Tree) (ctx : Path) (pos : Path) : Option Path :=
  match (if pos != ctx then firstChild t pos else none) with
  | some n => some n
  | none => follClimb t (pos.length + 1) pos

def follWalk (t : Tree) (ctx : Path) : Nat → Path → List Path
  | 0, _ => []
  | fuel + 1, pos =>
    (if pos != ctx then [pos] else []) ++
      match follNext t ctx pos with
      | some n => follWalk t ctx fuel n
      | none => []

def findFollowingWalk (t : Tree) (ctx : Path) : List Path :=
  follWalk t ctx (t.paths.length + 1) ctx

/-! ### `XPath::findPreceeding` (XPath.cpp:4229-4345); `findTopNode` gives the document node -/

/-- the `isParent` loop: is `pos` on the parent chain of the context node? -/
def isOnParentChain (ctx pos : Path) : Bool :=
  (List.range ctx.length).any fun k => ctx.take k == pos

/-- the inner `while (0 == nextNode)`: `nextNode = pos->getNextSibling(); if (0 == nextNode) { pos = parent;
if (topNode == pos) { nextNode = 0; break; } }` -/
def precClimb (t : Tree) : Nat → Path → Option Path
  | 0, _ => none
  | fuel + 1, pos =>
    match nextSibling t pos with
    | some n => some n
    | none =>
      match parentOf pos with
      | none => none
      | some q => if q = [] then none else precClimb t fuel q

/-- the outer `while (0 != pos)`: pre-order from the top until the context node is met -/
def precNext (t : Tree) (ctx : Path) (pos : Path) : Option Path :=
  match (if lastIsAttr ctx = true ∧ some pos = parentOf ctx then some ctx else firstChild t pos) with
  | some n => some n
  | none => precClimb t (pos.length + 1) pos

def precWalk (t : Tree) (ctx : Path) : Nat → Path → List Path
  | 0, _ => []
  | fuel + 1, pos =>
    if ctx = pos then []
    else
      (if isOnParentChain ctx pos then [] else [pos]) ++
        match precNext t ctx pos with
        | some n => precWalk t ctx fuel n
        | none => []

/-- result after `subQueryResults.reverse()`; flagged `setReverseDocumentOrder()` -/
def findPrecedingWalk (t : Tree) (ctx : Path) : List Path :=
  (precWalk t ctx (t.paths.length + 1) []).reverse

/-! ### `XPath::findNamespace` (XPath.cpp:4439-4548) -/

/-- the attributes of element `e`, from the last to the first (`while (nAttrs > 0) { --nAttrs; … item(nAttrs) }`) -/
def attrsOfRev (t : Tree) (e : Path) : List Path :=
  match t.sub e with
  | some pt => (List.range pt.nattrs).reverse.map fun k => e ++ [Step.attr k]
  | none => []

/-- `do { attributes of theCurrentNode from the last to the first … } while (theCurrentNode != theOwnerDocument
&& theCurrentNode != 0)`, for an element context only, then `subQueryResults.reverse()`.  `keep` stands for "is a
namespace declaration, passes the node test and is not shadowed by a declaration already found". -/
def findNamespaceWalk (t : Tree) (keep : Path → Bool) (ctx : Path) : List Path :=
  if ctx = [] ∨ lastIsAttr ctx = true then []
  else
    (((List.range ctx.length).reverse.map fun k => ctx.take (k + 1)).flatMap fun e =>
      (attrsOfRev t e).filter keep).reverse

/-! ### all 13 axis functions -/

/-- what the axis function of a step leaves in `subQueryResults` (nodes in the order delivered by the walk, and
whether the code flags them reverse document order): the five walks above, and `findAxis` for the eight axes that
are already transcribed there.  `keep` is only consulted by the namespace axis. -/
def findAxisWalk (t : Tree) (keep : Path → Bool) : Axis → Path → List Path × Bool
  | .descendant, ctx => (findDescendantsWalk t ctx false, false)
  | .descendantOrSelf, ctx => (findDescendantsWalk t ctx true, false)
  | .following, ctx => (findFollowingWalk t ctx, false)
  | .preceding, ctx => (findPrecedingWalk t ctx, true)
  | .namespaces, ctx => (findNamespaceWalk t keep ctx, false)
  | a, ctx => findAxis t a ctx

/-- control skeletons of the four C++ functions transcribed above, as `translate/c12_walks.py` extracts them from
XPath.cpp (keywords, navigation calls, list calls and the pointer comparisons, in source order).  The obligation
`Props.C12.walkShapes_unchanged` compares them with what the translator finds in the working tree. -/
def expectedWalkShapes : List (String × String) := [
  ("findDescendants",
   "do if stepType==XPathExpression context!=pos if score!=eMatchScoreNone addNode getFirstChild while 0==nextNode if context==pos break getNextSibling if 0==nextNode getParentOfNode if context==pos pos==0 break while 0!=pos setDocumentOrder return"),
  ("findFollowing",
   "getOwnerDocument while 0!=pos if pos!=context if eMatchScoreNone!=score addNodeInDocOrder getFirstChild else while 0==nextNode if ATTRIBUTE_NODE getParentOfNode getFirstChild else getNextSibling if 0==nextNode getParentOfNode if doc==pos 0==pos break setDocumentOrder return"),
  ("findPreceeding",
   "findTopNode theType==XalanNode ATTRIBUTE_NODE contextIsAttribute==true getParentOfNode while 0!=pos if context==pos break if eMatchScoreNone!=score getParentOfNode while 0!=parent if parent==pos break getParentOfNode if isParent==false addNode if contextIsAttribute==true pos==theAttributeContextParent else getFirstChild while 0==nextNode getNextSibling if 0==nextNode getParentOfNode if topNode==pos break reverse setReverseDocumentOrder return"),
  ("findNamespace",
   "if ELEMENT_NODE getOwnerDocument do getAttributes if attributeList!=0 getLength while nAttrs>0 --nAttrs item if theNodeName==DOMServices ATTRIBUTE_NODE if score!=eMatchScoreNone if theNodeName==DOMServices theNodeValue==DOMServices for foundNSMatch==false if item if foundNSMatch==false addNode getParentNode while theCurrentNode!=theOwnerDocument theCurrentNode!=0 reverse setDocumentOrder return")]

end XalanModel.C12
