/-
C12 — `MutableNodeRefList` (src/xalanc/XPath/MutableNodeRefList.cpp) as written.

A node is what the list code can observe of a `XalanNode*`: which document it belongs to and its
position `idx` in that document's order (`idx = 0` is the document node itself, for which the DOM
reports `getOwnerDocument() == 0`).  `Env` carries the two things the list code asks the outside
world: `isIndexed()` of a node (a property of its document) and
`XPathExecutionContext::isNodeAfter`.

Transcribed: `findInsertionPointBinarySearch` (353-451), `findInsertionPointLinearSearch` (457-500),
`DocumentPredicate` / `IndexPredicate` / `ExecutionContextPredicate` (504-585),
`addNodeInDocOrder` (591-686), the three `addNodesInDocOrder` overloads (267-348), `clearNulls`
(691), `reverse` (715), `clear`, and `XPath::Union` (XPath.cpp:2172-2207).

Core Lean only (linked into `xm_c12`).
-/
namespace XalanModel.C12

structure NodeRef where
  doc : Nat
  idx : Nat
deriving DecidableEq, Repr

namespace NodeRef
/-- `getNodeType() == DOCUMENT_NODE` -/
def isDoc (n : NodeRef) : Bool := n.idx == 0
/-- `getOwnerDocument()`: null for a document node -/
def owner (n : NodeRef) : Option Nat := if n.isDoc then none else some n.doc
/-- "Normalize so that if we have a document node, it owns itself" (the `theFirstNodeOwner` idiom) -/
def normOwner (n : NodeRef) : Nat := n.doc
end NodeRef

structure Env where
  /-- `isIndexed()` of the nodes of a document -/
  indexed : Nat → Bool
  /-- `XPathExecutionContext::isNodeAfter(node1, node2)` (same document, no document nodes) -/
  after : NodeRef → NodeRef → Bool
  /-- `false`: `addNodeInDocOrder` as written in the tree; `true`: with `proposed/C12-docnode-first.diff`
  (a document node that owns the first element of the list is put at the front) -/
  docNodeFirst : Bool := false
  /-- `false`: the linear search as written in the tree; `true`: with `proposed/C12-multidoc-groups.diff`
  (the search keeps the nodes of one document together: it skips foreign nodes until it reaches the run of
  the node's document and stops at the end of that run) -/
  groupAware : Bool := false

inductive Order where
  | unknown | document | reverse
deriving DecidableEq, Repr

/-- result of the two search routines: the `insertionPoint` iterator (as an offset from `begin()`)
and the returned `fInsert` -/
structure Found where
  pos : Nat
  insert : Bool
deriving DecidableEq, Repr

/-- state of the `while (first <= last)` loop of the binary search when it is left -/
structure BSExit where
  first : Nat
  current : Nat
  curIdx : Nat
  insert : Bool
deriving DecidableEq, Repr

/-- the `while (first <= last)` loop; iterators are offsets from `begin`.  `fuel` bounds the number
of iterations (each one shrinks `last - first`). -/
def bsLoop (l : List NodeRef) (theIndex : Nat) : Nat → Nat → Nat → Nat → Nat → BSExit
  | 0, first, _, current, curIdx => ⟨first, current, curIdx, true⟩
  | fuel + 1, first, last, current, curIdx =>
    if first ≤ last then
      let current' := first + (last - first) / 2
      let curIdx' := (l.getD current' ⟨0, 0⟩).idx
      if theIndex < curIdx' then
        if current' = 0 then ⟨first, current', curIdx', true⟩
        else bsLoop l theIndex fuel first (current' - 1) current' curIdx'
      else if theIndex > curIdx' then
        bsLoop l theIndex fuel (current' + 1) last current' curIdx'
      else ⟨first, current', curIdx', false⟩
    else ⟨first, current, curIdx, true⟩

/-- `findInsertionPointBinarySearch(node, begin, end, insertionPoint)`; the list is non-empty -/
def findInsertionPointBinarySearch (node : NodeRef) (l : List NodeRef) : Found :=
  let theIndex := node.idx
  let endp := l.length
  let last := endp - 1
  if (l.getD last ⟨0, 0⟩).idx < theIndex then ⟨endp, true⟩
  else
    let x := bsLoop l theIndex (endp + 1) 0 last endp 0
    if theIndex ≠ x.curIdx then
      if x.current = endp ∨ x.first = endp then ⟨endp, x.insert⟩
      else if x.curIdx < theIndex then ⟨x.current + 1, x.insert⟩
      else ⟨x.current, x.insert⟩
    else ⟨0, x.insert⟩   -- insertionPoint is left unset; fInsert is false on this path

/-- `findInsertionPointLinearSearch` with the predicate `isNodeAfterPredicate(node, child)` -/
def findInsertionPointLinearSearch (pred : NodeRef → NodeRef → Bool) (node : NodeRef) :
    List NodeRef → Found
  | [] => ⟨0, true⟩
  | child :: rest =>
    if child = node then ⟨0, false⟩
    else if pred node child = false then ⟨0, true⟩
    else
      let r := findInsertionPointLinearSearch pred node rest
      ⟨r.pos + 1, r.insert⟩

/-- `DocumentPredicate` -/
def documentPredicate (n1 n2 : NodeRef) : Bool :=
  if n1.isDoc && n2.isDoc then true else n1.owner != n2.owner

/-- `IndexPredicate` -/
def indexPredicate (n1 n2 : NodeRef) : Bool :=
  if documentPredicate n1 n2 then true else decide (n1.idx > n2.idx)

/-- `ExecutionContextPredicate` -/
def executionContextPredicate (env : Env) (n1 n2 : NodeRef) : Bool :=
  if documentPredicate n1 n2 then true else env.after n1 n2

/-- `findInsertionPointLinearSearch` as in `proposed/C12-multidoc-groups.diff`; `found` is `fFoundOwner`;
the predicate is only consulted for two non-document nodes of one document -/
def findInsertionPointLinearSearchG (pred : NodeRef → NodeRef → Bool) (node : NodeRef) :
    List NodeRef → Bool → Found
  | [], _ => ⟨0, true⟩
  | child :: rest, found =>
    if child = node then ⟨0, false⟩
    else if child.normOwner ≠ node.normOwner then
      if found then ⟨0, true⟩
      else
        let r := findInsertionPointLinearSearchG pred node rest found
        ⟨r.pos + 1, r.insert⟩
    else if node.isDoc then ⟨0, true⟩
    else if !child.isDoc && (pred node child = false) then ⟨0, true⟩
    else
      let r := findInsertionPointLinearSearchG pred node rest true
      ⟨r.pos + 1, r.insert⟩

def insertAt (l : List NodeRef) (pos : Nat) (n : NodeRef) : List NodeRef :=
  l.take pos ++ n :: l.drop pos

/-- which search `addNodeInDocOrder` runs for a non-empty list whose last element is not `node` -/
def chooseSearch (env : Env) (node : NodeRef) (first last : NodeRef) (l : List NodeRef) : Found :=
  if env.indexed node.doc && (node.owner == some first.normOwner) then
    if first.normOwner = last.normOwner then findInsertionPointBinarySearch node l
    else if env.groupAware then findInsertionPointLinearSearchG (fun a b => decide (a.idx > b.idx)) node l false
    else findInsertionPointLinearSearch indexPredicate node l
  else if env.groupAware then findInsertionPointLinearSearchG env.after node l false
  else findInsertionPointLinearSearch (executionContextPredicate env) node l

/-- `MutableNodeRefList::addNodeInDocOrder(node, executionContext)` for a non-null node on a list
without null entries -/
def addNodeInDocOrder (env : Env) (l : List NodeRef) (node : NodeRef) : List NodeRef :=
  match l, l.getLast? with
  | first :: _, some last =>
    if last = node then l
    else if env.docNodeFirst && node.isDoc && (node.doc == first.normOwner) then
      -- `node == theFirstNodeOwner` (only with the proposed repair)
      if first = node then l else node :: l
    else
      let f := chooseSearch env node first last l
      if f.insert then insertAt l f.pos node else l
  | _, _ => [node]

/-- a list with its claimed order flag (`m_order`) -/
structure NList where
  nodes : List NodeRef
  order : Order
deriving DecidableEq, Repr

def NList.empty : NList := ⟨[], .unknown⟩

/-- `clear()` -/
def NList.clear (_ : NList) : NList := ⟨[], .unknown⟩

/-- `addNodesInDocOrder(const NodeRefListBase&)` / `(const XalanNodeList&)`: node by node -/
def addNodesInDocOrderBase (env : Env) (l : NList) (src : List NodeRef) : NList :=
  { l with nodes := src.foldl (addNodeInDocOrder env) l.nodes }

/-- `addNodesInDocOrder(const MutableNodeRefList&)`: trusts the order flag of the source when the
destination is empty; never touches the destination's own flag -/
def addNodesInDocOrderMutable (env : Env) (l : NList) (src : NList) : NList :=
  match src.order with
  | .unknown => addNodesInDocOrderBase env l src.nodes
  | .document =>
    if l.nodes.isEmpty then { l with nodes := src.nodes }
    else addNodesInDocOrderBase env l src.nodes
  | .reverse =>
    if l.nodes.isEmpty then { l with nodes := src.nodes.reverse }
    else addNodesInDocOrderBase env l src.nodes.reverse

/-- `reverse()` -/
def NList.reverse (l : NList) : NList :=
  ⟨l.nodes.reverse, match l.order with
    | .document => .reverse
    | .reverse => .document
    | .unknown => .unknown⟩

/-- `clearNulls()` on a vector that may hold null entries; returns the new vector and flag -/
def clearNulls (v : List (Option NodeRef)) (o : Order) : List NodeRef × Order :=
  let r := v.filterMap id
  (r, if r.isEmpty then .unknown else o)

/-- `operator=(const NodeRefListBase&)` (`NodeRefList::operator=`, NodeRefList.cpp:69-93): copies the
non-null entries only; the order flag becomes unknown -/
def assignBase (src : List (Option NodeRef)) : List NodeRef × Order :=
  (src.filterMap id, .unknown)

/-- `XPath::Union`: every operand is a location-path result (document order claimed) merged into
an initially empty result; `setDocumentOrder()` at the end -/
def union (env : Env) (operands : List (List NodeRef)) : NList :=
  let r := operands.foldl (fun acc o => addNodesInDocOrderMutable env acc ⟨o, .document⟩) NList.empty
  { r with order := .document }

/-- `XPath::step` (XPath.cpp:2976-3034), the merging part: `results` are the node lists the recursive call
delivers for the successive context nodes (each in document order); an empty one is skipped, the first
non-empty one is swapped in, later ones are merged with `addNodesInDocOrder` + `setDocumentOrder()` -/
def stepMerge (env : Env) (results : List (List NodeRef)) : NList :=
  let q := results.foldl (fun (q : NList) mnl =>
    if mnl.isEmpty then q
    else if !q.nodes.isEmpty then { addNodesInDocOrderMutable env q ⟨mnl, .document⟩ with order := .document }
    else ⟨mnl, .document⟩) ⟨[], .unknown⟩
  if q.nodes.isEmpty then { q with order := .document } else q

/-- `XPath::step`, the last step of a path: the axis result `subQueryResults` (reverse document order for a
reverse axis) becomes the query result, reversed when it is flagged reverse -/
def stepFinish (sub : NList) : NList :=
  if sub.nodes.isEmpty then ⟨[], .document⟩
  else if sub.order = .reverse then sub.reverse
  else sub

/-- `XPath::step` over a whole location path (XPath.cpp:2892-3034).  `axisRaw s ctx` is what the axis function
of step `s` (`findChildren`, `findAncestors`, … followed by `predicates`) leaves in `subQueryResults` for the
context node `ctx`: the nodes in the order found, flagged document order (forward axes) or reverse document
order (reverse axes).  For the last step that list is delivered through `stepFinish`; otherwise the rest of the
path is evaluated for each of its nodes *in the order found* and the results are merged by `stepMerge`. -/
def evalPath {σ : Type} (env : Env) (axisRaw : σ → NodeRef → NList) : List σ → NodeRef → NList
  | [], _ => ⟨[], .document⟩
  | [s], ctx => stepFinish (axisRaw s ctx)
  | s :: s2 :: rest, ctx =>
    stepMerge env ((axisRaw s ctx).nodes.map fun c => (evalPath env axisRaw (s2 :: rest) c).nodes)

end XalanModel.C12
