/-
C12 — documents, document order and the *structural* order comparison.

* `Tree`, `Step`, `Path`: a document as the XPath data model sees it for ordering purposes: every
  node has some attributes (which have no descendants) and an ordered list of children.  A node
  is addressed by the path from the document node (`[]`) down to it.
* `Tree.paths`: the nodes in document order (node, then its attributes, then its children,
  recursively) — the pre-order numbering the harness derives from the real tree by walking
  `getAttributes()/getFirstChild()/getNextSibling()`; the position in this list is what the indexed
  representations store in `getIndex()` (the harness checks `getIndex() = position + 1`).
* `isNodeAfterStructural`: transcription of `DOMServices::isNodeAfter` (non-indexed branch) and
  `DOMServices::isNodeAfterSibling` (src/xalanc/DOMSupport/DOMServices.cpp:1045-1267), pointer walks
  turned into path operations: `getParentOfNode` = `parentOf`, pointer equality = path equality.
  The parameter `fixedEdge` selects the "one is the ancestor of the other" edge as written in the
  tree (`nParents1 < nParents2`, `false`) or as in `proposed/C12-isnodeafter-ancestor.diff`
  (`nParents1 > nParents2`, `true`).

Core Lean only (linked into `xm_c12`).
-/
namespace XalanModel.C12

inductive Step where
  | attr (k : Nat)
  | child (k : Nat)
deriving DecidableEq, Repr

abbrev Path := List Step

inductive Tree where
  | node (nattrs : Nat) (kids : List Tree)
deriving Repr

namespace Tree

def nattrs : Tree → Nat
  | node na _ => na

def kids : Tree → List Tree
  | node _ ks => ks

mutual
/-- all nodes of the tree in document order, as paths from this node -/
def paths : Tree → List Path
  | node na ks => [] :: ((List.range na).map fun k => [Step.attr k]) ++ pathsKids 0 ks
def pathsKids (i : Nat) : List Tree → List Path
  | [] => []
  | t :: ts => (t.paths.map (Step.child i :: ·)) ++ pathsKids (i + 1) ts
end

/-- the subtree a path leads to (an attribute is a leaf) -/
def sub : Tree → Path → Option Tree
  | t, [] => some t
  | node na _, [Step.attr k] => if k < na then some (node 0 []) else none
  | _, Step.attr _ :: _ :: _ => none
  | node _ ks, Step.child k :: rest =>
    match ks[k]? with
    | some c => sub c rest
    | none => none

end Tree

/-- `DOMServices::getParentOfNode` (for an attribute: the owner element); `none` for the document -/
def parentOf : Path → Option Path
  | [] => none
  | p => some p.dropLast

def lastIsAttr (p : Path) : Bool :=
  match p.getLast? with
  | some (Step.attr _) => true
  | _ => false

def lastPos (p : Path) : Nat :=
  match p.getLast? with
  | some (Step.attr k) => k
  | some (Step.child k) => k
  | none => 0

/-- the two scanning loops of `isNodeAfterSibling` (over the attribute map / the sibling chain):
positions `0, 1, …` are visited in order; `k1`/`k2` are the positions of `child1`/`child2`. -/
def scanSiblings (k1 k2 : Nat) : List Nat → Bool → Bool → Bool
  | [], _, _ => false
  | i :: rest, found1, found2 =>
    if k1 = i then
      if found2 then true else scanSiblings k1 k2 rest true found2
    else if k2 = i then
      if found1 then false else scanSiblings k1 k2 rest found1 true
    else scanSiblings k1 k2 rest found1 found2

/-- `DOMServices::isNodeAfterSibling(parent, child1, child2)` -/
def isNodeAfterSibling (t : Tree) (parent child1 child2 : Path) : Bool :=
  let a1 := lastIsAttr child1
  let a2 := lastIsAttr child2
  if !a1 && a2 then true
  else if a1 && !a2 then false
  else
    match t.sub parent with
    | none => false
    | some pt =>
      if a1 then scanSiblings (lastPos child1) (lastPos child2) (List.range pt.nattrs) false false
      else scanSiblings (lastPos child1) (lastPos child2) (List.range pt.kids.length) false false

/-- `while (parent != 0) { n++; parent = getParentOfNode(*parent); }` -/
def countUp : Nat → Option Path → Nat
  | 0, _ => 0
  | _, none => 0
  | fuel + 1, some p => 1 + countUp fuel (parentOf p)

/-- `for (i = 0; i < adjust; i++) start = getParentOfNode(*start);` -/
def climb : Nat → Path → Path
  | 0, p => p
  | n + 1, p => climb n p.dropLast

/-- the "loop up the ancestor chain looking for common parent" of `isNodeAfter` -/
def commonLoop (t : Tree) (fixedEdge : Bool) (n1 n2 : Nat) :
    Nat → Option Path → Option Path → Option Path → Option Path → Bool
  | 0, _, _, _, _ => false
  | _, none, _, _, _ => false
  | fuel + 1, some s1, s2, prev1, prev2 =>
    if some s1 = s2 then
      match prev1, prev2 with
      | some c1, some c2 => isNodeAfterSibling t s1 c1 c2
      | _, _ =>
        -- edge condition: one is the ancestor of the other
        if fixedEdge then decide (n1 > n2) else decide (n1 < n2)
    else
      commonLoop t fixedEdge n1 n2 fuel (parentOf s1) (s2.bind parentOf) (some s1) s2

/-- `DOMServices::isNodeAfter(node1, node2)`, non-indexed branch.  Precondition of the C++ (asserted
there): both nodes are in the same document and neither is the document node. -/
def isNodeAfterStructural (t : Tree) (fixedEdge : Bool) (node1 node2 : Path) : Bool :=
  let parent1 := parentOf node1
  let parent2 := parentOf node2
  if parent1 = parent2 then
    match parent1 with
    | some p => isNodeAfterSibling t p node1 node2
    | none => false
  else
    let fuel := node1.length + node2.length + 2
    let nParents1 := 2 + countUp fuel parent1
    let nParents2 := 2 + countUp fuel parent2
    let start1 := if nParents1 > nParents2 then climb (nParents1 - nParents2) node1 else node1
    let start2 := if nParents1 < nParents2 then climb (nParents2 - nParents1) node2 else node2
    commonLoop t fixedEdge nParents1 nParents2 fuel (some start1) (some start2) none none

/-! ### specification: the document order of the XPath Recommendation (§5) on paths -/

/-- among the attributes/children of one node: attributes before children, each kind left to right -/
def stepLt : Step → Step → Bool
  | .attr i, .attr j => decide (i < j)
  | .attr _, .child _ => true
  | .child _, .attr _ => false
  | .child i, .child j => decide (i < j)

/-- "`p` occurs before `q` in document order": a node before its descendants (attributes included),
otherwise decided at the first step where the two paths part -/
def DocBefore : Path → Path → Bool
  | [], [] => false
  | [], _ :: _ => true
  | _ :: _, [] => false
  | a :: p, b :: q => if a = b then DocBefore p q else stepLt a b

/-! ### axis functions of `XPath::step` (XPath.cpp `findChildren`, `findAttributes`, `findParent`, `findAncestors`,
`findFollowingSiblings`, `findPreceedingSiblings`), as pointer walks over paths.  Result: the nodes in the order the
loop appends them, and whether the code then calls `setReverseDocumentOrder()` (else `setDocumentOrder()`). -/

def noAttrStep (p : Path) : Bool := p.all fun s => match s with | .child _ => true | .attr _ => false

inductive Axis where
  | child | attributes | parent | ancestor | followingSibling | precedingSibling
  | self | ancestorOrSelf | descendant | descendantOrSelf | following | preceding | namespaces
deriving DecidableEq, Repr

def findAxis (t : Tree) : Axis → Path → List Path × Bool
  | .child, ctx =>
    -- `getFirstChild()` / `getNextSibling()` loop
    match t.sub ctx with
    | some pt => ((List.range pt.kids.length).map fun k => ctx ++ [Step.child k], false)
    | none => ([], false)
  | .attributes, ctx =>
    -- loop over `getAttributes()`
    match t.sub ctx with
    | some pt => ((List.range pt.nattrs).map fun k => ctx ++ [Step.attr k], false)
    | none => ([], false)
  | .parent, ctx =>
    match parentOf ctx with
    | some p => ([p], false)
    | none => ([], false)
  | .ancestor, ctx =>
    -- `while ((context = getParentOfNode(*context)) != 0) add`: nearest first, flagged reverse
    (((List.range ctx.length).reverse).map fun k => ctx.take k, true)
  | .followingSibling, ctx =>
    -- `getNextSibling()` loop (an attribute and the document node have no siblings)
    if ctx = [] ∨ lastIsAttr ctx = true then ([], false)
    else
      match t.sub ctx.dropLast with
      | some pt =>
        ((List.range' (lastPos ctx + 1) (pt.kids.length - (lastPos ctx + 1))).map fun j =>
          ctx.dropLast ++ [Step.child j], false)
      | none => ([], false)
  | .precedingSibling, ctx =>
    -- `getPreviousSibling()` loop: nearest first, flagged reverse
    if ctx = [] ∨ lastIsAttr ctx = true then ([], true)
    else (((List.range (lastPos ctx)).reverse).map fun j => ctx.dropLast ++ [Step.child j], true)

  | .self, ctx => ([ctx], false)
  | .ancestorOrSelf, ctx =>
    -- `findAncestorsOrSelf`: the context node, then the parent walk; flagged reverse
    (((List.range (ctx.length + 1)).reverse).map fun k => ctx.take k, true)
  -- the remaining axes are given by their definition in the Recommendation, as a selection from the document-order
  -- walk (the visiting order of the C++ walks is compared with it by the correspondence runs only)
  | .descendant, ctx =>
    (t.paths.filter fun q => ctx.isPrefixOf q && (q != ctx) && noAttrStep (q.drop ctx.length), false)
  | .descendantOrSelf, ctx =>
    (t.paths.filter fun q => ctx.isPrefixOf q && noAttrStep (q.drop ctx.length), false)
  | .following, ctx =>
    (t.paths.filter fun q => DocBefore ctx q && !(ctx.isPrefixOf q) && noAttrStep q, false)
  | .preceding, ctx =>
    -- `findPreceeding`: delivered nearest first, flagged reverse
    ((t.paths.filter fun q => DocBefore q ctx && !(q.isPrefixOf ctx) && noAttrStep q).reverse, true)
  | .namespaces, ctx =>
    -- `findNamespace`: (namespace-declaration) attributes of the ancestor-or-self elements; after the final
    -- `reverse()` they are in document order
    (t.paths.filter fun q => lastIsAttr q && q.dropLast.isPrefixOf ctx && (q.dropLast != []) && !lastIsAttr ctx, false)

/-- index comparison (`node1.getIndex() > node2.getIndex()`) through the document-order list -/
def indexOf (t : Tree) (p : Path) : Nat := t.paths.idxOf p

end XalanModel.C12
