import XalanModel.C12.Tree
/-
Helper lemmas for Props/C12.lean: `DocBefore` is a strict total order, the pre-order walk
`Tree.paths` is strictly increasing for it, and the sibling scan of `isNodeAfterSibling`.
-/
namespace XalanModel.C12

theorem stepLt_irrefl (a : Step) : stepLt a a = false := by
  cases a <;> simp [stepLt]

theorem stepLt_asymm {a b : Step} (h : stepLt a b = true) : stepLt b a = false := by
  cases a <;> cases b <;> simp_all [stepLt] <;> omega

theorem stepLt_total {a b : Step} (h : a ≠ b) : stepLt a b = true ∨ stepLt b a = true := by
  cases a <;> cases b <;> simp_all [stepLt] <;> omega

theorem stepLt_trans {a b c : Step} (h1 : stepLt a b = true) (h2 : stepLt b c = true) : stepLt a c = true := by
  cases a <;> cases b <;> cases c <;> simp_all [stepLt] <;> omega

theorem DocBefore_irrefl : ∀ p : Path, DocBefore p p = false
  | [] => rfl
  | a :: p => by simp [DocBefore, DocBefore_irrefl p]

theorem DocBefore_asymm : ∀ {p q : Path}, DocBefore p q = true → DocBefore q p = false
  | [], [], h => by simp [DocBefore] at h
  | [], _ :: _, _ => rfl
  | _ :: _, [], h => by simp [DocBefore] at h
  | a :: p, b :: q, h => by
    unfold DocBefore at h ⊢
    by_cases hab : a = b
    · subst hab; simp only [if_true] at h ⊢; exact DocBefore_asymm h
    · have hba : ¬ b = a := fun e => hab e.symm
      simp only [hab, hba, if_false] at h ⊢
      exact stepLt_asymm h

theorem DocBefore_total : ∀ {p q : Path}, p ≠ q → DocBefore p q = true ∨ DocBefore q p = true
  | [], [], h => absurd rfl h
  | [], _ :: _, _ => Or.inl rfl
  | _ :: _, [], _ => Or.inr rfl
  | a :: p, b :: q, h => by
    unfold DocBefore
    by_cases hab : a = b
    · subst hab
      simp only [if_true]
      exact DocBefore_total (fun e => h (by rw [e]))
    · have hba : ¬ b = a := fun e => hab e.symm
      simp only [hab, hba, if_false]
      exact stepLt_total hab

theorem DocBefore_trans : ∀ {p q r : Path}, DocBefore p q = true → DocBefore q r = true → DocBefore p r = true
  | [], [], _, h, _ => by simp [DocBefore] at h
  | [], _ :: _, [], _, h => by simp [DocBefore] at h
  | [], _ :: _, _ :: _, _, _ => rfl
  | _ :: _, [], _, h, _ => by simp [DocBefore] at h
  | _ :: _, _ :: _, [], _, h => by simp [DocBefore] at h
  | a :: p, b :: q, c :: r, h1, h2 => by
    unfold DocBefore at h1 h2 ⊢
    by_cases hab : a = b
    · subst hab
      simp only [if_true] at h1
      by_cases hac : a = c
      · subst hac; simp only [if_true] at h2 ⊢; exact DocBefore_trans h1 h2
      · simp only [hac, if_false] at h2 ⊢; exact h2
    · simp only [hab, if_false] at h1
      by_cases hbc : b = c
      · subst hbc; simp only [hab, if_false]; exact h1
      · simp only [hbc, if_false] at h2
        have h3 := stepLt_trans h1 h2
        by_cases hac : a = c
        · subst hac; rw [stepLt_irrefl] at h3; cases h3
        · simp only [hac, if_false]; exact h3

/-! ### the pre-order walk is strictly increasing -/

theorem mem_pathsKids : ∀ (ts : List Tree) (i : Nat) (q : Path), q ∈ Tree.pathsKids i ts →
    ∃ j p, i ≤ j ∧ q = Step.child j :: p
  | [], _, _, h => by simp [Tree.pathsKids] at h
  | t :: ts, i, q, h => by
    simp only [Tree.pathsKids, List.mem_append, List.mem_map] at h
    rcases h with ⟨p, _, rfl⟩ | h
    · exact ⟨i, p, Nat.le_refl _, rfl⟩
    · obtain ⟨j, p, hj, e⟩ := mem_pathsKids ts (i + 1) q h
      exact ⟨j, p, by omega, e⟩

mutual
theorem paths_pairwise : ∀ t : Tree, t.paths.Pairwise (fun p q => DocBefore p q = true)
  | .node na ks => by
    simp only [Tree.paths]
    rw [List.cons_append, List.pairwise_cons]
    constructor
    · intro q hq
      rw [List.mem_append, List.mem_map] at hq
      rcases hq with ⟨k, _, rfl⟩ | hq
      · rfl
      · obtain ⟨j, p, _, rfl⟩ := mem_pathsKids ks 0 q hq; rfl
    · rw [List.pairwise_append]
      refine ⟨?_, pathsKids_pairwise ks 0, ?_⟩
      · rw [List.pairwise_map]
        have : (List.range na).Pairwise (· < ·) := List.pairwise_lt_range
        exact this.imp (fun {a b} h => by simp [DocBefore, stepLt, h]; omega)
      · intro a ha b hb
        rw [List.mem_map] at ha
        obtain ⟨k, _, rfl⟩ := ha
        obtain ⟨j, p, _, rfl⟩ := mem_pathsKids ks 0 b hb
        simp [DocBefore, stepLt]
theorem pathsKids_pairwise : ∀ (ts : List Tree) (i : Nat),
    (Tree.pathsKids i ts).Pairwise (fun p q => DocBefore p q = true)
  | [], _ => by simp [Tree.pathsKids]
  | t :: ts, i => by
    simp only [Tree.pathsKids]
    rw [List.pairwise_append]
    refine ⟨?_, pathsKids_pairwise ts (i + 1), ?_⟩
    · rw [List.pairwise_map]
      exact (paths_pairwise t).imp (fun {a b} h => by simpa [DocBefore] using h)
    · intro a ha b hb
      rw [List.mem_map] at ha
      obtain ⟨p, _, rfl⟩ := ha
      obtain ⟨j, p', hj, rfl⟩ := mem_pathsKids ts (i + 1) b hb
      have : ¬ (Step.child i = Step.child j) := by intro e; injection e; omega
      simp only [DocBefore, this, if_false, stepLt]
      simp; omega
end

theorem paths_nodup (t : Tree) : t.paths.Nodup := by
  have := paths_pairwise t
  exact this.imp (fun {a b} h e => by subst e; rw [DocBefore_irrefl] at h; cases h)

/-- position in the walk (the stored index) and the specification order agree -/
theorem indexOf_lt_iff (t : Tree) {p q : Path} (hp : p ∈ t.paths) (hq : q ∈ t.paths) :
    indexOf t p < indexOf t q ↔ DocBefore p q = true := by
  unfold indexOf
  have hpw := paths_pairwise t
  have hi : t.paths.idxOf p < t.paths.length := List.idxOf_lt_length_of_mem hp
  have hj : t.paths.idxOf q < t.paths.length := List.idxOf_lt_length_of_mem hq
  have gp : t.paths[t.paths.idxOf p] = p := List.getElem_idxOf hi
  have gq : t.paths[t.paths.idxOf q] = q := List.getElem_idxOf hj
  have key := List.pairwise_iff_getElem.mp hpw
  constructor
  · intro h
    have := key _ _ hi hj h
    rwa [gp, gq] at this
  · intro h
    by_cases hlt : t.paths.idxOf p < t.paths.idxOf q
    · exact hlt
    · exfalso
      by_cases heq : t.paths.idxOf p = t.paths.idxOf q
      · have : p = q := by rw [← gp, ← gq]; simp [heq]
        subst this; rw [DocBefore_irrefl] at h; cases h
      · have := key _ _ hj hi (by omega)
        rw [gp, gq] at this
        rw [DocBefore_asymm this] at h; cases h

/-! ### the sibling scan -/

theorem scan_after_found1 (k1 k2 : Nat) : ∀ (l : List Nat), k1 ∉ l →
    scanSiblings k1 k2 l true false = false
  | [], _ => rfl
  | i :: rest, h => by
    have h1 : ¬ k1 = i := fun e => h (by simp [e])
    have h2 : k1 ∉ rest := fun e => h (by simp [e])
    unfold scanSiblings
    simp only [h1, if_false]
    by_cases hk : k2 = i
    · simp [hk]
    · simp only [hk, if_false]; exact scan_after_found1 k1 k2 rest h2

theorem scan_after_found2 (k1 k2 : Nat) : ∀ (l : List Nat), k1 ∈ l → k2 ∉ l →
    scanSiblings k1 k2 l false true = true
  | [], h, _ => by simp at h
  | i :: rest, h, h' => by
    have h2 : ¬ k2 = i := fun e => h' (by simp [e])
    unfold scanSiblings
    by_cases hk : k1 = i
    · simp [hk]
    · simp only [hk, if_false, h2]
      have : k1 ∈ rest := by simpa [hk] using h
      exact scan_after_found2 k1 k2 rest this (fun e => h' (by simp [e]))

/-- scanning positions `s, s+1, …, s+m-1` with nothing found yet: whichever of the two distinct
positions comes later is "after" -/
theorem scan_range' (k1 k2 : Nat) (hne : k1 ≠ k2) : ∀ (m s : Nat), s ≤ k1 → s ≤ k2 → k1 < s + m → k2 < s + m →
    scanSiblings k1 k2 (List.range' s m) false false = decide (k1 > k2)
  | 0, s, h1, _, h3, _ => by omega
  | m + 1, s, h1, h2, h3, h4 => by
    rw [List.range'_succ]
    unfold scanSiblings
    by_cases e1 : k1 = s
    · simp only [e1, if_true, Bool.false_eq_true, if_false]
      subst e1
      rw [scan_after_found1 k1 k2 _ (by rw [List.mem_range'_1]; omega)]
      simp; omega
    · simp only [e1, if_false]
      by_cases e2 : k2 = s
      · simp only [e2, if_true, Bool.false_eq_true, if_false]
        subst e2
        rw [scan_after_found2 k1 k2 _ (by rw [List.mem_range'_1]; omega) (by rw [List.mem_range'_1]; omega)]
        simp; omega
      · simp only [e2, if_false]
        exact scan_range' k1 k2 hne m (s + 1) (by omega) (by omega) (by omega) (by omega)

theorem scan_range (k1 k2 n : Nat) (hne : k1 ≠ k2) (h1 : k1 < n) (h2 : k2 < n) :
    scanSiblings k1 k2 (List.range n) false false = decide (k1 > k2) := by
  rw [List.range_eq_range']
  exact scan_range' k1 k2 hne n 0 (Nat.zero_le _) (Nat.zero_le _) (by omega) (by omega)

end XalanModel.C12

namespace XalanModel.C12

/-! ### paths of the walk are valid; siblings -/

theorem mem_pathsKids' : ∀ (ts : List Tree) (i : Nat) (q : Path), q ∈ Tree.pathsKids i ts →
    ∃ j c p, ts[j]? = some c ∧ p ∈ c.paths ∧ q = Step.child (i + j) :: p
  | [], _, _, h => by simp [Tree.pathsKids] at h
  | t :: ts, i, q, h => by
    simp only [Tree.pathsKids, List.mem_append, List.mem_map] at h
    rcases h with ⟨p, hp, rfl⟩ | h
    · exact ⟨0, t, p, rfl, hp, rfl⟩
    · obtain ⟨j, c, p, hj, hp, e⟩ := mem_pathsKids' ts (i + 1) q h
      exact ⟨j + 1, c, p, by simpa using hj, hp, by rw [e]; congr 2; omega⟩

theorem paths_sub : ∀ (p : Path) (t : Tree), p ∈ t.paths → ∃ s, t.sub p = some s
  | [], t, _ => ⟨t, by cases t; rfl⟩
  | x :: p', .node na ks, h => by
    simp only [Tree.paths, List.cons_append, List.mem_cons, List.mem_append, List.mem_map, List.mem_range] at h
    rcases h with h | ⟨k, hk, e⟩ | h
    · cases h
    · injection e with e1 e2
      subst e1; subst e2
      exact ⟨.node 0 [], by simp [Tree.sub, hk]⟩
    · obtain ⟨j, c, p, hj, hp, e⟩ := mem_pathsKids' ks 0 _ h
      injection e with e1 e2
      subst e1; subst e2
      obtain ⟨s, hs⟩ := paths_sub p' c hp
      exact ⟨s, by simpa [Tree.sub, hj] using hs⟩

theorem sub_snoc_attr : ∀ (s : Path) (t : Tree) (k : Nat) (r : Tree), t.sub (s ++ [Step.attr k]) = some r →
    ∃ pt, t.sub s = some pt ∧ k < pt.nattrs
  | [], .node na ks, k, r, h => by
    simp only [List.nil_append, Tree.sub] at h
    refine ⟨.node na ks, rfl, ?_⟩
    by_cases hk : k < na
    · exact hk
    · simp [hk] at h
  | Step.attr _ :: s', .node na ks, k, r, h => by
    cases s' <;> simp [Tree.sub] at h
  | Step.child j :: s', .node na ks, k, r, h => by
    simp only [List.cons_append, Tree.sub] at h ⊢
    cases hj : ks[j]? with
    | none => simp [hj] at h
    | some c =>
      simp only [hj] at h ⊢
      exact sub_snoc_attr s' c k r h

theorem sub_snoc_child : ∀ (s : Path) (t : Tree) (k : Nat) (r : Tree), t.sub (s ++ [Step.child k]) = some r →
    ∃ pt, t.sub s = some pt ∧ k < pt.kids.length
  | [], .node na ks, k, r, h => by
    simp only [List.nil_append, Tree.sub] at h
    refine ⟨.node na ks, rfl, ?_⟩
    by_cases hk : k < ks.length
    · exact hk
    · have : ks[k]? = none := by simp; omega
      simp [this] at h
  | Step.attr _ :: s', .node na ks, k, r, h => by
    cases s' <;> simp [Tree.sub] at h
  | Step.child j :: s', .node na ks, k, r, h => by
    simp only [List.cons_append, Tree.sub] at h ⊢
    cases hj : ks[j]? with
    | none => simp [hj] at h
    | some c =>
      simp only [hj] at h ⊢
      exact sub_snoc_child s' c k r h

theorem DocBefore_append (s : Path) (p q : Path) : DocBefore (s ++ p) (s ++ q) = DocBefore p q := by
  induction s with
  | nil => rfl
  | cons x s ih => simp [DocBefore, ih]

theorem lastIsAttr_snoc (s : Path) (x : Step) :
    lastIsAttr (s ++ [x]) = (match x with | .attr _ => true | .child _ => false) := by
  unfold lastIsAttr
  simp only [List.getLast?_append, List.getLast?_singleton, Option.some_or]
  cases x <;> rfl

theorem lastPos_snoc (s : Path) (x : Step) :
    lastPos (s ++ [x]) = (match x with | .attr k => k | .child k => k) := by
  unfold lastPos
  simp only [List.getLast?_append, List.getLast?_singleton, Option.some_or]
  cases x <;> rfl

theorem parentOf_snoc (s : Path) (x : Step) : parentOf (s ++ [x]) = some s := by
  unfold parentOf
  cases h : s ++ [x] with
  | nil => simp at h
  | cons y r => rw [← h]; simp

/-- same parent: the structural comparison is the specification order (both variants of the edge) -/
theorem structural_siblings (t : Tree) (fx : Bool) (s : Path) (a b : Step) (hab : a ≠ b)
    (hp : s ++ [a] ∈ t.paths) (hq : s ++ [b] ∈ t.paths) :
    isNodeAfterStructural t fx (s ++ [a]) (s ++ [b]) = DocBefore (s ++ [b]) (s ++ [a]) := by
  obtain ⟨ra, hra⟩ := paths_sub _ t hp
  obtain ⟨rb, hrb⟩ := paths_sub _ t hq
  unfold isNodeAfterStructural
  simp only [parentOf_snoc, if_true]
  unfold isNodeAfterSibling
  rw [lastIsAttr_snoc, lastIsAttr_snoc, lastPos_snoc, lastPos_snoc, DocBefore_append]
  have hba : ¬ b = a := fun e => hab e.symm
  cases a with
  | attr i =>
    cases b with
    | attr j =>
      obtain ⟨pt, hpt, hi⟩ := sub_snoc_attr s t i ra hra
      obtain ⟨pt', hpt', hj⟩ := sub_snoc_attr s t j rb hrb
      rw [hpt] at hpt'; injection hpt' with e; subst e
      have hne : i ≠ j := fun e => hab (by rw [e])
      simp only [Bool.not_true, Bool.and_false, Bool.false_eq_true, if_false, hpt, if_true]
      rw [scan_range i j pt.nattrs hne hi hj]
      simp [DocBefore, hba, stepLt]
    | child j => simp [DocBefore, stepLt]
  | child i =>
    cases b with
    | attr j => simp [DocBefore, stepLt]
    | child j =>
      obtain ⟨pt, hpt, hi⟩ := sub_snoc_child s t i ra hra
      obtain ⟨pt', hpt', hj⟩ := sub_snoc_child s t j rb hrb
      rw [hpt] at hpt'; injection hpt' with e; subst e
      have hne : i ≠ j := fun e => hab (by rw [e])
      simp only [Bool.not_false, Bool.and_true, Bool.false_eq_true, if_false, Bool.and_false, hpt]
      rw [scan_range i j pt.kids.length hne hi hj]
      simp [DocBefore, hba, stepLt]

end XalanModel.C12
