import XalanModel.C12.Walks
import XalanModel.C12.AxesProofs
/-
The transcribed walks of `Walks.lean` visit exactly the nodes of the Recommendation's definition of their axis,
in document order.
-/
namespace XalanModel.C12

/-! ### the child-only pre-order list -/

mutual
def Tree.cpaths : Tree → List Path
  | .node _ ks => [] :: cpathsKids 0 ks
def cpathsKids (i : Nat) : List Tree → List Path
  | [] => []
  | t :: ts => (t.cpaths.map (Step.child i :: ·)) ++ cpathsKids (i + 1) ts
end

theorem noAttrStep_cons_child (i : Nat) (p : Path) : noAttrStep (Step.child i :: p) = noAttrStep p := by
  simp [noAttrStep]

mutual
theorem cpaths_eq_filter : ∀ t : Tree, t.cpaths = t.paths.filter noAttrStep
  | .node na ks => by
    simp only [Tree.cpaths, Tree.paths, List.cons_append, List.filter_cons]
    have h0 : noAttrStep [] = true := rfl
    simp only [h0, if_true, List.filter_append]
    have h1 : List.filter noAttrStep (List.map (fun k => [Step.attr k]) (List.range na)) = [] := by
      rw [List.filter_eq_nil_iff]
      intro a ha
      rw [List.mem_map] at ha
      obtain ⟨k, _, rfl⟩ := ha
      simp [noAttrStep]
    rw [h1, List.nil_append, cpathsKids_eq_filter ks 0]
theorem cpathsKids_eq_filter : ∀ (ts : List Tree) (i : Nat), cpathsKids i ts = (Tree.pathsKids i ts).filter noAttrStep
  | [], _ => by simp [cpathsKids, Tree.pathsKids]
  | t :: ts, i => by
    simp only [cpathsKids, Tree.pathsKids, List.filter_append, List.filter_map]
    rw [cpaths_eq_filter t, cpathsKids_eq_filter ts (i + 1)]
    congr 1
end

theorem cpaths_pairwise (t : Tree) : t.cpaths.Pairwise (fun p q => DocBefore p q = true) := by
  rw [cpaths_eq_filter]; exact (paths_pairwise t).sublist List.filter_sublist

theorem mem_cpaths (t : Tree) (q : Path) : q ∈ t.cpaths ↔ q ∈ t.paths ∧ noAttrStep q = true := by
  rw [cpaths_eq_filter, List.mem_filter]

/-! ### the successor in the child-only pre-order, by recursion from the root -/

/-- next node after the subtree of `p`: the next sibling of the nearest ancestor-or-self that has one -/
def nextUp : Tree → Path → Option Path
  | _, [] => none
  | .node _ ks, Step.child j :: rest =>
    match ks[j]? with
    | some c =>
      match nextUp c rest with
      | some y => some (Step.child j :: y)
      | none => if j + 1 < ks.length then some [Step.child (j + 1)] else none
    | none => none
  | _, Step.attr _ :: _ => none

/-- next node in the child-only pre-order -/
def nextIn (t : Tree) (p : Path) : Option Path :=
  match t.sub p with
  | some pt => if 0 < pt.kids.length then some (p ++ [Step.child 0]) else nextUp t p
  | none => none

/-- `l` is a run of the walk: each element is followed by its successor -/
inductive Linked (next : Path → Option Path) : List Path → Prop
  | nil : Linked next []
  | single (a : Path) : Linked next [a]
  | cons (a b : Path) (l : List Path) : next a = some b → Linked next (b :: l) → Linked next (a :: b :: l)

theorem Linked.append {next : Path → Option Path} : ∀ {l₁ l₂ : List Path} (h₁ : Linked next l₁) (h₂ : Linked next l₂)
    (hj : ∀ a b, l₁.getLast? = some a → l₂.head? = some b → next a = some b), Linked next (l₁ ++ l₂)
  | [], _, _, h₂, _ => h₂
  | [a], [], _, _, _ => Linked.single a
  | [a], b :: l₂, _, h₂, hj => Linked.cons a b l₂ (hj a b rfl rfl) h₂
  | a :: b :: l, l₂, h₁, h₂, hj => by
    cases h₁ with
    | cons _ _ _ hab hl =>
      exact Linked.cons a b (l ++ l₂) hab (Linked.append hl h₂ (fun x y hx hy => hj x y (by simpa using hx) hy))

theorem Linked.map {next next' : Path → Option Path} (f : Path → Path)
    (hf : ∀ a b, next a = some b → next' (f a) = some (f b)) :
    ∀ {l : List Path}, Linked next l → Linked next' (l.map f)
  | [], _ => Linked.nil
  | [a], _ => Linked.single (f a)
  | a :: b :: l, h => by
    cases h with
    | cons _ _ _ hab hl => exact Linked.cons (f a) (f b) (l.map f) (hf a b hab) (Linked.map f hf hl)

end XalanModel.C12

namespace XalanModel.C12

theorem cpaths_head (t : Tree) : ∃ l, t.cpaths = [] :: l := by
  cases t; exact ⟨_, rfl⟩

theorem cpaths_valid (t : Tree) {z : Path} (hz : z ∈ t.cpaths) : ∃ s, t.sub z = some s :=
  paths_sub z t ((mem_cpaths t z).1 hz).1

theorem nextIn_child (na : Nat) (ks : List Tree) (j : Nat) (c : Tree) (a : Path) (hj : ks[j]? = some c) :
    nextIn (.node na ks) (Step.child j :: a) =
      match nextIn c a with
      | some b => some (Step.child j :: b)
      | none =>
        match c.sub a with
        | some _ => if j + 1 < ks.length then some [Step.child (j + 1)] else none
        | none => none := by
  unfold nextIn
  simp only [Tree.sub, hj]
  cases hs : c.sub a with
  | none => simp
  | some pt =>
    simp only
    by_cases hk : 0 < pt.kids.length
    · simp [hk]
    · simp only [hk, if_false, nextUp, hj]

mutual
theorem cpaths_linked : ∀ t : Tree,
    Linked (nextIn t) t.cpaths ∧ ∀ z, t.cpaths.getLast? = some z → nextIn t z = none
  | .node na ks => by
    have hk := cpathsKids_linked na ks [] ks rfl
    simp only [Tree.cpaths]
    cases hc : cpathsKids 0 ks with
    | nil =>
      have hks : ks = [] := by
        cases ks with
        | nil => rfl
        | cons t ts =>
          obtain ⟨l, hl⟩ := cpaths_head t
          simp [cpathsKids, hl] at hc
      subst hks
      refine ⟨Linked.single [], ?_⟩
      intro z hz
      simp at hz; subst hz
      simp [nextIn, Tree.sub, Tree.kids, nextUp]
    | cons b l =>
      simp only [List.length_nil, hc] at hk
      have hks : ∃ t ts, ks = t :: ts := by
        cases ks with
        | nil => simp [cpathsKids] at hc
        | cons t ts => exact ⟨t, ts, rfl⟩
      obtain ⟨t, ts, rfl⟩ := hks
      have hb : b = [Step.child 0] := by
        obtain ⟨l', hl'⟩ := cpaths_head t
        simp [cpathsKids, hl'] at hc
        exact hc.1.symm
      refine ⟨Linked.cons [] b l ?_ hk.1, ?_⟩
      · rw [hb]; simp [nextIn, Tree.sub, Tree.kids]
      · intro z hz
        apply hk.2 z
        simpa using hz
theorem cpathsKids_linked : ∀ (na : Nat) (ks pre ts : List Tree), ks = pre ++ ts →
    Linked (nextIn (.node na ks)) (cpathsKids pre.length ts) ∧
      ∀ z, (cpathsKids pre.length ts).getLast? = some z → nextIn (.node na ks) z = none
  | _, _, _, [], _ => by simp [cpathsKids, Linked.nil]
  | na, ks, pre, t :: ts, hks => by
    have ht := cpaths_linked t
    have hrest := cpathsKids_linked na ks (pre ++ [t]) ts (by rw [hks]; simp)
    simp only [List.length_append, List.length_singleton] at hrest
    have hj : ks[pre.length]? = some t := by rw [hks]; simp
    obtain ⟨tl, htl⟩ := cpaths_head t
    have hlen : ks.length = pre.length + 1 + ts.length := by rw [hks]; simp; omega
    simp only [cpathsKids]
    -- the mapped run of the first kid
    have hmap : Linked (nextIn (.node na ks)) (t.cpaths.map (Step.child pre.length :: ·)) :=
      Linked.map _ (fun a b hab => by rw [nextIn_child na ks pre.length t a hj, hab]) ht.1
    -- last element of the first kid's run
    have hlastmap : ∀ z, (t.cpaths.map (Step.child pre.length :: ·)).getLast? = some z →
        nextIn (.node na ks) z = (if pre.length + 1 < ks.length then some [Step.child (pre.length + 1)] else none) := by
      intro z hz
      rw [List.getLast?_map] at hz
      cases hl : t.cpaths.getLast? with
      | none => rw [hl] at hz; simp at hz
      | some z' =>
        rw [hl] at hz
        simp only [Option.map_some, Option.some.injEq] at hz
        subst hz
        have hn := ht.2 z' hl
        obtain ⟨s, hs⟩ := cpaths_valid t (List.mem_of_getLast? hl)
        rw [nextIn_child na ks pre.length t z' hj, hn, hs]
    constructor
    · apply Linked.append hmap hrest.1
      intro a b ha hb
      rw [hlastmap a ha]
      cases ts with
      | nil => simp [cpathsKids] at hb
      | cons t2 ts2 =>
        obtain ⟨tl2, htl2⟩ := cpaths_head t2
        simp only [cpathsKids, htl2, List.map_cons, List.cons_append, List.head?_cons, Option.some.injEq] at hb
        subst hb
        have : pre.length + 1 < ks.length := by rw [hlen]; simp
        simp [this]
    · intro z hz
      cases ts with
      | nil =>
        simp only [cpathsKids, List.append_nil] at hz
        rw [hlastmap z hz]
        have : ¬ pre.length + 1 < ks.length := by rw [hlen]; simp
        simp [this]
      | cons t2 ts2 =>
        apply hrest.2 z
        obtain ⟨tl2, htl2⟩ := cpaths_head t2
        have hne : cpathsKids (pre.length + 1) (t2 :: ts2) ≠ [] := by simp [cpathsKids, htl2]
        rw [List.getLast?_append] at hz
        cases h2 : (cpathsKids (pre.length + 1) (t2 :: ts2)).getLast? with
        | none => simp at h2; exact absurd h2 hne
        | some x => rw [h2] at hz; simpa using hz
end

end XalanModel.C12

namespace XalanModel.C12

/-! ### a walk with fuel delivers its run -/

def iterWalk (next : Path → Option Path) (emit : Path → List Path) : Nat → Path → List Path
  | 0, _ => []
  | fuel + 1, pos =>
    emit pos ++ match next pos with
      | some n => iterWalk next emit fuel n
      | none => []

theorem iterWalk_linked (next : Path → Option Path) (emit : Path → List Path) :
    ∀ (l : List Path) (a : Path) (fuel : Nat), Linked next (a :: l) →
      (∀ z, (a :: l).getLast? = some z → next z = none) → l.length < fuel →
      iterWalk next emit fuel a = (a :: l).flatMap emit
  | [], a, fuel + 1, _, hlast, _ => by
    simp [iterWalk, hlast a rfl]
  | b :: l, a, fuel + 1, h, hlast, hf => by
    cases h with
    | cons _ _ _ hab hl =>
      have ih := iterWalk_linked next emit l b fuel hl
        (fun z hz => hlast z (by simpa using hz)) (by simp at hf; omega)
      simp only [iterWalk, hab, ih, List.flatMap_cons]
  | _, _, 0, _, _, hf => by omega

/-! ### pointer operations against the subtree view -/

theorem sub_append : ∀ (x y : Path) (t pt : Tree), t.sub x = some pt → t.sub (x ++ y) = pt.sub y
  | [], y, .node na ks, pt, h => by
    simp only [Tree.sub, Option.some.injEq] at h; subst h; rfl
  | Step.attr k :: x', y, .node na ks, pt, h => by
    cases x' with
    | nil =>
      simp only [Tree.sub] at h
      by_cases hk : k < na
      · simp only [hk, if_true, Option.some.injEq] at h
        subst h
        cases y with
        | nil => simp [Tree.sub, hk]
        | cons s y' => cases s <;> cases y' <;> simp [Tree.sub, hk]
      · simp [hk] at h
    | cons _ _ => simp [Tree.sub] at h
  | Step.child j :: x', y, .node na ks, pt, h => by
    simp only [List.cons_append, Tree.sub] at h ⊢
    cases hj : ks[j]? with
    | none => simp [hj] at h
    | some c =>
      simp only [hj] at h ⊢
      exact sub_append x' y c pt h

theorem nextUp_snoc : ∀ (r : Path) (pt pr : Tree) (k : Nat), pt.sub r = some pr → k < pr.kids.length →
    nextUp pt (r ++ [Step.child k]) =
      if k + 1 < pr.kids.length then some (r ++ [Step.child (k + 1)]) else nextUp pt r
  | [], .node na ks, pr, k, h, hk => by
    simp only [Tree.sub, Option.some.injEq] at h; subst h
    rw [show (Tree.node na ks).kids = ks from rfl] at hk ⊢
    have : ks[k]? = some ks[k] := List.getElem?_eq_getElem hk
    simp only [List.nil_append, nextUp, this]
  | Step.attr _ :: r', .node na ks, pr, k, h, _ => by
    cases r' <;> simp [Tree.sub] at h
    -- an attribute has no children
    rename_i hk; obtain ⟨_, rfl⟩ := h; simp [Tree.kids] at hk
  | Step.child j :: r', .node na ks, pr, k, h, hk => by
    simp only [Tree.sub] at h
    cases hj : ks[j]? with
    | none => simp [hj] at h
    | some c =>
      simp only [hj] at h
      have ih := nextUp_snoc r' c pr k h hk
      simp only [List.cons_append, nextUp, hj, ih]
      by_cases hlt : k + 1 < pr.kids.length
      · simp [hlt]
      · simp [hlt]

end XalanModel.C12

namespace XalanModel.C12

theorem Linked.map_mem {next next' : Path → Option Path} (f : Path → Path) :
    ∀ {l : List Path}, (∀ a ∈ l, ∀ b, next a = some b → next' (f a) = some (f b)) → Linked next l →
      Linked next' (l.map f)
  | [], _, _ => Linked.nil
  | [a], _, _ => Linked.single (f a)
  | a :: b :: l, hf, h => by
    cases h with
    | cons _ _ _ hab hl =>
      exact Linked.cons (f a) (f b) (l.map f) (hf a List.mem_cons_self b hab)
        (Linked.map_mem f (fun x hx y hxy => hf x (List.mem_cons_of_mem _ hx) y hxy) hl)

theorem pairwise_DocBefore_unique :
    ∀ (l₁ l₂ : List Path), l₁.Pairwise (fun p q => DocBefore p q = true) →
      l₂.Pairwise (fun p q => DocBefore p q = true) → (∀ m, m ∈ l₁ ↔ m ∈ l₂) → l₁ = l₂
  | [], [], _, _, _ => rfl
  | [], b :: _, _, _, h => by have := (h b).2 List.mem_cons_self; simp at this
  | a :: _, [], _, _, h => by have := (h a).1 List.mem_cons_self; simp at this
  | a :: l₁, b :: l₂, h1, h2, h => by
    have p1 := List.pairwise_cons.mp h1
    have p2 := List.pairwise_cons.mp h2
    have hab : a = b := by
      have ha : a ∈ b :: l₂ := (h a).1 List.mem_cons_self
      have hb : b ∈ a :: l₁ := (h b).2 List.mem_cons_self
      rw [List.mem_cons] at ha hb
      rcases ha with ha | ha
      · exact ha
      · rcases hb with hb | hb
        · exact hb.symm
        · have x := p1.1 b hb; have y := p2.1 a ha
          rw [DocBefore_asymm x] at y; cases y
    subst hab
    have ht : l₁ = l₂ := by
      apply pairwise_DocBefore_unique l₁ l₂ p1.2 p2.2
      intro m
      constructor
      · intro hm
        have := (h m).1 (List.mem_cons_of_mem _ hm)
        rw [List.mem_cons] at this
        rcases this with e | e
        · have x := p1.1 m hm; rw [e, DocBefore_irrefl] at x; cases x
        · exact e
      · intro hm
        have := (h m).2 (List.mem_cons_of_mem _ hm)
        rw [List.mem_cons] at this
        rcases this with e | e
        · have x := p2.1 m hm; rw [e, DocBefore_irrefl] at x; cases x
        · exact e
    rw [ht]

/-! ### `findDescendants` -/

theorem noAttrStep_append (a b : Path) : noAttrStep (a ++ b) = (noAttrStep a && noAttrStep b) := by
  simp [noAttrStep, List.all_append]

theorem descClimb_eq (t : Tree) (B : Path) (pt : Tree) (hB : t.sub B = some pt) :
    ∀ (n : Nat) (r : Path) (fuel : Nat), r.length = n → noAttrStep r = true → (∃ s, pt.sub r = some s) →
      n < fuel → descClimb t B fuel (B ++ r) = (nextUp pt r).map (B ++ ·)
  | 0, r, fuel + 1, hr, _, _, _ => by
    have : r = [] := List.length_eq_zero_iff.mp hr
    subst this
    simp [descClimb, nextUp]
  | n + 1, r, fuel + 1, hr, hna, ⟨s, hs⟩, hf => by
    rcases List.eq_nil_or_concat r with e | ⟨r', x, e⟩
    · subst e; simp at hr
    · subst e
      simp only [List.concat_eq_append] at hr hna hs ⊢
      have hr' : r'.length = n := by simp at hr; omega
      rw [noAttrStep_append] at hna
      simp only [Bool.and_eq_true] at hna
      cases x with
      | attr k => simp [noAttrStep] at hna
      | child k =>
        obtain ⟨pr, hpr, hk⟩ := sub_snoc_child r' pt k s hs
        have hsubt : t.sub (B ++ r') = some pr := by rw [sub_append B r' t pt hB]; exact hpr
        have hpos : B ++ (r' ++ [Step.child k]) = (B ++ r') ++ [Step.child k] := by simp
        have hne : ¬ (B = (B ++ r') ++ [Step.child k]) := by
          intro e; have := congrArg List.length e; simp at this
        have hns : nextSibling t ((B ++ r') ++ [Step.child k]) =
            if k + 1 < pr.kids.length then some ((B ++ r') ++ [Step.child (k + 1)]) else none := by
          unfold nextSibling
          have h1 : ¬ ((B ++ r') ++ [Step.child k] = [] ∨ lastIsAttr ((B ++ r') ++ [Step.child k]) = true) := by
            rw [lastIsAttr_snoc]; simp
          rw [if_neg h1, List.dropLast_concat, hsubt, lastPos_snoc]
        rw [hpos]
        unfold descClimb
        rw [if_neg hne, hns, nextUp_snoc r' pt pr k hpr hk]
        by_cases hlt : k + 1 < pr.kids.length
        · simp [hlt]
        · simp only [hlt, if_false, parentOf_snoc]
          by_cases hre : r' = []
          · subst hre; simp [nextUp]
          · have hne2 : ¬ (B = B ++ r') := by
              intro e
              have h2 : r'.length = 0 := by
                have := congrArg List.length e; rw [List.length_append] at this; omega
              exact hre (List.length_eq_zero_iff.mp h2)
            rw [if_neg hne2]
            exact descClimb_eq t B pt hB n r' fuel hr' hna.1 ⟨pr, hpr⟩ (Nat.lt_of_succ_lt_succ hf)
  | _, _, 0, _, _, _, hf => by omega

theorem descWalk_eq_iter (t : Tree) (ctx : Path) (orSelf : Bool) : ∀ (fuel : Nat) (pos : Path),
    descWalk t ctx orSelf fuel pos =
      iterWalk (descNext t ctx) (fun p => if orSelf || (ctx != p) then [p] else []) fuel pos
  | 0, _ => rfl
  | fuel + 1, pos => by
    simp only [descWalk, iterWalk]
    cases descNext t ctx pos with
    | none => rfl
    | some n => simp only; rw [descWalk_eq_iter t ctx orSelf fuel n]

theorem descNext_eq (t : Tree) (ctx : Path) (pt : Tree) (hB : t.sub ctx = some pt) (r : Path)
    (hr : r ∈ pt.cpaths) : descNext t ctx (ctx ++ r) = (nextIn pt r).map (ctx ++ ·) := by
  obtain ⟨s, hs⟩ := cpaths_valid pt hr
  have hna := ((mem_cpaths pt r).1 hr).2
  unfold descNext firstChild nextIn
  rw [sub_append ctx r t pt hB, hs]
  simp only
  by_cases hk : 0 < s.kids.length
  · simp [hk]
  · simp only [hk, if_false]
    rw [descClimb_eq t ctx pt hB r.length r _ rfl hna ⟨s, hs⟩ (by simp; omega)]

end XalanModel.C12

namespace XalanModel.C12

theorem flatMap_ite_singleton (f : Path → Bool) : ∀ l : List Path,
    l.flatMap (fun p => if f p then [p] else []) = l.filter f
  | [] => rfl
  | a :: l => by
    simp only [List.flatMap_cons, List.filter_cons, flatMap_ite_singleton f l]
    cases f a <;> simp

theorem cpaths_length_le (t : Tree) : t.cpaths.length ≤ t.paths.length := by
  rw [cpaths_eq_filter]; exact List.length_filter_le _ _

theorem findDescendantsWalk_eq_cpaths (t : Tree) (ctx : Path) (pt : Tree) (hB : t.sub ctx = some pt)
    (orSelf : Bool) :
    findDescendantsWalk t ctx orSelf =
      (pt.cpaths.map (ctx ++ ·)).filter (fun p => orSelf || (ctx != p)) := by
  unfold findDescendantsWalk
  rw [hB]
  simp only
  rw [descWalk_eq_iter]
  obtain ⟨l, hl⟩ := cpaths_head pt
  have hlk := cpaths_linked pt
  have hlinked : Linked (descNext t ctx) (pt.cpaths.map (ctx ++ ·)) := by
    apply Linked.map_mem (next := nextIn pt) (ctx ++ ·) _ hlk.1
    intro a ha b hab
    rw [descNext_eq t ctx pt hB a ha, hab]; rfl
  have hlast : ∀ z, (pt.cpaths.map (ctx ++ ·)).getLast? = some z → descNext t ctx z = none := by
    intro z hz
    rw [List.getLast?_map] at hz
    cases hg : pt.cpaths.getLast? with
    | none => rw [hg] at hz; simp at hz
    | some z' =>
      rw [hg] at hz
      simp only [Option.map_some, Option.some.injEq] at hz
      subst hz
      rw [descNext_eq t ctx pt hB z' (List.mem_of_getLast? hg), hlk.2 z' hg]; rfl
  rw [hl] at hlinked hlast
  simp only [List.map_cons, List.append_nil] at hlinked hlast
  have hfuel : (l.map (ctx ++ ·)).length < pt.paths.length + 1 := by
    have := cpaths_length_le pt
    rw [hl] at this
    simp at this ⊢; omega
  rw [iterWalk_linked _ _ (l.map (ctx ++ ·)) ctx _ hlinked hlast hfuel, flatMap_ite_singleton, hl]
  simp

theorem mem_cpaths_map (t : Tree) (ctx : Path) (pt : Tree) (hB : t.sub ctx = some pt) (q : Path) :
    q ∈ pt.cpaths.map (ctx ++ ·) ↔ q ∈ t.paths ∧ ctx.isPrefixOf q = true ∧ noAttrStep (q.drop ctx.length) = true := by
  rw [List.mem_map]
  constructor
  · rintro ⟨r, hr, rfl⟩
    obtain ⟨hrp, hrn⟩ := (mem_cpaths pt r).1 hr
    obtain ⟨s, hs⟩ := paths_sub r pt hrp
    refine ⟨sub_mem_paths _ t s (by rw [sub_append ctx r t pt hB]; exact hs), ?_, ?_⟩
    · rw [List.isPrefixOf_iff_prefix]; exact List.prefix_append _ _
    · rw [List.drop_left]; exact hrn
  · rintro ⟨hq, hp, hn⟩
    rw [List.isPrefixOf_iff_prefix] at hp
    obtain ⟨r, rfl⟩ := hp
    rw [List.drop_left] at hn
    obtain ⟨s, hs⟩ := paths_sub _ t hq
    rw [sub_append ctx r t pt hB] at hs
    exact ⟨r, (mem_cpaths pt r).2 ⟨sub_mem_paths r pt s hs, hn⟩, rfl⟩

theorem cpaths_map_pairwise (pt : Tree) (ctx : Path) :
    (pt.cpaths.map (ctx ++ ·)).Pairwise (fun p q => DocBefore p q = true) := by
  rw [List.pairwise_map]
  exact (cpaths_pairwise pt).imp (fun {a b} h => by rw [DocBefore_append]; exact h)

/-- **`findDescendants` (descendant axis) visits exactly the nodes of the definition, in document order** -/
theorem walk_descendant_eq_def' (t : Tree) (ctx : Path) (hc : ctx ∈ t.paths) :
    findDescendantsWalk t ctx false = (findAxis t .descendant ctx).1 ∧
    findDescendantsWalk t ctx true = (findAxis t .descendantOrSelf ctx).1 := by
  obtain ⟨pt, hB⟩ := paths_sub ctx t hc
  constructor
  · rw [findDescendantsWalk_eq_cpaths t ctx pt hB false]
    apply pairwise_DocBefore_unique
    · exact (cpaths_map_pairwise pt ctx).sublist List.filter_sublist
    · exact (paths_pairwise t).sublist List.filter_sublist
    · intro q
      simp only [findAxis, List.mem_filter, mem_cpaths_map t ctx pt hB q, Bool.false_or, bne_iff_ne, ne_eq,
        Bool.and_eq_true]
      constructor
      · rintro ⟨⟨h1, h2, h3⟩, h4⟩; exact ⟨h1, ⟨h2, fun e => h4 e.symm⟩, h3⟩
      · rintro ⟨h1, ⟨h2, h4⟩, h3⟩; exact ⟨⟨h1, h2, h3⟩, fun e => h4 e.symm⟩
  · rw [findDescendantsWalk_eq_cpaths t ctx pt hB true]
    apply pairwise_DocBefore_unique
    · exact (cpaths_map_pairwise pt ctx).sublist List.filter_sublist
    · exact (paths_pairwise t).sublist List.filter_sublist
    · intro q
      simp only [findAxis, List.mem_filter, mem_cpaths_map t ctx pt hB q, Bool.true_or, and_true,
        Bool.and_eq_true]

end XalanModel.C12

namespace XalanModel.C12

/-! ### what `nextUp` means -/

theorem DocBefore_nil_right (p : Path) : DocBefore p [] = false := by
  cases p <;> rfl

theorem nextUp_valid : ∀ (ctx : Path) (t : Tree) (y : Path), nextUp t ctx = some y →
    (∃ s, t.sub y = some s) ∧ noAttrStep y = true ∧ y ≠ []
  | [], _, _, h => by simp [nextUp] at h
  | Step.attr _ :: _, .node _ _, _, h => by simp [nextUp] at h
  | Step.child j :: rest, .node na ks, y, h => by
    simp only [nextUp] at h
    cases hj : ks[j]? with
    | none => simp [hj] at h
    | some c =>
      simp only [hj] at h
      cases hn : nextUp c rest with
      | some y' =>
        simp only [hn, Option.some.injEq] at h
        subst h
        obtain ⟨⟨s, hs⟩, hna, _⟩ := nextUp_valid rest c y' hn
        exact ⟨⟨s, by simp [Tree.sub, hj, hs]⟩, by rw [noAttrStep_cons_child]; exact hna, by simp⟩
      | none =>
        simp only [hn] at h
        by_cases hlt : j + 1 < ks.length
        · simp only [hlt, if_true, Option.some.injEq] at h
          subst h
          have : ks[j + 1]? = some ks[j + 1] := List.getElem?_eq_getElem hlt
          refine ⟨⟨ks[j + 1], ?_⟩, by simp [noAttrStep], by simp⟩
          simp only [Tree.sub, this]
        · simp [hlt] at h

/-- `nextUp ctx` is the first child-only node after `ctx` that is not a descendant of `ctx`: a child-only node `q`
is after `ctx` and outside its subtree iff it is not before `nextUp ctx` -/
theorem nextUp_spec : ∀ (ctx : Path) (t : Tree) (q : Path),
    (∃ s, t.sub ctx = some s) → noAttrStep ctx = true → (∃ s, t.sub q = some s) → noAttrStep q = true →
    (DocBefore ctx q && !ctx.isPrefixOf q) =
      (match nextUp t ctx with
       | some y => !DocBefore q y
       | none => false)
  | [], t, q, _, _, _, _ => by simp [nextUp, List.isPrefixOf]
  | Step.attr _ :: _, _, _, _, hn, _, _ => by simp [noAttrStep] at hn
  | Step.child j :: rest, .node na ks, q, ⟨s, hs⟩, hn, ⟨sq, hsq⟩, hqn => by
    simp only [Tree.sub] at hs
    cases hj : ks[j]? with
    | none => simp [hj] at hs
    | some c =>
      simp only [hj] at hs
      rw [noAttrStep_cons_child] at hn
      simp only [nextUp, hj]
      cases q with
      | nil =>
        simp only [DocBefore, Bool.false_and]
        cases hnu : nextUp c rest with
        | some y' => simp [DocBefore]
        | none => by_cases hlt : j + 1 < ks.length <;> simp [hlt, DocBefore]
      | cons st q' =>
        cases st with
        | attr k => simp [noAttrStep] at hqn
        | child i =>
          rw [noAttrStep_cons_child] at hqn
          simp only [Tree.sub] at hsq
          cases hi : ks[i]? with
          | none => simp [hi] at hsq
          | some c' =>
            simp only [hi] at hsq
            have hilen : i < ks.length := (List.getElem?_eq_some_iff.mp hi).1
            by_cases hij : i = j
            · subst hij
              rw [hj] at hi; injection hi with hi; subst hi
              have ih := nextUp_spec rest c q' ⟨s, hs⟩ hn ⟨sq, hsq⟩ hqn
              simp only [DocBefore, if_true, List.isPrefixOf, beq_self_eq_true, Bool.true_and]
              rw [ih]
              cases hnu : nextUp c rest with
              | some y' => simp [DocBefore]
              | none =>
                by_cases hlt : i + 1 < ks.length
                · have hne : ¬ (Step.child i = Step.child (i + 1)) := by intro e; injection e; omega
                  simp [hlt, DocBefore, hne, stepLt]
                · simp [hlt]
            · have hne : ¬ (Step.child j = Step.child i) := by intro e; injection e with e; exact hij e.symm
              have hne' : ¬ (Step.child i = Step.child j) := by intro e; injection e with e; exact hij e
              have hbeq : (Step.child j == Step.child i) = false := by simp [hne]
              simp only [DocBefore, hne, if_false, stepLt, List.isPrefixOf, hbeq, Bool.false_and, Bool.not_false,
                Bool.and_true]
              by_cases hlt : i < j
              · have h1 : ¬ j < i := by omega
                cases hnu : nextUp c rest with
                | some y' => simp [DocBefore, hne', stepLt, hlt, h1]
                | none =>
                  by_cases hl2 : j + 1 < ks.length
                  · have hne2 : ¬ (Step.child i = Step.child (j + 1)) := by intro e; injection e; omega
                    have : i < j + 1 := by omega
                    simp [hl2, DocBefore, hne2, stepLt, h1, this]
                  · simp [hl2, h1]
              · have h1 : j < i := by omega
                have hl2 : j + 1 < ks.length := by omega
                cases hnu : nextUp c rest with
                | some y' => simp [DocBefore, hne', stepLt, hlt, h1]
                | none =>
                  by_cases hi1 : i = j + 1
                  · subst hi1; simp [hl2, DocBefore, DocBefore_nil_right, h1]
                  · have hne2 : ¬ (Step.child i = Step.child (j + 1)) := by intro e; injection e with e; exact hi1 e
                    have : ¬ i < j + 1 := by omega
                    simp [hl2, DocBefore, hne2, stepLt, h1, this]

end XalanModel.C12

namespace XalanModel.C12

/-! ### generic facts about runs and sorted lists -/

theorem Linked.of_append {next : Path → Option Path} : ∀ (A : List Path) {B : List Path},
    Linked next (A ++ B) → Linked next B
  | [], _, h => h
  | [a], B, h => by
    cases B with
    | nil => exact Linked.nil
    | cons b B' => cases h with | cons _ _ _ _ hl => exact hl
  | a :: a' :: A, B, h => by
    cases h with
    | cons _ _ _ _ hl => exact Linked.of_append (a' :: A) hl

theorem Linked.congr_mem {next next' : Path → Option Path} :
    ∀ {l : List Path}, (∀ a ∈ l, next' a = next a) → Linked next l → Linked next' l
  | [], _, _ => Linked.nil
  | [a], _, _ => Linked.single a
  | a :: b :: l, hf, h => by
    cases h with
    | cons _ _ _ hab hl =>
      exact Linked.cons a b l (by rw [hf a List.mem_cons_self]; exact hab)
        (Linked.congr_mem (fun x hx => hf x (List.mem_cons_of_mem _ hx)) hl)

theorem Linked.head_next {next : Path → Option Path} {a : Path} {C : List Path} (h : Linked next (a :: C))
    (hlast : ∀ z, (a :: C).getLast? = some z → next z = none) : next a = C.head? := by
  cases C with
  | nil => simpa using hlast a rfl
  | cons c C' => cases h with | cons _ _ _ hab _ => simpa using hab

/-- a sorted list split at one of its members -/
theorem sorted_split {L : List Path} (hL : L.Pairwise (fun p q => DocBefore p q = true)) {y : Path} (hy : y ∈ L) :
    ∃ A C, L = A ++ y :: C ∧ (∀ q, q ∈ A ↔ q ∈ L ∧ DocBefore q y = true) ∧
      (∀ q, q ∈ C ↔ q ∈ L ∧ DocBefore y q = true) := by
  obtain ⟨A, C, hAC⟩ := List.append_of_mem hy
  subst hAC
  rw [List.pairwise_append, List.pairwise_cons] at hL
  obtain ⟨_, ⟨hyC, _⟩, hAyC⟩ := hL
  refine ⟨A, C, rfl, ?_, ?_⟩
  · intro q
    constructor
    · intro hq; exact ⟨by simp [hq], hAyC q hq y List.mem_cons_self⟩
    · rintro ⟨hq, hb⟩
      rw [List.mem_append, List.mem_cons] at hq
      rcases hq with h | h | h
      · exact h
      · rw [h, DocBefore_irrefl] at hb; cases hb
      · rw [DocBefore_asymm (hyC q h)] at hb; cases hb
  · intro q
    constructor
    · intro hq; exact ⟨by simp [hq], hyC q hq⟩
    · rintro ⟨hq, hb⟩
      rw [List.mem_append, List.mem_cons] at hq
      rcases hq with h | h | h
      · rw [DocBefore_asymm (hAyC q h y List.mem_cons_self)] at hb; cases hb
      · rw [h, DocBefore_irrefl] at hb; cases hb
      · exact h

theorem lastIsAttr_of_noAttr : ∀ (p : Path), noAttrStep p = true → lastIsAttr p = false := by
  intro p hp
  rcases List.eq_nil_or_concat p with e | ⟨p', x, e⟩
  · subst e; rfl
  · subst e
    simp only [List.concat_eq_append] at hp ⊢
    rw [lastIsAttr_snoc]
    rw [noAttrStep_append] at hp
    cases x with
    | attr k => simp [noAttrStep] at hp
    | child k => rfl

theorem noAttrStep_dropLast (p : Path) (hp : noAttrStep p = true) : noAttrStep p.dropLast = true := by
  rcases List.eq_nil_or_concat p with e | ⟨p', x, e⟩
  · subst e; rfl
  · subst e
    simp only [List.concat_eq_append, List.dropLast_concat] at hp ⊢
    rw [noAttrStep_append] at hp
    simp only [Bool.and_eq_true] at hp
    exact hp.1

theorem sub_nil (t : Tree) : t.sub [] = some t := by cases t; rfl

/-! ### `findFollowing` -/

theorem follClimb_eq_desc (t : Tree) : ∀ (fuel : Nat) (pos : Path), noAttrStep pos = true →
    follClimb t fuel pos = descClimb t [] fuel pos
  | 0, _, _ => rfl
  | fuel + 1, pos, hp => by
    unfold follClimb descClimb
    rw [lastIsAttr_of_noAttr pos hp]
    simp only [Bool.false_eq_true, if_false]
    by_cases hnil : pos = []
    · subst hnil; simp [nextSibling, parentOf]
    · have : ¬ ([] = pos) := fun e => hnil e.symm
      rw [if_neg this]
      cases nextSibling t pos with
      | some n => rfl
      | none =>
        simp only [parentOf_ne_nil hnil]
        by_cases hq : pos.dropLast = []
        · simp [hq]
        · have : ¬ ([] = pos.dropLast) := fun e => hq e.symm
          rw [if_neg hq, if_neg this]
          exact follClimb_eq_desc t fuel pos.dropLast (noAttrStep_dropLast pos hp)

theorem follNext_eq (t : Tree) (ctx pos : Path) (hne : pos ≠ ctx) (hp : pos ∈ t.cpaths) :
    follNext t ctx pos = nextIn t pos := by
  have hna := ((mem_cpaths t pos).1 hp).2
  have h := descNext_eq t [] t (sub_nil t) pos hp
  simp only [List.nil_append, Option.map_id'] at h
  rw [← h]
  unfold follNext descNext
  have : (pos != ctx) = true := by simpa using hne
  rw [this]
  simp only [if_true]
  cases firstChild t pos with
  | some n => rfl
  | none => exact follClimb_eq_desc t _ pos hna

theorem follWalk_eq_iter (t : Tree) (ctx : Path) : ∀ (fuel : Nat) (pos : Path),
    follWalk t ctx fuel pos = iterWalk (follNext t ctx) (fun p => if p != ctx then [p] else []) fuel pos
  | 0, _ => rfl
  | fuel + 1, pos => by
    simp only [follWalk, iterWalk]
    cases follNext t ctx pos with
    | none => rfl
    | some n => simp only; rw [follWalk_eq_iter t ctx fuel n]

/-- from a node `y` of the child-only pre-order, the walk of `findFollowing` runs to the end of the document -/
theorem follWalk_run (t : Tree) (ctx : Path) (A C : List Path) (y : Path) (hL : t.cpaths = A ++ y :: C)
    (hne : ∀ q ∈ y :: C, q ≠ ctx) (fuel : Nat) (hf : C.length < fuel) :
    follWalk t ctx fuel y = y :: C := by
  have hlk := cpaths_linked t
  rw [hL] at hlk
  have hmem : ∀ q ∈ y :: C, q ∈ t.cpaths := fun q hq => by rw [hL]; simp; right; simpa using hq
  have h1 : Linked (follNext t ctx) (y :: C) :=
    Linked.congr_mem (fun a ha => follNext_eq t ctx a (hne a ha) (hmem a ha)) (Linked.of_append A hlk.1)
  have h2 : ∀ z, (y :: C).getLast? = some z → follNext t ctx z = none := by
    intro z hz
    have hzm : z ∈ y :: C := List.mem_of_getLast? hz
    rw [follNext_eq t ctx z (hne z hzm) (hmem z hzm)]
    apply hlk.2 z
    rw [List.getLast?_append, hz]; rfl
  rw [follWalk_eq_iter, iterWalk_linked _ _ C y fuel h1 h2 hf, flatMap_ite_singleton]
  rw [List.filter_eq_self]
  intro q hq
  simpa using hne q hq

end XalanModel.C12

namespace XalanModel.C12

theorem valid_attr_last : ∀ (p : Path) (t s : Tree), t.sub p = some s → noAttrStep p = false →
    ∃ e k, p = e ++ [Step.attr k] ∧ noAttrStep e = true
  | [], _, _, _, h => by simp [noAttrStep] at h
  | Step.attr k :: p', .node na ks, s, hs, _ => by
    cases p' with
    | nil => exact ⟨[], k, rfl, rfl⟩
    | cons _ _ => simp [Tree.sub] at hs
  | Step.child j :: p', .node na ks, s, hs, hn => by
    simp only [Tree.sub] at hs
    cases hj : ks[j]? with
    | none => simp [hj] at hs
    | some c =>
      simp only [hj] at hs
      rw [noAttrStep_cons_child] at hn
      obtain ⟨e, k, he, hne⟩ := valid_attr_last p' c s hs hn
      exact ⟨Step.child j :: e, k, by rw [he]; rfl, by rw [noAttrStep_cons_child]; exact hne⟩

theorem DocBefore_attr_snoc_left : ∀ (e : Path) (k : Nat) (q : Path), noAttrStep q = true →
    DocBefore (e ++ [Step.attr k]) q = DocBefore e q ∧ (e ++ [Step.attr k]).isPrefixOf q = false
  | [], k, [], _ => by simp [DocBefore, List.isPrefixOf]
  | [], k, Step.child i :: q', _ => by simp [DocBefore, stepLt, List.isPrefixOf]
  | [], k, Step.attr i :: q', h => by simp [noAttrStep] at h
  | a :: e, k, [], _ => by simp [DocBefore, List.isPrefixOf]
  | a :: e, k, b :: q', h => by
    have hq' : noAttrStep q' = true := by
      cases b with
      | attr i => simp [noAttrStep] at h
      | child i => rwa [noAttrStep_cons_child] at h
    have ih := DocBefore_attr_snoc_left e k q' hq'
    by_cases hab : a = b
    · subst hab; simp [DocBefore, List.isPrefixOf, ih.1, ih.2]
    · simp [DocBefore, List.isPrefixOf, hab]

theorem DocBefore_attr_snoc_right : ∀ (e : Path) (k : Nat) (q : Path), noAttrStep q = true →
    DocBefore q (e ++ [Step.attr k]) = (DocBefore q e || (q == e))
  | [], k, [], _ => by simp [DocBefore]
  | [], k, Step.child i :: q', _ => by simp [DocBefore, stepLt]
  | [], k, Step.attr i :: q', h => by simp [noAttrStep] at h
  | a :: e, k, [], _ => by simp [DocBefore]
  | a :: e, k, b :: q', h => by
    have hq' : noAttrStep q' = true := by
      cases b with
      | attr i => simp [noAttrStep] at h
      | child i => rwa [noAttrStep_cons_child] at h
    have ih := DocBefore_attr_snoc_right e k q' hq'
    by_cases hab : b = a
    · subst hab; simp [DocBefore, ih]
    · have : ¬ (b :: q' = a :: e) := by intro h; injection h with h1 _; exact hab h1
      simp [DocBefore, hab, this]

theorem follNext_first_elem (t : Tree) (ctx : Path) (hc : ctx ∈ t.cpaths) :
    follNext t ctx ctx = nextUp t ctx := by
  have hna := ((mem_cpaths t ctx).1 hc).2
  obtain ⟨s, hs⟩ := cpaths_valid t hc
  unfold follNext
  simp only [bne_self_eq_false, Bool.false_eq_true, if_false]
  rw [follClimb_eq_desc t _ ctx hna]
  have := descClimb_eq t [] t (sub_nil t) ctx.length ctx (ctx.length + 1) rfl hna ⟨s, hs⟩ (by omega)
  simpa using this

theorem follNext_first_attr (t : Tree) (e : Path) (k : Nat) (he : e ∈ t.cpaths) :
    follNext t (e ++ [Step.attr k]) (e ++ [Step.attr k]) = nextIn t e := by
  have hna := ((mem_cpaths t e).1 he).2
  obtain ⟨s, hs⟩ := cpaths_valid t he
  unfold follNext
  simp only [bne_self_eq_false, Bool.false_eq_true, if_false]
  simp only [List.length_append, List.length_singleton]
  unfold follClimb
  rw [lastIsAttr_snoc]
  simp only [if_true, parentOf_snoc, Option.bind_some]
  unfold nextIn firstChild
  rw [hs]
  simp only
  by_cases hk : 0 < s.kids.length
  · simp [hk]
  · simp only [hk, if_false]
    by_cases hen : e = []
    · subst hen; simp [nextUp]
    · rw [if_neg hen, follClimb_eq_desc t _ e hna]
      have := descClimb_eq t [] t (sub_nil t) e.length e (e.length + 1) rfl hna ⟨s, hs⟩ (by omega)
      simpa using this

/-- **`findFollowing` visits exactly the nodes of the definition, in document order** — element, text, attribute
(namespace) and document context nodes alike -/
theorem walk_following_eq_def' (t : Tree) (ctx : Path) (hc : ctx ∈ t.paths) :
    findFollowingWalk t ctx = (findAxis t .following ctx).1 := by
  have hLp := cpaths_pairwise t
  unfold findFollowingWalk
  simp only [follWalk, bne_self_eq_false, Bool.false_eq_true, if_false, List.nil_append, findAxis]
  by_cases hna : noAttrStep ctx = true
  · -- the context node is on the child-only pre-order
    have hcc : ctx ∈ t.cpaths := (mem_cpaths t ctx).2 ⟨hc, hna⟩
    obtain ⟨s, hs⟩ := paths_sub ctx t hc
    rw [follNext_first_elem t ctx hcc]
    have spec := fun q (hq : q ∈ t.cpaths) => nextUp_spec ctx t q ⟨s, hs⟩ hna (cpaths_valid t hq) ((mem_cpaths t q).1 hq).2
    cases hnu : nextUp t ctx with
    | none =>
      simp only
      symm
      rw [List.filter_eq_nil_iff]
      intro q hq
      by_cases hqn : noAttrStep q = true
      · have := spec q ((mem_cpaths t q).2 ⟨hq, hqn⟩)
        rw [hnu] at this
        simp only at this
        simp [this]
      · simp [hqn]
    | some y =>
      simp only
      obtain ⟨⟨sy, hsy⟩, hyn, _⟩ := nextUp_valid ctx t y hnu
      have hy : y ∈ t.cpaths := (mem_cpaths t y).2 ⟨sub_mem_paths y t sy hsy, hyn⟩
      obtain ⟨A, C, hL, hA, hC⟩ := sorted_split hLp hy
      have hmemrun : ∀ q, q ∈ y :: C ↔ q ∈ t.cpaths ∧ DocBefore q y = false := by
        intro q
        rw [List.mem_cons, hC q]
        constructor
        · rintro (h | ⟨h1, h2⟩)
          · subst h; exact ⟨hy, DocBefore_irrefl q⟩
          · exact ⟨h1, DocBefore_asymm h2⟩
        · rintro ⟨h1, h2⟩
          by_cases e : q = y
          · exact Or.inl e
          · rcases DocBefore_total e with h | h
            · rw [h] at h2; cases h2
            · exact Or.inr ⟨h1, h⟩
      have hrun : ∀ q ∈ y :: C, (DocBefore ctx q && !ctx.isPrefixOf q) = true := by
        intro q hq
        obtain ⟨h1, h2⟩ := (hmemrun q).1 hq
        rw [spec q h1, hnu]; simp [h2]
      have hne : ∀ q ∈ y :: C, q ≠ ctx := by
        intro q hq e
        have := hrun q hq
        rw [e, DocBefore_irrefl] at this; simp at this
      have hfuel : C.length < t.paths.length := by
        have := cpaths_length_le t
        rw [hL] at this; simp at this; omega
      rw [follWalk_run t ctx A C y hL hne _ hfuel]
      apply pairwise_DocBefore_unique
      · rw [hL] at hLp; exact (List.pairwise_append.mp hLp).2.1
      · exact (paths_pairwise t).sublist List.filter_sublist
      · intro q
        rw [hmemrun q, List.mem_filter, mem_cpaths]
        constructor
        · rintro ⟨⟨h1, h2⟩, h3⟩
          have := spec q ((mem_cpaths t q).2 ⟨h1, h2⟩)
          rw [hnu] at this; simp only at this
          refine ⟨h1, ?_⟩
          rw [this, h3, h2]; rfl
        · rintro ⟨h1, h2⟩
          simp only [Bool.and_eq_true] at h2
          have := spec q ((mem_cpaths t q).2 ⟨h1, h2.2⟩)
          rw [hnu] at this; simp only at this
          refine ⟨⟨h1, h2.2⟩, ?_⟩
          have h3 : (DocBefore ctx q && !ctx.isPrefixOf q) = true := by simp [h2.1.1, h2.1.2]
          rw [this] at h3
          simpa using h3
  · -- an attribute (or namespace declaration) as context node
    have hnaf : noAttrStep ctx = false := by simpa using hna
    obtain ⟨s, hs⟩ := paths_sub ctx t hc
    obtain ⟨e, k, hek, hen⟩ := valid_attr_last ctx t s hs hnaf
    subst hek
    obtain ⟨se, hse⟩ := sub_prefix e [Step.attr k] t s hs
    have he : e ∈ t.cpaths := (mem_cpaths t e).2 ⟨sub_mem_paths e t se hse, hen⟩
    rw [follNext_first_attr t e k he]
    obtain ⟨A, C, hL, hA, hC⟩ := sorted_split hLp he
    have hlk := cpaths_linked t
    rw [hL] at hlk
    have hnext : nextIn t e = C.head? := by
      apply Linked.head_next (Linked.of_append A hlk.1)
      intro z hz
      apply hlk.2 z
      rw [List.getLast?_append, hz]; rfl
    rw [hnext]
    have hdef : ∀ q, q ∈ t.paths.filter (fun q => DocBefore (e ++ [Step.attr k]) q &&
        !(e ++ [Step.attr k]).isPrefixOf q && noAttrStep q) ↔ q ∈ C := by
      intro q
      rw [List.mem_filter, hC q, mem_cpaths]
      constructor
      · rintro ⟨h1, h2⟩
        simp only [Bool.and_eq_true] at h2
        rw [(DocBefore_attr_snoc_left e k q h2.2).1] at h2
        exact ⟨⟨h1, h2.2⟩, h2.1.1⟩
      · rintro ⟨⟨h1, h2⟩, h3⟩
        refine ⟨h1, ?_⟩
        rw [(DocBefore_attr_snoc_left e k q h2).1, (DocBefore_attr_snoc_left e k q h2).2, h3, h2]; rfl
    have hCp : C.Pairwise (fun p q => DocBefore p q = true) := by
      rw [hL] at hLp; exact (List.pairwise_cons.mp (List.pairwise_append.mp hLp).2.1).2
    cases C with
    | nil =>
      simp only [List.head?_nil]
      symm
      rw [List.filter_eq_nil_iff]
      intro q hq hp
      have := (hdef q).1 (List.mem_filter.mpr ⟨hq, hp⟩)
      simp at this
    | cons c C' =>
      simp only [List.head?_cons]
      have hne : ∀ q ∈ c :: C', q ≠ e ++ [Step.attr k] := by
        intro q hq e0
        have hqn := ((mem_cpaths t q).1 ((hC q).1 hq).1).2
        rw [e0, noAttrStep_append] at hqn
        simp [noAttrStep] at hqn
      have hL' : t.cpaths = (A ++ [e]) ++ c :: C' := by rw [hL]; simp
      have hfuel : C'.length < t.paths.length := by
        have := cpaths_length_le t
        rw [hL] at this; simp at this; omega
      rw [follWalk_run t _ (A ++ [e]) C' c hL' hne _ hfuel]
      apply pairwise_DocBefore_unique _ _ hCp ((paths_pairwise t).sublist List.filter_sublist)
      intro q
      exact (hdef q).symm

end XalanModel.C12

namespace XalanModel.C12

/-! ### `findPreceeding` -/

theorem Linked.of_append_left {next : Path → Option Path} : ∀ {A : List Path} (B : List Path),
    Linked next (A ++ B) → Linked next A
  | [], _, _ => Linked.nil
  | [a], _, _ => Linked.single a
  | a :: a' :: A, B, h => by
    cases h with
    | cons _ _ _ hab hl => exact Linked.cons a a' A hab (Linked.of_append_left B hl)

theorem Linked.junction {next : Path → Option Path} : ∀ {A : List Path} {e : Path} {C : List Path},
    Linked next (A ++ e :: C) → ∀ a, A.getLast? = some a → next a = some e
  | [], _, _, _, a, ha => by simp at ha
  | [x], e, C, h, a, ha => by
    simp at ha; subst ha
    cases h with | cons _ _ _ hab _ => exact hab
  | x :: x' :: A, e, C, h, a, ha => by
    cases h with
    | cons _ _ _ _ hl => exact Linked.junction hl a (by simpa using ha)

theorem precClimb_eq_desc (t : Tree) : ∀ (fuel : Nat) (pos : Path),
    precClimb t fuel pos = descClimb t [] fuel pos
  | 0, _ => rfl
  | fuel + 1, pos => by
    unfold precClimb descClimb
    by_cases hnil : pos = []
    · subst hnil; simp [nextSibling, parentOf]
    · have : ¬ ([] = pos) := fun e => hnil e.symm
      rw [if_neg this]
      cases nextSibling t pos with
      | some n => rfl
      | none =>
        simp only [parentOf_ne_nil hnil]
        by_cases hq : pos.dropLast = []
        · simp [hq]
        · have : ¬ ([] = pos.dropLast) := fun e => hq e.symm
          rw [if_neg hq, if_neg this]
          exact precClimb_eq_desc t fuel pos.dropLast

/-- away from the attribute context node's parent, `findPreceeding` steps like the pre-order successor -/
theorem precNext_eq (t : Tree) (ctx pos : Path) (hp : pos ∈ t.cpaths)
    (hnp : ¬ (lastIsAttr ctx = true ∧ some pos = parentOf ctx)) : precNext t ctx pos = nextIn t pos := by
  have h := descNext_eq t [] t (sub_nil t) pos hp
  simp only [List.nil_append, Option.map_id'] at h
  rw [← h]
  unfold precNext descNext
  rw [if_neg hnp]
  cases firstChild t pos with
  | some n => rfl
  | none => exact precClimb_eq_desc t _ pos

theorem precWalk_run (t : Tree) (ctx : Path) : ∀ (X : List Path) (a : Path) (fuel : Nat),
    Linked (precNext t ctx) (a :: X) → (a :: X).getLast? = some ctx →
    (∀ q ∈ (a :: X).dropLast, q ≠ ctx) → X.length < fuel →
    precWalk t ctx fuel a = ((a :: X).dropLast).filter (fun p => !isOnParentChain ctx p)
  | [], a, fuel + 1, _, hl, _, _ => by
    simp at hl; subst hl
    simp [precWalk]
  | b :: X, a, fuel + 1, h, hl, hne, hf => by
    cases h with
    | cons _ _ _ hab hlk =>
      have hac : ¬ (ctx = a) := fun e => hne a (by simp) e.symm
      have ih := precWalk_run t ctx X b fuel hlk (by simpa using hl)
        (fun q hq => hne q (by simp only [List.dropLast_cons₂, List.mem_cons]; exact Or.inr hq))
        (by simp at hf; omega)
      simp only [precWalk, if_neg hac, hab, ih, List.dropLast_cons₂, List.filter_cons]
      cases isOnParentChain ctx a <;> simp
  | _, _, 0, _, _, _, hf => by omega

theorem isOnParentChain_iff (ctx q : Path) : isOnParentChain ctx q = true ↔ q <+: ctx ∧ q ≠ ctx := by
  unfold isOnParentChain
  rw [List.any_eq_true]
  constructor
  · rintro ⟨k, hk, he⟩
    rw [List.mem_range] at hk
    have e : ctx.take k = q := by simpa using he
    subst e
    refine ⟨List.take_prefix k ctx, ?_⟩
    intro e
    have := congrArg List.length e
    rw [List.length_take] at this; omega
  · rintro ⟨⟨r, hr⟩, hne⟩
    refine ⟨q.length, ?_, ?_⟩
    · rw [List.mem_range, ← hr, List.length_append]
      have : r ≠ [] := by intro e; apply hne; rw [← hr, e, List.append_nil]
      have := List.length_pos_iff.mpr this
      omega
    · rw [← hr]; simp

/-- **`findPreceeding` visits exactly the nodes of the definition; it delivers them in reverse document order** -/
theorem walk_preceding_eq_def' (t : Tree) (ctx : Path) (hc : ctx ∈ t.paths) :
    findPrecedingWalk t ctx = (findAxis t .preceding ctx).1 := by
  have hLp := cpaths_pairwise t
  obtain ⟨l0, hl0⟩ := cpaths_head t
  unfold findPrecedingWalk
  simp only [findAxis]
  congr 1
  have hlk := cpaths_linked t
  by_cases hna : noAttrStep ctx = true
  · have hcc : ctx ∈ t.cpaths := (mem_cpaths t ctx).2 ⟨hc, hna⟩
    obtain ⟨A, C, hL, hA, hC⟩ := sorted_split hLp hcc
    have hla : lastIsAttr ctx = false := lastIsAttr_of_noAttr ctx hna
    have hL2 : t.cpaths = (A ++ [ctx]) ++ C := by rw [hL]; simp
    have hlinked : Linked (precNext t ctx) (A ++ [ctx]) := by
      apply Linked.congr_mem _ (Linked.of_append_left C (by rw [← hL2]; exact hlk.1))
      intro a ha
      exact precNext_eq t ctx a (by rw [hL2, List.mem_append]; exact Or.inl ha) (by simp [hla])
    -- the run starts at the document node
    have hstart : ∃ X, A ++ [ctx] = [] :: X := by
      cases A with
      | nil => rw [hl0] at hL; simp at hL; exact ⟨[], by rw [hL.1]; rfl⟩
      | cons a A' => rw [hl0] at hL; simp at hL; exact ⟨A' ++ [ctx], by rw [hL.1]; rfl⟩
    obtain ⟨X, hX⟩ := hstart
    have hfuel : X.length < t.paths.length + 1 := by
      have := cpaths_length_le t
      rw [hL2, hX] at this; simp at this; omega
    have hrun := precWalk_run t ctx X [] (t.paths.length + 1) (by rw [← hX]; exact hlinked)
      (by rw [← hX]; simp) (by
        rw [← hX, List.dropLast_concat]
        intro q hq e
        have := ((hA q).1 hq).2
        rw [e, DocBefore_irrefl] at this; cases this) hfuel
    rw [hrun, ← hX, List.dropLast_concat]
    apply pairwise_DocBefore_unique
    · rw [hL] at hLp; exact ((List.pairwise_append.mp hLp).1).sublist List.filter_sublist
    · exact (paths_pairwise t).sublist List.filter_sublist
    · intro q
      rw [List.mem_filter, hA q, List.mem_filter, mem_cpaths]
      simp only [Bool.and_eq_true, Bool.not_eq_true', ← Bool.not_eq_true, isOnParentChain_iff,
        List.isPrefixOf_iff_prefix]
      constructor
      · rintro ⟨⟨⟨h1, h2⟩, h3⟩, h4⟩
        have hne : q ≠ ctx := by intro e; rw [e, DocBefore_irrefl] at h3; cases h3
        exact ⟨h1, ⟨h3, fun hp => h4 ⟨hp, hne⟩⟩, h2⟩
      · rintro ⟨h1, ⟨h3, h4⟩, h2⟩
        exact ⟨⟨⟨h1, h2⟩, h3⟩, fun hp => h4 hp.1⟩
  · have hnaf : noAttrStep ctx = false := by simpa using hna
    obtain ⟨s, hs⟩ := paths_sub ctx t hc
    obtain ⟨e, k, hek, hen⟩ := valid_attr_last ctx t s hs hnaf
    subst hek
    obtain ⟨se, hse⟩ := sub_prefix e [Step.attr k] t s hs
    have he : e ∈ t.cpaths := (mem_cpaths t e).2 ⟨sub_mem_paths e t se hse, hen⟩
    obtain ⟨A, C, hL, hA, hC⟩ := sorted_split hLp he
    rw [hL] at hlk
    have hla : lastIsAttr (e ++ [Step.attr k]) = true := by rw [lastIsAttr_snoc]
    have hpar : parentOf (e ++ [Step.attr k]) = some e := parentOf_snoc e _
    have hAne : ∀ a ∈ A, a ≠ e := by
      intro a ha e0
      have := ((hA a).1 ha).2
      rw [e0, DocBefore_irrefl] at this; cases this
    have hlinkedA : Linked (precNext t (e ++ [Step.attr k])) A := by
      apply Linked.congr_mem _ (Linked.of_append_left (e :: C) hlk.1)
      intro a ha
      apply precNext_eq t _ a (by rw [hL]; simp [ha])
      rw [hpar]
      rintro ⟨_, h⟩
      injection h with h
      exact hAne a ha h
    have hnexte : precNext t (e ++ [Step.attr k]) e = some (e ++ [Step.attr k]) := by
      unfold precNext; rw [hpar]; simp [hla]
    have hlinked : Linked (precNext t (e ++ [Step.attr k])) (A ++ [e, e ++ [Step.attr k]]) := by
      apply Linked.append hlinkedA (Linked.cons _ _ [] hnexte (Linked.single _))
      intro a b ha hb
      simp at hb; subst hb
      rw [precNext_eq t _ a (by rw [hL]; simp [List.mem_of_getLast? ha]) (by
        rw [hpar]; rintro ⟨_, h⟩; injection h with h; exact hAne a (List.mem_of_getLast? ha) h)]
      exact Linked.junction hlk.1 a ha
    have hstart : ∃ X, A ++ [e, e ++ [Step.attr k]] = [] :: X := by
      cases A with
      | nil => rw [hl0] at hL; simp at hL; exact ⟨[e ++ [Step.attr k]], by rw [hL.1]; rfl⟩
      | cons a A' => rw [hl0] at hL; simp at hL; exact ⟨A' ++ [e, e ++ [Step.attr k]], by rw [hL.1]; rfl⟩
    obtain ⟨X, hX⟩ := hstart
    have hfuel : X.length < t.paths.length + 1 := by
      have := cpaths_length_le t
      have hx : X.length = A.length + 1 := by
        have := congrArg List.length hX; simp at this; omega
      rw [hL] at this; simp at this; omega
    have hdl : (A ++ [e, e ++ [Step.attr k]]).dropLast = A ++ [e] := by
      have : A ++ [e, e ++ [Step.attr k]] = (A ++ [e]) ++ [e ++ [Step.attr k]] := by simp
      rw [this, List.dropLast_concat]
    have hrun := precWalk_run t (e ++ [Step.attr k]) X [] (t.paths.length + 1) (by rw [← hX]; exact hlinked)
      (by rw [← hX]; simp) (by
        rw [← hX, hdl]
        intro q hq e0
        have hqn : noAttrStep q = true := by
          rw [List.mem_append] at hq
          rcases hq with h | h
          · exact ((mem_cpaths t q).1 ((hA q).1 h).1).2
          · simp at h; rw [h]; exact hen
        rw [e0, noAttrStep_append] at hqn
        simp [noAttrStep] at hqn) hfuel
    rw [hrun, ← hX, hdl]
    apply pairwise_DocBefore_unique
    · have : (A ++ [e]).Pairwise (fun p q => DocBefore p q = true) := by
        rw [hL] at hLp
        have h2 : A ++ e :: C = (A ++ [e]) ++ C := by simp
        rw [h2] at hLp
        exact (List.pairwise_append.mp hLp).1
      exact this.sublist List.filter_sublist
    · exact (paths_pairwise t).sublist List.filter_sublist
    · intro q
      rw [List.mem_filter, List.mem_filter, List.mem_append, hA q]
      simp only [Bool.and_eq_true, Bool.not_eq_true', ← Bool.not_eq_true, isOnParentChain_iff,
        List.isPrefixOf_iff_prefix, List.mem_singleton]
      constructor
      · rintro ⟨h | h, h4⟩
        · obtain ⟨hq, hb⟩ := h
          obtain ⟨h1, h2⟩ := (mem_cpaths t q).1 hq
          have hne : q ≠ e ++ [Step.attr k] := by
            intro e0; rw [e0, noAttrStep_append] at h2; simp [noAttrStep] at h2
          refine ⟨h1, ⟨?_, fun hp => h4 ⟨hp, hne⟩⟩, h2⟩
          rw [DocBefore_attr_snoc_right e k q h2, hb]; rfl
        · exfalso
          subst h
          apply h4
          refine ⟨List.prefix_append _ _, ?_⟩
          intro e0
          have := congrArg List.length e0
          simp at this
      · rintro ⟨h1, ⟨h3, h4⟩, h2⟩
        rw [DocBefore_attr_snoc_right e k q h2] at h3
        simp only [Bool.or_eq_true, beq_iff_eq] at h3
        rcases h3 with h3 | h3
        · exact ⟨Or.inl ⟨(mem_cpaths t q).2 ⟨h1, h2⟩, h3⟩, fun hp => h4 hp.1⟩
        · exfalso; apply h4; rw [h3]; exact List.prefix_append _ _

end XalanModel.C12

namespace XalanModel.C12

/-! ### `findNamespace` -/

/-- the selection `keep` (namespace declaration, node test, shadowing) only drops nodes -/
theorem findNamespaceWalk_keep (t : Tree) (keep : Path → Bool) (ctx : Path) :
    findNamespaceWalk t keep ctx = (findNamespaceWalk t (fun _ => true) ctx).filter keep := by
  unfold findNamespaceWalk
  split
  · rfl
  · rw [List.filter_reverse, List.filter_flatMap]
    simp

/-- the attributes of element `e`, first to last -/
def attrsOf (t : Tree) (e : Path) : List Path :=
  match t.sub e with
  | some pt => (List.range pt.nattrs).map fun k => e ++ [Step.attr k]
  | none => []

theorem attrsOfRev_reverse (t : Tree) (e : Path) : (attrsOfRev t e).reverse = attrsOf t e := by
  unfold attrsOfRev attrsOf
  cases t.sub e <;> simp

theorem noAttr_of_valid_not_lastAttr (p : Path) (t s : Tree) (hs : t.sub p = some s) (hl : lastIsAttr p = false) :
    noAttrStep p = true := by
  by_cases h : noAttrStep p = true
  · exact h
  · obtain ⟨e, k, he, _⟩ := valid_attr_last p t s hs (by simpa using h)
    rw [he, lastIsAttr_snoc] at hl; cases hl

theorem take_succ_child (ctx : Path) (hn : noAttrStep ctx = true) (i : Nat) (hi : i < ctx.length) :
    ∃ c, ctx.take (i + 1) = ctx.take i ++ [Step.child c] := by
  have h1 : ctx.take (i + 1) = ctx.take i ++ [ctx[i]] := by
    rw [List.take_succ, List.getElem?_eq_getElem hi]; rfl
  have h2 : noAttrStep [ctx[i]] = true := by
    have : ctx[i] ∈ ctx := List.getElem_mem hi
    unfold noAttrStep at hn ⊢
    rw [List.all_eq_true] at hn
    simp [hn _ this]
  cases hc : ctx[i] with
  | attr k => rw [hc] at h2; simp [noAttrStep] at h2
  | child c => exact ⟨c, by rw [h1, hc]⟩

/-- **`findNamespace` visits exactly the nodes of the definition (the attributes of the ancestor-or-self
elements; `keep` selects the namespace declarations in scope) and, after its `reverse()`, in document order** -/
theorem walk_namespace_eq_def' (t : Tree) (keep : Path → Bool) (ctx : Path) (hc : ctx ∈ t.paths) :
    findNamespaceWalk t keep ctx = ((findAxis t .namespaces ctx).1).filter keep := by
  rw [findNamespaceWalk_keep]
  congr 1
  obtain ⟨s, hs⟩ := paths_sub ctx t hc
  unfold findNamespaceWalk
  simp only [findAxis]
  by_cases hcond : ctx = [] ∨ lastIsAttr ctx = true
  · rw [if_pos hcond]
    symm
    rw [List.filter_eq_nil_iff]
    intro q _
    rcases hcond with h | h
    · subst h
      intro hp
      simp only [Bool.and_eq_true] at hp
      obtain ⟨⟨⟨_, h2⟩, h3⟩, _⟩ := hp
      have : q.dropLast = [] := by
        rw [List.isPrefixOf_iff_prefix] at h2; exact List.prefix_nil.mp h2
      simp [this] at h3
    · simp [h]
  · rw [if_neg hcond]
    have hne : ctx ≠ [] := fun e => hcond (Or.inl e)
    have hla : lastIsAttr ctx = false := by
      cases h : lastIsAttr ctx with
      | true => exact absurd (Or.inr h) hcond
      | false => rfl
    have hna : noAttrStep ctx = true := noAttr_of_valid_not_lastAttr ctx t s hs hla
    rw [List.reverse_flatMap, List.map_reverse, List.reverse_reverse, List.flatMap_map]
    have hW : List.flatMap (fun a => (List.reverse ∘ fun e => List.filter (fun _ => true) (attrsOfRev t e))
          (List.take (a + 1) ctx)) (List.range ctx.length) =
        (List.range ctx.length).flatMap (fun i => attrsOf t (ctx.take (i + 1))) := by
      congr 1
      funext i
      simp only [Function.comp]
      rw [List.filter_eq_self.mpr (by simp)]
      exact attrsOfRev_reverse t _
    rw [hW]
    apply pairwise_DocBefore_unique
    · rw [List.pairwise_flatMap]
      constructor
      · intro i _
        unfold attrsOf
        cases t.sub (ctx.take (i + 1)) with
        | none => exact List.Pairwise.nil
        | some pt =>
          simp only
          rw [List.pairwise_map]
          exact List.pairwise_lt_range.imp (fun {a b} h => DocBefore_snoc_attr _ a b h)
      · have hr : (List.range ctx.length).Pairwise (fun i j => i < j ∧ j < ctx.length) := by
          have h1 : (List.range ctx.length).Pairwise (· < ·) := List.pairwise_lt_range
          exact List.Pairwise.imp_of_mem (fun {a b} _ hb h => ⟨h, List.mem_range.mp hb⟩) h1
        refine hr.imp ?_
        intro i j ⟨hij, hj⟩ x hx y hy
        unfold attrsOf at hx hy
        cases h1 : t.sub (ctx.take (i + 1)) with
        | none => rw [h1] at hx; simp at hx
        | some p1 =>
          cases h2 : t.sub (ctx.take (j + 1)) with
          | none => rw [h2] at hy; simp at hy
          | some p2 =>
            rw [h1] at hx; rw [h2] at hy
            simp only [List.mem_map] at hx hy
            obtain ⟨a, _, rfl⟩ := hx
            obtain ⟨b, _, rfl⟩ := hy
            -- take (j+1) = take (i+1) ++ child c :: rest
            obtain ⟨c, hcs⟩ := take_succ_child ctx hna (i + 1) (by omega)
            have e1 : ctx.take (j + 1) = (ctx.take (j + 1)).take (i + 2) ++ (ctx.take (j + 1)).drop (i + 2) :=
              (List.take_append_drop _ _).symm
            rw [List.take_take, Nat.min_eq_left (by omega), hcs] at e1
            generalize (ctx.take (j + 1)).drop (i + 2) = R at e1
            have hpre : ctx.take (j + 1) = ctx.take (i + 1) ++ (Step.child c :: R) := by rw [e1]; simp
            rw [hpre, List.append_assoc, DocBefore_append]
            simp [DocBefore, stepLt]
    · exact (paths_pairwise t).sublist List.filter_sublist
    · intro q
      rw [List.mem_flatMap, List.mem_filter]
      simp only [hla, Bool.not_false, Bool.and_true, Bool.and_eq_true, bne_iff_ne, ne_eq,
        List.isPrefixOf_iff_prefix, List.mem_range]
      constructor
      · rintro ⟨i, hi, hq⟩
        unfold attrsOf at hq
        cases h1 : t.sub (ctx.take (i + 1)) with
        | none => rw [h1] at hq; simp at hq
        | some pt =>
          rw [h1] at hq
          simp only [List.mem_map, List.mem_range] at hq
          obtain ⟨a, ha, rfl⟩ := hq
          have hv : t.sub (ctx.take (i + 1) ++ [Step.attr a]) = some (.node 0 []) := by
            rw [sub_snoc _ t pt _ h1]; cases pt; simp [Tree.sub, Tree.nattrs] at ha ⊢; exact ha
          refine ⟨sub_mem_paths _ t _ hv, ⟨⟨?_, ?_⟩, ?_⟩⟩
          · rw [lastIsAttr_snoc]
          · rw [List.dropLast_concat]; exact List.take_prefix _ _
          · rw [List.dropLast_concat]
            intro e
            have := congrArg List.length e
            rw [List.length_take, List.length_nil] at this; omega
      · rintro ⟨hq, ⟨⟨h1, h2⟩, h3⟩⟩
        have hqne : q ≠ [] := by intro e; subst e; simp [lastIsAttr] at h1
        have e0 := (List.dropLast_concat_getLast hqne).symm
        obtain ⟨sq, hsq⟩ := paths_sub q t hq
        cases hg : q.getLast hqne with
        | child c => rw [e0, hg, lastIsAttr_snoc] at h1; cases h1
        | attr a =>
          rw [hg] at e0
          have hP : q.dropLast = ctx.take q.dropLast.length := List.prefix_iff_eq_take.mp h2
          have hlen1 : 0 < q.dropLast.length := List.length_pos_iff.mpr h3
          have hlen2 : q.dropLast.length ≤ ctx.length := h2.length_le
          refine ⟨q.dropLast.length - 1, by omega, ?_⟩
          have hidx : q.dropLast.length - 1 + 1 = q.dropLast.length := by omega
          rw [hidx, ← hP]
          obtain ⟨pt, hpt, hat⟩ := sub_snoc_attr q.dropLast t a sq (by rw [← e0]; exact hsq)
          unfold attrsOf
          rw [hpt]
          simp only [List.mem_map, List.mem_range]
          exact ⟨a, hat, e0.symm⟩

end XalanModel.C12
