import XalanModel.C12.NodeListProofs
/-
Several documents, with `proposed/C12-multidoc-groups.diff` (`Env.groupAware`): a list is kept as a
sequence of runs, one per document, each a document-ordered set.
-/
namespace XalanModel.C12

abbrev Runs := List (Nat × List NodeRef)

def flat (rs : Runs) : List NodeRef := rs.flatMap (·.2)

/-- one non-empty document-ordered run per document, no document twice -/
def ValidRuns (rs : Runs) : Prop :=
  (rs.map (·.1)).Nodup ∧ ∀ r ∈ rs, r.2 ≠ [] ∧ DocOrderedSet r.1 r.2

/-- nodes of different documents are never interleaved, no node occurs twice, document order inside
each document -/
def GroupedSet (l : List NodeRef) : Prop := ∃ rs, ValidRuns rs ∧ flat rs = l

theorem flat_cons (r : Nat × List NodeRef) (rs : Runs) : flat (r :: rs) = r.2 ++ flat rs := by
  simp [flat]

theorem mem_flat_doc {rs : Runs} (hv : ValidRuns rs) {m : NodeRef} (hm : m ∈ flat rs) : m.doc ∈ rs.map (·.1) := by
  unfold flat at hm
  rw [List.mem_flatMap] at hm
  obtain ⟨r, hr, hmr⟩ := hm
  rw [List.mem_map]
  exact ⟨r, hr, ((hv.2 r hr).2.1 m hmr).symm⟩

theorem validRuns_tail {r : Nat × List NodeRef} {rs : Runs} (hv : ValidRuns (r :: rs)) : ValidRuns rs :=
  ⟨(List.nodup_cons.mp (by simpa using hv.1)).2, fun x hx => hv.2 x (List.mem_cons_of_mem _ hx)⟩

theorem skip_foreign (pred : NodeRef → NodeRef → Bool) (n : NodeRef) :
    ∀ (pre rest : List NodeRef), (∀ c ∈ pre, c.doc ≠ n.doc) →
      findInsertionPointLinearSearchG pred n (pre ++ rest) false =
        ⟨(findInsertionPointLinearSearchG pred n rest false).pos + pre.length,
         (findInsertionPointLinearSearchG pred n rest false).insert⟩
  | [], rest, _ => by simp
  | c :: pre, rest, h => by
    have hc := h c List.mem_cons_self
    have hcn : ¬ c = n := fun e => hc (by rw [e])
    have hown : c.normOwner ≠ n.normOwner := by simpa [NodeRef.normOwner] using hc
    have ih := skip_foreign pred n pre rest (fun c' hc' => h c' (List.mem_cons_of_mem _ hc'))
    simp only [List.cons_append, findInsertionPointLinearSearchG, hcn, if_false, hown, ne_eq, not_false_eq_true,
      if_true, Bool.false_eq_true, ih, List.length_cons]
    rfl

theorem insertAt_append_left (l₁ l₂ : List NodeRef) (pos : Nat) (n : NodeRef) (h : pos ≤ l₁.length) :
    insertAt (l₁ ++ l₂) pos n = insertAt l₁ pos n ++ l₂ := by
  unfold insertAt
  rw [List.take_append_of_le_length h, List.drop_append_of_le_length h]
  simp

/-- the group-aware linear search on a valid sequence of runs keeps it one -/
theorem linearG_runs (pred : NodeRef → NodeRef → Bool) (n : NodeRef)
    (hp : ∀ c : NodeRef, c.doc = n.doc → c.idx ≠ 0 → n.idx ≠ 0 → pred n c = decide (n.idx > c.idx)) :
    ∀ (rs : Runs), ValidRuns rs →
      ∃ rs', ValidRuns rs' ∧
        flat rs' = (if (findInsertionPointLinearSearchG pred n (flat rs) false).insert
                    then insertAt (flat rs) (findInsertionPointLinearSearchG pred n (flat rs) false).pos n
                    else flat rs) ∧
        (∀ m, m ∈ flat rs' ↔ m = n ∨ m ∈ flat rs) ∧
        (∀ d ∈ rs'.map (·.1), d = n.doc ∨ d ∈ rs.map (·.1))
  | [], _ => by
    refine ⟨[(n.doc, [n])], ⟨by simp, ?_⟩, by simp [flat, findInsertionPointLinearSearchG, insertAt], by simp [flat], by simp⟩
    intro r hr
    simp at hr
    subst hr
    exact ⟨by simp, ⟨by simp, List.pairwise_singleton _ _⟩⟩
  | (d, run) :: rest, hv => by
    have hvt := validRuns_tail hv
    have hnd := List.nodup_cons.mp (by simpa using hv.1 : (d :: rest.map (·.1)).Nodup)
    have hrun : run ≠ [] ∧ DocOrderedSet d run := hv.2 (d, run) List.mem_cons_self
    rw [flat_cons]
    simp only
    by_cases hd : d = n.doc
    · -- the run of the node's own document
      have htail : ∀ c ∈ (flat rest).head?, c.doc ≠ d := by
        intro c hc
        have hcm : c ∈ flat rest := List.mem_of_mem_head? hc
        have := mem_flat_doc hvt hcm
        intro e; rw [e] at this; exact hnd.1 this
      have hg := linearG_own pred n hd.symm run (flat rest) false hrun.2
        (fun c hc hc0 hn0 => hp c (by rw [hrun.2.1 c hc, hd]) hc0 hn0) htail (Or.inl hrun.1)
      have hres := good_insert hrun.2 hd.symm hg
      generalize findInsertionPointLinearSearchG pred n (run ++ flat rest) false = f at hg hres
      by_cases hi : f.insert = true
      · rw [if_pos hi] at hres
        have hpos : f.pos ≤ run.length := by unfold GoodFound at hg; rw [if_pos hi] at hg; exact hg.1
        refine ⟨(d, insertAt run f.pos n) :: rest, ⟨by simpa using hv.1, ?_⟩, ?_, ?_, ?_⟩
        · intro r hr
          rw [List.mem_cons] at hr
          rcases hr with e | e
          · subst e
            refine ⟨?_, hres.1⟩
            intro e0
            have := (hres.2 n).2 (Or.inl rfl)
            simp only at e0
            rw [e0] at this; simp at this
          · exact hv.2 r (List.mem_cons_of_mem _ e)
        · rw [flat_cons, if_pos hi, insertAt_append_left _ _ _ _ hpos]
        · intro m
          rw [flat_cons, List.mem_append, List.mem_append, hres.2 m]
          constructor
          · rintro ((h | h) | h)
            · exact Or.inl h
            · exact Or.inr (Or.inl h)
            · exact Or.inr (Or.inr h)
          · rintro (h | h | h)
            · exact Or.inl (Or.inl h)
            · exact Or.inl (Or.inr h)
            · exact Or.inr h
        · intro d' hd'; exact Or.inr (by simpa using hd')
      · rw [if_neg hi] at hres
        refine ⟨(d, run) :: rest, hv, by rw [flat_cons, if_neg hi], ?_, fun d' hd' => Or.inr hd'⟩
        intro m
        rw [flat_cons, List.mem_append, hres.2 m]
        constructor
        · rintro (h | h)
          · exact Or.inr (Or.inl h)
          · exact Or.inr (Or.inr h)
        · rintro (h | h | h)
          · exact Or.inl (Or.inl h)
          · exact Or.inl h
          · exact Or.inr h
    · -- a foreign run: skipped
      have hfor : ∀ c ∈ run, c.doc ≠ n.doc := fun c hc => by rw [hrun.2.1 c hc]; exact hd
      rw [skip_foreign pred n run (flat rest) hfor]
      obtain ⟨rs', hv', hflat, hmem, hdocs⟩ := linearG_runs pred n hp rest hvt
      generalize findInsertionPointLinearSearchG pred n (flat rest) false = f at hflat
      refine ⟨(d, run) :: rs', ⟨?_, ?_⟩, ?_, ?_, ?_⟩
      · have : d ∉ rs'.map (·.1) := by
          intro h
          rcases hdocs d h with e | e
          · exact hd e
          · exact hnd.1 e
        show ((d, run) :: rs').map (·.1) |>.Nodup
        rw [List.map_cons, List.nodup_cons]
        exact ⟨this, hv'.1⟩
      · intro r hr
        rw [List.mem_cons] at hr
        rcases hr with e | e
        · subst e; exact hrun
        · exact hv'.2 r e
      · rw [flat_cons, hflat]
        simp only
        split
        · rw [insertAt_append]
        · rfl
      · intro m
        rw [flat_cons, List.mem_append, List.mem_append, hmem m]
        constructor
        · rintro (h | h | h)
          · exact Or.inr (Or.inl h)
          · exact Or.inl h
          · exact Or.inr (Or.inr h)
        · rintro (h | h | h)
          · exact Or.inr (Or.inl h)
          · exact Or.inl h
          · exact Or.inr (Or.inr h)
      · intro d' hd'
        simp only [List.map_cons, List.mem_cons] at hd' ⊢
        rcases hd' with e | e
        · exact Or.inr (Or.inl e)
        · rcases hdocs d' e with e' | e'
          · exact Or.inl e'
          · exact Or.inr (Or.inr e')

end XalanModel.C12

namespace XalanModel.C12

theorem AfterAll_pred {env : Env} (ha : ∀ d, AfterIsIndex env d) (n : NodeRef) :
    ∀ c : NodeRef, c.doc = n.doc → c.idx ≠ 0 → n.idx ≠ 0 → env.after n c = decide (n.idx > c.idx) :=
  fun c hc hc0 hn0 => ha n.doc n c rfl hc hn0 hc0

/-- first and last element in the same document: the list is a single run -/
theorem single_run {rs : Runs} (hv : ValidRuns rs) {first : NodeRef} {tl : List NodeRef}
    (hl : flat rs = first :: tl) (hlast : ((first :: tl).getLast (List.cons_ne_nil _ _)).doc = first.doc) :
    ∃ run, rs = [(first.doc, run)] := by
  cases rs with
  | nil => simp [flat] at hl
  | cons r rest =>
    obtain ⟨d, run⟩ := r
    have hrun : run ≠ [] ∧ DocOrderedSet d run := hv.2 (d, run) List.mem_cons_self
    have hnd := List.nodup_cons.mp (by simpa using hv.1 : (d :: rest.map (·.1)).Nodup)
    rw [flat_cons] at hl
    simp only at hl
    have hfirst : first ∈ run := by
      cases run with
      | nil => exact absurd rfl hrun.1
      | cons a _ => simp at hl; rw [← hl.1]; exact List.mem_cons_self
    have hd : d = first.doc := (hrun.2.1 first hfirst).symm
    cases rest with
    | nil => exact ⟨run, by rw [hd]⟩
    | cons r2 rest2 =>
      exfalso
      have hvt := validRuns_tail hv
      have hne : flat (r2 :: rest2) ≠ [] := by
        rw [flat_cons]
        have := (hvt.2 r2 List.mem_cons_self).1
        simp [this]
      have hlm : (first :: tl).getLast (List.cons_ne_nil _ _) ∈ flat (r2 :: rest2) := by
        have e : (first :: tl).getLast (List.cons_ne_nil _ _) = (run ++ flat (r2 :: rest2)).getLast (by simp [hne]) := by
          congr 1; exact hl.symm
        rw [e, List.getLast_append_right hne]
        exact List.getLast_mem hne
      have := mem_flat_doc hvt hlm
      rw [hlast, ← hd] at this
      exact hnd.1 this

/-- **one ordered insert with the group-aware search** keeps a grouped set grouped -/
theorem addNodeInDocOrder_grouped_good {env : Env} (hg : env.groupAware = true) (ha : ∀ d, AfterIsIndex env d)
    {l : List NodeRef} (n : NodeRef) (hl : GroupedSet l) :
    GroupedSet (addNodeInDocOrder env l n) ∧ ∀ m, m ∈ addNodeInDocOrder env l n ↔ m = n ∨ m ∈ l := by
  obtain ⟨rs, hv, hflat⟩ := hl
  unfold addNodeInDocOrder
  cases l with
  | nil =>
    refine ⟨⟨[(n.doc, [n])], ⟨by simp, ?_⟩, by simp [flat]⟩, by simp⟩
    intro r hr; simp at hr; subst hr
    exact ⟨by simp, ⟨by simp, List.pairwise_singleton _ _⟩⟩
  | cons first tl =>
    have hne : first :: tl ≠ [] := List.cons_ne_nil _ _
    rw [List.getLast?_eq_some_getLast hne]
    simp only
    have hlm : (first :: tl).getLast hne ∈ first :: tl := List.getLast_mem hne
    split
    · rename_i heq
      refine ⟨⟨rs, hv, hflat⟩, fun m => ⟨Or.inr, ?_⟩⟩
      rintro (h | h)
      · rw [h, ← heq]; exact hlm
      · exact h
    · split
      · -- the document node that owns the first element goes to the front
        rename_i hc
        simp only [Bool.and_eq_true, NodeRef.isDoc, beq_iff_eq, NodeRef.normOwner] at hc
        have hi0 : n.idx = 0 := hc.1.2
        split
        · rename_i hfn
          refine ⟨⟨rs, hv, hflat⟩, fun m => ⟨Or.inr, ?_⟩⟩
          rintro (h | h)
          · rw [h, ← hfn]; exact List.mem_cons_self
          · exact h
        · rename_i hfn
          refine ⟨?_, fun m => by simp⟩
          cases rs with
          | nil => simp [flat] at hflat
          | cons r rest =>
            obtain ⟨d, run⟩ := r
            have hrun : run ≠ [] ∧ DocOrderedSet d run := hv.2 (d, run) List.mem_cons_self
            rw [flat_cons] at hflat
            simp only at hflat
            cases run with
            | nil => exact absurd rfl hrun.1
            | cons a run' =>
              simp only [List.cons_append, List.cons.injEq] at hflat
              have ha1 : a = first := hflat.1
              subst ha1
              have hd : d = n.doc := by rw [← hrun.2.1 a List.mem_cons_self]; exact hc.2.symm
              have hp := List.pairwise_cons.mp hrun.2.2
              have hf0 : a.idx ≠ 0 := fun h => hfn (NodeRef.ext' (by rw [hrun.2.1 a List.mem_cons_self, hd]) (by rw [h, hi0]))
              refine ⟨(d, n :: a :: run') :: rest, ⟨by simpa using hv.1, ?_⟩, ?_⟩
              · intro r hr
                rw [List.mem_cons] at hr
                rcases hr with e | e
                · subst e
                  refine ⟨by simp, ⟨?_, ?_⟩⟩
                  · intro m hm
                    rw [List.mem_cons] at hm
                    rcases hm with e | e
                    · rw [e]; exact hd.symm
                    · exact hrun.2.1 m e
                  · rw [List.pairwise_cons]
                    refine ⟨?_, hrun.2.2⟩
                    intro x hx
                    rw [List.mem_cons] at hx
                    rcases hx with e | e
                    · rw [e, hi0]; omega
                    · have := hp.1 x e; rw [hi0]; omega
                · exact hv.2 r (List.mem_cons_of_mem _ e)
              · rw [flat_cons]; simp [hflat.2]
      · rename_i hc
        -- one of the three searches
        have key : ∀ pred : NodeRef → NodeRef → Bool,
            (∀ c : NodeRef, c.doc = n.doc → c.idx ≠ 0 → n.idx ≠ 0 → pred n c = decide (n.idx > c.idx)) →
            let f := findInsertionPointLinearSearchG pred n (first :: tl) false
            GroupedSet (if f.insert then insertAt (first :: tl) f.pos n else first :: tl) ∧
              ∀ m, m ∈ (if f.insert then insertAt (first :: tl) f.pos n else first :: tl) ↔ m = n ∨ m ∈ first :: tl := by
          intro pred hp
          obtain ⟨rs', hv', hf', hm', _⟩ := linearG_runs pred n hp rs hv
          rw [hflat] at hf' hm'
          exact ⟨⟨rs', hv', hf'⟩, fun m => by rw [← hf']; exact hm' m⟩
        unfold chooseSearch
        simp only [hg, if_true]
        split
        · rename_i hidx
          split
          · -- binary search: first and last in the node's document, hence a single run
            rename_i hfl
            simp only [Bool.and_eq_true, beq_iff_eq, NodeRef.owner, NodeRef.normOwner] at hidx hfl
            have hn0 : n.idx ≠ 0 := by
              intro h; have := hidx.2; simp [NodeRef.isDoc, h] at this
            have hnd : n.doc = first.doc := by
              have := hidx.2; simp [NodeRef.isDoc, hn0] at this; exact this
            obtain ⟨run, hrs⟩ := single_run hv hflat (by rw [hfl])
            subst hrs
            have hrun : run ≠ [] ∧ DocOrderedSet first.doc run := hv.2 _ List.mem_cons_self
            have hlr : first :: tl = run := by rw [← hflat]; simp [flat]
            have hdos : DocOrderedSet first.doc (first :: tl) := by rw [hlr]; exact hrun.2
            have hres := good_insert hdos hnd (binary_good n hnd (first :: tl) hne hdos)
            generalize (if (findInsertionPointBinarySearch n (first :: tl)).insert = true then
                insertAt (first :: tl) (findInsertionPointBinarySearch n (first :: tl)).pos n
              else first :: tl) = R at hres
            have hRne : R ≠ [] := by
              intro e
              have := (hres.2 n).2 (Or.inl rfl)
              rw [e] at this; simp at this
            refine ⟨⟨[(first.doc, R)], ⟨by simp, ?_⟩, by simp [flat]⟩, hres.2⟩
            intro r hr; simp at hr; subst hr
            exact ⟨hRne, hres.1⟩
          · exact key _ (fun c _ _ _ => rfl)
        · exact key _ (AfterAll_pred ha n)

end XalanModel.C12
