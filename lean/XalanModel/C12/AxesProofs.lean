import XalanModel.C12.StructuralProofs
import XalanModel.C12.NodeListProofs
/-
The axis functions modelled over `Tree` deliver document-ordered sets (reversed for the reverse axes).
-/
namespace XalanModel.C12

theorem mem_pathsKids_of : ∀ (ks : List Tree) (i j : Nat) (c : Tree) (p : Path), ks[j]? = some c → p ∈ c.paths →
    Step.child (i + j) :: p ∈ Tree.pathsKids i ks
  | [], _, j, _, _, h, _ => by simp at h
  | t :: ts, i, 0, c, p, h, hp => by
    simp only [List.getElem?_cons_zero, Option.some.injEq] at h
    subst h
    simp only [Tree.pathsKids, List.mem_append, List.mem_map]
    exact Or.inl ⟨p, hp, by simp⟩
  | t :: ts, i, j + 1, c, p, h, hp => by
    simp only [List.getElem?_cons_succ] at h
    simp only [Tree.pathsKids, List.mem_append]
    right
    have := mem_pathsKids_of ts (i + 1) j c p h hp
    have e : i + 1 + j = i + (j + 1) := by omega
    rw [e] at this; exact this

theorem sub_mem_paths : ∀ (p : Path) (t : Tree) (r : Tree), t.sub p = some r → p ∈ t.paths
  | [], .node _ _, _, _ => by simp [Tree.paths]
  | Step.attr k :: p', .node na ks, r, h => by
    cases p' with
    | nil =>
      simp only [Tree.sub] at h
      by_cases hk : k < na
      · simp only [Tree.paths, List.cons_append, List.mem_cons, List.mem_append, List.mem_map, List.mem_range]
        exact Or.inr (Or.inl ⟨k, hk, rfl⟩)
      · simp [hk] at h
    | cons _ _ => simp [Tree.sub] at h
  | Step.child j :: p', .node na ks, r, h => by
    simp only [Tree.sub] at h
    cases hj : ks[j]? with
    | none => simp [hj] at h
    | some c =>
      simp only [hj] at h
      have := sub_mem_paths p' c r h
      simp only [Tree.paths, List.cons_append, List.mem_cons, List.mem_append]
      right; right
      have := mem_pathsKids_of ks 0 j c p' hj this
      simpa using this

theorem sub_snoc : ∀ (x : Path) (t pt : Tree) (st : Step), t.sub x = some pt → t.sub (x ++ [st]) = pt.sub [st]
  | [], .node na ks, pt, st, h => by
    simp only [Tree.sub, Option.some.injEq] at h; subst h; rfl
  | Step.attr k :: x', .node na ks, pt, st, h => by
    cases x' with
    | nil =>
      simp only [Tree.sub] at h
      by_cases hk : k < na
      · simp only [hk, if_true, Option.some.injEq] at h
        subst h
        cases st <;> simp [Tree.sub]
      · simp [hk] at h
    | cons _ _ => simp [Tree.sub] at h
  | Step.child j :: x', .node na ks, pt, st, h => by
    simp only [List.cons_append, Tree.sub] at h ⊢
    cases hj : ks[j]? with
    | none => simp [hj] at h
    | some c =>
      simp only [hj] at h ⊢
      exact sub_snoc x' c pt st h

def toRefs (t : Tree) (d : Nat) (ps : List Path) : List NodeRef := ps.map fun p => ⟨d, indexOf t p⟩

theorem toRefs_sorted (t : Tree) (d : Nat) (ps : List Path) (hv : ∀ p ∈ ps, p ∈ t.paths)
    (hs : ps.Pairwise (fun p q => DocBefore p q = true)) : DocOrderedSet d (toRefs t d ps) := by
  refine ⟨by intro m hm; simp [toRefs] at hm; obtain ⟨p, _, rfl⟩ := hm; rfl, ?_⟩
  unfold toRefs
  rw [List.pairwise_map]
  exact List.Pairwise.imp_of_mem (fun {a b} ha hb h => (indexOf_lt_iff t (hv a ha) (hv b hb)).2 h) hs

theorem DocBefore_snoc_child (ctx : Path) (i j : Nat) (h : i < j) :
    DocBefore (ctx ++ [Step.child i]) (ctx ++ [Step.child j]) = true := by
  rw [DocBefore_append]
  have : ¬ (Step.child i = Step.child j) := by intro e; injection e; omega
  simp [DocBefore, this, stepLt, h]

theorem DocBefore_snoc_attr (ctx : Path) (i j : Nat) (h : i < j) :
    DocBefore (ctx ++ [Step.attr i]) (ctx ++ [Step.attr j]) = true := by
  rw [DocBefore_append]
  have : ¬ (Step.attr i = Step.attr j) := by intro e; injection e; omega
  simp [DocBefore, this, stepLt, h]

theorem DocBefore_take (p : Path) (i j : Nat) (h : i < j) (hj : j ≤ p.length) :
    DocBefore (p.take i) (p.take j) = true := by
  have e : p.take j = p.take i ++ (p.take j).drop i := by
    have := (List.take_append_drop i (p.take j)).symm
    rwa [List.take_take, Nat.min_eq_left (by omega)] at this
  have hne : (p.take j).drop i ≠ [] := by
    intro e0
    have := congrArg List.length e0
    simp at this; omega
  have h2 : DocBefore (p.take i ++ []) (p.take i ++ (p.take j).drop i) = DocBefore [] ((p.take j).drop i) :=
    DocBefore_append _ _ _
  rw [List.append_nil] at h2
  rw [e, h2]
  cases hd : (p.take j).drop i with
  | nil => exact absurd hd hne
  | cons _ _ => rfl

/-- the sorted form of what an axis function delivers: the list itself, or its reversal when flagged reverse -/
def axisSorted (r : List Path × Bool) : List Path := if r.2 then r.1.reverse else r.1

/-- every modelled axis function delivers valid nodes, strictly increasing in document order once a
reverse-flagged result is reversed -/
theorem findAxis_sorted (t : Tree) (a : Axis) (ctx : Path) (hc : ctx ∈ t.paths) :
    (∀ p ∈ (findAxis t a ctx).1, p ∈ t.paths) ∧
    (axisSorted (findAxis t a ctx)).Pairwise (fun p q => DocBefore p q = true) := by
  obtain ⟨pt, hpt⟩ := paths_sub ctx t hc
  cases a with
  | child =>
    simp only [findAxis, hpt, axisSorted]
    constructor
    · intro p hp
      simp only [List.mem_map, List.mem_range] at hp
      obtain ⟨k, hk, rfl⟩ := hp
      have h1 := sub_snoc ctx t pt (Step.child k) hpt
      cases pt with
      | node na ks =>
        have : ks[k]? = some ks[k] := List.getElem?_eq_getElem hk
        exact sub_mem_paths _ t ks[k] (by rw [h1]; simp [Tree.sub, this])
    · simp only [Bool.false_eq_true, if_false]
      rw [List.pairwise_map]
      exact List.pairwise_lt_range.imp (fun {i j} h => DocBefore_snoc_child ctx i j h)
  | attributes =>
    simp only [findAxis, hpt, axisSorted]
    constructor
    · intro p hp
      simp only [List.mem_map, List.mem_range] at hp
      obtain ⟨k, hk, rfl⟩ := hp
      have h1 := sub_snoc ctx t pt (Step.attr k) hpt
      cases pt with
      | node na ks =>
        exact sub_mem_paths _ t (.node 0 []) (by rw [h1]; simp [Tree.sub]; exact hk)
    · simp only [Bool.false_eq_true, if_false]
      rw [List.pairwise_map]
      exact List.pairwise_lt_range.imp (fun {i j} h => DocBefore_snoc_attr ctx i j h)
  | parent =>
    simp only [findAxis, axisSorted]
    cases ctx with
    | nil => simp [parentOf]
    | cons x r =>
      have hp : parentOf (x :: r) = some (x :: r).dropLast := rfl
      simp only [hp, Bool.false_eq_true, if_false, List.mem_singleton, forall_eq, List.pairwise_singleton, and_true]
      have e : x :: r = (x :: r).dropLast ++ [(x :: r).getLast (by simp)] := (List.dropLast_concat_getLast _).symm
      obtain ⟨r', hr'⟩ := sub_prefix (x :: r).dropLast [(x :: r).getLast (by simp)] t pt (by rw [← e]; exact hpt)
      exact sub_mem_paths _ t r' hr'
  | ancestor =>
    simp only [findAxis, axisSorted, if_true, List.map_reverse, List.reverse_reverse]
    constructor
    · intro p hp
      simp only [List.mem_reverse, List.mem_map, List.mem_range] at hp
      obtain ⟨k, _, rfl⟩ := hp
      obtain ⟨r', hr'⟩ := sub_prefix (ctx.take k) (ctx.drop k) t pt (by rw [List.take_append_drop]; exact hpt)
      exact sub_mem_paths _ t r' hr'
    · rw [List.pairwise_map]
      have : (List.range ctx.length).Pairwise (fun i j => i < j ∧ j < ctx.length) := by
        have h1 : (List.range ctx.length).Pairwise (· < ·) := List.pairwise_lt_range
        exact List.Pairwise.imp_of_mem (fun {a b} _ hb h => ⟨h, List.mem_range.mp hb⟩) h1
      exact this.imp (fun {i j} h => DocBefore_take ctx i j h.1 (by omega))
  | followingSibling =>
    simp only [findAxis, axisSorted]
    by_cases hcond : ctx = [] ∨ lastIsAttr ctx = true
    · simp [hcond]
    · simp only [hcond, if_false]
      cases hs : t.sub ctx.dropLast with
      | none => simp
      | some ppt =>
        simp only [Bool.false_eq_true, if_false]
        constructor
        · intro p hp
          simp only [List.mem_map, List.mem_range'_1] at hp
          obtain ⟨j, hj, rfl⟩ := hp
          have h1 := sub_snoc ctx.dropLast t ppt (Step.child j) hs
          cases ppt with
          | node na ks =>
            have hjl : j < ks.length := by simp [Tree.kids] at hj; omega
            have : ks[j]? = some ks[j] := List.getElem?_eq_getElem hjl
            exact sub_mem_paths _ t ks[j] (by rw [h1]; simp [Tree.sub, this])
        · rw [List.pairwise_map]
          have : (List.range' (lastPos ctx + 1) (ppt.kids.length - (lastPos ctx + 1))).Pairwise (· < ·) :=
            List.pairwise_lt_range'
          exact this.imp (fun {i j} h => DocBefore_snoc_child _ i j h)
  | precedingSibling =>
    simp only [findAxis, axisSorted]
    by_cases hcond : ctx = [] ∨ lastIsAttr ctx = true
    · simp [hcond]
    · simp only [hcond, if_false, if_true, List.map_reverse, List.reverse_reverse]
      have hne : ctx ≠ [] := fun e => hcond (Or.inl e)
      have hna : ¬ lastIsAttr ctx = true := fun e => hcond (Or.inr e)
      have e : ctx = ctx.dropLast ++ [Step.child (lastPos ctx)] := by
        have h0 := (List.dropLast_concat_getLast hne).symm
        have hl := List.getLast?_eq_some_getLast hne
        cases hg : ctx.getLast hne with
        | attr k => rw [hg] at hl; simp [lastIsAttr, hl] at hna
        | child k =>
          rw [hg] at hl h0
          have : lastPos ctx = k := by simp [lastPos, hl]
          rw [this]; exact h0
      generalize lastPos ctx = k at e
      obtain ⟨ppt, hppt⟩ := sub_prefix ctx.dropLast [Step.child k] t pt (by rw [← e]; exact hpt)
      have hk : k < ppt.kids.length := by
        obtain ⟨pt', h1, h2⟩ := sub_snoc_child ctx.dropLast t k pt (by rw [← e]; exact hpt)
        rw [hppt] at h1; injection h1 with h1; subst h1; exact h2
      constructor
      · intro p hp
        simp only [List.mem_reverse, List.mem_map, List.mem_range] at hp
        obtain ⟨j, hj, rfl⟩ := hp
        have h1 := sub_snoc ctx.dropLast t ppt (Step.child j) hppt
        cases ppt with
        | node na ks =>
          have hjl : j < ks.length := by simp [Tree.kids] at hk; omega
          have : ks[j]? = some ks[j] := List.getElem?_eq_getElem hjl
          exact sub_mem_paths _ t ks[j] (by rw [h1]; simp [Tree.sub, this])
      · rw [List.pairwise_map]
        exact List.pairwise_lt_range.imp (fun {i j} h => DocBefore_snoc_child _ i j h)
  | self =>
    simp [findAxis, axisSorted, hc]
  | ancestorOrSelf =>
    simp only [findAxis, axisSorted, if_true, List.map_reverse, List.reverse_reverse]
    constructor
    · intro p hp
      simp only [List.mem_reverse, List.mem_map, List.mem_range] at hp
      obtain ⟨k, _, rfl⟩ := hp
      obtain ⟨r', hr'⟩ := sub_prefix (ctx.take k) (ctx.drop k) t pt (by rw [List.take_append_drop]; exact hpt)
      exact sub_mem_paths _ t r' hr'
    · rw [List.pairwise_map]
      have : (List.range (ctx.length + 1)).Pairwise (fun i j => i < j ∧ j < ctx.length + 1) := by
        have h1 : (List.range (ctx.length + 1)).Pairwise (· < ·) := List.pairwise_lt_range
        exact List.Pairwise.imp_of_mem (fun {a b} _ hb h => ⟨h, List.mem_range.mp hb⟩) h1
      exact this.imp (fun {i j} h => DocBefore_take ctx i j h.1 (by omega))
  | descendant =>
    simp only [findAxis, axisSorted, Bool.false_eq_true, if_false]
    exact ⟨fun p hp => (List.mem_filter.mp hp).1, (paths_pairwise t).sublist List.filter_sublist⟩
  | descendantOrSelf =>
    simp only [findAxis, axisSorted, Bool.false_eq_true, if_false]
    exact ⟨fun p hp => (List.mem_filter.mp hp).1, (paths_pairwise t).sublist List.filter_sublist⟩
  | following =>
    simp only [findAxis, axisSorted, Bool.false_eq_true, if_false]
    exact ⟨fun p hp => (List.mem_filter.mp hp).1, (paths_pairwise t).sublist List.filter_sublist⟩
  | preceding =>
    simp only [findAxis, axisSorted, if_true, List.reverse_reverse]
    exact ⟨fun p hp => (List.mem_filter.mp (List.mem_reverse.mp hp)).1, (paths_pairwise t).sublist List.filter_sublist⟩
  | namespaces =>
    simp only [findAxis, axisSorted, Bool.false_eq_true, if_false]
    exact ⟨fun p hp => (List.mem_filter.mp hp).1, (paths_pairwise t).sublist List.filter_sublist⟩

end XalanModel.C12
