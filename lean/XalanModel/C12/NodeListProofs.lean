import XalanModel.C12.NodeList
/-
Helper lemmas for Props/C12.lean: the three search strategies of `addNodeInDocOrder` meet one
specification (`GoodFound`) on a strictly sorted single-document list.
-/
namespace XalanModel.C12

/-- a duplicate-free node-set of document `d` in document order -/
def DocOrderedSet (d : Nat) (l : List NodeRef) : Prop :=
  (∀ m ∈ l, m.doc = d) ∧ l.Pairwise (fun a b => a.idx < b.idx)

/-- `XPathExecutionContext::isNodeAfter` agrees with index comparison on the non-document nodes of
document `d` (true by definition for indexed documents; `structural_eq_index` for the others) -/
def AfterIsIndex (env : Env) (d : Nat) : Prop :=
  ∀ a b : NodeRef, a.doc = d → b.doc = d → a.idx ≠ 0 → b.idx ≠ 0 → env.after a b = decide (a.idx > b.idx)

/-- what every search must deliver on a sorted list: the position that keeps the list sorted, or
"do not insert" only when the node is already there -/
def GoodFound (n : NodeRef) (l : List NodeRef) (f : Found) : Prop :=
  if f.insert then
    f.pos ≤ l.length ∧ (∀ x ∈ l.take f.pos, x.idx < n.idx) ∧ (∀ x ∈ l.drop f.pos, n.idx < x.idx)
  else n ∈ l

theorem NodeRef.ext' {a b : NodeRef} (h1 : a.doc = b.doc) (h2 : a.idx = b.idx) : a = b := by
  cases a; cases b; simp_all

/-! ### inserting at a good position -/

theorem insertAt_good {d : Nat} {l : List NodeRef} {n : NodeRef} {pos : Nat}
    (hl : DocOrderedSet d l) (hn : n.doc = d)
    (h1 : ∀ x ∈ l.take pos, x.idx < n.idx) (h2 : ∀ x ∈ l.drop pos, n.idx < x.idx) :
    DocOrderedSet d (insertAt l pos n) ∧ ∀ m, m ∈ insertAt l pos n ↔ m = n ∨ m ∈ l := by
  have hmem : ∀ m, m ∈ insertAt l pos n ↔ m = n ∨ m ∈ l := by
    intro m
    unfold insertAt
    rw [List.mem_append, List.mem_cons]
    constructor
    · rintro (h | h | h)
      · exact Or.inr (List.mem_of_mem_take h)
      · exact Or.inl h
      · exact Or.inr (List.mem_of_mem_drop h)
    · rintro (h | h)
      · exact Or.inr (Or.inl h)
      · rw [← List.take_append_drop pos l, List.mem_append] at h
        rcases h with h | h
        · exact Or.inl h
        · exact Or.inr (Or.inr h)
  refine ⟨⟨?_, ?_⟩, hmem⟩
  · intro m hm
    rcases (hmem m).1 hm with h | h
    · rw [h]; exact hn
    · exact hl.1 m h
  · unfold insertAt
    rw [List.pairwise_append]
    refine ⟨hl.2.sublist (List.take_sublist _ _), ?_, ?_⟩
    · rw [List.pairwise_cons]
      exact ⟨h2, hl.2.sublist (List.drop_sublist _ _)⟩
    · intro a ha b hb
      rw [List.mem_cons] at hb
      rcases hb with hb | hb
      · rw [hb]; exact h1 a ha
      · exact Nat.lt_trans (h1 a ha) (h2 b hb)

/-! ### linear search -/

theorem linear_good {d : Nat} (pred : NodeRef → NodeRef → Bool) (n : NodeRef) (hn : n.doc = d) :
    ∀ l : List NodeRef, DocOrderedSet d l → (∀ c ∈ l, pred n c = decide (n.idx > c.idx)) →
      GoodFound n l (findInsertionPointLinearSearch pred n l)
  | [], _, _ => by simp [GoodFound, findInsertionPointLinearSearch]
  | c :: rest, hl, hp => by
    unfold findInsertionPointLinearSearch
    by_cases hc : c = n
    · simp [hc, GoodFound]
    · simp only [hc, if_false]
      have hpc := hp c (List.mem_cons_self)
      have hcd : c.doc = d := hl.1 c (List.mem_cons_self)
      have hne : c.idx ≠ n.idx := fun h => hc (NodeRef.ext' (by rw [hcd, hn]) h)
      obtain ⟨hl1, hl2⟩ := hl
      rw [List.pairwise_cons] at hl2
      have hl : (∀ m ∈ c :: rest, m.doc = d) ∧ ((∀ a' ∈ rest, c.idx < a'.idx) ∧ rest.Pairwise (fun a b => a.idx < b.idx)) := ⟨hl1, hl2⟩
      by_cases hgt : n.idx > c.idx
      · -- continue
        have : pred n c = true := by rw [hpc]; simpa using hgt
        simp only [this]
        have ih := linear_good pred n hn rest ⟨fun m hm => hl.1 m (List.mem_cons_of_mem _ hm), hl.2.2⟩
          (fun c' hc' => hp c' (List.mem_cons_of_mem _ hc'))
        unfold GoodFound at ih ⊢
        simp only [Bool.true_eq_false, if_false]
        split
        · rename_i hi
          rw [if_pos hi] at ih
          refine ⟨by simpa using ih.1, ?_, ?_⟩
          · intro x hx
            simp only [List.take_succ_cons, List.mem_cons] at hx
            rcases hx with hx | hx
            · rw [hx]; exact hgt
            · exact ih.2.1 x hx
          · intro x hx
            simp only [List.drop_succ_cons] at hx
            exact ih.2.2 x hx
        · rename_i hi
          rw [if_neg hi] at ih
          exact List.mem_cons_of_mem _ ih
      · -- stop here
        have : pred n c = false := by rw [hpc]; simpa using hgt
        simp only [this, if_true]
        unfold GoodFound
        simp only [if_true, List.take_zero, List.drop_zero]
        refine ⟨Nat.zero_le _, by simp, ?_⟩
        intro x hx
        have hlt : n.idx < c.idx := by omega
        rw [List.mem_cons] at hx
        rcases hx with hx | hx
        · rw [hx]; exact hlt
        · exact Nat.lt_trans hlt (hl.2.1 x hx)

/-- on the nodes of one document the execution-context predicate is index comparison -/
theorem ecPredicate_eq {env : Env} {d : Nat} (ha : AfterIsIndex env d) {n c : NodeRef}
    (hn : n.doc = d) (hn0 : n.idx ≠ 0) (hc : c.doc = d) :
    executionContextPredicate env n c = decide (n.idx > c.idx) := by
  unfold executionContextPredicate documentPredicate NodeRef.owner NodeRef.isDoc
  by_cases hc0 : c.idx = 0
  · simp [hn0, hc0]; omega
  · have := ha n c hn hc hn0 hc0
    simp [hn0, hc0, hn, hc, this]

theorem indexPredicate_eq {d : Nat} {n c : NodeRef}
    (hn : n.doc = d) (hn0 : n.idx ≠ 0) (hc : c.doc = d) :
    indexPredicate n c = decide (n.idx > c.idx) := by
  unfold indexPredicate documentPredicate NodeRef.owner NodeRef.isDoc
  by_cases hc0 : c.idx = 0
  · simp [hn0, hc0]; omega
  · simp [hn0, hc0, hn, hc]

end XalanModel.C12

namespace XalanModel.C12

/-! ### binary search -/

/-- `(*it)->getIndex()` at offset `i` -/
def idxAt (l : List NodeRef) (i : Nat) : Nat := (l.getD i ⟨0, 0⟩).idx

theorem idxAt_eq (l : List NodeRef) (i : Nat) (h : i < l.length) : idxAt l i = l[i].idx := by
  unfold idxAt
  simp [List.getD, List.getElem?_eq_getElem h]

/-- the code after the loop of `findInsertionPointBinarySearch` -/
def bsFinish (theIndex endp : Nat) (x : BSExit) : Found :=
  if theIndex ≠ x.curIdx then
    if x.current = endp ∨ x.first = endp then ⟨endp, x.insert⟩
    else if x.curIdx < theIndex then ⟨x.current + 1, x.insert⟩
    else ⟨x.current, x.insert⟩
  else ⟨0, x.insert⟩

/-- `GoodFound` in terms of offsets -/
def GoodIdx (l : List NodeRef) (T : Nat) (f : Found) : Prop :=
  if f.insert then
    f.pos ≤ l.length ∧ (∀ i, i < f.pos → idxAt l i < T) ∧ (∀ i, f.pos ≤ i → i < l.length → T < idxAt l i)
  else ∃ i, i < l.length ∧ idxAt l i = T

theorem bsLoop_spec (l : List NodeRef) (T : Nat)
    (hs : ∀ i j, i < j → j < l.length → idxAt l i < idxAt l j) :
    ∀ fuel first last current curIdx,
      last < l.length → first ≤ last + 1 → last + 2 ≤ fuel + first →
      (∀ i, i < first → idxAt l i < T) → (∀ i, last < i → i < l.length → T < idxAt l i) →
      (first ≤ last ∨ (T < curIdx ∧ current = first ∧ current < l.length) ∨
        (curIdx < T ∧ first = current + 1 ∧ current < l.length)) →
      GoodIdx l T (bsFinish T l.length (bsLoop l T fuel first last current curIdx)) := by
  intro fuel
  induction fuel with
  | zero => intro first last current curIdx h1 h2 h3; omega
  | succ fuel ih =>
    intro first last current curIdx hlast hfl hfuel inv1 inv2 hist
    unfold bsLoop
    by_cases hle : first ≤ last
    · simp only [hle, if_true]
      have hcur1 : first ≤ first + (last - first) / 2 := Nat.le_add_right _ _
      have hcur2 : first + (last - first) / 2 ≤ last := by omega
      generalize hcdef : first + (last - first) / 2 = cur at hcur1 hcur2
      have hcl : cur < l.length := by omega
      change GoodIdx l T (bsFinish T l.length
        (if T < idxAt l cur then
          if cur = 0 then ⟨first, cur, idxAt l cur, true⟩
          else bsLoop l T fuel first (cur - 1) cur (idxAt l cur)
        else if T > idxAt l cur then bsLoop l T fuel (cur + 1) last cur (idxAt l cur)
        else ⟨first, cur, idxAt l cur, false⟩))
      by_cases hlt : T < idxAt l cur
      · simp only [hlt, if_true]
        by_cases hc0 : cur = 0
        · simp only [hc0, if_true]
          subst hc0
          have hf0 : first = 0 := by omega
          have hne : T ≠ idxAt l 0 := by omega
          have hlen : ¬ (0 = l.length ∨ first = l.length) := by omega
          have hnlt : ¬ idxAt l 0 < T := by omega
          simp only [bsFinish, hne, ne_eq, not_false_eq_true, if_true, hlen, if_false, hnlt]
          unfold GoodIdx
          simp only [if_true]
          refine ⟨Nat.zero_le _, by intro i hi; omega, ?_⟩
          intro i _ hi
          by_cases hi0 : i = 0
          · subst hi0; exact hlt
          · exact Nat.lt_trans hlt (hs 0 i (by omega) hi)
        · simp only [hc0, if_false]
          apply ih first (cur - 1) cur (idxAt l cur) (by omega) (by omega) (by omega) inv1
          · intro i hi hil
            by_cases hic : i = cur
            · subst hic; exact hlt
            · exact Nat.lt_trans hlt (hs cur i (by omega) hil)
          · by_cases h : first ≤ cur - 1
            · exact Or.inl h
            · exact Or.inr (Or.inl ⟨hlt, by omega, hcl⟩)
      · simp only [hlt, if_false]
        by_cases hgt : T > idxAt l cur
        · simp only [hgt, if_true]
          apply ih (cur + 1) last cur (idxAt l cur) hlast (by omega) (by omega)
          · intro i hi
            by_cases hic : i = cur
            · subst hic; exact hgt
            · exact Nat.lt_trans (hs i cur (by omega) hcl) hgt
          · exact inv2
          · by_cases h : cur + 1 ≤ last
            · exact Or.inl h
            · exact Or.inr (Or.inr ⟨hgt, rfl, hcl⟩)
        · simp only [hgt, if_false]
          have heq : T = idxAt l cur := by omega
          simp only [bsFinish, heq, ne_eq, not_true_eq_false, if_false]
          unfold GoodIdx
          simp only [Bool.false_eq_true, if_false]
          exact ⟨cur, hcl, rfl⟩
    · simp only [hle, if_false]
      rcases hist with h | ⟨h1, h2, h3⟩ | ⟨h1, h2, h3⟩
      · exact absurd h hle
      · have hne : T ≠ curIdx := by omega
        have hlen : ¬ (current = l.length ∨ first = l.length) := by omega
        have hnlt : ¬ curIdx < T := by omega
        simp only [bsFinish, hne, ne_eq, not_false_eq_true, if_true, hlen, if_false, hnlt]
        unfold GoodIdx
        simp only [if_true]
        subst h2
        exact ⟨by omega, inv1, fun i hi hil => inv2 i (by omega) hil⟩
      · have hne : T ≠ curIdx := by omega
        simp only [bsFinish, hne, ne_eq, not_false_eq_true, if_true]
        by_cases hend : current = l.length ∨ first = l.length
        · simp only [hend, if_true]
          unfold GoodIdx
          simp only [if_true]
          have hfe : first = l.length := by omega
          refine ⟨Nat.le_refl _, fun i hi => inv1 i (by omega), fun i hi hil => by omega⟩
        · simp only [hend, if_false, h1, if_true]
          unfold GoodIdx
          simp only [if_true]
          rw [← h2]
          exact ⟨by omega, inv1, fun i hi hil => inv2 i (by omega) hil⟩

theorem binary_good {d : Nat} (n : NodeRef) (hn : n.doc = d) (l : List NodeRef) (hne : l ≠ [])
    (hl : DocOrderedSet d l) : GoodFound n l (findInsertionPointBinarySearch n l) := by
  have hlen : 0 < l.length := List.length_pos_iff.mpr hne
  have hs : ∀ i j, i < j → j < l.length → idxAt l i < idxAt l j := by
    intro i j hij hj
    rw [idxAt_eq l i (by omega), idxAt_eq l j hj]
    exact (List.pairwise_iff_getElem.mp hl.2) i j (by omega) hj hij
  -- offsets -> membership
  have conv : ∀ f : Found, GoodIdx l n.idx f → GoodFound n l f := by
    intro f hf
    unfold GoodIdx at hf
    unfold GoodFound
    split
    · rename_i hi
      rw [if_pos hi] at hf
      refine ⟨hf.1, ?_, ?_⟩
      · intro x hx
        obtain ⟨j, hj, rfl⟩ := List.mem_take_iff_getElem.mp hx
        have hjl : j < l.length := by omega
        have := hf.2.1 j (by omega)
        rwa [idxAt_eq l j hjl] at this
      · intro x hx
        obtain ⟨j, hj, rfl⟩ := List.mem_drop_iff_getElem.mp hx
        have hjl : f.pos + j < l.length := by omega
        have := hf.2.2 (f.pos + j) (by omega) hjl
        rwa [idxAt_eq l _ hjl] at this
    · rename_i hi
      rw [if_neg hi] at hf
      obtain ⟨i, hil, hi⟩ := hf
      rw [idxAt_eq l i hil] at hi
      have : l[i] = n := NodeRef.ext' (by rw [hl.1 _ (List.getElem_mem hil), hn]) hi
      rw [← this]; exact List.getElem_mem hil
  apply conv
  unfold findInsertionPointBinarySearch
  change GoodIdx l n.idx
    (if idxAt l (l.length - 1) < n.idx then ⟨l.length, true⟩
     else bsFinish n.idx l.length (bsLoop l n.idx (l.length + 1) 0 (l.length - 1) l.length 0))
  by_cases hq : idxAt l (l.length - 1) < n.idx
  · simp only [hq, if_true]
    unfold GoodIdx
    simp only [if_true]
    refine ⟨Nat.le_refl _, ?_, fun i hi hil => by omega⟩
    intro i hi
    by_cases hil : i = l.length - 1
    · rw [hil]; exact hq
    · exact Nat.lt_trans (hs i (l.length - 1) (by omega) (by omega)) hq
  · simp only [hq, if_false]
    apply bsLoop_spec l n.idx hs (l.length + 1) 0 (l.length - 1) l.length 0 (by omega) (by omega) (by omega)
    · intro i hi; omega
    · intro i hi hil; omega
    · exact Or.inl (Nat.zero_le _)

end XalanModel.C12

namespace XalanModel.C12

/-! ### the group-aware linear search on the run of the node's own document -/

theorem linearG_own {d : Nat} (pred : NodeRef → NodeRef → Bool) (n : NodeRef) (hn : n.doc = d) :
    ∀ (run tail : List NodeRef) (found : Bool), DocOrderedSet d run →
      (∀ c ∈ run, c.idx ≠ 0 → n.idx ≠ 0 → pred n c = decide (n.idx > c.idx)) →
      (∀ c ∈ tail.head?, c.doc ≠ d) → (run ≠ [] ∨ found = true ∨ tail = []) →
      GoodFound n run (findInsertionPointLinearSearchG pred n (run ++ tail) found)
  | [], tail, found, _, _, ht, hf => by
    cases tail with
    | nil => simp [GoodFound, findInsertionPointLinearSearchG]
    | cons c tail' =>
      have hfound : found = true := by
        rcases hf with h | h | h
        · exact absurd rfl h
        · exact h
        · cases h
      have hcd : c.doc ≠ d := ht c (by simp)
      have hcn : ¬ c = n := fun e => hcd (by rw [e]; exact hn)
      have hown : c.normOwner ≠ n.normOwner := by simp [NodeRef.normOwner, hn, hcd]
      simp [GoodFound, findInsertionPointLinearSearchG, hcn, hown, hfound]
  | c :: rest, tail, found, hl, hp, ht, _ => by
    have hcd : c.doc = d := hl.1 c List.mem_cons_self
    have hp2 := List.pairwise_cons.mp hl.2
    have hrest : DocOrderedSet d rest := ⟨fun m hm => hl.1 m (List.mem_cons_of_mem _ hm), hp2.2⟩
    simp only [List.cons_append, findInsertionPointLinearSearchG]
    by_cases hc : c = n
    · simp [hc, GoodFound]
    · have hne : c.idx ≠ n.idx := fun h => hc (NodeRef.ext' (by rw [hcd, hn]) h)
      have hown : ¬ (c.normOwner ≠ n.normOwner) := by simp [NodeRef.normOwner, hn, hcd]
      simp only [hc, if_false, hown]
      have stop : GoodFound n (c :: rest) ⟨0, true⟩ ↔ n.idx < c.idx := by
        unfold GoodFound
        simp only [if_true, List.take_zero, List.drop_zero, List.not_mem_nil, false_imp_iff, implies_true, true_and,
          Nat.zero_le]
        constructor
        · intro h; exact h c List.mem_cons_self
        · intro h x hx
          rw [List.mem_cons] at hx
          rcases hx with e | e
          · rw [e]; exact h
          · exact Nat.lt_trans h (hp2.1 x e)
      have cont : n.idx > c.idx →
          GoodFound n (c :: rest)
            ⟨(findInsertionPointLinearSearchG pred n (rest ++ tail) true).pos + 1,
             (findInsertionPointLinearSearchG pred n (rest ++ tail) true).insert⟩ := by
        intro hgt
        have ih := linearG_own pred n hn rest tail true hrest
          (fun c' hc' => hp c' (List.mem_cons_of_mem _ hc')) ht (Or.inr (Or.inl rfl))
        unfold GoodFound at ih ⊢
        split
        · rename_i hi
          simp only at hi
          rw [if_pos hi] at ih
          refine ⟨by simpa using ih.1, ?_, ?_⟩
          · intro x hx
            simp only [List.take_succ_cons, List.mem_cons] at hx
            rcases hx with hx | hx
            · rw [hx]; exact hgt
            · exact ih.2.1 x hx
          · intro x hx
            simp only [List.drop_succ_cons] at hx
            exact ih.2.2 x hx
        · rename_i hi
          simp only at hi
          rw [if_neg hi] at ih
          exact List.mem_cons_of_mem _ ih
      by_cases hnd : n.isDoc = true
      · have hn0 : n.idx = 0 := by simpa [NodeRef.isDoc] using hnd
        simp only [hnd, if_true]
        exact stop.2 (by omega)
      · have hn0 : n.idx ≠ 0 := by simpa [NodeRef.isDoc] using hnd
        simp only [hnd, Bool.false_eq_true, if_false]
        by_cases hcdoc : c.isDoc = true
        · have hc0 : c.idx = 0 := by simpa [NodeRef.isDoc] using hcdoc
          simp only [hcdoc, Bool.not_true, Bool.false_and, Bool.false_eq_true, if_false]
          exact cont (by omega)
        · have hc0 : c.idx ≠ 0 := by simpa [NodeRef.isDoc] using hcdoc
          have hpc := hp c List.mem_cons_self hc0 hn0
          simp only [hcdoc, Bool.not_false, Bool.true_and]
          by_cases hgt : n.idx > c.idx
          · have : pred n c = true := by rw [hpc]; simpa using hgt
            simp only [this, Bool.true_eq_false, decide_false, Bool.false_eq_true, if_false]
            exact cont hgt
          · have : pred n c = false := by rw [hpc]; simpa using hgt
            simp only [this, decide_true, if_true]
            exact stop.2 (by omega)

/-! ### one ordered insert -/

theorem good_insert {d : Nat} {l : List NodeRef} {n : NodeRef} {f : Found}
    (hl : DocOrderedSet d l) (hn : n.doc = d) (hf : GoodFound n l f) :
    DocOrderedSet d (if f.insert then insertAt l f.pos n else l) ∧
      ∀ m, m ∈ (if f.insert then insertAt l f.pos n else l) ↔ m = n ∨ m ∈ l := by
  unfold GoodFound at hf
  split
  · rename_i hi
    rw [if_pos hi] at hf
    exact insertAt_good hl hn hf.2.1 hf.2.2
  · rename_i hi
    rw [if_neg hi] at hf
    refine ⟨hl, fun m => ⟨Or.inr, ?_⟩⟩
    rintro (h | h)
    · rw [h]; exact hf
    · exact h

theorem chooseSearch_good {env : Env} {d : Nat} (ha : AfterIsIndex env d) {l : List NodeRef}
    {n first last : NodeRef} (hl : DocOrderedSet d l) (hne : l ≠ []) (hn : n.doc = d) (hn0 : n.idx ≠ 0)
    (hf : first ∈ l) (hla : last ∈ l) : GoodFound n l (chooseSearch env n first last l) := by
  unfold chooseSearch
  have hfd : first.doc = d := hl.1 _ hf
  have hld : last.doc = d := hl.1 _ hla
  split
  · split
    · exact binary_good n hn l hne hl
    · split
      · have := linearG_own (fun a b => decide (a.idx > b.idx)) n hn l [] false hl (fun _ _ _ _ => rfl)
          (by simp) (Or.inl hne)
        simpa using this
      · exact linear_good indexPredicate n hn l hl (fun c hc => indexPredicate_eq hn hn0 (hl.1 c hc))
  · split
    · have := linearG_own env.after n hn l [] false hl
        (fun c hc hc0 _ => ha n c hn (hl.1 c hc) hn0 hc0) (by simp) (Or.inl hne)
      simpa using this
    · exact linear_good _ n hn l hl (fun c hc => ecPredicate_eq ha hn hn0 (hl.1 c hc))

/-- a node that may be inserted: a node of `d` that is not the document node — or any node of `d` once
`proposed/C12-docnode-first.diff` is in the tree -/
def Insertable (env : Env) (d : Nat) (n : NodeRef) : Prop :=
  n.doc = d ∧ (n.idx ≠ 0 ∨ env.docNodeFirst = true)

theorem addNodeInDocOrder_good {env : Env} {d : Nat} (ha : AfterIsIndex env d) {l : List NodeRef}
    {n : NodeRef} (hl : DocOrderedSet d l) (hni : Insertable env d n) :
    DocOrderedSet d (addNodeInDocOrder env l n) ∧ ∀ m, m ∈ addNodeInDocOrder env l n ↔ m = n ∨ m ∈ l := by
  obtain ⟨hn, hn0⟩ := hni
  unfold addNodeInDocOrder
  cases l with
  | nil =>
    refine ⟨⟨?_, List.pairwise_singleton _ _⟩, by simp⟩
    intro m hm; simp at hm; rw [hm]; exact hn
  | cons first rest =>
    have hne : first :: rest ≠ [] := List.cons_ne_nil _ _
    have hlast : (first :: rest).getLast? = some ((first :: rest).getLast hne) :=
      List.getLast?_eq_some_getLast hne
    rw [hlast]
    simp only
    have hlm : (first :: rest).getLast hne ∈ first :: rest := List.getLast_mem hne
    have hfd : first.doc = d := hl.1 first List.mem_cons_self
    split
    · rename_i heq
      refine ⟨hl, fun m => ⟨Or.inr, ?_⟩⟩
      rintro (h | h)
      · rw [h, ← heq]; exact hlm
      · exact h
    · split
      · rename_i hc
        simp only [Bool.and_eq_true, NodeRef.isDoc, beq_iff_eq, NodeRef.normOwner] at hc
        have hi0 : n.idx = 0 := hc.1.2
        split
        · rename_i hfn
          refine ⟨hl, fun m => ⟨Or.inr, ?_⟩⟩
          rintro (h | h)
          · rw [h, ← hfn]; exact List.mem_cons_self
          · exact h
        · rename_i hfn
          have hf0 : first.idx ≠ 0 := fun h => hfn (NodeRef.ext' (by rw [hfd, hn]) (by rw [h, hi0]))
          have hp := List.pairwise_cons.mp hl.2
          refine ⟨⟨?_, ?_⟩, fun m => by simp⟩
          · intro m hm
            rw [List.mem_cons] at hm
            rcases hm with h | h
            · rw [h]; exact hn
            · exact hl.1 m h
          · rw [List.pairwise_cons]
            refine ⟨?_, hl.2⟩
            intro x hx
            rw [List.mem_cons] at hx
            rcases hx with h | h
            · rw [h, hi0]; omega
            · have := hp.1 x h; rw [hi0]; omega
      · rename_i hc
        have hn0' : n.idx ≠ 0 := by
          rcases hn0 with h | h
          · exact h
          · intro h0
            apply hc
            simp [h, NodeRef.isDoc, h0, NodeRef.normOwner, hn, hfd]
        exact good_insert hl hn (chooseSearch_good ha hl hne hn hn0' List.mem_cons_self hlm)

/-! ### insertion histories -/

theorem foldl_add_good {env : Env} {d : Nat} (ha : AfterIsIndex env d) :
    ∀ (src l : List NodeRef), DocOrderedSet d l → (∀ m ∈ src, Insertable env d m) →
      DocOrderedSet d (src.foldl (addNodeInDocOrder env) l) ∧
        ∀ m, m ∈ src.foldl (addNodeInDocOrder env) l ↔ m ∈ l ∨ m ∈ src
  | [], l, hl, _ => by simpa using hl
  | n :: src, l, hl, hs => by
    have h1 := addNodeInDocOrder_good ha hl (hs n List.mem_cons_self)
    have h2 := foldl_add_good ha src _ h1.1 (fun m hm => hs m (List.mem_cons_of_mem _ hm))
    simp only [List.foldl_cons]
    refine ⟨h2.1, fun m => ?_⟩
    rw [h2.2 m, h1.2 m, List.mem_cons]
    constructor
    · rintro ((h | h) | h)
      · exact Or.inr (Or.inl h)
      · exact Or.inl h
      · exact Or.inr (Or.inr h)
    · rintro (h | h | h)
      · exact Or.inl (Or.inr h)
      · exact Or.inl (Or.inl h)
      · exact Or.inr h

/-- a document-ordered set is determined by its members -/
theorem docOrderedSet_unique {d : Nat} :
    ∀ (l₁ l₂ : List NodeRef), DocOrderedSet d l₁ → DocOrderedSet d l₂ → (∀ m, m ∈ l₁ ↔ m ∈ l₂) → l₁ = l₂
  | [], [], _, _, _ => rfl
  | [], b :: _, _, _, h => by have := (h b).2 List.mem_cons_self; simp at this
  | a :: _, [], _, _, h => by have := (h a).1 List.mem_cons_self; simp at this
  | a :: l₁, b :: l₂, h1, h2, h => by
    have p1 := List.pairwise_cons.mp h1.2
    have p2 := List.pairwise_cons.mp h2.2
    have hab : a = b := by
      have ha : a ∈ b :: l₂ := (h a).1 List.mem_cons_self
      have hb : b ∈ a :: l₁ := (h b).2 List.mem_cons_self
      rw [List.mem_cons] at ha hb
      rcases ha with ha | ha
      · exact ha
      · rcases hb with hb | hb
        · exact hb.symm
        · have := p1.1 b hb; have := p2.1 a ha; omega
    subst hab
    have ht : l₁ = l₂ := by
      apply docOrderedSet_unique l₁ l₂ ⟨fun m hm => h1.1 m (List.mem_cons_of_mem _ hm), p1.2⟩
        ⟨fun m hm => h2.1 m (List.mem_cons_of_mem _ hm), p2.2⟩
      intro m
      constructor
      · intro hm
        have := (h m).1 (List.mem_cons_of_mem _ hm)
        rw [List.mem_cons] at this
        rcases this with e | e
        · have := p1.1 m hm; rw [e] at this; omega
        · exact e
      · intro hm
        have := (h m).2 (List.mem_cons_of_mem _ hm)
        rw [List.mem_cons] at this
        rcases this with e | e
        · have := p2.1 m hm; rw [e] at this; omega
        · exact e
    rw [ht]

/-! ### merges and unions -/

/-- no document node among the operand's nodes — not needed once `proposed/C12-docnode-first.diff` is in the tree -/
def NoDocNode (env : Env) (l : List NodeRef) : Prop := env.docNodeFirst = true ∨ ∀ m ∈ l, m.idx ≠ 0

theorem mutable_good {env : Env} {d : Nat} (ha : AfterIsIndex env d) {l src : List NodeRef} {o : Order}
    (hl : DocOrderedSet d l) (hs : DocOrderedSet d src) (hnd : NoDocNode env src) :
    DocOrderedSet d (addNodesInDocOrderMutable env ⟨l, o⟩ ⟨src, .document⟩).nodes ∧
      (∀ m, m ∈ (addNodesInDocOrderMutable env ⟨l, o⟩ ⟨src, .document⟩).nodes ↔ m ∈ l ∨ m ∈ src) ∧
      (addNodesInDocOrderMutable env ⟨l, o⟩ ⟨src, .document⟩).order = o := by
  unfold addNodesInDocOrderMutable
  simp only
  split
  · rename_i he
    have : l = [] := by simpa using he
    subst this
    exact ⟨hs, by simp, rfl⟩
  · have := foldl_add_good ha src l hl (fun m hm => ⟨hs.1 m hm, hnd.elim Or.inr (fun h => Or.inl (h m hm))⟩)
    exact ⟨this.1, this.2, rfl⟩

theorem union_fold_good {env : Env} {d : Nat} (ha : AfterIsIndex env d) :
    ∀ (ops : List (List NodeRef)) (acc : NList),
      DocOrderedSet d acc.nodes → (∀ o ∈ ops, DocOrderedSet d o ∧ NoDocNode env o) →
      DocOrderedSet d (ops.foldl (fun acc o => addNodesInDocOrderMutable env acc ⟨o, .document⟩) acc).nodes ∧
        ∀ m, m ∈ (ops.foldl (fun acc o => addNodesInDocOrderMutable env acc ⟨o, .document⟩) acc).nodes ↔
          m ∈ acc.nodes ∨ ∃ o ∈ ops, m ∈ o
  | [], acc, hacc, _ => by simpa using hacc
  | o :: ops, acc, hacc, hops => by
    have h1 := mutable_good (o := acc.order) ha hacc (hops o List.mem_cons_self).1 (hops o List.mem_cons_self).2
    have h2 := union_fold_good ha ops (addNodesInDocOrderMutable env acc ⟨o, .document⟩) h1.1
      (fun o' ho' => hops o' (List.mem_cons_of_mem _ ho'))
    simp only [List.foldl_cons]
    refine ⟨h2.1, fun m => ?_⟩
    rw [h2.2 m, h1.2.1 m]
    constructor
    · rintro ((h | h) | ⟨o', ho', h⟩)
      · exact Or.inl h
      · exact Or.inr ⟨o, List.mem_cons_self, h⟩
      · exact Or.inr ⟨o', List.mem_cons_of_mem _ ho', h⟩
    · rintro (h | ⟨o', ho', h⟩)
      · exact Or.inl (Or.inl h)
      · rw [List.mem_cons] at ho'
        rcases ho' with e | e
        · subst e; exact Or.inl (Or.inr h)
        · exact Or.inr ⟨o', e, h⟩

end XalanModel.C12

namespace XalanModel.C12

/-! ### two documents: inserting into the last group -/

theorem linear_append (pred : NodeRef → NodeRef → Bool) (n : NodeRef) :
    ∀ (l₁ l₂ : List NodeRef), (∀ c ∈ l₁, c ≠ n ∧ pred n c = true) →
      findInsertionPointLinearSearch pred n (l₁ ++ l₂) =
        ⟨(findInsertionPointLinearSearch pred n l₂).pos + l₁.length,
         (findInsertionPointLinearSearch pred n l₂).insert⟩
  | [], l₂, _ => by simp
  | c :: l₁, l₂, h => by
    have hc := h c List.mem_cons_self
    have ih := linear_append pred n l₁ l₂ (fun c' hc' => h c' (List.mem_cons_of_mem _ hc'))
    simp only [List.cons_append, findInsertionPointLinearSearch, hc.1, if_false, hc.2, Bool.true_eq_false, ih,
      List.length_cons]
    rfl

theorem insertAt_append (l₁ l₂ : List NodeRef) (pos : Nat) (n : NodeRef) :
    insertAt (l₁ ++ l₂) (pos + l₁.length) n = l₁ ++ insertAt l₂ pos n := by
  unfold insertAt
  have h1 : List.take (pos + l₁.length) (l₁ ++ l₂) = l₁ ++ List.take pos l₂ := by
    rw [Nat.add_comm, List.take_length_add_append]
  have h2 : List.drop (pos + l₁.length) (l₁ ++ l₂) = List.drop pos l₂ := by
    rw [Nat.add_comm, List.drop_length_add_append]
  rw [h1, h2, List.append_assoc]

theorem lastGroup_good {env : Env} {d : Nat} (ha : AfterIsIndex env d) {l₁ l₂ : List NodeRef} {n : NodeRef}
    (hg : env.groupAware = false)
    (hne : l₁ ≠ []) (hl₁ : ∀ c ∈ l₁, c.doc ≠ d) (hl₂ : DocOrderedSet d l₂) (hn : n.doc = d) (hn0 : n.idx ≠ 0) :
    ∃ r, addNodeInDocOrder env (l₁ ++ l₂) n = l₁ ++ r ∧ DocOrderedSet d r ∧ ∀ m, m ∈ r ↔ m = n ∨ m ∈ l₂ := by
  cases l₁ with
  | nil => exact absurd rfl hne
  | cons first rest =>
    unfold addNodeInDocOrder
    rw [List.cons_append]
    have hne' : first :: (rest ++ l₂) ≠ [] := by simp
    have hlast : (first :: (rest ++ l₂)).getLast? = some ((first :: (rest ++ l₂)).getLast hne') :=
      List.getLast?_eq_some_getLast hne'
    rw [hlast]
    simp only
    have hfd : first.doc ≠ d := hl₁ first List.mem_cons_self
    have hnot1 : ∀ c ∈ first :: rest, c ≠ n ∧ executionContextPredicate env n c = true := by
      intro c hc
      have hcd := hl₁ c hc
      refine ⟨fun h => hcd (by rw [h]; exact hn), ?_⟩
      unfold executionContextPredicate documentPredicate NodeRef.owner NodeRef.isDoc
      by_cases hc0 : c.idx = 0
      · simp [hn0, hc0]
      · simp [hn0, hc0, hn]; exact Or.inl (fun h => hcd h.symm)
    split
    · rename_i heq
      have hmem : n ∈ first :: (rest ++ l₂) := by rw [← heq]; exact List.getLast_mem _
      have hn2 : n ∈ l₂ := by
        rw [← List.cons_append, List.mem_append] at hmem
        rcases hmem with h | h
        · exact absurd hn (hl₁ n h)
        · exact h
      exact ⟨l₂, rfl, hl₂, fun m => ⟨Or.inr, fun h => h.elim (fun e => e ▸ hn2) id⟩⟩
    · have hnb : (env.docNodeFirst && n.isDoc && (n.doc == first.normOwner)) = false := by
        simp [NodeRef.isDoc, hn0]
      rw [hnb]
      simp only [Bool.false_eq_true, if_false]
      have hsearch : chooseSearch env n first ((first :: (rest ++ l₂)).getLast (by simp)) (first :: (rest ++ l₂)) =
          findInsertionPointLinearSearch (executionContextPredicate env) n (first :: rest ++ l₂) := by
        unfold chooseSearch NodeRef.owner NodeRef.isDoc NodeRef.normOwner
        have : ¬ (d = first.doc) := fun h => hfd h.symm
        simp [hn0, hn, this, hg]
      rw [hsearch, linear_append _ n (first :: rest) l₂ hnot1]
      have hg := linear_good (executionContextPredicate env) n hn l₂ hl₂
        (fun c hc => ecPredicate_eq ha hn hn0 (hl₂.1 c hc))
      have hres := good_insert hl₂ hn hg
      simp only
      split
      · rename_i hi
        rw [if_pos hi] at hres
        exact ⟨_, by rw [← List.cons_append, insertAt_append], hres.1, hres.2⟩
      · rename_i hi
        rw [if_neg hi] at hres
        exact ⟨l₂, rfl, hres.1, hres.2⟩

end XalanModel.C12
