import XalanModel.C15.Concrete
import XalanModel.C15.KeysProofs
/-!
The concrete documents of `Concrete.lean` satisfy the hypotheses of the abstract theorems: `Raw.number` numbers the
nodes consecutively in document order (so indices increase along `docOrder`) and the document node is the one
numbered 0.
-/
namespace XalanModel.C15.Concrete
open XalanModel.C15

namespace Raw

mutual
/-- number of nodes (attributes included) -/
def size : Raw → Nat
  | mk _ _ _ as ks => 1 + as.length + sizeForest ks
def sizeForest : List Raw → Nat
  | [] => 0
  | r :: rs => size r + sizeForest rs
end

theorem range'_app (s a b : Nat) : List.range' s a ++ List.range' (s + a) b = List.range' s (a + b) := by
  have := List.range'_append (s := s) (m := a) (n := b) (step := 1)
  simpa using this

theorem mkAttrs_idx (doc parent : Nat) : ∀ (as : List (String × String)) (i : Nat),
    (mkAttrs doc parent i as).map (·.idx) = List.range' i as.length := by
  intro as
  induction as with
  | nil => intro i; simp [mkAttrs]
  | cons a as ih =>
    intro i
    obtain ⟨n, v⟩ := a
    simp [mkAttrs, ih (i + 1), List.range'_succ]

mutual
theorem number_spec (doc : Nat) (r : Raw) (start : Nat) (par : Option Nat) :
    (number doc r start par).2 = start + size r ∧
    (number doc r start par).1.docOrder.map (·.idx) = List.range' start (size r) := by
  cases r with
  | mk k n v as ks =>
    have ih := numberForest_spec doc ks (start + 1 + as.length) (some start)
    simp only [number, size]
    refine ⟨by rw [ih.1]; omega, ?_⟩
    simp only [Tree.docOrder, List.map_cons, List.map_append, mkAttrs_idx, ih.2]
    have e : 1 + as.length + sizeForest ks = (as.length + sizeForest ks) + 1 := by omega
    rw [e, List.range'_succ, range'_app]
theorem numberForest_spec (doc : Nat) (rs : List Raw) (start : Nat) (par : Option Nat) :
    (numberForest doc rs start par).2 = start + sizeForest rs ∧
    (Tree.docOrderForest (numberForest doc rs start par).1).map (·.idx) = List.range' start (sizeForest rs) := by
  cases rs with
  | nil => simp [numberForest, sizeForest, Tree.docOrderForest]
  | cons r rs =>
    have h1 := number_spec doc r start par
    have h2 := numberForest_spec doc rs (number doc r start par).2 par
    simp only [numberForest, sizeForest]
    refine ⟨by rw [h2.1, h1.1]; omega, ?_⟩
    rw [h1.1] at h2
    simp only [Tree.docOrderForest, List.map_append, h1.2, h1.1, h2.2]
    exact range'_app start (size r) (sizeForest rs)
end

end Raw

/-- the document node of a concrete document: the node numbered 0 with kind `root` -/
def isDocNode (n : CNode) : Bool := n.kind = .root && n.idx == 0

theorem ofRaw_indexed (k : Nat) (r : Raw) :
    (Doc.ofRaw k r).tree.docOrder.Pairwise (fun a b => a.idx < b.idx) := by
  have h := (Raw.number_spec k r 0 none).2
  have hp : ((Doc.ofRaw k r).tree.docOrder.map (·.idx)).Pairwise (· < ·) := by
    show ((Raw.number k r 0 none).1.docOrder.map (·.idx)).Pairwise (· < ·)
    rw [h]; exact List.pairwise_lt_range'
  rw [List.pairwise_map] at hp
  exact hp

theorem ofRaw_docMin (k : Nat) (r : Raw) :
    DocMin (fun n : CNode => n.idx) isDocNode (Doc.ofRaw k r).tree.docOrder := by
  intro x _ hd y _
  have : x.idx = 0 := by
    simp only [isDocNode, Bool.and_eq_true, beq_iff_eq] at hd
    exact hd.2
  show x.idx ≤ y.idx
  omega

end XalanModel.C15.Concrete
