import XalanModel.C15.Tree
/-!
Helper lemmas: the iterative walk of `KeyTable::KeyTable` folds its action over exactly
`docOrder`.  Invariant: `remaining pos` = the nodes still to be tested when the outer loop is
at `pos` = the subtree under `pos` followed, for every ancestor frame, by the subtrees of the
right siblings.
-/
namespace XalanModel.C15
variable {ν σ : Type}

namespace Tree

theorem docOrder_ne_nil (t : Tree ν) : t.docOrder ≠ [] := by
  cases t; simp [docOrder]

theorem docOrder_length_pos (t : Tree ν) : 0 < t.docOrder.length := by
  cases t; simp [docOrder]

end Tree

/-- what is still to be visited above the cursor -/
def restCtx : List (Frame ν) → List ν
  | [] => []
  | f :: fs => Tree.docOrderForest f.rights ++ restCtx fs

/-- what is still to be visited when the outer loop is at `pos` (including `pos`) -/
def remaining (pos : Loc ν) : List ν := pos.focus.docOrder ++ restCtx pos.ctx

/-- the climbing loop either finds the root of the next unvisited subtree or there is nothing left -/
theorem climb_spec (ctx : List (Frame ν)) :
    ∀ (t : Tree ν) (fuel : Nat), ctx.length ≤ fuel →
      match Loc.climb fuel ⟨t, ctx⟩ with
      | none => restCtx ctx = []
      | some z => remaining z = restCtx ctx := by
  induction ctx with
  | nil =>
    intro t fuel _
    cases fuel <;> simp [Loc.climb, Loc.isStart, restCtx]
  | cons f rest ih =>
    intro t fuel hf
    cases fuel with
    | zero => simp at hf
    | succ n =>
      have hn : rest.length ≤ n := by simpa using hf
      cases hr : f.rights with
      | cons r rs =>
        simp [Loc.climb, Loc.isStart, Loc.nextSibling, hr, remaining, restCtx, Tree.docOrderForest]
      | nil =>
        cases rest with
        | nil =>
          simp [Loc.climb, Loc.isStart, Loc.nextSibling, Loc.parent, hr, restCtx, Tree.docOrderForest]
        | cons g gs =>
          have := ih (Tree.mk f.self f.attrs (f.lefts.reverse ++ t :: f.rights)) n hn
          simp only [Loc.climb, Loc.isStart, Loc.nextSibling, Loc.parent, hr, List.isEmpty_cons,
            Bool.false_eq_true, if_false]
          simpa [restCtx, Tree.docOrderForest, hr] using this

/-- `next` moves to the cursor whose `remaining` is the current one minus the node and its attributes -/
theorem next_spec (pos : Loc ν) :
    match pos.next with
    | none => remaining pos = pos.focus.self :: pos.focus.attrs
    | some z => remaining pos = (pos.focus.self :: pos.focus.attrs) ++ remaining z := by
  obtain ⟨t, ctx⟩ := pos
  obtain ⟨x, as, ks⟩ := t
  cases ks with
  | cons k ks =>
    simp [Loc.next, Loc.firstChild, remaining, restCtx, Tree.docOrder, Tree.docOrderForest, Tree.self, Tree.attrs]
  | nil =>
    have h := climb_spec ctx (Tree.mk x as []) ctx.length (Nat.le_refl _)
    simp only [Loc.next, Loc.firstChild]
    cases hc : Loc.climb ctx.length ⟨Tree.mk x as [], ctx⟩ with
    | none =>
      rw [hc] at h
      have h' : restCtx ctx = [] := h
      simp [remaining, Tree.docOrder, Tree.docOrderForest, Tree.self, Tree.attrs, h']
    | some z =>
      rw [hc] at h
      have h' : remaining z = restCtx ctx := h
      simp only [remaining, Tree.docOrder, Tree.docOrderForest, Tree.self, Tree.attrs, List.append_nil,
        List.cons_append, ← h']

/-- the inner loop acts on the current test node and then on the attributes from `k` on -/
theorem visitLoop_eq (f : σ → ν → σ) (attrs : List ν) :
    ∀ (m k : Nat) (testNode : ν) (s : σ), k + m = attrs.length →
      visitLoop f attrs (1 + m) testNode k s = (testNode :: attrs.drop k).foldl f s := by
  intro m
  induction m with
  | zero =>
    intro k testNode s hk
    have : ¬ k < attrs.length := by omega
    have hd : attrs.drop k = [] := List.drop_eq_nil_of_le (by omega)
    simp [visitLoop, this, hd]
  | succ m ih =>
    intro k testNode s hk
    have hlt : k < attrs.length := by omega
    have hd : attrs.drop k = attrs[k] :: attrs.drop (k + 1) := List.drop_eq_getElem_cons hlt
    have e : 1 + (m + 1) = (1 + m) + 1 := by omega
    rw [e, visitLoop]
    simp only [hlt, dite_true]
    rw [ih (k + 1) attrs[k] (f s testNode) (by omega), hd]
    simp

theorem visit_eq (f : σ → ν → σ) (pos : Loc ν) (s : σ) :
    visit f pos s = (pos.focus.self :: pos.focus.attrs).foldl f s := by
  unfold visit
  have := visitLoop_eq f pos.focus.attrs pos.focus.attrs.length 0 pos.focus.self s (by omega)
  simpa using this

/-- the outer loop folds the action over everything that remains -/
theorem walkFold_remaining (f : σ → ν → σ) :
    ∀ (fuel : Nat) (pos : Loc ν) (s : σ), (remaining pos).length ≤ fuel →
      walkFold f fuel pos s = (remaining pos).foldl f s := by
  intro fuel
  induction fuel with
  | zero =>
    intro pos s h
    have := Tree.docOrder_length_pos pos.focus
    have h2 : (remaining pos).length = pos.focus.docOrder.length + (restCtx pos.ctx).length := by
      simp [remaining]
    omega
  | succ n ih =>
    intro pos s h
    have hn := next_spec pos
    simp only [walkFold]
    cases hx : pos.next with
    | none =>
      rw [hx] at hn
      simp only [hn, visit_eq]
    | some z =>
      rw [hx] at hn
      simp only []
      rw [hn] at h ⊢
      have hz : (remaining z).length ≤ n := by
        simp at h; omega
      rw [ih z _ hz, visit_eq, List.foldl_append]

/-- **the walk visits exactly `docOrder`, in that order** (generic in the action) -/
theorem walkTree_eq_foldl (f : σ → ν → σ) (t : Tree ν) (s : σ) :
    walkTree f t s = t.docOrder.foldl f s := by
  have := walkFold_remaining f t.size ⟨t, []⟩ s (by simp [remaining, restCtx, Tree.size])
  simpa [walkTree, remaining, restCtx] using this

/-- `getKeyNode` ends at the top of the tree the context node lies in, whatever the context node: key tables are
per tree (source document or result tree fragment) -/
theorem keyNode_eq_top (ctx : List (Frame ν)) : ∀ (t : Tree ν) (fuel : Nat), ctx.length ≤ fuel →
    Loc.keyNode fuel ⟨t, ctx⟩ = ⟨Loc.rebuild t ctx, []⟩ := by
  induction ctx with
  | nil => intro t fuel _; cases fuel <;> simp [Loc.keyNode, Loc.parent, Loc.rebuild]
  | cons f rest ih =>
    intro t fuel hf
    cases fuel with
    | zero => simp at hf
    | succ n =>
      simp only [Loc.keyNode, Loc.parent, Loc.rebuild]
      exact ih _ n (by simpa using hf)

theorem foldl_snoc_eq (l : List ν) (acc : List ν) :
    l.foldl (fun (a : List ν) n => a ++ [n]) acc = acc ++ l := by
  induction l generalizing acc with
  | nil => simp
  | cons x xs ih => simp [ih]

theorem walkList_eq_docOrder (t : Tree ν) : walkList t = t.docOrder := by
  rw [walkList, walkTree_eq_foldl, foldl_snoc_eq]; simp

end XalanModel.C15
