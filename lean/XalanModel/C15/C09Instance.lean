import XalanModel.C15.ConcreteProofs
import XalanModel.Props.C09
/-!
# C15 over C09's matcher

`KeyDecl.isMatch` instantiated with C09's transcription of `XPath::getMatchScore` (`XalanModel.C09.getMatchScore`,
variant `backtracking` = the tree with the pattern repairs 64b58da / 50ed870 / 3a0cdb4 committed) on the matcher's
view of a concrete document.  With C09's `match_iff_select_repaired` the key table is then characterised by the
*specification* of patterns (`C09.Spec.matchesPattern`: the pattern, as an expression, selects the node from some
ancestor-or-self) for every pattern of C09's grammar — step patterns with `/`, `//`, name / `*` / kind tests,
attribute steps, boolean and positional predicates, unions.  Proof file (not imported by the driver).
-/
namespace XalanModel.C15.Concrete
open XalanModel.C15

def toC09Kind : Kind → XalanModel.C09.Kind
  | .root => .root | .elem => .elem | .attr => .attr | .text => .text | .comment => .comment | .pi => .pi
  | .ns => .attr

/-- the document as C09's matcher sees it: the node table in document order (type, name, parent) -/
def toC09 (d : Doc) : XalanModel.C09.Doc :=
  { nodes := d.nodes.toList.map fun n => ⟨toC09Kind n.kind, n.name, n.parent.getD 0⟩ }

theorem idx_lt_size (k : Nat) (r : Raw) (n : CNode) (hn : n ∈ (Doc.ofRaw k r).tree.docOrder) :
    n.idx < (toC09 (Doc.ofRaw k r)).size := by
  have hspec := (Raw.number_spec k r 0 none).2
  have hmem : n.idx ∈ ((Doc.ofRaw k r).tree.docOrder.map (·.idx)) := List.mem_map_of_mem hn
  have hlen : (toC09 (Doc.ofRaw k r)).size = (Doc.ofRaw k r).tree.docOrder.length := by
    simp [toC09, XalanModel.C09.Doc.size, Doc.ofRaw]
  have hl2 : (Doc.ofRaw k r).tree.docOrder.length = Raw.size r := by
    have := congrArg List.length hspec
    simpa [Doc.ofRaw] using this
  have : n.idx ∈ List.range' 0 (Raw.size r) := by
    have h2 : (Doc.ofRaw k r).tree.docOrder.map (·.idx) = List.range' 0 (Raw.size r) := hspec
    rw [h2] at hmem; exact hmem
  rw [hlen, hl2]
  simpa [List.mem_range'] using this

/-- an `xsl:key` whose match is a C09 pattern and whose use is an expression of the C15 fragment -/
abbrev C09Decl := String × XalanModel.C09.Pattern × UseExpr

def mkDeclC09 (posZero : Bool) (docs : Nat → Doc) (D : XalanModel.C09.Doc) (c : C09Decl) : KeyDecl String CNode :=
  { name := c.1
    isMatch := fun n => decide (XalanModel.C09.getMatchScore XalanModel.C09.Variant.backtracking D c.2.1 n.idx ≠ .none)
    use := fun n => evalUse posZero (docs n.doc) c.2.2 n }

/-- **key_spec over C09's matcher model**: for every concrete document whose matcher view is well-formed (C09's `WF`,
a decidable shape check) and every list of declarations whose match patterns are valid patterns of C09's grammar,
the table the transcribed `KeyTable` constructor builds *using the transcribed `getMatchScore`* answers with the
document-order list of the nodes that the pattern *selects as an expression* (C09's specification) and whose `use`
has the value. -/
theorem key_spec_c09 (k : Nat) (r : Raw) (docs : Nat → Doc) (posZero : Bool) (cdecls : List C09Decl)
    (hwf : (toC09 (Doc.ofRaw k r)).WF = true) (hval : ∀ c ∈ cdecls, ∀ p ∈ c.2.1, p.valid = true)
    (name value : String) :
    let d := Doc.ofRaw k r
    let D := toC09 d
    (KeyTable.create (fun n : CNode => n.idx) isDocNode d.tree (cdecls.map (mkDeclC09 posZero docs D))).getNodeSetByKey
        name value =
      if cdecls.any (fun c => c.1 = name) then
        some (d.tree.docOrder.filter fun n => cdecls.any fun c =>
          decide (c.1 = name) && XalanModel.C09.Spec.matchesPattern D c.2.1 n.idx &&
            (match evalUse posZero (docs n.doc) c.2.2 n with
             | .str s => decide (s = value)
             | .nodeset vals => vals.contains value))
      else none := by
  intro d D
  rw [getNodeSetByKey_create (fun n : CNode => n.idx) isDocNode _ d.tree (ofRaw_indexed k r) (ofRaw_docMin k r)
    name value]
  have hd : declared (cdecls.map (mkDeclC09 posZero docs D)) name = cdecls.any (fun c => decide (c.1 = name)) := by
    simp only [declared, List.any_map]; rfl
  rw [hd]
  cases cdecls.any (fun c => decide (c.1 = name)) with
  | false => rfl
  | true =>
    simp only [if_true, specKey]
    congr 1
    apply List.filter_congr
    intro n hn
    simp only [hasKey, List.any_map]
    have hlt := idx_lt_size k r n hn
    clear hd
    induction cdecls with
    | nil => rfl
    | cons c cs ih =>
      have hc := XalanModel.Props.C09.match_iff_select_repaired D hwf c.2.1 (hval c (by simp)) n.idx hlt
      have hb : decide (XalanModel.C09.getMatchScore XalanModel.C09.Variant.backtracking D c.2.1 n.idx ≠ .none) =
          XalanModel.C09.Spec.matchesPattern D c.2.1 n.idx := by
        cases hm : XalanModel.C09.Spec.matchesPattern D c.2.1 n.idx with
        | true => simpa using hc.mpr hm
        | false =>
          have : ¬ (XalanModel.C09.getMatchScore XalanModel.C09.Variant.backtracking D c.2.1 n.idx ≠ .none) := by
            intro h; have := hc.mp h; rw [hm] at this; exact absurd this (by simp)
          simpa using this
      simp only [List.any_cons, Function.comp, mkDeclC09, hb]
      rw [← ih (fun c' hc' => hval c' (by simp [hc']))]
      rfl

/-- `<a x="u"><b/>t</a>` -/
def exRaw : Raw :=
  .mk .root "" "" [] [.mk .elem "a" "" [("x", "u")] [.mk .elem "b" "" [] [], .mk .text "" "t" [] []]]

/-- the hypotheses are satisfiable: the matcher view of a parsed document is well-formed, `a/b|@x` is valid -/
example : (toC09 (Doc.ofRaw 0 exRaw)).WF = true ∧
    (∀ p ∈ ([⟨false, [(.child, XalanModel.Props.C09.nm "a"), (.child, XalanModel.Props.C09.nm "b")]⟩,
             ⟨false, [(.child, { attrAxis := true, test := .name "x", preds := [] })]⟩] : XalanModel.C09.Pattern),
       p.valid = true) := by decide

end XalanModel.C15.Concrete
