import XalanModel.C15.Keys
/-!
# C15 — concrete instantiation used by the driver `xm_c15`

The theorems of `Props/C15.lean` treat pattern matching and `use` evaluation abstractly
(`KeyDecl.isMatch`, `KeyDecl.use`).  To *run* the model next to the real library the driver needs
concrete ones for the small pattern / expression fragment that the generator emits (the texts are
sent verbatim to both sides).  These evaluators are specification-style (XPath 1.0 §2–§5, XSLT 1.0
§5.2), independent of Xalan's XPath engine; nothing is proved about them here (C02/C09 are about
that engine).  Core Lean only.
-/
namespace XalanModel.C15.Concrete
open XalanModel.C15

inductive Kind where
  | root | elem | attr | text | comment | pi
  /-- namespace node (only ever produced by the `namespace::*` step of a `use` expression) -/
  | ns
deriving Repr, DecidableEq, Inhabited

/-- a node of a parsed document; `idx` = document-order number (root 0; an element's attributes
follow it, then its children) -/
structure CNode where
  /-- which document (0 = main source, k = the k-th `document()` load) -/
  doc : Nat
  idx : Nat
  kind : Kind
  name : String
  /-- XPath string-value -/
  value : String
  parent : Option Nat
  /-- the element carries the namespace declaration `xmlns:zz="urn:zz"` -/
  nsdecl : Bool := false
deriving Repr, Inhabited

/-- unnumbered parse tree -/
inductive Raw where
  | mk (kind : Kind) (name : String) (value : String) (attrs : List (String × String)) (kids : List Raw)
deriving Inhabited

namespace Raw
mutual
/-- concatenation of descendant text nodes -/
def textOf : Raw → String
  | mk .text _ v _ _ => v
  | mk .elem _ _ _ ks => textOfForest ks
  | mk .root _ _ _ ks => textOfForest ks
  | mk _ _ _ _ _ => ""
def textOfForest : List Raw → String
  | [] => ""
  | r :: rs => textOf r ++ textOfForest rs
end

def strValue : Raw → String
  | r@(mk k _ v _ _) => match k with
    | .elem | .root => textOf r
    | _ => v

def mkAttrs (doc parent : Nat) : Nat → List (String × String) → List CNode
  | _, [] => []
  | i, (n, v) :: rest => ⟨doc, i, .attr, n, v, some parent, false⟩ :: mkAttrs doc parent (i + 1) rest

mutual
/-- assign document-order numbers starting at `next`; returns the tree and the next free number -/
def number (doc : Nat) : Raw → Nat → Option Nat → Tree CNode × Nat
  | r@(mk k n _ as ks), next, par =>
    let self : CNode := { doc := doc, idx := next, kind := k, name := n, value := strValue r, parent := par,
                          nsdecl := (match r with | mk .elem _ v _ _ => v == "ns" | _ => false) }
    let attrs := mkAttrs doc next (next + 1) as
    let (kids, next') := numberForest doc ks (next + 1 + as.length) (some next)
    (Tree.mk self attrs kids, next')
def numberForest (doc : Nat) : List Raw → Nat → Option Nat → List (Tree CNode) × Nat
  | [], next, _ => ([], next)
  | r :: rs, next, par =>
    let (t, n1) := number doc r next par
    let (ts, n2) := numberForest doc rs n1 par
    (t :: ts, n2)
end
end Raw

/-- a parsed document: the tree (for the walk) and its nodes in document order (for navigation) -/
structure Doc where
  tree : Tree CNode
  nodes : Array CNode

instance : Inhabited Doc := ⟨⟨Tree.mk default [] [], #[]⟩⟩

def Doc.ofRaw (doc : Nat) (r : Raw) : Doc :=
  let t := (Raw.number doc r 0 none).1
  { tree := t, nodes := t.docOrder.toArray }

/-! ### token stream → `Raw`
`R <nkids>` · `E <name> <nattrs> <nkids>` (`EN …` = it declares `xmlns:zz="urn:zz"`) followed by `A <name> <value>`* · `T <value>` ·
`C <value>` · `P <target> <value>`; the value `-` is the empty string. -/

/-- protocol token → value: `-` is the empty string, `~` stands for a space -/
def unval (s : String) : String := if s = "-" then "" else s.replace "~" " "

def parseAttrs : Nat → List String → Option (List (String × String) × List String)
  | 0, ts => some ([], ts)
  | n + 1, "A" :: name :: v :: ts =>
    (parseAttrs n ts).map fun (as, rest) => ((name, unval v) :: as, rest)
  | _, _ => none

mutual
def parseNode : Nat → List String → Option (Raw × List String)
  | 0, _ => none
  | fuel + 1, "R" :: nk :: ts =>
    nk.toNat?.bind fun nk => (parseKids fuel nk ts).map fun (ks, rest) => (Raw.mk .root "" "" [] ks, rest)
  | fuel + 1, "E" :: name :: na :: nk :: ts =>
    na.toNat?.bind fun na => nk.toNat?.bind fun nk =>
      (parseAttrs na ts).bind fun (as, ts1) =>
        (parseKids fuel nk ts1).map fun (ks, rest) => (Raw.mk .elem name "" as ks, rest)
  | fuel + 1, "EN" :: name :: na :: nk :: ts =>     -- element declaring xmlns:zz="urn:zz" (marked in the unused value)
    na.toNat?.bind fun na => nk.toNat?.bind fun nk =>
      (parseAttrs na ts).bind fun (as, ts1) =>
        (parseKids fuel nk ts1).map fun (ks, rest) => (Raw.mk .elem name "ns" as ks, rest)
  | _ + 1, "T" :: v :: ts => some (Raw.mk .text "" (unval v) [] [], ts)
  | _ + 1, "C" :: v :: ts => some (Raw.mk .comment "" (unval v) [] [], ts)
  | _ + 1, "P" :: tgt :: v :: ts => some (Raw.mk .pi tgt (unval v) [] [], ts)
  | _ + 1, _ => none
def parseKids : Nat → Nat → List String → Option (List Raw × List String)
  | 0, _, _ => none
  | _ + 1, 0, ts => some ([], ts)
  | fuel + 1, n + 1, ts =>
    (parseNode fuel ts).bind fun (r, ts1) =>
      (parseKids fuel n ts1).map fun (rs, rest) => (r :: rs, rest)
end

def parseDoc (doc : Nat) (ts : List String) : Option Doc :=
  match parseNode (2 * ts.length + 2) ts with
  | some (r@(Raw.mk .root _ _ _ _), []) => some (Doc.ofRaw doc r)
  | _ => none

/-! ### navigation on a `Doc` -/
namespace Doc

def get (d : Doc) (i : Nat) : CNode := d.nodes.getD i default

def parentOf (d : Doc) (n : CNode) : Option CNode := n.parent.map d.get

def attrsOf (d : Doc) (n : CNode) : List CNode :=
  if n.kind = .elem then d.nodes.toList.filter fun c => c.kind = .attr ∧ c.parent = some n.idx else []

def childrenOf (d : Doc) (n : CNode) : List CNode :=
  if n.kind = .elem ∨ n.kind = .root then
    d.nodes.toList.filter fun c => c.kind ≠ .attr ∧ c.parent = some n.idx
  else []

/-- proper ancestors, nearest first -/
def ancestorsOf (d : Doc) (n : CNode) : List CNode :=
  let rec go : Nat → Option Nat → List CNode
    | 0, _ => []
    | _, none => []
    | f + 1, some p => let pn := d.get p; pn :: go f pn.parent
  go d.nodes.size n.parent

/-- the descendant axis (never contains attributes) -/
def descendantsOf (d : Doc) (n : CNode) : List CNode :=
  d.nodes.toList.filter fun c => c.kind ≠ .attr ∧ (d.ancestorsOf c).any fun a => a.idx = n.idx

end Doc

/-! ### patterns (XSLT 1.0 §5.2) — the fragment the generator emits -/

inductive NodeTest where
  | name (s : String) | star | attr (s : String) | attrStar | text | comment | pi | node
deriving Repr, DecidableEq

inductive Pred where
  | hasAttr (a : String) | attrEq (a v : String) | notAttr (a : String) | hasChild (n : String)
  /-- `[k]` = `[position() = k]` -/
  | index (k : Nat)
  /-- `[last()]` -/
  | last
  /-- `[function-available('concat')]` / `[element-available('xsl:if')]`: always true; generated because their
  evaluation resolves a QName at run time -/
  | always
deriving Repr, DecidableEq

structure Step where
  /-- `true` when the separator in front of this step is `//` -/
  desc : Bool
  test : NodeTest
  preds : List Pred
deriving Repr

structure PathPat where
  /-- 0 relative · 1 leading `/` · 2 leading `//` -/
  absolute : Nat
  steps : List Step
deriving Repr

def parseTest (s : String) : NodeTest :=
  if s = "*" then .star
  else if s = "@*" then .attrStar
  else if s = "text()" then .text
  else if s = "comment()" then .comment
  else if s = "processing-instruction()" then .pi
  else if s = "node()" then .node
  else if s.startsWith "@" then .attr (s.drop 1).toString
  else .name s

/-- `@a]` · `@a='v']` · `not(@a)]` · `n]` · `3]` · `last()]` -/
def parsePred (s : String) : Option Pred :=
  if ¬ s.endsWith "]" then none else
  let b := (s.dropEnd 1).toString
  if b = "last()" then some .last
  else if b = "function-available('concat')" ∨ b = "element-available('xsl:if')" then some .always
  else if b.toNat?.isSome then b.toNat?.map .index
  else if b.startsWith "not(@" ∧ b.endsWith ")" then some (.notAttr ((b.drop 5).dropEnd 1).toString)
  else if b.startsWith "@" then
    match (b.drop 1).toString.splitOn "='" with
    | [a] => some (.hasAttr a)
    | [a, v] => if v.endsWith "'" then some (.attrEq a (v.dropEnd 1).toString) else none
    | _ => none
  else some (.hasChild b)

def parseStep (desc : Bool) (s : String) : Option Step :=
  match s.splitOn "[" with
  | [] => none
  | t :: ps =>
    if t.isEmpty then none else
    (ps.mapM parsePred).map fun preds => ⟨desc, parseTest t, preds⟩

/-- steps of `a/b//c` (split on `/`; an empty piece marks `//`) -/
def parseSteps : Bool → List String → Option (List Step)
  | _, [] => some []
  | desc, p :: ps =>
    if p.isEmpty then (if desc then none else parseSteps true ps)
    else (parseStep desc p).bind fun st => (parseSteps false ps).map (st :: ·)

def parsePath (s : String) : Option PathPat :=
  if s = "/" then some ⟨1, []⟩
  else if s.startsWith "//" then (parseSteps false ((s.drop 2).toString.splitOn "/")).map (⟨2, ·⟩)
  else if s.startsWith "/" then (parseSteps false ((s.drop 1).toString.splitOn "/")).map (⟨1, ·⟩)
  else (parseSteps false (s.splitOn "/")).map (⟨0, ·⟩)

/-- a pattern: alternatives separated by `|` -/
def parsePattern (s : String) : Option (List PathPat) :=
  (s.splitOn "|").mapM parsePath

def testNode (t : NodeTest) (n : CNode) : Bool :=
  match t with
  | .name s => n.kind = .elem ∧ n.name = s
  | .star => n.kind = .elem
  | .attr s => n.kind = .attr ∧ n.name = s
  | .attrStar => n.kind = .attr
  | .text => n.kind = .text
  | .comment => n.kind = .comment
  | .pi => n.kind = .pi
  | .node => n.kind = .elem ∨ n.kind = .text ∨ n.kind = .comment ∨ n.kind = .pi

/-- a predicate on `n`, which is the `pos`-th (1-based) of `size` candidates of its step -/
def evalPred (d : Doc) (n : CNode) (pos size : Nat) : Pred → Bool
  | .hasAttr a => (d.attrsOf n).any fun c => c.name = a
  | .attrEq a v => (d.attrsOf n).any fun c => c.name = a ∧ c.value = v
  | .notAttr a => ! (d.attrsOf n).any fun c => c.name = a
  | .hasChild nm => (d.childrenOf n).any fun c => c.kind = .elem ∧ c.name = nm
  | .always => true
  | .index k => pos = k
  | .last => pos = size

/-- filter a candidate list (document order) by one predicate, with XPath's position()/last() -/
def filterPred (d : Doc) (p : Pred) (cands : List CNode) : List CNode :=
  let size := cands.length
  (cands.zipIdx.filter fun (c, i) => evalPred d c (i + 1) size p).map (·.1)

/-- does `n` pass the step: `n` satisfies the node test and survives the predicates applied in turn to the
candidates of the step, i.e. its siblings (same parent, same axis) that satisfy the node test -/
def stepOk (d : Doc) (st : Step) (n : CNode) : Bool :=
  testNode st.test n &&
    (let sibs : List CNode :=
        match d.parentOf n with
        | some p => ((if n.kind = .attr then d.attrsOf p else d.childrenOf p).filter (testNode st.test))
        | none => [n]
     (st.preds.foldl (fun cands p => filterPred d p cands) sibs).any fun c => c.idx = n.idx)

/-- `rsteps` = the steps right to left; `n` is tested against the head.  A node matches a pattern iff
it is selected by the pattern from some ancestor-or-self context (XSLT 1.0 §5.2) — i.e. with full
backtracking over the ancestors at a `//`. -/
def matchSteps (d : Doc) (absolute : Nat) : List Step → CNode → Bool
  | [], n => n.kind = .root
  | [st], n =>
    stepOk d st n &&
      (match absolute with
       | 1 => (match d.parentOf n with | some p => p.kind = .root | none => false)
       | _ => true)
  | st :: prev :: rest, n =>
    stepOk d st n &&
      (if st.desc then (d.ancestorsOf n).any fun a => matchSteps d absolute (prev :: rest) a
       else match d.parentOf n with
         | some p => matchSteps d absolute (prev :: rest) p
         | none => false)

def matchPath (d : Doc) (p : PathPat) (n : CNode) : Bool :=
  matchSteps d p.absolute p.steps.reverse n

/-- XSLT 1.0 §5.2.  (Until /repo commit 64b58da `XPath::getMatchScore` accepted the *document node* for a pattern
whose last step is `node()`; while that was so the driver carried the deviation as `rootQuirk` — see design/C15.md,
finding 2.) -/
def matchPattern (d : Doc) (ps : List PathPat) (n : CNode) : Bool :=
  ps.any fun p => matchPath d p n

/-! ### `use` expressions — the fragment the generator emits -/

inductive UStep where
  | self | parent | attr (a : String) | attrStar | child (n : String) | childStar | text | node | descOrSelf
  /-- `namespace::*` (last step only) -/
  | namespace
deriving Repr, DecidableEq

inductive SArg where
  | lit (s : String)
  | str (p : List UStep)
  | count (p : List UStep)
  | eq (p : List UStep) (v : String)
  | name
  /-- `position()` / `last()` inside `use` -/
  | position
  | last
deriving Repr

inductive UseExpr where
  | path (p : List UStep)
  | one (a : SArg)
  | concat (as : List SArg)
deriving Repr

def parseUStep (s : String) : UStep :=
  if s = "." then .self
  else if s = ".." then .parent
  else if s = "@*" then .attrStar
  else if s = "*" then .childStar
  else if s = "text()" then .text
  else if s = "node()" then .node
  else if s = "namespace::*" then .namespace
  else if s.startsWith "@" then .attr (s.drop 1).toString
  else .child s

def parseUPath (s : String) : List UStep :=
  (s.splitOn "/").map fun p => if p.isEmpty then .descOrSelf else parseUStep p

def parseSArg (s : String) : SArg :=
  if s = "name()" then .name
  else if s = "position()" then .position
  else if s = "last()" then .last
  -- functions that resolve a QName at run time (values fixed by the generated stylesheets: `concat` and `xsl:if` exist,
  -- XSLT version 1, decimal formats `df` / `q:df` declared with the default symbols)
  else if s = "function-available('concat')" ∨ s = "element-available('xsl:if')" then .lit "true"
  else if s = "system-property('xsl:version')" then .lit "1"
  else if s.startsWith "format-number(count(" ∧ (s.endsWith "),'0','df')" ∨ s.endsWith "),'0','q:df')") then
    .count (parseUPath (((s.drop 20).toString.splitOn "),'0','").headD ""))
  else if s.startsWith "'" ∧ s.endsWith "'" then .lit ((s.drop 1).dropEnd 1).toString
  else if s.startsWith "string(" ∧ s.endsWith ")" then .str (parseUPath ((s.drop 7).dropEnd 1).toString)
  else if s.startsWith "count(" ∧ s.endsWith ")" then .count (parseUPath ((s.drop 6).dropEnd 1).toString)
  else match s.splitOn "='" with
    | [p, v] => .eq (parseUPath p) (v.dropEnd 1).toString
    | _ => .lit "?"

def isScalar (s : String) : Bool :=
  s = "name()" || s = "position()" || s = "last()" || s.startsWith "function-available(" || s.startsWith "element-available(" ||
  s.startsWith "system-property(" || s.startsWith "format-number(" || s.startsWith "'" || s.startsWith "string(" || s.startsWith "count(" || (s.splitOn "='").length = 2

def parseUse (s : String) : UseExpr :=
  if s.startsWith "concat(" ∧ s.endsWith ")" then
    .concat ((((s.drop 7).dropEnd 1).toString.splitOn ",").map parseSArg)
  else if isScalar s then .one (parseSArg s)
  else .path (parseUPath s)

def dedupSorted (l : List CNode) : List CNode :=
  let sorted := l.mergeSort fun a b => a.idx ≤ b.idx
  sorted.foldr (fun c acc => match acc with
    | [] => [c]
    | h :: _ => if h.idx = c.idx then acc else c :: acc) []

def evalUStep (d : Doc) (st : UStep) (n : CNode) : List CNode :=
  match st with
  | .self => [n]
  | .parent => (d.parentOf n).toList
  | .attr a => (d.attrsOf n).filter fun c => c.name = a
  | .attrStar => d.attrsOf n
  | .child nm => (d.childrenOf n).filter fun c => c.kind = .elem ∧ c.name = nm
  | .childStar => (d.childrenOf n).filter fun c => c.kind = .elem
  | .text => (d.childrenOf n).filter fun c => c.kind = .text
  | .node => d.childrenOf n
  | .descOrSelf => n :: d.descendantsOf n
  | .namespace =>
    -- the namespace nodes of an element: `xml` always, `zz` when declared on it or on an ancestor
    if n.kind = .elem then
      let mk (j : Nat) (pfx uri : String) : CNode :=
        { doc := n.doc, idx := 1000000 + 2 * n.idx + j, kind := .ns, name := pfx, value := uri, parent := some n.idx }
      mk 0 "xml" "http://www.w3.org/XML/1998/namespace" ::
        (if n.nsdecl || (d.ancestorsOf n).any (·.nsdecl) then [mk 1 "zz" "urn:zz"] else [])
    else []

/-- a location path from `n`: a node-set in document order -/
def evalUPath (d : Doc) (p : List UStep) (n : CNode) : List CNode :=
  p.foldl (fun cur st => dedupSorted (cur.flatMap (evalUStep d st))) [n]

/-- `posZero`: the `use` expression is evaluated with an *empty* context node list (KeyTable.cpp as regenerated by
`translate/c15_keytable.py`), so `position()` and `last()` are 0; XSLT 1.0 §12.2: the list holds just the node → 1 -/
def evalSArg (posZero : Bool) (d : Doc) (n : CNode) : SArg → String
  | .position => if posZero then "0" else "1"
  | .last => if posZero then "0" else "1"
  | .lit s => s
  | .str p => match evalUPath d p n with | [] => "" | c :: _ => c.value
  | .count p => toString (evalUPath d p n).length
  | .eq p v => if (evalUPath d p n).any fun c => c.value = v then "true" else "false"
  | .name => match n.kind with | .elem | .attr | .pi => n.name | _ => ""

def evalUse (posZero : Bool) (d : Doc) (u : UseExpr) (n : CNode) : UseResult :=
  match u with
  | .path p => .nodeset ((evalUPath d p n).map (·.value))
  | .one a => .str (evalSArg posZero d n a)
  | .concat as => .str (String.join (as.map (evalSArg posZero d n)))

/-! ### names of XSLT objects (XSLT 1.0 §2.4) -/

/-- in-scope namespace bindings at the point where a QName is written, outermost first (`("", uri)` = the default
namespace declaration `xmlns="uri"`) -/
abbrev NsContext := List (String × String)

/-- `p=uri;q=uri2;=urn:d` (`-` = none) -/
def parseNsContext (s : String) : NsContext :=
  if s = "-" then [] else
  (s.splitOn ";").filterMap fun b =>
    match b.splitOn "=" with
    | [p, u] => some (p, u)
    | _ => none

/-- The expanded name of an XSLT object (key, named template, mode, …) written as `lex`: a prefix is expanded with
the innermost in-scope declaration of that prefix; **an unprefixed name has no namespace — the default namespace is
not used** (§2.4).  Printed as `local` / `{uri}local`. -/
def resolveObjectName (ctx : NsContext) (lex : String) : String :=
  match lex.splitOn ":" with
  | [p, l] =>
    match ctx.reverse.find? fun b => b.1 = p with
    | some b => "{" ++ b.2 ++ "}" ++ l
    | none => "?unbound:" ++ lex
  | _ => lex

/-- a concrete `xsl:key`: expanded name + the two texts, closed over the documents so that it can serve
as an abstract `KeyDecl` (a node knows its document, `CNode.doc`) -/
def mkDecl (posZero : Bool) (docs : Nat → Doc) (name : String) (pat : List PathPat) (use : UseExpr) :
    KeyDecl String CNode :=
  { name := name
    isMatch := fun n => matchPattern (docs n.doc) pat n
    use := fun n => evalUse posZero (docs n.doc) use n }

end XalanModel.C15.Concrete
