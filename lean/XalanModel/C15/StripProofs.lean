import XalanModel.C15.KeysProofs
/-!
`xsl:strip-space`: the document order of the stripped tree is the document order of the parsed tree minus the
stripped nodes.
-/
namespace XalanModel.C15
variable {ν : Type}

namespace Tree

mutual
theorem docOrder_strip (s : ν → Bool) (t : Tree ν) (h : StripOK s t) :
    (strip s t).docOrder = t.docOrder.filter (fun n => !s n) := by
  cases t with
  | mk x as ks =>
    obtain ⟨hx, has, hks⟩ := h
    have hfa : as.filter (fun n => !s n) = as := by
      apply List.filter_eq_self.mpr
      intro a ha; simp [has a ha]
    simp only [strip, docOrder, List.filter_cons, hx, Bool.not_false, if_true, List.filter_append, hfa]
    rw [docOrderForest_strip s ks hks]
theorem docOrderForest_strip (s : ν → Bool) (ts : List (Tree ν)) (h : StripOKForest s ts) :
    docOrderForest (stripForest s ts) = (docOrderForest ts).filter (fun n => !s n) := by
  cases ts with
  | nil => simp [stripForest, docOrderForest]
  | cons t ts =>
    obtain ⟨ht, hts⟩ := h
    have ih := docOrderForest_strip s ts hts
    by_cases hs : s t.self = true
    · simp only [hs, if_true] at ht
      cases t with
      | mk x as ks =>
        simp only [attrs, kids] at ht
        obtain ⟨h1, h2⟩ := ht
        subst h1; subst h2
        have hx : s x = true := hs
        simp [stripForest, docOrderForest, docOrder, self, hx, ih]
    · have hs' : s t.self = false := by simpa using hs
      simp only [hs', Bool.false_eq_true, if_false] at ht
      simp only [stripForest, hs', Bool.false_eq_true, if_false, docOrderForest, List.filter_append]
      rw [docOrder_strip s t ht, ih]
end

end Tree

end XalanModel.C15
