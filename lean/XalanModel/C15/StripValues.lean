import XalanModel.C15.StripProofs
/-!
# C15 — xsl:strip-space and the *values* of `use`

`key_spec_strip` (Props) treats `use` abstractly.  Here the string-value machinery is made explicit, so that the effect
of stripping on the values a key files its nodes under is part of the statement:

* `textOf` / `textOfKids` / `strVal` transcribe `DOMServices::getNodeData` / `doGetNodeData` exactly as
  `XalanModel.C13.Node.textOf / textOfKids / strVal` do (C13/Tree.lean; a text child for which
  `shouldStripSourceNode` answers "stripped" contributes nothing) — re-stated for this model's `Tree ν`, which also
  has attributes;
* `StripUse` = the `use` expressions `.`, `*`, `text()` (and `@*`, which stripping cannot affect), evaluated on the
  subtree of the tested node with the strip-aware node tests;
* `annot` turns a tree into the tree of its subtrees, so that a `KeyDecl` over subtrees can look below the node.

Proof file (not imported by the driver).
-/
namespace XalanModel.C15
variable {ν : Type}

/-- what the string-value code needs to know about a node payload -/
structure NodeView (ν : Type) where
  /-- character data of a text node -/
  text : ν → Option String
  /-- own value of a comment / PI / attribute node -/
  other : ν → Option String
  isElem : ν → Bool

namespace Tree

theorem self_strip (s : ν → Bool) (t : Tree ν) : (strip s t).self = t.self := by
  cases t; rfl

mutual
/-- `doGetNodeData`: what a node contributes to the string-value of an ancestor -/
def textOf (vw : NodeView ν) (s : ν → Bool) : Tree ν → String
  | mk x _ ks =>
    match vw.text x with
    | some d => d
    | none => textOfKids vw s ks
def textOfKids (vw : NodeView ν) (s : ν → Bool) : List (Tree ν) → String
  | [] => ""
  | k :: ks => (if s k.self then "" else textOf vw s k) ++ textOfKids vw s ks
end

/-- `DOMServices::getNodeData`: XPath string-value, strip-aware -/
def strVal (vw : NodeView ν) (s : ν → Bool) (t : Tree ν) : String :=
  match vw.other t.self with
  | some d => d
  | none => textOf vw s t

def noStrip : ν → Bool := fun _ => false

mutual
theorem textOf_strip (vw : NodeView ν) (s : ν → Bool) (t : Tree ν) :
    textOf vw s t = textOf vw noStrip (strip s t) := by
  cases t with
  | mk x as ks =>
    simp only [textOf, strip]
    cases vw.text x with
    | some d => rfl
    | none => exact textOfKids_strip vw s ks
theorem textOfKids_strip (vw : NodeView ν) (s : ν → Bool) (ks : List (Tree ν)) :
    textOfKids vw s ks = textOfKids vw noStrip (stripForest s ks) := by
  cases ks with
  | nil => rfl
  | cons k ks =>
    by_cases h : s k.self = true
    · simp only [textOfKids, stripForest, h, if_true, String.empty_append]
      exact textOfKids_strip vw s ks
    · have h' : s k.self = false := by simpa using h
      simp only [textOfKids, stripForest, h', Bool.false_eq_true, if_false, noStrip]
      rw [textOf_strip vw s k, textOfKids_strip vw s ks]
end

/-- **the strip-aware string-value of a node of the parsed tree is the plain string-value of the node in the
stripped tree** (C13's `Node.strVal_strip`, here with attributes) -/
theorem strVal_strip (vw : NodeView ν) (s : ν → Bool) (t : Tree ν) :
    strVal vw s t = strVal vw noStrip (strip s t) := by
  unfold strVal
  rw [self_strip]
  cases vw.other t.self with
  | some d => rfl
  | none => exact textOf_strip vw s t

theorem stripForest_eq (s : ν → Bool) (ks : List (Tree ν)) :
    stripForest s ks = (ks.filter fun k => !s k.self).map (strip s) := by
  induction ks with
  | nil => rfl
  | cons k ks ih =>
    by_cases h : s k.self = true
    · simp [stripForest, h, ih]
    · have h' : s k.self = false := by simpa using h
      simp [stripForest, h', ih]

theorem kids_strip (s : ν → Bool) (t : Tree ν) :
    (strip s t).kids = (t.kids.filter fun k => !s k.self).map (strip s) := by
  cases t with
  | mk x as ks => simp [strip, kids, stripForest_eq]

theorem attrs_strip (s : ν → Bool) (t : Tree ν) : (strip s t).attrs = t.attrs := by
  cases t; rfl

end Tree

/-- the `use` expressions whose value stripping can change, plus `@*` -/
inductive StripUse where
  /-- `use="."` -/
  | self
  /-- `use="*"`: the child elements -/
  | childElems
  /-- `use="text()"`: the child text nodes (the strip-aware node test does not accept a stripped one) -/
  | childText
  /-- `use="@*"` -/
  | attrs
deriving Repr, DecidableEq

/-- value of the `use` expression on the tested node `u` (given with its subtree), strip-aware: node tests skip
stripped text nodes (`NodeTester`), string-values skip them (`doGetNodeData`) -/
def evalStripUse (vw : NodeView ν) (s : ν → Bool) (attrVal : ν → String) : StripUse → Tree ν → UseResult
  | .self, u => .nodeset [Tree.strVal vw s u]
  | .childElems, u => .nodeset ((u.kids.filter fun k => !s k.self && vw.isElem k.self).map (Tree.strVal vw s))
  | .childText, u => .nodeset ((u.kids.filter fun k => !s k.self && (vw.text k.self).isSome).map (Tree.strVal vw s))
  | .attrs, u => .nodeset (u.attrs.map attrVal)

theorem childVals_strip (vw : NodeView ν) (s : ν → Bool) (p : ν → Bool) (ks : List (Tree ν)) :
    ((((ks.filter fun k => !s k.self).map (Tree.strip s)).filter fun k => !Tree.noStrip k.self && p k.self).map
        (Tree.strVal vw Tree.noStrip)) =
      (ks.filter fun k => !s k.self && p k.self).map (Tree.strVal vw s) := by
  induction ks with
  | nil => rfl
  | cons k ks ih =>
    cases hs : s k.self with
    | true => simpa [List.filter_cons, hs] using ih
    | false =>
      cases hp : p k.self with
      | true =>
        simp only [List.filter_cons, hs, hp, Bool.not_false, Bool.and_self, if_true, List.map_cons,
          Tree.self_strip, Tree.noStrip, Bool.true_and]
        rw [← Tree.strVal_strip vw s k]
        congr 1
      | false =>
        simp only [List.filter_cons, hs, hp, Bool.not_false, Bool.and_false, Bool.false_eq_true, if_false, if_true,
          List.map_cons, Tree.self_strip, Tree.noStrip, Bool.true_and]
        exact ih

/-- **the values of `use` on the parsed tree (strip-aware) are its values on the stripped tree** -/
theorem evalStripUse_strip (vw : NodeView ν) (s : ν → Bool) (attrVal : ν → String) (e : StripUse) (u : Tree ν) :
    evalStripUse vw s attrVal e u = evalStripUse vw Tree.noStrip attrVal e (Tree.strip s u) := by
  cases e with
  | self => simp [evalStripUse, Tree.strVal_strip vw s u]
  | attrs => simp [evalStripUse, Tree.attrs_strip]
  | childElems =>
    simp only [evalStripUse, Tree.kids_strip, UseResult.nodeset.injEq]
    exact (childVals_strip vw s vw.isElem u.kids).symm
  | childText =>
    simp only [evalStripUse, Tree.kids_strip, UseResult.nodeset.injEq]
    exact (childVals_strip vw s (fun x => (vw.text x).isSome) u.kids).symm

/-! ### the tree of subtrees -/
namespace Tree

mutual
/-- every node's payload becomes the subtree it heads (an attribute: the leaf holding it) -/
def annot : Tree ν → Tree (Tree ν)
  | mk x as ks => mk (mk x as ks) (as.map fun a => mk a [] []) (annotForest ks)
def annotForest : List (Tree ν) → List (Tree (Tree ν))
  | [] => []
  | t :: ts => annot t :: annotForest ts
end

mutual
theorem docOrder_annot_self (t : Tree ν) : (annot t).docOrder.map Tree.self = t.docOrder := by
  cases t with
  | mk x as ks =>
    simp only [annot, docOrder, List.map_cons, List.map_append, List.map_map, self]
    rw [docOrderForest_annot_self ks]
    congr 2
    induction as with
    | nil => rfl
    | cons a as ih => simp [self, ih]
theorem docOrderForest_annot_self (ts : List (Tree ν)) :
    (docOrderForest (annotForest ts)).map Tree.self = docOrderForest ts := by
  cases ts with
  | nil => rfl
  | cons t ts =>
    simp only [annotForest, docOrderForest, List.map_append]
    rw [docOrder_annot_self t, docOrderForest_annot_self ts]
end

theorem strip_leaf (s : ν → Bool) (a : ν) : strip s (mk a [] []) = mk a [] [] := by
  simp [strip, stripForest]

mutual
theorem docOrder_annot_strip (s : ν → Bool) (t : Tree ν) (h : StripOK s t) :
    (annot (strip s t)).docOrder = ((annot t).docOrder.filter fun u => !s u.self).map (strip s) := by
  cases t with
  | mk x as ks =>
    obtain ⟨hx, has, hks⟩ := h
    have hleaves : ∀ (as : List ν), (∀ a ∈ as, s a = false) →
        ((as.map fun a => (mk a [] [] : Tree ν)).filter fun u => !s u.self).map (strip s) =
          as.map fun a => (mk a [] [] : Tree ν) := by
      intro as
      induction as with
      | nil => intro _; rfl
      | cons a as ih =>
        intro h
        have ha := h a (by simp)
        have := ih (fun b hb => h b (by simp [hb]))
        have hsa : (!s (mk a [] [] : Tree ν).self) = true := by simp [self, ha]
        simp only [List.map_cons, List.filter_cons, hsa, if_true, strip_leaf]
        rw [this]
    have h0 : (!s (mk x as ks).self) = true := by simp [self, hx]
    simp only [strip, annot, docOrder, List.filter_cons, h0, if_true, List.map_cons, List.filter_append,
      List.map_append]
    rw [hleaves as has, docOrderForest_annot_strip s ks hks]
theorem docOrderForest_annot_strip (s : ν → Bool) (ts : List (Tree ν)) (h : StripOKForest s ts) :
    docOrderForest (annotForest (stripForest s ts)) =
      ((docOrderForest (annotForest ts)).filter fun u => !s u.self).map (strip s) := by
  cases ts with
  | nil => rfl
  | cons t ts =>
    obtain ⟨ht, hts⟩ := h
    have ih := docOrderForest_annot_strip s ts hts
    by_cases hs : s t.self = true
    · simp only [hs, if_true] at ht
      cases t with
      | mk x as ks =>
        simp only [attrs, kids] at ht
        obtain ⟨h1, h2⟩ := ht
        subst h1; subst h2
        have hx : s x = true := hs
        simp [stripForest, annotForest, annot, docOrderForest, docOrder, self, hx, ih]
    · have hs' : s t.self = false := by simpa using hs
      simp only [hs', Bool.false_eq_true, if_false] at ht
      simp only [stripForest, hs', Bool.false_eq_true, if_false, annotForest, docOrderForest, List.filter_append,
        List.map_append]
      rw [docOrder_annot_strip s t ht, ih]
end

end Tree

/-! ### the key table under stripping, `use` values included -/
section KeyStrip
variable {κ : Type} [DecidableEq κ]

/-- an `xsl:key` whose `use` is one of `StripUse`; the match pattern stays a parameter in two readings: strip-aware on
the parsed tree (`matchS`) and plain on the stripped tree (`matchP`) -/
structure StripDecl (κ ν : Type) where
  name : κ
  matchS : Tree ν → Bool
  matchP : Tree ν → Bool
  use : StripUse

/-- the declaration as Xalan evaluates it on the parsed tree -/
def StripDecl.parsed (vw : NodeView ν) (s : ν → Bool) (av : ν → String) (d : StripDecl κ ν) : KeyDecl κ (Tree ν) :=
  { name := d.name, isMatch := d.matchS, use := evalStripUse vw s av d.use }

/-- the declaration as the specification reads it on the stripped tree -/
def StripDecl.stripped (vw : NodeView ν) (av : ν → String) (d : StripDecl κ ν) : KeyDecl κ (Tree ν) :=
  { name := d.name, isMatch := d.matchP, use := evalStripUse vw Tree.noStrip av d.use }

theorem any_and_const {α : Type} (b : Bool) (p : α → Bool) (l : List α) :
    (l.any fun x => b && p x) = (b && l.any p) := by
  induction l with
  | nil => simp
  | cons a l ih => cases b <;> simp_all

theorem any_congr' {α : Type} (p q : α → Bool) (l : List α) (h : ∀ x ∈ l, p x = q x) : l.any p = l.any q := by
  induction l with
  | nil => rfl
  | cons a l ih =>
    simp only [List.any_cons, h a (by simp), ih (fun x hx => h x (by simp [hx]))]

theorem hasKey_strip (vw : NodeView ν) (s : ν → Bool) (av : ν → String) (decls : List (StripDecl κ ν))
    (hm : ∀ d ∈ decls, ∀ u : Tree ν, d.matchS u = (!s u.self && d.matchP (Tree.strip s u)))
    (name : κ) (value : String) (u : Tree ν) :
    hasKey (decls.map (StripDecl.parsed vw s av)) name value u =
      (!s u.self && hasKey (decls.map (StripDecl.stripped vw av)) name value (Tree.strip s u)) := by
  unfold hasKey
  rw [List.any_map, List.any_map, ← any_and_const]
  apply any_congr'
  intro d hd
  simp only [Function.comp, StripDecl.parsed, StripDecl.stripped, hm d hd u, evalStripUse_strip vw s av d.use u]
  cases s u.self <;> first | rfl | simp

theorem declared_strip (vw : NodeView ν) (s : ν → Bool) (av : ν → String) (decls : List (StripDecl κ ν)) (name : κ) :
    declared (decls.map (StripDecl.parsed vw s av)) name = declared (decls.map (StripDecl.stripped vw av)) name := by
  simp only [declared, List.any_map]
  rfl

/-- **key tables under xsl:strip-space, values included.**  The table `KeyTable::KeyTable` builds by walking the
*parsed* tree — match patterns strip-aware (`hm`: a stripped node never matches, any other node matches iff it
matches in the stripped tree; C13/C09), `use` ∈ {`.`, `*`, `text()`, `@*`} evaluated with the strip-aware node tests
and the strip-aware string-value — answers every lookup with the nodes the *specification* selects on the
*stripped* tree, where `use` is evaluated plainly: same nodes (each node of the answer is the stripped image of the
parsed node), same order.  In particular an element whose string-value contains stripped text is filed under its
stripped string-value. -/
theorem key_strip_values (idx : ν → Nat) (isDoc : ν → Bool) (vw : NodeView ν) (s : ν → Bool) (av : ν → String)
    (decls : List (StripDecl κ ν)) (t : Tree ν)
    (hidx : t.docOrder.Pairwise (fun a b => idx a < idx b)) (hdoc : DocMin idx isDoc t.docOrder)
    (hs : Tree.StripOK s t)
    (hm : ∀ d ∈ decls, ∀ u : Tree ν, d.matchS u = (!s u.self && d.matchP (Tree.strip s u)))
    (name : κ) (value : String) :
    ((KeyTable.create (fun u : Tree ν => idx u.self) (fun u => isDoc u.self) (Tree.annot t)
        (decls.map (StripDecl.parsed vw s av))).getNodeSetByKey name value).map (List.map (Tree.strip s)) =
      if declared (decls.map (StripDecl.stripped vw av)) name then
        some ((Tree.annot (Tree.strip s t)).docOrder.filter
          (hasKey (decls.map (StripDecl.stripped vw av)) name value))
      else none := by
  have hself := Tree.docOrder_annot_self t
  have hp' : (Tree.annot t).docOrder.Pairwise (fun a b => idx a.self < idx b.self) := by
    have : ((Tree.annot t).docOrder.map Tree.self).Pairwise (fun a b => idx a < idx b) := by rw [hself]; exact hidx
    rw [List.pairwise_map] at this
    exact this
  have hd' : DocMin (fun u : Tree ν => idx u.self) (fun u => isDoc u.self) (Tree.annot t).docOrder := by
    intro x hx hxd y hy
    have hx' : x.self ∈ t.docOrder := by rw [← hself]; exact List.mem_map_of_mem hx
    have hy' : y.self ∈ t.docOrder := by rw [← hself]; exact List.mem_map_of_mem hy
    exact hdoc x.self hx' hxd y.self hy'
  rw [getNodeSetByKey_create _ _ _ _ hp' hd' name value, declared_strip vw s av decls name]
  cases hdecl : declared (decls.map (StripDecl.stripped vw av)) name with
  | false => rfl
  | true =>
    simp only [if_true, Option.map_some, specKey]
    congr 1
    rw [Tree.docOrder_annot_strip s t hs, List.filter_map, List.filter_filter]
    congr 1
    apply List.filter_congr
    intro u _
    rw [hasKey_strip vw s av decls hm name value u]
    simp [Bool.and_comm]

end KeyStrip

end XalanModel.C15
