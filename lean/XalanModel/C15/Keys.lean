import XalanModel.C15.Tree
/-!
# C15 — key tables: build, lookup, merged declarations, per-document cache, `key()`

Mirrors, as written:
* `KeyTable::KeyTable`            (XSLT/KeyTable.cpp:60-201)   → `KeyTable.create`
* `KeyTable::processKeyDeclaration` (KeyTable.cpp:288-342)      → `processKeyDeclaration`
* `KeyTable::getNodeSetByKey`     (KeyTable.cpp:237-271)       → `KeyTable.getNodeSetByKey`
* `MutableNodeRefList::addNodeInDocOrder` (XPath/MutableNodeRefList.cpp:591-686, the
  single-document indexed case that key tables use; the full function is C12's subject) → `addNodeInDocOrder`
* `Stylesheet::postConstruction`  (XSLT/Stylesheet.cpp:537-590, key declarations part) → `Sheet.postConstruction`
* `StylesheetRoot::getNodeSetByKey` (XSLT/StylesheetRoot.cpp:816-894) → `rootGetNodeSetByKey`
* `FunctionKey::execute`          (XSLT/FunctionKey.cpp:96-185) → `functionKey`

Abstract here (concrete in `Concrete.lean`, and the subject of C02/C09): whether a node matches the
`match` pattern (`getMatchScore(..) != eMatchScoreNone`) and the value of the `use` expression.
Core Lean only.
-/
namespace XalanModel.C15

/-! ## association lists standing for `XalanMap` (a hash map; iteration order is never observed) -/
namespace AL
variable {α β : Type} [DecidableEq α]

/-- `m.find(k)` -/
def find (k : α) : List (α × β) → Option β
  | [] => none
  | (k', v) :: m => if k' = k then some v else find k m

/-- `f(m[k])` where `operator[]` default-constructs (`d`) a missing entry -/
def upd (k : α) (d : β) (f : β → β) : List (α × β) → List (α × β)
  | [] => [(k, f d)]
  | (k', v) :: m => if k' = k then (k', f v) :: m else (k', v) :: upd k d f m

end AL

/-- value of a `use` expression evaluated with the tested node as context -/
inductive UseResult where
  /-- not a node-set: `xuse->str()` -/
  | str (s : String)
  /-- a node-set: the string values (`DOMServices::getNodeData`) of its nodes, in node-set order -/
  | nodeset (vals : List String)
deriving Repr, DecidableEq

/-- `KeyDeclaration` (XSLT/KeyDeclaration.hpp): name, match pattern, use expression.
`κ` = expanded key name (XalanQName), `ν` = node. -/
structure KeyDecl (κ ν : Type) where
  name : κ
  /-- `kd.getMatchPattern()->getMatchScore(testNode, …) != XPath::eMatchScoreNone` -/
  isMatch : ν → Bool
  /-- `kd.getUse()->execute(testNode, …)` -/
  use : ν → UseResult

section Build
variable {κ ν : Type} [DecidableEq κ]

/-- MutableNodeRefList.cpp `findInsertionPointLinearSearch` with `IndexPredicate`, followed by the
`m_nodeList.insert(insertionPoint, node)`: stop at a duplicate (no insert) or at the first entry the
new node is not after.  Node identity within one document = its index. -/
def insertInOrder (idx : ν → Nat) (n : ν) : List ν → List ν
  | [] => [n]
  | c :: cs =>
    if idx c = idx n then c :: cs
    else if ¬ (idx n > idx c) then n :: c :: cs
    else c :: insertInOrder idx n cs

/-- loop state of `findInsertionPointBinarySearch` (iterators as positions; `end` = length) -/
structure BSState where
  first : Nat
  last : Nat
  current : Nat
  curIdx : Nat
  fInsert : Bool

/-- MutableNodeRefList.cpp `findInsertionPointBinarySearch`, the `while (first <= last)` loop over the node
indices `is` of the list (`fuel` bounds the iterations):
```
current = first + (last - first) / 2;  theCurrentIndex = (*current)->getIndex();
if (theIndex < theCurrentIndex) { if (current == begin) break; else last = current - 1; }
else if (theIndex > theCurrentIndex) first = current + 1;
else { fInsert = false; break; }
``` -/
def bsLoop (is : List Nat) (theIndex : Nat) : Nat → BSState → BSState
  | 0, s => s
  | fuel + 1, s =>
    if s.first ≤ s.last then
      let current := s.first + (s.last - s.first) / 2
      let ci := is.getD current 0
      if theIndex < ci then
        if current = 0 then { s with current := current, curIdx := ci }
        else bsLoop is theIndex fuel { s with current := current, curIdx := ci, last := current - 1 }
      else if theIndex > ci then
        bsLoop is theIndex fuel { s with current := current, curIdx := ci, first := current + 1 }
      else { s with current := current, curIdx := ci, fInsert := false }
    else s

/-- the code after the loop: `(fInsert, insertionPoint)` -/
def bsFinish (n theIndex : Nat) (s : BSState) : Bool × Nat :=
  if theIndex ≠ s.curIdx then
    if s.current = n ∨ s.first = n then (s.fInsert, n)
    else if s.curIdx < theIndex then (s.fInsert, s.current + 1)
    else (s.fInsert, s.current)
  else (s.fInsert, n)     -- duplicate found: the insertion point is not used

/-- `findInsertionPointBinarySearch` on a non-empty list: quick check "just append", else the search -/
def findInsertionPointBinarySearch (is : List Nat) (theIndex : Nat) : Bool × Nat :=
  let n := is.length
  let last := n - 1
  if is.getD last 0 < theIndex then (true, n)
  else bsFinish n theIndex (bsLoop is theIndex (n + 1) ⟨0, last, n, 0, true⟩)

/-- `m_nodeList.insert(insertionPoint, node)` -/
def insertAtPos (l : List ν) (pos : Nat) (n : ν) : List ν := l.take pos ++ n :: l.drop pos

/-- `MutableNodeRefList::addNodeInDocOrder` for nodes of one `XalanSourceTree` document:
empty → `addNode`; same as the last node → nothing; the document node that owns the first node of the list
(`node == theFirstNodeOwner`) → insert at the front unless it is already the first; any other node (indexed,
same owner as the first and the last node) → `findInsertionPointBinarySearch` and insert unless duplicate.
`isDoc n` = `n` is the document node.  (`insertInOrder` above is the linear search the code uses for lists that
span documents; `KeysProofs.binarySearch_eq_linear` shows the two agree on a document-ordered list.) -/
def addNodeInDocOrder (idx : ν → Nat) (isDoc : ν → Bool) (n : ν) (l : List ν) : List ν :=
  match l.getLast? with
  | none => [n]
  | some last =>
    if idx last = idx n then l
    else if isDoc n then
      match l with
      | [] => [n]
      | first :: _ => if idx first = idx n then l else n :: l
    else
      let r := findInsertionPointBinarySearch (l.map idx) (idx n)
      if r.1 then insertAtPos l r.2 n else l

/-- `addNodesInDocOrder(nl)`: one `addNodeInDocOrder` per entry -/
def addNodesInDocOrder (idx : ν → Nat) (isDoc : ν → Bool) (nl : List ν) (l : List ν) : List ν :=
  nl.foldl (fun acc n => addNodeInDocOrder idx isDoc n acc) l

/-- `KeysMapType` = map(key name → map(value → MutableNodeRefList)) -/
abbrev KeysMap (κ ν : Type) := List (κ × List (String × List ν))

/-- `addIfNotFound(executionContext, theKeys[name][value], testNode)` -/
def addKeyed (idx : ν → Nat) (isDoc : ν → Bool) (name : κ) (value : String) (n : ν) (m : KeysMap κ ν) : KeysMap κ ν :=
  AL.upd name [] (fun inner => AL.upd value [] (addNodeInDocOrder idx isDoc n) inner) m

/-- KeyTable.cpp:288-342 -/
def processKeyDeclaration (idx : ν → Nat) (isDoc : ν → Bool) (theKeys : KeysMap κ ν) (kd : KeyDecl κ ν) (testNode : ν) :
    KeysMap κ ν :=
  match kd.use testNode with
  | .str s => addKeyed idx isDoc kd.name s testNode theKeys
  | .nodeset vals => vals.foldl (fun m v => addKeyed idx isDoc kd.name v testNode m) theKeys

/-- KeyTable.cpp:108-132: the loop over the declarations for one tested node -/
def processNode (idx : ν → Nat) (isDoc : ν → Bool) (decls : List (KeyDecl κ ν)) (theKeys : KeysMap κ ν) (testNode : ν) :
    KeysMap κ ν :=
  decls.foldl (fun m kd => if kd.isMatch testNode then processKeyDeclaration idx isDoc m kd testNode else m) theKeys

/-- `KeyTable`: `m_keys` and the copy of the declarations (`m_allKeys`) -/
structure KeyTable (κ ν : Type) where
  keys : KeysMap κ ν
  allKeys : List (KeyDecl κ ν)

/-- the constructor: `m_allKeys = keyDeclarations`, then the walk from `startNode`, processing every
tested node against every declaration.  (The trailing `setDocumentOrder()` loop only sets a flag.) -/
def KeyTable.create (idx : ν → Nat) (isDoc : ν → Bool) (startNode : Tree ν) (keyDeclarations : List (KeyDecl κ ν)) :
    KeyTable κ ν :=
  { keys := walkTree (processNode idx isDoc keyDeclarations) startNode [], allKeys := keyDeclarations }

/-- KeyTable.cpp:237-271.  `some l` = pointer to a list (`s_dummyList` = `[]`), `none` = null pointer
(name not declared anywhere). -/
def KeyTable.getNodeSetByKey (kt : KeyTable κ ν) (qname : κ) (ref : String) : Option (List ν) :=
  match AL.find qname kt.keys with
  | some theMap =>
    match AL.find ref theMap with
    | some l => some l
    | none => some []
  | none =>
    if kt.allKeys.any (fun kd => kd.name = qname) then some [] else none

end Build

/-! ## merged declarations -/

/-- a stylesheet module: its own `xsl:key` declarations (xsl:include'd ones are parsed straight into
the including `Stylesheet` object, so they count as own) and its imports in import order -/
inductive Sheet (κ ν : Type) where
  | mk (own : List (KeyDecl κ ν)) (imports : List (Sheet κ ν))

namespace Sheet
variable {κ ν : Type}

mutual
/-- Stylesheet.cpp:537-590: every import is post-constructed (recursively merged) and its merged
`m_keyDeclarations` is appended, in import order, to this stylesheet's own. -/
def postConstruction : Sheet κ ν → List (KeyDecl κ ν)
  | mk own imports => own ++ postConstructionList imports
def postConstructionList : List (Sheet κ ν) → List (KeyDecl κ ν)
  | [] => []
  | s :: ss => postConstruction s ++ postConstructionList ss
end

mutual
/-- specification: a declaration is in force iff it occurs somewhere in the import tree -/
def Declares : Sheet κ ν → KeyDecl κ ν → Prop
  | mk own imports, kd => kd ∈ own ∨ DeclaresList imports kd
def DeclaresList : List (Sheet κ ν) → KeyDecl κ ν → Prop
  | [], _ => False
  | s :: ss, kd => Declares s kd ∨ DeclaresList ss kd
end

end Sheet

/-! ## the execution context's cache and `StylesheetRoot::getNodeSetByKey` -/
section Root
variable {κ ν δ : Type} [DecidableEq κ] [DecidableEq δ]

/-- `m_keyTables`: key node (document) → its `KeyTable` -/
abbrev KeyTables (κ ν δ : Type) := List (δ × KeyTable κ ν)

/-- the part of a transformation that key lookups see: the stylesheet root's merged declarations, the
documents (`δ` = document identity, i.e. the `XalanDocument*` that `getKeyNode(context)` returns) and the
node index -/
structure Env (κ ν δ : Type) where
  keyDeclarations : List (KeyDecl κ ν)
  doc : δ → Tree ν
  idx : ν → Nat
  /-- is the node a document node (`XalanNode::DOCUMENT_NODE`) -/
  isDoc : ν → Bool

/-- StylesheetRoot.cpp:816-894.  `theKeyNode` = the context node's document.  Result `none` = the
`UnknownKey` error (an exception ends the transformation). -/
def rootGetNodeSetByKey (env : Env κ ν δ) (theKeysTable : KeyTables κ ν δ) (theKeyNode : δ) (qname : κ)
    (ref : String) (nodelist : List ν) : KeyTables κ ν δ × Option (List ν) :=
  let (tables, nl) :=
    -- `m_needToBuildKeysTable` is set in postConstruction iff there is at least one declaration
    if env.keyDeclarations.isEmpty = false then
      match AL.find theKeyNode theKeysTable with
      | some kt => (theKeysTable, kt.getNodeSetByKey qname ref)
      | none =>
        let kt := KeyTable.create env.idx env.isDoc (env.doc theKeyNode) env.keyDeclarations
        ((theKeyNode, kt) :: theKeysTable, kt.getNodeSetByKey qname ref)
    else (theKeysTable, none)
  match nl with
  | none => (tables, none)
  | some nl =>
    if nodelist.isEmpty then (tables, some nl)
    else (tables, some (addNodesInDocOrder env.idx env.isDoc nl nodelist))

/-- second argument of `key()` -/
inductive KeyArg where
  /-- not a node-set: `arg2->str()` -/
  | str (s : String)
  /-- a node-set: the string values of its nodes, in node-set order -/
  | nodeset (vals : List String)
deriving Repr, DecidableEq

/-- FunctionKey.cpp:146-178, the `nRefs > 1` loop.  `skipEmpty` = whether the source has the
`if (0 != ref.length())` guard around the lookup (regenerated from the source by
`translate/c15_functionkey.py`). -/
def functionKeyLoop (env : Env κ ν δ) (skipEmpty : Bool) (theKeyNode : δ) (keyname : κ) :
    List String → KeyTables κ ν δ → List ν → KeyTables κ ν δ × Option (List ν)
  | [], tables, nodelist => (tables, some nodelist)
  | ref :: refs, tables, nodelist =>
    if skipEmpty && ref.isEmpty then functionKeyLoop env skipEmpty theKeyNode keyname refs tables nodelist
    else
      match rootGetNodeSetByKey env tables theKeyNode keyname ref nodelist with
      | (tables', none) => (tables', none)
      | (tables', some nodelist') => functionKeyLoop env skipEmpty theKeyNode keyname refs tables' nodelist'

/-- `FunctionKey::execute` (context non-null): not a node-set → one lookup of `str()`;
node-set of one node → one lookup of its string value; of several → the loop; empty → no lookup. -/
def functionKey (env : Env κ ν δ) (skipEmpty : Bool) (tables : KeyTables κ ν δ) (theKeyNode : δ) (keyname : κ)
    (arg2 : KeyArg) : KeyTables κ ν δ × Option (List ν) :=
  match arg2 with
  | .str s => rootGetNodeSetByKey env tables theKeyNode keyname s []
  | .nodeset [] => (tables, some [])
  | .nodeset [s] => rootGetNodeSetByKey env tables theKeyNode keyname s []
  | .nodeset refs => functionKeyLoop env skipEmpty theKeyNode keyname refs tables []

/-- one `key()` call of a transformation: document of the context node, name, second argument -/
structure Call (κ δ : Type) where
  doc : δ
  name : κ
  arg : KeyArg

/-- a transformation's sequence of `key()` calls, threading the cache; the answers in call order -/
def runCalls (env : Env κ ν δ) (skipEmpty : Bool) :
    KeyTables κ ν δ → List (Call κ δ) → List (Option (List ν))
  | _, [] => []
  | tables, c :: cs =>
    let (tables', r) := functionKey env skipEmpty tables c.doc c.name c.arg
    r :: runCalls env skipEmpty tables' cs

/-- `StylesheetExecutionContextDefault::getNodeSetByKey` has two overloads; each hands a node to
`StylesheetRoot::getNodeSetByKey`, whose document's table is consulted.  `true` = the `context` parameter (the XPath
context node), `false` = `getCurrentNode()` (the XSLT current node).  Regenerated from the source by
`translate/c15_execcontext.py`. -/
structure Overloads where
  /-- `(XalanNode* context, const XalanQName&, …)` -/
  qnameUsesContext : Bool
  /-- `(XalanNode* context, const XalanDOMString& name, …)` -/
  stringUsesContext : Bool
deriving Repr, DecidableEq

/-- a `key()` call as a stylesheet makes it: the XPath context node and the XSLT current node may lie in different
documents (a predicate or later step over another document's nodes); `prefixed` = the lexical key name contains a
colon -/
structure XCall (κ δ : Type) where
  contextDoc : δ
  currentDoc : δ
  prefixed : Bool
  name : κ
  arg : KeyArg

/-- FunctionKey.cpp `getNodeSet` (a name with a colon goes to the string-name overload, any other through
`XalanQNameByReference` to the QName overload) followed by the overload's choice of the key node: the document
whose table answers -/
def XCall.keyDoc (ov : Overloads) (c : XCall κ δ) : δ :=
  if (if c.prefixed then ov.stringUsesContext else ov.qnameUsesContext) then c.contextDoc else c.currentDoc

def XCall.toCall (ov : Overloads) (c : XCall κ δ) : Call κ δ := ⟨c.keyDoc ov, c.name, c.arg⟩

/-- a transformation's `key()` calls with their context/current documents -/
def runXCalls (env : Env κ ν δ) (ov : Overloads) (skipEmpty : Bool) (tables : KeyTables κ ν δ)
    (calls : List (XCall κ δ)) : List (Option (List ν)) :=
  runCalls env skipEmpty tables (calls.map (XCall.toCall ov))

/-- The name `StylesheetRoot::getNodeSetByKey` reads for its lookup when it was called through the string-name
overload of `StylesheetExecutionContextDefault::getNodeSetByKey` (prefixed key names).  `byValue`: the overload
resolved the name into a QName of its own.  Otherwise it resolved it into the execution context's shared scratch
QName and handed on a *reference*: if the call has to build the table (no table cached for the key node,
declarations exist) and evaluating some `match`/`use` during the build resolves another QName through the scratch
(`buildOverwrites`: 3-argument `format-number`, `function-available`, `element-available`), the lookup after the
build reads that other name (`scratchAfter`).  Regenerated flag: `Generated.C15_ExecContext.stringNameByValue`. -/
def nameSeen (byValue buildOverwrites : Bool) (scratchAfter : κ) (env : Env κ ν δ) (tables : KeyTables κ ν δ)
    (theKeyNode : δ) (qname : κ) : κ :=
  if byValue then qname
  else if (AL.find theKeyNode tables).isNone && !env.keyDeclarations.isEmpty && buildOverwrites then scratchAfter
  else qname

/-- `key('p:name', 'ref')` through the string-name overload (the table build itself never looks at the name, so the
overwritten name can be substituted up front) -/
def prefixedKeyCall (byValue buildOverwrites : Bool) (scratchAfter : κ) (env : Env κ ν δ) (tables : KeyTables κ ν δ)
    (theKeyNode : δ) (qname : κ) (ref : String) : KeyTables κ ν δ × Option (List ν) :=
  rootGetNodeSetByKey env tables theKeyNode (nameSeen byValue buildOverwrites scratchAfter env tables theKeyNode qname) ref []

end Root

/-! ## specification (XSLT 1.0 §12.2) -/
section Spec
variable {κ ν δ : Type} [DecidableEq κ]

/-- "the node matches the pattern of an xsl:key with that name and the value of its use expression
(one of the string values if it is a node-set) is `value`" -/
def hasKey (decls : List (KeyDecl κ ν)) (name : κ) (value : String) (n : ν) : Bool :=
  decls.any fun kd =>
    decide (kd.name = name) && kd.isMatch n &&
      (match kd.use n with
       | .str s => decide (s = value)
       | .nodeset vals => vals.contains value)

def declared (decls : List (KeyDecl κ ν)) (name : κ) : Bool := decls.any fun kd => kd.name = name

/-- `key(name, value)` in a document: its nodes having that key, in document order -/
def specKey (decls : List (KeyDecl κ ν)) (t : Tree ν) (name : κ) (value : String) : List ν :=
  t.docOrder.filter (hasKey decls name value)

/-- string values the second argument stands for -/
def KeyArg.values : KeyArg → List String
  | .str s => [s]
  | .nodeset vals => vals

/-- `key(name, arg)`: union over the argument's string values, in document order -/
def specKeyArg (decls : List (KeyDecl κ ν)) (t : Tree ν) (name : κ) (vals : List String) : List ν :=
  t.docOrder.filter fun n => vals.any fun v => hasKey decls name v n

end Spec

end XalanModel.C15
