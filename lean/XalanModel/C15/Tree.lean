/-!
# C15 — documents as an inductive tree, and the `KeyTable` constructor's walk

Mirrors `src/xalanc/XSLT/KeyTable.cpp:60-170` (the non-recursive pre-order walk with the
"node, then each of its attributes" inner loop).  Core Lean only.

* `Tree ν`     : a node (payload `self`), the payloads of its attribute nodes, its children.
                 Non-element nodes simply have `attrs = []`, `kids = []`.
* `docOrder`   : the *specification* of document order (XPath 1.0 §5): a node, then its
                 attributes, then its children's subtrees, recursively.
* `Loc ν`      : a cursor into the tree (zipper) offering exactly the three DOM navigation calls
                 the C++ uses: `getFirstChild`, `getNextSibling`, `getParentNode`; `isStart` is the
                 pointer comparison `startNode == pos` (the walk starts at the root with an empty
                 context, and only the root has an empty context).
* `walkFold`   : the constructor's `while (0 != pos)` loop, generic in the per-node action.
-/
namespace XalanModel.C15

inductive Tree (ν : Type) where
  | mk (self : ν) (attrs : List ν) (kids : List (Tree ν))

namespace Tree
variable {ν : Type}

def self : Tree ν → ν
  | mk x _ _ => x

def attrs : Tree ν → List ν
  | mk _ as _ => as

def kids : Tree ν → List (Tree ν)
  | mk _ _ ks => ks

mutual
/-- specification: document order of the subtree (node, its attributes, its children's subtrees) -/
def docOrder : Tree ν → List ν
  | mk x as ks => x :: (as ++ docOrderForest ks)
def docOrderForest : List (Tree ν) → List ν
  | [] => []
  | t :: ts => docOrder t ++ docOrderForest ts
end

mutual
/-- specification of `xsl:strip-space`: the tree without the child nodes `s` marks (whitespace-only text nodes of
elements whose whitespace is stripped) — "as if the nodes were not there" (XSLT 1.0 §3.4) -/
def strip (s : ν → Bool) : Tree ν → Tree ν
  | mk x as ks => mk x as (stripForest s ks)
def stripForest (s : ν → Bool) : List (Tree ν) → List (Tree ν)
  | [] => []
  | t :: ts => if s t.self then stripForest s ts else strip s t :: stripForest s ts
end

mutual
/-- `s` marks only leaves without attributes (text nodes), never the top node nor an attribute -/
def StripOK (s : ν → Bool) : Tree ν → Prop
  | mk x as ks => s x = false ∧ (∀ a ∈ as, s a = false) ∧ StripOKForest s ks
def StripOKForest (s : ν → Bool) : List (Tree ν) → Prop
  | [] => True
  | t :: ts => (if s t.self then t.attrs = [] ∧ t.kids = [] else StripOK s t) ∧ StripOKForest s ts
end

/-- number of nodes (elements, attributes, text …) of the subtree -/
def size (t : Tree ν) : Nat := (docOrder t).length

end Tree

/-- one ancestor of the cursor: its payload/attributes, the siblings to the left of the path
(nearest first) and to the right -/
structure Frame (ν : Type) where
  self : ν
  attrs : List ν
  lefts : List (Tree ν)
  rights : List (Tree ν)

/-- a `XalanNode*` into a document: the subtree at the pointer plus the path back to the root -/
structure Loc (ν : Type) where
  focus : Tree ν
  ctx : List (Frame ν)

namespace Loc
variable {ν : Type}

/-- `pos->getFirstChild()` -/
def firstChild (z : Loc ν) : Option (Loc ν) :=
  match z.focus with
  | .mk _ _ [] => none
  | .mk x as (k :: ks) => some ⟨k, ⟨x, as, [], ks⟩ :: z.ctx⟩

/-- `pos->getNextSibling()` -/
def nextSibling (z : Loc ν) : Option (Loc ν) :=
  match z.ctx with
  | [] => none
  | f :: rest =>
    match f.rights with
    | [] => none
    | r :: rs => some ⟨r, { f with lefts := z.focus :: f.lefts, rights := rs } :: rest⟩

/-- `pos->getParentNode()` -/
def parent (z : Loc ν) : Option (Loc ν) :=
  match z.ctx with
  | [] => none
  | f :: rest => some ⟨.mk f.self f.attrs (f.lefts.reverse ++ z.focus :: f.rights), rest⟩

/-- `startNode == pos` (the walk starts at the root; only the root has no ancestors) -/
def isStart (z : Loc ν) : Bool := z.ctx.isEmpty

/-- KeyTable.cpp:146-167 — entered with `nextNode == 0`:
```
while(0 == nextNode) {
    if(startNode == pos) break;
    else {
        nextNode = pos->getNextSibling();
        if(0 == nextNode) {
            pos = pos->getParentNode();
            if((startNode == pos) || (0 == pos)) { nextNode = 0; break; }
        } } }
```
`fuel` bounds the number of iterations (each one either ends the loop or moves `pos` one level up). -/
def climb : Nat → Loc ν → Option (Loc ν)
  | 0, _ => none
  | fuel + 1, pos =>
    if pos.isStart then none
    else
      match pos.nextSibling with
      | some n => some n
      | none =>
        match pos.parent with
        | none => none
        | some p => if p.isStart then none else climb fuel p

/-- KeyTable.cpp:144-169: the next pre-order position, or `none` (`pos = 0`, loop ends) -/
def next (pos : Loc ν) : Option (Loc ν) :=
  match pos.firstChild with
  | some c => some c
  | none => climb pos.ctx.length pos

/-- the whole tree a cursor points into (undo the path back to the top) -/
def rebuild : Tree ν → List (Frame ν) → Tree ν
  | t, [] => t
  | t, f :: rest => rebuild (.mk f.self f.attrs (f.lefts.reverse ++ t :: f.rights)) rest

/-- StylesheetRoot.cpp `getKeyNode(context)`: the node whose key table answers.  For a source document it is
`getOwnerDocument()`, for a result tree fragment the loop
`for(;;) { if (type == DOCUMENT_FRAGMENT_NODE) break; currentNode = getParentOfNode(*currentNode); }` — in both
cases the node of the context node's tree that has no parent.  `fuel` bounds the climb by the depth. -/
def keyNode : Nat → Loc ν → Loc ν
  | 0, z => z
  | fuel + 1, z =>
    match z.parent with
    | none => z
    | some p => keyNode fuel p

end Loc

section Walk
variable {ν σ : Type}

/-- KeyTable.cpp:100-140, the inner `for (i = 0; i < nNodes; ++i)` loop: act on `testNode`, then
advance `testNode` to the next attribute if there is one (`attrs->item(nodeIndex++)`).
`n` = iterations left. -/
def visitLoop (f : σ → ν → σ) (attrs : List ν) : Nat → ν → Nat → σ → σ
  | 0, _, _, s => s
  | n + 1, testNode, nodeIndex, s =>
    let s' := f s testNode
    if h : nodeIndex < attrs.length then
      visitLoop f attrs n attrs[nodeIndex] (nodeIndex + 1) s'
    else
      visitLoop f attrs n testNode nodeIndex s'

/-- one iteration of the outer loop on `pos`: `nNodes = 1 + nAttrNodes` tests -/
def visit (f : σ → ν → σ) (pos : Loc ν) (s : σ) : σ :=
  visitLoop f pos.focus.attrs (1 + pos.focus.attrs.length) pos.focus.self 0 s

/-- the outer `while (0 != pos)` loop -/
def walkFold (f : σ → ν → σ) : Nat → Loc ν → σ → σ
  | 0, _, s => s
  | fuel + 1, pos, s =>
    let s' := visit f pos s
    match pos.next with
    | none => s'
    | some pos' => walkFold f fuel pos' s'

/-- the whole walk from `startNode` = the root of `t`; one outer iteration per non-attribute node,
so `size t` iterations always suffice (theorem `walkFold_eq_foldl`) -/
def walkTree (f : σ → ν → σ) (t : Tree ν) (s : σ) : σ :=
  walkFold f t.size ⟨t, []⟩ s

/-- the sequence of nodes the walk tests, in the order it tests them -/
def walkList (t : Tree ν) : List ν :=
  walkTree (fun (acc : List ν) n => acc ++ [n]) t []

end Walk

end XalanModel.C15
