import XalanModel.C15.Keys
import XalanModel.C15.WalkProofs
/-!
Helper lemmas for `Props/C15.lean`: association lists, ordered insertion, the table after the
constructor's walk, merged declarations, the cache invariant.
-/
namespace XalanModel.C15

/-! ### association lists -/
namespace AL
variable {α β : Type} [DecidableEq α]

theorem find_upd (k k' : α) (d : β) (f : β → β) (m : List (α × β)) :
    find k' (upd k d f m) = if k' = k then some (f ((find k m).getD d)) else find k' m := by
  induction m with
  | nil =>
    by_cases h : k' = k
    · subst h; simp [upd, find]
    · have h' : ¬ k = k' := fun e => h e.symm
      simp [upd, find, h, h']
  | cons p m ih =>
    obtain ⟨a, b⟩ := p
    by_cases hak : a = k
    · subst hak
      by_cases h : k' = a
      · subst h; simp [upd, find]
      · have h' : ¬ a = k' := fun e => h e.symm
        simp [upd, find, h, h']
    · by_cases h : k' = k
      · subst h
        simp [upd, find, hak, ih]
      · by_cases h2 : a = k'
        · simp [upd, find, hak, h, h2]
        · simp [upd, find, hak, h, h2, ih]

end AL

section Lists
variable {κ ν : Type} [DecidableEq κ]

/-- the list `theKeys[name][value]` would denote (`[]` if absent) -/
def getList (name : κ) (v : String) (m : KeysMap κ ν) : List ν :=
  ((AL.find name m).bind (AL.find v)).getD []

theorem getList_addKeyed (idx : ν → Nat) (isDoc : ν → Bool) (name name' : κ) (v v' : String) (n : ν) (m : KeysMap κ ν) :
    getList name' v' (addKeyed idx isDoc name v n m) =
      if name' = name ∧ v' = v then addNodeInDocOrder idx isDoc n (getList name v m) else getList name' v' m := by
  unfold getList addKeyed
  rw [AL.find_upd]
  by_cases h1 : name' = name
  · subst h1
    simp only [if_true, Option.bind_some, true_and]
    rw [AL.find_upd]
    by_cases h2 : v' = v
    · subst h2
      cases hf : AL.find name' m <;> simp [AL.find]
    · cases hf : AL.find name' m <;> simp [h2, AL.find]
  · simp [h1]

theorem find_addKeyed_isSome (idx : ν → Nat) (isDoc : ν → Bool) (name name' : κ) (v : String) (n : ν) (m : KeysMap κ ν) :
    (AL.find name' (addKeyed idx isDoc name v n m)).isSome = (decide (name' = name) || (AL.find name' m).isSome) := by
  unfold addKeyed
  rw [AL.find_upd]
  by_cases h : name' = name <;> simp [h]

/-! ### ordered insertion -/

theorem insertInOrder_filter (idx : ν → Nat) (n : ν) (q : ν → Bool) :
    ∀ (L : List ν), L.Pairwise (fun a b => idx a < idx b) → n ∈ L →
      insertInOrder idx n (L.filter q) = L.filter (fun x => q x || decide (idx x = idx n)) := by
  intro L
  induction L with
  | nil => intro _ h; cases h
  | cons c cs ih =>
    intro hp hn
    rw [List.pairwise_cons] at hp
    obtain ⟨hc, hcs⟩ := hp
    by_cases hcn : idx c = idx n
    · -- `n` is `c` (indices are distinct along `L`)
      have hnc : n = c := by
        rcases List.mem_cons.mp hn with h | h
        · exact h
        · have := hc n h; omega
      subst hnc
      have hrest : cs.filter (fun x => q x || decide (idx x = idx n)) = cs.filter q := by
        apply List.filter_congr
        intro x hx
        have := hc x hx
        have : ¬ idx x = idx n := by omega
        simp [this]
      by_cases hq : q n = true
      · simp [List.filter_cons, hq, insertInOrder, hrest]
      · have hq' : q n = false := by simpa using hq
        simp only [List.filter_cons, hq', Bool.false_or, decide_true, if_true, hrest]
        simp only [Bool.false_eq_true, if_false]
        cases hf : cs.filter q with
        | nil => simp [insertInOrder]
        | cons d ds =>
          have hd : d ∈ cs := by
            have : d ∈ cs.filter q := by rw [hf]; simp
            exact (List.mem_filter.mp this).1
          have := hc d hd
          have h1 : ¬ idx d = idx n := by omega
          have h2 : ¬ idx n > idx d := by omega
          simp [insertInOrder, h1, h2]
    · have hn' : n ∈ cs := by
        rcases List.mem_cons.mp hn with h | h
        · subst h; exact absurd rfl hcn
        · exact h
      have hlt : idx c < idx n := hc n hn'
      by_cases hq : q c = true
      · have hgt : idx n > idx c := hlt
        simp [List.filter_cons, hq, insertInOrder, hcn, hgt, ih hcs hn']
      · have hq' : q c = false := by simpa using hq
        simp [List.filter_cons, hq', hcn, ih hcs hn']

theorem insertInOrder_last (idx : ν → Nat) (n : ν) :
    ∀ (l : List ν) (last : ν), l.Pairwise (fun a b => idx a < idx b) → l.getLast? = some last →
      idx last = idx n → insertInOrder idx n l = l := by
  intro l
  induction l with
  | nil => intro last _ h; simp at h
  | cons c cs ih =>
    intro last hp hl he
    cases cs with
    | nil =>
      simp at hl; subst hl
      simp [insertInOrder, he]
    | cons d ds =>
      rw [List.pairwise_cons] at hp
      have hl' : (d :: ds).getLast? = some last := by simpa [List.getLast?_cons_cons] using hl
      have hmem : last ∈ d :: ds := List.mem_of_getLast? hl'
      have hlt := hp.1 last hmem
      have h1 : ¬ idx c = idx n := by omega
      have h2 : idx n > idx c := by omega
      have hstep : insertInOrder idx n (c :: d :: ds) = c :: insertInOrder idx n (d :: ds) := by
        rw [insertInOrder]; simp [h1, h2]
      rw [hstep, ih last hp.2 hl' he]

/-! #### the binary insertion-point search agrees with the linear one on a document-ordered list -/

theorem getD_lt_of_sorted (is : List Nat) (hs : is.Pairwise (· < ·)) {i j : Nat} (hij : i < j) (hj : j < is.length) :
    is.getD i 0 < is.getD j 0 := by
  have hi : i < is.length := by omega
  rw [← List.getElem_eq_getD (h := hi) 0, ← List.getElem_eq_getD (h := hj) 0]
  exact List.pairwise_iff_getElem.mp hs i j hi hj hij

theorem getD_le_of_sorted (is : List Nat) (hs : is.Pairwise (· < ·)) {i j : Nat} (hij : i ≤ j) (hj : j < is.length) :
    is.getD i 0 ≤ is.getD j 0 := by
  rcases Nat.lt_or_eq_of_le hij with h | h
  · exact Nat.le_of_lt (getD_lt_of_sorted is hs h hj)
  · subst h; exact Nat.le_refl _

/-- `p` is the position where `x` belongs in the increasing list `is` (and `x` is not in it) -/
def IsPos (is : List Nat) (x p : Nat) : Prop :=
  p ≤ is.length ∧ (∀ i, i < p → is.getD i 0 < x) ∧ (∀ i, p ≤ i → i < is.length → x < is.getD i 0)

/-- outcome of the search: duplicate found, or the right position -/
def BSGood (is : List Nat) (x : Nat) (r : Bool × Nat) : Prop :=
  (r.1 = false ∧ x ∈ is) ∨ (r.1 = true ∧ IsPos is x r.2)

theorem bsLoop_done (is : List Nat) (x fuel : Nat) (s : BSState) (h : ¬ s.first ≤ s.last) :
    bsLoop is x fuel s = s := by
  cases fuel <;> simp [bsLoop, h]

theorem bsLoop_good (is : List Nat) (hs : is.Pairwise (· < ·)) (x : Nat) :
    ∀ (fuel : Nat) (s : BSState), s.fInsert = true → s.last < is.length → s.first ≤ s.last →
      (∀ i, i < s.first → is.getD i 0 < x) → (∀ i, s.last < i → i < is.length → x < is.getD i 0) →
      s.last + 1 - s.first ≤ fuel →
      BSGood is x (bsFinish is.length x (bsLoop is x fuel s)) := by
  intro fuel
  induction fuel with
  | zero => intro s _ _ hfl _ _ hfuel; omega
  | succ fuel ih =>
    intro s hfi hlast hfl hlo hhi hfuel
    have hcur : s.first + (s.last - s.first) / 2 ≤ s.last := by omega
    have hcur' : s.first ≤ s.first + (s.last - s.first) / 2 := by omega
    generalize hc : s.first + (s.last - s.first) / 2 = current at hcur hcur'
    have hcn : current < is.length := by omega
    simp only [bsLoop, hfl, if_true, hc]
    by_cases h1 : x < is.getD current 0
    · simp only [h1, if_true]
      by_cases h0 : current = 0
      · -- break at the very first element: insert at the front
        subst h0
        have hf0 : s.first = 0 := by omega
        simp only [if_true, bsFinish]
        have hne : x ≠ is.getD 0 0 := by omega
        have hnl : ¬ is.getD 0 0 < x := by omega
        have hn0 : ¬ (0 = is.length ∨ s.first = is.length) := by omega
        simp only [ne_eq, hne, not_false_eq_true, if_true, hn0, if_false, hnl]
        refine Or.inr ⟨hfi, Nat.zero_le _, fun i hi => absurd hi (Nat.not_lt_zero _), fun i _ hil => ?_⟩
        exact Nat.lt_of_lt_of_le h1 (getD_le_of_sorted is hs (Nat.zero_le i) hil)
      · simp only [h0, if_false]
        have hhi' : ∀ i, current - 1 < i → i < is.length → x < is.getD i 0 := fun i hi hil =>
          Nat.lt_of_lt_of_le h1 (getD_le_of_sorted is hs (by omega) hil)
        by_cases hgo : s.first ≤ current - 1
        · exact ih ⟨s.first, current - 1, current, is.getD current 0, s.fInsert⟩ hfi (by dsimp only; omega) hgo hlo hhi'
            (by dsimp only; omega)
        · rw [bsLoop_done _ _ _ _ (by simpa using hgo)]
          have hfc : s.first = current := by omega
          simp only [bsFinish]
          have hne : x ≠ is.getD current 0 := by omega
          have hnl : ¬ is.getD current 0 < x := by omega
          have hn0 : ¬ (current = is.length ∨ s.first = is.length) := by omega
          simp only [ne_eq, hne, not_false_eq_true, if_true, hn0, if_false, hnl]
          refine Or.inr ⟨hfi, by omega, fun i hi => hlo i (by omega), fun i hi hil => ?_⟩
          exact Nat.lt_of_lt_of_le h1 (getD_le_of_sorted is hs hi hil)
    · simp only [h1, if_false]
      by_cases h2 : x > is.getD current 0
      · simp only [h2, if_true]
        have hlo' : ∀ i, i < current + 1 → is.getD i 0 < x := fun i hi =>
          Nat.lt_of_le_of_lt (getD_le_of_sorted is hs (by omega) hcn) h2
        by_cases hgo : current + 1 ≤ s.last
        · exact ih ⟨current + 1, s.last, current, is.getD current 0, s.fInsert⟩ hfi hlast hgo hlo' hhi
            (by dsimp only; omega)
        · rw [bsLoop_done _ _ _ _ (by simpa using hgo)]
          have hcl : current = s.last := by omega
          simp only [bsFinish]
          have hne : x ≠ is.getD current 0 := by omega
          simp only [ne_eq, hne, not_false_eq_true, if_true]
          by_cases hend : current = is.length ∨ current + 1 = is.length
          · simp only [hend, if_true]
            have : current + 1 = is.length := by omega
            exact Or.inr ⟨hfi, Nat.le_refl _, fun i hi => hlo' i (by omega), fun i hi hil => by omega⟩
          · simp only [hend, if_false, h2, if_true]
            exact Or.inr ⟨hfi, by omega, hlo', fun i hi hil => hhi i (by omega) hil⟩
      · -- found
        have heq : is.getD current 0 = x := by omega
        rw [if_neg h2]
        simp only [bsFinish, heq, ne_eq, not_true_eq_false, if_false]
        refine Or.inl ⟨rfl, ?_⟩
        rw [← heq, ← List.getElem_eq_getD (h := hcn) 0]
        exact List.getElem_mem _

theorem findInsertionPoint_good (is : List Nat) (hs : is.Pairwise (· < ·)) (hne : is ≠ []) (x : Nat) :
    BSGood is x (findInsertionPointBinarySearch is x) := by
  have hn : 0 < is.length := List.length_pos_iff.mpr hne
  unfold findInsertionPointBinarySearch
  by_cases hq : is.getD (is.length - 1) 0 < x
  · simp only [hq, if_true]
    refine Or.inr ⟨rfl, Nat.le_refl _, fun i hi => ?_, fun i hi hil => by omega⟩
    exact Nat.lt_of_le_of_lt (getD_le_of_sorted is hs (by omega) (by omega)) hq
  · simp only [hq, if_false]
    exact bsLoop_good is hs x (is.length + 1) ⟨0, is.length - 1, is.length, 0, true⟩ rfl (by dsimp only; omega)
      (by dsimp only; omega) (fun i hi => absurd hi (Nat.not_lt_zero _)) (fun i hi hil => by dsimp only at hi; omega)
      (by dsimp only; omega)

theorem insertAtPos_eq_insertInOrder (idx : ν → Nat) (n : ν) :
    ∀ (l : List ν) (p : Nat), IsPos (l.map idx) (idx n) p → insertAtPos l p n = insertInOrder idx n l := by
  intro l
  induction l with
  | nil =>
    intro p hp
    have : p = 0 := by have := hp.1; simpa using this
    subst this; simp [insertAtPos, insertInOrder]
  | cons c cs ih =>
    intro p hp
    cases p with
    | zero =>
      have := hp.2.2 0 (Nat.le_refl _) (by simp)
      simp at this
      have h1 : ¬ idx c = idx n := by omega
      have h2 : ¬ idx n > idx c := by omega
      simp [insertAtPos, insertInOrder, h1, h2]
    | succ p =>
      have := hp.2.1 0 (by omega)
      simp at this
      have h1 : ¬ idx c = idx n := by omega
      have h2 : idx n > idx c := this
      have hp' : IsPos (cs.map idx) (idx n) p := by
        refine ⟨by have := hp.1; simp at this; simpa using this, fun i hi => ?_, fun i hi hil => ?_⟩
        · have := hp.2.1 (i + 1) (by omega); simpa using this
        · have := hp.2.2 (i + 1) (by omega) (by simpa using hil); simpa using this
      have := ih p hp'
      simp only [insertAtPos] at this ⊢
      simp [insertInOrder, h1, h2, ← this]

theorem insertInOrder_of_mem (idx : ν → Nat) (n : ν) :
    ∀ (l : List ν), l.Pairwise (fun a b => idx a < idx b) → idx n ∈ l.map idx → insertInOrder idx n l = l := by
  intro l
  induction l with
  | nil => intro _ h; simp at h
  | cons c cs ih =>
    intro hp hm
    by_cases hc : idx c = idx n
    · simp [insertInOrder, hc]
    · rw [List.pairwise_cons] at hp
      have hm' : idx n ∈ cs.map idx := by
        simp only [List.map_cons, List.mem_cons] at hm
        rcases hm with h | h
        · exact absurd h.symm hc
        · exact h
      obtain ⟨d, hd, hdn⟩ := List.mem_map.mp hm'
      have := hp.1 d hd
      have h2 : idx n > idx c := by omega
      simp [insertInOrder, hc, h2, ih hp.2 hm']

/-- **binary search = linear search** on a non-empty document-ordered list -/
theorem binarySearch_eq_linear (idx : ν → Nat) (n : ν) (l : List ν) (hp : l.Pairwise (fun a b => idx a < idx b))
    (hne : l ≠ []) :
    (let r := findInsertionPointBinarySearch (l.map idx) (idx n)
     if r.1 then insertAtPos l r.2 n else l) = insertInOrder idx n l := by
  have hs : (l.map idx).Pairwise (· < ·) := by
    rw [List.pairwise_map]; exact hp
  have := findInsertionPoint_good (l.map idx) hs (by simpa using hne) (idx n)
  rcases this with ⟨hf, hm⟩ | ⟨ht, hpos⟩
  · simp only [hf, Bool.false_eq_true, if_false]
    exact (insertInOrder_of_mem idx n l hp hm).symm
  · simp only [ht, if_true]
    exact insertAtPos_eq_insertInOrder idx n l _ hpos

theorem addNode_eq_insert (idx : ν → Nat) (isDoc : ν → Bool) (n : ν) (l : List ν)
    (hp : l.Pairwise (fun a b => idx a < idx b)) (hd : isDoc n = true → ∀ c ∈ l, idx n ≤ idx c) :
    addNodeInDocOrder idx isDoc n l = insertInOrder idx n l := by
  unfold addNodeInDocOrder
  cases hl : l.getLast? with
  | none =>
    have : l = [] := by simpa using hl
    subst this; simp [insertInOrder]
  | some last =>
    by_cases he : idx last = idx n
    · simp [he, insertInOrder_last idx n l last hp hl he]
    · cases hdn : isDoc n with
      | false =>
        have hne : l ≠ [] := by intro h; subst h; simp at hl
        simp only [he, if_false, Bool.false_eq_true]
        exact binarySearch_eq_linear idx n l hp hne
      | true =>
        simp only [he, if_false, if_true]
        cases l with
        | nil => simp [insertInOrder]
        | cons first rest =>
          have hmin := hd hdn first (by simp)
          by_cases hf : idx first = idx n
          · simp [hf, insertInOrder]
          · have h2 : ¬ idx n > idx first := by omega
            simp [hf, insertInOrder, h2]

/-- adding a node that is after everything in the list appends it -/
theorem addNode_append (idx : ν → Nat) (isDoc : ν → Bool) (n : ν) (l : List ν) (hl : ∀ c ∈ l, idx c < idx n)
    (hd : isDoc n = true → ∀ c ∈ l, idx n ≤ idx c) :
    addNodeInDocOrder idx isDoc n l = l ++ [n] := by
  have hins : ∀ (l : List ν), (∀ c ∈ l, idx c < idx n) → insertInOrder idx n l = l ++ [n] := by
    intro l
    induction l with
    | nil => intro _; simp [insertInOrder]
    | cons c cs ihl =>
      intro hl
      have hc := hl c (by simp)
      have h1 : ¬ idx c = idx n := by omega
      have h2 : idx n > idx c := hc
      simp [insertInOrder, h1, h2, ihl (fun d hd => hl d (by simp [hd]))]
  unfold addNodeInDocOrder
  cases hlast : l.getLast? with
  | none =>
    have : l = [] := by simpa using hlast
    subst this; simp
  | some last =>
    have hlm := List.mem_of_getLast? hlast
    have := hl last hlm
    have h1 : ¬ idx last = idx n := by omega
    cases hdn : isDoc n
    · -- the quick check "just append" of findInsertionPointBinarySearch
      have hlen : 0 < l.length := List.length_pos_of_mem hlm
      have hq : (l.map idx).getD ((l.map idx).length - 1) 0 < idx n := by
        have hi : (l.map idx).length - 1 < (l.map idx).length := by simp; omega
        rw [← List.getElem_eq_getD (h := hi) 0]
        have hm := List.getElem_mem hi
        obtain ⟨c, hc, hcn⟩ := List.mem_map.mp hm
        rw [← hcn]; exact hl c hc
      simp only [h1, if_false, Bool.false_eq_true]
      unfold findInsertionPointBinarySearch
      simp only [hq, if_true]
      simp [insertAtPos]
    · -- a document node is before every node: the list would have to be empty
      have := hd hdn last hlm
      omega

/-- adding the node the list ends with changes nothing -/
theorem addNode_last (idx : ν → Nat) (isDoc : ν → Bool) (n : ν) (l : List ν) :
    addNodeInDocOrder idx isDoc n (l ++ [n]) = l ++ [n] := by
  unfold addNodeInDocOrder
  simp

theorem pairwise_filter_idx (idx : ν → Nat) (q : ν → Bool) (L : List ν)
    (hp : L.Pairwise (fun a b => idx a < idx b)) : (L.filter q).Pairwise (fun a b => idx a < idx b) :=
  hp.sublist List.filter_sublist

/-- the document node, if any, is before every other node of the list -/
def DocMin (idx : ν → Nat) (isDoc : ν → Bool) (L : List ν) : Prop :=
  ∀ x ∈ L, isDoc x = true → ∀ y ∈ L, idx x ≤ idx y

/-- adding a node of the document to a document-ordered selection of it -/
theorem addNode_filter (idx : ν → Nat) (isDoc : ν → Bool) (n : ν) (q : ν → Bool) (L : List ν)
    (hp : L.Pairwise (fun a b => idx a < idx b)) (hn : n ∈ L) (hd : DocMin idx isDoc L) :
    addNodeInDocOrder idx isDoc n (L.filter q) = L.filter (fun x => q x || decide (idx x = idx n)) := by
  rw [addNode_eq_insert idx isDoc n _ (pairwise_filter_idx idx q L hp)
    (fun hdn c hc => hd n hn hdn c (List.mem_filter.mp hc).1), insertInOrder_filter idx n q L hp hn]

/-- union of two document-ordered selections of the same document -/
theorem addNodes_filter (idx : ν → Nat) (isDoc : ν → Bool) (L : List ν) (hp : L.Pairwise (fun a b => idx a < idx b))
    (hd : DocMin idx isDoc L) :
    ∀ (A : List ν) (q : ν → Bool), (∀ a ∈ A, a ∈ L) →
      addNodesInDocOrder idx isDoc A (L.filter q) =
        L.filter (fun x => q x || A.any (fun a => decide (idx x = idx a))) := by
  intro A
  induction A with
  | nil => intro q _; simp [addNodesInDocOrder]
  | cons a as ih =>
    intro q hA
    have ha := hA a (by simp)
    have has : ∀ b ∈ as, b ∈ L := fun b hb => hA b (by simp [hb])
    unfold addNodesInDocOrder at *
    simp only [List.foldl_cons]
    rw [addNode_filter idx isDoc a q L hp ha hd, ih _ has]
    apply List.filter_congr
    intro x _
    simp [Bool.or_assoc]

theorem idx_inj_of_pairwise (idx : ν → Nat) (L : List ν) (hp : L.Pairwise (fun a b => idx a < idx b))
    {x y : ν} (hx : x ∈ L) (hy : y ∈ L) (h : idx x = idx y) : x = y := by
  induction L with
  | nil => cases hx
  | cons c cs ih =>
    rw [List.pairwise_cons] at hp
    rcases List.mem_cons.mp hx with hx1 | hx1
    · rcases List.mem_cons.mp hy with hy1 | hy1
      · rw [hx1, hy1]
      · have := hp.1 y hy1; rw [hx1] at h; omega
    · rcases List.mem_cons.mp hy with hy1 | hy1
      · have := hp.1 x hx1; rw [hy1] at h; omega
      · exact ih hp.2 hx1 hy1

theorem addNodes_filter_filter (idx : ν → Nat) (isDoc : ν → Bool) (L : List ν)
    (hp : L.Pairwise (fun a b => idx a < idx b)) (hd : DocMin idx isDoc L) (p q : ν → Bool) :
    addNodesInDocOrder idx isDoc (L.filter p) (L.filter q) = L.filter (fun x => q x || p x) := by
  rw [addNodes_filter idx isDoc L hp hd (L.filter p) q (fun a ha => (List.mem_filter.mp ha).1)]
  apply List.filter_congr
  intro x hx
  congr 1
  cases hpx : p x with
  | true =>
    simp only [List.any_eq_true, decide_eq_true_eq]
    exact ⟨x, List.mem_filter.mpr ⟨hx, hpx⟩, rfl⟩
  | false =>
    rw [Bool.eq_false_iff]
    intro h
    simp only [List.any_eq_true, decide_eq_true_eq] at h
    obtain ⟨a, ha, he⟩ := h
    have ha' := List.mem_filter.mp ha
    have : x = a := idx_inj_of_pairwise idx L hp hx ha'.1 he
    subst this
    rw [hpx] at ha'
    exact absurd ha'.2 (by simp)

end Lists

/-! ### the table built by the constructor -/
section Table
variable {κ ν : Type} [DecidableEq κ]

def UseResult.values : UseResult → List String
  | .str s => [s]
  | .nodeset vs => vs

/-- the `(name, value)` pairs under which the constructor files node `n`, in the order it does -/
def nodeEvents (decls : List (KeyDecl κ ν)) (n : ν) : List (κ × String) :=
  decls.flatMap fun kd => if kd.isMatch n then (kd.use n).values.map (fun v => (kd.name, v)) else []

def applyEvents (idx : ν → Nat) (isDoc : ν → Bool) (n : ν) (E : List (κ × String)) (m : KeysMap κ ν) : KeysMap κ ν :=
  E.foldl (fun m e => addKeyed idx isDoc e.1 e.2 n m) m

theorem applyEvents_append (idx : ν → Nat) (isDoc : ν → Bool) (n : ν) (E1 E2 : List (κ × String)) (m : KeysMap κ ν) :
    applyEvents idx isDoc n (E1 ++ E2) m = applyEvents idx isDoc n E2 (applyEvents idx isDoc n E1 m) := by
  simp [applyEvents, List.foldl_append]

theorem processKeyDeclaration_eq (idx : ν → Nat) (isDoc : ν → Bool) (m : KeysMap κ ν) (kd : KeyDecl κ ν) (n : ν) :
    processKeyDeclaration idx isDoc m kd n = applyEvents idx isDoc n ((kd.use n).values.map (fun v => (kd.name, v))) m := by
  unfold processKeyDeclaration applyEvents
  cases kd.use n with
  | str s => simp [UseResult.values]
  | nodeset vs => simp [UseResult.values, List.foldl_map]

theorem processNode_eq (idx : ν → Nat) (isDoc : ν → Bool) (decls : List (KeyDecl κ ν)) (m : KeysMap κ ν) (n : ν) :
    processNode idx isDoc decls m n = applyEvents idx isDoc n (nodeEvents decls n) m := by
  unfold processNode nodeEvents
  induction decls generalizing m with
  | nil => simp [applyEvents]
  | cons kd ds ih =>
    simp only [List.foldl_cons, List.flatMap_cons, applyEvents_append]
    rw [ih]
    by_cases h : kd.isMatch n = true
    · simp [h, processKeyDeclaration_eq]
    · have h' : kd.isMatch n = false := by simpa using h
      simp [h', applyEvents]

theorem hasKey_iff_mem_events (decls : List (KeyDecl κ ν)) (name : κ) (v : String) (n : ν) :
    hasKey decls name v n = true ↔ (name, v) ∈ nodeEvents decls n := by
  unfold hasKey nodeEvents
  simp only [List.any_eq_true, List.mem_flatMap, Bool.and_eq_true, decide_eq_true_eq]
  constructor
  · rintro ⟨kd, hkd, ⟨hname, hm⟩, hv⟩
    refine ⟨kd, hkd, ?_⟩
    simp only [hm, if_true, List.mem_map, Prod.mk.injEq]
    cases hu : kd.use n with
    | str s =>
      rw [hu] at hv
      exact ⟨s, by simp [UseResult.values], hname, by simpa using hv⟩
    | nodeset vs =>
      rw [hu] at hv
      exact ⟨v, by simpa [UseResult.values] using hv, hname, rfl⟩
  · rintro ⟨kd, hkd, hmem⟩
    by_cases hm : kd.isMatch n = true
    · simp only [hm, if_true, List.mem_map, Prod.mk.injEq] at hmem
      obtain ⟨w, hw, hname, hwv⟩ := hmem
      subst hwv
      refine ⟨kd, hkd, ⟨hname, hm⟩, ?_⟩
      cases hu : kd.use n with
      | str s =>
        rw [hu] at hw
        simp only [UseResult.values, List.mem_singleton] at hw
        simp [hw]
      | nodeset vs => rw [hu] at hw; simpa [UseResult.values] using hw
    · have hm' : kd.isMatch n = false := by simpa using hm
      simp [hm'] at hmem

theorem declared_of_mem_events (decls : List (KeyDecl κ ν)) (n : ν) (e : κ × String) (h : e ∈ nodeEvents decls n) :
    declared decls e.1 = true := by
  unfold nodeEvents at h
  simp only [List.mem_flatMap] at h
  obtain ⟨kd, hkd, hmem⟩ := h
  by_cases hm : kd.isMatch n = true
  · simp only [hm, if_true, List.mem_map] at hmem
    obtain ⟨w, _, hw⟩ := hmem
    subst hw
    simp only [declared, List.any_eq_true, decide_eq_true_eq]
    exact ⟨kd, hkd, rfl⟩
  · have hm' : kd.isMatch n = false := by simpa using hm
    simp [hm'] at hmem

/-- filing one node: every list whose `(name, value)` is among the events gains `n` at the end (once) -/
theorem getList_applyEvents (idx : ν → Nat) (isDoc : ν → Bool) (n : ν) (F : κ → String → List ν)
    (hF : ∀ name v, ∀ c ∈ F name v, idx c < idx n)
    (hD : isDoc n = true → ∀ name v, ∀ c ∈ F name v, idx n ≤ idx c) :
    ∀ (E done : List (κ × String)) (m : KeysMap κ ν),
      (∀ name v, getList name v m = F name v ++ (if (name, v) ∈ done then [n] else [])) →
      ∀ name v, getList name v (applyEvents idx isDoc n E m) =
        F name v ++ (if (name, v) ∈ done ++ E then [n] else []) := by
  intro E
  induction E with
  | nil => intro done m h name v; simpa [applyEvents] using h name v
  | cons e es ih =>
    intro done m h name v
    obtain ⟨k, s⟩ := e
    have hstep : ∀ name v, getList name v (addKeyed idx isDoc k s n m) =
        F name v ++ (if (name, v) ∈ done ++ [(k, s)] then [n] else []) := by
      intro name v
      rw [getList_addKeyed]
      by_cases hks : name = k ∧ v = s
      · obtain ⟨h1, h2⟩ := hks
        subst h1; subst h2
        simp only [and_self, if_true, List.mem_append, List.mem_singleton, or_true]
        rw [h name v]
        by_cases hd : (name, v) ∈ done
        · simp only [hd, if_true]
          exact addNode_last idx isDoc n _
        · simp only [hd, if_false, List.append_nil]
          -- all of `F` is before `n`: the insertion point is the end
          exact addNode_append idx isDoc n _ (hF name v) (fun hdn => hD hdn name v)
      · have hne : ¬ (name, v) = (k, s) := by
          intro he; exact hks (by simpa using he)
        simp only [hks, if_false, List.mem_append, List.mem_singleton, hne, or_false]
        exact h name v
    have := ih (done ++ [(k, s)]) (addKeyed idx isDoc k s n m) hstep name v
    simpa [applyEvents, List.append_assoc] using this

theorem find_applyEvents_isSome (idx : ν → Nat) (isDoc : ν → Bool) (n : ν) (name : κ) :
    ∀ (E : List (κ × String)) (m : KeysMap κ ν),
      (AL.find name (applyEvents idx isDoc n E m)).isSome = true →
        (AL.find name m).isSome = true ∨ ∃ e ∈ E, e.1 = name := by
  intro E
  induction E with
  | nil => intro m h; exact Or.inl (by simpa [applyEvents] using h)
  | cons e es ih =>
    intro m h
    have := ih (addKeyed idx isDoc e.1 e.2 n m) (by simpa [applyEvents] using h)
    rcases this with h1 | ⟨e', he', hn⟩
    · rw [find_addKeyed_isSome] at h1
      simp only [Bool.or_eq_true, decide_eq_true_eq] at h1
      rcases h1 with h1 | h1
      · exact Or.inr ⟨e, by simp, h1.symm⟩
      · exact Or.inl h1
    · exact Or.inr ⟨e', by simp [he'], hn⟩

/-- invariant of the constructor's loop after the nodes `P` (a document-order prefix) were tested -/
def TableInv (decls : List (KeyDecl κ ν)) (P : List ν) (m : KeysMap κ ν) : Prop :=
  (∀ name v, getList name v m = P.filter (hasKey decls name v)) ∧
  (∀ name, (AL.find name m).isSome = true → declared decls name = true)

theorem tableInv_foldl (idx : ν → Nat) (isDoc : ν → Bool) (decls : List (KeyDecl κ ν)) :
    ∀ (rest P : List ν) (m : KeysMap κ ν),
      (P ++ rest).Pairwise (fun a b => idx a < idx b) → DocMin idx isDoc (P ++ rest) → TableInv decls P m →
        TableInv decls (P ++ rest) (rest.foldl (processNode idx isDoc decls) m) := by
  intro rest
  induction rest with
  | nil => intro P m _ _ h; simpa using h
  | cons n ns ih =>
    intro P m hp hdm hinv
    have hdm' : DocMin idx isDoc ((P ++ [n]) ++ ns) := by simpa using hdm
    have hp' : ((P ++ [n]) ++ ns).Pairwise (fun a b => idx a < idx b) := by simpa using hp
    have hPn : ∀ c ∈ P, idx c < idx n := by
      intro c hc
      have := List.pairwise_append.mp hp
      exact this.2.2 c hc n (by simp)
    have hstep : TableInv decls (P ++ [n]) (processNode idx isDoc decls m n) := by
      rw [processNode_eq]
      constructor
      · intro name v
        have := getList_applyEvents idx isDoc n (fun name v => P.filter (hasKey decls name v))
          (fun name v c hc => hPn c (List.mem_filter.mp hc).1)
          (fun hdn name v c hc => hdm n (by simp) hdn c (by simp [(List.mem_filter.mp hc).1]))
          (nodeEvents decls n) [] m
          (by intro name v; simpa using hinv.1 name v) name v
        rw [this, List.filter_append]
        congr 1
        by_cases hk : hasKey decls name v n = true
        · have := (hasKey_iff_mem_events decls name v n).mp hk
          simp [this, hk]
        · have hk' : hasKey decls name v n = false := by simpa using hk
          have : (name, v) ∉ nodeEvents decls n := fun hm => hk ((hasKey_iff_mem_events decls name v n).mpr hm)
          simp [this, hk']
      · intro name hs
        rcases find_applyEvents_isSome idx isDoc n name _ _ hs with h | ⟨e, he, hn⟩
        · exact hinv.2 name h
        · subst hn; exact declared_of_mem_events decls n e he
    have := ih (P ++ [n]) (processNode idx isDoc decls m n) hp' hdm' hstep
    simpa using this

theorem tableInv_create (idx : ν → Nat) (isDoc : ν → Bool) (decls : List (KeyDecl κ ν)) (t : Tree ν)
    (hp : t.docOrder.Pairwise (fun a b => idx a < idx b)) (hd : DocMin idx isDoc t.docOrder) :
    TableInv decls t.docOrder (KeyTable.create idx isDoc t decls).keys := by
  unfold KeyTable.create
  simp only [walkTree_eq_foldl]
  have := tableInv_foldl idx isDoc decls t.docOrder [] [] (by simpa using hp) (by simpa using hd)
    ⟨by intro name v; simp [getList, AL.find], by intro name h; simp [AL.find] at h⟩
  simpa using this

theorem getNodeSetByKey_create (idx : ν → Nat) (isDoc : ν → Bool) (decls : List (KeyDecl κ ν)) (t : Tree ν)
    (hp : t.docOrder.Pairwise (fun a b => idx a < idx b)) (hd : DocMin idx isDoc t.docOrder) (name : κ) (ref : String) :
    (KeyTable.create idx isDoc t decls).getNodeSetByKey name ref =
      if declared decls name then some (specKey decls t name ref) else none := by
  have hinv := tableInv_create idx isDoc decls t hp hd
  have hl := hinv.1 name ref
  unfold KeyTable.getNodeSetByKey
  have hall : (KeyTable.create idx isDoc t decls).allKeys = decls := rfl
  cases hf : AL.find name (KeyTable.create idx isDoc t decls).keys with
  | some inner =>
    have hd : declared decls name = true := hinv.2 name (by simp [hf])
    simp only [hd, if_true, specKey]
    rw [← hl]
    unfold getList
    rw [hf]
    cases hg : AL.find ref inner <;> simp [hg]
  | none =>
    simp only [hall]
    have hempty : specKey decls t name ref = [] := by
      unfold specKey; rw [← hl]; unfold getList; rw [hf]; rfl
    unfold declared
    by_cases hd : (decls.any fun kd => decide (kd.name = name)) = true
    · simp [hd, hempty]
    · simp [hd]

end Table

/-! ### merged declarations -/
namespace Sheet
variable {κ ν : Type}

mutual
theorem mem_postConstruction (s : Sheet κ ν) (kd : KeyDecl κ ν) :
    kd ∈ s.postConstruction ↔ s.Declares kd := by
  cases s with
  | mk own imports =>
    simp only [postConstruction, Declares, List.mem_append]
    rw [mem_postConstructionList imports kd]
theorem mem_postConstructionList (ss : List (Sheet κ ν)) (kd : KeyDecl κ ν) :
    kd ∈ postConstructionList ss ↔ DeclaresList ss kd := by
  cases ss with
  | nil => simp [postConstructionList, DeclaresList]
  | cons s ss =>
    simp only [postConstructionList, DeclaresList, List.mem_append]
    rw [mem_postConstruction s kd, mem_postConstructionList ss kd]
end

end Sheet

/-! ### the cache -/
section Cache
variable {κ ν δ : Type} [DecidableEq κ] [DecidableEq δ]

/-- every cached table is the one the constructor builds for its document -/
def CacheOK (env : Env κ ν δ) (tables : KeyTables κ ν δ) : Prop :=
  ∀ d kt, AL.find d tables = some kt → kt = KeyTable.create env.idx env.isDoc (env.doc d) env.keyDeclarations

theorem cacheOK_nil (env : Env κ ν δ) : CacheOK env ([] : KeyTables κ ν δ) := by
  intro d kt h; simp [AL.find] at h

/-- documents whose nodes are numbered in document order, the document node (if `isDoc` marks one) first -/
def Env.Indexed (env : Env κ ν δ) : Prop :=
  ∀ d, (env.doc d).docOrder.Pairwise (fun a b => env.idx a < env.idx b) ∧
    DocMin env.idx env.isDoc (env.doc d).docOrder

/-- the answer of one `StylesheetRoot::getNodeSetByKey` call as a function of the call alone -/
def rootAnswer (env : Env κ ν δ) (d : δ) (name : κ) (ref : String) (nodelist : List ν) : Option (List ν) :=
  match (if env.keyDeclarations.isEmpty = false then
           (KeyTable.create env.idx env.isDoc (env.doc d) env.keyDeclarations).getNodeSetByKey name ref
         else none) with
  | none => none
  | some nl => some (if nodelist.isEmpty then nl else addNodesInDocOrder env.idx env.isDoc nl nodelist)

/-- on a valid cache the call answers `rootAnswer` (the cached table *is* the freshly built one) and leaves a
valid cache -/
theorem rootGet_eq (env : Env κ ν δ) (tables : KeyTables κ ν δ) (hc : CacheOK env tables) (d : δ) (name : κ)
    (ref : String) (nodelist : List ν) :
    CacheOK env (rootGetNodeSetByKey env tables d name ref nodelist).1 ∧
    (rootGetNodeSetByKey env tables d name ref nodelist).2 = rootAnswer env d name ref nodelist := by
  unfold rootGetNodeSetByKey rootAnswer
  by_cases hempty : env.keyDeclarations.isEmpty = true
  · simp [hempty, hc]
  · have hne : env.keyDeclarations.isEmpty = false := by simpa using hempty
    simp only [hne, if_true]
    cases hf : AL.find d tables with
    | some kt =>
      have hkt := hc d kt hf
      subst hkt
      simp only []
      cases (KeyTable.create env.idx env.isDoc (env.doc d) env.keyDeclarations).getNodeSetByKey name ref with
      | none => exact ⟨hc, rfl⟩
      | some nl =>
        simp only []
        split <;> simp_all
    | none =>
      have hc' : CacheOK env ((d, KeyTable.create env.idx env.isDoc (env.doc d) env.keyDeclarations) :: tables) := by
        intro d' kt' hf'
        simp only [AL.find] at hf'
        by_cases hdd : d = d'
        · subst hdd; simp at hf'; exact hf'.symm
        · simp only [hdd, if_false] at hf'; exact hc d' kt' hf'
      simp only []
      cases (KeyTable.create env.idx env.isDoc (env.doc d) env.keyDeclarations).getNodeSetByKey name ref with
      | none => exact ⟨hc', rfl⟩
      | some nl =>
        simp only []
        split <;> simp_all

theorem declared_false_of_empty (decls : List (KeyDecl κ ν)) (name : κ) (h : decls.isEmpty = true) :
    declared decls name = false := by
  have : decls = [] := by simpa using h
  subst this; rfl

/-- `rootAnswer` accumulating into a selection of the document: the union -/
theorem rootAnswer_spec (env : Env κ ν δ) (hidx : env.Indexed) (d : δ) (name : κ) (ref : String) (q : ν → Bool) :
    rootAnswer env d name ref ((env.doc d).docOrder.filter q) =
      if declared env.keyDeclarations name then
        some ((env.doc d).docOrder.filter fun x => q x || hasKey env.keyDeclarations name ref x)
      else none := by
  have hp := (hidx d).1
  have hdm := (hidx d).2
  unfold rootAnswer
  by_cases hempty : env.keyDeclarations.isEmpty = true
  · have hd := declared_false_of_empty env.keyDeclarations name hempty
    simp [hempty, hd]
  · have hne : env.keyDeclarations.isEmpty = false := by simpa using hempty
    simp only [hne, if_true]
    rw [getNodeSetByKey_create env.idx env.isDoc env.keyDeclarations (env.doc d) hp hdm name ref]
    by_cases hd : declared env.keyDeclarations name = true
    · simp only [hd, if_true]
      congr 1
      unfold specKey
      by_cases he : ((env.doc d).docOrder.filter q).isEmpty = true
      · simp only [he, if_true]
        have hq : ∀ x ∈ (env.doc d).docOrder, q x = false := by
          intro x hx
          have : (env.doc d).docOrder.filter q = [] := by simpa using he
          have := List.filter_eq_nil_iff.mp this x hx
          simpa using this
        apply List.filter_congr
        intro x hx
        simp [hq x hx]
      · simp only [he]
        exact addNodes_filter_filter env.idx env.isDoc _ hp hdm _ q
    · have hd' : declared env.keyDeclarations name = false := by simpa using hd
      simp [hd']

end Cache

/-! ### `FunctionKey::execute` -/
section FunctionKey
variable {κ ν δ : Type} [DecidableEq κ] [DecidableEq δ]

/-- the `nRefs > 1` loop as a function of the call alone -/
def loopAnswer (env : Env κ ν δ) (skipEmpty : Bool) (d : δ) (name : κ) : List String → List ν → Option (List ν)
  | [], nodelist => some nodelist
  | ref :: refs, nodelist =>
    if skipEmpty && ref.isEmpty then loopAnswer env skipEmpty d name refs nodelist
    else
      match rootAnswer env d name ref nodelist with
      | none => none
      | some nodelist' => loopAnswer env skipEmpty d name refs nodelist'

/-- `FunctionKey::execute` as a function of the call alone -/
def callAnswer (env : Env κ ν δ) (skipEmpty : Bool) (d : δ) (name : κ) : KeyArg → Option (List ν)
  | .str s => rootAnswer env d name s []
  | .nodeset [] => some []
  | .nodeset [s] => rootAnswer env d name s []
  | .nodeset refs => loopAnswer env skipEmpty d name refs []

theorem functionKeyLoop_eq (env : Env κ ν δ) (skip : Bool) (d : δ) (name : κ) :
    ∀ (refs : List String) (tables : KeyTables κ ν δ) (nodelist : List ν), CacheOK env tables →
      CacheOK env (functionKeyLoop env skip d name refs tables nodelist).1 ∧
      (functionKeyLoop env skip d name refs tables nodelist).2 = loopAnswer env skip d name refs nodelist := by
  intro refs
  induction refs with
  | nil => intro tables nodelist hc; exact ⟨hc, rfl⟩
  | cons ref refs ih =>
    intro tables nodelist hc
    by_cases hs : (skip && ref.isEmpty) = true
    · simp only [functionKeyLoop, loopAnswer, hs, if_true]
      exact ih tables nodelist hc
    · have hs' : (skip && ref.isEmpty) = false := by simpa using hs
      have hroot := rootGet_eq env tables hc d name ref nodelist
      simp only [functionKeyLoop, loopAnswer, hs', Bool.false_eq_true, if_false]
      generalize hgen : rootGetNodeSetByKey env tables d name ref nodelist = res at hroot
      obtain ⟨tables', r⟩ := res
      simp only at hroot
      obtain ⟨hc1, hr⟩ := hroot
      rw [← hr]
      cases r with
      | none => exact ⟨hc1, rfl⟩
      | some nl => exact ih tables' nl hc1

/-- **the cache is transparent**: on any valid cache a `key()` call answers `callAnswer`, a function of the call
alone, and leaves a valid cache -/
theorem functionKey_eq (env : Env κ ν δ) (skip : Bool) (tables : KeyTables κ ν δ) (hc : CacheOK env tables)
    (d : δ) (name : κ) (arg : KeyArg) :
    CacheOK env (functionKey env skip tables d name arg).1 ∧
    (functionKey env skip tables d name arg).2 = callAnswer env skip d name arg := by
  cases arg with
  | str s => exact rootGet_eq env tables hc d name s []
  | nodeset refs =>
    match refs with
    | [] => exact ⟨hc, rfl⟩
    | [s] => exact rootGet_eq env tables hc d name s []
    | a :: b :: rest => exact functionKeyLoop_eq env skip d name (a :: b :: rest) tables [] hc

theorem runCalls_eq (env : Env κ ν δ) (skip : Bool) :
    ∀ (calls : List (Call κ δ)) (tables : KeyTables κ ν δ), CacheOK env tables →
      runCalls env skip tables calls = calls.map fun c => callAnswer env skip c.doc c.name c.arg := by
  intro calls
  induction calls with
  | nil => intro tables _; simp [runCalls]
  | cons c cs ih =>
    intro tables hc
    have := functionKey_eq env skip tables hc c.doc c.name c.arg
    generalize hgen : functionKey env skip tables c.doc c.name c.arg = res at this
    obtain ⟨tables', r⟩ := res
    simp only [runCalls, hgen, List.map_cons]
    simp only at this
    rw [this.2, ih tables' this.1]

/-- the string values `FunctionKey::execute` actually looks up -/
def effValues (skipEmpty : Bool) : KeyArg → List String
  | .str s => [s]
  | .nodeset [] => []
  | .nodeset [s] => [s]
  | .nodeset refs => refs.filter fun r => !(skipEmpty && r.isEmpty)

/-- what a `key()` call must answer for the values `vals`: nothing looked up → empty; otherwise the
union over the values for a declared name, the UnknownKey error (`none`) for an undeclared one -/
def callSpec (decls : List (KeyDecl κ ν)) (t : Tree ν) (name : κ) (vals : List String) : Option (List ν) :=
  if vals.isEmpty then some []
  else if declared decls name then some (specKeyArg decls t name vals) else none

theorem loopAnswer_spec (env : Env κ ν δ) (hidx : env.Indexed) (skip : Bool) (d : δ) (name : κ) :
    ∀ (refs : List String) (q : ν → Bool),
      loopAnswer env skip d name refs ((env.doc d).docOrder.filter q) =
        if (refs.filter fun r => !(skip && r.isEmpty)).isEmpty then some ((env.doc d).docOrder.filter q)
        else if declared env.keyDeclarations name then
          some ((env.doc d).docOrder.filter fun x =>
            q x || (refs.filter fun r => !(skip && r.isEmpty)).any fun v => hasKey env.keyDeclarations name v x)
        else none := by
  intro refs
  induction refs with
  | nil => intro q; simp [loopAnswer]
  | cons ref refs ih =>
    intro q
    by_cases hs : (skip && ref.isEmpty) = true
    · have := ih q
      simp only [loopAnswer, hs, if_true, List.filter_cons, Bool.not_true, Bool.false_eq_true, if_false]
      exact this
    · have hs' : (skip && ref.isEmpty) = false := by simpa using hs
      have hroot := rootAnswer_spec env hidx d name ref q
      simp only [loopAnswer, hs', Bool.false_eq_true, if_false, List.filter_cons, Bool.not_false, if_true,
        List.isEmpty_cons]
      rw [hroot]
      by_cases hd : declared env.keyDeclarations name = true
      · simp only [hd, if_true]
        rw [ih (fun x => q x || hasKey env.keyDeclarations name ref x)]
        generalize (refs.filter fun r => !(skip && r.isEmpty)) = E
        simp only [hd, if_true]
        cases E with
        | nil => simp
        | cons e es => simp [Bool.or_assoc]
      · have hd' : declared env.keyDeclarations name = false := by simpa using hd
        simp [hd']

theorem filter_false_eq_nil (L : List ν) : L.filter (fun _ => false) = [] := by simp

theorem callAnswer_spec (env : Env κ ν δ) (hidx : env.Indexed) (skip : Bool) (d : δ) (name : κ) (arg : KeyArg) :
    callAnswer env skip d name arg = callSpec env.keyDeclarations (env.doc d) name (effValues skip arg) := by
  have hone : ∀ s, rootAnswer env d name s [] = callSpec env.keyDeclarations (env.doc d) name [s] := by
    intro s
    have := rootAnswer_spec env hidx d name s (fun _ => false)
    rw [filter_false_eq_nil] at this
    rw [this]
    simp [callSpec, specKeyArg]
  cases arg with
  | str s => simpa [callAnswer, effValues] using hone s
  | nodeset refs =>
    match refs with
    | [] => simp [callAnswer, effValues, callSpec]
    | [s] => simpa [callAnswer, effValues] using hone s
    | a :: b :: rest =>
      have := loopAnswer_spec env hidx skip d name (a :: b :: rest) (fun _ => false)
      rw [filter_false_eq_nil] at this
      simp only [callAnswer, effValues]
      rw [this]
      unfold callSpec specKeyArg
      generalize ((a :: b :: rest).filter fun r => !(skip && r.isEmpty)) = E
      cases E with
      | nil => simp
      | cons e es => simp

end FunctionKey

end XalanModel.C15
