import XalanModel.C07.Share
import XalanModel.C07.Guards
/-!
# C07 — helper lemmas for `Props/C07.lean`
-/
namespace XalanModel.C07

variable {σ π ω τ : Type}

theorem Machine.stepThread_length (M : Machine σ π ω) (c : Config σ π ω) (i : Nat) :
    (M.stepThread c i).threads.length = c.threads.length := by
  unfold Machine.stepThread
  split
  · rfl
  · simp

theorem Machine.exec_length (M : Machine σ π ω) (sched : List Nat) (c : Config σ π ω) :
    (M.exec sched c).threads.length = c.threads.length := by
  induction sched generalizing c with
  | nil => rfl
  | cons i sched ih => simp [Machine.exec, ih, Machine.stepThread_length]

/-- under transparency a solo run observes, and produces, the same whatever the unobservable part of the shared state -/
theorem Machine.solo_transparent {M : Machine σ π ω} {obs : σ → τ} (h : Transparent M obs)
    (n : Nat) (s s' : σ) (t : Thread π ω) (hs : obs s = obs s') :
    (M.solo n s t).2 = (M.solo n s' t).2 ∧ obs (M.solo n s t).1 = obs s := by
  induction n generalizing s s' t with
  | zero => exact ⟨rfl, rfl⟩
  | succ n ih =>
    obtain ⟨p, out⟩ := t
    simp only [Machine.solo]
    have h2 := h.depends s s' p hs
    have hp : obs (M.step s p).1 = obs (M.step s' p).1 := by
      rw [h.preserves, h.preserves, hs]
    have := ih (M.step s p).1 (M.step s' p).1 ((M.step s p).2.1, out ++ (M.step s p).2.2) hp
    constructor
    · rw [this.1, h2]
    · rw [this.2, h.preserves]

theorem Machine.stepThread_obs {M : Machine σ π ω} {obs : σ → τ} (h : Transparent M obs)
    (c : Config σ π ω) (i : Nat) : obs (M.stepThread c i).shared = obs c.shared := by
  unfold Machine.stepThread
  split
  · rfl
  · simp [h.preserves]

/-- the key invariant: after any schedule, thread `i` is where it would be after running alone, for as many
steps as the schedule gave it, over the *initial* shared state -/
theorem Machine.exec_thread {M : Machine σ π ω} {obs : σ → τ} (h : Transparent M obs)
    (sched : List Nat) (c : Config σ π ω) (i : Nat) :
    (M.exec sched c).threads[i]? = (c.threads[i]?).map (fun t => (M.solo (sched.count i) c.shared t).2) ∧
    obs (M.exec sched c).shared = obs c.shared := by
  induction sched generalizing c with
  | nil => simp [Machine.exec, Machine.solo]
  | cons j sched ih =>
    simp only [Machine.exec]
    have ihc := ih (M.stepThread c j)
    refine ⟨?_, by rw [ihc.2, Machine.stepThread_obs h]⟩
    rw [ihc.1]
    have hobs := Machine.stepThread_obs h c j
    by_cases hij : j = i
    · subst hij
      cases hget : c.threads[j]? with
      | none => simp [Machine.stepThread, hget]
      | some t =>
        obtain ⟨p, out⟩ := t
        obtain ⟨hlt, hval⟩ := List.getElem?_eq_some_iff.mp hget
        simp [Machine.stepThread, Machine.solo, hlt, hval]
    · have hcount : (j :: sched).count i = sched.count i := by
        simp [hij]
      rw [hcount]
      have hthr : (M.stepThread c j).threads[i]? = c.threads[i]? := by
        unfold Machine.stepThread
        split
        · rfl
        · simp [hij]
      rw [hthr]
      cases c.threads[i]? with
      | none => rfl
      | some t =>
        simp only [Option.map_some]
        rw [(Machine.solo_transparent h (sched.count i) _ _ t hobs).1]

theorem readOnly_transparent {M : Machine σ π ω} (h : ReadOnly M) : Transparent M (fun s => s) where
  preserves := fun s p => h s p
  depends := fun s s' p hs => by subst hs; rfl

/-- every event of a trace comes from a footprint -/
theorem Machine.trace_events {M : Machine σ π ω} {sync : Nat → Bool} (h : WritesOnlySync M sync)
    (sched : List Nat) (c : Config σ π ω) :
    ∀ e ∈ M.trace sched c, e.acc.write = true → sync e.acc.loc = true := by
  induction sched generalizing c with
  | nil => simp [Machine.trace]
  | cons i sched ih =>
    intro e he hw
    simp only [Machine.trace, List.mem_append] at he
    rcases he with he | he
    · cases hget : c.threads[i]? with
      | none => simp [hget] at he
      | some t =>
        obtain ⟨p, out⟩ := t
        simp only [hget, List.mem_map] at he
        obtain ⟨a, ha, rfl⟩ := he
        exact h c.shared p a ha hw
    · exact ih _ e he hw

theorem hasRace_false_of_writes_sync {sync : Nat → Bool} {tr : List Event}
    (h : ∀ e ∈ tr, e.acc.write = true → sync e.acc.loc = true) : hasRace sync tr = false := by
  unfold hasRace
  rw [List.any_eq_false]
  intro e₁ h₁
  rw [Bool.not_eq_true, List.any_eq_false]
  intro e₂ h₂
  rw [Bool.not_eq_true]
  unfold racy
  cases hw1 : e₁.acc.write with
  | true =>
    have := h e₁ h₁ hw1
    simp [this]
  | false =>
    cases hw2 : e₂.acc.write with
    | false => simp
    | true =>
      have h2s := h e₂ h₂ hw2
      by_cases hl : e₁.acc.loc = e₂.acc.loc
      · rw [hl, h2s]; simp
      · simp [hl]

theorem count_seqSchedule_go (i j : Nat) (ks : List Nat) :
    (seqSchedule.go j ks).count i = if i < j then 0 else ks.getD (i - j) 0 := by
  induction ks generalizing j with
  | nil => simp [seqSchedule.go]
  | cons k ks ih =>
    simp only [seqSchedule.go, List.count_append, List.count_replicate, ih]
    by_cases h1 : i < j
    · have : ¬ (j == i) = true := by simp; omega
      have h2 : i < j + 1 := by omega
      simp [h1, h2, this]
    · by_cases h2 : i = j
      · subst h2; simp
      · have h3 : ¬ i < j + 1 := by omega
        have h4 : ¬ (j == i) = true := by simp; omega
        have h5 : i - j = (i - (j + 1)) + 1 := by omega
        simp [h1, h3, h4, h5]

end XalanModel.C07
