/-!
# C07 — N threads over a shared state: the abstract machine

The central mechanism of the property is *const execution of the compiled stylesheet against a caller-owned
context* (`ElemTemplateElement::execute(StylesheetExecutionContext&) const`, `XPath::execute(...) const`,
`XalanNode` navigation `const`): a transformation step reads the shared objects (compiled stylesheet, parsed
source, process-wide tables) and reads/writes only the state owned by its thread (`XalanTransformer`, execution
contexts, factories, result tree).

Model: a shared state `σ`, one private state `π` per thread (its program counter lives in `π`, so control flow
may depend on data), outputs `ω`.  One atomic step of a thread maps `(shared, private)` to
`(shared', private', emitted output)`.  A *schedule* is the list of thread ids in the order in which their
steps are taken: every interleaving of the threads' steps is a schedule and vice versa.

Every step also declares its *footprint* on the shared locations (`Access`), from which the trace of a run and
the notion of a data race are defined.  Core Lean only.
-/
namespace XalanModel.C07

/-- an access of one step to a shared location -/
structure Access where
  loc : Nat
  write : Bool
deriving DecidableEq, Repr

/-- one atomic step of a thread -/
structure Machine (σ π ω : Type) where
  step : σ → π → σ × π × List ω
  /-- shared locations the step touches (instrumentation only: does not influence `step`) -/
  footprint : σ → π → List Access

/-- private state of a thread together with everything it has emitted so far -/
abbrev Thread (π ω : Type) := π × List ω

structure Config (σ π ω : Type) where
  shared : σ
  threads : List (Thread π ω)

structure Event where
  tid : Nat
  acc : Access
deriving DecidableEq, Repr

variable {σ π ω : Type}

/-- thread `i` takes one step (a schedule entry naming a non-existent thread is a no-op) -/
def Machine.stepThread (M : Machine σ π ω) (c : Config σ π ω) (i : Nat) : Config σ π ω :=
  match c.threads[i]? with
  | none => c
  | some (p, out) =>
    let r := M.step c.shared p
    { shared := r.1, threads := c.threads.set i (r.2.1, out ++ r.2.2) }

/-- run a schedule -/
def Machine.exec (M : Machine σ π ω) : List Nat → Config σ π ω → Config σ π ω
  | [], c => c
  | i :: sched, c => M.exec sched (M.stepThread c i)

/-- the accesses to shared locations made along a schedule, in order -/
def Machine.trace (M : Machine σ π ω) : List Nat → Config σ π ω → List Event
  | [], _ => []
  | i :: sched, c =>
    (match c.threads[i]? with
     | none => []
     | some (p, _) => (M.footprint c.shared p).map (fun a => { tid := i, acc := a })) ++
    M.trace sched (M.stepThread c i)

/-- a thread running alone: `n` steps from private state `t` over shared state `s` -/
def Machine.solo (M : Machine σ π ω) : Nat → σ → Thread π ω → σ × Thread π ω
  | 0, s, t => (s, t)
  | n + 1, s, (p, out) =>
    let r := M.step s p
    M.solo n r.1 (r.2.1, out ++ r.2.2)

/-- the sequential schedule: thread 0 runs its `ks[0]` steps, then thread 1 its `ks[1]` steps, … -/
def seqSchedule : List Nat → List Nat :=
  fun ks => go 0 ks
where
  go (i : Nat) : List Nat → List Nat
    | [] => []
    | k :: ks => List.replicate k i ++ go (i + 1) ks

/-- how often thread `i` is scheduled -/
def countOf (i : Nat) (sched : List Nat) : Nat := sched.count i

/-- Every step leaves the shared state as it found it. -/
def ReadOnly (M : Machine σ π ω) : Prop := ∀ s p, (M.step s p).1 = s

/-- Weaker than `ReadOnly`: steps may change the shared state, but only a part that no step can observe
(`obs` projects out the observable part): a mutex-protected cache / string pool whose content never changes
what a lookup returns.  -/
structure Transparent {τ : Type} (M : Machine σ π ω) (obs : σ → τ) : Prop where
  preserves : ∀ s p, obs (M.step s p).1 = obs s
  depends : ∀ s s' p, obs s = obs s' → (M.step s p).2 = (M.step s' p).2

/-- Two events race: different threads, same location, at least one write, location not synchronised
(there is no happens-before edge between steps of different threads other than through `sync` locations:
the threads are started together and joined at the end). -/
def racy (sync : Nat → Bool) (e₁ e₂ : Event) : Bool :=
  e₁.tid != e₂.tid && e₁.acc.loc == e₂.acc.loc && (e₁.acc.write || e₂.acc.write) && !sync e₁.acc.loc

/-- some pair of events of the trace races -/
def hasRace (sync : Nat → Bool) (tr : List Event) : Bool :=
  tr.any fun e₁ => tr.any fun e₂ => racy sync e₁ e₂

/-- the footprint discipline that const execution is meant to guarantee: unsynchronised shared locations are
only read -/
def WritesOnlySync (M : Machine σ π ω) (sync : Nat → Bool) : Prop :=
  ∀ s p a, a ∈ M.footprint s p → a.write = true → sync a.loc = true

/-! ## the one place where const execution was *not* read-only: `XalanList::getListHead() const`

Transcription of Include/XalanList.hpp and of its caller XalanSourceTree/XalanSourceTreeDocument.cpp:309-322 **as they
were before `fix:` d0cd23c / c994d6f** (kept because it explains what the race did; the code as it is now is
`nullHeadMachine` below):

```
Node& getListHead()       { if (0 == m_listHead) { m_listHead = allocate(1); … } return *m_listHead; }
Node& getListHead() const { return const_cast<XalanList*>(this)->getListHead(); }

getElementById(id) const  { i = m_elementsByID.find(id);          // empty map: returns end() = iterator(getListHead())
                            if (i == m_elementsByID.end()) return 0;   // end() again = iterator(getListHead())
                            else return (*i).second; }
```
Shared state: `m_listHead` (`none` = null, `some a` = the node allocated by thread `a-1`).  A thread's private state
is `(pc, tid, i)`.  The test and the assignment inside `getListHead` are separate steps (they are separate memory
accesses; nothing makes them atomic).  Output: `true` = "not found, return 0" (the correct answer for an empty map),
`false` = the lookup went on to dereference `i`, an iterator over a foreign / uninitialised head node. -/

structure LHThread where
  pc : Nat
  tid : Nat
  i : Nat
deriving DecidableEq, Repr

def listHeadMachine : Machine (Option Nat) LHThread Bool where
  step := fun head t =>
    match t.pc with
    | 0 => -- find(): end(): getListHead(): `if (0 == m_listHead)`
      match head with
      | none => (head, { t with pc := 1 }, [])
      | some a => (head, { t with pc := 2, i := a }, [])
    | 1 => -- `m_listHead = allocate(1)`; the iterator is built from the node just allocated
      (some (t.tid + 1), { t with pc := 2, i := t.tid + 1 }, [])
    | 2 => -- `if (i == m_elementsByID.end())`: getListHead() again (non-null by now)
      match head with
      | none => (head, { t with pc := 3 }, [false])
      | some e => (head, { t with pc := 3 }, [decide (t.i = e)])
    | _ => (head, t, [])
  footprint := fun _ t =>
    match t.pc with
    | 0 => [{ loc := 0, write := false }]
    | 1 => [{ loc := 0, write := true }]
    | 2 => [{ loc := 0, write := false }]
    | _ => []

def listHeadConfig (n : Nat) : Config (Option Nat) LHThread Bool :=
  { shared := none, threads := (List.range n).map fun k => ({ pc := 0, tid := k, i := 0 }, []) }

/-! ## the same lookup after `fix:` c994d6f (Include/XalanList.hpp, `begin()/end() const`)

```
const_iterator end() const { return m_listHead == 0 ? const_iterator() : const_iterator(*m_listHead); }
```
A never-used list has no head; `end()` is the null iterator (modelled as `0`; real nodes are `a+1`), `find()` on the
empty map returns it and `i == end()` compares two null iterators.  No step writes. -/

def nullHeadMachine : Machine (Option Nat) LHThread Bool where
  step := fun head t =>
    match t.pc with
    | 0 => (head, { t with pc := 2, i := match head with | none => 0 | some a => a + 1 }, [])
    | 2 => (head, { t with pc := 3 }, [decide (t.i = match head with | none => 0 | some a => a + 1)])
    | _ => (head, t, [])
  footprint := fun _ t =>
    match t.pc with
    | 0 => [{ loc := 0, write := false }]
    | 2 => [{ loc := 0, write := false }]
    | _ => []

end XalanModel.C07
