import XalanModel.C07.Table
import XalanModel.C07.Share
import XalanModel.Generated.C07_Share
/-!
# C07 — classification of the generated access table

`Generated.C07_Share.table` lists every construct through which a `const` execution path could write to a shared
object; `Generated.C07_Share.allow` is the hand-kept classification (`translate/c07_allow.tsv`, turned into numerals by
the translator): for every entry *why* it does not (or when it does) carry an unsynchronised write to a shared
object while transformations run (the guards are explained in `Table.lean`).  The reasons are C++ facts that were read off the
code (anchors in the comments) and are validated on every run by ThreadSanitizer (checks/c07.py); they are the
modelled-not-verified part of C07.  What the kernel checks is that the classification is *total* over the table the
translator produces from the current tree, and what follows from it.

An entry that is not listed here classifies as `none` → effect `sharedWrite` → `execution_readonly_partial` fails.
Core Lean only (the driver imports this).
-/
namespace XalanModel.C07

/-- how the shared objects were built -/
structure Mode where
  /-- Xerces-backed source wrapped with `threadSafe == true` -/
  xercesThreadSafe : Bool
  /-- wrapper nodes built in the constructor (`buildWrapper`, implied by `threadSafe`) -/
  wrapperPrebuilt : Bool
  /-- every XalanList/XalanMap inside a shared object that execution looks at had its head node created before sharing -/
  listHeadsForced : Bool
deriving DecidableEq, Repr

/-- what a channel can do to shared state while transformations run -/
inductive Effect where
  | none          -- no write during execution
  | privateWrite  -- writes, but to an object owned by the executing thread
  | syncWrite     -- writes a shared object under its mutex
  | sharedWrite   -- unsynchronised write to a shared object
deriving DecidableEq, Repr

def Guard.effect (m : Mode) : Guard → Effect
  | .perExecution => .privateWrite
  | .constructionOnly => .none
  | .wrapperPrebuilt => if m.wrapperPrebuilt then .none else .sharedWrite
  | .pooledStringMutex => if m.xercesThreadSafe then .syncWrite else .sharedWrite
  | .isMutex => .syncWrite
  | .initTerminate => .none
  | .installOnly => .none
  | .neverWritten => .none
  | .castNoWrite => .none
  | .ownerOnly => .none
  | .lazyListHead => if m.listHeadsForced then .none else .sharedWrite
  | .headForced => .none
  | .noConstLookup => .none
  | .emptyChecked => .none
  | .noConstCaller => .none
  | .listConstNoAlloc => .none
  | .readOnlyUse => .none
  | .mappingPhaseOnly => if m.wrapperPrebuilt then .none else .sharedWrite

open XalanModel.Generated.C07_Share (allow) in
def classify (e : Entry) : Option Guard :=
  (allow.find? fun a => a.1 == e.key).map (·.2)

/-- where the translator extracts evidence for a guard from the source, the guard must agree with it -/
def guardEvidence (e : Entry) : Bool :=
  match classify e with
  | some .headForced => e.kind == .lazyContainer && e.funcs.head? == some "@forced"
  | some .noConstLookup => e.kind == .lazyContainer && e.funcs.isEmpty
  | some .mappingPhaseOnly =>
    e.kind == .guardedWrite &&
      (match XalanModel.Generated.C07_Share.guards.find? (fun g => g.key == e.key) with
       | some g => g.implies "m_mappingMode"
       | none => false)
  | some .listConstNoAlloc =>
    e.kind == .lazyContainer &&
      XalanModel.Generated.C07_Share.table.any (fun h => h.key == XalanModel.Generated.C07_Share.k_listHead)
  | _ => true

/-- an unlisted entry is assumed to be the worst -/
def effectOf (m : Mode) (e : Entry) : Effect :=
  match classify e with
  | some g => g.effect m
  | none => .sharedWrite

/-- the sharing the property quantifies over: native source tree, or Xerces DOM wrapped in thread-safe mode -/
def Mode.documented : Mode := { xercesThreadSafe := true, wrapperPrebuilt := true, listHeadsForced := true }
/-- the same, without the assumption about list heads (what the code provided for
`XalanSourceTreeDocument::m_elementsByID` / `m_unparsedEntityURIs` before `fix:` d0cd23c) -/
def Mode.documentedAsIs : Mode := { xercesThreadSafe := true, wrapperPrebuilt := true, listHeadsForced := false }
/-- `XercesParserLiaison` with its own defaults (`m_threadSafe(false)`): wrapper pre-built, plain string pool (outside the
quantifier; `XalanTransformer::parseSource(.., useXercesDOM = true)` used to build this) -/
def Mode.xercesNoPool : Mode := { xercesThreadSafe := false, wrapperPrebuilt := true, listHeadsForced := true }
/-- `setBuildWrapperNodes(false)`: wrapper nodes built on demand (outside the quantifier) -/
def Mode.xercesMapping : Mode := { xercesThreadSafe := false, wrapperPrebuilt := false, listHeadsForced := true }

def Mode.ofName : String → Option Mode
  | "default" => some .documented
  | "xerces-ts" => some .documented
  | "xerces-ts-setid" => some .documented
  | "as-is" => some .documentedAsIs
  | "xerces-default" => some .documented   -- XercesDOMParsedSource asks its liaison for thread-safe mode (fix: 8b7d92c)
  | "xerces-nopool" => some .xercesNoPool
  | "xerces-mapping" => some .xercesMapping
  | _ => none

open XalanModel.Generated in
/-- entries through which, in mode `m`, execution can make an unsynchronised write to a shared object -/
def racyEntries (m : Mode) : List Entry :=
  C07_Share.table.filter fun e => effectOf m e == .sharedWrite

open XalanModel.Generated in
def unlisted : List Entry := C07_Share.table.filter fun e => (classify e).isNone

/-! ## the table as a machine

Shared locations are the indices of the table (one abstract cell per write channel; everything else in a shared
object is `const` and has no channel, so it is never written).  A thread's program is a list of accesses to these
cells; one step performs the next access and emits it. -/

open XalanModel.Generated in
def entryAt (i : Nat) : Option Entry := C07_Share.table[i]?

/-- the cell is protected by a mutex in mode `m` -/
def syncLoc (m : Mode) (i : Nat) : Bool :=
  match entryAt i with
  | some e => effectOf m e == .syncWrite
  | none => false

/-- in mode `m` the code can write cell `i` while transformations run (under a mutex or not);
`privateWrite` channels are not shared cells: the object belongs to the thread -/
def mayWrite (m : Mode) (i : Nat) : Bool :=
  match entryAt i with
  | some e => effectOf m e == .syncWrite || effectOf m e == .sharedWrite
  | none => false

/-- a program only uses write channels that the classification says are open in mode `m` -/
def Conforms (m : Mode) (prog : List Access) : Prop :=
  ∀ a ∈ prog, a.write = true → mayWrite m a.loc = true

/-- the machine: private state = the accesses still to perform -/
def tableMachine : Machine Unit (List Access) Access where
  step := fun s p => match p with
    | [] => (s, [], [])
    | a :: rest => (s, rest, [a])
  footprint := fun _ p => match p with
    | [] => []
    | a :: _ => [a]

def tableConfig (progs : List (List Access)) : Config Unit (List Access) Access :=
  { shared := (), threads := progs.map fun p => (p, []) }

end XalanModel.C07
