import XalanModel.C07.Table
import XalanModel.C07.Share
import XalanModel.Generated.C07_Share
/-!
# C07 — classification of the generated access table

`Generated.C07_Share.table` lists every construct through which a `const` execution path could write to a shared
object.  This file is the hand-kept half: for every entry *why* it does not (or when it does) carry an
unsynchronised write to a shared object while transformations run.  The reasons are C++ facts that were read off the
code (anchors in the comments) and are validated on every run by ThreadSanitizer (checks/c07.py); they are the
modelled-not-verified part of C07.  What the kernel checks is that the classification is *total* over the table the
translator produces from the current tree, and what follows from it.

An entry that is not listed here classifies as `none` → effect `sharedWrite` → `execution_readonly_partial` fails.
Core Lean only (the driver imports this).
-/
namespace XalanModel.C07

/-- why a write channel is harmless, or under which condition -/
inductive Guard where
  /-- every instance is owned by one thread: execution contexts, XObjects and their factories, the per-transformer
  ICU functors, stack proxies, exception objects (XalanTransformer.cpp:100-135, doTransform 1237-1390) -/
  | perExecution
  /-- only runs while a stylesheet is compiled / a source is parsed, i.e. before the object is shared -/
  | constructionOnly
  /-- XercesDocumentWrapper's lazily filled members: after the constructor they are written only by
  `createWrapperNode`, reached from `mapNode` only `if (m_mappingMode == true)` (XercesDocumentWrapper.cpp:155-171);
  `m_mappingMode = threadSafe ? false : !buildWrapper` (line 91) -/
  | wrapperPrebuilt
  /-- `XercesDocumentWrapper::getPooledString` → `m_stringPool->get`: the pool is the mutex-protected
  `XercesLiaisonXalanDOMStringPool` iff `threadSafe` (XercesDocumentWrapper.cpp:99) -/
  | pooledStringMutex
  /-- the mutex itself -/
  | isMutex
  /-- process-wide state written only by `initialize()` / `terminate()` / the `*Init` counters -/
  | initTerminate
  /-- process-wide state written only by global install/uninstall/set calls that the documentation reserves for
  single-threaded phases (installExternalFunctionGlobal, installXalanNumberFormatFactory, setPoolAllTextNodes) -/
  | installOnly
  /-- declared non-const but never assigned after its definition -/
  | neverWritten
  /-- the cast adds `const`, or removes it only to reach a non-mutating overload (iterators of XalanMap/XalanDeque) -/
  | castNoWrite
  /-- runs only in the owning thread outside shared execution (destroy*, reset, terminate, delete functors) -/
  | ownerOnly
  /-- `XalanList::getListHead() const` → `const_cast<XalanList*>(this)->getListHead()`, which ALLOCATES the head node
  when `m_listHead == 0` (Include/XalanList.hpp:477-492): a const `begin()/end()` on a never-used list, or a const
  `find()` on a never-used XalanMap, writes.  Harmless only if the head of every list inside a shared object was
  created before the object is shared (Stylesheet's constructor does this on purpose: Stylesheet.cpp:106,109;
  XalanSourceTreeDocument's constructors since `fix:` d0cd23c: createMapListHeads()). -/
  | lazyListHead
deriving DecidableEq, Repr

/-- how the shared objects were built -/
structure Mode where
  /-- Xerces-backed source wrapped with `threadSafe == true` -/
  xercesThreadSafe : Bool
  /-- wrapper nodes built in the constructor (`buildWrapper`, implied by `threadSafe`) -/
  wrapperPrebuilt : Bool
  /-- every XalanList/XalanMap inside a shared object that execution looks at had its head node created before sharing -/
  listHeadsForced : Bool
deriving DecidableEq, Repr

/-- what a channel can do to shared state while transformations run -/
inductive Effect where
  | none          -- no write during execution
  | privateWrite  -- writes, but to an object owned by the executing thread
  | syncWrite     -- writes a shared object under its mutex
  | sharedWrite   -- unsynchronised write to a shared object
deriving DecidableEq, Repr

def Guard.effect (m : Mode) : Guard → Effect
  | .perExecution => .privateWrite
  | .constructionOnly => .none
  | .wrapperPrebuilt => if m.wrapperPrebuilt then .none else .sharedWrite
  | .pooledStringMutex => if m.xercesThreadSafe then .syncWrite else .sharedWrite
  | .isMutex => .syncWrite
  | .initTerminate => .none
  | .installOnly => .none
  | .neverWritten => .none
  | .castNoWrite => .none
  | .ownerOnly => .none
  | .lazyListHead => if m.listHeadsForced then .none else .sharedWrite

/-- the classification (`kind|scope|name` ↦ guard) -/
def allow : List (Nat × Guard) := [
  (key% "constCast|DOMSupport/XalanDocumentPrefixResolver.cpp|XalanDocumentPrefixResolver::NamespaceNodesTreeWalker::startNode|constXalanNode*", .castNoWrite),
  (key% "constCast|Include/STLHelper.hpp|?|Type*", .ownerOnly),
  (key% "constCast|Include/XalanDeque.hpp|XalanDeque::begin|XalanDeque*", .castNoWrite),
  (key% "constCast|Include/XalanDeque.hpp|XalanDeque::end|XalanDeque*", .castNoWrite),
  (key% "constCast|Include/XalanList.hpp|XalanList::getListHead|XalanList*", .lazyListHead),
  (key% "constCast|Include/XalanMap.hpp|XalanMap::begin|XalanMap*", .castNoWrite),
  (key% "constCast|Include/XalanMap.hpp|XalanMap::doCreateEntry|key_type*", .castNoWrite),
  (key% "constCast|Include/XalanMap.hpp|XalanMap::end|XalanMap*", .castNoWrite),
  (key% "constCast|Include/XalanMap.hpp|XalanMap::find|XalanMap*", .castNoWrite),
  (key% "constCast|Include/XalanMemMgrAutoPtr.hpp|XalanMemMgrAutoPtr::XalanMemMgrAutoPtr|XalanMemMgrAutoPtr<Type", .constructionOnly),
  (key% "constCast|XMLSupport/FormatterTreeWalker.cpp|FormatterTreeWalker::endNode|constXalanNode*", .castNoWrite),
  (key% "constCast|XMLSupport/FormatterTreeWalker.cpp|FormatterTreeWalker::startNode|constXalanNode*", .castNoWrite),
  (key% "constCast|XPath/XObjectFactory.hpp|XObjectFactory::deleteObject|XObject*", .perExecution),
  (key% "constCast|XPath/XPathEnvSupportDefault.cpp|?|Function*", .installOnly),
  (key% "constCast|XPath/XPathEnvSupportDefault.cpp|XPathEnvSupportDefault::updateFunctionTable|Function*", .installOnly),
  (key% "constCast|XPath/XPathFactoryDefault.cpp|XPathFactoryDefault::doReturnObject|XPath*", .ownerOnly),
  (key% "constCast|XPath/XPathFunctionTable.cpp|XPathFunctionTable::InstallFunction|Function*", .installOnly),
  (key% "constCast|XPath/XPathFunctionTable.cpp|XPathFunctionTable::UninstallFunction|Function*", .installOnly),
  (key% "constCast|XPath/XalanDocumentFragmentNodeRefListBaseProxy.cpp|XalanDocumentFragmentNodeRefListBaseProxy::item|XalanDocumentFragment*", .perExecution),
  -- copy constructor, `const_cast<XalanDOMString&>(theSource.m_languageString).getMemoryManager()`: only to call the
  -- (non-const) accessor; NodeSortKey objects live in the per-thread execution context (since /repo 72012e8)
  (key% "constCast|XSLT/NodeSortKey.cpp|NodeSortKey::NodeSortKey|XalanDOMString&", .castNoWrite),
  (key% "constCast|XSLT/XSLTEngineImpl.cpp|XSLTEngineImpl::getStylesheetFromPIURL|StylesheetRoot*", .constructionOnly),
  (key% "constCast|XalanSourceTree/XalanSourceTreeParserLiaison.cpp|XalanSourceTreeParserLiaison::ensureReader|XalanDOMChar*", .constructionOnly),
  (key% "constCast|XalanTransformer/XalanSourceTreeWrapperParsedSource.cpp|XalanSourceTreeWrapperParsedSource::XalanSourceTreeWrapperParsedSource|XalanDOMString&", .constructionOnly),
  (key% "constCast|XalanTransformer/XalanTransformer.cpp|XalanTransformer::destroyParsedSource|XalanParsedSource*", .ownerOnly),
  (key% "constCast|XalanTransformer/XalanTransformer.cpp|XalanTransformer::destroyStylesheet|XalanCompiledStylesheet*", .ownerOnly),
  (key% "constCast|XalanTransformer/XalanTransformer.cpp|XalanTransformer::terminate|XSLTInit*", .initTerminate),
  (key% "constCast|XalanTransformer/XercesDOMWrapperParsedSource.cpp|XercesDOMWrapperParsedSource::XercesDOMWrapperParsedSource|XalanDOMString&", .constructionOnly),
  (key% "constCast|XercesParserLiaison/XercesDOMWalker.cpp|XercesDOMWalker::endNode|constDOMNodeType*", .castNoWrite),
  (key% "constCast|XercesParserLiaison/XercesDOMWalker.cpp|XercesDOMWalker::startNode|constDOMNodeType*", .castNoWrite),
  (key% "constCast|XercesParserLiaison/XercesDocumentWrapper.cpp|XercesDocumentWrapper::createNavigator|XercesDocumentWrapper*", .wrapperPrebuilt),
  (key% "constCast|XercesParserLiaison/XercesParserLiaison.cpp|XercesParserLiaison::reset|XalanDocument*", .ownerOnly),
  (key% "constPathCall|NodeTester|shouldStripSourceNode|m_executionContext->shouldStripSourceNode", .perExecution),
  (key% "constPathCall|StylesheetExecutionContextDefault|getUniqueNamespaceValue|m_xsltProcessor->getUniqueNamespaceValue", .perExecution),
  (key% "constPathCall|StylesheetExecutionContextDefault|getXSLNameSpaceURL|m_xsltProcessor->getXSLNameSpaceURL", .perExecution),
  (key% "constPathCall|StylesheetExecutionContextDefault|getXalanXSLNameSpaceURL|m_xsltProcessor->getXalanXSLNameSpaceURL", .perExecution),
  (key% "constPathCall|XPathExecutionContextDefault|error|m_xpathEnvSupport->problem", .perExecution),
  (key% "constPathCall|XPathExecutionContextDefault|message|m_xpathEnvSupport->problem", .perExecution),
  (key% "constPathCall|XPathExecutionContextDefault|parseXML|m_xpathEnvSupport->parseXML", .perExecution),
  (key% "constPathCall|XPathExecutionContextDefault|warn|m_xpathEnvSupport->problem", .perExecution),
  (key% "constPathCall|XPathProcessorImpl|addToTokenQueue|m_constructionContext->getPooledString", .constructionOnly),
  (key% "constPathCall|XPathProcessorImpl|addToTokenQueue|m_expression->pushToken", .constructionOnly),
  (key% "constPathCall|XPathProcessorImpl|error|m_constructionContext->problem", .constructionOnly),
  (key% "constPathCall|XPathProcessorImpl|error|m_expression->getPreviousToken", .constructionOnly),
  (key% "constPathCall|XPathProcessorImpl|replaceTokenWithNamespaceToken|m_constructionContext->getPooledString", .constructionOnly),
  (key% "constPathCall|XPathProcessorImpl|replaceTokenWithNamespaceToken|m_expression->replaceRelativeToken", .constructionOnly),
  (key% "constPathCall|XSLTEngineImpl|traceSelect|m_diagnosticsPrintWriter->println", .perExecution),
  (key% "constPathCall|XercesDocumentWrapper|getPooledString|m_stringPool->get", .pooledStringMutex),
  (key% "globalVar|DOMSupport/DOMServices.cpp|s_XMLNamespaceLength", .initTerminate),
  (key% "globalVar|DOMSupport/DOMServices.cpp|s_XMLNamespacePrefixLength", .initTerminate),
  (key% "globalVar|DOMSupport/DOMServices.cpp|s_XMLNamespacePrefixURILength", .initTerminate),
  (key% "globalVar|DOMSupport/DOMServices.cpp|s_XMLNamespaceSeparatorStringLength", .initTerminate),
  (key% "globalVar|DOMSupport/DOMServices.cpp|s_XMLNamespaceURILength", .initTerminate),
  (key% "globalVar|DOMSupport/DOMServices.cpp|s_XMLNamespaceWithSeparatorLength", .initTerminate),
  (key% "globalVar|DOMSupport/DOMServices.cpp|s_XMLStringLength", .initTerminate),
  (key% "globalVar|DOMSupport/DOMServices.cpp|s_XMLStringWithSeparatorLength", .initTerminate),
  (key% "globalVar|DOMSupportInit|s_initCounter", .initTerminate),
  (key% "globalVar|FormatterToTextDOMString|s_dummyString", .neverWritten),
  (key% "globalVar|PlatformSupport/DOMStringHelper.cpp|s_locale", .initTerminate),
  (key% "globalVar|PlatformSupport/XalanMemoryManagement.cpp|s_dummyMemMgr", .neverWritten),
  (key% "globalVar|PlatformSupport/XalanMessageLoader.cpp|s_initManager", .initTerminate),
  (key% "globalVar|PlatformSupportInit|s_initCounter", .initTerminate),
  (key% "globalVar|StylesheetExecutionContextDefault|s_defaultXalanNumberFormatFactory", .neverWritten),
  (key% "globalVar|StylesheetExecutionContextDefault|s_xalanNumberFormatFactory", .installOnly),
  (key% "globalVar|XMLSupportInit|s_initCounter", .initTerminate),
  (key% "globalVar|XPath|s_functions", .installOnly),
  (key% "globalVar|XPath/XPathEvaluator.cpp|s_memoryManager", .initTerminate),
  (key% "globalVar|XPath/XPathEvaluator.cpp|s_xpathInit", .initTerminate),
  (key% "globalVar|XPathCAPI/XPathCAPI.cpp|fInitialized", .initTerminate),
  (key% "globalVar|XPathCAPI/XPathCAPI.cpp|fTerminated", .initTerminate),
  (key% "globalVar|XPathCAPI/XPathCAPI.cpp|theSourceTreeInit", .initTerminate),
  (key% "globalVar|XPathEnvSupportDefault|s_externalFunctions", .installOnly),
  (key% "globalVar|XPathInit|s_initCounter", .initTerminate),
  (key% "globalVar|XSLT/XSLTInit.cpp|s_staticMemoryManager", .initTerminate),
  (key% "globalVar|XSLTInit|s_initCounter", .initTerminate),
  (key% "globalVar|XUnknown|s_unknownString", .initTerminate),
  (key% "globalVar|XalanDOMInit|s_initCounter", .initTerminate),
  (key% "globalVar|XalanMessageLoader|s_msgLoader", .initTerminate),
  (key% "globalVar|XalanSourceTreeDocument|s_poolAllTextNodes", .installOnly),
  (key% "globalVar|XalanSourceTreeInit|s_initCounter", .initTerminate),
  (key% "globalVar|XalanTransformer|s_emptyInputSource", .initTerminate),
  (key% "globalVar|XalanTransformer|s_xsltInit", .initTerminate),
  (key% "globalVar|XalanTransformer/XalanCAPI.cpp|fInitialized", .initTerminate),
  (key% "globalVar|XalanTransformer/XalanTransformer.cpp|s_initMemoryManager", .initTerminate),
  (key% "mutableMember|ElementPrefixResolverProxy|m_uri", .perExecution),
  (key% "mutableMember|ICUBridgeCollationCompareFunctorImpl|m_collatorCache", .perExecution),
  (key% "mutableMember|ICUFormatNumberFunctor|m_decimalFormatCache", .perExecution),
  (key% "mutableMember|MakeTranscoderException|m_encoding", .perExecution),
  (key% "mutableMember|StylesheetConstructionContextDefault|m_tempBuffer", .constructionOnly),
  (key% "mutableMember|StylesheetExecutionContextDefault|m_sourceTreeResultTreeFactory", .perExecution),
  (key% "mutableMember|UnrepresentableCharacterException|m_encoding", .perExecution),
  (key% "mutableMember|XNodeSetBase|m_cachedNumberValue", .perExecution),
  (key% "mutableMember|XNodeSetBase|m_cachedStringValue", .perExecution),
  (key% "mutableMember|XNumber|m_cachedStringValue", .perExecution),
  (key% "mutableMember|XObject|m_memoryManager", .neverWritten),
  (key% "mutableMember|XObjectResultTreeFragProxy|m_proxy", .perExecution),
  (key% "mutableMember|XPathExecutionContextDefault|m_cachedPosition", .perExecution),
  (key% "mutableMember|XPathExecutionContextDefault|m_scratchQName", .perExecution),
  (key% "mutableMember|XResultTreeFrag|m_cachedNumberValue", .perExecution),
  (key% "mutableMember|XResultTreeFrag|m_cachedStringValue", .perExecution),
  (key% "mutableMember|XStringBase|m_cachedNumberValue", .perExecution),
  (key% "mutableMember|XStringBase|m_resultTreeFrag", .perExecution),
  (key% "mutableMember|XercesDocumentWrapper|m_attributeAllocator", .wrapperPrebuilt),
  (key% "mutableMember|XercesDocumentWrapper|m_doctype", .wrapperPrebuilt),
  (key% "mutableMember|XercesDocumentWrapper|m_elementAllocator", .wrapperPrebuilt),
  (key% "mutableMember|XercesDocumentWrapper|m_navigatorAllocator", .wrapperPrebuilt),
  (key% "mutableMember|XercesDocumentWrapper|m_nodeMap", .wrapperPrebuilt),
  (key% "mutableMember|XercesDocumentWrapper|m_nodes", .wrapperPrebuilt),
  (key% "mutableMember|XercesDocumentWrapper|m_textAllocator", .wrapperPrebuilt),
  (key% "mutableMember|XercesLiaisonXalanDOMStringPool|m_mutex", .isMutex)
]

def classify (e : Entry) : Option Guard :=
  (allow.find? fun a => a.1 == e.key).map (·.2)

/-- an unlisted entry is assumed to be the worst -/
def effectOf (m : Mode) (e : Entry) : Effect :=
  match classify e with
  | some g => g.effect m
  | none => .sharedWrite

/-- the sharing the property quantifies over: native source tree, or Xerces DOM wrapped in thread-safe mode -/
def Mode.documented : Mode := { xercesThreadSafe := true, wrapperPrebuilt := true, listHeadsForced := true }
/-- the same, without the assumption about list heads (what the code provided for
`XalanSourceTreeDocument::m_elementsByID` / `m_unparsedEntityURIs` before `fix:` d0cd23c) -/
def Mode.documentedAsIs : Mode := { xercesThreadSafe := true, wrapperPrebuilt := true, listHeadsForced := false }
/-- `XalanTransformer::parseSource(.., useXercesDOM = true)`: wrapper pre-built, plain string pool (outside the quantifier) -/
def Mode.xercesNoPool : Mode := { xercesThreadSafe := false, wrapperPrebuilt := true, listHeadsForced := true }
/-- `setBuildWrapperNodes(false)`: wrapper nodes built on demand (outside the quantifier) -/
def Mode.xercesMapping : Mode := { xercesThreadSafe := false, wrapperPrebuilt := false, listHeadsForced := true }

def Mode.ofName : String → Option Mode
  | "default" => some .documented
  | "xerces-ts" => some .documented
  | "as-is" => some .documentedAsIs
  | "xerces-default" => some .xercesNoPool
  | "xerces-nopool" => some .xercesNoPool
  | "xerces-mapping" => some .xercesMapping
  | _ => none

open XalanModel.Generated in
/-- entries through which, in mode `m`, execution can make an unsynchronised write to a shared object -/
def racyEntries (m : Mode) : List Entry :=
  C07_Share.table.filter fun e => effectOf m e == .sharedWrite

open XalanModel.Generated in
def unlisted : List Entry := C07_Share.table.filter fun e => (classify e).isNone

/-! ## the table as a machine

Shared locations are the indices of the table (one abstract cell per write channel; everything else in a shared
object is `const` and has no channel, so it is never written).  A thread's program is a list of accesses to these
cells; one step performs the next access and emits it. -/

open XalanModel.Generated in
def entryAt (i : Nat) : Option Entry := C07_Share.table[i]?

/-- the cell is protected by a mutex in mode `m` -/
def syncLoc (m : Mode) (i : Nat) : Bool :=
  match entryAt i with
  | some e => effectOf m e == .syncWrite
  | none => false

/-- in mode `m` the code can write cell `i` while transformations run (under a mutex or not);
`privateWrite` channels are not shared cells: the object belongs to the thread -/
def mayWrite (m : Mode) (i : Nat) : Bool :=
  match entryAt i with
  | some e => effectOf m e == .syncWrite || effectOf m e == .sharedWrite
  | none => false

/-- a program only uses write channels that the classification says are open in mode `m` -/
def Conforms (m : Mode) (prog : List Access) : Prop :=
  ∀ a ∈ prog, a.write = true → mayWrite m a.loc = true

/-- the machine: private state = the accesses still to perform -/
def tableMachine : Machine Unit (List Access) Access where
  step := fun s p => match p with
    | [] => (s, [], [])
    | a :: rest => (s, rest, [a])
  footprint := fun _ p => match p with
    | [] => []
    | a :: _ => [a]

def tableConfig (progs : List (List Access)) : Config Unit (List Access) Access :=
  { shared := (), threads := progs.map fun p => (p, []) }

end XalanModel.C07
