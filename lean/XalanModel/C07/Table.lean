/-!
# C07 — entry type of the generated access table

`translate/c07_share.py` regenerates `XalanModel/Generated/C07_Share.lean` from the working tree: one `Entry` for
every C++ construct through which a `const` execution path can write to an object that threads share
(see the translator's doc string).  Core Lean only (the driver imports this).
-/
namespace XalanModel.C07

/-- the kinds of write channel that `const` does not close -/
inductive Kind where
  | mutableMember   -- data member declared `mutable` in a class reachable from a shared root
  | constCast       -- `const_cast` in a file implementing such a class
  | constPathCall   -- non-const member function invoked through a pointer member from a const member function
  | lazyContainer   -- XalanList / XalanMap / XalanSet member (lazily allocated list head) of a class that is part of a shared object;
                    -- `funcs` = the const member functions that use it, preceded by "@forced" when the constructor /
                    -- postConstruction (or a member function they call) calls its non-const begin()/end()
  | guardedWrite    -- in a class with `mutable` members: a const member function calls a function that mutates one of them
                    -- (directly, or through unguarded calls inside the class); name = `caller->callee#n`, the guard condition of
                    -- the call is in `Generated.C07_Share.guards`; `f#unguarded` = a const mutator nobody in its files calls
  | localStatic     -- non-const function-local static in such a file
  | globalVar       -- non-const static data member / file-scope static (process-wide state)
  | transformTouch  -- a function reachable from a NON-STATIC member of XalanTransformer (the per-thread API) through
                    -- XalanTransformer / XSLTProcessorEnvSupportDefault / XPathEnvSupportDefault mentions a process-wide
                    -- variable: scope = the variable, name = the function
deriving DecidableEq, Repr

structure Entry where
  /-- the text `kind|scope|name` read as a base-256 number (UTF-8 bytes, big endian).  The kernel compares these
  numbers instead of strings (`decide` over string equality is ~10 ms per comparison; over `Nat` it is free).  The translator
  writes the numerals, for the table and for the classification; `xm_c07 selftest` re-derives every table key from
  the strings. -/
  key : Nat
  kind : Kind
  /-- class name, or file (relative to src/xalanc) -/
  scope : String
  /-- member / variable name, or `function|detail` -/
  name : String
  /-- functions that mention it (constructors and destructors excluded) -/
  funcs : List String
deriving Repr

def Kind.toString : Kind → String
  | .mutableMember => "mutableMember"
  | .constCast => "constCast"
  | .constPathCall => "constPathCall"
  | .lazyContainer => "lazyContainer"
  | .guardedWrite => "guardedWrite"
  | .localStatic => "localStatic"
  | .globalVar => "globalVar"
  | .transformTouch => "transformTouch"

/-- `kind|scope|name` as a base-256 number -/
def encodeKey (s : String) : Nat :=
  s.toUTF8.foldl (fun acc b => acc * 256 + b.toNat) 0

def Entry.keyText (e : Entry) : String := e.kind.toString ++ "|" ++ e.scope ++ "|" ++ e.name

/-- why a write channel is harmless, or under which condition -/
inductive Guard where
  /-- every instance is owned by one thread: execution contexts, XObjects and their factories, the per-transformer
  ICU functors, stack proxies, exception objects (XalanTransformer.cpp:100-135, doTransform 1237-1390) -/
  | perExecution
  /-- only runs while a stylesheet is compiled / a source is parsed, i.e. before the object is shared -/
  | constructionOnly
  /-- XercesDocumentWrapper's lazily filled members: after the constructor they are written only by
  `createWrapperNode`, reached from `mapNode` only `if (m_mappingMode == true)` (XercesDocumentWrapper.cpp:155-171);
  `m_mappingMode = threadSafe ? false : !buildWrapper` (line 91) -/
  | wrapperPrebuilt
  /-- `XercesDocumentWrapper::getPooledString` → `m_stringPool->get`: the pool is the mutex-protected
  `XercesLiaisonXalanDOMStringPool` iff `threadSafe` (XercesDocumentWrapper.cpp:99) -/
  | pooledStringMutex
  /-- the mutex itself -/
  | isMutex
  /-- process-wide state written only by `initialize()` / `terminate()` / the `*Init` counters -/
  | initTerminate
  /-- process-wide state written only by global install/uninstall/set calls that the documentation reserves for
  single-threaded phases (installExternalFunctionGlobal, installXalanNumberFormatFactory, setPoolAllTextNodes) -/
  | installOnly
  /-- declared non-const but never assigned after its definition -/
  | neverWritten
  /-- the cast adds `const`, or removes it only to reach a non-mutating overload (iterators of XalanMap/XalanDeque) -/
  | castNoWrite
  /-- runs only in the owning thread outside shared execution (destroy*, reset, terminate, delete functors) -/
  | ownerOnly
  /-- (the tree before `fix:` c994d6f) `XalanList::getListHead() const` → `const_cast<XalanList*>(this)->getListHead()`, which ALLOCATES the head node
  when `m_listHead == 0` (Include/XalanList.hpp): a const `begin()/end()` on a never-used list, or a const
  `find()` on a never-used XalanMap, writes.  Harmless only if the head of every list inside a shared object was
  created before the object is shared (Stylesheet's constructor does this on purpose: Stylesheet.cpp:106,109;
  XalanSourceTreeDocument's constructors since `fix:` d0cd23c: createMapListHeads()). -/
  | lazyListHead
  /-- (lazyContainer) the head of this container is created before the object is shared: the constructor or
  postConstruction calls its non-const `begin()`/`end()` — checked against the "@forced" marker the translator derives
  from the source (`guardEvidence`) -/
  | headForced
  /-- (lazyContainer) no const member function of the class uses the container — checked: `funcs = []` -/
  | noConstLookup
  /-- (lazyContainer) every const lookup is preceded by an `empty()` test that does not touch the list
  (`NamespacesHandler::getNamespaceAlias`, NamespacesHandler.cpp:362) -/
  | emptyChecked
  /-- (constCast) a const overload that only forwards to the non-const function (`const_cast<X*>(this)->f()`) and that no
  const member function calls: the translator puts the const callers into the entry's name (`…|const-callers:none`), so a
  new caller is a new, unclassified entry -/
  | noConstCaller
  /-- (lazyContainer) since `fix:` c994d6f the const `begin()/end()` of `XalanList` (hence `find()` of `XalanMap`/`XalanSet`)
  return a null iterator for a list that never held an element and allocate nothing.  Valid exactly while
  `XalanList::getListHead() const` has no const caller — `guardEvidence` requires the table to contain that very entry -/
  | listConstNoAlloc
  /-- (transformTouch) the function only reads the process-wide variable (hand-checked; the writers are the static
  initialize/terminate/install*Global members, which are not reachable from the per-thread API) -/
  | readOnlyUse
  /-- (guardedWrite) the call that mutates the shared wrapper is made only in the building / mapping phase: the guard condition
  extracted from the source must IMPLY `m_mappingMode == true` (machine-checked: `guardEvidence`, `guards_imply_mapping_phase`);
  `m_mappingMode` is `false` for every wrapper built with `threadSafe` or `buildWrapper` (XercesDocumentWrapper.cpp:96) -/
  | mappingPhaseOnly
deriving DecidableEq, Repr

/-- a guard condition: the conjunction of the `if` conditions enclosing a call, over numbered variables -/
inductive Cond where
  | tt
  | var (i : Nat) (val : Bool)      -- variable `i` has value `val` (`m_flag == true`, `!m_flag`, an opaque sub-expression …)
  | and (a b : Cond)
  | or (a b : Cond)
  | not (a : Cond)
deriving Repr

def Cond.eval (env : List Bool) : Cond → Bool
  | .tt => true
  | .var i v => (env.getD i false) == v
  | .and a b => a.eval env && b.eval env
  | .or a b => a.eval env || b.eval env
  | .not a => !a.eval env

/-- all assignments of `n` boolean variables -/
def allEnvs : Nat → List (List Bool)
  | 0 => [[]]
  | n + 1 => (allEnvs n).flatMap fun e => [false :: e, true :: e]

structure GuardEntry where
  key : Nat
  vars : List String
  cond : Cond
deriving Repr

/-- under every assignment of the variables, the condition forces variable `flag` to be true -/
def GuardEntry.implies (g : GuardEntry) (flag : String) : Bool :=
  match g.vars.findIdx? (· == flag) with
  | none => false
  | some i => (allEnvs g.vars.length).all fun env => !g.cond.eval env || env.getD i false


end XalanModel.C07
