import Lean.Elab.Term
/-!
# C07 — entry type of the generated access table

`translate/c07_share.py` regenerates `XalanModel/Generated/C07_Share.lean` from the working tree: one `Entry` for
every C++ construct through which a `const` execution path can write to an object that threads share
(see the translator's doc string).  Core Lean only (the driver imports this).
-/
namespace XalanModel.C07

/-- the kinds of write channel that `const` does not close -/
inductive Kind where
  | mutableMember   -- data member declared `mutable` in a class reachable from a shared root
  | constCast       -- `const_cast` in a file implementing such a class
  | constPathCall   -- non-const member function invoked through a pointer member from a const member function
  | localStatic     -- non-const function-local static in such a file
  | globalVar       -- non-const static data member / file-scope static (process-wide state)
deriving DecidableEq, Repr

structure Entry where
  /-- the text `kind|scope|name` read as a base-256 number (UTF-8 bytes, big endian).  The kernel compares these
  numbers instead of strings (`decide` over string equality is ~10 ms per comparison; over `Nat` it is free);
  `xm_c07 selftest` re-derives every key from the strings. -/
  key : Nat
  kind : Kind
  /-- class name, or file (relative to src/xalanc) -/
  scope : String
  /-- member / variable name, or `function|detail` -/
  name : String
  /-- functions that mention it (constructors and destructors excluded) -/
  funcs : List String
deriving Repr

def Kind.toString : Kind → String
  | .mutableMember => "mutableMember"
  | .constCast => "constCast"
  | .constPathCall => "constPathCall"
  | .localStatic => "localStatic"
  | .globalVar => "globalVar"

/-- `kind|scope|name` as a base-256 number -/
def encodeKey (s : String) : Nat :=
  s.toUTF8.foldl (fun acc b => acc * 256 + b.toNat) 0

def Entry.keyText (e : Entry) : String := e.kind.toString ++ "|" ++ e.scope ++ "|" ++ e.name

open Lean Elab Term in
/-- `key% "kind|scope|name"` elaborates to the numeral `encodeKey "kind|scope|name"` (computed at elaboration
time, so the kernel never has to evaluate string functions) -/
elab "key% " s:str : term => do
  return mkNatLit (encodeKey s.getString)

end XalanModel.C07
