import XalanModel.C08.IndentProofs
import XalanModel.C08.Options
/-!
Helper lemmas: header options / indentation / cdata-section-elements only change lexical tokens; text method.
-/
namespace XalanModel.C08

/-- the content-bearing part of a token stream: prolog tokens (XML declaration, DOCTYPE, their newlines) and
the indent handler's tokens dropped, the optional space of `" />"` forgotten, CDATA sections read as text -/
def lexTok : Tok → Option Tok
  | .xmlDecl _ _ _ => none
  | .doctype _ _ _ => none
  | .hnl => none
  | .nl => none
  | .ws _ => none
  | .emptyEnd _ => some (.emptyEnd false)
  | .cdata t => some (.text t)
  | t => some t

def lex (l : List Tok) : List Tok := l.filterMap lexTok

@[simp] theorem lex_nil : lex [] = [] := rfl
@[simp] theorem lex_append (a b : List Tok) : lex (a ++ b) = lex a ++ lex b := by simp [lex, List.filterMap_append]
theorem lex_cons (t : Tok) (l : List Tok) : lex (t :: l) = (match lexTok t with | some x => x :: lex l | none => lex l) := by
  simp only [lex, List.filterMap_cons]; cases lexTok t <;> rfl

@[simp] theorem lex_indent (k : HKind) (i : ISt) : lex (i.indent k) = [] := by
  unfold ISt.indent
  cases k with
  | dummy => rfl
  | real n =>
    simp only
    split
    · cases i.startNewLine <;> simp [lex, lexTok]
    · rfl

/-- two events that differ at most in `characters` vs `cdata` -/
def EvSim : Ev → Ev → Prop
  | .characters a, .cdata b => a = b
  | .cdata a, .characters b => a = b
  | e1, e2 => e1 = e2

/-- pointwise `EvSim` on event lists -/
inductive EvsSim : List Ev → List Ev → Prop
  | nil : EvsSim [] []
  | cons {e1 e2 : Ev} {r1 r2 : List Ev} : EvSim e1 e2 → EvsSim r1 r2 → EvsSim (e1 :: r1) (e2 :: r2)

theorem EvsSim.append {a1 a2 b1 b2 : List Ev} (ha : EvsSim a1 a2) (hb : EvsSim b1 b2) : EvsSim (a1 ++ b1) (a2 ++ b2) := by
  induction ha with
  | nil => exact hb
  | cons h _ ih => exact EvsSim.cons h ih

theorem EvSim.refl (e : Ev) : EvSim e e := by cases e <;> simp [EvSim]

theorem wpte_lex (k1 k2 : HKind) (s t : SSt) (h : s.elemStack = t.elemStack) :
    (writeParentTagEnd k1 s).1.elemStack = (writeParentTagEnd k2 t).1.elemStack ∧
    (writeParentTagEnd k1 s).1.needDoctype = s.needDoctype ∧
    (writeParentTagEnd k2 t).1.needDoctype = t.needDoctype ∧
    lex (writeParentTagEnd k1 s).2 = lex (writeParentTagEnd k2 t).2 := by
  unfold writeParentTagEnd
  rw [h]
  generalize t.elemStack = st
  match st with
  | [] => simp [h]
  | true :: r => simp [h]
  | false :: r => simp [lex_cons, lexTok]

theorem stepCore_lex (cc1 cc2 : CodeCfg) (c1 c2 : SerCfg) (k1 k2 : HKind) (s t : SSt) (e1 e2 : Ev)
    (he : EvSim e1 e2) (h : s.elemStack = t.elemStack) :
    (stepCore cc1 c1 k1 s e1).1.elemStack = (stepCore cc2 c2 k2 t e2).1.elemStack ∧
    lex (stepCore cc1 c1 k1 s e1).2 = lex (stepCore cc2 c2 k2 t e2).2 := by
  have W := fun (s t : SSt) (h : s.elemStack = t.elemStack) => wpte_lex k1 k2 s t h
  cases e1 <;> cases e2 <;> simp only [EvSim, reduceCtorEq] at he <;> try (cases he)
  all_goals first
    | (simp only [stepCore, startElement]
       have A := W (if s.needDoctype then { s with needDoctype := false } else s)
                   (if t.needDoctype then { t with needDoctype := false } else t)
                   (by cases s.needDoctype <;> cases t.needDoctype <;> simp [h])
       cases hs : s.needDoctype <;> cases ht : t.needDoctype <;> simp only [hs, ht, Bool.false_eq_true, if_false, if_true] at A ⊢ <;>
         obtain ⟨a1, _, _, a4⟩ := A <;> simp [a1, a4, lex_cons, lexTok])
    | (simp only [stepCore, endElement]
       rw [h]
       generalize t.elemStack = st
       match st with
       | [] => simp [lex_cons, lexTok]
       | true :: r => simp [lex_cons, lexTok]
       | false :: r => simp [lex_cons, lexTok])
    | (obtain ⟨a1, _, _, a4⟩ := W s t h
       simp only [stepCore, characters, cdata, charactersRaw, comment, procInstr]
       (try split) <;> simp_all [lex_cons, lexTok])

theorem step_lex (cc1 cc2 : CodeCfg) (c1 c2 : SerCfg) (k1 k2 : HKind) (s t : SSt) (e1 e2 : Ev)
    (he : EvSim e1 e2) (h : s.elemStack = t.elemStack) (hf : s.nextIsRaw = t.nextIsRaw) :
    (step cc1 c1 k1 s e1).1.elemStack = (step cc2 c2 k2 t e2).1.elemStack ∧
    (step cc1 c1 k1 s e1).1.nextIsRaw = (step cc2 c2 k2 t e2).1.nextIsRaw ∧
    lex (step cc1 c1 k1 s e1).2 = lex (step cc2 c2 k2 t e2).2 := by
  have core := fun (s t : SSt) (e1 e2 : Ev) (he : EvSim e1 e2) (h : s.elemStack = t.elemStack)
      (hf : s.nextIsRaw = t.nextIsRaw) =>
    (show (stepCore cc1 c1 k1 s e1).1.elemStack = (stepCore cc2 c2 k2 t e2).1.elemStack ∧
        (stepCore cc1 c1 k1 s e1).1.nextIsRaw = (stepCore cc2 c2 k2 t e2).1.nextIsRaw ∧
        lex (stepCore cc1 c1 k1 s e1).2 = lex (stepCore cc2 c2 k2 t e2).2 from
      ⟨(stepCore_lex cc1 cc2 c1 c2 k1 k2 s t e1 e2 he h).1, by rw [stepCore_nextIsRaw, stepCore_nextIsRaw, hf],
       (stepCore_lex cc1 cc2 c1 c2 k1 k2 s t e1 e2 he h).2⟩)
  cases e1 <;> cases e2 <;> simp only [EvSim, reduceCtorEq] at he <;> try (cases he)
  all_goals
    simp only [step, hf]
    repeat' split
  all_goals first
    | exact ⟨h, hf, rfl⟩
    | exact ⟨h, rfl, rfl⟩
    | exact core _ _ _ _ (EvSim.refl _) h hf
    | exact core _ _ _ _ (EvSim.refl _) h rfl
    | exact core _ _ _ _ (by simp [EvSim]) h hf

theorem runFrom_lex (cc1 cc2 : CodeCfg) (c1 c2 : SerCfg) (k1 k2 : HKind) (es1 es2 : List Ev)
    (hes : EvsSim es1 es2) (s t : SSt) (h : s.elemStack = t.elemStack) (hf : s.nextIsRaw = t.nextIsRaw) :
    lex (runFrom cc1 c1 k1 s es1).2 = lex (runFrom cc2 c2 k2 t es2).2 := by
  induction hes generalizing s t with
  | nil => rfl
  | cons he _ ih =>
    simp only [runFrom]
    obtain ⟨a1, a1f, a2⟩ := step_lex cc1 cc2 c1 c2 k1 k2 s t _ _ he h hf
    simp [a2, ih _ _ a1 a1f]

theorem serialize_lex (cc1 cc2 : CodeCfg) (c1 c2 : SerCfg) (k1 k2 : HKind) (es1 es2 : List Ev)
    (hes : EvsSim es1 es2) :
    lex (serialize cc1 c1 k1 es1) = lex (serialize cc2 c2 k2 es2) := by
  have hd : ∀ (c : SerCfg) (k : HKind), lex (startDocument c k).2 = [] ∧ (startDocument c k).1.elemStack = [] ∧
      (startDocument c k).1.nextIsRaw = false := by
    intro c k
    unfold startDocument
    cases c.shouldWriteXMLHeader <;> cases c.doctypeSystem.isEmpty <;> cases k <;>
      simp [lex_cons, lexTok, HKind.lineSep]
  simp only [serialize, body, lex_append, (hd c1 k1).1, (hd c2 k2).1, endDocument, lex_indent, List.nil_append, List.append_nil]
  exact runFrom_lex cc1 cc2 c1 c2 k1 k2 es1 es2 hes _ _ (by rw [(hd c1 k1).2.1, (hd c2 k2).2.1])
    (by rw [(hd c1 k1).2.2, (hd c2 k2).2.2])

/-! ### engine events of a tree under two cdata-section-elements lists -/

mutual
theorem nodeEvents_sim (cd1 cd2 : List Str) (b1 b2 : Bool) : (t : Node) →
    EvsSim (nodeEvents cd1 b1 t) (nodeEvents cd2 b2 t)
  | .elem n a kids => by
    simp only [nodeEvents]
    refine EvsSim.cons (EvSim.refl _) ?_
    exact EvsSim.append (kidsEvents_sim cd1 cd2 _ _ kids) (EvsSim.cons (EvSim.refl _) EvsSim.nil)
  | .text t => by
    simp only [nodeEvents]
    refine EvsSim.cons ?_ EvsSim.nil
    cases b1 <;> cases b2 <;> simp [EvSim]
  | .rawText t => by simp only [nodeEvents]; exact EvsSim.cons (EvSim.refl _) EvsSim.nil
  | .rtfRawText t => by
    simp only [nodeEvents]
    refine EvsSim.cons (EvSim.refl _) (EvsSim.cons ?_ EvsSim.nil)
    cases b1 <;> cases b2 <;> simp [EvSim]
  | .comment t => by simp only [nodeEvents]; exact EvsSim.cons (EvSim.refl _) EvsSim.nil
  | .pi t d => by simp only [nodeEvents]; exact EvsSim.cons (EvSim.refl _) EvsSim.nil
theorem kidsEvents_sim (cd1 cd2 : List Str) (b1 b2 : Bool) : (ts : List Node) →
    EvsSim (kidsEvents cd1 b1 ts) (kidsEvents cd2 b2 ts)
  | [] => by simp only [kidsEvents]; exact EvsSim.nil
  | k :: ks => by
    simp only [kidsEvents]
    exact EvsSim.append (nodeEvents_sim cd1 cd2 b1 b2 k) (kidsEvents_sim cd1 cd2 b1 b2 ks)
end

/-! ### text method -/

theorem textMethod_append (a b : List Ev) : textMethod (a ++ b) = textMethod a ++ textMethod b := by
  induction a with
  | nil => rfl
  | cons e r ih => cases e <;> simp [textMethod, ih]

mutual
theorem textMethod_node (cd : List Str) (b : Bool) : (t : Node) → textMethod (nodeEvents cd b t) = t.stringValue
  | .elem n a kids => by
    simp only [nodeEvents, textMethod, textMethod_append, Node.stringValue, textMethod_kids cd _ kids, List.append_nil]
  | .text t => by cases b <;> simp [nodeEvents, textMethod, Node.stringValue]
  | .rawText t => by simp [nodeEvents, textMethod, Node.stringValue]
  | .rtfRawText t => by cases b <;> simp [nodeEvents, textMethod, Node.stringValue]
  | .comment t => by simp [nodeEvents, textMethod, Node.stringValue]
  | .pi t d => by simp [nodeEvents, textMethod, Node.stringValue]
theorem textMethod_kids (cd : List Str) (b : Bool) : (ts : List Node) → textMethod (kidsEvents cd b ts) = stringValueL ts
  | [] => by simp [kidsEvents, textMethod, stringValueL]
  | k :: ks => by simp only [kidsEvents, textMethod_append, stringValueL, textMethod_node cd b k, textMethod_kids cd b ks]
end

theorem textMethodEnc_some (maxc : Nat) (evs : List Ev) (out : Str) (h : textMethodEnc true maxc evs = some out) :
    out = textMethod evs ∧ out.all (· ≤ maxc) = true := by
  unfold textMethodEnc at h
  simp only [if_true] at h
  split at h
  · rename_i hall
    simp only [Option.some.injEq] at h
    subst h
    exact ⟨rfl, hall⟩
  · cases h

end XalanModel.C08
