import XalanModel.C08.Indent
/-
C08 — the vocabulary of the call-point translator (`translate/c08_callpoints.py`) and what the hand model
in `Indent.lean` assumes about the source: for every event handler of FormatterToXMLUnicode.hpp the ordered
list of calls that touch the indent handler / element stack, and the normalised bodies of
XalanIndentWriter.hpp's members.  `Props.C08.callpoints_match` states that the regenerated lists equal these.
-/
namespace XalanModel.C08

inductive Fn where
  | endDocument | startElement | endElement | charactersRaw | entityReference | comment
  | writeXMLHeader | writeProcessingInstruction | writeCharacters | writeCDATA | writeParentTagEnd
deriving Repr, DecidableEq, Inhabited

inductive Call where
  | generateDoctypeDecl | writeParentTagEnd | markParentForChildren
  | openElementForChildren | childNodesWereAdded | getNeedToOutputDoctypeDecl
  | setPreserve (b : Bool) | setPrevText (b : Bool) | setStartNewLine (b : Bool)
  | indent | increaseIndent | decreaseIndent | popPreserve | pushPreserve | outputLineSep
deriving Repr, DecidableEq, Inhabited

/-- the call sequences `Indent.lean` transcribes; the two optional `setPrevText true` are the proposed
repair (proposed/C08-cdata-raw-prevtext.diff) -/
def expectedCallPoints (cc : CodeCfg) : List (Fn × List Call) := [
  (Fn.endDocument, [Call.setStartNewLine true, Call.indent]),
  (Fn.startElement, [Call.generateDoctypeDecl, Call.writeParentTagEnd, Call.setPreserve false, Call.indent, Call.setStartNewLine true,
                  Call.openElementForChildren, Call.increaseIndent, Call.setPrevText false]),
  (Fn.endElement, [Call.decreaseIndent, Call.childNodesWereAdded, Call.indent, Call.popPreserve, Call.setPrevText false]),
  (Fn.charactersRaw, [Call.writeParentTagEnd, Call.setPreserve true] ++ (if cc.rawSetsPrevText then [Call.setPrevText true] else [])),
  (Fn.entityReference, [Call.writeParentTagEnd, Call.indent]),
  (Fn.comment, [Call.writeParentTagEnd, Call.indent, Call.setStartNewLine true]),
  (Fn.writeXMLHeader, [Call.getNeedToOutputDoctypeDecl, Call.outputLineSep]),
  (Fn.writeProcessingInstruction, [Call.writeParentTagEnd, Call.indent]),
  (Fn.writeCharacters, [Call.writeParentTagEnd, Call.setPreserve true, Call.setPrevText true]),
  (Fn.writeCDATA, [Call.writeParentTagEnd, Call.setPreserve true, Call.indent] ++ (if cc.cdataSetsPrevText then [Call.setPrevText true] else [])),
  (Fn.writeParentTagEnd, [Call.markParentForChildren, Call.setPrevText false, Call.pushPreserve])]

/-- normalised (all white space removed) bodies of the members of `XalanIndentWriter` the model transcribes -/
def expectedIndentWriter : List (String × String) := [
  ("indent", "if(shouldIndent()){if(m_startNewLine==true){m_newLineWriter();}m_whiteSpaceWriter(m_currentIndent);}"),
  ("increaseIndent", "m_currentIndent+=m_indent;"),
  ("decreaseIndent", "assert(m_currentIndent>=m_indent);m_currentIndent-=m_indent;"),
  ("setStartNewLine", "m_startNewLine=value;"),
  ("outputLineSep", "m_newLineWriter();"),
  ("setPrevText", "m_isprevtext=value;"),
  ("setPreserve", "m_ispreserve=value;"),
  ("pop_preserve", "if(m_preserves.empty()){m_ispreserve=false;}else{m_ispreserve=m_preserves.back();m_preserves.pop_back();}"),
  ("push_preserve", "m_preserves.push_back(m_ispreserve);"),
  ("shouldIndent", "return(!m_ispreserve&&!m_isprevtext);")]

/-- every member of `XalanDummyIndentWriter` the serializer calls has an empty body -/
def expectedDummyWriter : List (String × String) := [
  ("indent", ""), ("increaseIndent", ""), ("decreaseIndent", ""), ("setStartNewLine", ""),
  ("outputLineSep", ""), ("setPrevText", ""), ("setPreserve", ""), ("pop_preserve", ""), ("push_preserve", "")]

/-- the functions that test `m_nextIsRaw` (the models transcribe the first two, the fourth through sixth are the
FormatterToXML base of FormatterToHTML and FormatterToHTML itself; FormatterToText has no such flag) -/
def expectedRawFlagConsumers : List (String × String) := [
  ("XalanXMLSerializerBase", "characters"), ("XalanXMLSerializerBase", "cdata"),
  ("FormatterToXML", "characters"), ("FormatterToXML", "ignorableWhitespace"), ("FormatterToXML", "cdata"),
  ("FormatterToHTML", "characters")]

def expectedRawFlagSetters : List (String × String) := [
  ("XalanXMLSerializerBase", "processingInstruction"), ("FormatterToXML", "processingInstruction"),
  ("FormatterToHTML", "processingInstruction")]

end XalanModel.C08
