import XalanModel.C08.IndentProofs
/-!
The raw flag (`m_nextIsRaw`) of the XML serializer affects exactly the next non-empty text event, whichever method
(`characters` or `cdata`) delivers it: running the serializer is running its FormatterToXMLUnicode level on the event
list in which every marker is resolved against the text event it announces.
-/
namespace XalanModel.C08

/-- fold of the FormatterToXMLUnicode level (no `m_nextIsRaw` anywhere) -/
def runCore (cc : CodeCfg) (c : SerCfg) (k : HKind) : SSt → List Ev → SSt × List Tok
  | s, [] => (s, [])
  | s, e :: es =>
    let (s1, o1) := stepCore cc c k s e
    let (s2, o2) := runCore cc c k s1 es
    (s2, o1 ++ o2)

/-- resolve the markers: `pending` = a marker was seen and no non-empty text event since.  The marker disappears, the
next non-empty `characters`/`cdata` event becomes a `charactersRaw` call, every later text event is untouched. -/
def resolveRaw : Bool → List Ev → List Ev
  | _, [] => []
  | p, .pi t d :: r => if isRawMarker t d then resolveRaw true r else .pi t d :: resolveRaw p r
  | p, .characters t :: r =>
    if t.isEmpty then resolveRaw p r
    else if p then .raw t :: resolveRaw false r else .characters t :: resolveRaw false r
  | p, .cdata t :: r =>
    if t.isEmpty then resolveRaw p r
    else if p then .raw t :: resolveRaw false r else .cdata t :: resolveRaw false r
  | p, e :: r => e :: resolveRaw p r

def SSt.noFlag (s : SSt) : SSt := { s with nextIsRaw := false }

theorem noFlag_setFlag (s : SSt) (b : Bool) : ({ s with nextIsRaw := b } : SSt).noFlag = s.noFlag := rfl

theorem noFlag_of_false (x : SSt) (h : x.nextIsRaw = false) : x.noFlag = x := by
  cases x; simp_all [SSt.noFlag]

theorem stepCore_noFlag (cc : CodeCfg) (c : SerCfg) (k : HKind) (s : SSt) (e : Ev) :
    stepCore cc c k s.noFlag e = ((stepCore cc c k s e).1.noFlag, (stepCore cc c k s e).2) :=
  stepCore_setFlag cc c k s e false

theorem runFrom_resolveRaw (cc : CodeCfg) (c : SerCfg) (k : HKind) (evs : List Ev) (s : SSt) :
    (runFrom cc c k s evs).1.noFlag = (runCore cc c k s.noFlag (resolveRaw s.nextIsRaw evs)).1 ∧
    (runFrom cc c k s evs).2 = (runCore cc c k s.noFlag (resolveRaw s.nextIsRaw evs)).2 := by
  induction evs generalizing s with
  | nil => exact ⟨rfl, rfl⟩
  | cons e es ih =>
    -- an event that the serializer base passes straight on
    have pass : ∀ e', step cc c k s e' = stepCore cc c k s e' →
        resolveRaw s.nextIsRaw (e' :: es) = e' :: resolveRaw s.nextIsRaw es →
        (runFrom cc c k s (e' :: es)).1.noFlag = (runCore cc c k s.noFlag (resolveRaw s.nextIsRaw (e' :: es))).1 ∧
        (runFrom cc c k s (e' :: es)).2 = (runCore cc c k s.noFlag (resolveRaw s.nextIsRaw (e' :: es))).2 := by
      intro e' h1 h2
      obtain ⟨i1, i2⟩ := ih (stepCore cc c k s e').1
      rw [stepCore_nextIsRaw] at i1 i2
      simp only [runFrom, h1, h2, runCore, stepCore_noFlag]
      exact ⟨i1, by rw [i2]⟩
    -- a text event consumed as raw text
    have rawc : ∀ (e' : Ev) (t : Str), s.nextIsRaw = true →
        step cc c k s e' = stepCore cc c k { s with nextIsRaw := false } (.raw t) →
        resolveRaw s.nextIsRaw (e' :: es) = .raw t :: resolveRaw false es →
        (runFrom cc c k s (e' :: es)).1.noFlag = (runCore cc c k s.noFlag (resolveRaw s.nextIsRaw (e' :: es))).1 ∧
        (runFrom cc c k s (e' :: es)).2 = (runCore cc c k s.noFlag (resolveRaw s.nextIsRaw (e' :: es))).2 := by
      intro e' t _ h1 h2
      obtain ⟨i1, i2⟩ := ih (stepCore cc c k { s with nextIsRaw := false } (.raw t)).1
      rw [stepCore_nextIsRaw] at i1 i2
      simp only [runFrom, h1, h2, runCore]
      have hs : ({ s with nextIsRaw := false } : SSt) = s.noFlag := rfl
      rw [hs] at i1 i2 ⊢
      have hn : (stepCore cc c k s.noFlag (.raw t)).1.noFlag = (stepCore cc c k s.noFlag (.raw t)).1 :=
        noFlag_of_false _ (by rw [stepCore_nextIsRaw]; rfl)
      rw [hn] at i1 i2
      exact ⟨i1, by rw [i2]; rfl⟩
    -- an event without effect
    have skip : ∀ e', step cc c k s e' = (s, []) → resolveRaw s.nextIsRaw (e' :: es) = resolveRaw s.nextIsRaw es →
        (runFrom cc c k s (e' :: es)).1.noFlag = (runCore cc c k s.noFlag (resolveRaw s.nextIsRaw (e' :: es))).1 ∧
        (runFrom cc c k s (e' :: es)).2 = (runCore cc c k s.noFlag (resolveRaw s.nextIsRaw (e' :: es))).2 := by
      intro e' h1 h2
      obtain ⟨i1, i2⟩ := ih s
      simp only [runFrom, h1, h2, List.nil_append]
      exact ⟨i1, i2⟩
    cases e with
    | startElement n a => exact pass _ rfl rfl
    | endElement n => exact pass _ rfl rfl
    | raw t => exact pass _ rfl rfl
    | comment t => exact pass _ rfl rfl
    | pi t d =>
      by_cases hm : isRawMarker t d = true
      · obtain ⟨i1, i2⟩ := ih { s with nextIsRaw := true }
        simp only [runFrom, step, resolveRaw, hm, if_true, List.nil_append]
        exact ⟨i1, i2⟩
      · exact pass _ (by simp [step, hm]) (by simp [resolveRaw, hm])
    | characters t =>
      by_cases he : t.isEmpty = true
      · exact skip _ (by simp [step, he]) (by simp [resolveRaw, he])
      · by_cases hr : s.nextIsRaw = true
        · exact rawc _ t hr (by simp [step, he, hr]) (by simp [resolveRaw, he, hr])
        · have hr' : s.nextIsRaw = false := by simpa using hr
          have := pass (.characters t) (by simp [step, he, hr']) (by simp [resolveRaw, he, hr'])
          exact this
    | cdata t =>
      by_cases he : t.isEmpty = true
      · exact skip _ (by simp [step, he]) (by simp [resolveRaw, he])
      · by_cases hr : s.nextIsRaw = true
        · exact rawc _ t hr (by simp [step, he, hr]) (by simp [resolveRaw, he, hr])
        · have hr' : s.nextIsRaw = false := by simpa using hr
          exact pass (.cdata t) (by simp [step, he, hr']) (by simp [resolveRaw, he, hr'])

/-- the document written by the FormatterToXMLUnicode level alone -/
def serializeCore (cc : CodeCfg) (c : SerCfg) (k : HKind) (evs : List Ev) : List Tok :=
  let (s0, h) := startDocument c k
  let (s1, o) := runCore cc c k s0 evs
  h ++ (o ++ endDocument k s1)

theorem endDocument_noFlag (k : HKind) (s : SSt) : endDocument k s.noFlag = endDocument k s := rfl

theorem startDocument_noFlag (c : SerCfg) (k : HKind) :
    (startDocument c k).1.noFlag = (startDocument c k).1 ∧ (startDocument c k).1.nextIsRaw = false := by
  unfold startDocument
  cases c.shouldWriteXMLHeader <;> simp [SSt.noFlag]

theorem serialize_resolveRaw (cc : CodeCfg) (c : SerCfg) (k : HKind) (evs : List Ev) :
    serialize cc c k evs = serializeCore cc c k (resolveRaw false evs) := by
  obtain ⟨h1, h2⟩ := runFrom_resolveRaw cc c k evs (startDocument c k).1
  obtain ⟨n1, n2⟩ := startDocument_noFlag c k
  rw [n1, n2] at h1 h2
  simp only [serialize, body, serializeCore]
  rw [h2, ← endDocument_noFlag k (runFrom cc c k (startDocument c k).1 evs).1, h1]

end XalanModel.C08
